"""checks/seed_store.py <seed-id> <property> <verify-json> <check-result-text> -- <change> -- <needs>
Store a confirmed seeded change under /verif/seeded/<seed-id>/ and remove its scratch worktree."""
import json, os, shutil, subprocess, sys
ROOT = os.path.abspath(os.path.join(os.path.dirname(os.path.abspath(__file__)), ".."))
sid, prop, verify, result = sys.argv[1:5]
rest = (" " + " ".join(sys.argv[5:])).split(" -- ")
change, needs = rest[1].strip(), rest[2].strip()
wt = f"/tmp/seed/{sid}"
dst = os.path.join(ROOT, "seeded", sid)
os.makedirs(dst, exist_ok=True)
for f in ("patch.diff", "demo.diff", "README.md"):
    shutil.copy2(os.path.join(wt, "SEED", f), os.path.join(dst, f))
meta = dict(seed=sid, property=prop, change=change, needs=needs,
            verified=json.loads(verify),
            ran=["checks/seed_verify.sh (scratch worktree: existing tests of the touched crate pass with the change; demo fails with / passes without)",
                 f"bin/mutate-check {prop} seeded/{sid}/patch.diff"],
            check_result=result)
json.dump(meta, open(os.path.join(dst, "meta.json"), "w"), indent=1)
subprocess.run(["git", "-C", "/repo", "worktree", "remove", "--force", wt])
print("stored", dst)
