#!/usr/bin/env python3
"""checks/regen_clean.py — regenerate every translator output (lean/Gmx/Gen/*, c19_specs.json, …) from a CLEAN /repo,
holding the shared repo lock so that no `bin/mutate-check` can have a patch applied meanwhile. Run before committing
generated files: a mutate-check run leaves them in the mutated state until the next clean check."""
import fcntl, os, subprocess, sys
ROOT = os.path.abspath(os.path.join(os.path.dirname(os.path.abspath(__file__)), ".."))
ts = open(os.path.join(ROOT, ".lock-turnstile"), "w"); fcntl.flock(ts, fcntl.LOCK_SH)
rl = open(os.path.join(ROOT, ".lock-repo"), "w"); fcntl.flock(rl, fcntl.LOCK_SH)
ts.close()
st = subprocess.run(["git", "-C", "/repo", "status", "--short"], capture_output=True, text=True).stdout
if st.strip():
    print("regen_clean: /repo has uncommitted changes, refusing:\n" + st); sys.exit(1)
r = subprocess.run([sys.executable, "checks/gen_all.py"], cwd=ROOT)
sys.exit(r.returncode)
