"""Consistency self-check of /verif (run with python3-vt for jsonschema)."""
import json, os, subprocess, sys
ROOT = os.path.abspath(os.path.join(os.path.dirname(os.path.abspath(__file__)), ".."))
bad = []
try:
    import jsonschema
except ImportError:
    jsonschema = None
man = json.load(open(os.path.join(ROOT, "MANIFEST.json")))
if jsonschema:
    jsonschema.validate(man, json.load(open("/root/.vp/MANIFEST.schema.json")))
ids = [json.loads(l)["id"] for l in open(os.path.join(ROOT, "properties.jsonl"))]
claimed = {c["property_id"] for c in man["checks"]}
na = {n["property_id"] for n in man.get("not_applicable", [])}
for i in ids:
    if (i in claimed) == (i in na): bad.append(f"{i}: must be exactly one of claimed / not_applicable")
evs = json.load(open("/root/.vp/EVIDENCE.schema.json"))
for c in man["checks"]:
    p = os.path.join(ROOT, c["evidence_file"])
    if not os.path.exists(p): bad.append(f"{c['property_id']}: evidence file missing"); continue
    e = json.load(open(p))
    if jsonschema:
        try: jsonschema.validate(e, evs)
        except Exception as ex: bad.append(f"{c['property_id']}: evidence invalid: {str(ex)[:120]}")
    if e.get("violations"): bad.append(f"{c['property_id']}: committed evidence records violations")
    cov = e["coverage"]
    if cov.get("obligations") != cov.get("discharged"): bad.append(f"{c['property_id']}: obligations != discharged in evidence")
log = subprocess.run(["git", "-C", "/repo", "log", "--format=%H %s"], capture_output=True, text=True).stdout
for h in man["hooks"].get("source_commits", []):
    if not any(l.startswith(h) or l.split()[0].startswith(h) for l in log.split("\n") if l): bad.append(f"hook commit {h} not in /repo history")
subjects = [l.split(" ", 1)[1] for l in log.split("\n") if " " in l]
for s in subjects:
    if not (s.startswith("fix:") or s.startswith("verif-hooks") or s == "snapshot"): bad.append(f"/repo commit with unexpected subject: {s[:60]}")
kf = json.load(open(os.path.join(ROOT, "known-findings.json")))
for f in kf["findings"]:
    if f["property"] not in claimed: bad.append(f"finding {f['id']} for unclaimed property")
print("\n".join(bad) if bad else f"selfcheck ok: {len(claimed)} claimed, {len(na)} not applicable, {len(kf['findings'])} known findings, {len(kf['fixed'])} fixed")
sys.exit(1 if bad else 0)
