"""Regenerate MANIFEST.json from checks/props.py and checks/na.py (kept valid at all times)."""
import json, os, sys
ROOT = os.path.abspath(os.path.join(os.path.dirname(os.path.abspath(__file__)), ".."))
sys.path.insert(0, os.path.dirname(os.path.abspath(__file__)))
from props import PROPS
ids = [json.loads(l)["id"] for l in open(os.path.join(ROOT, "properties.jsonl"))]
checks = []
for pid in ids:
    if pid not in PROPS: continue
    c = PROPS[pid]
    checks.append(dict(
        property_id=pid,
        quick_cmd=f"bin/check {pid} quick",
        thorough_cmd=f"bin/check {pid} thorough",
        evidence_file=f"evidence/{pid}.json",
        replay_cmd_template=f"bin/check {pid} --replay {{path}}",
        engine=c.get("engine", "lean4+correspondence"),
        level_claimed=dict(category=c.get("level", "proof"), text=c.get("level_text", "Lean 4 theorems about a model of the code, for all inputs; the model is tied to /repo's current tree by a correspondence run (real code vs. the model's executable definitions on the same inputs) and, where the code is a table, by a translator that regenerates the model."), design_ref=f"DESIGN.md section 6, {pid}"),
        level_note=c.get("level_note", "Trusted: Lean kernel, axioms propext/Classical.choice/Quot.sound, the correspondence harness and its generator coverage, Rust integer semantics. " + "; ".join(c.get("assumptions", []))),
        technique=c.get("technique", "Lean 4 machine-checked proof + differential correspondence check"),
    ))
na = [dict(property_id=pid, reason="not yet claimed: check under construction (see DESIGN.md section 6)") for pid in ids if pid not in PROPS]
m = dict(
    version=1,
    setup_cmd="bin/setup",
    hooks=dict(guard="verif-hooks", enable="harness crates depend on the /repo crates with features=[\"verif-hooks\"] (cargo feature)",
               baseline_off_cmd="cd /repo && cargo test --workspace --no-fail-fast --offline",
               source_commits=json.load(open(os.path.join(ROOT, "checks", "hook_commits.json"))) if os.path.exists(os.path.join(ROOT, "checks", "hook_commits.json")) else [],
               add_only=True),
    engines=[dict(name="lean4+correspondence", path="lean/ harness/ checks/runner.py", serves_properties=[c["property_id"] for c in checks],
                  kind_free_text="Lean 4 proofs over an executable model; Rust harness runs the real code and diffs against the Lean driver")],
    checks=checks,
    notes="All checks go through bin/check; see DESIGN.md.",
    not_applicable=na,
)
json.dump(m, open(os.path.join(ROOT, "MANIFEST.json"), "w"), indent=1)
print(f"{len(checks)} checks, {len(na)} not yet claimed")
