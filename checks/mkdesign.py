"""Refresh the generated appendix of DESIGN.md (per-property implementation notes from design.d/*.md
and the check table from MANIFEST.json / evidence)."""
import json, os, re
ROOT = os.path.abspath(os.path.join(os.path.dirname(os.path.abspath(__file__)), ".."))
D = os.path.join(ROOT, "DESIGN.md")
s = open(D).read()
BEGIN, END = "<!-- BEGIN GENERATED APPENDIX -->", "<!-- END GENERATED APPENDIX -->"
if BEGIN in s:
    s = s[: s.index(BEGIN)].rstrip() + "\n"
out = [BEGIN, "", "## Appendix G — per-property implementation notes (generated from design.d/ by checks/mkdesign.py)", ""]
man = json.load(open(os.path.join(ROOT, "MANIFEST.json")))
out += ["| property | theorems+examples | quick wall (s) | cases | axioms |", "|---|---|---|---|---|"]
for c in man["checks"]:
    pid = c["property_id"]
    ev = os.path.join(ROOT, "evidence", pid + ".json")
    if os.path.exists(ev):
        e = json.load(open(ev)); cov = e["coverage"]
        ax = [t for t in cov.get("trusted_base", []) if t.startswith("axioms used")]
        out.append(f"| {pid} | {cov.get('discharged')}/{cov.get('obligations')} | {e.get('wall_s')} | {cov.get('evaluations')} | {ax[0][13:] if ax else ''} |")
    else:
        out.append(f"| {pid} | (no evidence yet) | | | |")
out.append("")
kf = json.load(open(os.path.join(ROOT, "known-findings.json")))
out += ["#### Known findings (generated from known-findings.json)", "", "| id | property | what fails | predicate | witness |", "|---|---|---|---|---|"]
for f in kf["findings"]:
    cell = lambda x: str(x or "").replace("|", "/").replace("\n", " ")
    out.append(f"| {f['id']} | {f['property']} | {cell(f.get('what'))} | {cell(f.get('predicate'))} | {cell(f.get('witness'))} |")
out += ["", "#### Repaired defects (`fixed:` entries)", ""] + [f"* {x}" for x in kf["fixed"]] + [""]
sd = os.path.join(ROOT, "seeded")
if os.path.isdir(sd):
    out += ["#### Seeded changes (independent sub-agents) and what the checks reported", "",
            "| seed | property | change | needs to manifest | check result |", "|---|---|---|---|---|"]
    for d in sorted(os.listdir(sd)):
        mp = os.path.join(sd, d, "meta.json")
        if os.path.exists(mp):
            m = json.load(open(mp))
            out.append(f"| {d} | {m.get('property')} | {m.get('change','').replace('|','/')} | {m.get('needs','').replace('|','/')} | {m.get('check_result','').replace('|','/')} |")
    out.append("")
dd = os.path.join(ROOT, "design.d")
for f in sorted(os.listdir(dd)):
    if f.endswith(".md"):
        txt = open(os.path.join(dd, f)).read().strip()
        txt = re.sub(r"^# ", "### ", txt, flags=re.M)
        out += [txt, ""]
out.append(END)
open(D, "w").write(s + "\n" + "\n".join(out) + "\n")
print("DESIGN.md appendix refreshed:", len(out), "lines")
