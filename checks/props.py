"""Per-property configuration for bin/check."""
COMMON_TRUST = [
    "correspondence harness (Rust, /verif/harness) and line-protocol diff — checked by differential testing, not proved",
    "Rust integer semantics, ruint::U256 widening — modelled as exact Nat/Int arithmetic with fit tests",
]

PROPS = {
    "C01": dict(
        lean="Gmx.Props.C01",
        harness=[dict(pkg="h_model", bin="c01", quick_n=40000, thorough_n=3200000)],
        trusted=COMMON_TRUST + ["non-integer exponents (rust_decimal::powd) are not modelled (outside C01's integer-exponent pow)"],
        assumptions=["the Lean model Gmx.Model.Num is a hand transcription of crates/model/src/{num,utils,fixed}.rs, tied by the correspondence run"],
    ),
}
