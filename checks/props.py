"""Per-property configuration for bin/check: one JSON file per property in checks/props.d/."""
import json, os
COMMON_TRUST = [
    "correspondence harness (Rust, /verif/harness) and line-protocol diff — checked by differential testing, not proved",
    "Rust integer semantics, ruint::U256 widening — modelled as exact Nat/Int arithmetic with fit tests",
]
PROPS = {}
_d = os.path.join(os.path.dirname(os.path.abspath(__file__)), "props.d")
for _f in sorted(os.listdir(_d)):
    if _f.endswith(".json"):
        _c = json.load(open(os.path.join(_d, _f)))
        _c["trusted"] = COMMON_TRUST + _c.get("trusted", [])
        PROPS[_f[:-5]] = _c
