#!/usr/bin/env bash
# checks/seed_queue.sh — worker for the seeded-change study (scratch tooling, not a registered check).
# Reads lines "<seed-id> <prop> <crate> <demo-skip|-> <cargo test args…>" appended to /tmp/seed/queue.txt,
# runs checks/seed_verify.sh in the seed's worktree and then bin/mutate-check <prop> with its patch.
cd "$(dirname "$0")/.."
Q=/tmp/seed/queue.txt; DONE=/tmp/seed/queue.done; touch $Q $DONE
while true; do
  line=$(grep -vxFf $DONE $Q | head -1)
  if [ -z "$line" ]; then sleep 15; continue; fi
  set -- $line; id=$1; prop=$2; crate=$3; skip=$4; shift 4
  if grep -q existing_tests /tmp/seed/sv-$id.json 2>/dev/null; then :
  elif [ "$skip" = "-" ]; then checks/seed_verify.sh /tmp/seed/$id $crate "$@" > /tmp/seed/sv-$id.json 2>&1
  else DEMO_SKIP=$skip checks/seed_verify.sh /tmp/seed/$id $crate "$@" > /tmp/seed/sv-$id.json 2>&1; fi
  bin/mutate-check $prop /tmp/seed/$id/SEED/patch.diff > /tmp/seed/mc-$id.log 2>&1
  echo "$line" >> $DONE
done
