"""Run every translator step once (setup)."""
import os, subprocess, sys
ROOT = os.path.abspath(os.path.join(os.path.dirname(os.path.abspath(__file__)), ".."))
sys.path.insert(0, os.path.dirname(os.path.abspath(__file__)))
from props import PROPS
done = set()
for p, cfg in PROPS.items():
    for step in cfg.get("gen", []):
        if step in done: continue
        done.add(step)
        subprocess.run([sys.executable, os.path.join(ROOT, "translator", step)], cwd=ROOT)
