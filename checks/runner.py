"""Check pipeline shared by all properties (see DESIGN.md section 2.4 / 2.5)."""
import fcntl, json, os, re, subprocess, sys, time, hashlib, shutil
from concurrent.futures import ThreadPoolExecutor

ROOT = os.path.abspath(os.path.join(os.path.dirname(os.path.abspath(__file__)), ".."))
LEAN = os.path.join(ROOT, "lean")
HARNESS = os.path.join(ROOT, "harness")
DRIVER = os.path.join(LEAN, ".lake", "build", "bin", "gmxdriver")
ALLOWED_AXIOMS = {"propext", "Classical.choice", "Quot.sound"}
FORBIDDEN = re.compile(r"\b(sorry|admit|native_decide|bv_decide|implemented_by)\b|^\s*axiom\s|unsafe\s|maxHeartbeats\s+0\b")
ENV = dict(os.environ, CARGO_NET_OFFLINE="true", CARGO_TERM_COLOR="never")

sys.path.insert(0, os.path.dirname(os.path.abspath(__file__)))
from props import PROPS  # noqa: E402


class Lock:
    def __init__(self, name):
        self.path = os.path.join(ROOT, ".lock-" + name)

    def __enter__(self):
        self.f = open(self.path, "w")
        fcntl.flock(self.f, fcntl.LOCK_EX)

    def __exit__(self, *a):
        fcntl.flock(self.f, fcntl.LOCK_UN)
        self.f.close()


def run(cmd, cwd=None, timeout=None, inp=None):
    p = subprocess.run(cmd, cwd=cwd, env=ENV, input=inp, stdout=subprocess.PIPE, stderr=subprocess.STDOUT,
                       timeout=timeout, text=True)
    return p.returncode, p.stdout


# ---------------------------------------------------------------- Lean side

def strip_comments(src):
    # remove block comments (nested) and line comments
    out, i, depth = [], 0, 0
    while i < len(src):
        if src.startswith("/-", i):
            depth += 1; i += 2; continue
        if depth and src.startswith("-/", i):
            depth -= 1; i += 2; continue
        if depth:
            if src[i] == "\n": out.append("\n")
            i += 1; continue
        if src.startswith("--", i):
            while i < len(src) and src[i] != "\n": i += 1
            continue
        out.append(src[i]); i += 1
    return "".join(out)


def lean_closure(module):
    """Local (Gmx.*/Driver.*) modules reachable from `module` through imports."""
    seen, todo = [], [module]
    while todo:
        m = todo.pop()
        if m in seen: continue
        path = os.path.join(LEAN, *m.split(".")) + ".lean"
        if not os.path.exists(path): continue
        seen.append(m)
        for line in open(path):
            mm = re.match(r"\s*import\s+(\S+)", line)
            if mm and (mm.group(1).startswith("Gmx") or mm.group(1).startswith("Driver")):
                todo.append(mm.group(1))
    return seen


def enclosing_decl(path, line_no):
    name = "?"
    try:
        lines = open(path).read().split("\n")
        for i in range(min(line_no, len(lines)) - 1, -1, -1):
            m = re.match(r"\s*(?:private\s+)?(theorem|lemma|example|def)\s*(\S*)", lines[i])
            if m:
                name = (m.group(1) + " " + m.group(2)).strip(); break
    except OSError:
        pass
    return name


def lean_check(prop, cfg, tier):
    """Returns dict(ok, obligations, discharged, broken[list of str], axioms, log)"""
    module = cfg["lean"]
    res = dict(ok=True, obligations=0, discharged=0, broken=[], axioms=[], theorems=[], log="")
    with Lock("lake"):
        run([sys.executable, os.path.join(ROOT, "checks", "gen_main.py")], cwd=ROOT)
        rc, out = run(["lake", "build", module, "gmxdriver"], cwd=LEAN, timeout=3600)
        # private copy of the driver: another check may relink gmxdriver while this one runs
        if rc == 0 and os.path.exists(DRIVER):
            os.makedirs(os.path.join(ROOT, "replays"), exist_ok=True)
            priv = os.path.join(ROOT, "replays", f".gmxdriver-{os.getpid()}")
            shutil.copy2(DRIVER, priv)
            globals()["DRIVER_PRIVATE"] = priv
    res["log"] = out[-6000:]
    props_file = os.path.join(LEAN, *module.split(".")) + ".lean"
    src = strip_comments(open(props_file).read())
    ns = re.search(r"^namespace\s+(\S+)", src, re.M)
    ns = ns.group(1) if ns else ""
    theorems = re.findall(r"^theorem\s+(\S+)", src, re.M)
    examples = len(re.findall(r"^example\b", src, re.M))
    res["theorems"] = theorems
    res["obligations"] = len(theorems) + examples
    if rc != 0:
        res["ok"] = False
        broken = set()
        for m in re.finditer(r"error: (\S+?\.lean):(\d+):(\d+): (.*)", out):
            f = os.path.join(LEAN, m.group(1)) if not os.path.isabs(m.group(1)) else m.group(1)
            broken.add(f"{os.path.relpath(f, LEAN)}:{m.group(2)} in {enclosing_decl(f, int(m.group(2)))}: {m.group(4)[:160]}")
        if not broken:
            broken.add("lake build failed: " + out[-400:].replace("\n", " | "))
        res["broken"] = sorted(broken)
        return res
    # forbidden constructs in everything the property file depends on
    for m in lean_closure(module):
        p = os.path.join(LEAN, *m.split(".")) + ".lean"
        for i, line in enumerate(strip_comments(open(p).read()).split("\n"), 1):
            if FORBIDDEN.search(line):
                res["ok"] = False
                res["broken"].append(f"{os.path.relpath(p, LEAN)}:{i}: forbidden construct: {line.strip()[:100]}")
    # axiom audit
    os.makedirs(os.path.join(LEAN, ".audit"), exist_ok=True)
    audit = os.path.join(LEAN, ".audit", f"Audit_{prop}.lean")
    with open(audit, "w") as f:
        f.write(f"import {module}\n")
        for t in theorems:
            f.write(f"#print axioms {ns + '.' if ns else ''}{t}\n")
    rc, out = run(["lake", "env", "lean", audit], cwd=LEAN, timeout=1800)
    used = set()
    seen_thms = 0
    for m in re.finditer(r"'([^']+)' (depends on axioms: \[([^\]]*)\]|does not depend on any axioms)", out.replace("\n ", " ")):
        seen_thms += 1
        if m.group(3):
            for a in m.group(3).split(","):
                used.add(a.strip())
    res["axioms"] = sorted(used)
    bad = used - ALLOWED_AXIOMS
    if rc != 0 or seen_thms != len(theorems):
        res["ok"] = False
        res["broken"].append(f"axiom audit failed (rc={rc}, {seen_thms}/{len(theorems)} theorems reported): {out[-300:]}")
    if bad:
        res["ok"] = False
        res["broken"].append("axioms outside the trusted base: " + ", ".join(sorted(bad)))
    if tier == "thorough" and res["ok"]:
        rc, out = run(["lake", "env", "leanchecker", module], cwd=LEAN, timeout=3600)
        res["leanchecker_rc"] = rc
        if rc != 0:
            res["ok"] = False
            res["broken"].append("leanchecker rejected " + module + ": " + out[-300:])
    if res["ok"]:
        res["discharged"] = res["obligations"]
    return res


# ---------------------------------------------------------------- translator

def translate(prop, cfg):
    """Run translator steps; returns list of failure strings."""
    fails = []
    for step in cfg.get("gen", []):
        rc, out = run([sys.executable, os.path.join(ROOT, "translator", step)], cwd=ROOT, timeout=600)
        if rc != 0:
            fails.append(f"translator {step} failed closed: {out[-500:].strip()}")
    return fails


# ---------------------------------------------------------------- harness side

def cargo_build(pkg, binname):
    with Lock("cargo"):
        rc, out = run(["cargo", "build", "--offline", "--release", "-p", pkg, "--bin", binname], cwd=HARNESS, timeout=7200)
    return rc, out


def harness_bin(binname):
    return os.path.join(HARNESS, "target", "release", binname)


def parse_harness(out):
    cases, fails, known, stats = [], [], [], {}
    for line in out.split("\n"):
        if not line: continue
        if line.startswith("#STAT "):
            _, k, v = line.split(" ", 2)
            stats[k] = stats.get(k, 0) + int(v)
        elif line.startswith("!ORACLE "):
            what, _, req = line[8:].partition(" :: ")
            fails.append((what, req))
        elif line.startswith("!KNOWN "):
            rest, _, req = line[7:].partition(" :: ")
            fid, _, what = rest.partition(" ")
            known.append((fid, what, req))
        elif line.startswith("#") or line.startswith("!"):
            continue
        else:
            parts = line.split("\t")
            if len(parts) >= 2:
                cases.append((parts[0], parts[1], len(parts) > 2 and parts[2] == "nt"))
    return cases, fails, known, stats


def drive(reqs):
    """Feed request lines to the Lean driver; returns response lines."""
    if not reqs: return []
    rc, out = run([globals().get("DRIVER_PRIVATE", DRIVER)], inp="\n".join(reqs) + "\n", timeout=3600)
    return out.split("\n")[:len(reqs)]


def history_for(cases, idx, stateful):
    """The replay for case idx: the request itself, or for stateful engines every earlier request
    of the same state id (3rd token)."""
    req = cases[idx][0]
    if not stateful: return [req]
    toks = req.split(" ")
    sid = toks[2] if len(toks) > 2 else None
    return [c[0] for c in cases[: idx + 1] if len(c[0].split(" ")) > 2 and c[0].split(" ")[2] == sid]


def run_harness(h, mode_args, timeout):
    """Run a harness binary; its protocol stream goes to a private file (program logs may pollute stdout)."""
    import tempfile
    fd, outp = tempfile.mkstemp(prefix="hout-", dir=os.path.join(ROOT, "replays"))
    os.close(fd)
    env = dict(ENV, HARNESS_OUT_FILE=outp)
    try:
        p = subprocess.run([harness_bin(h["bin"])] + mode_args, env=env, stdout=subprocess.DEVNULL, stderr=subprocess.PIPE,
                           timeout=timeout, text=True)
        out = open(outp, errors="replace").read()
        return p.returncode, out, p.stderr[-2000:]
    except subprocess.TimeoutExpired:
        return -9, "", "timeout"
    finally:
        try: os.unlink(outp)
        except OSError: pass


def correspondence(prop, h, seeds, n, corpus_files, timeout):
    """Run one harness binary: corpus first, then generated cases for each seed (in parallel).
    Returns dict with cases/fails/known/stats/disagreements."""
    jobs = [("replay", f) for f in corpus_files] + [("gen", s) for s in seeds]

    def one(job):
        kind, arg = job
        args = ["replay", arg] if kind == "replay" else ["gen", str(arg), str(n)] + [str(x) for x in h.get("extra_args", [])]
        rc, out, err = run_harness(h, args, timeout)
        cases, fails, known, stats = parse_harness(out)
        crashed = None
        if rc != 0:
            crashed = f"harness {h['bin']} {' '.join(args)} exited {rc}: {err[-300:]}"
        model = drive([c[0] for c in cases])
        dis = []
        for i, (c, m) in enumerate(zip(cases, model)):
            if c[1] != m:
                dis.append(dict(index=i, request=c[0], impl=c[1], model=m,
                                history=history_for(cases, i, h.get("stateful", False))))
                if len(dis) >= 20: break
        if len(model) < len(cases):
            dis.append(dict(index=len(model), request=cases[len(model)][0], impl=cases[len(model)][1], model="<driver stopped>",
                            history=history_for(cases, len(model), h.get("stateful", False))))
        fl = []
        for what, req in fails:
            idx = next((i for i, c in enumerate(cases) if c[0] == req), None)
            hist = history_for(cases, idx, h.get("stateful", False)) if idx is not None else [req]
            fl.append(dict(what=what, request=req, history=hist))
        return dict(job=job, cases=cases, fails=fl, known=known, stats=stats, dis=dis, crashed=crashed)

    with ThreadPoolExecutor(max_workers=min(16, max(1, len(jobs)))) as ex:
        results = list(ex.map(one, jobs))
    agg = dict(cases=0, nontrivial=set(), fails=[], known=[], stats={}, dis=[], crashed=[], samples=[], distinct=set())
    for r in results:
        agg["cases"] += len(r["cases"])
        for c in r["cases"]:
            hsh = hashlib.blake2b(c[0].encode(), digest_size=8).digest()
            if c[2]: agg["nontrivial"].add(hsh)
        agg["fails"] += r["fails"]; agg["known"] += r["known"]; agg["dis"] += r["dis"]
        if r["crashed"]: agg["crashed"].append(r["crashed"])
        for k, v in r["stats"].items(): agg["stats"][k] = agg["stats"].get(k, 0) + v
        if r["cases"] and len(agg["samples"]) < 6:
            step = max(1, len(r["cases"]) // 3)
            for c in r["cases"][::step][:3]:
                agg["samples"].append(f"{c[0]} => {c[1]}")
    return agg


# ---------------------------------------------------------------- known findings

def load_known(prop):
    try:
        kf = json.load(open(os.path.join(ROOT, "known-findings.json")))
    except OSError:
        return {}
    return {f["id"]: f for f in kf.get("findings", []) if f.get("property") == prop}


# ---------------------------------------------------------------- main

_REPLAY_N = 0


def write_replay(prop, seed, kind, payload_lines):
    global _REPLAY_N
    _REPLAY_N += 1
    path = os.path.join(ROOT, "replays", f"{prop}-{kind}-{seed}-{_REPLAY_N}.ops")
    with open(path, "w") as f:
        f.write("\n".join(payload_lines) + "\n")
    return path


def main(argv):
    try:
        return _main(argv)
    finally:
        p = globals().get("DRIVER_PRIVATE")
        if p and os.path.exists(p):
            try: os.unlink(p)
            except OSError: pass


def _main(argv):
    if len(argv) < 2:
        print(__doc__); return 2
    prop = argv[0]
    if prop not in PROPS:
        print(f"unknown property {prop}"); return 2
    cfg = PROPS[prop]
    if argv[1] == "--replay":
        return replay(prop, cfg, argv[2])
    tier = argv[1]
    os.makedirs(os.path.join(ROOT, "replays"), exist_ok=True)
    if not os.environ.get("VERIF_HAVE_REPO_LOCK"):
        # shared lock: a mutation test (bin/mutate-check) holds it exclusively while /repo is patched
        # turnstile: a waiting mutation test holds it exclusively, so new checks queue behind it
        _ts = open(os.path.join(ROOT, ".lock-turnstile"), "w")
        fcntl.flock(_ts, fcntl.LOCK_SH)
        _rl = open(os.path.join(ROOT, ".lock-repo"), "w")
        fcntl.flock(_rl, fcntl.LOCK_SH)
        fcntl.flock(_ts, fcntl.LOCK_UN); _ts.close()
        globals()["_REPO_LOCK"] = _rl
    if os.environ.get("VERIF_TIER") in ("quick", "thorough") and tier not in ("quick", "thorough"):
        tier = os.environ["VERIF_TIER"]
    seed = int(os.environ.get("VERIF_SEED", "1") or 1)
    t0 = time.time()
    violations = []      # (replay_path, found_input: bool, text)
    notes = []

    # 1. translator
    tfails = translate(prop, cfg)
    # 2-3. proofs
    lean = lean_check(prop, cfg, tier)
    # 4. correspondence + 5. oracle
    known_cfg = load_known(prop)
    agg_all = dict(cases=0, nontrivial=0, stats={}, samples=[], dis=[], fails=[], known=[], crashed=[])
    build_broken = []
    for h in cfg.get("harness", []):
        rc, out = cargo_build(h["pkg"], h["bin"])
        if rc != 0:
            build_broken.append(f"harness {h['bin']} no longer builds against /repo: " + " | ".join(out.strip().split("\n")[-12:])[-900:])
            continue
        n = h["thorough_n"] if tier == "thorough" else h["quick_n"]
        nseeds = h.get("thorough_shards", 16) if tier == "thorough" else h.get("quick_shards", 2)
        seeds = [seed * 1000 + i for i in range(nseeds)]
        cdir = os.path.join(ROOT, "corpus", prop)
        corpus = sorted(os.path.join(cdir, f) for f in os.listdir(cdir) if f.endswith(".ops") and (f == h["bin"] + ".ops" or f.startswith(h["bin"] + "-") or f.startswith(h["bin"] + "_") or f.startswith(h["bin"] + "."))) if os.path.isdir(cdir) else []
        agg = correspondence(prop, h, seeds, n // nseeds, corpus, h.get("timeout", 3000))
        agg_all["cases"] += agg["cases"]; agg_all["nontrivial"] += len(agg["nontrivial"])
        for k, v in agg["stats"].items(): agg_all["stats"][h["bin"] + "." + k] = v
        agg_all["samples"] += agg["samples"][:4]
        for key in ("dis", "fails", "known", "crashed"): agg_all[key] += agg[key]

    # known findings reported by the oracle
    seen_known = {}
    for fid, what, req in agg_all["known"]:
        if fid in known_cfg:
            seen_known.setdefault(fid, what)
        else:
            agg_all["fails"].append(dict(what=f"unlisted finding {fid}: {what}", request=req, history=[req]))
    for fid, what in sorted(seen_known.items()):
        print(f"KNOWN-FINDING: property={prop} {fid} {known_cfg[fid].get('what', what)}")
    for fid, f in known_cfg.items():
        if fid not in seen_known:
            if f.get("static"):
                print(f"KNOWN-FINDING: property={prop} {fid} {f.get('what')}")
            else:
                notes.append(f"known finding {fid} was not reproduced in this run (witness stale or not exercised)")

    # oracle violations on the implementation: genuine failing inputs
    for fl in agg_all["fails"][:5]:
        path = write_replay(prop, seed, "oracle", [f"# property oracle failed on the implementation: {fl['what']}"] + fl["history"])
        violations.append((path, True, fl["what"]))

    broken = list(tfails) + lean["broken"] + build_broken + agg_all["crashed"]
    for d in agg_all["dis"][:3]:
        broken.append(f"correspondence: request `{d['request']}` impl=`{d['impl']}` model=`{d['model']}`")
    if broken and not violations:
        # 2.5: search for a failing input on the implementation with a larger budget
        found = None
        if not build_broken:
            for h in cfg.get("harness", []):
                # (a) disagreement histories first
                for d in agg_all["dis"][:5]:
                    tmp = write_replay(prop, seed, "disagreement", [f"# model/impl disagreement: impl=`{d['impl']}` model=`{d['model']}`"] + d["history"])
                    rc, out, err = run_harness(h, ["replay", tmp], 600)
                    _, fails, _, _ = parse_harness(out)
                    if fails:
                        found = (tmp, fails[0][0]); break
                if found: break
                # (b) fresh random search, oracle only
                sn = h.get("search_n", h["quick_n"] * 5)
                with ThreadPoolExecutor(max_workers=16) as ex:
                    outs = list(ex.map(lambda s: run_harness(h, ["gen", str(s), str(sn // 16)] + [str(x) for x in h.get("extra_args", [])], h.get("timeout", 3000)),
                                       [seed * 7919 + 100 + i for i in range(16)]))
                for rc, out, err in outs:
                    cases, fails, known, _ = parse_harness(out)
                    fails = list(fails) + [(f"unlisted finding {k[0]}: {k[1]}", k[2]) for k in known if k[0] not in known_cfg]
                    if fails:
                        idx = next((i for i, c in enumerate(cases) if c[0] == fails[0][1]), None)
                        hist = history_for(cases, idx, h.get("stateful", False)) if idx is not None else [fails[0][1]]
                        found = (write_replay(prop, seed, "search", [f"# found by counterexample search: {fails[0][0]}"] + hist), fails[0][0]); break
                if found: break
        if found:
            violations.append((found[0], True, found[1] + " (after: " + broken[0][:200] + ")"))
        else:
            path = write_replay(prop, seed, "unproved", ["# the property is no longer shown to hold; no failing input was found.",
                                                         "# broken proof obligations / correspondence:"] + ["#   " + b for b in broken])
            violations.append((path, False, broken[0]))

    wall = time.time() - t0
    ev = dict(
        property_id=prop, tier=tier, seed=seed, level=cfg.get("level", "proof"),
        coverage=dict(
            obligations=lean["obligations"], discharged=lean["discharged"],
            checker_cmd=f"cd lean && lake build {cfg['lean']} gmxdriver && lake env lean .audit/Audit_{prop}.lean (#print axioms)" + (f" && lake env leanchecker {cfg['lean']}" if tier == "thorough" else ""),
            trusted_base=["Lean 4.33.0 kernel", "axioms used: " + (", ".join(lean["axioms"]) or "none")] + cfg.get("trusted", []),
            theorems=lean["theorems"],
            evaluations=agg_all["cases"], distinct_nontrivial=agg_all["nontrivial"],
            traces_validated_against_impl=agg_all["cases"] - len(agg_all["dis"]),
            disagreements=len(agg_all["dis"]),
            rule=cfg.get("rule", "cases come from the harness generator (one SplitMix64 stream per shard seeded from VERIF_SEED); a case is non-trivial when the implementation took a non-error, non-identity branch (flag `nt` set by the harness); distinct = distinct request lines"),
            samples=agg_all["samples"][:8] or lean["theorems"][:5],
            generator_distribution=agg_all["stats"],
            known_findings_reproduced=sorted(seen_known),
            notes=notes,
        ),
        assumptions=cfg.get("assumptions", []),
        wall_s=round(wall, 2), violations=len(violations),
    )
    os.makedirs(os.path.join(ROOT, "evidence"), exist_ok=True)
    # a run under bin/mutate-check (the tree is patched) must not overwrite the evidence of the real tree
    ev_path = (os.path.join(ROOT, "replays", f"evidence-mutated-{prop}.json") if os.environ.get("VERIF_HAVE_REPO_LOCK")
               else os.path.join(ROOT, "evidence", f"{prop}.json"))
    with open(ev_path, "w") as f:
        json.dump(ev, f, indent=1)
    print(f"[{prop} {tier}] obligations {lean['discharged']}/{lean['obligations']} axioms={lean['axioms']} "
          f"cases={agg_all['cases']} nontrivial={agg_all['nontrivial']} disagreements={len(agg_all['dis'])} "
          f"oracle_failures={len(agg_all['fails'])} wall={wall:.1f}s")
    for n in notes: print("note:", n)
    if violations:
        for path, found, text in violations:
            print("  reason:", text[:400])
        path, found, text = violations[0]
        print(f"VIOLATION property={prop} replay={path}" + ("" if found else " no-failing-input-found"))
        return 1
    return 0


def replay(prop, cfg, path):
    rcode = 0
    os.makedirs(os.path.join(ROOT, "replays"), exist_ok=True)
    path = os.path.abspath(path)
    for h in cfg.get("harness", []):
        rc, out = cargo_build(h["pkg"], h["bin"])
        if rc != 0:
            print("harness build failed"); return 2
        rc, out, err = run_harness(h, ["replay", path], 3000)
        cases, fails, known, _ = parse_harness(out)
        model = drive([c[0] for c in cases])
        for c, m in zip(cases, model):
            tag = "" if c[1] == m else f"   <-- model says {m}"
            print(f"{c[0]} => {c[1]}{tag}")
        for what, req in fails:
            print(f"ORACLE FAILED: {what} :: {req}"); rcode = 1
        for fid, what, req in known:
            print(f"known finding {fid}: {what} :: {req}")
    return rcode
