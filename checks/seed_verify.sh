#!/usr/bin/env bash
# checks/seed_verify.sh <worktree> <crate> <demo-test-args...>
# Confirms a seeded change in its scratch worktree: (1) with the change the crate's existing tests
# pass and the demo fails; (2) without the change the demo passes. Prints a JSON summary.
set -u
wt="$1"; crate="$2"; shift 2
cd "$wt" || exit 2
export CARGO_NET_OFFLINE=true
git checkout -q -- . 2>/dev/null; git clean -qfd -e SEED -e target >/dev/null 2>&1
git apply SEED/patch.diff || { echo '{"error":"patch does not apply"}'; exit 2; }
git apply SEED/demo.diff || { echo '{"error":"demo does not apply"}'; exit 2; }
skip="${DEMO_SKIP:+--skip $DEMO_SKIP} --skip _with_rpc --skip get_token_accounts_by_owner --skip send_request --skip test_parse_url_or_path"
cargo test --offline -j 8 -p "$crate" --lib -- $skip > SEED/.with_existing.log 2>&1; e1=$?
cargo test --offline -j 8 -p "$crate" "$@" > SEED/.with_demo.log 2>&1; d1=$?
git apply -R SEED/patch.diff
cargo test --offline -j 8 -p "$crate" "$@" > SEED/.without_demo.log 2>&1; d0=$?
echo "{\"existing_tests_with_change_rc\": $e1, \"demo_with_change_rc\": $d1, \"demo_without_change_rc\": $d0}"
