#!/usr/bin/env python3
"""Regenerates lean/Gmx/Gen/MarketConfig.lean from the store program's market config code:

  * `MarketConfig` struct fields                           → `Field`
  * `MarketConfigKey` / `MarketConfigFlag` / `MarketFlag`  → `Key`, `Flag`, `MFlag` with discriminants
  * `MarketConfig::get` / `get_mut` match tables           → `getField`, `getMutField`
  * `MarketConfig::init` assignment list                   → `initAssign`, `initFlags`
  * `constants/{mod,market}.rs` const definitions          → `Const`, `constNat`, `constBool`
  * helper switches (`use_market_closed_params`, …)        → `Helper`, `Helper.eval`
  * `Market::init` purity computation                      → `marketInitPure`, `marketInitCalls`

Fails closed (exit 3) on any construct it cannot classify.  Used by C16, C17, C20, C40.
"""
import re
import sys
import os
sys.path.insert(0, os.path.dirname(os.path.abspath(__file__)))
from rustlex import Src, Unparsed, die, show, snake_case, strip_ref
from cfgexpr import SymEval, Unclassified
import leangen as L

CONFIG = "programs/store/src/states/market/config.rs"
UTILS_MARKET = "crates/utils/src/market.rs"
CONSTS = ["programs/store/src/constants/market.rs", "programs/store/src/constants/mod.rs", "crates/utils/src/price/decimal.rs"]
MARKET_MOD = "programs/store/src/states/market/mod.rs"


# ------------------------------------------------------------------ enums
def plain_enum(src, name):
    _, vs = src.enum_variants(name)
    out, nxt = [], 0
    for v, disc, docs, attrs in vs:
        if disc is not None:
            if not re.fullmatch(r"[0-9_]+", disc.replace(" ", "")):
                die(f"{src.rel}: enum {name}: discriminant `{disc}` of {v} is not a literal")
            nxt = int(disc.replace("_", "").replace(" ", ""))
        out.append((v, nxt)); nxt += 1
    return out


def strum_style(src, name):
    attrs = src.enum_attrs(name)
    st = [a for a in attrs if a.startswith("strum (") or a.startswith("strum(")]
    for a in st:
        if "serialize_all" in a:
            m = re.search(r'serialize_all\s*=\s*"([a-z_]+)"', a)
            return m.group(1) if m else None
    return None


# ------------------------------------------------------------------ constants
class Consts:
    def __init__(self, files):
        self.defs = {}
        for f in files:
            s = Src(f)
            for name, (ty, rng, docs) in s.consts().items():
                self.defs.setdefault(name, []).append((s, ty, rng, docs))
        self.cache = {}

    def value(self, name, stack=()):
        if name in self.cache: return self.cache[name]
        if name in stack: die(f"const {name}: cyclic definition")
        if name not in self.defs: raise Unclassified(f"const `{name}` not found in {CONSTS}")
        vals = []
        for s, ty, rng, docs in self.defs[name]:
            try:
                e = s.parse_expr(*rng)
            except Unparsed as ex:
                raise Unclassified(str(ex))
            vals.append(self.ev(e, s, stack + (name,)))
        if any(v != vals[0] for v in vals):
            die(f"const {name}: conflicting definitions {vals}")
        self.cache[name] = vals[0]
        return vals[0]

    def ev(self, e, s, stack):
        k = e[0]
        if k == "lit":
            t = e[1]
            if t in ("true", "false"): return t == "true"
            m = re.match(r"^([0-9][0-9_]*)([iu](8|16|32|64|128|size))?$", t)
            if m: return int(m.group(1).replace("_", ""))
            raise Unclassified(f"{s.rel}: const literal `{t}`")
        if k == "path":
            return self.value(e[1][-1], stack)
        if k == "cast":
            return self.ev(e[1], s, stack)
        if k == "binop":
            a, b = self.ev(e[2], s, stack), self.ev(e[3], s, stack)
            if isinstance(a, bool) or isinstance(b, bool): raise Unclassified(f"{s.rel}: arithmetic on bool const")
            op = e[1]
            if op == "*": return a * b
            if op == "+": return a + b
            if op == "-":
                if a < b: raise Unclassified(f"{s.rel}: const subtraction underflows")
                return a - b
            if op == "/":
                if b == 0: raise Unclassified(f"{s.rel}: const division by zero")
                return a // b
            if op == ">>": return a >> b
            if op == "<<": return a << b
            raise Unclassified(f"{s.rel}: const operator `{op}`")
        if k == "mcall" and e[2] == "pow" and len(e[3]) == 1:
            return self.ev(e[1], s, stack) ** self.ev(e[3][0], s, stack)
        raise Unclassified(f"{s.rel}: const expression `{show(e)}`")


def main():
    cfg = Src(CONFIG)
    um = Src(UTILS_MARKET)

    # ---- struct fields
    fields = []
    for fname, ty, docs in cfg.struct_fields("MarketConfig"):
        if ty == "Factor":
            fields.append(fname)
        elif fname == "flag" and ty == "MarketConfigFlagContainer":
            pass
        elif fname == "reserved" and re.fullmatch(r"\[ Factor ; \d+ \]", ty):
            reserved = int(re.search(r"\d+", ty).group(0))
        else:
            die(f"{cfg.rel}: MarketConfig field `{fname}: {ty}` is neither a Factor, the flag container nor the reserved array")

    keys = plain_enum(um, "MarketConfigKey")
    flags = plain_enum(um, "MarketConfigFlag")
    mflags = plain_enum(um, "MarketFlag")
    if strum_style(um, "MarketConfigKey") != "snake_case" or strum_style(um, "MarketConfigFlag") != "snake_case":
        die(f"{um.rel}: MarketConfigKey/MarketConfigFlag are no longer `strum(serialize_all = \"snake_case\")`")
    keyset = {k for k, _ in keys}
    flagset = {k for k, _ in flags}

    # flags! macro: index = discriminant
    if not re.search(r"gmsol_utils\s*::\s*flags\s*!\s*\(\s*MarketConfigFlag\s*,\s*MAX_MARKET_CONFIG_FLAGS\s*,\s*u128\s*\)", cfg.text):
        die(f"{cfg.rel}: `gmsol_utils::flags!(MarketConfigFlag, MAX_MARKET_CONFIG_FLAGS, u128)` not found (flag container changed)")
    fl = Src("crates/utils/src/flags.rs")
    if "usize :: from ( [ < $ flags Index > ] :: from ( flag ) )" not in fl.text_of(0, len(fl.toks)):
        die(f"{fl.rel}: flag_to_index is no longer `usize::from(Index::from(flag))`")

    _, ilo, ihi = cfg.find_impl(lambda h: h.strip() == "MarketConfig", "MarketConfig")

    # ---- get / get_mut
    def key_table(fnname, want_mut):
        fn = cfg.find_fn(fnname, ilo, ihi)
        try:
            blk = cfg.parse_block(*fn["body"])
        except Unparsed as ex:
            die(str(ex))
        stmts, tail = blk[1], blk[2]
        if not (len(stmts) == 1 and stmts[0][0] == "let" and stmts[0][1] == ("pident", "value") and stmts[0][2][0] == "match"
                and tail == ("call", ("path", ["Some"]), [("path", ["value"])])):
            die(f"{cfg.rel}:{fn['line']}: MarketConfig::{fnname} is no longer `let value = match key {{..}}; Some(value)`")
        m = stmts[0][2]
        if m[1] != ("path", ["key"]): die(f"{cfg.rel}:{fn['line']}: {fnname}: match scrutinee is not `key`")
        table, default_none = {}, False
        # check `&mut` vs `&` textually on the arm (parser drops mutability)
        for pat, guard, body in m[2]:
            if guard is not None: die(f"{cfg.rel}: {fnname}: guarded arm {pat}")
            if pat == ("pwild",):
                if body != ("return", ("path", ["None"])): die(f"{cfg.rel}: {fnname}: wildcard arm is not `return None`")
                default_none = True; continue
            if not (pat[0] == "ppath" and len(pat[1]) == 2 and pat[1][0] == "MarketConfigKey"):
                die(f"{cfg.rel}: {fnname}: cannot classify arm pattern {pat}")
            key = pat[1][1]
            if key not in keyset: die(f"{cfg.rel}: {fnname}: arm for unknown key {key}")
            b = body
            if b[0] == "block":
                if b[1] or b[2] is None: die(f"{cfg.rel}: {fnname}: arm {key} has statements")
                b = b[2]
            if not (b[0] == "ref" and b[1][0] == "field" and b[1][1] == ("path", ["self"])):
                die(f"{cfg.rel}: {fnname}: arm {key} is not `&self.<field>`: {show(b)}")
            f = b[1][2]
            if f not in fields: die(f"{cfg.rel}: {fnname}: arm {key} refers to non-factor field {f}")
            if key in table: die(f"{cfg.rel}: {fnname}: duplicate arm for {key}")
            table[key] = f
        # mutability check on raw tokens
        lo, hi = fn["body"]
        n_refs = sum(1 for i in range(lo, hi) if cfg.is_p(i, "&") and (cfg.is_id(i + 1, "self") or (cfg.is_id(i + 1, "mut") and cfg.is_id(i + 2, "self"))))
        n_mut = sum(1 for i in range(lo, hi) if cfg.is_p(i, "&") and cfg.is_id(i + 1, "mut") and cfg.is_id(i + 2, "self"))
        if n_refs != len(table) or (want_mut and n_mut != len(table)) or (not want_mut and n_mut != 0):
            die(f"{cfg.rel}: {fnname}: reference mutability of the arms is not uniform ({n_mut} `&mut` of {n_refs})")
        if not default_none and len(table) != len(keys):
            die(f"{cfg.rel}: {fnname}: neither exhaustive nor has a `_ => return None` arm")
        return table

    get_t = key_table("get", False)
    getmut_t = key_table("get_mut", True)

    # ---- init
    fn = cfg.find_fn("init", ilo, ihi)
    try:
        blk = cfg.parse_block(*fn["body"])
    except Unparsed as ex:
        die(str(ex))
    init_assign, init_flags = {}, []
    if blk[2] is not None: die(f"{cfg.rel}: MarketConfig::init has a tail expression")
    for st in blk[1]:
        e = st[1] if st[0] == "expr" else None
        if e is not None and e[0] == "assign" and e[1] == "=" and e[2][0] == "field" and e[2][1] == ("path", ["self"]) \
                and e[3][0] == "path" and len(e[3][1]) == 2 and e[3][1][0] == "constants":
            f, c = e[2][2], e[3][1][1]
            if f not in fields: die(f"{cfg.rel}: init assigns non-factor field {f}")
            if f in init_assign: die(f"{cfg.rel}: init assigns {f} twice")
            init_assign[f] = c
        elif e is not None and e[0] == "mcall" and e[1] == ("path", ["self"]) and e[2] == "set_flag" and len(e[3]) == 2 \
                and e[3][0][0] == "path" and e[3][0][1][0] == "MarketConfigFlag" and e[3][1][0] == "path" and e[3][1][1][0] == "constants":
            flg, c = e[3][0][1][1], e[3][1][1][1]
            if flg not in flagset: die(f"{cfg.rel}: init sets unknown flag {flg}")
            if flg in [x for x, _ in init_flags]: die(f"{cfg.rel}: init sets flag {flg} twice")
            init_flags.append((flg, c))
        else:
            die(f"{cfg.rel}:{fn['line']}: MarketConfig::init: cannot classify statement `{show(e) if e else st}` "
                f"(expected `self.<field> = constants::<CONST>;` or `self.set_flag(MarketConfigFlag::<F>, constants::<CONST>);`)")

    # ---- constants
    consts = Consts(CONSTS)
    mk = Src(CONSTS[0])
    market_consts = list(mk.consts().keys())
    used = sorted(set(init_assign.values()) | {c for _, c in init_flags} | set(market_consts) | {"MARKET_USD_UNIT", "MARKET_DECIMALS"})
    cvals = {}
    for c in used:
        try:
            cvals[c] = consts.value(c)
        except Unclassified as ex:
            if c in init_assign.values() or c in [x for _, x in init_flags]:
                die(f"constant {c} used by MarketConfig::init cannot be evaluated: {ex}")
            die(f"constant {c}: {ex}")

    # ---- helper switches
    helpers = {}
    ucp = cfg.find_fn("use_market_closed_params", ilo, ihi)
    try:
        b = cfg.parse_block(*ucp["body"])
    except Unparsed as ex:
        die(str(ex))
    want = ("binop", "&&", ("path", ["is_market_closed"]),
            ("mcall", ("path", ["self"]), "flag", [("path", ["MarketConfigFlag", "EnableMarketClosedParams"])]))
    if b[1] or b[2] is None or b[2][0] != "binop" or b[2][1] != "&&" or b[2][2] != ("path", ["is_market_closed"]) \
            or b[2][3][0] != "mcall" or b[2][3][2] != "flag" or b[2][3][3][0][0] != "path" or b[2][3][3][0][1][0] != "MarketConfigFlag":
        die(f"{cfg.rel}:{ucp['line']}: use_market_closed_params is no longer `is_market_closed && self.flag(MarketConfigFlag::<F>)`")
    use_closed_flag = b[2][3][3][0][1][1]
    helper_names = []
    for f in cfg.fns(ilo, ihi):
        if f["name"] in ("init", "get", "get_mut", "flag", "set_flag", "use_market_closed_params"): continue
        params = [cfg.toks[a].text for a, bb in cfg.split_commas(*f["params"]) if cfg.is_id(a) and cfg.toks[a].text != "self" and not cfg.is_p(a, "&")]
        params = [p for p in params if p != "self"]
        if "is_market_closed" not in params or any(p not in ("is_market_closed", "for_long") for p in params):
            die(f"{cfg.rel}:{f['line']}: MarketConfig::{f['name']}({', '.join(params)}): unknown helper shape (expected is_market_closed [, for_long])")
        try:
            body = cfg.parse_block(*f["body"])
        except Unparsed as ex:
            die(str(ex))
        table = {}
        optnz = None
        for uc in (False, True):
            for flong in ((False, True) if "for_long" in params else (None,)):
                ev = SymEval(f"{cfg.rel}:{f['line']} {f['name']}", fields, flagset, inside_config=True)
                env = {"is_market_closed": ("bool", uc)}   # use_market_closed_params(bool) → enumerated
                if flong is not None: env["for_long"] = ("bool", flong)
                try:
                    v = ev.block(body, env)
                except Unclassified as ex:
                    die(str(ex))
                o = v[0] == "optnz"
                if o: v = v[1]
                if optnz is None: optnz = o
                elif optnz != o: die(f"{cfg.rel}: {f['name']}: Option wrapping differs between branches")
                if v[0] not in ("field", "flag"): die(f"{cfg.rel}: {f['name']}: branch does not resolve to a field or flag: {v}")
                table[(uc, flong)] = v
        helpers[f["name"]] = dict(params=params, table=table, optnz=optnz)
        helper_names.append(f["name"])

    # ---- Market::init (mod.rs): purity computation and sub-initialisers
    mm = Src(MARKET_MOD)
    _, mlo, mhi = mm.find_impl(lambda h: h.strip() == "Market", "Market")
    mi = mm.find_fn("init", mlo, mhi)
    try:
        mb = mm.parse_block(*mi["body"])
    except Unparsed as ex:
        die(str(ex))
    pure_cond, calls = None, []
    for st in mb[1]:
        if st[0] == "let" and st[1] == ("pident", "is_pure"):
            e = st[2]
            def tok(x):
                return x[0] == "field" and x[1] == ("field", ("path", ["self"]), "meta") and x[2]
            if e[0] == "binop" and e[1] == "==" and {tok(e[2]), tok(e[3])} == {"long_token_mint", "short_token_mint"}:
                pure_cond = "tokensEqual"
            else:
                die(f"{mm.rel}:{mi['line']}: Market::init: `let is_pure = {show(e)}` is not `long_token_mint == short_token_mint`")
        elif st[0] == "expr":
            e = st[1]
            if e[0] == "try": e = e[1]
            if e[0] == "mcall":
                calls.append(show(e).replace(" ", ""))
    need = ["self.set_flag(MarketFlag::Pure,is_pure)", "self.state.pools.init(is_pure)", "self.config.init()"]
    for n in need:
        if n not in calls: die(f"{mm.rel}:{mi['line']}: Market::init no longer calls `{n}` (calls: {calls})")
    if pure_cond is None: die(f"{mm.rel}: Market::init: `let is_pure = …` not found")
    # get_config / get_config_mut go through MarketConfigKey::from_str + config.get/get_mut
    for nm, inner in (("get_config", "get_config_by_key"), ("get_config_by_key", "get"), ("get_config_mut", "get_config_by_key_mut"), ("get_config_by_key_mut", "get_mut")):
        f = mm.find_fn(nm, mlo, mhi)
        txt = mm.text_of(*f["body"])
        if f". {inner} ( key )" not in txt and f". {inner} ( key ?)" not in txt:
            die(f"{mm.rel}:{f['line']}: Market::{nm} no longer forwards to `.{inner}(key)`")

    # ------------------------------------------------------------------ emit
    o = [L.header("Market config tables (fields, keys, flags, get/get_mut, init, constants, closed-market helpers)",
                  [CONFIG, UTILS_MARKET] + CONSTS + [MARKET_MOD], "Gmx.Gen.MarketConfig")]
    o.append(L.enum("Field", fields, doc="`Factor` fields of `MarketConfig` (declaration order)"))
    o.append(f"def reservedFactors : Nat := {reserved}\n")
    o.append(L.enum("Key", [k for k, _ in keys], doc="`gmsol_utils::market::MarketConfigKey` (declaration order)"))
    o.append(L.total_fn("Key.index", "Key", "Nat", [(k, str(d)) for k, d in keys]))
    o.append(L.total_fn("Key.snakeCodes", "Key", "List Nat", [(k, f"{list(snake_case(k).encode())}  -- {snake_case(k)}") for k, _ in keys]))
    o.append("def Key.snake (k : Key) : String := String.ofList (k.snakeCodes.map Char.ofNat)\n")
    o.append("def Key.ofSnake? (s : String) : Option Key := Key.all.find? (fun k => k.snake == s)\n")
    o.append(L.enum("Flag", [k for k, _ in flags], doc="`MarketConfigFlag`"))
    o.append(L.total_fn("Flag.bit", "Flag", "Nat", [(k, str(d)) for k, d in flags]))
    o.append(L.total_fn("Flag.snakeCodes", "Flag", "List Nat", [(k, f"{list(snake_case(k).encode())}  -- {snake_case(k)}") for k, _ in flags]))
    o.append("def Flag.snake (k : Flag) : String := String.ofList (k.snakeCodes.map Char.ofNat)\n")
    o.append("def Flag.ofSnake? (s : String) : Option Flag := Flag.all.find? (fun k => k.snake == s)\n")
    o.append(L.enum("MFlag", [k for k, _ in mflags], doc="`MarketFlag`"))
    o.append(L.total_fn("MFlag.bit", "MFlag", "Nat", [(k, str(d)) for k, d in mflags]))

    def opt_rows(table):
        return [(k, f"some .{L.ident(table[k])}" if k in table else "none") for k, _ in keys]
    o.append("/-- `MarketConfig::get` match table. -/")
    o.append(L.total_fn("getField", "Key", "Option Field", opt_rows(get_t)))
    o.append("/-- `MarketConfig::get_mut` match table. -/")
    o.append(L.total_fn("getMutField", "Key", "Option Field", opt_rows(getmut_t)))

    cn = sorted(cvals)
    o.append(L.enum("Const", cn, doc="constants of constants/market.rs (+ the ones they depend on)"))
    o.append(L.total_fn("Const.nat?", "Const", "Option Nat", [(c, f"some {cvals[c]}" if not isinstance(cvals[c], bool) else "none") for c in cn]))
    o.append(L.total_fn("Const.bool?", "Const", "Option Bool", [(c, ("some true" if cvals[c] else "some false") if isinstance(cvals[c], bool) else "none") for c in cn]))
    o.append("/-- constants defined in constants/market.rs itself -/")
    o.append("def marketConsts : List Const :=\n  [" + ", ".join(f".{L.ident(c)}" for c in market_consts) + "]\n")
    o.append("/-- `MarketConfig::init`: the constant assigned to each field (`none` = not assigned). -/")
    o.append(L.total_fn("initAssign", "Field", "Option Const", [(f, f"some .{L.ident(init_assign[f])}" if f in init_assign else "none") for f in fields]))
    o.append("/-- `MarketConfig::init`: `set_flag(flag, const)` calls in order. -/")
    o.append("def initFlags : List (Flag × Const) :=\n  [" + ", ".join(f"(.{L.ident(a)}, .{L.ident(b)})" for a, b in init_flags) + "]\n")

    o.append("/-- what a helper switch / wiring source finally reads -/")
    o.append("inductive Atom where\n  | field (f : Field)\n  | flag (f : Flag)\n  deriving DecidableEq, Repr\n")
    o.append(f"/-- `use_market_closed_params(c) = c && flag({use_closed_flag})` -/")
    o.append(f"def useClosedFlag : Flag := .{L.ident(use_closed_flag)}\n")
    o.append(L.enum("Helper", helper_names, doc="`MarketConfig` helper switches taking `is_market_closed`"))
    o.append("def Helper.eval : Helper → (useClosed forLong : Bool) → Atom")
    for h in helper_names:
        t = helpers[h]["table"]
        for uc in (True, False):
            for flong in (True, False):
                v = t[(uc, flong if "for_long" in helpers[h]["params"] else None)]
                o.append(f"  | .{L.ident(h)}, {str(uc).lower()}, {str(flong).lower()} => .{v[0]} .{L.ident(v[1])}")
    o.append("")
    o.append(L.total_fn("Helper.takesSide", "Helper", "Bool", [(h, str("for_long" in helpers[h]["params"]).lower()) for h in helper_names]))
    o.append("/-- result is `None` when the value read is zero -/")
    o.append(L.total_fn("Helper.optNonzero", "Helper", "Bool", [(h, str(bool(helpers[h]["optnz"])).lower()) for h in helper_names]))
    o.append("inductive PureCond where\n  | tokensEqual\n  deriving DecidableEq, Repr\n")
    o.append("/-- `Market::init`: `is_pure = (long_token_mint == short_token_mint)`, passed to `set_flag(Pure, ·)` and `pools.init(·)` -/")
    o.append(f"def marketInitPure : PureCond := .{pure_cond}\n")
    o.append("end Gmx.Gen.MarketConfig\n")
    L.write_if_changed("MarketConfig.lean", "\n".join(o))
    # side output for other generators
    return dict(fields=fields, flags=[k for k, _ in flags], helpers={h: helpers[h]["params"] for h in helper_names})


if __name__ == "__main__":
    try:
        main()
    except Unclassified as ex:
        die(str(ex))
    except Unparsed as ex:
        die(str(ex))
