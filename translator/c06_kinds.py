#!/usr/bin/env python3
"""C06 translator: regenerates lean/Gmx/Gen/C06Kinds.lean from the model crate's liquidity and swap
actions — WHICH pnl-factor kinds each action validates and values the pool with, and WHERE the
validation sits relative to the state changes:

  * action/deposit.rs   Deposit::execute     validate_max_pnl(prices, K1, K2) BEFORE anything else;
                                              pool_value(prices, K, maximize)
  * action/withdraw.rs  Withdrawal::execute   validate_max_pnl(prices, K1, K2) AFTER the pool deltas,
                                              before `burn`; output_amounts: pool_value(prices, K, maximize)
  * action/swap.rs      reassign_values       (long kind, short kind) for token-in long / short

FAILS CLOSED (exit 1) when a call is missing, duplicated, moved or has unrecognised arguments.
"""
import os, re, sys
sys.path.insert(0, os.path.dirname(os.path.abspath(__file__)))
from gen_c32_shapes import strip_comments, fn_body, norm, Unclassified, REPO, ROOT

OUT = os.path.join(ROOT, "lean", "Gmx", "Gen", "C06Kinds.lean")
KINDS = {"MaxAfterDeposit": ".maxAfterDeposit", "MaxAfterWithdrawal": ".maxAfterWithdrawal",
         "MaxForTrader": ".maxForTrader", "ForAdl": ".forAdl", "MinAfterAdl": ".minAfterAdl"}


def kind(tok, where):
    m = re.fullmatch(r"PnlFactorKind::(\w+)", tok.strip())
    if not m or m.group(1) not in KINDS:
        raise Unclassified(f"{where}: unrecognised pnl factor kind `{tok.strip()}`")
    return KINDS[m.group(1)]


def one_call(body, name, where):
    """the single `.name(` call in body -> (position, [args])"""
    hits = [m.start() for m in re.finditer(r"\." + name + r"\s*\(", body)]
    if len(hits) != 1:
        raise Unclassified(f"{where}: expected exactly one `{name}` call, found {len(hits)}")
    i = body.index("(", hits[0])
    depth, j = 0, i
    while True:
        if body[j] == "(": depth += 1
        elif body[j] == ")":
            depth -= 1
            if depth == 0: break
        j += 1
    args = [norm(a) for a in body[i + 1:j].split(",") if a.strip()]
    return hits[0], args


def boolean(tok, where):
    if tok not in ("true", "false"): raise Unclassified(f"{where}: unrecognised maximize flag `{tok}`")
    return tok


def main():
    try:
        dep = strip_comments(open(os.path.join(REPO, "crates/model/src/action/deposit.rs")).read())
        wd = strip_comments(open(os.path.join(REPO, "crates/model/src/action/withdraw.rs")).read())
        sw = strip_comments(open(os.path.join(REPO, "crates/model/src/action/swap.rs")).read())
        # ---- deposit: execute = last `fn execute` of the file's impl MarketAction
        dbody = fn_body(dep, "execute")
        pos, a = one_call(dbody, "validate_max_pnl", "Deposit::execute")
        if len(a) != 3 or a[0] != "&self.params.prices": raise Unclassified(f"Deposit::execute: validate_max_pnl args {a}")
        dkinds = (kind(a[1], "Deposit::execute"), kind(a[2], "Deposit::execute"))
        first_mut = min(x for x in (dbody.find("self.price_impact()"), dbody.find("self.execute_deposit("), dbody.find(".mint(")) if x >= 0)
        if not pos < first_mut: raise Unclassified("Deposit::execute: validate_max_pnl is no longer the first step")
        ppos, pa = one_call(dbody, "pool_value", "Deposit::execute")
        if len(pa) != 3 or pa[0] != "&self.params.prices": raise Unclassified(f"Deposit::execute: pool_value args {pa}")
        dpv = (kind(pa[1], "Deposit::execute pool_value"), boolean(pa[2], "Deposit::execute pool_value"))
        # ---- withdrawal
        wbody = fn_body(wd, "execute")
        pos, a = one_call(wbody, "validate_max_pnl", "Withdrawal::execute")
        if len(a) != 3 or a[0] != "&self.params.prices": raise Unclassified(f"Withdrawal::execute: validate_max_pnl args {a}")
        wkinds = (kind(a[1], "Withdrawal::execute"), kind(a[2], "Withdrawal::execute"))
        deltas = [m.start() for m in re.finditer(r"\.apply_delta\s*\(", wbody)]
        reserves = [m.start() for m in re.finditer(r"\.validate_reserve\s*\(", wbody)]
        burn = wbody.find(".burn(")
        if len(deltas) != 2 or len(reserves) != 2 or burn < 0:
            raise Unclassified("Withdrawal::execute: expected two apply_delta, two validate_reserve and one burn")
        if not (max(deltas) < min(reserves) and max(reserves) < pos < burn):
            raise Unclassified("Withdrawal::execute: order apply_delta < validate_reserve < validate_max_pnl < burn no longer holds")
        obody = fn_body(wd, "output_amounts")
        _, pa = one_call(obody, "pool_value", "Withdrawal::output_amounts")
        if len(pa) != 3 or pa[0] != "&self.params.prices": raise Unclassified(f"Withdrawal::output_amounts: pool_value args {pa}")
        wpv = (kind(pa[1], "Withdrawal pool_value"), boolean(pa[2], "Withdrawal pool_value"))
        # ---- swap: the two ReassignedValues::new(.., kindLong, kindShort)
        rbody = fn_body(sw, "reassign_values")
        news = [m.start() for m in re.finditer(r"ReassignedValues::new\s*\(", rbody)]
        if len(news) != 2: raise Unclassified("Swap::reassign_values: expected two ReassignedValues::new")
        pairs = []
        for n in news:
            seg = rbody[n:]
            ks = re.findall(r"PnlFactorKind::\w+", seg[: seg.index(")?") if ")?" in seg[:50] else len(seg)])
            ks = re.findall(r"PnlFactorKind::\w+", rbody[n: (news[1] if n == news[0] else len(rbody))])
            if len(ks) != 2: raise Unclassified("Swap::reassign_values: expected two kinds per branch")
            pairs.append((kind(ks[0], "Swap"), kind(ks[1], "Swap")))
        if rbody.find("if self.params.is_token_in_long") < 0 or not rbody.find("if self.params.is_token_in_long") < news[0]:
            raise Unclassified("Swap::reassign_values: branch on is_token_in_long not recognised")
        tbody = fn_body(sw, "try_execute")
        _, a = one_call(tbody, "validate_max_pnl", "Swap::try_execute")
        if a != ["&self.params.prices", "long_pnl_factor_kind", "short_pnl_factor_kind"]:
            raise Unclassified(f"Swap::try_execute: validate_max_pnl args {a}")
    except (Unclassified, ValueError, OSError) as e:
        print(f"c06_kinds: cannot classify: {e}", file=sys.stderr)
        sys.exit(1)
    text = f"""-- GENERATED by translator/c06_kinds.py from crates/model/src/action/{{deposit,withdraw,swap}}.rs — do not edit.
import Gmx.Model.Market
/-! which pnl-factor kinds the liquidity / swap actions of the model crate use (C06, C04). -/
namespace Gmx.Gen.C06
open Gmx

/-- `Deposit::execute`: `validate_max_pnl(prices, long kind, short kind)` — the FIRST step. -/
def depositPreCheck : PnlFactorKind × PnlFactorKind := ({dkinds[0]}, {dkinds[1]})
/-- `Deposit::execute`: `pool_value(prices, kind, maximize)`. -/
def depositPoolValue : PnlFactorKind × Bool := ({dpv[0]}, {dpv[1]})
/-- `Withdrawal::execute`: `validate_max_pnl` AFTER the pool deltas and reserve checks, before `burn`. -/
def withdrawPostCheck : PnlFactorKind × PnlFactorKind := ({wkinds[0]}, {wkinds[1]})
/-- `Withdrawal::output_amounts`: `pool_value(prices, kind, maximize)`. -/
def withdrawPoolValue : PnlFactorKind × Bool := ({wpv[0]}, {wpv[1]})
/-- `Swap::reassign_values`: (long kind, short kind) when the token in is the long token. -/
def swapKindsInLong : PnlFactorKind × PnlFactorKind := ({pairs[0][0]}, {pairs[0][1]})
/-- … and when it is the short token. -/
def swapKindsInShort : PnlFactorKind × PnlFactorKind := ({pairs[1][0]}, {pairs[1][1]})

end Gmx.Gen.C06
"""
    if not os.path.exists(OUT) or open(OUT).read() != text:
        open(OUT, "w").write(text)


if __name__ == "__main__":
    main()
