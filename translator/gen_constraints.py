#!/usr/bin/env python3
"""Regenerates lean/Gmx/Gen/Constraints.lean (from TODAY's source) and lean/Gmx/Gen/ConstraintsReviewed.lean
(from the committed review translator/c19_expected_constraints.json): for every `#[derive(Accounts)]`
struct of the five programs and every field, the full list of relations that Anchor enforces during
account validation — the account type, `signer` / `mut` / `init` …, `has_one = x`, `constraint = …`
(normalised token text), `seeds = […]`, `seeds::program`, `bump`, `address`, `owner`, `close`,
`token::*`, `associated_token::*`, `mint::*`, `payer`, `space`, `realloc*`, `zero`.

Both Lean files list one row `(fingerprint of "Struct.field", fingerprint of its relation list)` with the
readable text as a comment (comparing the strings themselves in the kernel would take minutes); the
theorem `constraints_match_reviewed` compares the two lists. When they differ this script ALSO prints a
readable diff (struct.field, missing / added relation) and exits 3, so the runner shows it.

`python3 gen_constraints.py --pin` rewrites the review from the current tree (a deliberate, reviewed act).
Structured extracts for semantic theorems: `hasOnes` per instruction and `closeTargets`.  Used by C19.
"""
import hashlib
import json
import os
import re
import sys
sys.path.insert(0, os.path.dirname(os.path.abspath(__file__)))
from rustlex import Src, die
import gen_access as G
import leangen as L
from gen_c19_specs import attr_items

REVIEW = os.path.join(os.path.dirname(os.path.abspath(__file__)), "c19_expected_constraints.json")


def fp(s):
    return int.from_bytes(hashlib.sha256(s.encode()).digest()[:8], "big")


def collect():
    """{ 'program::Struct.field': [relations...] }, instruction → struct, struct → fields in order"""
    table, ix_struct, order = {}, {}, {}
    for pname, root, modname in G.PROGRAMS:
        lib = Src(f"{root}/src/lib.rs")
        files = [Src(f) for f in G.rs_files(root)]
        for s in files:
            for i, t in enumerate(s.toks):
                if not (t.kind == "id" and t.text == "struct" and s.is_id(i + 1)): continue
                docs, attrs, _ = s.attrs_before(i)
                if not any(re.search(r"derive \(.*\bAccounts\b", s.text_of(lo, hi)) for lo, hi in attrs): continue
                name = s.toks[i + 1].text
                j = i + 2
                if s.is_p(j, "<"): j = s.skip_generics(j)
                if not s.is_p(j, "{"): die(f"{s.rel}: accounts struct {name} is not a braced struct")
                lo, hi = j + 1, s.match[j]
                cur, k = [], lo
                fields = []
                while k < hi:
                    if s.toks[k].kind == "doc": k += 1; continue
                    if s.is_p(k, "#"): cur.append((k + 2, s.match[k + 1])); k = s.match[k + 1] + 1; continue
                    if s.is_id(k, "pub"):
                        k += 1
                        if s.is_p(k, "("): k = s.match[k] + 1
                    if not (s.is_id(k) and s.is_p(k + 1, ":")): die(f"{s.at(k)}: accounts struct {name}: cannot classify field at `{s.toks[k].text}`")
                    fname = s.toks[k].text
                    e, depth = k + 2, 0
                    while e < hi:
                        t2 = s.toks[e]
                        if t2.kind == "p":
                            if t2.text in ("(", "[", "{"): e = s.match[e]
                            elif t2.text == "<": depth += 1
                            elif t2.text == ">": depth -= 1
                            elif t2.text == ">>": depth -= 2
                            elif t2.text == "," and depth <= 0: break
                        e += 1
                    ty = re.sub(r"'info ,? ?", "", s.text_of(k + 2, e)).replace(" ", "")
                    rel = ["type " + ty]
                    for key, val, _ in attr_items(s, cur):
                        rel.append(key if val == "" else f"{key} = {val}")
                    for lo2, hi2 in cur:
                        if not s.is_id(lo2, "account"): rel.append("attr " + s.text_of(lo2, hi2))
                    cur = []
                    key = f"{pname}::{name}.{fname}"
                    if key in table: die(f"{s.rel}: accounts struct field {key} defined twice")
                    table[key] = sorted(rel)
                    fields.append(fname)
                    k = e + 1
                order[f"{pname}::{name}"] = fields
        mod = None
        for i, t in enumerate(lib.toks):
            if t.kind == "id" and t.text == "mod" and lib.is_id(i + 1, modname): mod = (i + 3, lib.match[i + 2])
        for f in lib.fns(*mod):
            ctx = re.search(r"Context <(?: '\w+ ,)* (\w+)", lib.text_of(*f["params"])).group(1)
            ix_struct[f"{pname}_{f['name']}"] = f"{pname}::{ctx}"
    return table, ix_struct, order


def emit(fname, ns, table, title):
    o = [L.header(title, ["programs/*/src/** (`#[derive(Accounts)]` structs)"], ns)]
    o.append("/-- (fingerprint of `program::Struct.field`, fingerprint of its sorted relation list); text in the comment -/")
    ks = sorted(table)
    lines = []
    for i, k in enumerate(ks):
        comma = "," if i + 1 < len(ks) else ""
        lines.append(f"({fp(k)}, {fp(json.dumps(table[k]))}){comma}  -- {k}: {'; '.join(table[k])}".replace("\n", " "))
    o.append("def rows : List (Nat × Nat) :=\n  [" + "\n   ".join(lines) + "\n  ]\n")
    o.append(f"end {ns}\n")
    # a trailing comment after the last element would swallow the bracket: put the bracket on its own line (done above)
    L.write_if_changed(fname, "\n".join(o))


def main():
    table, ix_struct, order = collect()
    if "--pin" in sys.argv:
        json.dump(table, open(REVIEW, "w"), indent=0, sort_keys=True)
    try:
        reviewed = json.load(open(REVIEW))
    except (OSError, ValueError) as e:
        die(f"cannot read {REVIEW}: {e}")
    emit("Constraints.lean", "Gmx.Gen.Constraints", table, "Account constraints of every accounts struct — TODAY's source")
    emit("ConstraintsReviewed.lean", "Gmx.Gen.ConstraintsReviewed", reviewed, "Account constraints of every accounts struct — the committed REVIEW (translator/c19_expected_constraints.json)")
    # structured extracts
    o = ["import Gmx.Gen.Access\n" + L.header("has_one relations per instruction and close targets (structured extracts of the constraints table)",
                                               ["programs/*/src/**"], "Gmx.Gen.ConstraintFacts") + "open Gmx.Gen.Access\n"]
    o.append("/-- `(account, target)` for every `has_one = target` on `account` in the instruction's accounts struct, and for every\n`constraint = account.field == target.key()` (the spelled-out form of the same relation) -/")
    o.append("def hasOnes : IxId → List (String × String)")
    for ix in sorted(ix_struct):
        st = ix_struct[ix]
        pairs = []
        for fn in order.get(st, []):
            for r in table[f"{st}.{fn}"]:
                m = re.fullmatch(r"has_one = (\w+)(?: @ .*)?", r)
                if m: pairs.append((fn, m.group(1)))
                # the spelled-out form of the same relation: `constraint = acct(.load()?).field == other.key()`
                m = re.fullmatch(rf"constraint = {fn}(?: \. load \( \) \?)? \. \w+ == (\w+) \. key \( \)(?: @ .*)?", r)
                if m and m.group(1) in order.get(st, []): pairs.append((fn, m.group(1)))
                m = re.fullmatch(rf"constraint = {fn} \. load \( \) \? \. \w+ \( \) == Some \( & (\w+) \. key \( \) \)(?: @ .*)?", r)
                if m and m.group(1) in order.get(st, []): pairs.append((fn, m.group(1)))
        if pairs: o.append(f"  | .{L.ident(ix)} => [" + ", ".join(f"({L.lstr(a)}, {L.lstr(b)})" for a, b in pairs) + "]")
    o.append("  | _ => []\n")
    o.append("/-- every `close = target`: (struct.field, target, target is a Signer, target is named by a `has_one` of the closed account) -/")
    rows = []
    for k in sorted(table):
        for r in table[k]:
            m = re.fullmatch(r"close = (\w+)", r)
            if m:
                st = k.rsplit(".", 1)[0]
                tgt = m.group(1)
                trel = table.get(f"{st}.{tgt}", [])
                is_signer = any(x.startswith("type Signer") for x in trel)
                bound = any(re.fullmatch(rf"has_one = {tgt}(?: @ .*)?", x) for x in table[k])
                rows.append(f"({L.lstr(k)}, {L.lstr(tgt)}, {str(is_signer).lower()}, {str(bound).lower()})")
    o.append("def closeTargets : List (String × String × Bool × Bool) :=\n  [" + ",\n   ".join(rows) + "]\n")
    o.append("end Gmx.Gen.ConstraintFacts\n")
    L.write_if_changed("ConstraintFacts.lean", "\n".join(o))
    # readable diff
    diff = []
    for k in sorted(set(table) | set(reviewed)):
        a, b = set(reviewed.get(k, [])), set(table.get(k, []))
        if k not in table: diff.append(f"{k}: field REMOVED (reviewed: {sorted(a)})")
        elif k not in reviewed: diff.append(f"{k}: NEW field, not reviewed: {sorted(b)}")
        else:
            for r in sorted(a - b): diff.append(f"{k}: MISSING relation `{r}`")
            for r in sorted(b - a): diff.append(f"{k}: ADDED relation `{r}`")
    if diff:
        msg = "account constraints differ from the reviewed table (translator/c19_expected_constraints.json):\n  " + "\n  ".join(diff[:12])
        print("TRANSLATOR-FAIL-CLOSED: " + msg)
        sys.exit(3)
    return table


if __name__ == "__main__":
    main()
