#!/usr/bin/env python3
"""Regenerates lean/Gmx/Gen/Wiring.lean: how config fields are wired into the gmsol-model
parameter structs / accessors, for the program (`states/market/model.rs`, `Market`) and for the
SDK (`crates/programs/src/model/market.rs`, `MarketModel`), plus the SDK's own copies of the
key→field table (`utils/store.rs`), helper switches and flag enum orders.

One `Row` per (trait method, variant, side, parameter path):
  * plain accessors           `fn reserve_factor() -> Ok(self.config.reserve_factor)`
  * side accessors            `if is_long { Ok(self.config.a) } else { Ok(self.config.b) }`
  * pnl factor match          `match (kind, is_long) { (PnlFactorKind::X, true) => Ok(self.config.f), … }`
  * builder chains            `Ok(T::builder().p(self.config.f)….build())` incl. nested `.long(..)/.short(..)`
  * closed-market helpers     `self.config.helper(<side>, self.is_closed())`
  * pool accessors            `self.try_pool(PoolKind::K)` / `if is_long { K1 } else { K2 }`
  * constants                 `constants::NAME`
Methods that are not configuration (clocks, virtual inventories, supply, funding state) are listed
in IGNORE by name; any other method whose body cannot be classified aborts the run (fail closed).
"""
import os
import re
import sys
sys.path.insert(0, os.path.dirname(os.path.abspath(__file__)))
from rustlex import Src, Unparsed, die, show
from cfgexpr import SymEval, Unclassified
import leangen as L
import gen_market_config

PROG_MODEL = "programs/store/src/states/market/model.rs"
PROG_MARKET = "programs/store/src/states/market/mod.rs"
SDK_MARKET = "crates/programs/src/model/market.rs"
SDK_STORE = "crates/programs/src/utils/store.rs"
UTILS_MARKET = "crates/utils/src/market.rs"
MODEL_POOL = "crates/model/src/pool/mod.rs"

TRAITS = ["BaseMarket", "SwapMarket", "PositionImpactMarket", "BorrowingFeeMarket", "PerpMarket", "LiquidityMarket"]
# not configuration: state, clocks, virtual inventories, supply
IGNORE = {"virtual_inventory_for_swaps_pool", "virtual_inventory_for_positions_pool",
          "passed_in_seconds_for_position_impact_distribution", "passed_in_seconds_for_borrowing",
          "funding_factor_per_second", "total_supply"}
SIDE_PARAMS = ("is_long", "is_long_token")


def flatten(prefix, v, out, where):
    if v[0] == "struct":
        seen = set()
        for p, x in v[2]:
            if p in seen: die(f"{where}: builder sets `{p}` twice")
            seen.add(p)
            flatten((prefix + "." if prefix else "") + p, x, out, where)
    else:
        out.append((prefix, v))


def src_lean(v, where):
    k = v[0]
    if k == "field": return f".field .{L.ident(v[1])}"
    if k == "flag": return f".flag .{L.ident(v[1])}"
    if k == "helper":
        fl = "none" if v[2] is None else ("(some true)" if v[2] else "(some false)")
        return f".helper .{L.ident(v[1])} {fl}"
    if k == "pool": return f".pool .{L.ident(v[1])}"
    if k == "const": return f".const {L.lstr(v[1])}"
    if k == "lit": return f".lit {v[1]}"
    if k == "modelfield": return f".modelField {L.lstr(v[1])}"
    die(f"{where}: value {v} cannot be a wiring source")


def method_rows(src, fn, ev, where):
    """rows [(variant, side, param, value)] for one trait method."""
    params = [src.toks[a].text for a, b in src.split_commas(*fn["params"]) if src.is_id(a) and not src.is_id(a, "self")]
    params = [p for p in params if p != "mut"]
    try:
        body = src.parse_block(*fn["body"])
    except Unparsed as ex:
        die(str(ex))
    side_p = [p for p in params if p in SIDE_PARAMS]
    other = [p for p in params if p not in SIDE_PARAMS]
    rows = []
    if other == ["kind"]:
        # match (kind, side) { (Enum::X, true) => …, _ => Err(..) }
        stm = [s for s in body[1] if not (s[0] == "item" and s[1].startswith("use "))]
        m = body[2]
        if stm or m is None or m[0] != "match" or m[1][0] != "tuple" or m[1][1] != [("path", ["kind"]), ("path", [side_p[0]])]:
            die(f"{where}: expected `match (kind, {side_p[0] if side_p else '?'}) {{..}}`")
        seen = set()
        for pat, guard, b in m[2]:
            if pat == ("pwild",):
                if not (b[0] == "call" and b[1] == ("path", ["Err"])): die(f"{where}: wildcard arm is not an error")
                continue
            if guard or pat[0] != "ptuple" or len(pat[1]) != 2 or pat[1][0][0] != "ppath" or pat[1][1][0] != "plit":
                die(f"{where}: cannot classify arm pattern {pat}")
            var, side = pat[1][0][1][-1], pat[1][1][1] == "true"
            if (var, side) in seen: die(f"{where}: duplicate arm ({var}, {side})")
            seen.add((var, side))
            v = ev.ev(b, {})
            rows.append((var, side, "", v))
        return rows
    if other:
        die(f"{where}: unexpected parameters {other}")
    for side in ((True, False) if side_p else (None,)):
        env = {side_p[0]: ("bool", side)} if side_p else {}
        v = ev.block(body, env)
        if v[0] == "switch":
            for names, x in v[2]:
                for n in names:
                    flat = []
                    flatten("", x, flat, where)
                    rows += [(f"{v[1]}_{n}", side, p, y) for p, y in flat]
        else:
            flat = []
            flatten("", v, flat, where)
            rows += [("", side, p, y) for p, y in flat]
    return rows


def trait_impls(src, target):
    out = []
    for h, lo, hi in src.impls():
        m = re.fullmatch(r"gmsol_model :: (\w+) < \{ constants :: MARKET_DECIMALS \} > for " + target, h.strip())
        if m and m.group(1) in TRAITS:
            out.append((m.group(1), lo, hi))
    return out


def wiring(src, target, fields, flags, helpers, kinds, extra_fns=()):
    rows = []
    seen = set()
    todo = [(t, f) for t, lo, hi in trait_impls(src, target) for f in src.fns(lo, hi)]
    todo += list(extra_fns)
    for trait, f in todo:
        s2 = f.get("src", src)
        if f["name"] in IGNORE or f["body"] is None: continue
        if f["name"] in seen: die(f"{s2.rel}: method {f['name']} classified twice")
        seen.add(f["name"])
        where = f"{s2.rel}:{f['line']} {trait}::{f['name']}"
        ev = SymEval(where, fields, flags, helpers=helpers, pool_kinds=kinds)
        try:
            rs = method_rows(s2, f, ev, where)
        except Unclassified as ex:
            die(str(ex))
        for var, side, p, v in rs:
            rows.append((f["name"], var, side, p, v, where))
    return rows


def helper_tables(src, lo, hi, fields, flags, skip):
    """same extraction as gen_market_config for the SDK's `impl MarketConfig`."""
    helpers = {}
    for f in src.fns(lo, hi):
        if f["name"] in skip: continue
        params = [src.toks[a].text for a, b in src.split_commas(*f["params"]) if src.is_id(a) and not src.is_id(a, "self")]
        if "is_market_closed" not in params or any(p not in ("is_market_closed", "for_long") for p in params):
            die(f"{src.rel}:{f['line']}: MarketConfig::{f['name']}({', '.join(params)}): unknown helper shape")
        try:
            body = src.parse_block(*f["body"])
        except Unparsed as ex:
            die(str(ex))
        table, optnz = {}, None
        for uc in (False, True):
            for flong in ((False, True) if "for_long" in params else (None,)):
                ev = SymEval(f"{src.rel}:{f['line']} {f['name']}", fields, flags, inside_config=True)
                env = {"is_market_closed": ("bool", uc)}
                if flong is not None: env["for_long"] = ("bool", flong)
                try:
                    v = ev.block(body, env)
                except Unclassified as ex:
                    die(str(ex))
                o = v[0] == "optnz"
                if o: v = v[1]
                if optnz is None: optnz = o
                elif optnz != o: die(f"{src.rel}: {f['name']}: Option wrapping differs between branches")
                if v[0] not in ("field", "flag"): die(f"{src.rel}: {f['name']}: branch does not resolve to a field or flag: {v}")
                table[(uc, flong)] = v
        helpers[f["name"]] = dict(params=params, table=table, optnz=optnz)
    return helpers


def ref_table(src, lo, hi, fnname, enum, keys, fields):
    fn = src.find_fn(fnname, lo, hi)
    try:
        blk = src.parse_block(*fn["body"])
    except Unparsed as ex:
        die(str(ex))
    if not (len(blk[1]) == 1 and blk[1][0][0] == "let" and blk[1][0][2] and blk[1][0][2][0] == "match" and blk[2] and blk[2][0] == "call"):
        die(f"{src.rel}:{fn['line']}: {fnname} is no longer `let value = match key {{..}}; Some(value)`")
    table = {}
    for pat, guard, body in blk[1][0][2][2]:
        if pat == ("pwild",): continue
        if guard or pat[0] != "ppath" or pat[1][0] != enum or pat[1][1] not in keys:
            die(f"{src.rel}: {fnname}: cannot classify arm {pat}")
        b = body
        if b[0] == "block": b = b[2]
        if not (b and b[0] == "ref" and b[1][0] == "field" and b[1][1] == ("path", ["self"]) and b[1][2] in fields):
            die(f"{src.rel}: {fnname}: arm {pat[1][1]} is not `&self.<field>`")
        if pat[1][1] in table: die(f"{src.rel}: {fnname}: duplicate arm {pat[1][1]}")
        table[pat[1][1]] = b[1][2]
    return table


def main():
    info = gen_market_config.main()
    fields, flags, prog_helpers = info["fields"], info["flags"], info["helpers"]
    mp = Src(MODEL_POOL)
    kinds = [v for v, _, _, _ in mp.enum_variants("PoolKind")[1]]
    um = Src(UTILS_MARKET)
    keys = [v for v, _, _, _ in um.enum_variants("MarketConfigKey")[1]]

    pm = Src(PROG_MODEL)
    mm = Src(PROG_MARKET)
    _, mlo, mhi = mm.find_impl(lambda h: h.strip() == "Market", "Market")
    mpv = mm.find_fn("max_pool_value_for_deposit", mlo, mhi)
    mpv["src"] = mm
    # AsLiquidityMarket::max_pool_value_for_deposit must forward to Market::max_pool_value_for_deposit
    fw = [f for h, lo, hi in pm.impls() if "LiquidityMarket <" in h and "AsLiquidityMarket" in h for f in pm.fns(lo, hi) if f["name"] == "max_pool_value_for_deposit"]
    if len(fw) != 1 or pm.text_of(*fw[0]["body"]) != "self . market . as_ref ( ) . max_pool_value_for_deposit ( is_long_token )":
        die(f"{pm.rel}: AsLiquidityMarket::max_pool_value_for_deposit no longer forwards to Market::max_pool_value_for_deposit")
    prog_rows = wiring(pm, "Market", fields, set(flags), {h: dict(params=p) for h, p in prog_helpers.items()}, kinds,
                       extra_fns=[("LiquidityMarket", mpv)])

    sm = Src(SDK_MARKET)
    _, clo, chi = sm.find_impl(lambda h: h.strip() == "MarketConfig", "SDK MarketConfig")
    # SDK flag(): Bitmap::from_value(self.flag.value).get(flag as usize)
    fl = sm.find_fn("flag", clo, chi)
    if sm.text_of(*fl["body"]) != "MarketConfigFlags :: from_value ( self . flag . value ) . get ( flag as usize )":
        die(f"{sm.rel}:{fl['line']}: SDK MarketConfig::flag body changed")
    ucp = sm.find_fn("use_market_closed_params", clo, chi)
    if sm.text_of(*ucp["body"]) != "is_market_closed && self . flag ( MarketConfigFlag :: EnableMarketClosedParams )":
        die(f"{sm.rel}:{ucp['line']}: SDK use_market_closed_params body changed")
    sdk_helpers = helper_tables(sm, clo, chi, fields, set(flags), {"flag", "use_market_closed_params"})
    sdk_rows = wiring(sm, "MarketModel", fields, set(flags), {h: dict(params=v["params"]) for h, v in sdk_helpers.items()}, kinds)
    # SDK-local flag enums (bit = declaration order, `flag as usize`)
    sdk_cflags = [v for v, d, _, _ in sm.enum_variants("MarketConfigFlag")[1]]
    sdk_mflags = [v for v, d, _, _ in sm.enum_variants("MarketFlag")[1]]
    for nm in ("MarketConfigFlag", "MarketFlag"):
        if any(d is not None for _, d, _, _ in sm.enum_variants(nm)[1]): die(f"{sm.rel}: SDK enum {nm} has explicit discriminants")
    mflag_fn = None
    _, slo, shi = sm.find_impl(lambda h: h.strip() == "Market", "SDK Market")
    mf = sm.find_fn("flag", slo, shi)
    if sm.text_of(*mf["body"]) != "MarketFlags :: from_value ( self . flags . value ) . get ( flag as usize )":
        die(f"{sm.rel}:{mf['line']}: SDK Market::flag body changed")
    ic = sm.find_fn("is_closed", slo, shi)
    if sm.text_of(*ic["body"]) != "self . flag ( MarketFlag :: Closed )": die(f"{sm.rel}: SDK Market::is_closed body changed")
    # program side is_closed
    pic = mm.find_fn("is_closed", mlo, mhi)
    if mm.text_of(*pic["body"]) != "self . flag ( MarketFlag :: Closed )": die(f"{mm.rel}: Market::is_closed body changed")

    ss = Src(SDK_STORE)
    found = [(h, lo, hi) for h, lo, hi in ss.impls() if h.strip() == "MarketConfig"]
    if len(found) != 1: die(f"{ss.rel}: expected one `impl MarketConfig`")
    sdk_get = ref_table(ss, found[0][1], found[0][2], "get", "MarketConfigKey", keys, fields)

    # ---- emit
    methods = []
    params = []
    variants = []
    for rows in (prog_rows, sdk_rows):
        for m, var, side, p, v, w in rows:
            if m not in methods: methods.append(m)
            if p not in params: params.append(p)
            if var not in variants: variants.append(var)
    pid = lambda p: "self_" if p == "" else p.replace(".", "_")
    vid = lambda v: "none_" if v == "" else v
    o = [L.header("Wiring of config fields into gmsol-model parameters (program and SDK) + SDK copies of tables",
                  [PROG_MODEL, PROG_MARKET, SDK_MARKET, SDK_STORE], "Gmx.Gen.Wiring")]
    o[0] = "import Gmx.Gen.MarketConfig\nimport Gmx.Gen.Pools\n" + o[0] + "open Gmx.Gen.MarketConfig Gmx.Gen.Pools\n\n"
    o.append(L.enum("Method", methods, doc="model trait methods classified as configuration/pool accessors"))
    o.append(L.enum("Param", [pid(p) for p in params], names=[p if p else "-" for p in params], doc="builder setter path (`self_` = the method's own return value)"))
    o.append(L.enum("Variant", [vid(v) for v in variants], names=[v if v else "-" for v in variants], doc="`PnlFactorKind` variant / SDK swap-pricing switch (`none_` = no variant)"))
    o.append("inductive Src where\n  | field (f : Field)\n  | flag (f : Flag)\n  | helper (h : Helper) (forLong : Option Bool)\n  | pool (k : Kind)\n"
             "  | const (name : String)\n  | lit (n : Nat)\n  | modelField (name : String)\n  deriving DecidableEq, Repr\n")
    o.append("structure Row where\n  method : Method\n  variant : Variant\n  side : Option Bool\n  param : Param\n  src : Src\n  deriving DecidableEq, Repr\n")

    def emit_rows(name, rows, doc):
        o.append(f"/-- {doc} -/")
        o.append(f"def {name} : List Row :=\n  [" + ",\n   ".join(
            "⟨.{}, .{}, {}, .{}, {}⟩".format(L.ident(m), L.ident(vid(var)), "none" if side is None else ("some true" if side else "some false"),
                                            L.ident(pid(p)), src_lean(v, w)) for m, var, side, p, v, w in rows) + "]\n")
    emit_rows("progWiring", prog_rows, "program: `impl gmsol_model::*Market for Market` (+ `Market::max_pool_value_for_deposit`)")
    emit_rows("sdkWiring", sdk_rows, "SDK: `impl gmsol_model::*Market for MarketModel`")

    o.append("/-- SDK `MarketConfig::get` (crates/programs/src/utils/store.rs) -/")
    o.append(L.total_fn("sdkGetField", "Key", "Option Field", [(k, f"some .{L.ident(sdk_get[k])}" if k in sdk_get else "none") for k in keys]))
    hn = list(prog_helpers)
    if sorted(hn) != sorted(sdk_helpers): die(f"{sm.rel}: SDK MarketConfig helper set {sorted(sdk_helpers)} differs from the program's {sorted(hn)}")
    o.append("/-- SDK copy of the closed-market helper switches (model/market.rs `impl MarketConfig`) -/")
    o.append("def sdkHelperEval : Helper → (useClosed forLong : Bool) → Atom")
    for h in hn:
        t = sdk_helpers[h]["table"]
        for uc in (True, False):
            for flong in (True, False):
                v = t[(uc, flong if "for_long" in sdk_helpers[h]["params"] else None)]
                o.append(f"  | .{L.ident(h)}, {str(uc).lower()}, {str(flong).lower()} => .{v[0]} .{L.ident(v[1])}")
    o.append("")
    o.append(L.total_fn("sdkHelperOptNonzero", "Helper", "Bool", [(h, str(bool(sdk_helpers[h]["optnz"])).lower()) for h in hn]))
    o.append("/-- SDK-local `enum MarketConfigFlag` order: (name, bit) -/")
    o.append("def sdkFlagBits : List (String × Nat) := [" + ", ".join(f"({L.lstr(v)}, {i})" for i, v in enumerate(sdk_cflags)) + "]\n")
    o.append("/-- SDK-local `enum MarketFlag` order: (name, bit) -/")
    o.append("def sdkMFlagBits : List (String × Nat) := [" + ", ".join(f"({L.lstr(v)}, {i})" for i, v in enumerate(sdk_mflags)) + "]\n")
    o.append("end Gmx.Gen.Wiring\n")
    L.write_if_changed("Wiring.lean", "\n".join(o))


if __name__ == "__main__":
    try:
        main()
    except (Unclassified, Unparsed) as ex:
        die(str(ex))
