"""Symbolic evaluation of the table-like Rust method bodies (config accessors, helper switches,
model-trait parameter wiring). Shared by gen_market_config.py / gen_wiring.py.

Values:
  ('field', F)          self.config.F (a MarketConfig factor field)
  ('flag', X)           self.config.flag(MarketConfigFlag::X)
  ('bool', b)           concrete boolean
  ('lit', n)            integer literal
  ('closed',)           self.is_closed()  (symbolic)
  ('useclosed',)        use_market_closed_params(<closed>)  (symbolic, only inside helper bodies it is enumerated)
  ('optnz', v)          `if v == 0 { None } else { Some(v) }`
  ('helper', name, for_long|None)   self.config.<helper>(for_long?, <closed>)
  ('pool', Kind)        self.try_pool(PoolKind::Kind)
  ('const', NAME)       constants::NAME
  ('modelfield', name)  self.<name> of the SDK MarketModel (e.g. order_fee_discount_factor)
  ('struct', Type, [(param, value)])   builder chain
  ('switch', what, [([variants], value)])   match over a non-config model field
  ('cfgself',)          `self` when evaluating inside `impl MarketConfig`; ('config',) = self.config / &self.config
  ('kind', K) / ('enumv', [segs])  enum path values
"""
from rustlex import Unparsed, show, strip_ref


class Unclassified(Exception):
    pass


class SymEval:
    def __init__(self, where, fields, flags, helpers=None, inside_config=False, pool_kinds=None):
        self.where = where
        self.fields = set(fields)
        self.flags = set(flags)
        self.helpers = helpers or {}      # name -> dict(params=[names]) for self.config.<helper>(..)
        self.inside_config = inside_config
        self.pool_kinds = set(pool_kinds or [])

    def fail(self, e, why):
        raise Unclassified(f"{self.where}: cannot classify `{show(e)}`: {why}")

    # ---- blocks
    def block(self, blk, env):
        env = dict(env)
        assert blk[0] == "block"
        for st in blk[1]:
            if st[0] == "let":
                pat, init = st[1], st[2]
                if pat[0] != "pident" or init is None:
                    raise Unclassified(f"{self.where}: unsupported let pattern {pat}")
                env[pat[1]] = self.ev(init, env)
            elif st[0] == "item":
                if st[1].startswith("use "): continue
                raise Unclassified(f"{self.where}: nested item `{st[1][:40]}`")
            elif st[0] == "expr":
                e = st[1]
                if e[0] == "macro" and e[1] in ("debug_assert_eq", "debug_assert", "msg"): continue
                if e[0] == "if" and e[3] is None:
                    # early return guard: `if cond { return X; }` — evaluate, must be decidable
                    c = self.ev(e[1], env)
                    if c[0] != "bool": self.fail(e, "guard condition is not a concrete boolean")
                    if c[1]:
                        return self.block(e[2], env)
                    continue
                if e[0] == "try":
                    # e.g. self.validate_vi_for_swaps()?  — record as opaque side condition
                    raise Unclassified(f"{self.where}: statement `{show(e)}` has effects")
                raise Unclassified(f"{self.where}: unsupported statement `{show(e)}`")
        if blk[2] is None:
            # maybe last stmt is `return X`
            raise Unclassified(f"{self.where}: block without tail expression")
        return self.ev(blk[2], env)

    # ---- expressions
    def ev(self, e, env):
        k = e[0]
        if k == "ref": return self.ev(e[1], env)
        if k == "unop" and e[1] == "*": return self.ev(e[2], env)
        if k == "block": return self.block(e, env)
        if k == "return":
            return self.ev(e[1], env)
        if k == "lit":
            t = e[1]
            if t == "true": return ("bool", True)
            if t == "false": return ("bool", False)
            import re
            m = re.match(r"^([0-9][0-9_]*)([iu](8|16|32|64|128|size))?$", t)
            if m: return ("lit", int(m.group(1).replace("_", "")))
            self.fail(e, "literal")
        if k == "path":
            segs = e[1]
            if segs == ["self"]:
                return ("cfgself",) if self.inside_config else ("self",)
            if len(segs) == 1 and segs[0] in env: return env[segs[0]]
            if segs == ["None"]: return ("none",)
            if len(segs) >= 2 and segs[-2] == "PoolKind": return ("kind", segs[-1])
            if len(segs) >= 2 and segs[-2] == "MarketConfigFlag": return ("cflag", segs[-1])
            if len(segs) >= 2 and segs[0] == "constants": return ("const", segs[-1])
            if len(segs) >= 2: return ("enumv", segs)
            self.fail(e, "unbound name")
        if k == "field":
            base = self.ev(e[1], env)
            if base[0] == "self" and e[2] == "config": return ("config",)
            if base[0] in ("config", "cfgself"):
                if e[2] in self.fields: return ("field", e[2])
                self.fail(e, f"`{e[2]}` is not a MarketConfig factor field")
            if base[0] == "self": return ("modelfield", e[2])
            self.fail(e, "field access on unsupported base")
        if k == "call":
            f = e[1]
            if f[0] == "path" and f[1] in (["Ok"], ["Some"]) and len(e[2]) == 1:
                v = self.ev(e[2][0], env)
                return v
            if f[0] == "path" and f[1][-1] == "builder" and not e[2]:
                return ("struct", f[1][-2], [])
            if f[0] == "path" and f[1][-2:] == ["u128", "from"] and len(e[2]) == 1:
                return self.ev(e[2][0], env)
            self.fail(e, "call")
        if k == "mcall":
            recv, name, args = e[1], e[2], e[3]
            rv = self.ev(recv, env)
            if rv[0] == "struct":
                if name == "build" and not args: return rv
                if len(args) != 1: self.fail(e, "builder setter arity")
                return ("struct", rv[1], rv[2] + [(name, self.ev(args[0], env))])
            if rv[0] in ("config", "cfgself"):
                if name == "flag" and len(args) == 1:
                    a = self.ev(args[0], env)
                    if a[0] != "cflag" or a[1] not in self.flags: self.fail(e, "unknown config flag")
                    return ("flag", a[1])
                if name == "use_market_closed_params" and len(args) == 1:
                    a = self.ev(args[0], env)
                    if a[0] == "bool": return ("bool", a[1])      # enumerated inside helper bodies
                    if a[0] != "closed": self.fail(e, "argument is not the market-closed state")
                    return ("useclosed",)
                if name in self.helpers:
                    h = self.helpers[name]
                    if len(args) != len(h["params"]): self.fail(e, "helper arity")
                    fl, saw_closed = None, False
                    for pn, a in zip(h["params"], args):
                        av = self.ev(a, env)
                        if pn == "is_market_closed":
                            if av[0] != "closed": self.fail(e, "is_market_closed argument is not self.is_closed()")
                            saw_closed = True
                        elif pn == "for_long":
                            if av[0] != "bool": self.fail(e, "for_long argument is not a literal/side boolean")
                            fl = av[1]
                        else:
                            self.fail(e, f"unknown helper parameter {pn}")
                    if not saw_closed: self.fail(e, "helper without is_market_closed")
                    return ("helper", name, fl)
                self.fail(e, f"unknown MarketConfig method `{name}`")
            if rv[0] == "self":
                if name == "is_closed" and not args: return ("closed",)
                if name == "try_pool" and len(args) == 1:
                    a = self.ev(args[0], env)
                    if a[0] != "kind": self.fail(e, "try_pool argument is not a PoolKind")
                    return ("pool", a[1])
                self.fail(e, f"unsupported self method `{name}`")
            if name == "with_discount_factor" and len(args) == 1 and rv[0] == "struct":
                return ("struct", rv[1], rv[2] + [("with_discount_factor", self.ev(args[0], env))])
            self.fail(e, "method call on unsupported receiver")
        if k == "binop" and e[1] == "&&":
            l, r = self.ev(e[2], env), self.ev(e[3], env)
            if l[0] == "bool" and not l[1]: return ("bool", False)
            if l[0] == "bool" and l[1]: return r
            if r[0] == "bool" and r[1]: return l
            return ("and", l, r)
        if k == "if":
            cond, then, els = e[1], e[2], e[3]
            # `if v == 0 { None } else { Some(v) }`
            if cond[0] == "binop" and cond[1] == "==" and els is not None:
                l, r = self.ev(cond[2], env), self.ev(cond[3], env)
                if r == ("lit", 0) and l[0] in ("field", "helper", "ite"):
                    tv, ev_ = self.block(then, env), self.ev(els, env)
                    if tv == ("none",) and ev_ == l: return ("optnz", l)
                self.fail(e, "comparison shape")
            c = self.ev(cond, env)
            if els is None: self.fail(e, "if without else")
            if c[0] == "bool":
                return self.block(then, env) if c[1] else self.ev(els, env)
            if c[0] == "useclosed":
                return ("ite", "useclosed", self.block(then, env), self.ev(els, env))
            self.fail(e, "condition is neither a side boolean nor the closed-market switch")
        if k == "match":
            scrut = self.ev(e[1], env) if e[1][0] != "tuple" else ("tuple", [self.ev(x, env) for x in e[1][1]])
            if scrut[0] == "modelfield":
                alts = []
                for pat, guard, body in e[2]:
                    if guard is not None: self.fail(e, "match guard")
                    ps = pat[1] if pat[0] == "por" else [pat]
                    names = []
                    for p in ps:
                        if p[0] != "ppath": self.fail(e, "switch arm pattern")
                        names.append(p[1][-1])
                    alts.append((names, self.ev(body, env)))
                return ("switch", scrut[1], alts)
            for pat, guard, body in e[2]:
                if guard is not None: self.fail(e, "match guard")
                if self.pmatch(pat, scrut, e):
                    return self.ev(body, env)
            self.fail(e, "no arm matches")
        if k == "tuple":
            return ("tuple", [self.ev(x, env) for x in e[1]])
        if k == "call" or k == "macro":
            self.fail(e, "call")
        self.fail(e, f"unsupported node {k}")

    def pmatch(self, pat, v, e):
        if pat[0] == "pwild": return True
        if pat[0] == "ptuple":
            if v[0] != "tuple" or len(v[1]) != len(pat[1]): self.fail(e, "tuple pattern arity")
            return all(self.pmatch(p, x, e) for p, x in zip(pat[1], v[1]))
        if pat[0] == "plit":
            if v[0] != "bool": self.fail(e, "boolean pattern against non-concrete value")
            return (pat[1] == "true") == v[1]
        if pat[0] == "ppath":
            if v[0] == "enumv": return v[1][-1] == pat[1][-1]
            if v[0] == "kind": return v[1] == pat[1][-1]
            self.fail(e, "enum pattern against non-enum value")
        if pat[0] == "por":
            return any(self.pmatch(p, v, e) for p in pat[1])
        self.fail(e, f"pattern {pat[0]}")
