#!/usr/bin/env python3
"""C32 translator: regenerates lean/Gmx/Gen/C32Shapes.lean from

  * programs/store/src/instructions/builder_fee.rs  (SettleBuilderFee::invoke), and
  * programs/store/src/ops/order.rs (the builder-fee blocks of execute_increase_position /
    execute_decrease_position),

i.e. the inline code that cannot be called from a native harness (token CPI / whole order
execution). It recognises a closed list of statement shapes and FAILS CLOSED (exit 1, naming the
statement) on anything else that touches the fee amounts.
"""
import os, re, sys

REPO = os.environ.get("VERIF_REPO", "/repo")
ROOT = os.path.abspath(os.path.join(os.path.dirname(os.path.abspath(__file__)), ".."))
OUT = os.path.join(ROOT, "lean", "Gmx", "Gen", "C32Shapes.lean")


class Unclassified(Exception):
    pass


def strip_comments(src):
    out, i, n = [], 0, len(src)
    while i < n:
        if src.startswith("//", i):
            while i < n and src[i] != "\n": i += 1
        elif src.startswith("/*", i):
            j = src.find("*/", i + 2)
            i = n if j < 0 else j + 2
        elif src[i] == '"':
            j = i + 1
            while j < n and src[j] != '"':
                j += 2 if src[j] == "\\" else 1
            out.append(src[i:j + 1]); i = j + 1
        else:
            out.append(src[i]); i += 1
    return "".join(out)


def match_brace(s, i, op="{", cl="}"):
    assert s[i] == op
    d = 0
    for j in range(i, len(s)):
        if s[j] == op: d += 1
        elif s[j] == cl:
            d -= 1
            if d == 0: return j
    raise Unclassified("unbalanced braces")


def fn_body(src, name):
    m = re.search(r"\bfn\s+" + re.escape(name) + r"\s*(<[^>{]*>)?\s*\(", src)
    if not m: raise Unclassified(f"function `{name}` not found")
    i = src.index("(", m.start())
    j = match_brace(src, i, "(", ")")
    k = src.index("{", j)
    return src[k + 1: match_brace(src, k)]


def norm(s):
    return re.sub(r"\s+", " ", s).strip()


def statements(body):
    """top-level statements of a block: split on `;` at depth 0 and after a depth-0 `}` that ends
    a block statement (`if … { … }`, bare `{ … }`)."""
    out, cur, d, i, n = [], [], 0, 0, len(body)
    while i < n:
        c = body[i]
        if c in "({[": d += 1
        elif c in ")}]": d -= 1
        cur.append(c)
        if d == 0 and c == ";":
            out.append(norm("".join(cur)[:-1])); cur = []
        elif d == 0 and c == "}":
            rest = body[i + 1:].lstrip()
            txt = norm("".join(cur))
            if txt.startswith(("if ", "{", "for ", "while ", "match ")) and not rest.startswith(("else", ".", "?", ";", ")")):
                out.append(txt); cur = []
        i += 1
    tail = norm("".join(cur))
    if tail: out.append(tail)
    return [s for s in out if s]


ATOMS_SETTLE = {"recorded_amount": "recorded", "ctx.accounts.escrow.amount": "escrow"}


def expr(e, atoms, where):
    e = norm(e)
    if e in atoms: return atoms[e]
    if re.fullmatch(r"\d+", e): return e
    m = re.fullmatch(r"(.+?)\.(min|max|saturating_sub)\((.+)\)", e)
    if m:
        a, b = expr(m.group(1), atoms, where), expr(m.group(3), atoms, where)
        if m.group(2) == "min": return f"(if {a} ≤ {b} then {a} else {b})"
        if m.group(2) == "max": return f"(if {a} ≤ {b} then {b} else {a})"
        return f"({a} - {b})"
    raise Unclassified(f"{where}: cannot translate expression `{e}`")


def settle_shape():
    src = strip_comments(open(os.path.join(REPO, "programs/store/src/instructions/builder_fee.rs")).read())
    body = fn_body(src, "invoke")
    sts = statements(body)
    seen, order = {}, []
    for s in sts:
        w = "SettleBuilderFee::invoke"
        if s == "let recorded_amount = ctx.accounts.order.load()?.builder_fee_amount()": k = "read"
        elif re.fullmatch(r"if recorded_amount == 0 \{ return Ok\(\(\)\)(;)? \}", s): k = "noop"
        elif re.fullmatch(r"let (builder_user|claim_vault) = ctx \. accounts \. \1 \. as_ref\(\) \. ok_or_else\(.*\)\?".replace(" \\. ", r"\s*\.\s*"), s): k = "acct_" + s.split()[1]
        elif s.startswith("{ let order = ctx.accounts.order.load()?;") and "require_keys_eq!(*builder, builder_user.key()" in s and "amount" not in s: k = "builder_check"
        elif s.startswith("let settled_amount = "):
            seen["settled_expr"] = expr(s[len("let settled_amount = "):], ATOMS_SETTLE, w); k = "settled"
        elif s == "let signer = ctx.accounts.order.load()?.signer()" or s == "let seeds = signer.as_seeds()": k = "signer"
        elif s.startswith("transfer_checked("):
            inner = s[len("transfer_checked("): match_brace(s, s.index("("), "(", ")")]
            # top-level args
            args, d, cur = [], 0, []
            for c in inner:
                if c in "({[": d += 1
                elif c in ")}]": d -= 1
                if c == "," and d == 0: args.append(norm("".join(cur))); cur = []
                else: cur.append(c)
            if norm("".join(cur)): args.append(norm("".join(cur)))
            if len(args) != 3: raise Unclassified(f"{w}: transfer_checked with {len(args)} arguments")
            cpi = args[0]
            for need in ("from: ctx.accounts.escrow.to_account_info()", "to: claim_vault.to_account_info()",
                         "authority: ctx.accounts.order.to_account_info()", "mint: ctx.accounts.final_output_token.to_account_info()"):
                if need not in cpi: raise Unclassified(f"{w}: transfer_checked accounts changed (missing `{need}`)")
            seen["transfer_amount"] = expr(args[1], {"settled_amount": "settled", **ATOMS_SETTLE}, w)
            if not s.rstrip().endswith(")?"): raise Unclassified(f"{w}: transfer_checked result is not propagated with `?`")
            k = "transfer"
        elif s.startswith("ctx.accounts.order.load_mut()?.builder_fee_amount = "):
            seen["record_after"] = expr(s.split(" = ", 1)[1], {"settled_amount": "settled", **ATOMS_SETTLE}, w); k = "zero"
        elif s.startswith("EventEmitter::new(") and "BuilderFeeSettled::new(" in s: k = "event"
        elif s == "Ok(())": k = "ok"
        else:
            raise Unclassified(f"{w}: unrecognised statement `{s[:120]}`")
        if k in order and k != "signer": raise Unclassified(f"{w}: duplicated step `{k}`")
        order.append(k)
    need = ["read", "noop", "settled", "transfer", "zero", "ok"]
    pos = [order.index(k) if k in order else -1 for k in need]
    if -1 in pos or pos != sorted(pos):
        raise Unclassified(f"SettleBuilderFee::invoke: steps {need} not all present in this order (found {order})")
    return seen


def find_block(body, opener_re, must_contain):
    for m in re.finditer(opener_re, body):
        i = body.index("{", m.start())
        j = match_brace(body, i)
        blk = body[i + 1: j]
        if must_contain in blk: return blk
    raise Unclassified(f"block `{opener_re}` containing `{must_contain}` not found")


def order_shapes():
    src = strip_comments(open(os.path.join(REPO, "programs/store/src/ops/order.rs")).read())
    res = {}
    # ---- decrease
    w = "execute_decrease_position"
    body = fn_body(src, w)
    blk = find_block(body, r"if\s+builder_fee_factor\s*!=\s*0\s*\{", "compute_builder_fee_amount")
    amounts = {"payable_amount": "payable", "output_amount.into()": "output", "paid_amount": "paid", "recorded_amount": "recorded"}
    got = []
    for s in statements(blk):
        if s == "let final_output_token_price = oracle.get_primary_price(&final_output_token, false)?": got.append("price")
        elif re.fullmatch(r"let payable_amount = compute_builder_fee_amount\( \*report\.size_delta_usd\(\), builder_fee_factor, &final_output_token_price,? \)\?", s): got.append("compute")
        elif s.startswith("let paid_amount = clamp_builder_fee_amount("):
            a = [norm(x) for x in s[s.index("(") + 1: s.rindex(")")].split(",") if norm(x)]
            if len(a) != 2: raise Unclassified(f"{w}: clamp with {len(a)} args")
            res["dec_clamp_args"] = (expr(a[0], amounts, w), expr(a[1], amounts, w)); got.append("clamp")
        elif s.startswith("let recorded_amount = u64::try_from("):
            a = s[s.index("(") + 1: s.index(")")]
            if "map_err" not in s or not s.endswith("?"): raise Unclassified(f"{w}: u64 conversion is not checked")
            res["dec_convert_arg"] = expr(a, amounts, w); got.append("convert")
        elif s.startswith("order.record_builder_fee("):
            if not s.endswith(")?"): raise Unclassified(f"{w}: record_builder_fee result ignored")
            res["dec_record_arg"] = expr(s[s.index("(") + 1: s.rindex(")")], amounts, w); got.append("record")
        elif s.startswith("position.event_emitter().emit_cpi(&BuilderFeeCharged::new("): got.append("event")
        else: raise Unclassified(f"{w}: unrecognised statement in the builder-fee block `{s[:120]}`")
    if got != ["price", "compute", "clamp", "convert", "record", "event"]:
        raise Unclassified(f"{w}: builder-fee block steps changed: {got}")
    # output_amount must be the amount checked/transferred as final output: it is defined before the block
    if not re.search(r"\blet\s+(mut\s+)?output_amount\b|\(\s*output_amount\s*,|output_amount\s*,\s*secondary", body):
        raise Unclassified(f"{w}: `output_amount` binding not found")
    # ---- increase
    w = "execute_increase_position"
    body = fn_body(src, w)
    blk = find_block(body, r"if\s+builder_fee_factor\s*!=\s*0\s*\{", "charge_builder_fee_on_collateral_increment")
    got = []
    amounts = {"payable_amount": "payable", "collateral_increment_amount": "after"}
    for s in statements(blk):
        if s.startswith("let final_output_token = order .tokens".replace(" .", ".")) or s.startswith("let final_output_token = order.tokens") or s.startswith("let final_output_token = order"): got.append("token")
        elif s.startswith("require_keys_eq!( final_output_token, *position.collateral_token()") or s.startswith("require_keys_eq!(final_output_token, *position.collateral_token()"): got.append("tokencheck")
        elif re.fullmatch(r"let \(collateral_increment_amount, payable_amount\) = charge_builder_fee_on_collateral_increment\( collateral_increment_amount, params\.size_delta_value, builder_fee_factor, position\.collateral_price\(&prices\),? \)\?", s): got.append("charge")
        elif s.startswith("transfer_out.transfer_out("):
            a = [norm(x) for x in s[s.index("(") + 1: s.rindex(")")].split(",")]
            if a[0] != "false" or not s.endswith(")?"): raise Unclassified(f"{w}: transfer_out call changed `{s}`")
            res["inc_transfer_arg"] = expr(a[1], amounts, w); got.append("transfer")
        elif s.startswith("order.record_builder_fee("):
            if not s.endswith(")?"): raise Unclassified(f"{w}: record_builder_fee result ignored")
            res["inc_record_arg"] = expr(s[s.index("(") + 1: s.rindex(")")], amounts, w); got.append("record")
        elif s.startswith("position.event_emitter().emit_cpi(&BuilderFeeCharged::new("): got.append("event")
        elif s == "collateral_increment_amount": got.append("result")
        else: raise Unclassified(f"{w}: unrecognised statement in the builder-fee block `{s[:120]}`")
    if got != ["token", "tokencheck", "charge", "transfer", "record", "event", "result"]:
        raise Unclassified(f"{w}: builder-fee block steps changed: {got}")
    return res


def main():
    try:
        st = settle_shape()
        od = order_shapes()
    except (Unclassified, OSError, ValueError) as e:
        print(f"gen_c32_shapes: FAIL CLOSED: {e}")
        return 1
    lean = f"""-- GENERATED by translator/gen_c32_shapes.py from /repo sources — do not edit.
/-! Inline builder-fee code shapes (C32): `SettleBuilderFee::invoke` and the builder-fee blocks of
`execute_increase_position` / `execute_decrease_position`. -/
namespace Gmx.Gen.C32

/-- `let settled_amount = …` of `SettleBuilderFee::invoke`. -/
def settledAmount (recorded escrow : Nat) : Nat := {st['settled_expr']}

/-- the amount argument of the `transfer_checked` CPI (escrow → builder claim vault). -/
def transferAmount (recorded escrow settled : Nat) : Nat := {st['transfer_amount']}

/-- the value stored into `order.builder_fee_amount` after the transfer. -/
def recordAfter (recorded escrow settled : Nat) : Nat := {st['record_after']}

/-- decrease path: `clamp_builder_fee_amount(<a>, <b>)`. -/
def decClampArgs (payable output : Nat) : Nat × Nat := ({od['dec_clamp_args'][0]}, {od['dec_clamp_args'][1]})

/-- decrease path: the value converted with `u64::try_from`. -/
def decConvertArg (payable output paid : Nat) : Nat := {od['dec_convert_arg']}

/-- decrease path: the value passed to `Order::record_builder_fee`. -/
def decRecordArg (payable output paid recorded : Nat) : Nat := {od['dec_record_arg']}

/-- increase path: amount routed into the final-output escrow (`transfer_out`). -/
def incTransferArg (after payable : Nat) : Nat := {od['inc_transfer_arg']}

/-- increase path: the value passed to `Order::record_builder_fee`. -/
def incRecordArg (after payable : Nat) : Nat := {od['inc_record_arg']}

end Gmx.Gen.C32
"""
    lean = lean.replace("(recorded escrow settled : Nat)", "(recorded escrow settled : Nat)")
    os.makedirs(os.path.dirname(OUT), exist_ok=True)
    if not os.path.exists(OUT) or open(OUT).read() != lean:
        open(OUT, "w").write(lean)
    return 0


if __name__ == "__main__":
    sys.exit(main())
