#!/usr/bin/env python3
"""Regenerates lean/Gmx/Gen/StoreBinding.lean: for every instruction of the five programs and every
STATE account of its accounts struct (zero-copy / borsh account of a program type — not signers,
programs, token accounts, mints, unchecked/system accounts), HOW the account is bound to the
`store` account of the same struct, so that a role held in store A cannot be used on state of
store B:

  isStore            the account is the store itself
  hasOne via         `has_one = via` where `via` is the store or an already bound account
  referencedBy via   a bound account `via` carries `has_one = <this account>` (e.g. store → token_map)
  seeds via          the PDA seeds contain `via.key()` for the store / a bound account
  constraint via     a `constraint = …` / `address = …` expression mentions the store / a bound account
  noStore            the struct has no `store` account at all
  unbound            none of the above

Binding is computed as a fixpoint over the struct. Attribute keys it does not know abort the run
(fail closed).  Used by C19.
"""
import os
import re
import sys
sys.path.insert(0, os.path.dirname(os.path.abspath(__file__)))
from rustlex import Src, die
import gen_access as G
import leangen as L
from gen_c19_specs import attr_items

KNOWN_KEYS = {"mut", "init", "init_if_needed", "payer", "space", "has_one", "seeds", "bump", "seeds :: program", "constraint", "address",
              "close", "zero", "realloc", "realloc :: payer", "realloc :: zero", "owner", "signer", "executable", "rent_exempt",
              "token :: mint", "token :: authority", "token :: token_program", "associated_token :: mint", "associated_token :: authority",
              "associated_token :: token_program", "mint :: authority", "mint :: decimals", "mint :: token_program", "mint :: freeze_authority"}


def main():
    rows = G.main()
    out_rows = []
    for pname, root, modname in G.PROGRAMS:
        lib = Src(f"{root}/src/lib.rs")
        files = [Src(f) for f in G.rs_files(root)]
        structs = {}
        for s in files:
            for i, t in enumerate(s.toks):
                if t.kind == "id" and t.text == "struct" and s.is_id(i + 1): structs.setdefault(s.toks[i + 1].text, []).append((s, i))
        mod = None
        for i, t in enumerate(lib.toks):
            if t.kind == "id" and t.text == "mod" and lib.is_id(i + 1, modname): mod = (i + 3, lib.match[i + 2])
        for f in lib.fns(*mod):
            name = f["name"]
            ctx = re.search(r"Context <(?: '\w+ ,)* (\w+)", lib.text_of(*f["params"])).group(1)
            if ctx not in structs or len(structs[ctx]) != 1: die(f"{lib.rel}:{f['line']}: {name}: accounts struct {ctx} not found / ambiguous")
            s, si = structs[ctx][0]
            j = si + 2
            if s.is_p(j, "<"): j = s.skip_generics(j)
            lo, hi = j + 1, s.match[j]
            fattrs, cur, i = {}, [], lo
            while i < hi:
                if s.toks[i].kind == "doc": i += 1; continue
                if s.is_p(i, "#"): cur.append((i + 2, s.match[i + 1])); i = s.match[i + 1] + 1; continue
                if s.is_id(i, "pub"):
                    i += 1
                    if s.is_p(i, "("): i = s.match[i] + 1
                fname = s.toks[i].text
                fattrs[fname] = attr_items(s, cur)
                cur = []
                depth = 0
                while i < hi:
                    t = s.toks[i]
                    if t.kind == "p":
                        if t.text in ("(", "[", "{"): i = s.match[i]
                        elif t.text == "<": depth += 1
                        elif t.text == ">": depth -= 1
                        elif t.text == ">>": depth -= 2
                        elif t.text == "," and depth <= 0: break
                    i += 1
                i += 1
            ftypes = {fn: re.sub(r"'info ,? ?", "", ty).replace(" ", "") for fn, ty, _ in s.struct_fields(ctx)}
            state = []
            for fn, ty in ftypes.items():
                core = re.sub(r"^Option<(.*)>$", r"\1", ty); core = re.sub(r"^Box<(.*)>$", r"\1", core)
                m = re.match(r"(AccountLoader|Account|InterfaceAccount)<([\w:]+)>", core)
                if m and not re.search(r"(TokenAccount|Mint)$", m.group(2)): state.append((fn, m.group(2).split("::")[-1]))
            for fn, items in fattrs.items():
                for k, v, _ in items:
                    if k not in KNOWN_KEYS: die(f"{s.rel}: struct {ctx}.{fn}: unknown account attribute key `{k}` (cannot classify the store binding)")
            has_store = "store" in ftypes
            binding = {}
            if has_store:
                bound = ["store"]          # ordered: deterministic choice of `via` (the store first, then in order of discovery)
                changed = True
                while changed:
                    changed = False
                    for fn in ftypes:          # propagate through every account (mints / token accounts / PDAs too)
                        if fn in bound: continue
                        items = fattrs.get(fn, [])
                        why = None
                        for k, v, _ in items:
                            v0 = re.sub(r" @ .*$", "", v)
                            if k == "has_one" and v0 in bound and why is None: why = ("hasOne", v0)
                        if why is None:
                            for b in bound:
                                if why is None and any(k == "has_one" and re.sub(r" @ .*$", "", v) == fn for k, v, _ in fattrs.get(b, [])): why = ("referencedBy", b)
                        if why is None:
                            for k, v, _ in items:
                                if k == "seeds":
                                    for b in bound:
                                        if why is None and re.search(rf"\b{b} \. key\b", v): why = ("seeds", b)
                        if why is None:
                            for k, v, _ in items:
                                if k in ("constraint", "address"):
                                    for b in bound:
                                        if why is None and re.search(rf"\b{b}\b", v): why = ("constraint", b)
                        if why is None:
                            # a bound account's constraint mentions this one (e.g. `constraint = config.x() == Some(&this.key())`)
                            for b in bound:
                                for k, v, _ in fattrs.get(b, []):
                                    if why is None and k in ("constraint", "address") and re.search(rf"\b{fn} \. key\b", v): why = ("constraint", b)
                        if why:
                            binding[fn] = why; bound.append(fn); changed = True
            accs = []
            for fn, tn in state:
                if fn == "store" or tn == "Store": b = ".isStore"
                elif not has_store: b = ".noStore"
                elif fn in binding: b = f".{binding[fn][0]} {L.lstr(binding[fn][1])}"
                else: b = ".unbound"
                accs.append((fn, tn, b))
            out_rows.append((f"{pname}_{name}", accs))
    o = ["import Gmx.Gen.Access\n" + L.header("How every state account of every instruction is bound to the `store` account of its accounts struct",
                                               [f"{root}/src/**" for _, root, _ in G.PROGRAMS], "Gmx.Gen.StoreBinding") + "open Gmx.Gen.Access\n"]
    o.append("inductive Binding where\n  | isStore\n  | hasOne (via : String)\n  | referencedBy (via : String)\n  | seeds (via : String)\n"
             "  | constraint (via : String)\n  | noStore\n  | unbound\n  deriving DecidableEq, Repr\n")
    o.append("structure StateAcc where\n  name : String\n  ty : String\n  binding : Binding\n  deriving DecidableEq, Repr\n")
    o.append("def stateAccounts : IxId → List StateAcc")
    for ix, accs in out_rows:
        if accs:
            o.append(f"  | .{L.ident(ix)} => [" + ", ".join(f"⟨{L.lstr(a)}, {L.lstr(t)}, {b}⟩" for a, t, b in accs) + "]")
    o.append("  | _ => []\n")
    o.append("end Gmx.Gen.StoreBinding\n")
    L.write_if_changed("StoreBinding.lean", "\n".join(o))
    return out_rows


if __name__ == "__main__":
    rows = main()
    if len(sys.argv) > 1:
        for ix, accs in rows:
            for a, t, b in accs:
                if b in (".unbound", ".noStore") or b.startswith(".constraint"): print(ix, a, t, b)
