#!/usr/bin/env python3
"""C09 translator: extract the guard the store program puts around a decrease order
(`execute_decrease_position` in programs/store/src/ops/order.rs: liquidation must be a full close;
ADL must be required, must strictly lower the pnl factor and keep it above MinAfterAdl) as a table
of comparisons, and regenerate lean/Gmx/Gen/C09Guard.lean.

Fails closed (exit 1, naming the construct) when the block `let report = { ... }` of that function
contains a check, early return, flag or operand that is not one of the recognised shapes, or when
the order of the statements (checks before / after the model call) changes."""
import os
import re
import sys

sys.path.insert(0, os.path.dirname(os.path.abspath(__file__)))
from leangen import write_if_changed  # noqa: E402

SRC = "/repo/programs/store/src/ops/order.rs"


def fail(msg):
    print("c09_guard: cannot classify:", msg)
    sys.exit(1)


def strip_comments(s):
    return "\n".join(line.split("//")[0] for line in s.split("\n"))


def norm(s):
    return re.sub(r"\s+", " ", s).strip()


def block_after(text, start):
    """text of the brace block opening at/after `start` (without the outer braces), and its end index"""
    i = text.index("{", start)
    depth = 0
    for k in range(i, len(text)):
        if text[k] == "{":
            depth += 1
        elif text[k] == "}":
            depth -= 1
            if depth == 0:
                return text[i + 1:k], k + 1
    fail("unterminated block")


src = open(SRC).read()
m = re.search(r"\nfn execute_decrease_position\(", src)
if not m or len(re.findall(r"\nfn execute_decrease_position\(", src)) != 1:
    fail("fn execute_decrease_position not found exactly once")
fn_body, _ = block_after(src, src.index(") -> Result<(RemovePosition, u128)>", m.start()))
fn_body = strip_comments(fn_body)
m = re.search(r"let report = \{", fn_body)
if not m:
    fail("`let report = {` block not found")
blk, _ = block_after(fn_body, m.start())

# ---- split the block at the model call
call = re.search(r"let report = position\s*\.decrease\(", blk)
if not call or len(re.findall(r"\.decrease\(", blk)) != 1:
    fail("exactly one `position.decrease(` call expected in the report block")
call_end = blk.index("map_err(ModelError::from)?;", call.start()) + len("map_err(ModelError::from)?;")
before, model_call, after = blk[:call.start()], blk[call.start():call_end], blk[call_end:]

# ---- the model call: flags and operands
mc = norm(model_call)
exp_call = norm("""let report = position .decrease( prices, size_delta_usd, Some(acceptable_price), collateral_withdrawal_amount,
    DecreasePositionFlags { is_insolvent_close_allowed, is_liquidation_order, is_cap_size_delta_usd_allowed, }, )
    .map(|a| a.set_swap(decrease_position_swap_type)) .and_then(|a| a.execute()) .map_err(ModelError::from)?;""")
if mc != exp_call:
    fail("the decrease call / its flags changed: " + mc)

# ---- definitions feeding the guard (each exactly once, with exactly this right-hand side)
defs = {
    "size_delta_usd": "let size_delta_usd = params.size_delta_value;",
    "is_liquidation_order": "let is_liquidation_order = matches!(secondary_order_type, Some(SecondaryOrderType::Liquidation));",
    "is_adl_order": "let is_adl_order = matches!( secondary_order_type, Some(SecondaryOrderType::AutoDeleveraging) );",
    "is_cap_size_delta_usd_allowed": "let is_cap_size_delta_usd_allowed = matches!( order.params().kind()?, OrderKind::LimitDecrease | OrderKind::StopLossDecrease );",
    "pnl_factor_before_execution": "let mut pnl_factor_before_execution = None;",
}
nb = norm(before)
for name, text in defs.items():
    if nb.count(norm(text)) != 1:
        fail(f"definition of `{name}` is not `{text}`")
    if len(re.findall(r"\blet (?:mut )?%s\b" % name, before)) != 1:
        fail(f"`{name}` bound more than once")
for name in ("size_delta_usd", "is_liquidation_order", "is_adl_order", "is_cap_size_delta_usd_allowed"):
    if re.search(r"\b%s\s*=[^=]" % name, blk.replace("let " + name, "")):
        fail(f"`{name}` is reassigned")

# ---- guard statements: every `if`, `require*!`, `return`, `err!` of the block must be consumed
rows = []


def consume(region, phase, pattern, row, what):
    n = norm(region)
    p = norm(pattern)
    if n.count(p) != 1:
        fail(f"{what} (expected exactly once {phase} the model call): {p}")
    rows.append((phase,) + row)
    return n.replace(p, " ", 1)


rest_before = consume(before, "before", """if is_liquidation_order { require_gte!( size_delta_usd, *position.size_in_usd(), CoreError::InvalidArgument ); }""",
                      ("liquidation", "gte", "sizeDeltaUsd", "positionSizeInUsd", "invalidArgument"), "liquidation full-close check")
rest_before = consume(rest_before, "before", """if is_adl_order { let Some(pnl_factor) = position .market()
    .pnl_factor_exceeded(&prices, PnlFactorKind::ForAdl, params.side()?.is_long()) .map_err(ModelError::from)?
    .map(|exceeded| exceeded.pnl_factor) else { return err!(CoreError::AdlNotRequired); };
    pnl_factor_before_execution = Some(pnl_factor); }""",
                      ("adl", "isSome", "adlFactorExceeded", "adlFactorExceeded", "adlNotRequired"), "ADL-required check")
after_pat = """if is_adl_order { let pnl_factor_after_execution = position .market() .pnl_factor(&prices, params.side()?.is_long(), true)
    .map_err(ModelError::from)?;
    require_gt!( pnl_factor_before_execution.expect("must be some"), pnl_factor_after_execution, CoreError::InvalidAdl );
    let min_pnl_factor = position .market() .pnl_factor_config(PnlFactorKind::MinAfterAdl, params.side()?.is_long())
    .and_then(|factor| factor.to_signed()) .map_err(ModelError::from)?;
    require_gte!( pnl_factor_after_execution, min_pnl_factor, CoreError::InvalidAdl ); }"""
if norm(after).count(norm(after_pat)) != 1:
    fail("ADL validity checks after the model call changed")
rows.append(("after", "adl", "gt", "pnlFactorBefore", "pnlFactorAfterMaximized", "invalidAdl"))
rows.append(("after", "adl", "gte", "pnlFactorAfterMaximized", "minPnlFactorAfterAdl", "invalidAdl"))
rest_after = norm(after).replace(norm(after_pat), " ", 1)

# nothing else in the block may check, branch or return
for region, name in ((rest_before, "before"), (rest_after, "after")):
    for kw in (r"\bif\b", r"\brequire\w*!", r"\breturn\b", r"\berr!", r"\bmatch\b", r"\bpanic!", r"\bunwrap\(", r"\bexpect\("):
        if re.search(kw, region):
            fail(f"unrecognised control flow `{kw}` {name} the model call: ...{region[max(0, re.search(kw, region).start() - 60):re.search(kw, region).start() + 80]}...")
# the remainder after the call must be exactly the event update and the block's value
if norm(rest_after) != norm("event.update_with_decrease_report(&report, &prices)?; report"):
    fail("statements after the ADL validity checks changed: " + norm(rest_after))
# the only remaining statements before the call: the parameter reads and the builder-fee estimate
allowed_before = norm("""let params = &order.params; let decrease_position_swap_type = params.decrease_position_swap_type()?;
    let acceptable_price = params.acceptable_price;
    let collateral_withdrawal_amount = estimate_builder_fee_for_collateral_withdrawal( u128::from(params.initial_collateral_delta_amount),
    size_delta_usd, builder_fee_factor, position.collateral_price(&prices), decrease_position_swap_type, )?;""")
rb = rest_before
for text in defs.values():
    rb = rb.replace(norm(text), " ", 1)
if norm(rb) != allowed_before:
    fail("statements before the guard changed: " + norm(rb))

# ---- emit
out = ["-- GENERATED by translator/c09_guard.py from /repo/programs/store/src/ops/order.rs (execute_decrease_position) — do not edit.",
       "namespace Gmx.Gen.C09", "",
       "/-- which secondary order type a check applies to -/",
       "inductive Tag where", "  | liquidation | adl", "  deriving Repr, DecidableEq", "",
       "/-- before / after the call of the model's `decrease(..).execute()` -/",
       "inductive Phase where", "  | before | after", "  deriving Repr, DecidableEq", "",
       "/-- `require_gte!`, `require_gt!`, `let Some(_) = .. else { return err }` -/",
       "inductive Rel where", "  | gte | gt | isSome", "  deriving Repr, DecidableEq", "",
       "inductive Term where",
       "  /-- `params.size_delta_value` -/", "  | sizeDeltaUsd",
       "  /-- `*position.size_in_usd()` -/", "  | positionSizeInUsd",
       "  /-- `pnl_factor_exceeded(&prices, ForAdl, is_long).map(|e| e.pnl_factor)` on the market before -/", "  | adlFactorExceeded",
       "  /-- the value bound by the ADL-required check -/", "  | pnlFactorBefore",
       "  /-- `pnl_factor(&prices, is_long, true)` on the market after -/", "  | pnlFactorAfterMaximized",
       "  /-- `pnl_factor_config(MinAfterAdl, is_long).to_signed()` -/", "  | minPnlFactorAfterAdl",
       "  deriving Repr, DecidableEq", "",
       "inductive Err where", "  | invalidArgument | adlNotRequired | invalidAdl", "  deriving Repr, DecidableEq", "",
       "structure Check where", "  phase : Phase", "  tag : Tag", "  rel : Rel", "  lhs : Term", "  rhs : Term", "  err : Err",
       "  deriving Repr, DecidableEq", "",
       "/-- the checks in source order -/", "def checks : List Check := ["]
out.append(",\n".join(f"  ⟨.{ph}, .{tag}, .{rel}, .{l}, .{r}, .{e}⟩" for ph, tag, rel, l, r, e in rows))
out += ["]", "",
        "/-- flags handed to the model: `is_liquidation_order` is `secondary_order_type = Liquidation`, the cap flag is",
        "`kind ∈ {LimitDecrease, StopLossDecrease}`, the insolvent-close flag is the caller's argument; no other",
        "statement of the block branches, returns or checks (verified by the translator). -/",
        "def liquidationFlagIsLiquidationTag : Bool := true",
        "def capFlagKinds : List String := [\"LimitDecrease\", \"StopLossDecrease\"]", "",
        "end Gmx.Gen.C09", ""]
changed = write_if_changed("C09Guard.lean", "\n".join(out))
print(f"c09_guard: {len(rows)} checks" + (" (regenerated)" if changed else ""))
