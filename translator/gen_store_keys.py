#!/usr/bin/env python3
"""Regenerates lean/Gmx/Gen/StoreKeys.lean from programs/store/src/states/store.rs and
crates/utils/src/config.rs: `AmountKey`/`FactorKey`/`AddressKey` enums, the `Amounts`/`Factors`/
`Addresses` field lists, their `get`/`get_mut` match tables, and the write guard of
`Store::get_amount_mut` (keys that cannot be written). Fails closed.  Used by C16.
"""
import os
import re
import sys
sys.path.insert(0, os.path.dirname(os.path.abspath(__file__)))
from rustlex import Src, Unparsed, die, show, snake_case
import leangen as L

STORE = "programs/store/src/states/store.rs"
CONFIG = "crates/utils/src/config.rs"
GROUPS = [("Amount", "AmountKey", "Amounts", "Amount", "amount"), ("Factor", "FactorKey", "Factors", "Factor", "factor"),
          ("Address", "AddressKey", "Addresses", "Pubkey", "address")]


def table(src, lo, hi, fnname, enum, keys, fields, want_mut):
    fn = src.find_fn(fnname, lo, hi)
    try:
        blk = src.parse_block(*fn["body"])
    except Unparsed as ex:
        die(str(ex))
    if not (len(blk[1]) == 1 and blk[1][0][0] == "let" and blk[1][0][2] and blk[1][0][2][0] == "match"
            and blk[1][0][2][1] == ("path", ["key"]) and blk[2] == ("call", ("path", ["Some"]), [("path", ["value"])])):
        die(f"{src.rel}:{fn['line']}: {enum} {fnname} is no longer `let value = match key {{..}}; Some(value)`")
    t, dflt = {}, False
    for pat, guard, body in blk[1][0][2][2]:
        if pat == ("pwild",):
            if body != ("return", ("path", ["None"])): die(f"{src.rel}: {fnname}: wildcard arm is not `return None`")
            dflt = True; continue
        if guard or pat[0] != "ppath" or len(pat[1]) != 2 or pat[1][0] != enum or pat[1][1] not in keys:
            die(f"{src.rel}:{fn['line']}: {fnname}: cannot classify arm {pat}")
        b = body
        if b[0] == "block":
            if b[1] or not b[2]: die(f"{src.rel}: {fnname}: arm with statements")
            b = b[2]
        if not (b[0] == "ref" and b[1][0] == "field" and b[1][1] == ("path", ["self"]) and b[1][2] in fields):
            die(f"{src.rel}:{fn['line']}: {fnname}: arm {pat[1][1]} is not `&self.<field>`: {show(b)}")
        if pat[1][1] in t: die(f"{src.rel}: {fnname}: duplicate arm {pat[1][1]}")
        t[pat[1][1]] = b[1][2]
    lo_, hi_ = fn["body"]
    n_mut = sum(1 for i in range(lo_, hi_) if src.is_p(i, "&") and src.is_id(i + 1, "mut") and src.is_id(i + 2, "self"))
    if (want_mut and n_mut != len(t)) or (not want_mut and n_mut):
        die(f"{src.rel}:{fn['line']}: {fnname}: reference mutability of the arms is not uniform")
    if not dflt and len(t) != len(keys): die(f"{src.rel}: {fnname}: not exhaustive")
    return t


def main():
    st = Src(STORE)
    cf = Src(CONFIG)
    _, slo, shi = st.find_impl(lambda h: h.strip() == "Store", "Store")
    o = [L.header("Store config key tables (amounts, factors, addresses)", [STORE, CONFIG], "Gmx.Gen.StoreKeys")]
    for short, enum, struct, ty, member in GROUPS:
        attrs = cf.enum_attrs(enum)
        if not any("serialize_all" in a and "snake_case" in a for a in attrs):
            die(f"{cf.rel}: {enum} is no longer strum snake_case")
        keys = [v for v, d, _, _ in cf.enum_variants(enum)[1]]
        fields = []
        for f, t, _ in st.struct_fields(struct):
            if t == ty: fields.append(f)
            elif f == "reserved" and re.fullmatch(r"\[ %s ; \d+ \]" % ty, t): pass
            else: die(f"{st.rel}: {struct}.{f}: {t} is neither a {ty} nor the reserved array")
        _, lo, hi = st.find_impl(lambda h, s=struct: h.strip() == s, struct)
        g = table(st, lo, hi, "get", enum, keys, fields, False)
        gm = table(st, lo, hi, "get_mut", enum, keys, fields, True)
        # Store::get_<x>(_mut) forwarding and write guards
        low = short.lower()
        for nm, want in ((f"get_{low}_by_key", f"self . {member} . get ( & key )"),):
            f = st.find_fn(nm, slo, shi)
            if st.text_of(*f["body"]) != want: die(f"{st.rel}:{f['line']}: Store::{nm} body changed")
        f = st.find_fn(f"get_{low}", slo, shi)
        if f". get_{low}_by_key ( key )" not in st.text_of(*f["body"]) or f"{enum} :: from_str ( key )" not in st.text_of(*f["body"]):
            die(f"{st.rel}:{f['line']}: Store::get_{low} no longer parses the key and forwards to get_{low}_by_key")
        f = st.find_fn(f"get_{low}_mut", slo, shi)
        txt = st.text_of(*f["body"])
        if f"self . {member} . get_mut ( & key )" not in txt or f"{enum} :: from_str ( key )" not in txt:
            die(f"{st.rel}:{f['line']}: Store::get_{low}_mut no longer parses the key and forwards to {member}.get_mut")
        forbidden = []
        try:
            blk = st.parse_block(*f["body"])
        except Unparsed as ex:
            die(str(ex))
        for s_ in blk[1]:
            if s_[0] == "expr" and s_[1][0] == "macro":
                if s_[1][1] != "require": die(f"{st.rel}:{f['line']}: Store::get_{low}_mut: unknown macro {s_[1][1]}!")
                m = re.fullmatch(r"! matches ! \( key , ((?:%s :: \w+(?: \| )?)+) \) , CoreError :: \w+ ,?" % enum, s_[1][2])
                if not m: die(f"{st.rel}:{f['line']}: Store::get_{low}_mut: cannot classify guard `require!({s_[1][2]})`")
                forbidden += re.findall(r":: (\w+)", m.group(1))
            elif s_[0] == "let" and s_[1] == ("pident", "key"): pass
            else: die(f"{st.rel}:{f['line']}: Store::get_{low}_mut: cannot classify statement {s_}")
        o.append(L.enum(f"{short}Key", keys, doc=f"`gmsol_utils::config::{enum}`"))
        o.append(L.total_fn(f"{short}Key.snakeCodes", f"{short}Key", "List Nat", [(k, f"{list(snake_case(k).encode())}  -- {snake_case(k)}") for k in keys]))
        o.append(f"def {short}Key.snake (k : {short}Key) : String := String.ofList (k.snakeCodes.map Char.ofNat)\n")
        o.append(f"def {short}Key.ofSnake? (s : String) : Option {short}Key := {short}Key.all.find? (fun k => k.snake == s)\n")
        o.append(L.enum(f"{short}Field", fields, doc=f"fields of `{struct}`"))
        o.append(L.total_fn(f"{low}Get", f"{short}Key", f"Option {short}Field", [(k, f"some .{L.ident(g[k])}" if k in g else "none") for k in keys]))
        o.append(L.total_fn(f"{low}GetMut", f"{short}Key", f"Option {short}Field", [(k, f"some .{L.ident(gm[k])}" if k in gm else "none") for k in keys]))
        o.append(f"/-- keys `Store::get_{low}_mut` refuses to hand out (`require!(!matches!(key, …))`) -/")
        o.append(f"def {low}WriteForbidden : List {short}Key := [" + ", ".join(f".{L.ident(k)}" for k in forbidden) + "]\n")
    o.append("end Gmx.Gen.StoreKeys\n")
    L.write_if_changed("StoreKeys.lean", "\n".join(o))


if __name__ == "__main__":
    main()
