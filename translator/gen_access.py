#!/usr/bin/env python3
"""Regenerates lean/Gmx/Gen/Access.lean: the access-control table of every instruction of the five
programs (store, treasury, timelock, liquidity-provider, competition).

Per instruction (fn inside the `#[program] pub mod …`):
  * the `#[access_control(<guard>)]` expression, resolved to the set of accepted roles through the
    guard definitions (`Authenticate::only_*` in store/src/utils/internal/authentication.rs,
    `CpiAuthenticate::only(&ctx, roles::X)`),
  * role names mentioned in the instruction's own doc comment (`# Errors` / `# Accounts` sections),
  * roles checked inside the handler it calls (`only_*(..)` / `RoleKey::X` in the callee body, one level),
  * whether it calls an `unchecked_*` / `*_unchecked` handler,
  * the accounts struct: signer fields, `has_one = <signer>` / signer-derived PDA seeds / address
    constraints tying an account to the signer, and whether any account is writable.
Fails closed on any `access_control` guard or program-module item it cannot classify.  Used by C19, C20.
"""
import os
import re
import sys
sys.path.insert(0, os.path.dirname(os.path.abspath(__file__)))
from rustlex import Src, Unparsed, die, show
import leangen as L

PROGRAMS = [("store", "programs/store", "gmsol_store"), ("treasury", "programs/treasury", "gmsol_treasury"),
            ("timelock", "programs/timelock", "gmsol_timelock"), ("liquidity_provider", "programs/liquidity-provider", "gmsol_liquidity_provider"),
            ("competition", "programs/competition", "gmsol_competition")]
AUTH = "programs/store/src/utils/internal/authentication.rs"
ROLE_RE = re.compile(r"\b((?:[A-Z][A-Z0-9]*_)+(?:KEEPER|CONTROLLER|ADMIN|OWNER|WITHDRAWER)|ADMIN)\b")


def rs_files(root):
    out = []
    for d, _, fs in os.walk(os.path.join("/repo", root, "src")):
        for f in sorted(fs):
            if f.endswith(".rs") and "/verif" not in d:
                out.append(os.path.relpath(os.path.join(d, f), "/repo"))
    return sorted(out)


def guard_defs():
    """{fn name: [roles]} from `trait Authenticate` (store)."""
    a = Src(AUTH)
    tr = None
    for i, t in enumerate(a.toks):
        if t.kind == "id" and t.text == "trait" and a.is_id(i + 1, "Authenticate"):
            j = i
            while not a.is_p(j, "{"): j += 1
            tr = (j + 1, a.match[j])
    if tr is None: die(f"{a.rel}: trait Authenticate not found")
    defs = {}
    for f in a.fns(*tr):
        if f["body"] is None: continue
        txt = a.text_of(*f["body"])
        m = re.fullmatch(r"Self :: only \( ctx , RoleKey :: (\w+) \)", txt)
        if m: defs[f["name"]] = [m.group(1)]; continue
        if txt == "ctx . accounts . only_admin ( )": defs[f["name"]] = ["ADMIN"]; continue
        m = re.fullmatch(r"Self :: ensure_has_any_role_with_ctx \( ctx , \[ ((?:RoleKey :: \w+ ,? ?)+)\] , \)", txt)
        if m: defs[f["name"]] = re.findall(r"RoleKey :: (\w+)", m.group(1)); continue
        if f["name"] in ("only", "ensure_has_any_role_with_ctx"): continue
        die(f"{a.rel}:{f['line']}: Authenticate::{f['name']}: cannot classify guard body `{txt}`")
    return defs


def doc_sections(docs, names=("Errors", "Accounts")):
    out, cur = [], None
    for line in docs:
        m = re.match(r"#+\s*(.+?)\s*$", line)
        if m:
            cur = m.group(1); continue
        if cur in names: out.append(line)
    return " ".join(out)


CLOSE_TRAIT = "programs/store/src/utils/internal/action.rs"
PREPROCESS = ("if * self . authority ( ) . key == self . action ( ) . load ( ) ? . header ( ) . owner { Ok ( true ) } else { "
              "self . only_role ( self . expected_keeper_role ( ) ) ? ; { let action = self . action ( ) . load ( ) ? ; "
              "if self . skip_completion_check_for_keeper ( ) ? || action . header ( ) . action_state ( ) ? . is_completed_or_cancelled ( ) "
              "{ Ok ( false ) } else { err ! ( CoreError :: PermissionDenied ) } } }")
_close_checked = []


def check_close_trait():
    """`Close::close` runs `validate()?` then `preprocess()?` before anything else; `preprocess` is the
    owner-or-keeper policy (canonical text)."""
    if _close_checked: return
    a = Src(CLOSE_TRAIT)
    pre = a.find_fn("preprocess", nested=True)
    if a.text_of(*pre["body"]) != PREPROCESS:
        die(f"{a.rel}:{pre['line']}: Close::preprocess is no longer the owner-or-keeper policy: `{a.text_of(*pre['body'])}`")
    cl = a.find_fn("close", nested=True)
    t = a.text_of(*cl["body"])
    if not t.startswith("let accounts = & ctx . accounts ; accounts . validate ( ) ? ; let is_caller_owner = accounts . preprocess ( ) ? ;"):
        die(f"{a.rel}:{cl['line']}: Close::close no longer starts with `validate()?; preprocess()?`")
    if t.count("accounts . process (") != 1 or t.index("accounts . process (") < t.index("accounts . preprocess ( ) ?"):
        die(f"{a.rel}:{cl['line']}: Close::close processes before the permission check")
    _close_checked.append(True)


def handler_auth(pname, lib, f, btxt, ctx, files, fn_index, role):
    """authority check performed INSIDE the handler, as a Lean `HandlerAuth` term"""
    name = f["name"]
    if btxt.startswith("internal :: Close :: close ( & ctx ,"):
        check_close_trait()
        impls = [(s, lo, hi) for s in files for h, lo, hi in s.impls() if re.search(r"\bClose <", h) and re.search(rf"for {ctx}\b", h)]
        if len(impls) != 1: die(f"{lib.rel}:{f['line']}: {name}: expected one `impl internal::Close for {ctx}`, found {len(impls)}")
        s, lo, hi = impls[0]
        er = [x for x in s.fns(lo, hi) if x["name"] == "expected_keeper_role"]
        m = er and re.fullmatch(r"RoleKey :: (\w+)", s.text_of(*er[0]["body"]))
        if not m: die(f"{s.rel}: impl Close for {ctx}: expected_keeper_role is not `RoleKey::X`")
        skip = [x for x in s.fns(lo, hi) if x["name"] == "skip_completion_check_for_keeper"]
        for forbidden in ("preprocess", "close"):
            if [x for x in s.fns(lo, hi) if x["name"] == forbidden]:
                die(f"{s.rel}: impl Close for {ctx} overrides `{forbidden}` (the policy is no longer the trait's)")
        return f".closeOwnerOrKeeper .{L.ident(role(m.group(1)))} {str(bool(skip)).lower()}"
    callees = re.findall(r"((?:\w+ :: )*\w+) \(", btxt)
    for c in callees:
        last = c.split(" :: ")[-1]
        for s, cf in fn_index.get(last, []) if len(fn_index.get(last, [])) <= 2 else []:
            if cf["body"] is None: continue
            t = s.text_of(*cf["body"])
            if ". validate_claim_fees_address ( ctx . accounts . authority . key ) ?" in t:
                if not t.startswith("ctx . accounts . store . load ( ) ? . validate_not_restarted ( ) ? . validate_claim_fees_address ( ctx . accounts . authority . key ) ? ;"):
                    die(f"{s.rel}:{cf['line']}: {last}: the receiver check is not the first statement")
                st = Src("programs/store/src/states/store.rs")
                v = st.find_fn("validate_claim_fees_address", nested=True)
                if st.text_of(*v["body"]) != "require ! ( self . treasury . is_receiver ( address ) , CoreError :: PermissionDenied ) ; Ok ( ( ) )":
                    die(f"{st.rel}:{v['line']}: validate_claim_fees_address body changed")
                ir = st.find_fn("is_receiver", nested=True)
                if st.text_of(*ir["body"]) != "self . receiver == * address": die(f"{st.rel}:{ir['line']}: Treasury::is_receiver body changed")
                return ".treasuryReceiver"
            if t.startswith("validate_timelocked_role ( & ctx , role ) ? ;"):
                vt = [x for x in fn_index.get("validate_timelocked_role", [])]
                if len(vt) != 1: die(f"{s.rel}: validate_timelocked_role not found")
                vs, vf = vt[0]
                if not vs.text_of(*vf["body"]).startswith("let timelocked_role = roles :: timelocked_role ( role ) ; CpiAuthenticate :: only ( ctx , & timelocked_role ) ? ;"):
                    die(f"{vs.rel}:{vf['line']}: validate_timelocked_role body changed")
                return ".timelockedRole"
    return ".none"


def main():
    gdefs = guard_defs()
    rows = []
    roles_seen = []

    def role(r):
        if r not in roles_seen: roles_seen.append(r)
        return r

    for pname, root, modname in PROGRAMS:
        lib = Src(f"{root}/src/lib.rs")
        files = [Src(f) for f in rs_files(root)]
        # program module
        mod = None
        for i, t in enumerate(lib.toks):
            if t.kind == "id" and t.text == "mod" and lib.is_id(i + 1, modname):
                mod = (i + 3, lib.match[i + 2])
        if mod is None: die(f"{lib.rel}: `pub mod {modname}` not found")
        # all fns and structs of the program, by name
        fn_index, struct_index = {}, {}
        for s in files:
            for f in s.fns(nested=True):
                fn_index.setdefault(f["name"], []).append((s, f))
            for i, t in enumerate(s.toks):
                if t.kind == "id" and t.text == "struct" and s.is_id(i + 1):
                    struct_index.setdefault(s.toks[i + 1].text, []).append((s, i))
        for f in lib.fns(*mod):
            if f["body"] is None: die(f"{lib.rel}:{f['line']}: instruction {f['name']} without body")
            name = f["name"]
            # ---- attribute
            attr_roles, attr_txt = None, ""
            for lo, hi in f["attrs"]:
                if lib.is_id(lo, "access_control"):
                    if attr_roles is not None: die(f"{lib.rel}:{f['line']}: {name}: two access_control attributes")
                    inner = lib.text_of(lo + 2, lib.match[lo + 1])
                    attr_txt = inner
                    m = re.fullmatch(r"internal :: Authenticate :: (\w+) \( & ctx \)", inner)
                    m2 = re.fullmatch(r"CpiAuthenticate :: only \( & ctx , roles :: (\w+) \)", inner)
                    if m and m.group(1) in gdefs: attr_roles = [role(r) for r in gdefs[m.group(1)]]
                    elif m2: attr_roles = [role(m2.group(1))]
                    else: die(f"{lib.rel}:{f['line']}: {name}: cannot classify guard `#[access_control({inner})]`")
                elif lib.is_id(lo) and lib.toks[lo].text in ("allow", "doc", "cfg", "inline", "deprecated", "cfg_attr"):
                    pass
                else:
                    die(f"{lib.rel}:{f['line']}: {name}: unknown attribute `{lib.text_of(lo, hi)}` on an instruction")
            # ---- docs
            doc_roles = []
            for r in ROLE_RE.findall(doc_sections(f["docs"])):
                if r not in doc_roles: doc_roles.append(role(r))
            # ---- context type
            ptxt = lib.text_of(*f["params"])
            m = re.search(r"Context <(?: '\w+ ,)* (\w+)", ptxt)
            if not m: die(f"{lib.rel}:{f['line']}: {name}: cannot find `Context<T>` in `{ptxt[:80]}`")
            ctx = m.group(1)
            # ---- body: callees
            try:
                body = lib.parse_block(*f["body"])
            except Unparsed as ex:
                die(str(ex))
            btxt = lib.text_of(*f["body"])
            callees = re.findall(r"((?:\w+ :: )+\w+) \(", btxt)
            unchecked = bool(re.search(r"\bunchecked_\w+|\w+_unchecked\b", btxt))
            handler_roles = []
            for c in callees:
                last = c.split(" :: ")[-1]
                if last in ("Ok", "Err", "Some", "from", "new", "into") or last not in fn_index: continue
                if len(fn_index[last]) > 3: continue
                for s, cf in fn_index[last]:
                    if cf["body"] is None: continue
                    t = s.text_of(*cf["body"])
                    for g in re.findall(r"\b(only_\w+|ensure_can_\w+) \(", t):
                        for r in gdefs.get(g, []):
                            if r not in handler_roles: handler_roles.append(role(r))
                    for r in re.findall(r"(?:RoleKey|roles) :: (\w+)", t):
                        if ROLE_RE.fullmatch(r) and r not in handler_roles: handler_roles.append(role(r))
            # in-body guards in lib.rs itself
            for g in re.findall(r"\b(only_\w+|ensure_can_\w+) \(", btxt):
                for r in gdefs.get(g, []):
                    if r not in handler_roles: handler_roles.append(role(r))
            # ---- accounts struct
            if ctx not in struct_index: die(f"{lib.rel}:{f['line']}: {name}: accounts struct {ctx} not found in {root}/src")
            if len(struct_index[ctx]) != 1: die(f"{lib.rel}:{f['line']}: {name}: accounts struct {ctx} defined {len(struct_index[ctx])} times")
            s, si = struct_index[ctx][0]
            j = si + 2
            if s.is_p(j, "<"): j = s.skip_generics(j)
            if not s.is_p(j, "{"): die(f"{s.rel}: struct {ctx} is not a braced struct")
            lo, hi = j + 1, s.match[j]
            signers, attrs_txt, writable, inits = [], [], False, 0
            i = lo
            cur_attrs = []
            while i < hi:
                if s.toks[i].kind == "doc": i += 1; continue
                if s.is_p(i, "#"):
                    cur_attrs.append(s.text_of(i + 2, s.match[i + 1])); i = s.match[i + 1] + 1; continue
                if s.is_id(i, "pub"):
                    i += 1
                    if s.is_p(i, "("): i = s.match[i] + 1
                if not (s.is_id(i) and s.is_p(i + 1, ":")): die(f"{s.at(i)}: struct {ctx}: cannot classify field at `{s.toks[i].text}`")
                fname = s.toks[i].text
                k = i + 2
                depth = 0
                while k < hi:
                    t = s.toks[k]
                    if t.kind == "p":
                        if t.text in ("(", "[", "{"): k = s.match[k]
                        elif t.text == "<": depth += 1
                        elif t.text == ">": depth -= 1
                        elif t.text == ">>": depth -= 2
                        elif t.text == "," and depth <= 0: break
                    k += 1
                ty = s.text_of(i + 2, k)
                if ty.startswith("Signer <"): signers.append(fname)
                for a in cur_attrs:
                    if a.startswith("account ("):
                        attrs_txt.append((fname, a))
                        if re.search(r"\b(mut|init|init_if_needed|close|zero)\b", a): writable = True
                        if re.search(r"\b(init|init_if_needed)\b", a): inits += 1
                cur_attrs = []
                i = k + 1
            owner_bound = []
            for fname, a in attrs_txt:
                for sg in signers:
                    if re.search(rf"has_one = {sg}\b", a) or re.search(rf"\b{sg} \. key \( \)", a) or re.search(rf"\b{sg} \. key\b", a) \
                            or re.search(rf"address = \w+ \. (?:load \( \) \? \. )?{sg}\b", a):
                        if fname not in owner_bound: owner_bound.append(fname)
            hauth = handler_auth(pname, lib, f, btxt, ctx, files, fn_index, role)
            rows.append(dict(hauth=hauth, program=pname, name=name, attr=attr_roles, attr_txt=attr_txt, doc=doc_roles, handler=handler_roles,
                             unchecked=unchecked, ctx=ctx, signers=signers, owner_bound=owner_bound, writable=writable, inits=inits, line=f["line"]))

    # ---- emit
    o = [L.header("Access-control table of every instruction of the five programs",
                  [f"{root}/src/lib.rs (+ instructions/**, accounts structs)" for _, root, _ in PROGRAMS] + [AUTH], "Gmx.Gen.Access")]
    o.append(L.enum("Program", [p for p, _, _ in PROGRAMS]))
    o.append(L.enum("Role", roles_seen, doc="role names appearing in guards or docs"))
    ids = [f"{r['program']}_{r['name']}" for r in rows]
    o.append(L.enum("IxId", ids, names=[f"{r['program']}::{r['name']}" for r in rows], doc="one constructor per instruction"))
    o.append("/-- authority check performed inside the handler (extracted from the callee / the `Close` trait) -/\n"
             "inductive HandlerAuth where\n  | none\n"
             "  /-- `Close::close`: `preprocess()` = signer is the action's owner, or has `role` and (completion check skipped or the action is completed/cancelled) -/\n"
             "  | closeOwnerOrKeeper (role : Role) (skipsCompletionCheck : Bool)\n"
             "  /-- first statement: `store.validate_claim_fees_address(authority)` = `treasury.receiver == authority` else PermissionDenied -/\n"
             "  | treasuryReceiver\n"
             "  /-- first statement: `validate_timelocked_role(ctx, role)` = `CpiAuthenticate::only(ctx, timelocked_role(role))` -/\n"
             "  | timelockedRole\n  deriving DecidableEq, Repr\n")
    o.append("structure Info where\n  program : Program\n  /-- roles accepted by `#[access_control(..)]` (any of); `none` = no attribute -/\n  attr : Option (List Role)\n"
             "  /-- roles named in the instruction's own `# Errors` / `# Accounts` doc sections -/\n  docRoles : List Role\n"
             "  /-- roles checked inside the handler it calls -/\n  handlerRoles : List Role\n  callsUnchecked : Bool\n"
             "  /-- number of `Signer` accounts -/\n  signers : Nat\n  /-- accounts tied to a signer by `has_one` / signer-derived seeds / address constraints -/\n  ownerBound : Nat\n"
             "  /-- some account is `mut` / `init` / `close` -/\n  writable : Bool\n"
             "  /-- accounts created by Anchor `init` DURING account validation, i.e. before the guard runs -/\n  inits : Nat\n  deriving DecidableEq, Repr\n")

    def rl(xs):
        return "[" + ", ".join(f".{L.ident(x)}" for x in xs) + "]"
    o.append("def info : IxId → Info")
    for r, i in zip(rows, ids):
        attr = "none" if r["attr"] is None else f"(some {rl(r['attr'])})"
        o.append(f"  | .{L.ident(i)} => ⟨.{r['program']}, {attr}, {rl(r['doc'])}, {rl(r['handler'])}, {str(r['unchecked']).lower()}, "
                 f"{len(r['signers'])}, {len(r['owner_bound'])}, {str(r['writable']).lower()}, {r['inits']}⟩")
    o.append("")
    o.append("def handlerAuth : IxId → HandlerAuth")
    for r, i in zip(rows, ids):
        if r["hauth"] != ".none": o.append(f"  | .{L.ident(i)} => {r['hauth']}")
    o.append("  | _ => .none\n")
    o.append("end Gmx.Gen.Access\n")
    L.write_if_changed("Access.lean", "\n".join(o))
    return rows


if __name__ == "__main__":
    rows = main()
    if len(sys.argv) > 1 and sys.argv[1] == "--dump":
        for r in rows:
            print(f"{r['program']}::{r['name']}\tattr={r['attr']}\tdoc={r['doc']}\thandler={r['handler']}\tunchecked={r['unchecked']}\tsigners={r['signers']}\towner={r['owner_bound']}\tw={r['writable']}")
