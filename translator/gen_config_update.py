#!/usr/bin/env python3
"""Regenerates lean/Gmx/Gen/ConfigUpdate.lean: the step sequences of the three market-config
update handlers (programs/store/src/instructions/market.rs), `Market::update_config_with_buffer`,
the buffer account constraints and the permission-table bounds. Fails closed on any statement of
those functions it cannot classify.  Used by C20 (role guards of the attributes come from
Gen.Access).
"""
import os
import re
import sys
sys.path.insert(0, os.path.dirname(os.path.abspath(__file__)))
from rustlex import Src, Unparsed, die, show
import leangen as L
import gen_access

INSTR = "programs/store/src/instructions/market.rs"
MARKET_MOD = "programs/store/src/states/market/mod.rs"
PERMS = "programs/store/src/states/permissions/market_config.rs"
UTILS_MARKET = "crates/utils/src/market.rs"


def norm(s, lo, hi):
    return s.text_of(lo, hi)


def main():
    gen_access.main()
    gdefs = gen_access.guard_defs()
    s = Src(INSTR)

    def guard_roles(e, where):
        """`internal::Authenticate::<g>(&ctx)` → roles"""
        if e[0] == "try": e = e[1]
        if e[0] == "call" and e[1][0] == "path" and e[1][1][:2] == ["internal", "Authenticate"] and e[1][1][2] in gdefs \
                and e[2] == [("ref", ("path", ["ctx"]))]:
            return gdefs[e[1][1][2]]
        die(f"{where}: cannot classify guard `{show(e)}`")

    def is_msg(st):
        return st[0] == "expr" and st[1][0] == "macro" and st[1][1] == "msg"

    def perm_check(cond, fname, where):
        """`! <…>.market_config_permissions.<fname>(key)[?]` → True"""
        if not (cond[0] == "unop" and cond[1] == "!"): die(f"{where}: condition `{show(cond)}` is not a negated permission check")
        c = cond[2]
        if c[0] == "try": c = c[1]
        if not (c[0] == "mcall" and c[2] == fname and c[3] == [("path", ["key"])] and c[1][0] == "field" and c[1][2] == "market_config_permissions"):
            die(f"{where}: condition `{show(cond)}` is not `!…market_config_permissions.{fname}(key)`")
        return True

    def single_handler(fnname, perm_fn, write_kind):
        f = s.find_fn(fnname)
        where = f"{s.rel}:{f['line']} {fnname}"
        try:
            b = s.parse_block(*f["body"])
        except Unparsed as ex:
            die(str(ex))
        steps = []
        for st in b[1]:
            if is_msg(st): continue
            if st[0] == "let" and st[1] == ("pident", "key"):
                txt = show(st[2])
                if "key.parse()" not in txt.replace(" ", "") or "InvalidMarketConfigKey" not in s.text_of(*f["body"]):
                    die(f"{where}: `let key = {txt}` is not the key parse")
                steps.append(".parseKey"); continue
            if st[0] == "expr" and st[1][0] == "if" and st[1][3] is None:
                perm_check(st[1][1], perm_fn, where)
                inner = [x for x in st[1][2][1] if not is_msg(x)]
                if st[1][2][2] is not None or len(inner) != 1 or inner[0][0] != "expr":
                    die(f"{where}: body of the permission `if` is not a single guard call")
                roles = guard_roles(inner[0][1], where)
                steps.append(f".requireUpdatableOr {rl(roles)}"); continue
            if st[0] == "expr" and st[1][0] == "assign" and write_kind == "factor":
                lhs, rhs = st[1][2], st[1][3]
                if "get_config_by_key_mut(key)?" in show(lhs).replace(" ", "") and rhs == ("path", ["value"]) and "market.load_mut()" in show(lhs).replace(" ", ""):
                    steps.append(".writeFactor"); continue
            if st[0] == "let" and write_kind == "flag" and st[2] is not None:
                t = show(st[2]).replace(" ", "")
                if "market.load_mut()" in t and t.endswith(".set_config_flag_by_key(key,value)"):
                    steps.append(".writeFlag"); continue
            die(f"{where}: cannot classify statement `{show(st[1]) if st[0] == 'expr' else st}`")
        if b[2] != ("call", ("path", ["Ok"]), [("tuple", [])]): die(f"{where}: tail is not `Ok(())`")
        return steps

    def rl(xs):
        return "[" + ", ".join(f".{L.ident(x)}" for x in xs) + "]"

    factor_steps = single_handler("unchecked_update_market_config", "is_factor_updatable", "factor")
    flag_steps = single_handler("unchecked_update_market_config_flag", "is_flag_updatable", "flag")

    # ---- buffer handler
    f = s.find_fn("unchecked_update_market_config_with_buffer")
    where = f"{s.rel}:{f['line']} unchecked_update_market_config_with_buffer"
    try:
        b = s.parse_block(*f["body"])
    except Unparsed as ex:
        die(str(ex))
    bsteps = []
    for st in b[1]:
        if is_msg(st): continue
        if st[0] == "let" and st[1] == ("pident", "buffer"):
            if show(st[2]).replace(" ", "") != "&ctx.accounts.buffer": die(f"{where}: `let buffer = {show(st[2])}`")
            continue
        if st[0] == "expr" and st[1][0] == "macro" and st[1][1] == "require_gt":
            if st[1][2] != "buffer . expiry , Clock :: get ( ) ? . unix_timestamp , CoreError :: InvalidArgument":
                die(f"{where}: cannot classify `require_gt!({st[1][2]})`")
            bsteps.append(".requireExpiryGtNow"); continue
        if st[0] == "expr" and st[1][0] == "if" and st[1][1][0] == "iflet":
            cond = st[1][1]
            if cond[1] != ("pts", ["Err"], [("pident", "err")]): die(f"{where}: `if let` pattern is not `Err(err)`")
            roles = guard_roles(cond[2], where)
            inner = [x for x in st[1][2][1] if not is_msg(x)]
            if st[1][2][2] is not None: inner.append(("expr", st[1][2][2]))
            if st[1][3] is not None or len(inner) != 2 or inner[0][0] != "let" or inner[1][0] != "expr" or inner[1][1][0] != "for":
                die(f"{where}: body of `if let Err(err) = …` is not `let store = …; for entry in buffer.iter() {{…}}`")
            fr = inner[1][1]
            if fr[1] != ("pident", "entry") or show(fr[2]).replace(" ", "") != "buffer.iter()": die(f"{where}: loop is not `for entry in buffer.iter()`")
            body = [x for x in fr[3][1] if not is_msg(x)]
            if fr[3][2] is not None: body.append(("expr", fr[3][2]))
            if len(body) != 2 or body[0][0] != "let" or body[0][1] != ("pident", "key") or show(body[0][2]).replace(" ", "") != "entry.key()?":
                die(f"{where}: loop body does not start with `let key = entry.key()?`")
            chk = body[1]
            if chk[0] != "expr" or chk[1][0] != "if" or chk[1][3] is not None: die(f"{where}: loop body check is not an `if`")
            perm_check(chk[1][1], "is_factor_updatable", where)
            ret = [x for x in chk[1][2][1] if not is_msg(x)]
            tail = chk[1][2][2]
            r = ret[0][1] if ret else tail
            if r != ("return", ("call", ("path", ["Err"]), [("path", ["err"])])): die(f"{where}: non-updatable entry does not `return Err(err)`")
            bsteps.append(f".unlessRolesAllUpdatable {rl(roles)}"); continue
        if st[0] == "expr":
            t = show(st[1]).replace(" ", "")
            if t == "ctx.accounts.market.load_mut()?.update_config_with_buffer(buffer)?":
                bsteps.append(".applyInOrder"); continue
        die(f"{where}: cannot classify statement `{show(st[1]) if st[0] == 'expr' else st}`")
    # buffer account constraints
    fields = {}
    kw = None
    for i, t in enumerate(s.toks):
        if t.kind == "id" and t.text == "struct" and s.is_id(i + 1, "UpdateMarketConfigWithBuffer"): kw = i
    if kw is None: die(f"{s.rel}: struct UpdateMarketConfigWithBuffer not found")
    j = kw + 2
    if s.is_p(j, "<"): j = s.skip_generics(j)
    txt = s.text_of(j + 1, s.match[j])
    m = re.search(r"# \[ account \( ([^\]]*?) \) \] pub buffer :", txt)
    if not m: die(f"{s.rel}: buffer account attribute not found")
    cons = m.group(1)
    has_store = "has_one = store" in cons
    has_auth = "has_one = authority @ CoreError :: PermissionDenied" in cons
    m2 = re.search(r"# \[ account \( ([^\]]*?) \) \] pub market :", txt)
    market_has_store = bool(m2 and "has_one = store" in m2.group(1))

    # ---- Market::update_config_with_buffer
    mm = Src(MARKET_MOD)
    uf = mm.find_fn("update_config_with_buffer", nested=True)
    want = ("for entry in buffer . iter ( ) { let key = entry . key ( ) ? ; let current_value = self . config . get_mut ( key ) "
            ". ok_or_else ( || error ! ( CoreError :: Unimplemented ) ) ? ; let new_value = entry . value ( ) ; * current_value = new_value ; } Ok ( ( ) )")
    if mm.text_of(*uf["body"]) != want:
        die(f"{mm.rel}:{uf['line']}: Market::update_config_with_buffer is no longer the in-order `get_mut(key)? = entry.value()` loop")

    # ---- permission tables
    pm = Src(PERMS)
    checks = {
        "is_flag_updatable": "self . updatable_market_config_flags . get_flag ( flag )",
        "is_factor_updatable": "Ok ( self . updatable_market_config_factors . get_flag ( Self :: to_factor ( key ) . map_err ( | err | error ! ( err ) ) ? ) )",
        "to_factor": "key . try_into ( ) . map_err ( CoreError :: from )",
    }
    for fn, w in checks.items():
        ff = pm.find_fn(fn, nested=True)
        if pm.text_of(*ff["body"]) != w: die(f"{pm.rel}:{ff['line']}: MarketConfigPermissions::{fn} body changed")
    um = Src(UTILS_MARKET)
    consts = um.consts()
    def cval(n):
        if n not in consts: die(f"{um.rel}: const {n} not found")
        t = um.text_of(*consts[n][1])
        if not re.fullmatch(r"[0-9_]+", t): die(f"{um.rel}: const {n} = `{t}` is not a literal")
        return int(t.replace("_", ""))
    max_f, max_fl = cval("MAX_MARKET_CONFIG_FACTORS"), cval("MAX_MARKET_CONFIG_FLAGS")
    # TryFrom<MarketConfigKey> for MarketConfigFactor: index > MAX - 1 → error
    tf = [ff for h, lo, hi in um.impls() if h.strip() == "TryFrom < MarketConfigKey > for MarketConfigFactor" for ff in um.fns(lo, hi) if ff["name"] == "try_from"]
    if len(tf) != 1 or "if index > MAX_MARKET_CONFIG_FACTORS - 1 { Err ( MarketError :: ExceedMaxMarketConfigFactor ) } else { Ok ( Self ( value ) ) }" not in um.text_of(*tf[0]["body"]):
        die(f"{um.rel}: TryFrom<MarketConfigKey> for MarketConfigFactor changed")

    o = ["import Gmx.Gen.Access\n" + L.header("Market-config update handlers: step sequences, buffer constraints, permission-table bounds",
                                               [INSTR, MARKET_MOD, PERMS, UTILS_MARKET], "Gmx.Gen.ConfigUpdate") + "open Gmx.Gen.Access\n"]
    o.append("inductive Step where\n  | parseKey\n  /-- `if !permissions.is_*_updatable(key) { guard(&ctx)?; }` with the guard's accepted roles -/\n"
             "  | requireUpdatableOr (roles : List Role)\n  | writeFactor\n  | writeFlag\n  deriving DecidableEq, Repr\n")
    o.append("inductive BStep where\n  /-- `require_gt!(buffer.expiry, now, InvalidArgument)` -/\n  | requireExpiryGtNow\n"
             "  /-- `if let Err(err) = guard(&ctx) { for entry { key = entry.key()?; if !updatable(key) { return Err(err) } } }` -/\n"
             "  | unlessRolesAllUpdatable (roles : List Role)\n  /-- `Market::update_config_with_buffer`: `get_mut(key)? = value` for each entry in order -/\n"
             "  | applyInOrder\n  deriving DecidableEq, Repr\n")
    o.append(f"def factorHandler : List Step := [{', '.join(factor_steps)}]\n")
    o.append(f"def flagHandler : List Step := [{', '.join(flag_steps)}]\n")
    o.append(f"def bufferHandler : List BStep := [{', '.join(bsteps)}]\n")
    o.append(f"/-- `#[account(mut, has_one = store, has_one = authority @ PermissionDenied)] buffer` -/\ndef bufferHasOneStore : Bool := {str(has_store).lower()}\ndef bufferHasOneAuthority : Bool := {str(has_auth).lower()}\ndef marketHasOneStore : Bool := {str(market_has_store).lower()}\n")
    o.append(f"def maxConfigFactors : Nat := {max_f}\ndef maxConfigFlags : Nat := {max_fl}\n")
    o.append("end Gmx.Gen.ConfigUpdate\n")
    L.write_if_changed("ConfigUpdate.lean", "\n".join(o))


if __name__ == "__main__":
    main()
