#!/usr/bin/env python3
"""Regenerates lean/Gmx/Gen/Pools.lean:

  * `gmsol_model::PoolKind` variants (order/discriminants)         → `Kind`
  * program `Pools` struct, `Pools::init`, `Pools::get/get_mut`     → `PoolField`, `initPurity`, `poolGet`, `poolGetMut`
  * SDK `impl Pools { get, get_mut }` (crates/programs model)       → `sdkPoolGet`, `sdkPoolGetMut`
  * trait methods implemented for `Pool` on both sides, and whether the shared ones have
    token-identical bodies                                          → `progPoolFns`, `sdkPoolFns`, `sharedPoolFnBodyEq`

Fails closed on anything it cannot classify. Used by C17 and C40.
"""
import os
import re
import sys
sys.path.insert(0, os.path.dirname(os.path.abspath(__file__)))
from rustlex import Src, Unparsed, die, show
import leangen as L

POOL_RS = "programs/store/src/states/market/pool.rs"
SDK_MARKET = "crates/programs/src/model/market.rs"
SDK_POOL = "crates/programs/src/model/pool.rs"
MODEL_POOL = "crates/model/src/pool/mod.rs"


def kind_table(src, lo, hi, fnname, fields, kinds, want_mut, storage_field):
    fn = src.find_fn(fnname, lo, hi)
    try:
        blk = src.parse_block(*fn["body"])
    except Unparsed as ex:
        die(str(ex))
    stmts, tail = blk[1], blk[2]
    if not (len(stmts) == 1 and stmts[0][0] == "let" and stmts[0][2] is not None and stmts[0][2][0] == "match"
            and tail is not None and tail[0] == "call" and tail[1] == ("path", ["Some"])):
        die(f"{src.rel}:{fn['line']}: Pools::{fnname} is no longer `let pool = match kind {{..}}; Some(pool)`")
    m = stmts[0][2]
    if m[1] != ("path", ["kind"]): die(f"{src.rel}:{fn['line']}: Pools::{fnname}: scrutinee is not `kind`")
    table, dflt = {}, False
    for pat, guard, body in m[2]:
        if guard is not None: die(f"{src.rel}: Pools::{fnname}: guarded arm")
        if pat == ("pwild",):
            if body != ("return", ("path", ["None"])): die(f"{src.rel}: Pools::{fnname}: wildcard arm is not `return None`")
            dflt = True; continue
        if not (pat[0] == "ppath" and len(pat[1]) == 2 and pat[1][0] == "PoolKind" and pat[1][1] in kinds):
            die(f"{src.rel}: Pools::{fnname}: cannot classify arm pattern {pat}")
        b = body
        if b[0] == "block":
            if b[1] or b[2] is None: die(f"{src.rel}: Pools::{fnname}: arm {pat[1][1]} has statements")
            b = b[2]
        if not (b[0] == "ref" and b[1][0] == "field" and b[1][1] == ("path", ["self"]) and b[1][2] in fields):
            die(f"{src.rel}: Pools::{fnname}: arm {pat[1][1]} is not `&self.<pool field>`: {show(b)}")
        if pat[1][1] in table: die(f"{src.rel}: Pools::{fnname}: duplicate arm {pat[1][1]}")
        table[pat[1][1]] = b[1][2]
    lo_, hi_ = fn["body"]
    n_mut = sum(1 for i in range(lo_, hi_) if src.is_p(i, "&") and src.is_id(i + 1, "mut") and src.is_id(i + 2, "self"))
    if (want_mut and n_mut != len(table)) or (not want_mut and n_mut != 0):
        die(f"{src.rel}: Pools::{fnname}: reference mutability of the arms is not uniform")
    if not dflt and len(table) != len(kinds):
        die(f"{src.rel}: Pools::{fnname}: neither exhaustive nor `_ => return None`")
    return table


def trait_fns(src, trait):
    """{fn name: normalised body text} of `impl gmsol_model::<trait> for Pool`."""
    found = [(h, lo, hi) for h, lo, hi in src.impls() if re.fullmatch(rf"(gmsol_model :: )?{trait} for Pool", h.strip())]
    if len(found) != 1: die(f"{src.rel}: expected one `impl gmsol_model::{trait} for Pool`, found {len(found)}")
    _, lo, hi = found[0]
    return {f["name"]: src.text_of(*f["body"]) for f in src.fns(lo, hi) if f["body"]}


def main():
    pr = Src(POOL_RS)
    mp = Src(MODEL_POOL)
    _, kv = mp.enum_variants("PoolKind")
    kinds = []
    for i, (v, disc, docs, attrs) in enumerate(kv):
        if disc is not None: die(f"{mp.rel}: PoolKind::{v} has an explicit discriminant")
        kinds.append(v)
    fields = []
    for fname, ty, docs in pr.struct_fields("Pools"):
        if ty == "PoolStorage": fields.append(fname)
        elif fname == "reserved" and re.fullmatch(r"\[ PoolStorage ; \d+ \]", ty): pass
        else: die(f"{pr.rel}: Pools field `{fname}: {ty}` is neither a PoolStorage nor the reserved array")
    # struct Pool layout and set_is_pure only touching is_pure
    pool_fields = [(f, t) for f, t, _ in pr.struct_fields("Pool")]
    if [f for f, _ in pool_fields] != ["is_pure", "padding", "long_token_amount", "short_token_amount"]:
        die(f"{pr.rel}: struct Pool fields changed: {pool_fields}")
    sf = [f for f, lo, hi in []]
    _, plo, phi = pr.find_impl(lambda h: h.strip() == "Pool", "Pool (inherent)")
    sip = pr.find_fn("set_is_pure", plo, phi)
    if pr.text_of(*sip["body"]) != "self . is_pure = if is_pure { PURE_VALUE } else { 0 } ;":
        die(f"{pr.rel}:{sip['line']}: Pool::set_is_pure body changed: `{pr.text_of(*sip['body'])}`")
    _, slo, shi = pr.find_impl(lambda h: h.strip() == "PoolStorage", "PoolStorage")
    ssip = pr.find_fn("set_is_pure", slo, shi)
    if pr.text_of(*ssip["body"]) != "self . pool . set_is_pure ( is_pure ) ;":
        die(f"{pr.rel}:{ssip['line']}: PoolStorage::set_is_pure body changed")

    _, lo, hi = pr.find_impl(lambda h: h.strip() == "Pools", "Pools")
    fn = pr.find_fn("init", lo, hi)
    params = [pr.toks[a].text for a, b in pr.split_commas(*fn["params"]) if pr.is_id(a) and pr.toks[a].text != "self"]
    if params != ["is_pure"]: die(f"{pr.rel}: Pools::init parameters changed: {params}")
    try:
        blk = pr.parse_block(*fn["body"])
    except Unparsed as ex:
        die(str(ex))
    if blk[2] is not None: die(f"{pr.rel}: Pools::init has a tail expression")
    init = []
    for st in blk[1]:
        e = st[1] if st[0] == "expr" else None
        if not (e and e[0] == "mcall" and e[2] == "set_is_pure" and len(e[3]) == 1 and e[1][0] == "field" and e[1][1] == ("path", ["self"]) and e[1][2] in fields):
            die(f"{pr.rel}:{fn['line']}: Pools::init: cannot classify statement `{show(e) if e else st}` (expected `self.<pool>.set_is_pure(<is_pure|true|false>)`)")
        a = e[3][0]
        if a == ("path", ["is_pure"]): arg = ".param"
        elif a == ("lit", "false"): arg = ".const false"
        elif a == ("lit", "true"): arg = ".const true"
        else: die(f"{pr.rel}: Pools::init: set_is_pure argument `{show(a)}` is neither `is_pure` nor a literal")
        if e[1][2] in [x for x, _ in init]: die(f"{pr.rel}: Pools::init sets {e[1][2]} twice")
        init.append((e[1][2], arg))
    get_t = kind_table(pr, lo, hi, "get", fields, kinds, False, "pool")
    getm_t = kind_table(pr, lo, hi, "get_mut", fields, kinds, True, "pool")

    sm = Src(SDK_MARKET)
    _, slo2, shi2 = sm.find_impl(lambda h: h.strip() == "Pools", "SDK Pools")
    sget = kind_table(sm, slo2, shi2, "get", fields, kinds, False, "pool")
    sgetm = kind_table(sm, slo2, shi2, "get_mut", fields, kinds, True, "pool")

    sp = Src(SDK_POOL)
    prog_fns = {**trait_fns(pr, "Balance"), **trait_fns(pr, "Pool")}
    sdk_fns = {**trait_fns(sp, "Balance"), **trait_fns(sp, "Pool")}
    # provided (default) methods of the gmsol_model::Pool trait — those a side may leave un-overridden
    tr = None
    for i, t in enumerate(mp.toks):
        if t.kind == "id" and t.text == "trait" and mp.is_id(i + 1, "Pool"):
            j = i
            while not mp.is_p(j, "{"): j += 1
            tr = (j + 1, mp.match[j])
    if tr is None: die(f"{mp.rel}: trait Pool not found")
    provided = [f["name"] for f in mp.fns(*tr) if f["body"] is not None]
    required = [f["name"] for f in mp.fns(*tr) if f["body"] is None]

    o = [L.header("Pool tables (kinds, Pools::init purity list, Pools::get/get_mut, SDK copies, Pool trait methods)",
                  [POOL_RS, MODEL_POOL, SDK_MARKET, SDK_POOL], "Gmx.Gen.Pools")]
    o.append(L.enum("Kind", kinds, doc="`gmsol_model::PoolKind` (declaration order = discriminant)"))
    o.append(L.total_fn("Kind.index", "Kind", "Nat", [(k, str(i)) for i, k in enumerate(kinds)]))
    o.append(L.enum("PoolField", fields, doc="`PoolStorage` fields of the program's `Pools`"))
    o.append("inductive PurityArg where\n  | param\n  | const (b : Bool)\n  deriving DecidableEq, Repr\n")
    o.append("/-- `Pools::init(is_pure)`: `self.<field>.set_is_pure(<arg>)` in order -/")
    o.append("def initPurity : List (PoolField × PurityArg) :=\n  [" + ",\n   ".join(f"(.{L.ident(f)}, {a})" for f, a in init) + "]\n")

    def rows(t):
        return [(k, f"some .{L.ident(t[k])}" if k in t else "none") for k in kinds]
    o.append(L.total_fn("poolGet", "Kind", "Option PoolField", rows(get_t)))
    o.append(L.total_fn("poolGetMut", "Kind", "Option PoolField", rows(getm_t)))
    o.append(L.total_fn("sdkPoolGet", "Kind", "Option PoolField", rows(sget)))
    o.append(L.total_fn("sdkPoolGetMut", "Kind", "Option PoolField", rows(sgetm)))

    def slist(xs):
        return "[" + ", ".join(L.lstr(x) for x in xs) + "]"
    o.append("/-- methods of `gmsol_model::{Balance, Pool}` implemented for the program's `Pool` -/")
    o.append(f"def progPoolFns : List String := {slist(sorted(prog_fns))}\n")
    o.append("/-- … and for the SDK's `Pool` (crates/programs/src/model/pool.rs) -/")
    o.append(f"def sdkPoolFns : List String := {slist(sorted(sdk_fns))}\n")
    o.append("/-- provided (defaulted) methods of trait `gmsol_model::Pool` -/")
    o.append(f"def poolTraitProvided : List String := {slist(sorted(provided))}\n")
    o.append(f"def poolTraitRequired : List String := {slist(sorted(required))}\n")
    shared = sorted(set(prog_fns) & set(sdk_fns))
    o.append("/-- for every method implemented on both sides: are the two bodies token-identical? -/")
    o.append("def sharedPoolFnBodyEq : List (String × Bool) :=\n  [" + ", ".join(f"({L.lstr(n)}, {str(prog_fns[n] == sdk_fns[n]).lower()})" for n in shared) + "]\n")
    def helper(src, name):
        fs = [f for f in src.fns() if f["name"] == name and f["body"]]
        return src.text_of(*fs[0]["body"]) if len(fs) == 1 else None
    hp, hs = helper(pr, "cancel_amounts"), helper(sp, "cancel_amounts")
    o.append("/-- free helper `cancel_amounts(long, short)` used by the override: present on both sides with token-identical bodies? -/")
    o.append(f"def cancelHelperBodyEq : Bool := {str(hp is not None and hp == hs).lower()}\n")
    o.append("/-- does the SDK `Pool` override `checked_cancel_amounts` (else it inherits the trait default)? -/")
    o.append(f"def sdkOverridesCancelAmounts : Bool := {str('checked_cancel_amounts' in sdk_fns).lower()}\n")
    o.append("end Gmx.Gen.Pools\n")
    L.write_if_changed("Pools.lean", "\n".join(o))


if __name__ == "__main__":
    main()
