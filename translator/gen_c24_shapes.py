#!/usr/bin/env python3
"""C24 translator: regenerates lean/Gmx/Gen/C24Shapes.lean from
programs/store/src/states/oracle/mod.rs — the control flow that only runs inside instructions:

  * Oracle::with_prices_opts          (prices cleared on the Ok and on the Err path),
  * Oracle::clear_all_prices          (what "cleared" resets),
  * Oracle::set_prices_from_remaining_accounts (pre-checks, per-token step order, final range check),
  * OraclePrice::parse_from_feed_account        (expected-provider check, adjustment gate).

Closed list of recognised statement shapes; FAILS CLOSED (exit 1) on anything else.
"""
import os, re, sys
sys.path.insert(0, os.path.dirname(os.path.abspath(__file__)))
from gen_c32_shapes import strip_comments, fn_body, statements, match_brace, norm, Unclassified, REPO, ROOT

OUT = os.path.join(ROOT, "lean", "Gmx", "Gen", "C24Shapes.lean")


def arms(match_src):
    """arms of `match res { Ok(()) => {…} Err(err) => {…} }` -> dict pattern -> [statements]"""
    i = match_src.index("{")
    body = match_src[i + 1: match_brace(match_src, i)]
    out, pos = {}, 0
    while True:
        m = re.compile(r"\s*([A-Za-z_][\w:]*\([^)]*\)\)?|_)\s*=>\s*\{").match(body, pos)
        if not m: break
        j = body.index("{", m.end() - 1)
        k = match_brace(body, j)
        out[norm(m.group(1))] = statements(body[j + 1: k])
        pos = k + 1
        while pos < len(body) and body[pos] in ", \n\t": pos += 1
    if body[pos:].strip(): raise Unclassified(f"with_prices_opts: unparsed match tail `{norm(body[pos:])[:80]}`")
    return out


def main():
    try:
        src = strip_comments(open(os.path.join(REPO, "programs/store/src/states/oracle/mod.rs")).read())
        # ---- with_prices_opts
        w = "Oracle::with_prices_opts"
        body = fn_body(src, "with_prices_opts")
        sts = statements(body)
        if not sts or not sts[-1].startswith("match res {"):
            raise Unclassified(f"{w}: the function no longer ends in `match res {{…}}` (last: `{sts[-1][:80] if sts else ''}`)")
        if not any(s.startswith("let res = {") and "self.set_prices_from_remaining_accounts(" in s for s in sts):
            raise Unclassified(f"{w}: `let res = {{ … self.set_prices_from_remaining_accounts(…) }}` not found")
        for s in sts[:-1]:
            if "clear_all_prices" in s: raise Unclassified(f"{w}: clear_all_prices called before the prices are used: `{s[:80]}`")
        a = arms(sts[-1])
        if set(a) != {"Ok(())", "Err(err)"}: raise Unclassified(f"{w}: match arms changed: {sorted(a)}")
        ok, er = a["Ok(())"], a["Err(err)"]
        def classify_ok(s):
            if s == "let output = f(self, remaining_accounts)": return "call"
            if s == "self.clear_all_prices()": return "clear"
            if s == "output": return "ret"
            raise Unclassified(f"{w}: unrecognised statement in the Ok arm `{s[:80]}`")
        def classify_err(s):
            if s == "self.clear_all_prices()": return "clear"
            if s == "Err(err)": return "ret"
            raise Unclassified(f"{w}: unrecognised statement in the Err arm `{s[:80]}`")
        okk, erk = [classify_ok(s) for s in ok], [classify_err(s) for s in er]
        if okk[:1] != ["call"] or okk[-1:] != ["ret"] or erk[-1:] != ["ret"]:
            raise Unclassified(f"{w}: arm shapes changed: Ok {okk} / Err {erk}")
        clear_ok = "clear" in okk[1:-1]
        clear_err = "clear" in erk[:-1]
        # ---- clear_all_prices
        w = "Oracle::clear_all_prices"
        cl = statements(fn_body(src, "clear_all_prices"))
        want = {"self.primary.clear()": "prices", "self.min_oracle_ts = i64::MAX": "minTs", "self.max_oracle_ts = i64::MIN": "maxTs",
                "self.min_oracle_slot = u64::MAX": "minSlot", "self.flags.set_flag(OracleFlag::Cleared, true)": "flag"}
        resets = []
        for s in cl:
            if s not in want: raise Unclassified(f"{w}: unrecognised statement `{s[:80]}`")
            resets.append(want[s])
        # ---- set_prices_from_remaining_accounts
        w = "Oracle::set_prices_from_remaining_accounts"
        body = fn_body(src, "set_prices_from_remaining_accounts")
        sts = statements(body)
        pre, loop_order, tail = [], [], []
        for s in sts:
            if s.startswith("require!(self.is_cleared(),"): pre.append("cleared")
            elif s.startswith("require!(self.primary.is_empty(),"): pre.append("empty")
            elif s.startswith("require!( tokens.len() <= PriceMap::MAX_TOKENS") or s.startswith("require!(tokens.len() <= PriceMap::MAX_TOKENS"): pre.append("maxTokens")
            elif s.startswith("require!( tokens.len() <= remaining_accounts.len()") or s.startswith("require!(tokens.len() <= remaining_accounts.len()"): pre.append("accounts")
            elif s.startswith("for (idx, token) in tokens.iter().enumerate() {"):
                i = s.index("{")
                for t in statements(s[i + 1: match_brace(s, i)]):
                    if t == "let feed = &remaining_accounts[idx]": continue
                    elif t.startswith("let token_config = map.get(token).ok_or_else("): loop_order.append("config")
                    elif t.startswith("require!(token_config.is_enabled(),"): loop_order.append("enabled")
                    elif t.startswith("let oracle_price = OraclePrice::parse_from_feed_account("): loop_order.append("parse")
                    elif t.startswith("validator.validate_one("):
                        if not t.endswith(")?"): raise Unclassified(f"{w}: validate_one result ignored")
                        for need in ("&oracle_price.provider", "oracle_price.parts.oracle_ts", "oracle_price.parts.oracle_slot", "&oracle_price.parts.price", "oracle_price.parts.ref_price.as_ref()"):
                            if need not in t: raise Unclassified(f"{w}: validate_one no longer receives `{need}`")
                        loop_order.append("validate")
                    elif t.startswith("self.primary.set("):
                        if not t.endswith(")?") or "oracle_price.parts.price" not in t: raise Unclassified(f"{w}: primary.set call changed `{t[:80]}`")
                        loop_order.append("set")
                    else: raise Unclassified(f"{w}: unrecognised loop statement `{t[:80]}`")
            elif s == "self.update_oracle_ts_and_slot(validator)?": tail.append("range")
            elif s == "Ok(())": tail.append("ok")
            else: raise Unclassified(f"{w}: unrecognised statement `{s[:80]}`")
        # ---- parse_from_feed_account
        w = "OraclePrice::parse_from_feed_account"
        body = norm(fn_body(src, "parse_from_feed_account"))
        provider_checked = "require_eq!( token_config.expected_provider().map_err(CoreError::from)?, provider )" in body or \
            "require_eq!(token_config.expected_provider().map_err(CoreError::from)?, provider)" in body
        m = re.search(r"if token_config\.is_price_adjustment_allowed\(\) \{ let adjusted = try_adjust_price\(feed_config, &mut parts\)\?;", body)
        adjust_gated = bool(m)
        if "try_adjust_price(" in body and not m: raise Unclassified(f"{w}: try_adjust_price is called outside the recognised gate")
        if not body.rstrip().endswith("Ok(Self { provider, parts })"): raise Unclassified(f"{w}: result expression changed")
    except (Unclassified, OSError, ValueError) as e:
        print(f"gen_c24_shapes: FAIL CLOSED: {e}")
        return 1
    b = lambda x: "true" if x else "false"
    ls = lambda xs: "[" + ", ".join('"' + x + '"' for x in xs) + "]"
    lean = f"""-- GENERATED by translator/gen_c24_shapes.py from /repo sources — do not edit.
/-! Control-flow shapes of `states/oracle/mod.rs` that only run inside instructions (C24). -/
namespace Gmx.Gen.C24

/-- `with_prices_opts`, Ok arm: `clear_all_prices()` runs after the wrapped operation, before returning. -/
def clearOnOk : Bool := {b(clear_ok)}
/-- `with_prices_opts`, Err arm: `clear_all_prices()` runs before the error is returned. -/
def clearOnErr : Bool := {b(clear_err)}
/-- fields reset by `clear_all_prices`. -/
def clearResets : List String := {ls(resets)}
/-- pre-checks of `set_prices_from_remaining_accounts`, in order. -/
def setPreChecks : List String := {ls(pre)}
/-- per-token steps of its loop, in order. -/
def setLoopOrder : List String := {ls(loop_order)}
/-- what follows the loop. -/
def setTail : List String := {ls(tail)}
/-- `parse_from_feed_account` compares the feed's provider with the token's expected provider. -/
def providerChecked : Bool := {b(provider_checked)}
/-- price adjustment only runs behind `is_price_adjustment_allowed()`. -/
def adjustGated : Bool := {b(adjust_gated)}

end Gmx.Gen.C24
"""
    os.makedirs(os.path.dirname(OUT), exist_ok=True)
    if not os.path.exists(OUT) or open(OUT).read() != lean:
        open(OUT, "w").write(lean)
    return 0


if __name__ == "__main__":
    sys.exit(main())
