#!/usr/bin/env python3
"""Regenerates harness/h_store/c19_specs.json: for every instruction carrying an
`#[access_control]` attribute whose accounts struct has no token accounts, everything the native
harness needs to SYNTHESISE a valid account set and call the real entrypoint:
discriminator and zero-valued borsh arguments (IDL), the account list with kinds (source struct
types), owners, discriminators and sizes of typed accounts (IDL layouts), `has_one` targets with
their byte offsets, PDA seeds (IDL), and the roles the attribute accepts (Gen.Access extraction).
Instructions it cannot describe are listed under "skipped" with the reason (not an error: the
harness reports coverage).  Used by C19.
"""
import json
import os
import re
import sys
sys.path.insert(0, os.path.dirname(os.path.abspath(__file__)))
from rustlex import Src, die
import gen_access as G

IDLS = {"store": "gmsol_store", "treasury": "gmsol_treasury", "timelock": "gmsol_timelock",
        "liquidity_provider": "gmsol_liquidity_provider", "competition": "gmsol_competition"}
PRIM = {"u8": 1, "i8": 1, "bool": 1, "u16": 2, "i16": 2, "u32": 4, "i32": 4, "u64": 8, "i64": 8, "u128": 16, "i128": 16, "f32": 4, "f64": 8}
OUT = "/verif/harness/h_store/c19_specs.json"


class Unsupported(Exception):
    pass


class Idl:
    def __init__(self, name):
        self.d = json.load(open(f"/repo/crates/programs/idls/{name}.json"))
        self.types = {t["name"]: t for t in self.d["types"]}
        self.accounts = {a["name"]: a for a in self.d["accounts"]}
        self.address = self.d["address"]
        self.cache = {}

    def layout(self, ty):
        if isinstance(ty, str):
            if ty in PRIM: return PRIM[ty], PRIM[ty]
            if ty == "pubkey": return 32, 1
            raise Unsupported(f"layout of {ty}")
        if "array" in ty:
            s, a = self.layout(ty["array"][0]); return s * ty["array"][1], a
        if "defined" in ty:
            return self.struct(ty["defined"]["name"])[:2]
        raise Unsupported(f"layout of {ty}")

    def struct(self, name):
        if name in self.cache: return self.cache[name]
        t = self.types.get(name)
        if t is None or t.get("serialization") not in ("bytemuck", "bytemuckunsafe") or t["type"]["kind"] != "struct":
            raise Unsupported(f"{name} is not a zero-copy struct")
        off, align, fields = 0, 1, {}
        for f in t["type"]["fields"]:
            s, a = self.layout(f["type"])
            off = (off + a - 1) // a * a
            fields[f["name"]] = (off, s)
            off += s; align = max(align, a)
        self.cache[name] = ((off + align - 1) // align * align, align, fields)
        return self.cache[name]

    def zero(self, ty):
        """borsh encoding of the zero / empty value"""
        if isinstance(ty, str):
            if ty in PRIM: return bytes(PRIM[ty])
            if ty == "pubkey": return bytes(32)
            if ty in ("string", "bytes"): return bytes(4)
            raise Unsupported(f"zero of {ty}")
        if "vec" in ty: return bytes(4)
        if "option" in ty: return bytes(1)
        if "array" in ty: return self.zero(ty["array"][0]) * ty["array"][1]
        if "defined" in ty:
            t = self.types[ty["defined"]["name"]]
            k = t["type"]
            if k["kind"] == "struct":
                fs = k.get("fields", [])
                return b"".join(self.zero(f["type"] if isinstance(f, dict) else f) for f in fs)
            if k["kind"] == "enum":
                v = k["variants"][0]
                return bytes(1) + b"".join(self.zero(f["type"] if isinstance(f, dict) else f) for f in v.get("fields", []))
        raise Unsupported(f"zero of {ty}")


def main():
    rows = G.main()
    attr = {(r["program"], r["name"]): r["attr"] for r in rows}
    idls = {p: Idl(n) for p, n in IDLS.items()}
    owner_of = {}
    for p, idl in idls.items():
        for a in idl.accounts: owner_of.setdefault(a, p)
    specs, skipped = [], []
    try:
        expected = json.load(open(os.path.join(os.path.dirname(os.path.abspath(__file__)), "c19_expected_roles.json")))
    except (OSError, ValueError) as e:
        die(f"cannot read c19_expected_roles.json: {e}")
    for pname, root, modname in G.PROGRAMS:
        lib = Src(f"{root}/src/lib.rs")
        files = [Src(f) for f in G.rs_files(root)]
        structs = {}
        for s in files:
            for i, t in enumerate(s.toks):
                if t.kind == "id" and t.text == "struct" and s.is_id(i + 1): structs.setdefault(s.toks[i + 1].text, []).append((s, i))
        mod = None
        for i, t in enumerate(lib.toks):
            if t.kind == "id" and t.text == "mod" and lib.is_id(i + 1, modname): mod = (i + 3, lib.match[i + 2])
        idl = idls[pname]
        iix = {i["name"]: i for i in idl.d["instructions"]}
        for f in lib.fns(*mod):
            name = f["name"]
            # the REVIEWED expectation (translator/c19_expected_roles.json) decides which instructions are
            # exercised and with which required roles — NOT the attribute currently in the source, so that a
            # dropped or changed attribute is found by the harness oracle with a concrete call
            exp = expected.get(f"{pname}::{name}")
            roles, pinned = (exp["roles"], exp["reachable"]) if exp else (None, False)
            if roles is None:
                roles = attr.get((pname, name))
                if roles is None: continue
            try:
                if name not in iix: raise Unsupported("not in the IDL")
                ii = iix[name]
                ctx = re.search(r"Context <(?: '\w+ ,)* (\w+)", lib.text_of(*f["params"])).group(1)
                s, si = structs[ctx][0]
                # field attributes
                j = si + 2
                if s.is_p(j, "<"): j = s.skip_generics(j)
                lo, hi = j + 1, s.match[j]
                fattrs, cur, i = {}, [], lo
                while i < hi:
                    if s.toks[i].kind == "doc": i += 1; continue
                    if s.is_p(i, "#"): cur.append(s.text_of(i + 2, s.match[i + 1])); i = s.match[i + 1] + 1; continue
                    if s.is_id(i, "pub"):
                        i += 1
                        if s.is_p(i, "("): i = s.match[i] + 1
                    fname = s.toks[i].text
                    fattrs[fname] = " ".join(a for a in cur if a.startswith("account"))
                    cur = []
                    depth = 0
                    while i < hi:
                        t = s.toks[i]
                        if t.kind == "p":
                            if t.text in ("(", "[", "{"): i = s.match[i]
                            elif t.text == "<": depth += 1
                            elif t.text == ">": depth -= 1
                            elif t.text == ">>": depth -= 2
                            elif t.text == "," and depth <= 0: break
                        i += 1
                    i += 1
                ftypes = {fn: re.sub(r"'info ,? ?", "", ty).replace(" ", "") for fn, ty, _ in s.struct_fields(ctx)}
                iaccs = [a for a in ii["accounts"]]
                if [a["name"] for a in iaccs] == list(ftypes) + ["event_authority", "program"]:
                    # `#[event_cpi]` appends the event authority PDA and the program itself
                    ftypes["event_authority"] = "UncheckedAccount"
                    ftypes["program"] = "Program<Self>"
                    iaccs[-1] = dict(iaccs[-1], address=idl.address)
                if [a["name"] for a in iaccs] != list(ftypes): raise Unsupported("IDL account list differs from the source struct")
                accounts = []
                for a in iaccs:
                    ty = ftypes[a["name"]]
                    opt = ty.startswith("Option<")
                    core = re.sub(r"^Option<(.*)>$", r"\1", ty); core = re.sub(r"^Box<(.*)>$", r"\1", core)
                    at = fattrs.get(a["name"], "")
                    acc = dict(name=a["name"], signer=bool(a.get("signer")), writable=bool(a.get("writable")), optional=opt)
                    if "TokenAccount" in core or "Mint>" in core or "token_interface" in core: raise Unsupported("token account")
                    if core.startswith("Signer"): acc["kind"] = "signer"
                    elif core.startswith("Program<") or core.startswith("Interface<"):
                        acc["kind"] = "program"; acc["address"] = a.get("address")
                        if not acc["address"] and not opt: raise Unsupported(f"program {a['name']} without address")
                    elif core.startswith("UncheckedAccount") or core.startswith("SystemAccount") or core.startswith("AccountInfo"):
                        acc["kind"] = "plain"
                        if a.get("address"): acc["address"] = a["address"]
                    else:
                        m = re.match(r"(AccountLoader|Account)<(\w+)>", core)
                        if not m: raise Unsupported(f"account type {core}")
                        tname = m.group(2)
                        op = owner_of.get(tname)
                        if op is None: raise Unsupported(f"type {tname} not in any IDL")
                        oidl = idls[op]
                        acc["kind"] = "store" if tname == "Store" else ("zc" if m.group(1) == "AccountLoader" else "borsh")
                        acc["type"] = tname
                        acc["owner"] = oidl.address
                        acc["disc"] = oidl.accounts[tname]["discriminator"]
                        acc["init"] = bool(re.search(r"\binit\b|\binit_if_needed\b", at))
                        if acc["kind"] in ("zc", "store"):
                            size, _, fields = oidl.struct(tname)
                            acc["size"] = size
                            acc["has_one"] = []
                            for h in re.findall(r"has_one = (\w+)", at):
                                if h not in fields: raise Unsupported(f"has_one = {h}: no such field in {tname}")
                                acc["has_one"].append([h, fields[h][0]])
                            if "bump" in fields: acc["bump_offset"] = fields["bump"][0]
                            if re.search(r"\bconstraint =", at): acc["constraint"] = True
                        else:
                            acc["size"] = 512
                            if re.search(r"has_one =|\bconstraint =", at): acc["constraint"] = True
                    if a.get("pda"):
                        seeds = []
                        for sd in a["pda"]["seeds"]:
                            if sd["kind"] == "const": seeds.append(dict(const=sd["value"]))
                            elif sd["kind"] == "account":
                                if "." in sd["path"]: raise Unsupported(f"pda seed from account data {sd['path']}")
                                seeds.append(dict(account=sd["path"]))
                            elif sd["kind"] == "arg":
                                arg = [x for x in ii["args"] if x["name"] == sd["path"].split(".")[0]]
                                if not arg or "." in sd["path"]: raise Unsupported(f"pda seed from arg {sd['path']}")
                                z = idl.zero(arg[0]["type"])
                                if arg[0]["type"] in ("string", "bytes"): z = b""
                                seeds.append(dict(const=list(z)))
                            else: raise Unsupported(f"pda seed kind {sd['kind']}")
                        prog = a["pda"].get("program")
                        if prog is not None:
                            if prog.get("kind") == "const": prog = dict(const=prog["value"])
                            elif prog.get("kind") == "account" and "." not in prog["path"]: prog = dict(account=prog["path"])
                            else: raise Unsupported("pda program")
                        acc["pda"] = dict(seeds=seeds, program=prog)
                    accounts.append(acc)
                args = b"".join(idl.zero(x["type"]) for x in ii["args"])
                specs.append(dict(program=pname, program_id=idl.address, name=name, disc=ii["discriminator"], args=list(args), roles=roles, reachable=pinned, accounts=accounts))
            except Unsupported as e:
                skipped.append(dict(program=pname, name=name, why=str(e)))
    text = json.dumps(dict(specs=specs, skipped=skipped), indent=0, sort_keys=True)
    if not os.path.exists(OUT) or open(OUT).read() != text:
        tmp = OUT + f".tmp{os.getpid()}"
        open(tmp, "w").write(text); os.replace(tmp, OUT)
    return specs, skipped


if __name__ == "__main__":
    specs, skipped = main()
    if len(sys.argv) > 1:
        print(len(specs), "specs;", len(skipped), "skipped")
        for s in skipped: print("  skip", s["program"], s["name"], "-", s["why"])
