#!/usr/bin/env python3
"""Regenerates harness/h_store/c19_specs.json: what the native harness needs to SYNTHESISE a valid
account set for an instruction and call the real entrypoint.

Covered instructions:
  * every instruction with an `#[access_control]` attribute (or listed in the reviewed expectation
    translator/c19_expected_roles.json) — role test;
  * every attribute-less instruction whose accounts struct ties a writable account to a signer
    (`has_one = <signer>`, signer key in the seeds) — owner test.

Per instruction: discriminator and zero-valued borsh arguments (IDL); the account list with kinds
(signer / program / plain / zero-copy / borsh / SPL token account / SPL mint), owners,
discriminators, sizes; `has_one` targets with byte offsets (zero-copy layouts from the IDL, borsh
offsets for fixed-size prefixes); PDA seeds (IDL, else parsed from the `#[account(seeds = …)]`
attribute); token constraints (`token::mint/authority`, `associated_token::*`, `mint::*`).
Instructions it cannot describe are listed under "skipped" with the reason (coverage is reported
by the harness; an undescribed or unreached instruction is never counted as passing).  Used by C19.
"""
import json
import os
import re
import sys
sys.path.insert(0, os.path.dirname(os.path.abspath(__file__)))
from rustlex import Src, die
import gen_access as G

IDLS = {"store": "gmsol_store", "treasury": "gmsol_treasury", "timelock": "gmsol_timelock",
        "liquidity_provider": "gmsol_liquidity_provider", "competition": "gmsol_competition"}
PRIM = {"u8": 1, "i8": 1, "bool": 1, "u16": 2, "i16": 2, "u32": 4, "i32": 4, "u64": 8, "i64": 8, "u128": 16, "i128": 16, "f32": 4, "f64": 8}
OUT = "/verif/harness/h_store/c19_specs.json"
TOKEN_PROGRAM = "TokenkegQfeZyiNwAJbNbGKPFXCWuBvf9Ss623VQ5DA"


class Unsupported(Exception):
    pass


class Idl:
    def __init__(self, name):
        self.d = json.load(open(f"/repo/crates/programs/idls/{name}.json"))
        self.types = {t["name"]: t for t in self.d["types"]}
        self.accounts = {a["name"]: a for a in self.d["accounts"]}
        self.address = self.d["address"]
        self.cache = {}

    def layout(self, ty):
        if isinstance(ty, str):
            if ty in PRIM: return PRIM[ty], PRIM[ty]
            if ty == "pubkey": return 32, 1
            raise Unsupported(f"layout of {ty}")
        if "array" in ty:
            s, a = self.layout(ty["array"][0]); return s * ty["array"][1], a
        if "defined" in ty:
            return self.struct(ty["defined"]["name"])[:2]
        raise Unsupported(f"layout of {ty}")

    def struct(self, name):
        if name in self.cache: return self.cache[name]
        t = self.types.get(name)
        if t is None or t.get("serialization") not in ("bytemuck", "bytemuckunsafe") or t["type"]["kind"] != "struct":
            raise Unsupported(f"{name} is not a zero-copy struct")
        off, align, fields = 0, 1, {}
        for f in t["type"]["fields"]:
            s, a = self.layout(f["type"])
            off = (off + a - 1) // a * a
            fields[f["name"]] = (off, s)
            off += s; align = max(align, a)
        self.cache[name] = ((off + align - 1) // align * align, align, fields)
        return self.cache[name]

    def borsh_fields(self, name):
        """{field: offset} for the fixed-size prefix of a borsh struct"""
        t = self.types.get(name)
        if t is None or t["type"]["kind"] != "struct": return {}
        off, out = 0, {}
        for f in t["type"].get("fields", []):
            ty = f["type"]
            if isinstance(ty, str) and (ty in PRIM or ty == "pubkey"):
                out[f["name"]] = off; off += PRIM.get(ty, 32)
            elif isinstance(ty, dict) and "array" in ty and isinstance(ty["array"][0], str) and ty["array"][0] in PRIM:
                out[f["name"]] = off; off += PRIM[ty["array"][0]] * ty["array"][1]
            else:
                break
        return out

    def zero(self, ty):
        """borsh encoding of the zero / empty value"""
        if isinstance(ty, str):
            if ty in PRIM: return bytes(PRIM[ty])
            if ty == "pubkey": return bytes(32)
            if ty in ("string", "bytes"): return bytes(4)
            raise Unsupported(f"zero of {ty}")
        if "vec" in ty: return bytes(4)
        if "option" in ty: return bytes(1)
        if "array" in ty: return self.zero(ty["array"][0]) * ty["array"][1]
        if "defined" in ty:
            t = self.types[ty["defined"]["name"]]
            k = t["type"]
            if k["kind"] == "struct":
                fs = k.get("fields", [])
                return b"".join(self.zero(f["type"] if isinstance(f, dict) else f) for f in fs)
            if k["kind"] == "enum":
                v = k["variants"][0]
                return bytes(1) + b"".join(self.zero(f["type"] if isinstance(f, dict) else f) for f in v.get("fields", []))
        raise Unsupported(f"zero of {ty}")


class Consts:
    """byte-string and small integer constants of all programs, by (last) name; `T::SEED` by T"""
    def __init__(self, all_files):
        self.bytes, self.ints, self.seed, self.strs = {}, {}, {}, {}
        for s in all_files:
            whole = s.text_of(0, len(s.toks))
            for mm in re.finditer(r"\bconst (\w+) : [^=;]+ = ([^;]+) ;", whole):
                name, txt = mm.group(1), mm.group(2)
                m = re.fullmatch(r'b"((?:[^"\\]|\\.)*)"', txt)
                if m and name != "SEED": self.bytes.setdefault(name, m.group(1).encode())
                m3 = re.fullmatch(r'"((?:[^"\\]|\\.)*)"', txt)
                if m3: self.strs.setdefault(name, m3.group(1).encode())
                m2 = re.fullmatch(r"([0-9_]+)(usize|u8|u16|u32|u64)?", txt)
                if m2: self.ints.setdefault(name, int(m2.group(1).replace("_", "")))
            for h, lo, hi in s.impls():
                m = re.search(r"\bSeed for (\w+)", h)
                if m:
                    t = s.text_of(lo, hi)
                    v = re.search(r'const SEED : & \'static \[ u8 \] = b"((?:[^"\\]|\\.)*)"', t)
                    if v: self.seed[m.group(1)] = v.group(1).encode()
                    v2 = re.search(r"const SEED : & 'static \[ u8 \] = (\w+) :: SEED", t)
                    if v2: self.seed[m.group(1)] = ("alias", v2.group(1))

    def seed_of(self, t):
        v = self.seed.get(t)
        if isinstance(v, tuple): return self.seed_of(v[1])
        return v


def attr_items(s, ranges):
    """[(key, value_text)] of the `#[account(...)]` attributes given as token ranges"""
    items = []
    for lo, hi in ranges:
        if not s.is_id(lo, "account") or not s.is_p(lo + 1, "("): continue
        for a, b in s.split_commas(lo + 2, s.match[lo + 1]):
            eq = None
            depth = 0
            for k in range(a, b):
                t = s.toks[k]
                if t.kind == "p" and t.text in ("(", "[", "{"): depth += 1
                if t.kind == "p" and t.text in (")", "]", "}"): depth -= 1
                if depth == 0 and s.is_p(k, "=") and eq is None: eq = k
            if eq is None: items.append((s.text_of(a, b), "", (a, b)))
            else: items.append((s.text_of(a, eq), s.text_of(eq + 1, b), (eq + 1, b)))
    return items


def main():
    rows = G.main()
    attr = {(r["program"], r["name"]): r["attr"] for r in rows}
    rowinfo = {(r["program"], r["name"]): r for r in rows}
    idls = {p: Idl(n) for p, n in IDLS.items()}
    owner_of = {}
    for p, idl in idls.items():
        for a in idl.accounts: owner_of.setdefault(a, p)
    try:
        expected = json.load(open(os.path.join(os.path.dirname(os.path.abspath(__file__)), "c19_expected_roles.json")))
    except (OSError, ValueError) as e:
        die(f"cannot read c19_expected_roles.json: {e}")
    all_files = {}
    for pname, root, modname in G.PROGRAMS:
        all_files[pname] = [Src(f) for f in G.rs_files(root)]
    consts = Consts([s for fs in all_files.values() for s in fs] + [Src(f) for f in G.rs_files("programs/callback")]
                    + [Src("crates/utils/src/role.rs")])
    specs, skipped = [], []
    for pname, root, modname in G.PROGRAMS:
        lib = Src(f"{root}/src/lib.rs")
        files = all_files[pname]
        structs = {}
        for s in files:
            for i, t in enumerate(s.toks):
                if t.kind == "id" and t.text == "struct" and s.is_id(i + 1): structs.setdefault(s.toks[i + 1].text, []).append((s, i))
        mod = None
        for i, t in enumerate(lib.toks):
            if t.kind == "id" and t.text == "mod" and lib.is_id(i + 1, modname): mod = (i + 3, lib.match[i + 2])
        idl = idls[pname]
        iix = {i["name"]: i for i in idl.d["instructions"]}
        for f in lib.fns(*mod):
            name = f["name"]
            # the REVIEWED expectation decides which instructions are exercised and what is required — NOT the
            # attribute / constraint currently in the source, so that a dropped guard is found by the oracle
            exp = expected.get(f"{pname}::{name}")
            ri = rowinfo[(pname, name)]
            if exp:
                roles, pinned, owner_sig = exp.get("roles", []), exp.get("reachable", False), exp.get("owner")
            else:
                roles, pinned = attr.get((pname, name)), False
                owner_sig = None
                if roles is None:
                    # attribute-less: owner test when a writable account is tied to a signer
                    if not (ri["owner_bound"] and ri["writable"] and ri["signers"]): continue
                    roles = []
                    owner_sig = "?"
            try:
                if name not in iix: raise Unsupported("not in the IDL")
                ii = iix[name]
                ctx = re.search(r"Context <(?: '\w+ ,)* (\w+)", lib.text_of(*f["params"])).group(1)
                s, si = structs[ctx][0]
                j = si + 2
                if s.is_p(j, "<"): j = s.skip_generics(j)
                lo, hi = j + 1, s.match[j]
                fattrs, cur, i = {}, [], lo
                while i < hi:
                    if s.toks[i].kind == "doc": i += 1; continue
                    if s.is_p(i, "#"): cur.append((i + 2, s.match[i + 1])); i = s.match[i + 1] + 1; continue
                    if s.is_id(i, "pub"):
                        i += 1
                        if s.is_p(i, "("): i = s.match[i] + 1
                    fname = s.toks[i].text
                    fattrs[fname] = attr_items(s, cur)
                    cur = []
                    depth = 0
                    while i < hi:
                        t = s.toks[i]
                        if t.kind == "p":
                            if t.text in ("(", "[", "{"): i = s.match[i]
                            elif t.text == "<": depth += 1
                            elif t.text == ">": depth -= 1
                            elif t.text == ">>": depth -= 2
                            elif t.text == "," and depth <= 0: break
                        i += 1
                    i += 1
                ftypes = {fn: re.sub(r"'info ,? ?", "", ty).replace(" ", "") for fn, ty, _ in s.struct_fields(ctx)}
                iaccs = [a for a in ii["accounts"]]
                if [a["name"] for a in iaccs] == list(ftypes) + ["event_authority", "program"]:
                    ftypes["event_authority"] = "UncheckedAccount"
                    ftypes["program"] = "Program<Self>"
                    iaccs[-1] = dict(iaccs[-1], address=idl.address)
                if [a["name"] for a in iaccs] != list(ftypes): raise Unsupported("IDL account list differs from the source struct")
                argn = {x["name"]: x for x in ii["args"]}
                signers = [n for n, t in ftypes.items() if t.startswith("Signer")]
                accounts = []
                for a in iaccs:
                    ty = ftypes[a["name"]]
                    opt = ty.startswith("Option<")
                    core = re.sub(r"^Option<(.*)>$", r"\1", ty); core = re.sub(r"^Box<(.*)>$", r"\1", core)
                    items = fattrs.get(a["name"], [])
                    kv = {}
                    for k, v, rng in items: kv.setdefault(k, []).append((v, rng))
                    acc = dict(name=a["name"], signer=bool(a.get("signer")), writable=bool(a.get("writable")), optional=opt)
                    # created or resized by Anchor DURING account validation (before any guard / later constraint)
                    acc["init"] = "init" in kv or "init_if_needed" in kv or "realloc" in kv
                    has_one = [re.sub(r" @ .*$", "", v) for v, _ in kv.get("has_one", [])]
                    custom = [v for v, _ in kv.get("constraint", [])]
                    eqs, rest = [], []
                    for c in custom:
                        mm = re.fullmatch(rf"{a['name']} (?:\. load \( \) \? )?\. (\w+) == (\w+) \. key \( \)(?: @ .*)?", c)
                        # the getter form of the same relation: `acct.load()?.field() == Some(&other.key())`
                        mo = re.fullmatch(rf"{a['name']} \. load \( \) \? \. (\w+) \( \) == Some \( & (\w+) \. key \( \) \)(?: @ .*)?", c)
                        if mm and mm.group(2) in ftypes: eqs.append((mm.group(1), mm.group(2)))
                        elif mo and mo.group(2) in ftypes: eqs.append((mo.group(1), mo.group(2)))
                        else: rest.append(c)
                    if rest: acc["constraint"] = True
                    is_tok = re.search(r"(Account|InterfaceAccount)<(?:token_interface::)?TokenAccount>", core)
                    is_mint = re.search(r"(Account|InterfaceAccount)<(?:token_interface::)?Mint>", core)
                    if core.startswith("Signer"): acc["kind"] = "signer"
                    elif core.startswith("Program<") or core.startswith("Interface<"):
                        acc["kind"] = "program"; acc["address"] = a.get("address")
                        if "TokenInterface" in core or core.startswith("Program<Token"): acc["address"] = acc["address"] or TOKEN_PROGRAM
                        if not acc["address"] and not opt: raise Unsupported(f"program {a['name']} without address")
                    elif is_tok or is_mint:
                        acc["kind"] = "token" if is_tok else "mint"
                        acc["owner"] = TOKEN_PROGRAM
                        def ref(key):
                            v = kv.get(key)
                            if not v: return None
                            t = v[0][0]
                            if re.fullmatch(r"\w+", t) and t in ftypes: return t
                            raise Unsupported(f"{key} = {t}")
                        if is_tok:
                            acc["mint"] = ref("token :: mint") or ref("associated_token :: mint")
                            acc["authority"] = ref("token :: authority") or ref("associated_token :: authority")
                            acc["ata"] = "associated_token :: mint" in kv
                            for fld, tgt in eqs:
                                if fld == "mint": acc["mint"] = acc["mint"] or tgt
                                elif fld == "owner": acc["authority"] = acc["authority"] or tgt
                                else: acc["constraint"] = True
                        else:
                            acc["authority"] = ref("mint :: authority")
                            d = kv.get("mint :: decimals")
                            if d:
                                t = d[0][0]
                                last = t.split(" :: ")[-1]
                                if re.fullmatch(r"\d+", t): acc["decimals"] = int(t)
                                elif last in consts.ints: acc["decimals"] = consts.ints[last]
                                else: raise Unsupported(f"mint::decimals = {t}")
                    elif core.startswith("UncheckedAccount") or core.startswith("SystemAccount") or core.startswith("AccountInfo"):
                        acc["kind"] = "plain"
                        if a.get("address"): acc["address"] = a["address"]
                    else:
                        m = re.match(r"(AccountLoader|Account|InterfaceAccount)<(\w+)>", core)
                        if not m: raise Unsupported(f"account type {core}")
                        tname = m.group(2)
                        # the owning program is the one whose SOURCE defines the struct (foreign IDLs re-list imported store accounts)
                        op = pname if (tname in structs and tname in idls[pname].accounts) else owner_of.get(tname)
                        if op is None: raise Unsupported(f"type {tname} not in any IDL")
                        oidl = idls[op]
                        acc["kind"] = "store" if tname == "Store" else ("zc" if m.group(1) == "AccountLoader" else "borsh")
                        acc["type"] = tname
                        acc["owner"] = oidl.address
                        acc["disc"] = oidl.accounts[tname]["discriminator"]
                        acc["has_one"] = []
                        if acc["kind"] in ("zc", "store"):
                            size, _, fields = oidl.struct(tname)
                            acc["size"] = size
                            offs = {k: v[0] for k, v in fields.items()}
                        else:
                            acc["size"] = 1024
                            offs = oidl.borsh_fields(tname)
                        for fld, tgt in eqs:
                            if fld in offs: acc["has_one"].append([tgt, offs[fld]])
                            else: acc["constraint"] = True
                        for h in has_one:
                            if h not in offs: raise Unsupported(f"has_one = {h}: offset of that field in {tname} unknown")
                            acc["has_one"].append([h, offs[h]])
                        if "bump" in offs: acc["bump_offset"] = offs["bump"]
                    # ---- PDA
                    if a.get("pda"):
                        seeds = []
                        for sd in a["pda"]["seeds"]:
                            if sd["kind"] == "const": seeds.append(dict(const=sd["value"]))
                            elif sd["kind"] == "account":
                                if "." in sd["path"]: raise Unsupported(f"pda seed from account data {sd['path']}")
                                seeds.append(dict(account=sd["path"]))
                            elif sd["kind"] == "arg":
                                arg = [x for x in ii["args"] if x["name"].lstrip("_") == sd["path"].split(".")[0].lstrip("_")]
                                if not arg or "." in sd["path"]: raise Unsupported(f"pda seed from arg {sd['path']}")
                                z = idl.zero(arg[0]["type"])
                                if arg[0]["type"] in ("string", "bytes"): z = b""
                                seeds.append(dict(const=list(z)))
                            else: raise Unsupported(f"pda seed kind {sd['kind']}")
                        prog = a["pda"].get("program")
                        if prog is not None:
                            if prog.get("kind") == "const": prog = dict(const=prog["value"])
                            elif prog.get("kind") == "account" and "." not in prog["path"]: prog = dict(account=prog["path"])
                            else: raise Unsupported("pda program")
                        acc["pda"] = dict(seeds=seeds, program=prog)
                    elif "seeds" in kv and not acc.get("ata"):
                        # the IDL has no seeds for this account: parse the attribute
                        v, (lo2, hi2) = kv["seeds"][0]
                        if not s.is_p(lo2, "["): raise Unsupported(f"seeds = {v[:40]}")
                        seeds = []
                        for a2, b2 in s.split_commas(lo2 + 1, s.match[lo2]):
                            t = s.text_of(a2, b2)
                            t = re.sub(r"^& ", "", t)
                            m1 = re.fullmatch(r'b"((?:[^"\\]|\\.)*)"', t)
                            m2 = re.fullmatch(r"(\w+) \. key (?:\( \) )?\. as_ref \( \)", t)
                            m3 = re.fullmatch(r"(\w+) \. to_le_bytes \( \)", t)
                            m4 = re.fullmatch(r"(?:\w+ :: )*fixed_str_to_bytes :: < (?:\w+ :: )*(\w+) > \( (?:& )?(\w+) \) \?", t)
                            m5 = re.fullmatch(r"(?:(\w+) :: )*(\w+)", t)
                            m6 = re.fullmatch(r"(\w+) \. as_ref \( \)|(\w+) \. as_bytes \( \)", t)
                            m7 = re.fullmatch(r"\[ (\w+) \]", t)
                            if m1: seeds.append(dict(const=list(m1.group(1).encode())))
                            elif m2 and m2.group(1) in ftypes: seeds.append(dict(account=m2.group(1)))
                            elif m3 and m3.group(1) in argn: seeds.append(dict(const=list(idl.zero(argn[m3.group(1)]["type"]))))
                            elif m4 and m4.group(2) in argn and m4.group(1) in consts.ints: seeds.append(dict(const=[0] * consts.ints[m4.group(1)]))
                            elif re.fullmatch(r"(?:\w+ :: )*fixed_str_to_bytes :: < (?:\w+ :: )*(\w+) > \( (?:\w+ :: )*(\w+) \) \?", t):
                                mm4 = re.fullmatch(r"(?:\w+ :: )*fixed_str_to_bytes :: < (?:\w+ :: )*(\w+) > \( (?:\w+ :: )*(\w+) \) \?", t)
                                n_, c_ = consts.ints.get(mm4.group(1)), consts.strs.get(mm4.group(2))
                                if n_ is None or c_ is None or len(c_) > n_: raise Unsupported(f"seed expression `{t[:60]}`")
                                seeds.append(dict(const=list(c_ + bytes(n_ - len(c_)))))
                            elif m6 and (m6.group(1) or m6.group(2)) in argn:
                                an = m6.group(1) or m6.group(2)
                                z = idl.zero(argn[an]["type"])
                                seeds.append(dict(const=list(b"" if argn[an]["type"] in ("string", "bytes") else z)))
                            elif m7 and m7.group(1) in argn: seeds.append(dict(const=list(idl.zero(argn[m7.group(1)]["type"]))))
                            elif m5:
                                last = m5.group(2)
                                val = None
                                if last == "SEED":
                                    tn = t.split(" :: ")[-2] if " :: " in t else None
                                    val = consts.seed_of(tn)
                                else:
                                    val = consts.bytes.get(last)
                                if val is None: raise Unsupported(f"seed constant `{t}`")
                                seeds.append(dict(const=list(val)))
                            else:
                                raise Unsupported(f"seed expression `{t[:50]}`")
                        prog = None
                        if "seeds :: program" in kv:
                            pt = kv["seeds :: program"][0][0]
                            mm = re.fullmatch(r"(\w+) \. key \( \)", pt)
                            if mm and mm.group(1) in ftypes: prog = dict(account=mm.group(1))
                            elif re.fullmatch(r"gmsol_store :: ID", pt): prog = dict(b58=idls["store"].address)
                            else: raise Unsupported(f"seeds::program = {pt}")
                        acc["pda"] = dict(seeds=seeds, program=prog)
                    accounts.append(acc)
                # which signer is the recorded owner (owner test)
                if owner_sig == "?":
                    owner_sig = None
                    for sg in signers:
                        for a2 in accounts:
                            its = fattrs.get(a2["name"], [])
                            if any((k == "has_one" and re.sub(r" @ .*$", "", v) == sg) or (k == "seeds" and re.search(rf"\b{sg} \. key", v)) for k, v, _ in its):
                                owner_sig = sg
                        if owner_sig: break
                    if owner_sig is None: raise Unsupported("no signer-tied account found")
                args = b"".join(idl.zero(x["type"]) for x in ii["args"])
                specs.append(dict(program=pname, program_id=idl.address, name=name, disc=ii["discriminator"], args=list(args), roles=roles,
                                  owner=owner_sig, guarded=attr.get((pname, name)) is not None, reachable=pinned,
                                  foreign=(exp or {}).get("foreign", {}), siblings=(exp or {}).get("siblings", {}), accounts=accounts))
            except Unsupported as e:
                skipped.append(dict(program=pname, name=name, why=str(e), guarded=attr.get((pname, name)) is not None))
    text = json.dumps(dict(specs=specs, skipped=skipped), indent=0, sort_keys=True)
    if not os.path.exists(OUT) or open(OUT).read() != text:
        tmp = OUT + f".tmp{os.getpid()}"
        open(tmp, "w").write(text); os.replace(tmp, OUT)
    return specs, skipped


if __name__ == "__main__":
    specs, skipped = main()
    if len(sys.argv) > 1:
        print(len(specs), "specs;", len(skipped), "skipped")
        import collections
        print(collections.Counter((s["program"], "guarded" if s["guarded"] else "owner") for s in specs))
        for s in skipped: print("  skip", s["program"], s["name"], "-", s["why"])
