#!/usr/bin/env python3
"""Regenerates lean/Gmx/Gen/Layout.lean from the IDL the SDK is generated from
(crates/programs/idls/gmsol_store.json, consumed by `declare_program!`): for every `bytemuck`
(zero-copy, repr(C)) type, its size, alignment and field offsets, computed twice — with
`align_of::<u128>() = 16` (x86-64 host, where the harness runs) and `= 8` (SBF, on chain).
Fails closed on an IDL type expression it cannot lay out.  Used by C40.
"""
import json
import os
import sys
sys.path.insert(0, os.path.dirname(os.path.abspath(__file__)))
from rustlex import die
import leangen as L

IDL = "/repo/crates/programs/idls/gmsol_store.json"
PRIM = {"u8": 1, "i8": 1, "bool": 1, "u16": 2, "i16": 2, "u32": 4, "i32": 4, "f32": 4, "u64": 8, "i64": 8, "f64": 8, "u128": 16, "i128": 16}


def main():
    try:
        idl = json.load(open(IDL))
    except (OSError, ValueError) as e:
        die(f"cannot read {IDL}: {e}")
    types = {t["name"]: t for t in idl["types"]}
    cache = {}

    def layout(ty, a128, where):
        """(size, align)"""
        if isinstance(ty, str):
            if ty in ("u128", "i128"): return 16, a128
            if ty in PRIM: return PRIM[ty], PRIM[ty]
            if ty == "pubkey": return 32, 1
            die(f"{IDL}: {where}: cannot lay out type `{ty}`")
        if "array" in ty:
            s, a = layout(ty["array"][0], a128, where)
            n = ty["array"][1]
            if not isinstance(n, int): die(f"{IDL}: {where}: array length `{n}` is not a literal")
            return s * n, a
        if "defined" in ty:
            return struct(ty["defined"]["name"], a128)[:2]
        die(f"{IDL}: {where}: cannot lay out type expression {ty}")

    def struct(name, a128):
        if (name, a128) in cache: return cache[(name, a128)]
        if name not in types: die(f"{IDL}: type {name} not defined")
        t = types[name]
        if t.get("serialization") not in ("bytemuck", "bytemuckunsafe") or t["type"]["kind"] != "struct":
            die(f"{IDL}: type {name} is used inside a zero-copy type but is not a bytemuck struct")
        if t.get("repr", {}).get("kind") != "c" or t.get("repr", {}).get("packed"):
            die(f"{IDL}: zero-copy type {name} is not plain repr(C): {t.get('repr')}")
        off, align, fields = 0, 1, []
        for f in t["type"]["fields"]:
            s, a = layout(f["type"], a128, f"{name}.{f['name']}")
            off = (off + a - 1) // a * a
            fields.append((f["name"], off, s))
            off += s
            align = max(align, a)
        size = (off + align - 1) // align * align
        cache[(name, a128)] = (size, align, fields)
        return cache[(name, a128)]

    zc = [t["name"] for t in idl["types"] if t.get("serialization") in ("bytemuck", "bytemuckunsafe") and t["type"]["kind"] == "struct"]
    accounts = [a["name"] for a in idl["accounts"] if a["name"] in zc]
    o = [L.header("Zero-copy layouts derived from the IDL (sizes / offsets under both u128 alignments)", [IDL[len('/repo/'):]], "Gmx.Gen.Layout")]
    o.append("structure FieldL where\n  name : String\n  off16 : Nat\n  off8 : Nat\n  size : Nat\n  deriving DecidableEq, Repr\n")
    o.append("structure TypeL where\n  name : String\n  size16 : Nat\n  size8 : Nat\n  align16 : Nat\n  align8 : Nat\n  isAccount : Bool\n  fields : List FieldL\n  deriving DecidableEq, Repr\n")
    rows = []
    for n in zc:
        s16, a16, f16 = struct(n, 16)
        s8, a8, f8 = struct(n, 8)
        fl = ", ".join(f"⟨{L.lstr(a[0])}, {a[1]}, {b[1]}, {a[2]}⟩" for a, b in zip(f16, f8))
        rows.append(f"⟨{L.lstr(n)}, {s16}, {s8}, {a16}, {a8}, {str(n in accounts).lower()}, [{fl}]⟩")
    o.append("def layouts : List TypeL :=\n  [" + ",\n   ".join(rows) + "]\n")
    # typed access for the market config
    import gen_market_config
    info = gen_market_config.main()
    mc = {f[0]: f[1] for f in struct("MarketConfig", 16)[2]}
    for f in info["fields"]:
        if f not in mc: die(f"{IDL}: MarketConfig has no field {f} (IDL stale w.r.t. the program source)")
    o[0] = "import Gmx.Gen.MarketConfig\n" + o[0] + "open Gmx.Gen.MarketConfig\n"
    o.append("/-- offset of each factor field inside `MarketConfig` (IDL) -/")
    o.append(L.total_fn("configFieldOffset", "Field", "Nat", [(f, str(mc[f])) for f in info["fields"]]))
    mk = {f[0]: f[1] for f in struct("Market", 16)[2]}
    o.append(f"/-- offset of `config` inside `Market`, and of the flag word inside `MarketConfig` (IDL) -/\ndef marketConfigOffset : Nat := {mk['config']}\ndef configFlagOffset : Nat := {mc['flag']}\n")
    o.append("end Gmx.Gen.Layout\n")
    L.write_if_changed("Layout.lean", "\n".join(o))


if __name__ == "__main__":
    main()
