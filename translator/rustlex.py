"""Tiny Rust front end for the table translators (Python 3, stdlib only).

* `tokenize`  — tokens with line numbers (comments dropped, doc comments kept as `doc` tokens)
* `Src`       — token list + bracket matching + item finders (fn / impl / struct / enum / const)
* `parse_expr`/`parse_block` — recursive-descent parser for the expression subset used by the
  table-like code (paths, field access, calls, method chains, `if`/`match`, blocks with `let`,
  references, literals, tuples, casts, `?`, closures, macros as opaque nodes)

Everything FAILS CLOSED: anything outside the subset raises `Unparsed` with file:line and the
offending token, and the calling translator exits non-zero.

AST (plain tuples):
  ('path', [seg...])            ('lit', text)               ('field', e, name)
  ('call', f, [args])           ('mcall', recv, name, [args])
  ('ref', e)                    ('unop', op, e)             ('binop', op, l, r)
  ('if', cond, blk, else|None)  ('match', scrut, [(pat, guard|None, expr)])
  ('block', [stmt], tail|None)  stmt = ('let', pat, expr|None) | ('expr', e) | ('item', text)
  ('tuple', [e])                ('cast', e, type_text)      ('try', e)
  ('closure', [params], body)   ('macro', name, text)       ('struct', path, [(name, e)], base)
  ('return', e|None)            ('index', e, i)             ('assign', op, lhs, rhs)
patterns:
  ('pwild',) ('pident', name) ('ppath', [seg]) ('plit', text) ('ptuple', [p]) ('por', [p])
  ('pts', [seg], [p])  (tuple-struct pattern)  ('pref', p)  ('pstruct', [seg], text)
"""
import os
import re
import sys


class Unparsed(Exception):
    pass


def die(msg):
    sys.stderr.write("TRANSLATOR-FAIL-CLOSED: " + msg + "\n")
    print("TRANSLATOR-FAIL-CLOSED: " + msg)
    sys.exit(3)


class Tok:
    __slots__ = ("kind", "text", "line")

    def __init__(self, kind, text, line):
        self.kind, self.text, self.line = kind, text, line

    def __repr__(self):
        return f"{self.kind}:{self.text!r}@{self.line}"


PUNCT3 = ("<<=", ">>=", "...", "..=")
PUNCT2 = ("::", "=>", "->", "==", "!=", "<=", ">=", "&&", "||", "..", "+=", "-=", "*=", "/=", "%=", "^=", "&=", "|=", "<<", ">>")
_ident = re.compile(r"[A-Za-z_][A-Za-z0-9_]*")
_num = re.compile(r"(0x[0-9a-fA-F_]+|0b[01_]+|0o[0-7_]+|[0-9][0-9_]*(\.[0-9][0-9_]*)?([eE][+-]?[0-9_]+)?)([iuf](8|16|32|64|128|size))?")


def tokenize(src, fname="?"):
    toks, i, line, n = [], 0, 1, len(src)
    while i < n:
        c = src[i]
        if c == "\n":
            line += 1; i += 1; continue
        if c in " \t\r":
            i += 1; continue
        if src.startswith("//", i):
            j = src.find("\n", i)
            if j < 0: j = n
            text = src[i:j]
            if (text.startswith("///") and not text.startswith("////")) or text.startswith("//!"):
                toks.append(Tok("doc", text[3:].strip(), line))
            i = j; continue
        if src.startswith("/*", i):
            depth, j = 1, i + 2
            while j < n and depth:
                if src.startswith("/*", j): depth += 1; j += 2
                elif src.startswith("*/", j): depth -= 1; j += 2
                else:
                    if src[j] == "\n": line += 1
                    j += 1
            i = j; continue
        if c == '"' or (c == "b" and src.startswith('b"', i)):
            j = i + (2 if c == "b" else 1)
            while j < n and src[j] != '"':
                if src[j] == "\\": j += 1
                if src[j] == "\n": line += 1
                j += 1
            toks.append(Tok("str", src[i:j + 1], line)); i = j + 1; continue
        if c == "r" and re.match(r'r#*"', src[i:i + 8]):
            m = re.match(r'r(#*)"', src[i:])
            end = src.find('"' + m.group(1), i + len(m.group(0)))
            if end < 0: raise Unparsed(f"{fname}:{line}: unterminated raw string")
            text = src[i:end + 1 + len(m.group(1))]
            toks.append(Tok("str", text, line)); line += text.count("\n"); i += len(text); continue
        if c == "'":
            # char literal or lifetime
            m = re.match(r"'(\\.|\\x[0-9a-fA-F]{2}|\\u\{[0-9a-fA-F]+\}|[^'\\])'", src[i:i + 12])
            if m:
                toks.append(Tok("char", m.group(0), line)); i += len(m.group(0)); continue
            m = re.match(r"'[A-Za-z_][A-Za-z0-9_]*", src[i:])
            if m:
                toks.append(Tok("life", m.group(0), line)); i += len(m.group(0)); continue
            raise Unparsed(f"{fname}:{line}: stray quote")
        m = _ident.match(src, i)
        if m:
            toks.append(Tok("id", m.group(0), line)); i = m.end(); continue
        m = _num.match(src, i)
        if m and c.isdigit():
            # do not swallow `1..2` or `x.0.field`
            text = m.group(0)
            if "." in text and (src.startswith("..", i + text.index(".")) or not text[text.index(".") + 1:text.index(".") + 2].isdigit()):
                text = text[:text.index(".")]
            toks.append(Tok("num", text, line)); i += len(text); continue
        for p in PUNCT3 + PUNCT2:
            if src.startswith(p, i):
                toks.append(Tok("p", p, line)); i += len(p); break
        else:
            toks.append(Tok("p", c, line)); i += 1
    return toks


OPEN = {"(": ")", "[": "]", "{": "}"}
CLOSE = {v: k for k, v in OPEN.items()}


class Src:
    """A tokenised Rust file with bracket matching and item finders."""

    def __init__(self, path, root="/repo"):
        self.path = path if os.path.isabs(path) else os.path.join(root, path)
        self.rel = os.path.relpath(self.path, root)
        try:
            self.text = open(self.path).read()
        except OSError as e:
            die(f"cannot read {self.path}: {e}")
        try:
            self.toks = tokenize(self.text, self.rel)
        except Unparsed as e:
            die(str(e))
        self.match = {}
        stack = []
        for i, t in enumerate(self.toks):
            if t.kind != "p": continue
            if t.text in OPEN:
                stack.append(i)
            elif t.text in CLOSE:
                if not stack or self.toks[stack[-1]].text != CLOSE[t.text]:
                    die(f"{self.rel}:{t.line}: unbalanced `{t.text}`")
                j = stack.pop(); self.match[j] = i; self.match[i] = j
        if stack:
            die(f"{self.rel}:{self.toks[stack[-1]].line}: unclosed `{self.toks[stack[-1]].text}`")

    # ---- helpers
    def at(self, i):
        return f"{self.rel}:{self.toks[i].line if i < len(self.toks) else 'EOF'}"

    def text_of(self, lo, hi):
        return " ".join(t.text for t in self.toks[lo:hi] if t.kind != "doc")

    def is_p(self, i, s):
        return i < len(self.toks) and self.toks[i].kind == "p" and self.toks[i].text == s

    def is_id(self, i, s=None):
        return i < len(self.toks) and self.toks[i].kind == "id" and (s is None or self.toks[i].text == s)

    def skip_generics(self, i):
        """toks[i] is `<`: return index after the matching `>` (angle brackets are not in `match`)."""
        depth = 0
        while i < len(self.toks):
            t = self.toks[i]
            if t.kind == "p":
                if t.text == "<": depth += 1
                elif t.text == ">": depth -= 1
                elif t.text == ">>": depth -= 2
                elif t.text == "->": pass
                elif t.text in OPEN: i = self.match[i]
                if depth <= 0 and t.text in (">", ">>"): return i + 1
            i += 1
        die(f"{self.rel}: unterminated generics")

    def attrs_before(self, i):
        """Collect attributes and doc comments immediately preceding token index i (going
        backwards over `pub`, `pub(crate)`, `#[..]`, docs). Returns (docs[list[str]], attrs[list[(lo,hi)]], start)."""
        docs, attrs = [], []
        j = i - 1
        # visibility
        while j >= 0:
            t = self.toks[j]
            if t.kind == "id" and t.text in ("pub", "async", "unsafe", "const", "extern"):
                j -= 1; continue
            if t.kind == "p" and t.text == ")" and self.is_id(self.match[j] - 1, "pub"):
                j = self.match[j] - 2; continue
            break
        while j >= 0:
            t = self.toks[j]
            if t.kind == "doc":
                docs.append(t.text); j -= 1; continue
            if t.kind == "p" and t.text == "]" and self.is_p(self.match[j] - 1, "#"):
                attrs.append((self.match[j] + 1, j)); j = self.match[j] - 2; continue
            break
        docs.reverse(); attrs.reverse()
        return docs, attrs, j + 1

    # ---- items
    def fns(self, lo=0, hi=None, nested=False):
        """Yield dicts for `fn` items whose `fn` keyword lies in [lo,hi) at the top nesting level
        of that range (or any level when nested=True)."""
        hi = len(self.toks) if hi is None else hi
        i = lo
        while i < hi:
            t = self.toks[i]
            if t.kind == "p" and t.text in OPEN and not nested:
                i = self.match[i] + 1; continue
            if t.kind == "id" and t.text == "fn" and self.is_id(i + 1):
                name = self.toks[i + 1].text
                j = i + 2
                if self.is_p(j, "<"): j = self.skip_generics(j)
                if not self.is_p(j, "("): die(f"{self.at(j)}: fn {name}: expected `(`")
                plo, phi = j + 1, self.match[j]
                k = phi + 1
                # return type / where clause up to `{` or `;`
                while k < hi and not (self.is_p(k, "{") or self.is_p(k, ";")):
                    if self.toks[k].kind == "p" and self.toks[k].text in ("(", "["): k = self.match[k]
                    k += 1
                docs, attrs, start = self.attrs_before(i)
                d = dict(name=name, params=(plo, phi), ret=(phi + 1, k), docs=docs, attrs=attrs, line=t.line, kw=i)
                if self.is_p(k, "{"):
                    d["body"] = (k + 1, self.match[k]); i = self.match[k] + 1
                else:
                    d["body"] = None; i = k + 1
                yield d
                continue
            i += 1

    def impls(self):
        """Yield (header_text, body_lo, body_hi) for each top-level-or-module-level `impl` block."""
        i = 0
        while i < len(self.toks):
            t = self.toks[i]
            if t.kind == "id" and t.text == "impl" and not (i > 0 and self.toks[i - 1].kind == "p" and self.toks[i - 1].text in ("<", ",", ":", "+", "(", "->", "&")):
                j = i + 1
                while j < len(self.toks) and not self.is_p(j, "{"):
                    if self.is_p(j, "<"):
                        j = self.skip_generics(j); continue
                    if self.toks[j].kind == "p" and self.toks[j].text in ("(", "["): j = self.match[j]
                    j += 1
                if j >= len(self.toks): break
                yield self.text_of(i + 1, j), j + 1, self.match[j]
                i = self.match[j] + 1; continue
            i += 1

    def find_impl(self, pred, what):
        found = [(h, lo, hi) for h, lo, hi in self.impls() if pred(h)]
        if len(found) != 1:
            die(f"{self.rel}: expected exactly one impl block for {what}, found {len(found)}")
        return found[0]

    def find_fn(self, name, lo=0, hi=None, nested=False):
        found = [f for f in self.fns(lo, hi, nested) if f["name"] == name]
        if len(found) != 1:
            die(f"{self.rel}: expected exactly one fn `{name}` in tokens [{lo},{hi}), found {len(found)}")
        return found[0]

    def _item_body(self, kw, name):
        for i, t in enumerate(self.toks):
            if t.kind == "id" and t.text == kw and self.is_id(i + 1, name):
                j = i + 2
                if self.is_p(j, "<"): j = self.skip_generics(j)
                while j < len(self.toks) and not (self.is_p(j, "{") or self.is_p(j, ";") or self.is_p(j, "(")):
                    j += 1
                if self.is_p(j, "{"):
                    return i, j + 1, self.match[j]
        die(f"{self.rel}: {kw} {name} not found")

    def struct_fields(self, name):
        """[(field, type_text, docs)] of a braced struct."""
        kw, lo, hi = self._item_body("struct", name)
        out, i = [], lo
        while i < hi:
            docs = []
            while i < hi and (self.toks[i].kind == "doc" or self.is_p(i, "#")):
                if self.toks[i].kind == "doc":
                    docs.append(self.toks[i].text); i += 1
                else:
                    i = self.match[i + 1] + 1
            if i >= hi: break
            if self.is_id(i, "pub"):
                i += 1
                if self.is_p(i, "("): i = self.match[i] + 1
            if not (self.is_id(i) and self.is_p(i + 1, ":")):
                die(f"{self.at(i)}: struct {name}: cannot classify field starting at `{self.toks[i].text}`")
            fname = self.toks[i].text
            j = i + 2
            depth = 0
            while j < hi:
                t = self.toks[j]
                if t.kind == "p":
                    if t.text in OPEN: j = self.match[j]
                    elif t.text == "<": depth += 1
                    elif t.text == ">": depth -= 1
                    elif t.text == ">>": depth -= 2
                    elif t.text == "," and depth <= 0: break
                j += 1
            out.append((fname, self.text_of(i + 2, j), docs))
            i = j + 1
        return out

    def enum_variants(self, name, allow_data=False):
        """[(variant, explicit_discriminant|None, docs, attrs_text)] in declaration order."""
        kw, lo, hi = self._item_body("enum", name)
        out, i = [], lo
        while i < hi:
            docs, attrs = [], []
            while i < hi and (self.toks[i].kind == "doc" or self.is_p(i, "#")):
                if self.toks[i].kind == "doc":
                    docs.append(self.toks[i].text); i += 1
                else:
                    attrs.append(self.text_of(i + 2, self.match[i + 1])); i = self.match[i + 1] + 1
            if i >= hi: break
            if not self.is_id(i):
                die(f"{self.at(i)}: enum {name}: cannot classify variant starting at `{self.toks[i].text}`")
            v = self.toks[i].text
            i += 1
            disc = None
            if self.is_p(i, "(") or self.is_p(i, "{"):
                if not allow_data:
                    die(f"{self.at(i)}: enum {name}: variant {v} carries data (not a plain table enum)")
                i = self.match[i] + 1
            if self.is_p(i, "="):
                j = i + 1
                while j < hi and not self.is_p(j, ","): j += 1
                disc = self.text_of(i + 1, j); i = j
            if self.is_p(i, ","): i += 1
            elif i < hi:
                die(f"{self.at(i)}: enum {name}: unexpected `{self.toks[i].text}` after variant {v}")
            out.append((v, disc, docs, attrs))
        return kw, out

    def enum_attrs(self, name):
        kw, _, _ = self._item_body("enum", name)
        docs, attrs, _ = self.attrs_before(kw)
        return [self.text_of(lo, hi) for lo, hi in attrs]

    def consts(self):
        """{NAME: (type_text, (expr_lo, expr_hi), docs)} for `const NAME: T = expr;` at any level."""
        out = {}
        for i, t in enumerate(self.toks):
            if t.kind == "id" and t.text == "const" and self.is_id(i + 1) and self.is_p(i + 2, ":"):
                name = self.toks[i + 1].text
                j = i + 3
                while j < len(self.toks) and not self.is_p(j, "="):
                    if self.is_p(j, ";"): break
                    if self.toks[j].kind == "p" and self.toks[j].text in OPEN: j = self.match[j]
                    j += 1
                if not self.is_p(j, "="): continue
                k = j + 1
                while k < len(self.toks) and not self.is_p(k, ";"):
                    if self.toks[k].kind == "p" and self.toks[k].text in OPEN: k = self.match[k]
                    k += 1
                docs, _, _ = self.attrs_before(i)
                if name in out:
                    die(f"{self.at(i)}: const {name} defined twice in one file")
                out[name] = (self.text_of(i + 3, j), (j + 1, k), docs)
        return out

    # ---- expression parsing
    def parse_expr(self, lo, hi):
        p = Parser(self, lo, hi)
        e = p.expr()
        if p.i != hi:
            p.fail("trailing tokens after expression")
        return e

    def parse_block(self, lo, hi):
        """Parse the statements between (not including) braces."""
        p = Parser(self, lo, hi)
        b = p.block_items()
        if p.i != hi:
            p.fail("trailing tokens in block")
        return b

    def split_commas(self, lo, hi):
        """Top-level comma split of tokens [lo,hi) → list of (lo,hi)."""
        out, i, start, depth = [], lo, lo, 0
        while i < hi:
            t = self.toks[i]
            if t.kind == "p":
                if t.text in OPEN: i = self.match[i]
                elif t.text == "<": depth += 1
                elif t.text == ">" and depth > 0: depth -= 1
                elif t.text == "," and depth == 0:
                    out.append((start, i)); start = i + 1
            i += 1
        if start < hi: out.append((start, hi))
        return out


BINOPS = [
    ("||",), ("&&",), ("==", "!=", "<", ">", "<=", ">="), ("|",), ("^",), ("&",), ("<<", ">>"),
    ("+", "-"), ("*", "/", "%"),
]
ASSIGN = ("=", "+=", "-=", "*=", "/=", "%=", "^=", "&=", "|=", "<<=", ">>=")


class Parser:
    def __init__(self, src, lo, hi):
        self.s, self.i, self.hi = src, lo, hi

    # -- token helpers
    def fail(self, msg):
        t = self.s.toks[self.i] if self.i < self.hi else None
        raise Unparsed(f"{self.s.rel}:{t.line if t else 'end'}: {msg} (at `{t.text if t else '<end>'}`)")

    def peek(self, k=0):
        j = self.i + k
        return self.s.toks[j] if j < self.hi else None

    def skip_docs(self):
        while self.i < self.hi and self.s.toks[self.i].kind == "doc": self.i += 1

    def isp(self, s, k=0):
        t = self.peek(k); return t is not None and t.kind == "p" and t.text == s

    def isid(self, s=None, k=0):
        t = self.peek(k); return t is not None and t.kind == "id" and (s is None or t.text == s)

    def eat(self, s):
        if not (self.isp(s) or self.isid(s)): self.fail(f"expected `{s}`")
        self.i += 1

    # -- types (only skipped/recorded as text)
    def type_text(self):
        start = self.i
        depth = 0
        while self.i < self.hi:
            t = self.peek()
            if t.kind == "p":
                if t.text in ("(", "["): self.i = self.s.match[self.i] + 1; continue
                if t.text == "<": depth += 1
                elif t.text == ">":
                    if depth == 0: break
                    depth -= 1
                elif t.text == ">>":
                    if depth < 2: break
                    depth -= 2
                elif t.text in ("::", "&", "*", "->", "+", "!") or (t.text == "," and depth > 0): pass
                elif depth == 0: break
            elif t.kind in ("id", "life", "num"):
                # two identifiers in a row at depth 0 end the type (except `dyn X`, `impl X`, `mut X`, `as`)
                prev = self.s.toks[self.i - 1] if self.i > start else None
                if depth == 0 and prev is not None and prev.kind == "id" and prev.text not in ("dyn", "impl", "mut", "const"): break
            else:
                break
            self.i += 1
        if self.i == start: self.fail("expected a type")
        return self.s.text_of(start, self.i)

    # -- paths
    def path(self):
        segs = []
        if self.isp("::"): self.i += 1
        if self.isp("<"):  # qualified path <T as Trait>::x
            end = self.s.skip_generics(self.i)
            segs.append(self.s.text_of(self.i, end)); self.i = end
        else:
            if not self.isid(): self.fail("expected path")
            segs.append(self.peek().text); self.i += 1
        while self.isp("::"):
            if self.isp("<", 1):
                self.i = self.s.skip_generics(self.i + 1)  # turbofish dropped
                continue
            if self.isid(None, 1):
                segs.append(self.peek(1).text); self.i += 2
            else:
                break
        return segs

    # -- patterns
    def pattern(self):
        alts = [self.pattern1()]
        while self.isp("|"):
            self.i += 1; alts.append(self.pattern1())
        return alts[0] if len(alts) == 1 else ("por", alts)

    def pattern1(self):
        t = self.peek()
        if t is None: self.fail("expected pattern")
        if t.kind == "p" and t.text == "&":
            self.i += 1
            if self.isid("mut"): self.i += 1
            return ("pref", self.pattern1())
        if t.kind == "p" and t.text == "(":
            end = self.s.match[self.i]
            parts = [Parser(self.s, a, b).pattern_all() for a, b in self.s.split_commas(self.i + 1, end)]
            self.i = end + 1
            return ("ptuple", parts)
        if t.kind == "p" and t.text == "[":
            end = self.s.match[self.i]; txt = self.s.text_of(self.i, end + 1); self.i = end + 1
            return ("pslice", txt)
        if t.kind in ("num", "str", "char") or (t.kind == "p" and t.text == "-"):
            if t.text == "-": self.i += 1
            txt = self.peek().text; self.i += 1
            return ("plit", ("-" if t.text == "-" else "") + txt)
        if t.kind == "id":
            if t.text == "_":
                self.i += 1; return ("pwild",)
            if t.text in ("true", "false"):
                self.i += 1; return ("plit", t.text)
            if t.text in ("ref", "mut"):
                self.i += 1; return self.pattern1()
            segs = self.path()
            if self.isp("("):
                end = self.s.match[self.i]
                parts = [Parser(self.s, a, b).pattern_all() for a, b in self.s.split_commas(self.i + 1, end)]
                self.i = end + 1
                return ("pts", segs, parts)
            if self.isp("{"):
                end = self.s.match[self.i]; txt = self.s.text_of(self.i + 1, end); self.i = end + 1
                return ("pstruct", segs, txt)
            if self.isp("@"):
                self.i += 1; return self.pattern1()
            if len(segs) == 1 and (segs[0][0].islower() or segs[0][0] == "_"):
                return ("pident", segs[0])
            return ("ppath", segs)
        if t.kind == "p" and t.text == "..":
            self.i += 1; return ("prest",)
        self.fail("cannot classify pattern")

    def pattern_all(self):
        p = self.pattern()
        if self.i != self.hi: self.fail("trailing tokens in pattern")
        return p

    # -- blocks
    def block(self):
        if not self.isp("{"): self.fail("expected `{`")
        end = self.s.match[self.i]
        p = Parser(self.s, self.i + 1, end)
        b = p.block_items()
        if p.i != end: p.fail("trailing tokens in block")
        self.i = end + 1
        return b

    def block_items(self):
        stmts, tail = [], None
        while self.i < self.hi:
            self.skip_docs()
            if self.i >= self.hi: break
            if self.isp(";"):
                self.i += 1; continue
            if self.isp("#"):  # attribute on statement
                self.i = self.s.match[self.i + 1] + 1; continue
            if self.isid("let"):
                self.i += 1
                pat = self.pattern()
                if self.isp(":"):
                    self.i += 1; self.type_text()
                init = None
                if self.isp("="):
                    self.i += 1; init = self.expr()
                if self.isid("else"):
                    self.i += 1; self.block()
                self.eat(";")
                stmts.append(("let", pat, init)); continue
            if self.isid("use") or self.isid("const") or self.isid("struct") or self.isid("impl") or self.isid("fn") or self.isid("type") or self.isid("static"):
                # nested item: skip to its end
                start = self.i
                while self.i < self.hi and not (self.isp(";") or self.isp("{")):
                    if self.isp("<") and (self.isid("impl", -1) or self.isid(None, -1)):
                        self.i = self.s.skip_generics(self.i); continue
                    if self.peek().kind == "p" and self.peek().text in ("(", "["): self.i = self.s.match[self.i]
                    self.i += 1
                if self.isp("{"): self.i = self.s.match[self.i]
                self.i += 1
                stmts.append(("item", self.s.text_of(start, self.i))); continue
            e = self.expr(stmt=True)
            if self.isp(";"):
                self.i += 1; stmts.append(("expr", e)); continue
            if self.i >= self.hi:
                tail = e; break
            if e[0] in ("if", "match", "block", "for", "while", "loop", "unsafe"):
                stmts.append(("expr", e)); continue
            self.fail("expected `;` or end of block")
        return ("block", stmts, tail)

    # -- expressions
    def expr(self, nostruct=False, stmt=False):
        e = self.range_expr(nostruct, stmt)
        if self.peek() is not None and self.peek().kind == "p" and self.peek().text in ASSIGN:
            op = self.peek().text; self.i += 1
            r = self.expr(nostruct)
            return ("assign", op, e, r)
        return e

    def range_expr(self, nostruct, stmt=False):
        if self.isp("..") or self.isp("..="):
            op = self.peek().text; self.i += 1
            if self.i < self.hi and not (self.isp(")") or self.isp("]") or self.isp(",") or self.isp(";")):
                return ("unop", op, self.binary(0, nostruct))
            return ("lit", op)
        e = self.binary(0, nostruct, stmt)
        if self.isp("..") or self.isp("..="):
            op = self.peek().text; self.i += 1
            if self.i < self.hi and not (self.isp(")") or self.isp("]") or self.isp(",") or self.isp(";") or self.isp("{")):
                return ("binop", op, e, self.binary(0, nostruct))
            return ("unop", op + "post", e)
        return e

    def binary(self, level, nostruct, stmt=False):
        if level == len(BINOPS):
            return self.cast(nostruct, stmt)
        l = self.binary(level + 1, nostruct, stmt)
        # a statement-position block-like expression is not continued by a binary operator
        if stmt and l[0] in ("if", "match", "block") : return l
        while self.peek() is not None and self.peek().kind == "p" and self.peek().text in BINOPS[level]:
            op = self.peek().text
            self.i += 1
            r = self.binary(level + 1, nostruct)
            l = ("binop", op, l, r)
        return l

    def cast(self, nostruct, stmt=False):
        e = self.unary(nostruct, stmt)
        while self.isid("as"):
            self.i += 1
            e = ("cast", e, self.type_text())
        return e

    def unary(self, nostruct, stmt=False):
        t = self.peek()
        if t is None: self.fail("expected expression")
        if t.kind == "p" and t.text in ("&", "&&"):
            self.i += 1
            if self.isid("mut"): self.i += 1
            e = ("ref", self.unary(nostruct))
            return ("ref", e) if t.text == "&&" else e
        if t.kind == "p" and t.text in ("-", "!", "*"):
            self.i += 1
            return ("unop", t.text, self.unary(nostruct))
        return self.postfix(self.primary(nostruct), nostruct, stmt)

    def args(self):
        """self.i at `(`; returns list of parsed args, moves past `)`."""
        end = self.s.match[self.i]
        out = []
        p = Parser(self.s, self.i + 1, end)
        while True:
            p.skip_docs()
            if p.i >= end: break
            out.append(p.expr())
            if p.i >= end: break
            p.eat(",")
        self.i = end + 1
        return out

    def postfix(self, e, nostruct, stmt=False):
        if stmt and e[0] in ("if", "match", "block") and not self.isp(".") and not self.isp("?"):
            return e
        while True:
            if self.isp("?"):
                self.i += 1; e = ("try", e); continue
            if self.isp("("):
                e = ("call", e, self.args()); continue
            if self.isp("["):
                end = self.s.match[self.i]
                idx = self.s.parse_expr(self.i + 1, end); self.i = end + 1
                e = ("index", e, idx); continue
            if self.isp("."):
                t = self.peek(1)
                if t is None: self.fail("dangling `.`")
                if t.kind == "id" and t.text == "await":
                    self.i += 2; e = ("await", e); continue
                if t.kind == "id":
                    name = t.text; self.i += 2
                    if self.isp("::") and self.isp("<", 1):
                        self.i = self.s.skip_generics(self.i + 1)
                    if self.isp("("):
                        e = ("mcall", e, name, self.args())
                    else:
                        e = ("field", e, name)
                    continue
                if t.kind == "num":
                    self.i += 2; e = ("field", e, t.text); continue
                self.fail("cannot classify postfix `.`")
            return e

    def primary(self, nostruct):
        t = self.peek()
        if t.kind in ("num", "str", "char"):
            self.i += 1; return ("lit", t.text)
        if t.kind == "life":  # labelled block/loop
            self.i += 1; self.eat(":"); return self.primary(nostruct)
        if t.kind == "p":
            if t.text == "(":
                end = self.s.match[self.i]
                parts = self.s.split_commas(self.i + 1, end)
                trailing_comma = end > self.i + 1 and self.s.is_p(end - 1, ",")
                items = [self.s.parse_expr(a, b) for a, b in parts]
                self.i = end + 1
                if len(items) == 1 and not trailing_comma: return items[0]
                return ("tuple", items)
            if t.text == "[":
                end = self.s.match[self.i]
                txt = self.s.text_of(self.i + 1, end)
                # array literal: keep elements when it is a plain list
                semi = any(self.s.is_p(k, ";") for k in range(self.i + 1, end) if True)
                if semi:
                    self.i = end + 1; return ("array_rep", txt)
                items = [self.s.parse_expr(a, b) for a, b in self.s.split_commas(self.i + 1, end)]
                self.i = end + 1
                return ("array", items)
            if t.text == "{":
                return self.block()
            if t.text in ("|", "||"):
                params = []
                if t.text == "|":
                    j = self.i + 1
                    start = j
                    while j < self.hi and not self.s.is_p(j, "|"):
                        if self.s.toks[j].kind == "p" and self.s.toks[j].text in OPEN: j = self.s.match[j]
                        j += 1
                    params = [self.s.text_of(a, b) for a, b in self.s.split_commas(start, j)]
                    self.i = j + 1
                else:
                    self.i += 1
                if self.isp("->"):
                    self.i += 1; self.type_text()
                    body = self.block()
                else:
                    body = self.expr()
                return ("closure", params, body)
            if t.text == "<" or t.text == "::":
                segs = self.path()
                return ("path", segs)
            self.fail("cannot classify expression")
        if t.kind == "doc":
            self.i += 1; return self.primary(nostruct)
        # identifiers / keywords
        if t.text == "if":
            self.i += 1
            if self.isid("let"):
                self.i += 1
                pat = self.pattern(); self.eat("=")
                scrut = self.expr(nostruct=True)
                cond = ("iflet", pat, scrut)
                while self.isp("&&"):
                    self.i += 1
                    cond = ("binop", "&&", cond, self.binary(2, True))
            else:
                cond = self.expr(nostruct=True)
            then = self.block()
            els = None
            if self.isid("else"):
                self.i += 1
                els = self.primary(nostruct) if self.isid("if") else self.block()
            return ("if", cond, then, els)
        if t.text == "match":
            self.i += 1
            scrut = self.expr(nostruct=True)
            if not self.isp("{"): self.fail("expected `{` after match scrutinee")
            end = self.s.match[self.i]
            p = Parser(self.s, self.i + 1, end)
            arms = []
            while p.i < end:
                p.skip_docs()
                while p.isp("#"):
                    p.i = p.s.match[p.i + 1] + 1
                if p.i >= end: break
                if p.isp("|"): p.i += 1
                pat = p.pattern()
                guard = None
                if p.isid("if"):
                    p.i += 1; guard = p.expr(nostruct=False)
                p.eat("=>")
                body = p.expr(stmt=True)
                if p.isp(","): p.i += 1
                elif p.i < end and body[0] not in ("block", "if", "match"):
                    p.fail("expected `,` after match arm")
                arms.append((pat, guard, body))
            self.i = end + 1
            return ("match", scrut, arms)
        if t.text in ("unsafe", "async"):
            self.i += 1
            if self.isid("move"): self.i += 1
            return ("unsafe", self.block())
        if t.text == "loop":
            self.i += 1; return ("loop", self.block())
        if t.text == "while":
            self.i += 1
            if self.isid("let"):
                self.i += 1; self.pattern(); self.eat("=")
            c = self.expr(nostruct=True); return ("while", c, self.block())
        if t.text == "for":
            self.i += 1
            pat = self.pattern(); self.eat("in")
            it = self.expr(nostruct=True)
            return ("for", pat, it, self.block())
        if t.text == "return":
            self.i += 1
            if self.i >= self.hi or self.isp(";") or self.isp(",") or self.isp("}"): return ("return", None)
            return ("return", self.expr(nostruct))
        if t.text in ("break", "continue"):
            self.i += 1
            if self.peek() is not None and self.peek().kind == "life": self.i += 1
            if self.i >= self.hi or self.isp(";") or self.isp(",") or self.isp("}"): return (t.text, None)
            return (t.text, self.expr(nostruct))
        if t.text == "move":
            self.i += 1; return self.primary(nostruct)
        if t.text in ("true", "false"):
            self.i += 1; return ("lit", t.text)
        segs = self.path()
        if self.isp("!") and not self.isp("=", 1) and self.peek(1) is not None and self.peek(1).kind == "p" and self.peek(1).text in OPEN:
            end = self.s.match[self.i + 1]
            txt = self.s.text_of(self.i + 2, end)
            rng = (self.i + 2, end)
            self.i = end + 1
            return ("macro", "::".join(segs), txt, rng)
        if self.isp("{") and not nostruct and (segs[-1][0].isupper() or segs[-1] == "Self"):
            end = self.s.match[self.i]
            fields, base = [], None
            for a, b in self.s.split_commas(self.i + 1, end):
                while a < b and (self.s.toks[a].kind == "doc"): a += 1
                if self.s.is_p(a, "#"): a = self.s.match[a + 1] + 1
                if self.s.is_p(a, ".."):
                    base = self.s.parse_expr(a + 1, b) if a + 1 < b else ("lit", "..")
                    continue
                if not self.s.is_id(a): raise Unparsed(f"{self.s.at(a)}: cannot classify struct literal field")
                if a + 1 == b:
                    fields.append((self.s.toks[a].text, ("path", [self.s.toks[a].text])))
                else:
                    if not self.s.is_p(a + 1, ":"): raise Unparsed(f"{self.s.at(a)}: cannot classify struct literal field")
                    fields.append((self.s.toks[a].text, self.s.parse_expr(a + 2, b)))
            self.i = end + 1
            return ("struct", segs, fields, base)
        return ("path", segs)


# ---------------------------------------------------------------- small AST helpers

def strip_ref(e):
    while e[0] == "ref" or (e[0] == "unop" and e[1] == "*"):
        e = e[1] if e[0] == "ref" else e[2]
    return e


def is_path(e, *segs):
    return e[0] == "path" and e[1] == list(segs)


def path_last(e):
    return e[1][-1] if e[0] == "path" else None


def show(e, depth=0):
    """Compact rendering of an AST node for error messages."""
    if depth > 6: return "…"
    k = e[0]
    if k == "path": return "::".join(e[1])
    if k == "lit": return e[1]
    if k == "field": return f"{show(e[1], depth+1)}.{e[2]}"
    if k == "call": return f"{show(e[1], depth+1)}({', '.join(show(a, depth+1) for a in e[2])})"
    if k == "mcall": return f"{show(e[1], depth+1)}.{e[2]}({', '.join(show(a, depth+1) for a in e[3])})"
    if k == "ref": return "&" + show(e[1], depth + 1)
    if k == "try": return show(e[1], depth + 1) + "?"
    if k == "if": return f"if {show(e[1], depth+1)} {{…}}"
    if k == "match": return f"match {show(e[1], depth+1)} {{…}}"
    if k == "block": return "{…}"
    if k == "binop": return f"({show(e[2], depth+1)} {e[1]} {show(e[3], depth+1)})"
    if k == "unop": return f"{e[1]}{show(e[2], depth+1)}"
    if k == "macro": return f"{e[1]}!(…)"
    if k == "tuple": return "(" + ", ".join(show(a, depth + 1) for a in e[1]) + ")"
    return k


def snake_case(camel):
    """strum/serde `snake_case` of a CamelCase variant (heck-style word boundaries)."""
    out = []
    for i, c in enumerate(camel):
        if c.isupper():
            prev = camel[i - 1] if i > 0 else ""
            nxt = camel[i + 1] if i + 1 < len(camel) else ""
            if i > 0 and (prev.islower() or prev.isdigit() or (prev.isupper() and nxt.islower())):
                out.append("_")
            out.append(c.lower())
        else:
            out.append(c)
    return "".join(out)
