import Gmx.Driver.Num
/-! `gmxdriver`: one request per line on stdin, one response per line on stdout. -/
open Gmx.Drv

def dispatch (line : String) : String :=
  match line.trimAscii.toString.splitOn " " with
  | "num" :: rest => numEngine rest
  | _ => "bad-op"

partial def loop (h : IO.FS.Stream) (out : IO.FS.Stream) : IO Unit := do
  let line ← h.getLine
  if line.isEmpty then return ()
  out.putStrLn (dispatch line)
  loop h out

def main : IO Unit := do
  let out ← IO.getStdout
  loop (← IO.getStdin) out
  out.flush
