import Gmx.Model.TxPack
/-! Helper lemmas for C41: counting over the key universe, the `windows(2)` loops. -/
namespace Gmx.TxPack

/-! ### counting -/

theorem countP_ext {α} (l : List α) (p q : α → Bool) (h : ∀ x, p x = q x) :
    l.countP p = l.countP q := by
  have : p = q := funext h
  rw [this]

theorem countP_split {α} (l : List α) (p q r : α → Bool)
    (h : ∀ x, p x = (q x || r x)) (hd : ∀ x, ¬ (q x = true ∧ r x = true)) :
    l.countP p = l.countP q + l.countP r := by
  induction l with
  | nil => simp
  | cons a t ih =>
    simp only [List.countP_cons, ih, h a]
    have := hd a
    cases hq : q a <;> cases hr : r a <;> simp_all <;> omega

theorem countP_false {α} (l : List α) (p : α → Bool) (h : ∀ x, p x = false) : l.countP p = 0 := by
  induction l with
  | nil => simp
  | cons a t ih => simp [List.countP_cons, ih, h a]

theorem countP_add_not {α} (l : List α) (p : α → Bool) :
    l.countP p + l.countP (fun x => !p x) = l.length := by
  induction l with
  | nil => simp
  | cons a t ih =>
    simp only [List.countP_cons, List.length_cons]
    cases p a <;> simp <;> omega

theorem canFinal_imp : ∀ (ts : List (List Nat)) (can : Nat → Bool) (k : Nat),
    canFinal can ts k = true → can k = true
  | [], _, _, h => h
  | t :: ts, can, k, h => by
    have := canFinal_imp ts _ k h
    simp at this; exact this.1

def statsSum (stats : List (Nat × Nat)) : Nat := (stats.map (fun s => s.1 + s.2)).sum

/-- the tables resolve exactly the keys that were available and are no longer. -/
theorem statsSum_tableStats (K : List Nat) (w : Nat → Bool) :
    ∀ (ts : List (List Nat)) (can : Nat → Bool),
      statsSum (tableStats K w can ts) = K.countP (fun k => can k && !canFinal can ts k)
  | [], can => by
    simp only [tableStats, statsSum, canFinal, List.map_nil, List.sum_nil]
    exact (countP_false K _ (fun x => by cases can x <;> rfl)).symm
  | t :: ts, can => by
    have ih := statsSum_tableStats K w ts (fun k => can k && !t.contains k)
    simp only [tableStats, canFinal, statsSum, List.map_cons, List.sum_cons] at ih ⊢
    rw [ih]
    have h1 : K.countP (fun k => can k && t.contains k) =
        K.countP (fun k => can k && t.contains k && w k) +
        K.countP (fun k => can k && t.contains k && !w k) :=
      countP_split K _ _ _ (fun x => by cases can x <;> cases t.contains x <;> cases w x <;> rfl)
        (fun x => by cases w x <;> simp)
    rw [← h1]
    refine (countP_split K _ _ _ (fun x => ?_) (fun x => ?_)).symm
    · have := canFinal_imp ts (fun k => can k && !t.contains k) x
      cases hc : can x <;> cases ht : t.contains x <;>
        cases hf : canFinal (fun k => can k && !t.contains k) ts x <;> simp_all
    · cases t.contains x <;> simp

theorem compactLen_pos (n : Nat) : 1 ≤ compactLen n := by
  unfold compactLen; split <;> (try split) <;> omega

theorem compactLen_small (n : Nat) (h : n ≤ 127) : compactLen n = 1 := by
  unfold compactLen; simp [h]

def usedBytes (used : List (Nat × Nat)) : Nat :=
  (used.map (fun s => 32 + compactLen s.1 + s.1 + compactLen s.2 + s.2)).sum

/-- the estimate's booking (34 bytes per used table + one byte per resolved key) never exceeds
the real lookup section. -/
theorem booked_le_usedBytes : ∀ (stats : List (Nat × Nat)),
    (usedTables stats).length * 34 + statsSum stats ≤ usedBytes (usedTables stats)
  | [] => by simp [usedTables, statsSum, usedBytes]
  | s :: rest => by
    have ih := booked_le_usedBytes rest
    unfold usedTables statsSum usedBytes at *
    by_cases h : s.1 + s.2 > 0
    · simp only [List.filter_cons, h, decide_true, if_true, List.length_cons, List.map_cons, List.sum_cons]
      have a := compactLen_pos s.1
      have b := compactLen_pos s.2
      omega
    · simp only [List.filter_cons, h, decide_false, List.map_cons, List.sum_cons]
      simp only [Bool.false_eq_true, if_false]
      omega

/-- …and is exact when every index list is shorter than 128. -/
theorem booked_eq_usedBytes : ∀ (stats : List (Nat × Nat)),
    (∀ s ∈ stats, s.1 ≤ 127 ∧ s.2 ≤ 127) →
    (usedTables stats).length * 34 + statsSum stats = usedBytes (usedTables stats)
  | [], _ => by simp [usedTables, statsSum, usedBytes]
  | s :: rest, hg => by
    have ih := booked_eq_usedBytes rest (fun x hx => hg x (List.mem_cons_of_mem _ hx))
    have hs := hg s (List.mem_cons_self ..)
    unfold usedTables statsSum usedBytes at *
    by_cases h : s.1 + s.2 > 0
    · simp only [List.filter_cons, h, decide_true, if_true, List.length_cons, List.map_cons, List.sum_cons]
      rw [compactLen_small _ hs.1, compactLen_small _ hs.2]
      omega
    · simp only [List.filter_cons, h, decide_false, List.map_cons, List.sum_cons]
      simp only [Bool.false_eq_true, if_false]
      omega

/-- static keys of the wire format = the estimate's account set after the tables. -/
theorem nStatic_eq_nAfter (payer : Nat) (ixs : List Ix) (ts : List (List Nat)) :
    nStatic payer ixs ts = nAfter payer ixs ts := by
  unfold nStatic nAfter
  apply countP_ext
  intro k
  have := canFinal_imp ts (can0 payer ixs) k
  unfold can0 at *
  cases h1 : isInvoked ixs k <;> cases h2 : isSigner payer ixs k <;>
    cases h3 : canFinal (fun k => !isInvoked ixs k && !isSigner payer ixs k) ts k <;> simp_all

/-- the estimate's `total_accounts - accounts.len()` = number of resolved keys. -/
theorem lookups_eq_statsSum (payer : Nat) (ixs : List Ix) (ts : List (List Nat)) :
    (keysOf payer ixs).length - nAfter payer ixs ts = statsSum (lutStats payer ixs ts) := by
  unfold lutStats
  rw [statsSum_tableStats]
  have h := countP_add_not (keysOf payer ixs)
    (fun k => canFinal (can0 payer ixs) ts k || isSigner payer ixs k || isInvoked ixs k)
  have e : (keysOf payer ixs).countP (fun k => can0 payer ixs k && !canFinal (can0 payer ixs) ts k) =
      (keysOf payer ixs).countP
        (fun x => !(canFinal (can0 payer ixs) ts x || isSigner payer ixs x || isInvoked ixs x)) := by
    apply countP_ext
    intro k
    have := canFinal_imp ts (can0 payer ixs) k
    unfold can0 at *
    cases h1 : isInvoked ixs k <;> cases h2 : isSigner payer ixs k <;>
      cases h3 : canFinal (fun k => !isInvoked ixs k && !isSigner payer ixs k) ts k <;> simp_all
  rw [e]
  unfold nAfter
  omega

/-- applying the tables one after the other removes exactly the keys of their union. -/
theorem canFinal_flatten : ∀ (ts : List (List Nat)) (can : Nat → Bool) (k : Nat),
    canFinal can ts k = (can k && !(ts.flatten).contains k)
  | [], can, k => by simp [canFinal]
  | t :: ts, can, k => by
    rw [canFinal, canFinal_flatten ts]
    cases can k <;> cases h1 : t.contains k <;> cases h2 : (ts.flatten).contains k <;>
      simp_all [List.flatten_cons]

/-- the `HashSet` variant computes the same account set as the per-table variant on the tables'
union. -/
theorem nAfter_eq_set (payer : Nat) (ixs : List Ix) (ts : List (List Nat)) :
    nAfter payer ixs ts = (keysOf payer ixs).countP
      (fun k => !(ts.flatten).contains k || isSigner payer ixs k || isInvoked ixs k) := by
  unfold nAfter
  apply countP_ext
  intro k
  rw [canFinal_flatten]
  unfold can0
  cases isInvoked ixs k <;> cases isSigner payer ixs k <;> cases (ts.flatten).contains k <;> rfl

theorem usedTables_length_le (stats : List (Nat × Nat)) : (usedTables stats).length ≤ stats.length :=
  List.length_filter_le _ _

theorem tableStats_length (K : List Nat) (w : Nat → Bool) : ∀ (ts : List (List Nat)) (can : Nat → Bool),
    (tableStats K w can ts).length = ts.length
  | [], _ => rfl
  | t :: ts, can => by simp [tableStats, tableStats_length K w ts]

/-! ### infix helpers -/

theorem infix_append_right {α} {l a : List α} (b : List α) (h : l <:+: a) : l <:+: a ++ b := by
  obtain ⟨s, t, rfl⟩ := h
  exact ⟨s, t ++ b, by simp [List.append_assoc]⟩

theorem infix_append_left {α} {l b : List α} (a : List α) (h : l <:+: b) : l <:+: a ++ b := by
  obtain ⟨s, t, rfl⟩ := h
  exact ⟨a ++ s, t, by simp [List.append_assoc]⟩

/-! ### the atomic-group loop -/

theorem optimizable_spec (o : Opts) (allow : Bool) (x y : AG) :
    optimizable o allow x y = true ↔
      x.mergeable = true ∧ y.mergeable = true ∧ (allow = true ∨ x.payer = y.payer) ∧
      x.ixs.length + y.ixs.length ≤ o.maxIx ∧ sizeAfterMerge o x y ≤ o.maxSize := by
  unfold optimizable
  cases hx : x.mergeable <;> cases hy : y.mergeable <;> cases allow <;> simp <;>
    (try by_cases hp : x.payer = y.payer) <;> simp_all <;> omega

theorem size_merge (o : Opts) (x y : AG) :
    (x.merge y).size o.memo o.luts = sizeAfterMerge o x y := by
  simp [AG.size, AG.allIxs, AG.merge, sizeAfterMerge, List.append_assoc]

theorem flattenAGs_cons (g : AG) (gs : List AG) : flattenAGs (g :: gs) = g.ixs ++ flattenAGs gs := by
  simp [flattenAGs]

theorem taggedAGs_cons (g : AG) (gs : List AG) :
    taggedAGs (g :: gs) = g.ixs.map (fun i => (g.payer, i)) ++ taggedAGs gs := by
  simp [taggedAGs]

theorem optLoop_flatten (o : Opts) (allow : Bool) : ∀ (rest : List AG) (cur : AG),
    flattenAGs (optLoop o allow cur rest).1 = cur.ixs ++ flattenAGs rest
  | [], cur => by simp [optLoop, flattenAGs]
  | nxt :: rest, cur => by
    unfold optLoop
    by_cases h1 : cur.ixs.isEmpty
    · rw [if_pos h1]
      have e : cur.ixs = [] := by simpa using h1
      show flattenAGs (cur :: (optLoop o allow nxt rest).1) = _
      rw [flattenAGs_cons, optLoop_flatten o allow rest nxt, flattenAGs_cons]
    · rw [if_neg h1]
      by_cases h2 : optimizable o allow cur nxt
      · rw [if_pos h2]
        show flattenAGs (emptyAG :: (optLoop o allow (cur.merge nxt) rest).1) = _
        rw [flattenAGs_cons, optLoop_flatten o allow rest (cur.merge nxt), flattenAGs_cons]
        simp [emptyAG, AG.merge, List.append_assoc]
      · rw [if_neg h2]
        show flattenAGs (cur :: (optLoop o allow nxt rest).1) = _
        rw [flattenAGs_cons, optLoop_flatten o allow rest nxt, flattenAGs_cons]

/-- without permission to change payers every instruction keeps the payer it was given. -/
theorem optLoop_tagged (o : Opts) : ∀ (rest : List AG) (cur : AG),
    taggedAGs (optLoop o false cur rest).1 = cur.ixs.map (fun i => (cur.payer, i)) ++ taggedAGs rest
  | [], cur => by simp [optLoop, taggedAGs]
  | nxt :: rest, cur => by
    unfold optLoop
    by_cases h1 : cur.ixs.isEmpty
    · rw [if_pos h1]
      show taggedAGs (cur :: (optLoop o false nxt rest).1) = _
      rw [taggedAGs_cons, optLoop_tagged o rest nxt, taggedAGs_cons]
    · rw [if_neg h1]
      by_cases h2 : optimizable o false cur nxt
      · rw [if_pos h2]
        have hp : cur.payer = nxt.payer := by
          have := ((optimizable_spec o false cur nxt).1 h2).2.2.1
          simpa using this
        show taggedAGs (emptyAG :: (optLoop o false (cur.merge nxt) rest).1) = _
        rw [taggedAGs_cons, optLoop_tagged o rest (cur.merge nxt), taggedAGs_cons]
        simp [emptyAG, AG.merge, List.append_assoc, hp]
      · rw [if_neg h2]
        show taggedAGs (cur :: (optLoop o false nxt rest).1) = _
        rw [taggedAGs_cons, optLoop_tagged o rest nxt, taggedAGs_cons]

/-- a predicate that holds of the inputs, of the placeholder and of every permitted merge holds of
every group the loop leaves behind. -/
theorem optLoop_all (o : Opts) (allow : Bool) (Q : AG → Prop) (hE : Q emptyAG)
    (hM : ∀ x y, optimizable o allow x y = true → Q x → Q y → Q (x.merge y)) :
    ∀ (rest : List AG) (cur : AG), Q cur → (∀ g ∈ rest, Q g) →
      ∀ g ∈ (optLoop o allow cur rest).1, Q g
  | [], cur, hc, _ => by simp [optLoop]; exact hc
  | nxt :: rest, cur, hc, hr => by
    have hn := hr nxt (List.mem_cons_self ..)
    have hr' : ∀ g ∈ rest, Q g := fun g hg => hr g (List.mem_cons_of_mem _ hg)
    unfold optLoop
    by_cases h1 : cur.ixs.isEmpty
    · simp only [h1, if_true]
      intro g hg
      rcases List.mem_cons.1 hg with rfl | hg
      · exact hc
      · exact optLoop_all o allow Q hE hM rest nxt hn hr' g hg
    · simp only [h1]
      by_cases h2 : optimizable o allow cur nxt
      · simp only [h2, if_true]
        intro g hg
        rcases List.mem_cons.1 hg with rfl | hg
        · exact hE
        · exact optLoop_all o allow Q hE hM rest _ (hM _ _ h2 hc hn) hr' g hg
      · simp only [h2]
        intro g hg
        rcases List.mem_cons.1 hg with rfl | hg
        · exact hc
        · exact optLoop_all o allow Q hE hM rest nxt hn hr' g hg

/-- every contiguous run of `cur` and every whole group of `rest` ends up inside one group. -/
theorem optLoop_infix (o : Opts) (allow : Bool) : ∀ (rest : List AG) (cur : AG),
    (∀ l, l <:+: cur.ixs → ∃ g' ∈ (optLoop o allow cur rest).1, l <:+: g'.ixs) ∧
    (∀ g ∈ rest, ∃ g' ∈ (optLoop o allow cur rest).1, g.ixs <:+: g'.ixs)
  | [], cur => by
    simp only [optLoop, List.mem_singleton, exists_eq_left]
    exact ⟨fun l h => h, fun g hg => by cases hg⟩
  | nxt :: rest, cur => by
    unfold optLoop
    by_cases h1 : cur.ixs.isEmpty
    · simp only [h1, if_true]
      obtain ⟨a, b⟩ := optLoop_infix o allow rest nxt
      refine ⟨fun l h => ⟨cur, List.mem_cons_self .., h⟩, fun g hg => ?_⟩
      rcases List.mem_cons.1 hg with rfl | hg
      · obtain ⟨g', m, i⟩ := a _ (List.infix_refl _)
        exact ⟨g', List.mem_cons_of_mem _ m, i⟩
      · obtain ⟨g', m, i⟩ := b g hg
        exact ⟨g', List.mem_cons_of_mem _ m, i⟩
    · simp only [h1]
      by_cases h2 : optimizable o allow cur nxt
      · simp only [h2, if_true]
        obtain ⟨a, b⟩ := optLoop_infix o allow rest (cur.merge nxt)
        refine ⟨fun l h => ?_, fun g hg => ?_⟩
        · obtain ⟨g', m, i⟩ := a l (by simp only [AG.merge]; exact infix_append_right _ h)
          exact ⟨g', List.mem_cons_of_mem _ m, i⟩
        · rcases List.mem_cons.1 hg with rfl | hg
          · obtain ⟨g', m, i⟩ := a g.ixs (by simp only [AG.merge]; exact infix_append_left _ (List.infix_refl _))
            exact ⟨g', List.mem_cons_of_mem _ m, i⟩
          · obtain ⟨g', m, i⟩ := b g hg
            exact ⟨g', List.mem_cons_of_mem _ m, i⟩
      · simp only [h2]
        obtain ⟨a, b⟩ := optLoop_infix o allow rest nxt
        refine ⟨fun l h => ⟨cur, List.mem_cons_self .., h⟩, fun g hg => ?_⟩
        rcases List.mem_cons.1 hg with rfl | hg
        · obtain ⟨g', m, i⟩ := a _ (List.infix_refl _)
          exact ⟨g', List.mem_cons_of_mem _ m, i⟩
        · obtain ⟨g', m, i⟩ := b g hg
          exact ⟨g', List.mem_cons_of_mem _ m, i⟩

/-- a non-mergeable, non-empty group is left exactly as it was. -/
theorem optLoop_keeps_nonmergeable (o : Opts) (allow : Bool) (g : AG) (hm : g.mergeable = false)
    (hne : g.ixs ≠ []) : ∀ (rest : List AG) (cur : AG), g ∈ cur :: rest →
      g ∈ (optLoop o allow cur rest).1
  | [], cur, h => by simpa [optLoop] using h
  | nxt :: rest, cur, h => by
    unfold optLoop
    by_cases h1 : cur.ixs.isEmpty
    · simp only [h1, if_true]
      rcases List.mem_cons.1 h with rfl | h
      · exact List.mem_cons_self ..
      · exact List.mem_cons_of_mem _ (optLoop_keeps_nonmergeable o allow g hm hne rest nxt h)
    · simp only [h1]
      by_cases h2 : optimizable o allow cur nxt
      · simp only [h2, if_true]
        obtain ⟨mx, my, _⟩ := (optimizable_spec o allow cur nxt).1 h2
        apply List.mem_cons_of_mem
        apply optLoop_keeps_nonmergeable o allow g hm hne rest
        rcases List.mem_cons.1 h with rfl | h
        · rw [hm] at mx; cases mx
        · rcases List.mem_cons.1 h with rfl | h
          · rw [hm] at my; cases my
          · exact List.mem_cons_of_mem _ h
      · simp only [h2]
        rcases List.mem_cons.1 h with rfl | h
        · exact List.mem_cons_self ..
        · exact List.mem_cons_of_mem _ (optLoop_keeps_nonmergeable o allow g hm hne rest nxt h)

theorem flattenAGs_filter (gs : List AG) :
    flattenAGs (gs.filter (fun g => !g.ixs.isEmpty)) = flattenAGs gs := by
  induction gs with
  | nil => rfl
  | cons g t ih =>
    by_cases h : g.ixs.isEmpty
    · have : g.ixs = [] := by simpa using h
      simp [List.filter_cons, h, flattenAGs_cons, ih, this]
    · simp [List.filter_cons, h, flattenAGs_cons, ih]

theorem taggedAGs_filter (gs : List AG) :
    taggedAGs (gs.filter (fun g => !g.ixs.isEmpty)) = taggedAGs gs := by
  induction gs with
  | nil => rfl
  | cons g t ih =>
    by_cases h : g.ixs.isEmpty
    · have : g.ixs = [] := by simpa using h
      simp [List.filter_cons, h, taggedAGs_cons, ih, this]
    · simp [List.filter_cons, h, taggedAGs_cons, ih]

theorem pgOptimize_flatten (o : Opts) (allow : Bool) (pg : PG) :
    flattenAGs (pg.optimize o allow).groups = flattenAGs pg.groups := by
  unfold PG.optimize optSlice
  cases hg : pg.groups with
  | nil => simp
  | cons g gs =>
    have := optLoop_flatten o allow gs g
    simp only []
    split <;> simp_all [flattenAGs_filter, flattenAGs_cons]

theorem pgOptimize_tagged (o : Opts) (pg : PG) :
    taggedAGs (pg.optimize o false).groups = taggedAGs pg.groups := by
  unfold PG.optimize optSlice
  cases hg : pg.groups with
  | nil => simp
  | cons g gs =>
    have := optLoop_tagged o gs g
    simp only []
    split <;> simp_all [taggedAGs_filter, taggedAGs_cons]

theorem pgOptimize_mergeable (o : Opts) (allow : Bool) (pg : PG) :
    (pg.optimize o allow).mergeable = pg.mergeable := by
  unfold PG.optimize
  simp only []
  split <;> rfl

/-! ### `ParallelGroup::optimize` -/

theorem mem_pgOptimize (o : Opts) (allow : Bool) (pg : PG) (g0 : AG) (gs : List AG)
    (hg : pg.groups = g0 :: gs) (g : AG) (hm : g ∈ (optLoop o allow g0 gs).1) (hne : g.ixs ≠ []) :
    g ∈ (pg.optimize o allow).groups := by
  unfold PG.optimize optSlice
  rw [hg]
  simp only []
  split
  · simp only [List.mem_filter]
    refine ⟨hm, ?_⟩
    cases hq : g.ixs with
    | nil => exact absurd hq hne
    | cons a b => simp
  · exact hm

theorem of_mem_pgOptimize (o : Opts) (allow : Bool) (pg : PG) (g : AG)
    (hm : g ∈ (pg.optimize o allow).groups) :
    ∃ g0 gs, pg.groups = g0 :: gs ∧ g ∈ (optLoop o allow g0 gs).1 := by
  unfold PG.optimize optSlice at hm
  cases hg : pg.groups with
  | nil => rw [hg] at hm; simp at hm
  | cons g0 gs =>
    rw [hg] at hm
    simp only [] at hm
    refine ⟨g0, gs, rfl, ?_⟩
    split at hm
    · exact (List.mem_filter.1 hm).1
    · exact hm

theorem infix_ne_nil {α} {l m : List α} (h : l <:+: m) (hl : l ≠ []) : m ≠ [] := by
  obtain ⟨s, t, rfl⟩ := h
  intro e
  have : l = [] := by
    cases l with
    | nil => rfl
    | cons a t => cases s <;> simp at e
  exact hl this

theorem pgOptimize_infix (o : Opts) (allow : Bool) (pg : PG) (g : AG) (hg : g ∈ pg.groups)
    (hne : g.ixs ≠ []) : ∃ g' ∈ (pg.optimize o allow).groups, g.ixs <:+: g'.ixs := by
  cases hq : pg.groups with
  | nil => rw [hq] at hg; cases hg
  | cons g0 gs =>
    rw [hq] at hg
    obtain ⟨a, b⟩ := optLoop_infix o allow gs g0
    have : ∃ g' ∈ (optLoop o allow g0 gs).1, g.ixs <:+: g'.ixs := by
      rcases List.mem_cons.1 hg with rfl | hg
      · exact a _ (List.infix_refl _)
      · exact b g hg
    obtain ⟨g', m, i⟩ := this
    exact ⟨g', mem_pgOptimize o allow pg g0 gs hq g' m (infix_ne_nil i hne), i⟩

theorem pgOptimize_keeps_nonmergeable (o : Opts) (allow : Bool) (pg : PG) (g : AG)
    (hg : g ∈ pg.groups) (hm : g.mergeable = false) (hne : g.ixs ≠ []) :
    g ∈ (pg.optimize o allow).groups := by
  cases hq : pg.groups with
  | nil => rw [hq] at hg; cases hg
  | cons g0 gs =>
    rw [hq] at hg
    exact mem_pgOptimize o allow pg g0 gs hq g
      (optLoop_keeps_nonmergeable o allow g hm hne gs g0 hg) hne

theorem pgOptimize_all (o : Opts) (allow : Bool) (Q : AG → Prop) (hE : Q emptyAG)
    (hM : ∀ x y, optimizable o allow x y = true → Q x → Q y → Q (x.merge y))
    (pg : PG) (h : ∀ g ∈ pg.groups, Q g) : ∀ g ∈ (pg.optimize o allow).groups, Q g := by
  intro g hg
  obtain ⟨g0, gs, e, m⟩ := of_mem_pgOptimize o allow pg g hg
  rw [e] at h
  exact optLoop_all o allow Q hE hM gs g0 (h g0 (List.mem_cons_self ..))
    (fun x hx => h x (List.mem_cons_of_mem _ hx)) g m

/-! ### the parallel-group loop -/

theorem single_some (pg : PG) (g : AG) (h : pg.single = some g) : pg.groups = [g] := by
  unfold PG.single at h
  split at h
  · cases h; assumption
  · cases h

theorem mergeCandidates_some (cur nxt : PG) (gi gj : AG) (h : mergeCandidates cur nxt = some (gi, gj)) :
    cur.mergeable = true ∧ nxt.mergeable = true ∧ cur.groups = [gi] ∧ nxt.groups = [gj] := by
  unfold mergeCandidates at h
  split at h
  · rename_i hm
    split at h
    · rename_i a b ha hb
      cases h
      simp at hm
      exact ⟨hm.1, hm.2, single_some _ _ ha, single_some _ _ hb⟩
    · cases h
  · cases h

/-- one iteration of the loop over parallel groups: either a permitted merge or nothing. -/
theorem tgLoop_step (o : Opts) (allow : Bool) (cur nxt : PG) (rest : List PG) :
    (∃ gi gj, cur.mergeable = true ∧ nxt.mergeable = true ∧ cur.groups = [gi] ∧ nxt.groups = [gj] ∧
      optimizable o allow gi gj = true ∧
      (tgLoop o allow cur (nxt :: rest)).1 =
        emptyPG :: (tgLoop o allow { cur with groups := [gi.merge gj] } rest).1) ∨
    (tgLoop o allow cur (nxt :: rest)).1 = cur :: (tgLoop o allow nxt rest).1 := by
  rw [tgLoop]
  cases hc : mergeCandidates cur nxt with
  | none => right; rfl
  | some p =>
    obtain ⟨gi, gj⟩ := p
    obtain ⟨a, b, c, d⟩ := mergeCandidates_some _ _ _ _ hc
    by_cases h2 : optimizable o allow gi gj
    · left; exact ⟨gi, gj, a, b, c, d, h2, by simp only [h2, if_true]⟩
    · right; simp only [h2]; rfl

theorem flattenPGs_cons (p : PG) (ps : List PG) :
    flattenPGs (p :: ps) = flattenAGs p.groups ++ flattenPGs ps := by simp [flattenPGs]

theorem taggedPGs_cons (p : PG) (ps : List PG) :
    taggedPGs (p :: ps) = taggedAGs p.groups ++ taggedPGs ps := by simp [taggedPGs]

theorem tgLoop_flatten (o : Opts) (allow : Bool) : ∀ (rest : List PG) (cur : PG),
    flattenPGs (tgLoop o allow cur rest).1 = flattenAGs cur.groups ++ flattenPGs rest
  | [], cur => by simp [tgLoop, flattenPGs]
  | nxt :: rest, cur => by
    rcases tgLoop_step o allow cur nxt rest with ⟨gi, gj, _, _, c, d, _, e⟩ | e
    · rw [e, flattenPGs_cons, tgLoop_flatten o allow rest _, flattenPGs_cons, c, d]
      simp [emptyPG, flattenAGs, AG.merge]
    · rw [e, flattenPGs_cons, tgLoop_flatten o allow rest nxt, flattenPGs_cons]

theorem tgLoop_tagged (o : Opts) : ∀ (rest : List PG) (cur : PG),
    taggedPGs (tgLoop o false cur rest).1 = taggedAGs cur.groups ++ taggedPGs rest
  | [], cur => by simp [tgLoop, taggedPGs]
  | nxt :: rest, cur => by
    rcases tgLoop_step o false cur nxt rest with ⟨gi, gj, _, _, c, d, h2, e⟩ | e
    · have hp : gi.payer = gj.payer := by
        have := ((optimizable_spec o false gi gj).1 h2).2.2.1
        simpa using this
      rw [e, taggedPGs_cons, tgLoop_tagged o rest _, taggedPGs_cons, c, d]
      simp [emptyPG, taggedAGs, AG.merge, hp]
    · rw [e, taggedPGs_cons, tgLoop_tagged o rest nxt, taggedPGs_cons]

theorem tgLoop_all (o : Opts) (allow : Bool) (Q : AG → Prop)
    (hM : ∀ x y, optimizable o allow x y = true → Q x → Q y → Q (x.merge y)) :
    ∀ (rest : List PG) (cur : PG), (∀ g ∈ cur.groups, Q g) → (∀ p ∈ rest, ∀ g ∈ p.groups, Q g) →
      ∀ p ∈ (tgLoop o allow cur rest).1, ∀ g ∈ p.groups, Q g
  | [], cur, hc, _ => by simpa [tgLoop] using hc
  | nxt :: rest, cur, hc, hr => by
    have hn := hr nxt (List.mem_cons_self ..)
    have hr' : ∀ p ∈ rest, ∀ g ∈ p.groups, Q g := fun p hp => hr p (List.mem_cons_of_mem _ hp)
    rcases tgLoop_step o allow cur nxt rest with ⟨gi, gj, _, _, c, d, h2, e⟩ | e
    · rw [e]
      intro p hp
      rcases List.mem_cons.1 hp with rfl | hp
      · intro g hg; simp [emptyPG] at hg
      · refine tgLoop_all o allow Q hM rest _ ?_ hr' p hp
        intro g hg
        simp at hg; subst hg
        exact hM _ _ h2 (hc gi (by simp [c])) (hn gj (by simp [d]))
    · rw [e]
      intro p hp
      rcases List.mem_cons.1 hp with rfl | hp
      · exact hc
      · exact tgLoop_all o allow Q hM rest nxt hn hr' p hp

theorem tgLoop_infix (o : Opts) (allow : Bool) : ∀ (rest : List PG) (cur : PG),
    (∀ g ∈ cur.groups, ∀ l, l <:+: g.ixs → ∃ p' ∈ (tgLoop o allow cur rest).1, ∃ g' ∈ p'.groups, l <:+: g'.ixs) ∧
    (∀ p ∈ rest, ∀ g ∈ p.groups, ∃ p' ∈ (tgLoop o allow cur rest).1, ∃ g' ∈ p'.groups, g.ixs <:+: g'.ixs)
  | [], cur => by
    simp only [tgLoop, List.mem_singleton, exists_eq_left]
    exact ⟨fun g hg l h => ⟨g, hg, h⟩, fun p hp => by cases hp⟩
  | nxt :: rest, cur => by
    rcases tgLoop_step o allow cur nxt rest with ⟨gi, gj, _, _, c, d, h2, e⟩ | e
    · rw [e]
      obtain ⟨a, b⟩ := tgLoop_infix o allow rest { cur with groups := [gi.merge gj] }
      refine ⟨fun g hg l h => ?_, fun p hp g hg => ?_⟩
      · rw [c] at hg; simp at hg; subst hg
        obtain ⟨p', m, g', m', i⟩ := a (g.merge gj) (by simp) l (by simp only [AG.merge]; exact infix_append_right _ h)
        exact ⟨p', List.mem_cons_of_mem _ m, g', m', i⟩
      · rcases List.mem_cons.1 hp with rfl | hp
        · rw [d] at hg; simp at hg; subst hg
          obtain ⟨p', m, g', m', i⟩ := a (gi.merge g) (by simp) g.ixs
            (by simp only [AG.merge]; exact infix_append_left _ (List.infix_refl _))
          exact ⟨p', List.mem_cons_of_mem _ m, g', m', i⟩
        · obtain ⟨p', m, r⟩ := b p hp g hg
          exact ⟨p', List.mem_cons_of_mem _ m, r⟩
    · rw [e]
      obtain ⟨a, b⟩ := tgLoop_infix o allow rest nxt
      refine ⟨fun g hg l h => ⟨cur, List.mem_cons_self .., g, hg, h⟩, fun p hp g hg => ?_⟩
      rcases List.mem_cons.1 hp with rfl | hp
      · obtain ⟨p', m, r⟩ := a g hg _ (List.infix_refl _)
        exact ⟨p', List.mem_cons_of_mem _ m, r⟩
      · obtain ⟨p', m, r⟩ := b p hp g hg
        exact ⟨p', List.mem_cons_of_mem _ m, r⟩

/-- a non-mergeable parallel group is left exactly as it was. -/
theorem tgLoop_keeps_nonmergeable_pg (o : Opts) (allow : Bool) (q : PG) (hm : q.mergeable = false) :
    ∀ (rest : List PG) (cur : PG), q ∈ cur :: rest → q ∈ (tgLoop o allow cur rest).1
  | [], cur, h => by simpa [tgLoop] using h
  | nxt :: rest, cur, h => by
    rcases tgLoop_step o allow cur nxt rest with ⟨gi, gj, mc, mn, _, _, _, e⟩ | e
    · rw [e]
      apply List.mem_cons_of_mem
      apply tgLoop_keeps_nonmergeable_pg o allow q hm rest
      rcases List.mem_cons.1 h with rfl | h
      · rw [hm] at mc; cases mc
      · rcases List.mem_cons.1 h with rfl | h
        · rw [hm] at mn; cases mn
        · exact List.mem_cons_of_mem _ h
    · rw [e]
      rcases List.mem_cons.1 h with rfl | h
      · exact List.mem_cons_self ..
      · exact List.mem_cons_of_mem _ (tgLoop_keeps_nonmergeable_pg o allow q hm rest nxt h)

/-- a non-mergeable atomic group is left exactly as it was by the loop over parallel groups. -/
theorem tgLoop_keeps_nonmergeable_ag (o : Opts) (allow : Bool) (g : AG) (hm : g.mergeable = false) :
    ∀ (rest : List PG) (cur : PG), (∃ p ∈ cur :: rest, g ∈ p.groups) →
      ∃ p' ∈ (tgLoop o allow cur rest).1, g ∈ p'.groups
  | [], cur, h => by simpa [tgLoop] using h
  | nxt :: rest, cur, ⟨p, hp, hg⟩ => by
    rcases tgLoop_step o allow cur nxt rest with ⟨gi, gj, _, _, c, d, h2, e⟩ | e
    · rw [e]
      obtain ⟨mx, my, _⟩ := (optimizable_spec o allow gi gj).1 h2
      have : ∃ p ∈ ({ cur with groups := [gi.merge gj] } : PG) :: rest, g ∈ p.groups := by
        rcases List.mem_cons.1 hp with rfl | hp
        · rw [c] at hg; simp at hg; subst hg; rw [hm] at mx; cases mx
        · rcases List.mem_cons.1 hp with rfl | hp
          · rw [d] at hg; simp at hg; subst hg; rw [hm] at my; cases my
          · exact ⟨p, List.mem_cons_of_mem _ hp, hg⟩
      obtain ⟨p', m, r⟩ := tgLoop_keeps_nonmergeable_ag o allow g hm rest _ this
      exact ⟨p', List.mem_cons_of_mem _ m, r⟩
    · rw [e]
      rcases List.mem_cons.1 hp with rfl | hp
      · exact ⟨p, List.mem_cons_self .., hg⟩
      · obtain ⟨p', m, r⟩ := tgLoop_keeps_nonmergeable_ag o allow g hm rest nxt ⟨p, hp, hg⟩
        exact ⟨p', List.mem_cons_of_mem _ m, r⟩

theorem flattenPGs_filter (ps : List PG) :
    flattenPGs (ps.filter (fun p => !p.groups.isEmpty)) = flattenPGs ps := by
  induction ps with
  | nil => rfl
  | cons p t ih =>
    by_cases h : p.groups.isEmpty
    · have : p.groups = [] := by simpa using h
      simp [List.filter_cons, h, flattenPGs_cons, ih, this, flattenAGs]
    · simp [List.filter_cons, h, flattenPGs_cons, ih]

theorem taggedPGs_filter (ps : List PG) :
    taggedPGs (ps.filter (fun p => !p.groups.isEmpty)) = taggedPGs ps := by
  induction ps with
  | nil => rfl
  | cons p t ih =>
    by_cases h : p.groups.isEmpty
    · have : p.groups = [] := by simpa using h
      simp [List.filter_cons, h, taggedPGs_cons, ih, this, taggedAGs]
    · simp [List.filter_cons, h, taggedPGs_cons, ih]

theorem flattenPGs_map_optimize (o : Opts) (allow : Bool) (ps : List PG) :
    flattenPGs (ps.map (PG.optimize o allow)) = flattenPGs ps := by
  induction ps with
  | nil => rfl
  | cons p t ih => simp [flattenPGs_cons, ih, pgOptimize_flatten]

theorem taggedPGs_map_optimize (o : Opts) (ps : List PG) :
    taggedPGs (ps.map (PG.optimize o false)) = taggedPGs ps := by
  induction ps with
  | nil => rfl
  | cons p t ih => simp [taggedPGs_cons, ih, pgOptimize_tagged]

/-- membership in `tgOptimize`'s result, reduced to the loop over the optimized parallel groups:
everything the loop leaves behind with at least one atomic group is in the result. -/
theorem mem_tgOptimize (o : Opts) (allow : Bool) (g0 : PG) (gs : List PG) (p : PG)
    (hp : p ∈ (tgLoop o allow (g0.optimize o allow) (gs.map (PG.optimize o allow))).1)
    (hne : p.groups ≠ []) : p ∈ tgOptimize o allow (g0 :: gs) := by
  unfold tgOptimize
  simp only [List.map_cons]
  split
  · rw [List.mem_filter]
    refine ⟨hp, ?_⟩
    cases hq : p.groups with
    | nil => exact absurd hq hne
    | cons a b => simp
  · exact hp

/-- …and conversely everything in the result was left behind by the loop. -/
theorem of_mem_tgOptimize (o : Opts) (allow : Bool) (g0 : PG) (gs : List PG) (p : PG)
    (hp : p ∈ tgOptimize o allow (g0 :: gs)) :
    p ∈ (tgLoop o allow (g0.optimize o allow) (gs.map (PG.optimize o allow))).1 := by
  unfold tgOptimize at hp
  simp only [List.map_cons] at hp
  split at hp
  · exact (List.mem_filter.1 hp).1
  · exact hp

end Gmx.TxPack
