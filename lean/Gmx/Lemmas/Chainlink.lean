import Gmx.Model.Chainlink
/-! helper lemmas for C28 (core only) -/
namespace Gmx.Chainlink
open Gmx

theorem slice_eq {l : List Nat} {a b : Nat} (h : a ≤ b) (h2 : b ≤ l.length) :
    slice l a b = some ((l.drop a).take (b - a)) := by
  unfold slice; rw [if_pos ⟨h, h2⟩]

theorem word_tail (p : List Nat) (a : Nat) (h : a + 32 ≤ p.length) :
    slice ((p.drop a).take 32) 24 32 = some ((p.drop (a + 24)).take 8) := by
  rw [slice_eq (by omega) (by simp; omega)]
  congr 1
  apply List.ext_getElem?
  intro j
  simp only [List.getElem?_take, List.getElem?_drop]
  by_cases hj : j < 8
  · simp [hj, show 24 + j < 32 by omega, Nat.add_assoc]
  · simp [hj]

theorem decode_eq_spec (p : List Nat) : decodeFullReport p = decodeSpec p := by
  unfold decodeFullReport decodeSpec
  by_cases h : p.length < 128
  · simp [h]
  · rw [if_neg h, if_neg h]
    rw [slice_eq (l := p) (a := 0) (b := 32) (by omega) (by omega),
      slice_eq (l := p) (a := 32) (b := 64) (by omega) (by omega),
      slice_eq (l := p) (a := 64) (b := 96) (by omega) (by omega),
      slice_eq (l := p) (a := 96) (b := 120) (by omega) (by omega)]
    simp only [show 120 - 96 = 24 by omega, List.drop_zero]
    by_cases hu : ((p.drop 96).take 24).any (· != 0) = true
    · simp [hu]
    · simp only [hu, Bool.false_eq_true, if_false]
      rw [slice_eq (l := p) (a := 96) (b := 128) (by omega) (by omega)]
      simp only [show 128 - 96 = 32 by omega]
      rw [word_tail p 96 (by omega)]
      simp only [show 96 + 24 = 120 by omega]
      generalize be ((p.drop 120).take 8) = offset
      by_cases h1 : offset < 128
      · simp [h1]
      · simp only [h1, if_false]
        unfold checkedAdd toU
        by_cases h2 : offset + 32 < 2 ^ 64
        · simp only [h2, if_true, not_true_eq_false, if_false]
          by_cases h3 : offset + 32 > p.length
          · simp [h3]
          · simp only [h3, if_false]
            rw [slice_eq (l := p) (a := offset) (b := offset + 24) (by omega) (by omega)]
            simp only [show offset + 24 - offset = 24 by omega]
            by_cases hl : ((p.drop offset).take 24).any (· != 0) = true
            · simp [hl]
            · simp only [hl, Bool.false_eq_true, if_false]
              rw [slice_eq (l := p) (a := offset) (b := offset + 32) (by omega) (by omega)]
              simp only [show offset + 32 - offset = 32 by omega]
              rw [word_tail p offset (by omega)]
              simp only []
              generalize be ((p.drop (offset + 24)).take 8) = length
              by_cases h4 : offset + 32 + length < 2 ^ 64
              · simp only [h4, if_true, not_true_eq_false, if_false]
                by_cases h5 : offset + 32 + length > p.length
                · simp [h5]
                · simp only [h5, if_false]
                  rw [slice_eq (l := p) (a := offset + 32) (b := offset + 32 + length) (by omega) (by omega)]
                  simp only [show offset + 32 + length - (offset + 32) = length by omega]
              · simp [h4]
        · simp [h2]


theorem be_zeros (k : Nat) (l : List Nat) : be (List.replicate k 0 ++ l) = be l := by
  unfold be
  rw [List.foldl_append]
  congr 1
  induction k with
  | zero => rfl
  | succ k ih => rw [List.replicate_succ, List.foldl_cons]; simpa using ih

theorem word_split (p : List Nat) (a : Nat) :
    (p.drop a).take 32 = (p.drop a).take 24 ++ (p.drop (a + 24)).take 8 := by
  rw [show (32:Nat) = 24 + 8 by rfl, List.take_add, List.drop_drop]

/-- a word whose upper 24 bytes are zero has the value of its low 8 bytes -/
theorem be_word_low (p : List Nat) (a : Nat) (h : (p.drop a).take 24 = List.replicate 24 0) :
    be ((p.drop a).take 32) = be ((p.drop (a + 24)).take 8) := by
  rw [word_split, h, be_zeros]

/-- a byte string without a non-zero byte is all zeros -/
theorem all_zero_eq_replicate (l : List Nat) (h : l.any (· != 0) = false) :
    l = List.replicate l.length 0 := by
  induction l with
  | nil => rfl
  | cons x xs ih =>
    simp only [List.any_cons, Bool.or_eq_false_iff] at h
    have hx : x = 0 := by simpa using h.1
    rw [List.length_cons, List.replicate_succ, ← ih h.2, hx]

end Gmx.Chainlink

namespace Gmx.Chainlink
open Gmx

theorem divCeilNs_bounds (d : Nat) :
    d ≤ divCeilNs d * 1000000000 ∧ divCeilNs d * 1000000000 < d + 1000000000 := by
  unfold divCeilNs; split <;> omega

theorem lastUpdateDiff_ne_panic (obs lu : Nat) : lastUpdateDiff obs lu ≠ .error .panic := by
  unfold lastUpdateDiff
  intro h
  by_cases h0 : 18446744073709551616 ≤ obs * 1000000000
  · rw [if_pos h0] at h; cases h
  · rw [if_neg h0] at h
    by_cases h1 : lu ≤ obs * 1000000000
    · rw [if_pos h1] at h
      by_cases h2 : divCeilNs (obs * 1000000000 - lu) < 4294967296
      · rw [if_pos h2] at h; cases h
      · rw [if_neg h2] at h; cases h
    · rw [if_neg h1] at h
      by_cases h2 : lu - obs * 1000000000 ≥ 1000000000
      · rw [if_pos h2] at h; cases h
      · rw [if_neg h2] at h; cases h

theorem ludOf_ne_panic (r : Rep) : ludOf r ≠ .error .panic := by
  unfold ludOf
  intro hc
  cases hl : r.lastUpdateNs with
  | none => rw [hl] at hc; cases hc
  | some lu =>
    rw [hl] at hc
    simp only at hc
    cases h : lastUpdateDiff r.obsTs lu with
    | error e =>
      rw [h] at hc
      simp only [liftLud] at hc
      cases hc
      exact lastUpdateDiff_ne_panic _ _ h
    | ok v => rw [h] at hc; obtain ⟨d, o⟩ := v; simp only [liftLud] at hc; cases hc

end Gmx.Chainlink
