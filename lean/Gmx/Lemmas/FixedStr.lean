import Gmx.Model.FixedStr
namespace Gmx.FixedStr

theorem position0_none {n : List Nat} (h : 0 ∉ n) : position0 n = none := by
  induction n with
  | nil => rfl
  | cons x xs ih =>
    have hx : x ≠ 0 := fun e => h (by simp [e])
    have hxs : 0 ∉ xs := fun e => h (by simp [e])
    simp [position0, hx, ih hxs]

theorem position0_append_zero {n : List Nat} (t : List Nat) (h : 0 ∉ n) :
    position0 (n ++ 0 :: t) = some n.length := by
  induction n with
  | nil => simp [position0]
  | cons x xs ih =>
    have hx : x ≠ 0 := fun e => h (by simp [e])
    have hxs : 0 ∉ xs := fun e => h (by simp [e])
    simp [position0, hx, ih hxs]

/-- `position` finds the FIRST NUL. -/
theorem position0_some {b : List Nat} {i : Nat} (h : position0 b = some i) :
    i < b.length ∧ b[i]? = some 0 ∧ 0 ∉ b.take i := by
  induction b generalizing i with
  | nil => simp [position0] at h
  | cons x xs ih =>
    simp only [position0] at h
    split at h
    · cases h; simp_all
    · rename_i hx
      cases hp : position0 xs with
      | none => simp [hp] at h
      | some j =>
        simp [hp] at h; subst h
        obtain ⟨h1, h2, h3⟩ := ih hp
        refine ⟨by simp; omega, by simpa using h2, ?_⟩
        simp only [List.take_succ_cons, List.mem_cons, not_or]
        exact ⟨fun e => hx e.symm, h3⟩

theorem position0_isSome_of_mem {b : List Nat} (h : 0 ∈ b) : ∃ i, position0 b = some i := by
  cases hp : position0 b with
  | some i => exact ⟨i, rfl⟩
  | none =>
    exfalso
    induction b with
    | nil => simp at h
    | cons x xs ih =>
      simp only [position0] at hp
      split at hp
      · cases hp
      · rename_i hx
        cases hq : position0 xs with
        | none =>
          rcases List.mem_cons.1 h with e | e
          · exact hx e.symm
          · exact ih e hq
        | some j => simp [hq] at hp

theorem contains_zero_iff (n : List Nat) : n.contains 0 = true ↔ 0 ∈ n := by simp

end Gmx.FixedStr
