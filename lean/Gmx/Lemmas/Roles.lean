import Gmx.Model.Roles
/-! abstraction functions, invariant and helper lemmas for C18 -/
namespace Gmx.Roles

deriving instance DecidableEq for Except
deriving instance DecidableEq for Role
deriving instance DecidableEq for St

section
variable {K A : Type} [DecidableEq K] [DecidableEq A]

/-! ### the abstract view: `enabled : role → Bool`, `grants : set of (addr, role)` -/

def knownB (s : St K A) (r : K) : Bool := (findRole s.roles r).isSome

def enabledB (s : St K A) (r : K) : Bool :=
  match findRole s.roles r with
  | some m => m.enabled
  | none => false

def memberB (s : St K A) (a : A) : Bool := (lookup s.members a).isSome

def grantedB (s : St K A) (a : A) (r : K) : Bool :=
  match findRole s.roles r, lookup s.members a with
  | some m, some bits => bits.contains m.index
  | _, _ => false

/-- role indices are the creation positions -/
def idxFrom : Nat → List (Role K) → Prop
  | _, [] => True
  | n, m :: ms => m.index = n ∧ idxFrom (n + 1) ms

structure Inv (s : St K A) : Prop where
  idx : idxFrom 0 s.roles
  bits : ∀ a bits, lookup s.members a = some bits → bits ≠ [] ∧ ∀ i ∈ bits, i < s.roles.length
  complete : ∀ i, i < s.roles.length → ∃ r m, findRole s.roles r = some m ∧ m.index = i
  nroles : s.roles.length ≤ MAX_ROLES
  nmembers : s.members.length ≤ MAX_MEMBERS

/-! ### role table lemmas -/

theorem findRole_name {rs : List (Role K)} {r : K} {m : Role K} (h : findRole rs r = some m) : m.name = r := by
  induction rs with
  | nil => simp [findRole] at h
  | cons x xs ih =>
    simp only [findRole] at h
    split at h
    · cases h; assumption
    · exact ih h

theorem findRole_setEnabled (rs : List (Role K)) (r r' : K) (b : Bool) :
    findRole (setEnabled rs r b) r' =
      if r' = r then (findRole rs r).map (fun m => { m with enabled := b }) else findRole rs r' := by
  induction rs with
  | nil => simp [findRole, setEnabled]
  | cons x xs ih =>
    by_cases hx : x.name = r
    · by_cases hr : r' = r
      · subst hr; simp [findRole, setEnabled, hx]
      · have h1 : ¬ r = r' := fun h => hr h.symm
        simp [findRole, setEnabled, hx, hr, h1, ih]
    · by_cases hr : r' = r
      · subst hr; simp [findRole, setEnabled, hx, ih]
      · by_cases hx' : x.name = r'
        · simp [findRole, setEnabled, hx, hr, hx']
        · simp [findRole, setEnabled, hx, hr, hx', ih]

theorem findRole_append (rs : List (Role K)) (x : Role K) (r' : K) :
    findRole (rs ++ [x]) r' =
      match findRole rs r' with
      | some m => some m
      | none => if x.name = r' then some x else none := by
  induction rs with
  | nil => simp [findRole]
  | cons y ys ih =>
    simp only [List.cons_append, findRole]
    by_cases hy : y.name = r'
    · simp [hy]
    · simp only [hy, if_false]; exact ih

theorem length_setEnabled (rs : List (Role K)) (r : K) (b : Bool) : (setEnabled rs r b).length = rs.length := by
  induction rs with
  | nil => rfl
  | cons x xs ih => simp only [setEnabled]; split <;> simp [ih]

theorem idxFrom_setEnabled (rs : List (Role K)) (r : K) (b : Bool) :
    ∀ n, idxFrom n rs → idxFrom n (setEnabled rs r b) := by
  induction rs with
  | nil => intro n h; exact h
  | cons x xs ih =>
    intro n h
    simp only [setEnabled]
    split
    · exact ⟨h.1, ih _ h.2⟩
    · exact ⟨h.1, ih _ h.2⟩

omit [DecidableEq K] in
theorem idxFrom_append (rs : List (Role K)) (r : K) (b : Bool) :
    ∀ n, idxFrom n rs → idxFrom n (rs ++ [⟨r, b, n + rs.length⟩]) := by
  induction rs with
  | nil => intro n _; simp [idxFrom]
  | cons x xs ih =>
    intro n h
    simp only [List.cons_append, idxFrom, List.length_cons]
    refine ⟨h.1, ?_⟩
    have := ih (n + 1) h.2
    have e : n + 1 + xs.length = n + (xs.length + 1) := by omega
    rw [e] at this; exact this

theorem findRole_index_range {rs : List (Role K)} {r : K} {m : Role K} :
    ∀ n, idxFrom n rs → findRole rs r = some m → n ≤ m.index ∧ m.index < n + rs.length := by
  induction rs with
  | nil => intro n _ h; simp [findRole] at h
  | cons x xs ih =>
    intro n hi h
    simp only [findRole] at h
    split at h
    · cases h; simp only [List.length_cons]; have := hi.1; omega
    · have := ih (n + 1) hi.2 h
      simp only [List.length_cons]; omega

/-- distinct roles have distinct indices (bit positions) -/
theorem findRole_index_inj {rs : List (Role K)} {r r' : K} {m m' : Role K} :
    ∀ n, idxFrom n rs → findRole rs r = some m → findRole rs r' = some m' →
      m.index = m'.index → r = r' := by
  induction rs with
  | nil => intro n _ h; simp [findRole] at h
  | cons x xs ih =>
    intro n hi h h' he
    simp only [findRole] at h h'
    by_cases hx : x.name = r
    · by_cases hx' : x.name = r'
      · exact hx.symm.trans hx'
      · simp only [hx, if_true] at h; simp only [hx', if_false] at h'
        cases h
        have := (findRole_index_range (n + 1) hi.2 h').1
        have := hi.1; omega
    · by_cases hx' : x.name = r'
      · simp only [hx, if_false] at h; simp only [hx', if_true] at h'
        cases h'
        have := (findRole_index_range (n + 1) hi.2 h).1
        have := hi.1; omega
      · simp only [hx, if_false] at h; simp only [hx', if_false] at h'
        exact ih (n + 1) hi.2 h h' he

/-! ### member table lemmas -/

theorem lookup_setBits (ms : List (A × List Nat)) (a a' : A) (b : List Nat) :
    lookup (setBits ms a b) a' = if a' = a then (lookup ms a).map (fun _ => b) else lookup ms a' := by
  induction ms with
  | nil => simp [lookup, setBits]
  | cons x xs ih =>
    obtain ⟨k, v⟩ := x
    by_cases hk : k = a
    · by_cases ha : a' = a
      · subst ha; simp [lookup, setBits, hk]
      · have h1 : ¬ a = a' := fun h => ha h.symm
        simp [lookup, setBits, hk, ha, h1, ih]
    · by_cases ha : a' = a
      · subst ha; simp [lookup, setBits, hk, ih]
      · by_cases hk' : k = a'
        · simp [lookup, setBits, hk, ha, hk']
        · simp [lookup, setBits, hk, ha, hk', ih]

theorem lookup_removeMember (ms : List (A × List Nat)) (a a' : A) :
    lookup (removeMember ms a) a' = if a' = a then none else lookup ms a' := by
  induction ms with
  | nil => simp [lookup, removeMember]
  | cons x xs ih =>
    obtain ⟨k, v⟩ := x
    by_cases hk : k = a
    · by_cases ha : a' = a
      · subst ha; simp [lookup, removeMember, hk, ih]
      · have h1 : ¬ a = a' := fun h => ha h.symm
        simp [lookup, removeMember, hk, ha, h1, ih]
    · by_cases hk' : k = a'
      · have : ¬ a' = a := fun h => hk (hk'.trans h)
        simp [lookup, removeMember, hk, hk', this]
      · simp [lookup, removeMember, hk, hk', ih]

theorem lookup_append (ms : List (A × List Nat)) (a a' : A) (v : List Nat) :
    lookup (ms ++ [(a, v)]) a' =
      match lookup ms a' with
      | some b => some b
      | none => if a = a' then some v else none := by
  induction ms with
  | nil => simp [lookup]
  | cons x xs ih =>
    obtain ⟨k, w⟩ := x
    simp only [List.cons_append, lookup]
    by_cases hk : k = a'
    · simp [hk]
    · simp only [hk, if_false]; exact ih

theorem length_setBits (ms : List (A × List Nat)) (a : A) (b : List Nat) : (setBits ms a b).length = ms.length := by
  induction ms with
  | nil => rfl
  | cons x xs ih => obtain ⟨k, v⟩ := x; simp only [setBits]; split <;> simp [ih]

theorem length_removeMember (ms : List (A × List Nat)) (a : A) : (removeMember ms a).length ≤ ms.length := by
  induction ms with
  | nil => exact Nat.le_refl _
  | cons x xs ih =>
    obtain ⟨k, v⟩ := x; simp only [removeMember]
    split
    · simp only [List.length_cons]; omega
    · simp only [List.length_cons]; omega

end
end Gmx.Roles
