import Gmx.Model.Competition
/-! Helper lemmas for C39 (leaderboard insertion on sorted boards, the board invariant). -/
namespace Gmx.Comp

/-- ordered insertion *after* ties — what `update_leaderboard` does on a sorted board. -/
def ordIns (e : Entry) : List Entry → List Entry
  | [] => [e]
  | x :: xs => if x.vol ≥ e.vol then x :: ordIns e xs else e :: x :: xs

/-- non-increasing volumes. -/
def Sorted (l : List Entry) : Prop := l.Pairwise (fun a b => a.vol ≥ b.vol)

theorem insertPos_le_length (l : List Entry) (v : Nat) : insertPos l v ≤ l.length := by
  induction l with
  | nil => simp [insertPos]
  | cons x xs ih =>
    simp only [insertPos, List.length_cons]
    split
    · omega
    · split <;> omega

theorem insertPos_eq_zero (l : List Entry) (v : Nat) : insertPos l v = 0 ↔ ∀ y ∈ l, y.vol < v := by
  induction l with
  | nil => simp [insertPos]
  | cons x xs ih =>
    simp only [insertPos, List.mem_cons, forall_eq_or_imp]
    constructor
    · intro h
      split at h
      · omega
      · split at h
        · omega
        · exact ⟨by omega, ih.1 (by omega)⟩
    · rintro ⟨hx, hxs⟩
      have := ih.2 hxs
      rw [this]
      simp; omega

theorem insertAt_insertPos (l : List Entry) (hs : Sorted l) (e : Entry) :
    insertAt e (insertPos l e.vol) l = ordIns e l := by
  induction l with
  | nil => simp [insertPos, insertAt, ordIns]
  | cons x xs ih =>
    have hs' : Sorted xs := (List.pairwise_cons.1 hs).2
    have hx : ∀ y ∈ xs, x.vol ≥ y.vol := (List.pairwise_cons.1 hs).1
    simp only [insertPos, ordIns]
    by_cases h0 : insertPos xs e.vol > 0
    · -- some later element is ≥ v, hence x is
      have : ¬ (∀ y ∈ xs, y.vol < e.vol) := fun h => by
        have := (insertPos_eq_zero xs e.vol).2 h; omega
      have hxe : x.vol ≥ e.vol := by
        apply Classical.byContradiction
        intro hc
        apply this
        intro y hy
        have := hx y hy
        omega
      simp only [h0, if_true, hxe, insertAt, ih hs']
    · have hz : insertPos xs e.vol = 0 := by omega
      have ih' := ih hs'
      rw [hz] at ih'
      by_cases hxe : x.vol ≥ e.vol
      · simp only [h0, if_false, hxe, if_true, insertAt]
        rw [← ih']; simp [insertAt]
      · simp only [h0, if_false, hxe, insertAt]

theorem mem_ordIns (e : Entry) (l : List Entry) (y : Entry) : y ∈ ordIns e l ↔ y = e ∨ y ∈ l := by
  induction l with
  | nil => simp [ordIns]
  | cons x xs ih =>
    simp only [ordIns]
    split
    · simp only [List.mem_cons, ih]; constructor <;> (intro h; rcases h with h | h | h <;> simp [h])
    · simp only [List.mem_cons]

theorem length_ordIns (e : Entry) (l : List Entry) : (ordIns e l).length = l.length + 1 := by
  induction l with
  | nil => simp [ordIns]
  | cons x xs ih => simp only [ordIns]; split <;> simp [ih]

theorem sorted_ordIns (e : Entry) (l : List Entry) (hs : Sorted l) : Sorted (ordIns e l) := by
  induction l with
  | nil => simp [ordIns, Sorted]
  | cons x xs ih =>
    have hs' : Sorted xs := (List.pairwise_cons.1 hs).2
    have hx : ∀ y ∈ xs, x.vol ≥ y.vol := (List.pairwise_cons.1 hs).1
    simp only [ordIns]
    split
    · rename_i hxe
      refine List.pairwise_cons.2 ⟨?_, ih hs'⟩
      intro y hy
      rcases (mem_ordIns e xs y).1 hy with rfl | hy
      · exact hxe
      · exact hx y hy
    · rename_i hxe
      refine List.pairwise_cons.2 ⟨?_, hs⟩
      intro y hy
      rcases List.mem_cons.1 hy with rfl | hy
      · omega
      · have := hx y hy; omega

theorem map_addr_ordIns_perm (e : Entry) (l : List Entry) :
    ((ordIns e l).map (·.addr)).Perm (e.addr :: l.map (·.addr)) := by
  induction l with
  | nil => simp [ordIns]
  | cons x xs ih =>
    simp only [ordIns]
    split
    · simp only [List.map_cons]
      exact (List.Perm.cons _ ih).trans (List.Perm.swap _ _ _)
    · simp

theorem nodup_ordIns (e : Entry) (l : List Entry) (hn : (l.map (·.addr)).Nodup)
    (he : ∀ y ∈ l, y.addr ≠ e.addr) : ((ordIns e l).map (·.addr)).Nodup := by
  rw [(map_addr_ordIns_perm e l).nodup_iff]
  refine List.nodup_cons.2 ⟨?_, hn⟩
  intro hm
  obtain ⟨y, hy, hya⟩ := List.mem_map.1 hm
  exact he y hy hya

/-- if the last element is strictly smaller, insertion happens before it. -/
theorem ordIns_concat (e l : Entry) (xs : List Entry) (h : ¬ l.vol ≥ e.vol) :
    ordIns e (xs ++ [l]) = ordIns e xs ++ [l] := by
  induction xs with
  | nil => simp [ordIns, h]
  | cons x xs ih =>
    simp only [List.cons_append, ordIns]
    split
    · simp [ih]
    · simp

theorem insertPos_concat (l : Entry) (xs : List Entry) (v : Nat) :
    insertPos (xs ++ [l]) v = if l.vol ≥ v then xs.length + 1 else insertPos xs v := by
  induction xs with
  | nil => simp [insertPos]
  | cons x xs ih =>
    simp only [List.cons_append, insertPos, ih, List.length_cons]
    by_cases h : l.vol ≥ v
    · simp [h]
    · simp only [h, if_false]

/-! ### `removeAddr` -/

theorem removeAddr_of_not_mem (t : Nat) (l : List Entry) (h : ∀ y ∈ l, y.addr ≠ t) :
    removeAddr t l = l := by
  induction l with
  | nil => rfl
  | cons x xs ih =>
    simp only [removeAddr]
    have hx : x.addr ≠ t := h x (List.mem_cons_self ..)
    simp only [hx, if_false]
    rw [ih (fun y hy => h y (List.mem_cons_of_mem _ hy))]

theorem removeAddr_sublist (t : Nat) (l : List Entry) : (removeAddr t l).Sublist l := by
  induction l with
  | nil => simp [removeAddr]
  | cons x xs ih =>
    simp only [removeAddr]
    split
    · exact List.sublist_cons_self ..
    · exact ih.cons_cons _

theorem mem_of_mem_removeAddr {t : Nat} {l : List Entry} {y : Entry} (h : y ∈ removeAddr t l) : y ∈ l :=
  (removeAddr_sublist t l).subset h

theorem mem_removeAddr_of_ne {t : Nat} {l : List Entry} {y : Entry} (h : y ∈ l) (hy : y.addr ≠ t) :
    y ∈ removeAddr t l := by
  induction l with
  | nil => cases h
  | cons x xs ih =>
    simp only [removeAddr]
    rcases List.mem_cons.1 h with rfl | h
    · simp [hy]
    · split
      · exact h
      · exact List.mem_cons_of_mem _ (ih h)

theorem removeAddr_not_mem (t : Nat) (l : List Entry) (hn : (l.map (·.addr)).Nodup) :
    ∀ y ∈ removeAddr t l, y.addr ≠ t := by
  induction l with
  | nil => simp [removeAddr]
  | cons x xs ih =>
    simp only [List.map_cons, List.nodup_cons] at hn
    simp only [removeAddr]
    split
    · rename_i hx
      intro y hy hya
      apply hn.1
      rw [hx, ← hya]
      exact List.mem_map.2 ⟨y, hy, rfl⟩
    · rename_i hx
      intro y hy
      rcases List.mem_cons.1 hy with rfl | hy
      · exact hx
      · exact ih hn.2 y hy

theorem length_removeAddr_of_mem (t : Nat) (l : List Entry) (h : ∃ y ∈ l, y.addr = t) :
    (removeAddr t l).length + 1 = l.length := by
  induction l with
  | nil => obtain ⟨y, hy, _⟩ := h; cases hy
  | cons x xs ih =>
    simp only [removeAddr]
    split
    · simp
    · rename_i hx
      obtain ⟨y, hy, hya⟩ := h
      rcases List.mem_cons.1 hy with rfl | hy
      · exact absurd hya hx
      · simp [ih ⟨y, hy, hya⟩]

theorem sorted_sublist {l l' : List Entry} (h : l'.Sublist l) (hs : Sorted l) : Sorted l' :=
  List.Pairwise.sublist h hs

theorem nodup_sublist_map {l l' : List Entry} (h : l'.Sublist l) (hn : (l.map (·.addr)).Nodup) :
    (l'.map (·.addr)).Nodup :=
  List.Nodup.sublist (h.map _) hn

/-! ### The board invariant, relative to the participants' volumes `vol`. -/

structure BoardInv (b : List Entry) (vol : Nat → Nat) : Prop where
  len : b.length ≤ MAXLEN
  nodup : (b.map (·.addr)).Nodup
  sorted : Sorted b
  latest : ∀ e ∈ b, vol e.addr = e.vol
  /-- while the board is not full, everyone off the board has no counted volume -/
  notFull : b.length < MAXLEN → ∀ u, (∀ e ∈ b, e.addr ≠ u) → vol u = 0
  /-- on a full board everyone off the board is dominated by every entry -/
  full : b.length = MAXLEN → ∀ u, (∀ e ∈ b, e.addr ≠ u) → ∀ e ∈ b, vol u ≤ e.vol

theorem take_of_length_le {α} (l : List α) (n : Nat) (h : l.length ≤ n) : l.take n = l :=
  List.take_of_length_le h

/-- One `update_leaderboard` call after trader `t`'s volume moved from `vol t` up to `v`. -/
theorem boardInv_update {b : List Entry} {vol : Nat → Nat} (hI : BoardInv b vol) (t v : Nat)
    (hv : vol t ≤ v) :
    BoardInv (updateBoard b t v) (fun u => if u = t then v else vol u) := by
  obtain ⟨hlen, hnd, hs, hlat, hnf, hfull⟩ := hI
  have hsub := removeAddr_sublist t b
  have hs1 : Sorted (removeAddr t b) := sorted_sublist hsub hs
  have hnd1 := nodup_sublist_map hsub hnd
  have hnot1 := removeAddr_not_mem t b hnd
  unfold updateBoard
  by_cases hmem : ∃ y ∈ b, y.addr = t
  · -- trader already listed: removed, then reinserted in order
    have hl1 := length_removeAddr_of_mem t b hmem
    have hpos := insertPos_le_length (removeAddr t b) v
    have hlt : insertPos (removeAddr t b) v < MAXLEN := by omega
    simp only [hlt, if_true]
    have e1 := insertAt_insertPos (removeAddr t b) hs1 ⟨t, v⟩
    simp only at e1
    rw [e1, take_of_length_le _ _ (by rw [length_ordIns]; omega)]
    have hlen' : (ordIns ⟨t, v⟩ (removeAddr t b)).length = b.length := by rw [length_ordIns]; omega
    obtain ⟨y0, hy0, hy0t⟩ := hmem
    -- every new entry dominates every old entry's minimum
    have offb : ∀ u, u ≠ t → (∀ e ∈ ordIns ⟨t, v⟩ (removeAddr t b), e.addr ≠ u) → ∀ e ∈ b, e.addr ≠ u := by
      intro u hut h e he heu
      have : e.addr ≠ t := by omega
      exact h e ((mem_ordIns _ _ _).2 (Or.inr (mem_removeAddr_of_ne he this))) heu
    refine ⟨by omega, nodup_ordIns _ _ hnd1 (fun y hy => hnot1 y hy), sorted_ordIns _ _ hs1, ?_, ?_, ?_⟩
    · intro e he
      rcases (mem_ordIns _ _ _).1 he with rfl | he
      · simp
      · have := hnot1 e he
        simp only [this, if_false]
        exact hlat e (mem_of_mem_removeAddr he)
    · intro hl u hu
      by_cases hut : u = t
      · exact absurd hut.symm (hu ⟨t, v⟩ ((mem_ordIns _ _ _).2 (Or.inl rfl)))
      · simp only [hut, if_false]
        exact hnf (by omega) u (offb u hut hu)
    · intro hl u hu e he
      by_cases hut : u = t
      · exact absurd hut.symm (hu ⟨t, v⟩ ((mem_ordIns _ _ _).2 (Or.inl rfl)))
      · simp only [hut, if_false]
        have hub := offb u hut hu
        have hfl : b.length = MAXLEN := by omega
        rcases (mem_ordIns _ _ _).1 he with rfl | he
        · -- v ≥ vol t = y0.vol ≥ vol u
          have h1 := hfull hfl u hub y0 hy0
          have h2 := hlat y0 hy0
          rw [hy0t] at h2
          simp only; omega
        · exact hfull hfl u hub e (mem_of_mem_removeAddr he)
  · -- trader not listed
    have hno : ∀ y ∈ b, y.addr ≠ t := fun y hy hya => hmem ⟨y, hy, hya⟩
    rw [removeAddr_of_not_mem t b hno]
    by_cases hlt : insertPos b v < MAXLEN
    · simp only [hlt, if_true]
      have e1 := insertAt_insertPos b hs ⟨t, v⟩
      simp only at e1
      rw [e1]
      by_cases hl5 : b.length < MAXLEN
      · -- room left: plain ordered insertion
        rw [take_of_length_le _ _ (by rw [length_ordIns]; omega)]
        have offb : ∀ u, (∀ e ∈ ordIns ⟨t, v⟩ b, e.addr ≠ u) → ∀ e ∈ b, e.addr ≠ u :=
          fun u h e he => h e ((mem_ordIns _ _ _).2 (Or.inr he))
        refine ⟨by rw [length_ordIns]; omega, nodup_ordIns _ _ hnd hno, sorted_ordIns _ _ hs, ?_, ?_, ?_⟩
        · intro e he
          rcases (mem_ordIns _ _ _).1 he with rfl | he
          · simp
          · simp only [hno e he, if_false]; exact hlat e he
        · intro _ u hu
          by_cases hut : u = t
          · exact absurd hut.symm (hu ⟨t, v⟩ ((mem_ordIns _ _ _).2 (Or.inl rfl)))
          · simp only [hut, if_false]; exact hnf hl5 u (offb u hu)
        · intro _ u hu e _
          by_cases hut : u = t
          · exact absurd hut.symm (hu ⟨t, v⟩ ((mem_ordIns _ _ _).2 (Or.inl rfl)))
          · simp only [hut, if_false]; rw [hnf hl5 u (offb u hu)]; omega
      · -- full board and the last entry is strictly smaller: it drops out
        have hl : b.length = MAXLEN := by omega
        have hne : b ≠ [] := by intro h; rw [h] at hl; simp [MAXLEN] at hl
        obtain ⟨xs, l, rfl⟩ : ∃ xs l, b = xs ++ [l] :=
          ⟨b.dropLast, b.getLast hne, (List.dropLast_concat_getLast hne).symm⟩
        have hxl : xs.length + 1 = MAXLEN := by simpa using hl
        have hlv : ¬ l.vol ≥ v := by
          intro h
          rw [insertPos_concat] at hlt
          simp only [h, if_true] at hlt
          omega
        rw [ordIns_concat _ _ _ hlv]
        have hlen6 : (ordIns ⟨t, v⟩ xs).length = MAXLEN := by rw [length_ordIns]; omega
        rw [List.take_append_of_le_length (by omega), take_of_length_le _ _ (by omega)]
        have hsx : Sorted xs := sorted_sublist (List.sublist_append_left xs [l]) hs
        have hndx := nodup_sublist_map (List.sublist_append_left xs [l]) hnd
        have hxs_ge : ∀ y ∈ xs, y.vol ≥ l.vol := by
          intro y hy
          have := (List.pairwise_append.1 hs).2.2 y hy l (by simp)
          exact this
        have hall_ge : ∀ y ∈ ordIns ⟨t, v⟩ xs, y.vol ≥ l.vol := by
          intro y hy
          rcases (mem_ordIns _ _ _).1 hy with rfl | hy
          · simp only; omega
          · exact hxs_ge y hy
        refine ⟨by omega, nodup_ordIns _ _ hndx (fun y hy => hno y (List.mem_append_left _ hy)),
          sorted_ordIns _ _ hsx, ?_, ?_, ?_⟩
        · intro e he
          rcases (mem_ordIns _ _ _).1 he with rfl | he
          · simp
          · have hm : e ∈ xs ++ [l] := List.mem_append_left _ he
            simp only [hno e hm, if_false]; exact hlat e hm
        · intro h; omega
        · intro _ u hu e he
          by_cases hut : u = t
          · exact absurd hut.symm (hu ⟨t, v⟩ ((mem_ordIns _ _ _).2 (Or.inl rfl)))
          · simp only [hut, if_false]
            have hge := hall_ge e he
            by_cases hul : u = l.addr
            · have := hlat l (by simp)
              rw [hul, this]; exact hge
            · have hub : ∀ e ∈ xs ++ [l], e.addr ≠ u := by
                intro e' he'
                rcases List.mem_append.1 he' with h | h
                · exact hu e' ((mem_ordIns _ _ _).2 (Or.inr h))
                · have : e' = l := by simpa using h
                  rw [this]; omega
              have := hfull hl u hub l (by simp)
              omega
    · -- full board, every entry at least `v`: unchanged
      simp only [hlt, if_false]
      have hpos := insertPos_le_length b v
      have hl : b.length = MAXLEN := by omega
      have hne : b ≠ [] := by intro h; rw [h] at hl; simp [MAXLEN] at hl
      obtain ⟨xs, l, hb⟩ : ∃ xs l, b = xs ++ [l] :=
        ⟨b.dropLast, b.getLast hne, (List.dropLast_concat_getLast hne).symm⟩
      have hlv : l.vol ≥ v := by
        apply Classical.byContradiction
        intro h
        rw [hb, insertPos_concat] at hlt
        simp only [h, if_false] at hlt
        have := insertPos_le_length xs v
        rw [hb] at hl
        simp at hl
        omega
      have hlm : l ∈ b := by rw [hb]; simp
      have hall : ∀ e ∈ b, e.vol ≥ l.vol := by
        intro e he
        rw [hb] at he hs
        rcases List.mem_append.1 he with h | h
        · exact (List.pairwise_append.1 hs).2.2 e h l (by simp)
        · have : e = l := by simpa using h
          rw [this]; omega
      refine ⟨hlen, hnd, hs, ?_, ?_, ?_⟩
      · intro e he; simp only [hno e he, if_false]; exact hlat e he
      · intro h; omega
      · intro _ u hu e he
        by_cases hut : u = t
        · simp only [hut, if_true]; have := hall e he; omega
        · simp only [hut, if_false]; exact hfull hl u hu e he

/-! ### State level -/

/-- The state invariant: board invariant w.r.t. the participants' current volumes, and volumes
fit `u128`. -/
structure Inv (s : St) : Prop where
  board : BoardInv s.comp.board (volOf s)
  bounded : ∀ t, volOf s t ≤ U128MAX

theorem satAddU_le (a b : Nat) : satAddU a b ≤ U128MAX := by
  unfold satAddU; split <;> omega

theorem le_satAddU (a b : Nat) (ha : a ≤ U128MAX) : a ≤ satAddU a b := by
  unfold satAddU; split <;> omega

theorem applyTrade_board (c : Competition) (p : Part) (t : Nat) (now : Int) (volume : Nat) :
    (applyTrade c p t now volume).1.board = updateBoard c.board t (satAddU p.vol volume) := by
  simp only [applyTrade]
  generalize mergeDecision c p now volume = d
  obtain ⟨b, m⟩ := d
  cases b <;> simp [extend]

theorem applyTrade_vol (c : Competition) (p : Part) (t : Nat) (now : Int) (volume : Nat) :
    (applyTrade c p t now volume).2.vol = satAddU p.vol volume := by
  simp only [applyTrade]

theorem applyTrade_end (c : Competition) (p : Part) (t : Nat) (now : Int) (volume : Nat) :
    (applyTrade c p t now volume).1.end_ = c.end_ ∨
    (applyTrade c p t now volume).1.end_ = extendEnd c.end_ c.ext c.cap now := by
  simp only [applyTrade]
  generalize mergeDecision c p now volume = d
  obtain ⟨b, m⟩ := d
  cases b <;> simp [extend]

theorem applyTrade_params (c : Competition) (p : Part) (t : Nat) (now : Int) (volume : Nat) :
    (applyTrade c p t now volume).1.cap = c.cap ∧ (applyTrade c p t now volume).1.ext = c.ext ∧
    (applyTrade c p t now volume).1.start = c.start := by
  simp only [applyTrade]
  generalize mergeDecision c p now volume = d
  obtain ⟨b, m⟩ := d
  cases b <;> simp [extend]

/-- what a successful `on_executed` can do: nothing, or one counted trade. -/
theorem onExecuted_cases {s s' : St} {t : Nat} {now : Int} {kind ver extra : Nat} {success : Bool}
    {ev : Option (Nat × Nat × Nat)} (h : onExecuted s t now kind ver extra success ev = some s') :
    s' = s ∨ ∃ p volume, s.parts t = some p ∧ 0 < volume ∧ isOngoing s.comp now = true ∧
      s' = setPart { s with comp := (applyTrade s.comp p t now volume).1 } t
             (applyTrade s.comp p t now volume).2 := by
  unfold onExecuted at h
  split at h; · cases h
  split at h; · cases h
  split at h; · cases h
  split at h; · cases h; exact Or.inl rfl
  split at h; · cases h; exact Or.inl rfl
  rename_i hon
  split at h
  · cases h; exact Or.inl rfl
  · split at h; · cases h
    simp only at h
    split at h; · cases h; exact Or.inl rfl
    rename_i hv
    split at h
    · cases h
    · rename_i p hp
      cases h
      refine Or.inr ⟨p, _, hp, by omega, by simpa using hon, rfl⟩

theorem volOf_setPart (s : St) (t : Nat) (p : Part) (u : Nat) :
    volOf (setPart s t p) u = if u = t then p.vol else volOf s u := by
  unfold volOf setPart
  by_cases h : u = t <;> simp [h]

theorem inv_create {s : St} (h : Inv s) (t : Nat) (now : Int) : Inv (create s t now) := by
  unfold create
  split
  · exact h
  · rename_i hn
    have hv : volOf (setPart s t ⟨0, now, 0⟩) = volOf s := by
      funext u
      rw [volOf_setPart]
      by_cases hu : u = t
      · subst hu; simp [volOf, hn]
      · simp [hu]
    exact ⟨by rw [hv]; exact h.board, by rw [hv]; exact h.bounded⟩

theorem inv_counted {s : St} (h : Inv s) (t : Nat) (now : Int) (p : Part) (volume : Nat)
    (hp : s.parts t = some p) :
    Inv (setPart { s with comp := (applyTrade s.comp p t now volume).1 } t
          (applyTrade s.comp p t now volume).2) := by
  have hpv : volOf s t = p.vol := by simp [volOf, hp]
  have hb := h.bounded t
  have hv : volOf (setPart { s with comp := (applyTrade s.comp p t now volume).1 } t
          (applyTrade s.comp p t now volume).2) =
        fun u => if u = t then satAddU p.vol volume else volOf s u := by
    funext u
    rw [volOf_setPart, applyTrade_vol]
    rfl
  constructor
  · rw [hv]
    show BoardInv (applyTrade s.comp p t now volume).1.board _
    rw [applyTrade_board]
    exact boardInv_update h.board t _ (by rw [hpv]; exact le_satAddU _ _ (by omega))
  · intro u
    rw [hv]
    by_cases hu : u = t
    · simp only [hu, if_true]; exact satAddU_le _ _
    · simp only [hu, if_false]; exact h.bounded u

theorem inv_step {s : St} (h : Inv s) (op : Op) : Inv (step s op) := by
  cases op with
  | create t now => exact inv_create h t now
  | trade t now kind ver extra success ev =>
    simp only [step]
    cases hr : onExecuted s t now kind ver extra success ev with
    | none => exact h
    | some s' =>
      simp only [Option.getD]
      rcases onExecuted_cases hr with rfl | ⟨p, volume, hp, _, _, rfl⟩
      · exact h
      · exact inv_counted h t now p volume hp

theorem inv_run {s : St} (h : Inv s) (ops : List Op) : Inv (run s ops) := by
  induction ops generalizing s with
  | nil => exact h
  | cons op ops ih => exact ih (inv_step h op)

theorem inv_init (start end_ : Int) (threshold : Nat) (ext cap : Int) (onlyInc : Bool) (window : Int) :
    Inv (init start end_ threshold ext cap onlyInc window) := by
  refine ⟨⟨by simp [init, MAXLEN], by simp [init], by simp [init, Sorted], by simp [init], ?_, ?_⟩, ?_⟩
  · intro _ u _; simp [volOf, init]
  · intro h; simp [init, MAXLEN] at h
  · intro t; simp [volOf, init]

/-! ### Extension -/

theorem clampI_mono {a b : Int} (h : a ≤ b) : clampI a ≤ clampI b := by
  unfold clampI I64MAX I64MIN; repeat' split
  all_goals omega

theorem extendEnd_ge (old ext cap now : Int) : old ≤ extendEnd old ext cap now := by
  unfold extendEnd; simp only; repeat' split
  all_goals omega

theorem extendEnd_le (old ext cap now : Int) (hold : I64MIN ≤ old) :
    extendEnd old ext cap now ≤ old ∨ extendEnd old ext cap now ≤ now + cap := by
  unfold I64MIN at hold
  unfold extendEnd satAddI clampI I64MAX I64MIN; simp only
  repeat' split
  all_goals omega

/-- the end time after one operation, and the time the operation carried. -/
def opNow : Op → Int
  | .create _ now => now
  | .trade _ now .. => now

theorem step_end (s : St) (op : Op) :
    (step s op).comp.end_ = s.comp.end_ ∨
    (step s op).comp.end_ = extendEnd s.comp.end_ s.comp.ext s.comp.cap (opNow op) := by
  cases op with
  | create t now =>
    left; simp only [step, create]; split <;> rfl
  | trade t now kind ver extra success ev =>
    simp only [step, opNow]
    cases hr : onExecuted s t now kind ver extra success ev with
    | none => left; rfl
    | some s' =>
      simp only [Option.getD]
      rcases onExecuted_cases hr with rfl | ⟨p, volume, hp, _, _, rfl⟩
      · left; rfl
      · exact applyTrade_end s.comp p t now volume

theorem step_cap (s : St) (op : Op) : (step s op).comp.cap = s.comp.cap := by
  cases op with
  | create t now => simp only [step, create]; split <;> rfl
  | trade t now kind ver extra success ev =>
    simp only [step]
    cases hr : onExecuted s t now kind ver extra success ev with
    | none => rfl
    | some s' =>
      simp only [Option.getD]
      rcases onExecuted_cases hr with rfl | ⟨p, volume, hp, _, _, rfl⟩
      · rfl
      · exact (applyTrade_params s.comp p t now volume).1

end Gmx.Comp
