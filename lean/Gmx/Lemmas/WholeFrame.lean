import Gmx.Model.Whole
import Gmx.Lemmas.PerpIdx
import Gmx.Lemmas.PerpValue
import Gmx.Lemmas.Liquidity
import Gmx.Lemmas.Swap
/-! Frames of the whole-market operations: liquidity, clock, fee-state and distribution operations
write neither the six book pools (C07) nor the total-borrowing / index pools. No dependency on
the Props files, so that `Props/C07.lean` can state its headline over `PSys.wstep`. -/
namespace Gmx.Lem
open Gmx Gmx.Perp

/-! ### frames -/

/-- a liquidity operation writes only the liquidity / swap-impact / claimable-fee pools, the
virtual inventory for swaps and the supply. -/
theorem frame_same {m m' : Market}
    (h : m' = { m with primary := m'.primary, swapImpact := m'.swapImpact, fee := m'.fee, viSwaps := m'.viSwaps, supply := m'.supply }) :
    SameBook m m' ∧ SameIdx m m' :=
  ⟨⟨(congrArg Market.oiL h).symm, (congrArg Market.oiS h).symm, (congrArg Market.oitL h).symm, (congrArg Market.oitS h).symm,
    (congrArg Market.collL h).symm, (congrArg Market.collS h).symm⟩,
   ⟨(congrArg Market.totalBorrowing h).symm, (congrArg Market.borrowingFactor h).symm, (congrArg Market.fapsL h).symm,
    (congrArg Market.fapsS h).symm, (congrArg Market.cfapsL h).symm, (congrArg Market.cfapsS h).symm⟩⟩

theorem frame4_same {m m' : Market}
    (h : m' = { m with primary := m'.primary, swapImpact := m'.swapImpact, fee := m'.fee, viSwaps := m'.viSwaps }) :
    SameBook m m' ∧ SameIdx m m' :=
  ⟨⟨(congrArg Market.oiL h).symm, (congrArg Market.oiS h).symm, (congrArg Market.oitL h).symm, (congrArg Market.oitS h).symm,
    (congrArg Market.collL h).symm, (congrArg Market.collS h).symm⟩,
   ⟨(congrArg Market.totalBorrowing h).symm, (congrArg Market.borrowingFactor h).symm, (congrArg Market.fapsL h).symm,
    (congrArg Market.fapsS h).symm, (congrArg Market.cfapsL h).symm, (congrArg Market.cfapsS h).symm⟩⟩

theorem SameIdx.toIdxLe {a b : Market} (h : SameIdx a b) : IdxLe a b := by
  obtain ⟨_, h2, h3, h4, h5, h6⟩ := h
  unfold IdxLe
  rw [h2, h3, h4, h5, h6]
  exact ⟨Nat.le_refl _, Nat.le_refl _, Nat.le_refl _, Nat.le_refl _, Nat.le_refl _, Nat.le_refl _, Nat.le_refl _, Nat.le_refl _,
    Nat.le_refl _, Nat.le_refl _⟩

theorem IdxLe.refl (a : Market) : IdxLe a a := (SameIdx.refl a).toIdxLe

theorem IdxLe.trans {a b c : Market} (h1 : IdxLe a b) (h2 : IdxLe b c) : IdxLe a c := by
  unfold IdxLe at *
  omega

theorem withdraw_same {W U : Nat} {m m' : Market} {w : WithdrawParams} {pin : PerpIn} {r : WithdrawReport}
    (h : withdraw W U m w pin = (m', .ok r)) : SameBook m m' ∧ SameIdx m m' := by
  have f := (withdraw_spec h).frame
  have : m' = { m with primary := m'.primary, swapImpact := m'.swapImpact, fee := m'.fee, viSwaps := m'.viSwaps, supply := m'.supply } := by
    have hs : m'.swapImpact = m.swapImpact := by rw [f]
    rw [hs]; exact f
  exact frame_same this

theorem swap_same {W U : Nat} {m m' : Market} {q : SwapParams} {c : SwapCalc}
    (h : swap W U m q = .ok (m', c)) : SameBook m m' ∧ SameIdx m m' := by
  unfold swap at h
  repeat' (split at h)
  all_goals first | (cases h; done) | skip
  cases h
  exact frame4_same (swapApply_spec ‹swapApply W m q _ = some _›).frame

theorem deposit_same {W U : Nat} {m m' : Market} {d : DepositParams} {pin : PerpIn} {t : DepositTrace}
    (h : deposit W U m d pin = (m', .ok t)) : SameBook m m' ∧ SameIdx m m' := by
  obtain ⟨mL, mS, hL, hL0, hS, hS0, hm, _⟩ := (deposit_spec h).sides
  have a : SameBook m mL ∧ SameIdx m mL := by
    by_cases h0 : d.long = 0
    · rw [(hL0 h0).1]; exact ⟨SameBook.refl _, SameIdx.refl _⟩
    · exact frame4_same (hL h0).frame
  have b : SameBook mL mS ∧ SameIdx mL mS := by
    by_cases h0 : d.short = 0
    · rw [(hS0 h0).1]; exact ⟨SameBook.refl _, SameIdx.refl _⟩
    · exact frame4_same (hS h0).frame
  have c : SameBook mS m' ∧ SameIdx mS m' :=
    ⟨⟨(congrArg Market.oiL hm).symm, (congrArg Market.oiS hm).symm, (congrArg Market.oitL hm).symm, (congrArg Market.oitS hm).symm,
      (congrArg Market.collL hm).symm, (congrArg Market.collS hm).symm⟩,
     ⟨(congrArg Market.totalBorrowing hm).symm, (congrArg Market.borrowingFactor hm).symm, (congrArg Market.fapsL hm).symm,
      (congrArg Market.fapsS hm).symm, (congrArg Market.cfapsL hm).symm, (congrArg Market.cfapsS hm).symm⟩⟩
  exact ⟨(a.1.trans b.1).trans c.1, (a.2.trans b.2).trans c.2⟩

theorem distribute_same {W U : Nat} {m m' : Market} {r : DistReport}
    (h : distributePositionImpact W U m = (m', some r)) : SameBook m m' ∧ SameIdx m m' := by
  unfold distributePositionImpact at h
  simp only at h
  repeat' (split at h)
  all_goals first | (cases h; done) | skip
  all_goals (cases h; exact ⟨⟨rfl, rfl, rfl, rfl, rfl, rfl⟩, ⟨rfl, rfl, rfl, rfl, rfl, rfl⟩⟩)

theorem updFunding_sameBook {W U : Nat} {m m' : Market} {rc : RateCfg} {pr : Prices}
    (h : marketUpdateFunding W U m rc pr = .ok m') : SameBook m m' := by
  unfold marketUpdateFunding at h
  repeat' (split at h)
  all_goals first | (cases h; done) | (cases h; exact ⟨rfl, rfl, rfl, rfl, rfl, rfl⟩)

theorem updBorrowing_sameBook {W U : Nat} {m m' : Market} {rc : RateCfg} {pr : Prices}
    (h : marketUpdateBorrowing W U m rc pr = .ok m') : SameBook m m' := by
  unfold marketUpdateBorrowing at h
  repeat' (split at h)
  all_goals first | (cases h; done) | (cases h; exact ⟨rfl, rfl, rfl, rfl, rfl, rfl⟩)

/-- no liquidity / clock / fee-state / distribution operation writes the six book pools. -/
theorem wMarketOp_sameBook {W U : Nat} {rc : RateCfg} {m m' : Market} {o : WOp} (h : wMarketOp W U rc m o = some m') :
    SameBook m m' := by
  cases o <;> simp only [wMarketOp, reduceCtorEq] at h
  · repeat' (split at h)
    all_goals first | (cases h; done) | skip
    cases h; exact (deposit_same ‹deposit W U m _ _ = (_, Except.ok _)›).1
  · repeat' (split at h)
    all_goals first | (cases h; done) | skip
    cases h; exact (withdraw_same ‹withdraw W U m _ _ = (_, Except.ok _)›).1
  · repeat' (split at h)
    all_goals first | (cases h; done) | skip
    cases h; exact (swap_same ‹swap W U m _ = Except.ok (_, _)›).1
  · cases h; exact ⟨rfl, rfl, rfl, rfl, rfl, rfl⟩
  · simp only [Except.toOption] at h
    split at h
    · rename_i hu; cases h; exact updFunding_sameBook hu
    · cases h
  · simp only [Except.toOption] at h
    split at h
    · rename_i hu; cases h; exact updBorrowing_sameBook hu
    · cases h
  · repeat' (split at h)
    all_goals first | (cases h; done) | skip
    cases h; exact (distribute_same ‹distributePositionImpact W U m = (_, some _)›).1

end Gmx.Lem
