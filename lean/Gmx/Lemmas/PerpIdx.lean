import Gmx.Lemmas.PerpBook
/-! Frame lemmas for the whole-market invariants: the collateral processor never touches the total
borrowing pool, the cumulative borrowing factor or the funding / claimable-funding index pools.
(Mechanical copy of the `SameBook` family of `Lemmas/PerpBook.lean` for the predicate `SameIdx`.) -/
namespace Gmx.Lem
open Gmx Gmx.Perp

def SameIdx (a b : Market) : Prop :=
  a.totalBorrowing = b.totalBorrowing ∧ a.borrowingFactor = b.borrowingFactor ∧ a.fapsL = b.fapsL ∧ a.fapsS = b.fapsS ∧ a.cfapsL = b.cfapsL ∧ a.cfapsS = b.cfapsS

theorem SameIdx.refl (a : Market) : SameIdx a a := ⟨rfl, rfl, rfl, rfl, rfl, rfl⟩
theorem SameIdx.trans {a b c : Market} (h1 : SameIdx a b) (h2 : SameIdx b c) : SameIdx a c := by
  obtain ⟨a1, a2, a3, a4, a5, a6⟩ := h1
  obtain ⟨b1, b2, b3, b4, b5, b6⟩ := h2
  exact ⟨a1.trans b1, a2.trans b2, a3.trans b3, a4.trans b4, a5.trans b5, a6.trans b6⟩
theorem SameIdx.symm {a b : Market} (h : SameIdx a b) : SameIdx b a := by
  obtain ⟨a1, a2, a3, a4, a5, a6⟩ := h
  exact ⟨a1.symm, a2.symm, a3.symm, a4.symm, a5.symm, a6.symm⟩

theorem applyDelta_sameIdx {W : Nat} {m m' : Market} {il : Bool} {d : Int} (h : m.applyDelta W il d = some m') :
    SameIdx m m' := by
  unfold Market.applyDelta at h
  split at h
  · cases h
  · split at h
    · cases h; exact SameIdx.refl _
    · split at h
      · cases h
      · cases h; exact SameIdx.refl _

theorem payToPrimaryPool_sameIdx {W : Nat} {x : PCtx} {m m' : Market} {a b : Nat}
    (h : payToPrimaryPool W x m a b = some m') : SameIdx m m' := by
  unfold payToPrimaryPool at h
  split at h
  · rename_i sa sb _ _
    simp only at h
    by_cases ha : sa = 0
    · simp only [ha, if_true] at h
      by_cases hb : sb = 0
      · simp only [hb, if_true] at h; cases h; exact SameIdx.refl _
      · simp only [hb, if_false] at h; exact applyDelta_sameIdx h
    · simp only [ha, if_false] at h
      split at h
      · cases h
      · rename_i m1 h1
        by_cases hb : sb = 0
        · simp only [hb, if_true] at h; cases h; exact applyDelta_sameIdx h1
        · simp only [hb, if_false] at h; exact (applyDelta_sameIdx h1).trans (applyDelta_sameIdx h)
  · cases h

/-- the market of a processor result keeps the C07 pools of `m`. -/
def PRes.IdxOk (m : Market) : PRes → Prop
  | .ok s => SameIdx m s.m
  | .short _ s => SameIdx m s.m
  | .err _ => True

theorem payForCost_idx {W : Nat} {x : PCtx} {s : PState} {cost : Nat} {step : Step}
    {receive : PState → Nat → Nat → Nat → Option PState}
    (hr : ∀ s1 pc ps left s2, receive s1 pc ps left = some s2 → SameIdx s1.m s2.m) :
    PRes.IdxOk s.m (payForCost W x s cost step receive) := by
  unfold payForCost
  split
  · trivial
  · rename_i s1 pc ps left hd
    have hm := doPayForCost_m hd
    split
    · trivial
    · rename_i s2 h2
      have := hr _ _ _ _ _ h2
      rw [hm] at this
      split <;> exact this

theorem addPnlIfPositive_idx {W : Nat} {x : PCtx} {s s' : PState} {pnl : Int}
    (h : addPnlIfPositive W x s pnl = some s') : SameIdx s.m s'.m := by
  unfold addPnlIfPositive at h
  split at h
  · split at h
    · cases h
    · rename_i d _
      split at h
      · cases h
      · rename_i m1 hm1
        have e := addPnlTokenAmount_m h
        simp only at e
        cases hn : toOppositeSigned W d with
        | none => simp [hn] at hm1
        | some nd =>
          simp only [hn, Option.bind] at hm1
          have := applyDelta_sameIdx hm1
          rw [e]; exact this
  · cases h; exact SameIdx.refl _

theorem addImpactIfPositive_idx {W : Nat} {x : PCtx} {s s' : PState} {impact : Int}
    (h : addImpactIfPositive W x s impact = some s') : SameIdx s.m s'.m := by
  unfold addImpactIfPositive at h
  split at h
  · split at h
    · cases h
    · split at h
      · cases h
      · rename_i ip _
        split at h
        · cases h
        · rename_i d _
          split at h
          · cases h
          · rename_i m1 hm1
            have e := addPnlTokenAmount_m h
            simp only at e
            cases hn : toOppositeSigned W d with
            | none => simp [hn] at hm1
            | some nd =>
              simp only [hn, Option.bind] at hm1
              have := applyDelta_sameIdx hm1
              rw [e]
              exact SameIdx.trans ⟨rfl, rfl, rfl, rfl, rfl, rfl⟩ this
  · cases h; exact SameIdx.refl _

theorem payForFunding_idx {W : Nat} {x : PCtx} {s : PState} {fa : Nat} :
    PRes.IdxOk s.m (payForFunding W x s fa) := by
  unfold payForFunding
  split
  · exact SameIdx.refl _
  · split
    · trivial
    · apply payForCost_idx
      intro s1 pc ps left s2 h
      unfold recvFunding at h
      split at h
      · cases h
      · cases h; exact SameIdx.refl _

theorem payForPnl_idx {W : Nat} {x : PCtx} {s : PState} {pnl : Int} :
    PRes.IdxOk s.m (payForPnl W x s pnl) := by
  unfold payForPnl
  split
  · apply payForCost_idx
    intro s1 pc ps left s2 h
    unfold recvToPool at h
    cases hp : payToPrimaryPool W x s1.m pc ps with
    | none => simp [hp] at h
    | some m1 => simp [hp] at h; subst h; exact payToPrimaryPool_sameIdx hp
  · exact SameIdx.refl _

theorem payForDiff_idx {W : Nat} {x : PCtx} {s : PState} {diff : Nat} :
    PRes.IdxOk s.m (payForDiff W x s diff) := by
  unfold payForDiff
  split
  · exact SameIdx.refl _
  · apply payForCost_idx
    intro s1 pc ps left s2 h
    unfold recvDiff at h
    split at h
    · cases h; exact SameIdx.refl _
    · cases h

theorem creditImpactPool_idx {W : Nat} {m m' : Market} {a pa pb : Nat}
    (h : creditImpactPool W m a pa pb = some m') : SameIdx m m' := by
  unfold creditImpactPool at h
  split at h
  · cases h1 : (mulDiv W a pa pb).bind (toSigned W) with
    | none => rw [h1] at h; cases h
    | some d =>
      rw [h1] at h
      simp only [Option.bind] at h
      cases h2 : m.positionImpact.applyDelta W true d with
      | none => rw [h2] at h; cases h
      | some ip => rw [h2] at h; cases h; exact ⟨rfl, rfl, rfl, rfl, rfl, rfl⟩
  · cases h; exact SameIdx.refl _

theorem payForImpact_idx {W : Nat} {x : PCtx} {s : PState} {impact : Int} :
    PRes.IdxOk s.m (payForImpact W x s impact) := by
  unfold payForImpact
  split
  · apply payForCost_idx
    intro s1 pc ps left s2 h
    unfold recvImpact at h
    split at h
    · cases h
    · rename_i m1 hm1
      split at h
      · cases h
      · rename_i m2 hm2
        split at h
        · cases h
        · rename_i m3 hm3
          cases h
          exact ((payToPrimaryPool_sameIdx hm1).trans (creditImpactPool_idx hm2)).trans (creditImpactPool_idx hm3)
  · exact SameIdx.refl _

theorem payForFees_idx {W : Nat} {x : PCtx} {s : PState} {fees : PosFees} :
    PRes.IdxOk s.m (payForFees W x s fees).1 := by
  unfold payForFees
  split
  · trivial
  · split
    · exact SameIdx.refl _
    · split
      · trivial
      · split
        · trivial
        · rename_i s1 pc ps left hd
          have hm := doPayForCost_m hd
          split
          · split
            · rename_i fp fr _ _
              split
              · trivial
              · rename_i m1 hm1
                split
                · trivial
                · have := applyDelta_sameIdx hm1
                  rw [hm] at this
                  exact this.trans ⟨rfl, rfl, rfl, rfl, rfl, rfl⟩
            · trivial
          · split
            · trivial
            · rename_i m1 hm1
              have := payToPrimaryPool_sameIdx hm1
              rw [hm] at this
              simp only
              split <;> exact this

/-- **the collateral processor never touches the C07 pools.** -/
theorem processCollateral_idx {W : Nat} {x : PCtx} {s0 s : PState} {pnl impact : Int} {diff : Nat}
    {fees f : PosFees} {ins : Bool} {st : Option Step}
    (h : processCollateral W x s0 pnl impact diff fees ins = .ok (s, f, st)) : SameIdx s0.m s.m := by
  unfold processCollateral at h
  simp only at h
  cases h1 : (addPnlIfPositive W x s0 pnl).bind (fun s => addImpactIfPositive W x s impact) with
  | none => simp [h1] at h
  | some s1 =>
    have b1 : SameIdx s0.m s1.m := by
      cases ha : addPnlIfPositive W x s0 pnl with
      | none => simp [ha] at h1
      | some sa =>
        simp only [ha, Option.bind] at h1
        exact (addPnlIfPositive_idx ha).trans (addImpactIfPositive_idx h1)
    simp only [h1] at h
    have k2 := @payForFunding_idx W x s1 fees.fundAmount
    cases h2 : payForFunding W x s1 fees.fundAmount with
    | err e => simp [h2] at h
    | short st2 s2 =>
      rw [h2] at k2
      simp only [h2] at h
      split at h <;> cases h
      exact b1.trans k2
    | ok s2 =>
      rw [h2] at k2
      simp only [h2] at h
      have k3 := @payForPnl_idx W x s2 pnl
      cases h3 : payForPnl W x s2 pnl with
      | err e => simp [h3] at h
      | short st3 s3 =>
        rw [h3] at k3
        simp only [h3] at h
        split at h <;> cases h
        exact (b1.trans k2).trans k3
      | ok s3 =>
        rw [h3] at k3
        simp only [h3] at h
        have k4 := @payForFees_idx W x s3 fees
        cases h4 : payForFees W x s3 fees with
        | mk r4 f4 =>
          rw [h4] at k4
          simp only [h4] at h
          cases r4 with
          | err e => simp at h
          | short st4 s4 =>
            simp only at h
            split at h <;> cases h
            exact ((b1.trans k2).trans k3).trans k4
          | ok s4 =>
            simp only at h
            have k5 := @payForImpact_idx W x s4 impact
            cases h5 : payForImpact W x s4 impact with
            | err e => simp [h5] at h
            | short st5 s5 =>
              rw [h5] at k5
              simp only [h5] at h
              split at h <;> cases h
              exact (((b1.trans k2).trans k3).trans k4).trans k5
            | ok s5 =>
              rw [h5] at k5
              simp only [h5] at h
              have k6 := @payForDiff_idx W x s5 diff
              cases h6 : payForDiff W x s5 diff with
              | err e => simp [h6] at h
              | short st6 s6 =>
                rw [h6] at k6
                simp only [h6] at h
                split at h <;> cases h
                exact ((((b1.trans k2).trans k3).trans k4).trans k5).trans k6
              | ok s6 =>
                rw [h6] at k6
                simp only [h6] at h
                cases h
                exact ((((b1.trans k2).trans k3).trans k4).trans k5).trans k6

end Gmx.Lem

namespace Gmx.Lem
open Gmx Gmx.Perp


end Gmx.Lem
