import Gmx.Model.PriceDecimal
/-! helper lemmas for C26 (core only) -/
namespace Gmx.PriceDecimal
open Gmx

theorem pow_pos10 (k : Nat) : 0 < 10 ^ k := Nat.pow_pos (by omega)

/-- `q ≥ d`: the exact value is a pure multiplication -/
theorem exact_ge {p d q : Nat} (h : d ≤ q) : exactValue p d q = p * 10 ^ (q - d) := by
  unfold exactValue
  have : 10 ^ q = 10 ^ (q - d) * 10 ^ d := by rw [← Nat.pow_add]; congr 1; omega
  rw [this, ← Nat.mul_assoc, Nat.mul_div_cancel _ (pow_pos10 d)]

/-- `q < d`: the exact value is a single division -/
theorem exact_lt {p d q : Nat} (h : q ≤ d) : exactValue p d q = p / 10 ^ (d - q) := by
  unfold exactValue
  have : 10 ^ d = 10 ^ (d - q) * 10 ^ q := by rw [← Nat.pow_add]; congr 1; omega
  rw [this, Nat.mul_div_mul_right _ _ (pow_pos10 q)]

theorem pow_split {a b c : Nat} (h : a = b + c) : 10 ^ a = 10 ^ b * 10 ^ c := by
  rw [h, Nat.pow_add]

theorem big_div {x k : Nat} (hx : 2 ^ 128 ≤ x) (hk : k ≤ 20) : 2 ^ 32 ≤ x / 10 ^ k := by
  rw [Nat.le_div_iff_mul_le (pow_pos10 k)]
  have h1 : 10 ^ k ≤ 10 ^ 20 := Nat.pow_le_pow_right (by omega) hk
  have h2 : 2 ^ 32 * 10 ^ 20 ≤ 2 ^ 128 := by decide
  calc 2 ^ 32 * 10 ^ k ≤ 2 ^ 32 * 10 ^ 20 := Nat.mul_le_mul_left _ h1
    _ ≤ 2 ^ 128 := h2
    _ ≤ x := hx

theorem le_mul_pow (x k : Nat) : x ≤ x * 10 ^ k := Nat.le_mul_of_pos_right _ (pow_pos10 k)

/-- what the function computes on valid decimal settings -/
def spec (p d t q : Nat) : Except DecErr Decimal :=
  if exactValue p d q < 2 ^ 32 then .ok ⟨exactValue p d q, 20 - t - q⟩ else .error .overflow

/-- a checked multiplication followed by the u32 fit test = fit test on the exact product -/
theorem mul_then_fit (x k dm : Nat) :
    finish dm (checkedMul 128 x (10 ^ k)) =
    (if x * 10 ^ k < 2 ^ 32 then .ok ⟨x * 10 ^ k, dm⟩ else .error .overflow) := by
  unfold checkedMul toU
  by_cases h : x * 10 ^ k < 2 ^ 128
  · simp [h, finish]
  · have : ¬ x * 10 ^ k < 2 ^ 32 := by
      have : (2:Nat) ^ 32 ≤ 2 ^ 128 := by decide
      omega
    simp [h, this, finish]


theorem div_then_fit (v dm : Nat) :
    finish dm (some v) =
    (if v < 2 ^ 32 then .ok ⟨v, dm⟩ else .error .overflow) := rfl

/-- `d < t`: the two shapes of the exact value after the pre-multiplication -/
theorem exact_dlt {p d t q : Nat} (hdt : d < t) :
    (t ≤ q → exactValue p d q = p * 10 ^ (t - d) * 10 ^ (q - t)) ∧
    (q < t → exactValue p d q = p * 10 ^ (t - d) / 10 ^ (t - q)) := by
  constructor
  · intro h
    rw [exact_ge (by omega), Nat.mul_assoc, ← Nat.pow_add]
    congr 2; omega
  · intro h
    by_cases hq : d ≤ q
    · rw [exact_ge hq, pow_split (show t - d = (q - d) + (t - q) by omega), ← Nat.mul_assoc,
        Nat.mul_div_cancel _ (pow_pos10 _)]
    · rw [exact_lt (by omega), pow_split (show t - q = (d - q) + (t - d) by omega),
        Nat.mul_div_mul_right _ _ (pow_pos10 _)]

theorem tryFromPrice_eq_spec {p d t q : Nat} (hd : d ≤ 20) (ht : t ≤ 20) (hq : q ≤ 20) (htq : t + q ≤ 20) :
    tryFromPrice p d t q = spec p d t q := by
  unfold tryFromPrice spec
  rw [if_neg (show ¬ (t > 20 ∨ q > 20 ∨ d > 20) by omega), if_neg (show ¬ t + q > 20 by omega)]
  by_cases h1 : d = t
  · subst h1
    simp only [if_true]
    by_cases h2 : d ≤ q
    · rw [if_pos (show 20 ≥ 2 * d + (20 - d - q) by omega)]
      rw [show 20 - (2 * d + (20 - d - q)) = q - d by omega, mul_then_fit, exact_ge h2]
    · rw [if_neg (show ¬ 20 ≥ 2 * d + (20 - d - q) by omega)]
      rw [show 2 * d + (20 - d - q) - 20 = d - q by omega, div_then_fit, exact_lt (by omega)]
  · by_cases h3 : d < t
    · simp only [h1, if_false, h3, if_true]
      obtain ⟨e1, e2⟩ := exact_dlt (p := p) (q := q) h3
      unfold checkedMul toU
      by_cases hov : p * 10 ^ (t - d) < 2 ^ 128
      · simp only [hov, if_true, Option.map_some]
        by_cases h2 : t ≤ q
        · rw [if_pos (show 20 ≥ 2 * t + (20 - t - q) by omega)]
          rw [show 20 - (2 * t + (20 - t - q)) = q - t by omega]
          have := mul_then_fit (p * 10 ^ (t - d)) (q - t) (20 - t - q)
          unfold checkedMul toU at this
          rw [this, e1 h2]
        · rw [if_neg (show ¬ 20 ≥ 2 * t + (20 - t - q) by omega)]
          rw [show 2 * t + (20 - t - q) - 20 = t - q by omega, div_then_fit, e2 (by omega)]
      · simp only [hov, if_false, Option.map_none]
        have hbig : ¬ exactValue p d q < 2 ^ 32 := by
          by_cases h2 : t ≤ q
          · rw [e1 h2]
            have := le_mul_pow (p * 10 ^ (t - d)) (q - t)
            have : (2:Nat) ^ 32 ≤ 2 ^ 128 := by decide
            omega
          · rw [e2 (by omega)]
            have := big_div (x := p * 10 ^ (t - d)) (k := t - q) (by omega) (by omega)
            omega
        rw [if_neg hbig]
    · have h4 : t < d := by omega
      simp only [h1, if_false, h3]
      by_cases h2 : t ≤ q
      · rw [if_pos (show 20 ≥ 2 * t + (20 - t - q) by omega)]
        rw [show 20 - (2 * t + (20 - t - q)) = q - t by omega]
        by_cases h5 : d ≤ q
        · rw [if_pos (show q - t ≥ d - t by omega), show q - t - (d - t) = q - d by omega, mul_then_fit, exact_ge h5]
        · rw [if_neg (show ¬ q - t ≥ d - t by omega), show d - t - (q - t) = d - q by omega, div_then_fit, exact_lt (by omega)]
      · rw [if_neg (show ¬ 20 ≥ 2 * t + (20 - t - q) by omega)]
        rw [show 2 * t + (20 - t - q) - 20 = t - q by omega, div_then_fit, Nat.div_div_eq_div_mul, ← Nat.pow_add,
          show t - q + (d - t) = d - q by omega, exact_lt (by omega)]


theorem floor_bounds (n c : Nat) (hc : 0 < c) : (n / c) * c ≤ n ∧ n < (n / c + 1) * c := by
  have h1 := Nat.div_add_mod n c
  have h2 := Nat.mod_lt n hc
  constructor
  · rw [Nat.mul_comm]; omega
  · rw [Nat.add_mul, Nat.mul_comm]; omega

theorem checkedPow10_eq (e : Nat) : checkedPow10 e = toU 64 (10 ^ e) := by
  unfold checkedPow10 toU
  by_cases h : e ≤ 19
  · have h1 : 10 ^ e ≤ 10 ^ 19 := Nat.pow_le_pow_right (by omega) h
    have h2 : (10:Nat) ^ 19 < 2 ^ 64 := by decide
    rw [if_pos h, if_pos (by omega)]
  · have h1 : 10 ^ 20 ≤ 10 ^ e := Nat.pow_le_pow_right (by omega) (by omega)
    have h2 : (2:Nat) ^ 64 ≤ 10 ^ 20 := by decide
    rw [if_neg h, if_neg (by omega)]

theorem pythPre_spec {value : Nat} {e : Int} {v d : Nat} (h : pythPre value e = .ok (v, d)) :
    (e ≤ 0 → v = value ∧ d = (-e).toNat) ∧ (0 < e → v = value * 10 ^ e.toNat ∧ d = 0) := by
  unfold pythPre at h
  by_cases he : e ≤ 0
  · rw [if_pos he] at h
    split at h
    · cases h; exact ⟨fun _ => ⟨rfl, rfl⟩, fun hc => by omega⟩
    · cases h
  · rw [if_neg he] at h
    split at h
    · cases h
    · rename_i f hf
      split at h
      · cases h
      · rename_i v' hv'
        cases h
        unfold checkedPow10 at hf
        split at hf
        · cases hf
          unfold checkedMul toU at hv'
          split at hv'
          · cases hv'; exact ⟨fun hc => by omega, fun _ => ⟨rfl, rfl⟩⟩
          · cases hv'
        · cases hf

/-- generic: `countBelow` on a table -/
theorem countBelow_le (num : Nat) (T : List Nat) : countBelow num T ≤ T.length := by
  induction T with
  | nil => simp [countBelow]
  | cons b bs ih => simp only [countBelow]; split <;> simp <;> omega

theorem countBelow_below (num : Nat) (T : List Nat) :
    ∀ j b, j < countBelow num T → T[j]? = some b → b < num := by
  induction T with
  | nil => intro j b h; simp [countBelow] at h
  | cons x xs ih =>
    intro j b h hb
    simp only [countBelow] at h
    split at h
    · cases j with
      | zero => simp at hb; omega
      | succ j => simp at hb; exact ih j b (by omega) hb
    · omega

theorem countBelow_stop (num : Nat) (T : List Nat) :
    ∀ b, T[countBelow num T]? = some b → num ≤ b := by
  induction T with
  | nil => intro b h; simp at h
  | cons x xs ih =>
    intro b hb
    simp only [countBelow] at hb
    split at hb
    · rw [Nat.add_comm] at hb; simp at hb; exact ih b hb
    · simp at hb; omega

/-- the literal table is `10^i · (2^128 − 1)` -/
theorem powerBounds_eq : powerBounds = (List.range 20).map fun i => 10 ^ i * (2 ^ 128 - 1) := by decide

theorem powerBounds_get {i : Nat} (h : i < 20) : powerBounds[i]? = some (10 ^ i * (2 ^ 128 - 1)) := by
  rw [powerBounds_eq]; simp [h]

theorem findDivisor_spec' (num : Nat) (h : num < 2 ^ 192) :
    findDivisorDecimals num ≤ 20 ∧ num / 10 ^ findDivisorDecimals num < 2 ^ 128 ∧
    (findDivisorDecimals num ≠ 0 → 2 ^ 128 - 1 ≤ num / 10 ^ (findDivisorDecimals num - 1)) := by
  have hle : findDivisorDecimals num ≤ 20 := countBelow_le num powerBounds
  refine ⟨hle, ?_, ?_⟩
  · rw [Nat.div_lt_iff_lt_mul (pow_pos10 _)]
    by_cases h20 : findDivisorDecimals num = 20
    · rw [h20]
      have : (2:Nat) ^ 192 ≤ 2 ^ 128 * 10 ^ 20 := by decide
      omega
    · have hlt : findDivisorDecimals num < 20 := by omega
      have := countBelow_stop num powerBounds _ (powerBounds_get hlt)
      have hp := pow_pos10 (findDivisorDecimals num)
      calc num ≤ 10 ^ findDivisorDecimals num * (2 ^ 128 - 1) := this
        _ < 10 ^ findDivisorDecimals num * 2 ^ 128 := Nat.mul_lt_mul_of_pos_left (by decide) hp
        _ = 2 ^ 128 * 10 ^ findDivisorDecimals num := Nat.mul_comm _ _
  · intro hne
    have hj : findDivisorDecimals num - 1 < findDivisorDecimals num := by omega
    have := countBelow_below num powerBounds _ _ hj (powerBounds_get (by omega))
    rw [Nat.le_div_iff_mul_le (pow_pos10 _), Nat.mul_comm]
    omega


end Gmx.PriceDecimal
