import Gmx.Model.LpStake
/-! Helper lemmas for C38: per-second sums over weekly buckets, saturating arithmetic. -/
namespace Gmx.Lp
open Gmx

/-- `Σ_{s<n} f s`. -/
def sumTo (f : Nat → Nat) : Nat → Nat
  | 0 => 0
  | n + 1 => sumTo f n + f n

/-- the bucket of elapsed second `s`. -/
def bucket (s : Nat) : Nat := if s / WEEK ≤ LAST then s / WEEK else LAST

/-- the exact per-second total the APY averages. -/
def exactTotal (g : Nat → Nat) (T : Nat) : Nat := sumTo (fun s => g (bucket s)) T

theorem sumTo_le_mul (f : Nat → Nat) (M : Nat) (h : ∀ i, f i ≤ M) : ∀ n, sumTo f n ≤ n * M
  | 0 => by simp [sumTo]
  | n + 1 => by
    have := sumTo_le_mul f M h n
    have := h n
    simp only [sumTo, Nat.add_mul, Nat.one_mul]
    omega

theorem div_week (k r : Nat) (hr : r < WEEK) : (k * WEEK + r) / WEEK = k := by
  have hW : 0 < WEEK := by decide
  rw [Nat.add_comm, Nat.add_mul_div_right _ _ hW, Nat.div_eq_of_lt hr]; simp

theorem sumTo_succ (f : Nat → Nat) (n : Nat) : sumTo f (n + 1) = sumTo f n + f n := rfl

/-- a sum of a function of `s / WEEK` over `k` full weeks and `r ≤ WEEK` further seconds. -/
theorem sumTo_week (h : Nat → Nat) : ∀ (k r : Nat), r ≤ WEEK →
    sumTo (fun s => h (s / WEEK)) (k * WEEK + r) = WEEK * sumTo h k + r * h k := by
  intro k
  induction k with
  | zero =>
    intro r
    induction r with
    | zero => intro _; simp [sumTo]
    | succ r ih =>
      intro hr
      have := ih (by omega)
      simp only [Nat.zero_mul, Nat.zero_add] at this ⊢
      simp only [sumTo, this]
      have : r / WEEK = 0 := Nat.div_eq_of_lt (by omega)
      rw [this, Nat.add_mul]; simp [sumTo]
  | succ k ihk =>
    intro r
    induction r with
    | zero =>
      intro _
      have := ihk WEEK (Nat.le_refl _)
      have e : (k + 1) * WEEK + 0 = k * WEEK + WEEK := by rw [Nat.add_mul]; simp
      rw [e, this]
      simp only [sumTo, Nat.mul_add, Nat.zero_mul, Nat.add_zero]
    | succ r ih =>
      intro hr
      have := ih (by omega)
      have e : (k + 1) * WEEK + (r + 1) = ((k + 1) * WEEK + r) + 1 := (Nat.add_assoc _ _ _).symm
      rw [e, sumTo_succ, this, div_week (k + 1) r (by omega), Nat.add_mul, Nat.one_mul, Nat.add_assoc]

/-- weeks past the last bucket use the last one. -/
theorem sumTo_capped (g : Nat → Nat) : ∀ full,
    sumTo (fun k => g (if k ≤ LAST then k else LAST)) full =
      sumTo g (if full ≤ LAST then full else LAST) + (full - LAST) * g LAST
  | 0 => by simp [sumTo]
  | full + 1 => by
    have ih := sumTo_capped g full
    simp only [sumTo, ih]
    by_cases h : full + 1 ≤ LAST
    · have h1 : full ≤ LAST := by omega
      have h2 : full + 1 - LAST = 0 := by omega
      have h3 : full - LAST = 0 := by omega
      simp [h, h1, h2, h3, sumTo]
    · by_cases h1 : full ≤ LAST
      · have : full = LAST := by omega
        subst this
        have h' : ¬ (LAST + 1 ≤ LAST) := by omega
        simp [h']
      · have e : full + 1 - LAST = (full - LAST) + 1 := by omega
        simp only [h, h1, if_false, e, Nat.add_mul, Nat.one_mul]
        omega

/-- closed form of the exact total. -/
theorem exactTotal_closed (g : Nat → Nat) (T : Nat) :
    exactTotal g T =
      WEEK * sumTo g (if T / WEEK ≤ LAST then T / WEEK else LAST)
        + g LAST * (WEEK * (T / WEEK - LAST))
        + g (if T / WEEK ≤ LAST then T / WEEK else LAST) * (T % WEEK) := by
  have hW : 0 < WEEK := by decide
  have hT : T = (T / WEEK) * WEEK + T % WEEK := by
    have := Nat.div_add_mod T WEEK; rw [Nat.mul_comm] at this; omega
  have hr : T % WEEK ≤ WEEK := Nat.le_of_lt (Nat.mod_lt _ hW)
  unfold exactTotal bucket
  have := sumTo_week (fun k => g (if k ≤ LAST then k else LAST)) (T / WEEK) (T % WEEK) hr
  rw [← hT] at this
  rw [this, sumTo_capped, Nat.mul_add]
  have a1 : WEEK * ((T / WEEK - LAST) * g LAST) = g LAST * (WEEK * (T / WEEK - LAST)) := by ac_rfl
  have a2 : T % WEEK * g (if T / WEEK ≤ LAST then T / WEEK else LAST)
      = g (if T / WEEK ≤ LAST then T / WEEK else LAST) * (T % WEEK) := Nat.mul_comm _ _
  rw [a1, a2]

theorem satAdd_le (a b : Nat) : satAdd a b ≤ a + b := by unfold satAdd U128MAX; split <;> omega
theorem satMul_le (a b : Nat) : satMul a b ≤ a * b := by unfold satMul U128MAX; split <;> omega
theorem satAdd_eq (a b : Nat) (h : a + b ≤ U128MAX) : satAdd a b = a + b := by simp [satAdd, h]
theorem satMul_eq (a b : Nat) (h : a * b ≤ U128MAX) : satMul a b = a * b := by simp [satMul, h]

theorem loopAcc_le (g : Nat → Nat) : ∀ k, loopAcc g k ≤ WEEK * sumTo g k
  | 0 => by simp [loopAcc, sumTo]
  | k + 1 => by
    have ih := loopAcc_le g k
    have h1 := satAdd_le (loopAcc g k) (satMul (g k) WEEK)
    have h2 := satMul_le (g k) WEEK
    simp only [loopAcc, sumTo, Nat.mul_add]
    rw [Nat.mul_comm WEEK (g k)]
    omega

theorem loopAcc_eq (g : Nat → Nat) : ∀ k, WEEK * sumTo g k ≤ U128MAX → loopAcc g k = WEEK * sumTo g k
  | 0, _ => by simp [loopAcc, sumTo]
  | k + 1, h => by
    simp only [sumTo, Nat.mul_add] at h
    have ih := loopAcc_eq g k (by omega)
    have e : WEEK * g k = g k * WEEK := Nat.mul_comm _ _
    simp only [loopAcc, sumTo, Nat.mul_add]
    rw [satMul_eq _ _ (by omega), ih, satAdd_eq _ _ (by omega)]
    omega

/-- the accumulator of `twApy` (before the final division). -/
def apyAcc (g : Nat → Nat) (T : Nat) : Nat :=
  let full := T / WEEK
  let rem := T % WEEK
  let capped := if full ≤ LAST then full else LAST
  let acc1 := loopAcc g capped
  let acc2 := if full > LAST then satAdd acc1 (satMul (g LAST) (satMul WEEK (full - LAST))) else acc1
  if rem > 0 then satAdd acc2 (satMul (g capped) rem) else acc2

theorem twApy_eq (start now : Int) (g : Nat → Nat) (h1 : start < now) (h2 : now - start ≤ I64MAX) :
    twApy start now g = some (apyAcc g (now - start).toNat / (now - start).toNat) := by
  unfold twApy apyAcc
  have : ¬ now ≤ start := by omega
  have h3 : ¬ now - start > I64MAX := by omega
  simp only [this, h3, if_false]

theorem apyAcc_le (g : Nat → Nat) (T : Nat) : apyAcc g T ≤ exactTotal g T := by
  rw [exactTotal_closed]
  unfold apyAcc
  simp only
  generalize hc : (if T / WEEK ≤ LAST then T / WEEK else LAST) = capped
  have h1 := loopAcc_le g capped
  have hm := satMul_le (g LAST) (satMul WEEK (T / WEEK - LAST))
  have hm2 := satMul_le WEEK (T / WEEK - LAST)
  have hm3 : g LAST * satMul WEEK (T / WEEK - LAST) ≤ g LAST * (WEEK * (T / WEEK - LAST)) :=
    Nat.mul_le_mul_left _ hm2
  have ha := satAdd_le (loopAcc g capped) (satMul (g LAST) (satMul WEEK (T / WEEK - LAST)))
  have hr := satMul_le (g capped) (T % WEEK)
  by_cases hf : T / WEEK > LAST
  · by_cases hrem : T % WEEK > 0
    · simp only [hf, hrem, if_true]
      have := satAdd_le (satAdd (loopAcc g capped) (satMul (g LAST) (satMul WEEK (T / WEEK - LAST))))
        (satMul (g capped) (T % WEEK))
      omega
    · simp only [hf, hrem, if_true, if_false]
      omega
  · have z : T / WEEK - LAST = 0 := by omega
    by_cases hrem : T % WEEK > 0
    · simp only [hf, hrem, if_true, if_false]
      have := satAdd_le (loopAcc g capped) (satMul (g capped) (T % WEEK))
      omega
    · simp only [hf, hrem, if_false]
      omega

theorem apyAcc_eq (g : Nat → Nat) (T : Nat) (hfit : exactTotal g T ≤ U128MAX) (hT : T ≤ U128MAX) :
    apyAcc g T = exactTotal g T := by
  rw [exactTotal_closed] at hfit ⊢
  unfold apyAcc
  simp only
  generalize hc : (if T / WEEK ≤ LAST then T / WEEK else LAST) = capped at hfit ⊢
  have hW : 0 < WEEK := by decide
  have hw : WEEK * (T / WEEK - LAST) ≤ U128MAX := by
    have a : WEEK * (T / WEEK - LAST) ≤ WEEK * (T / WEEK) := Nat.mul_le_mul_left _ (Nat.sub_le _ _)
    have b : WEEK * (T / WEEK) ≤ T := Nat.mul_div_le T WEEK
    omega
  have e1 := loopAcc_eq g capped (by omega)
  by_cases hf : T / WEEK > LAST <;> by_cases hrem : T % WEEK > 0 <;> simp only [hf, hrem, if_true, if_false]
  · rw [e1, satMul_eq WEEK _ hw, satMul_eq (g LAST) _ (by omega),
      satAdd_eq (WEEK * sumTo g capped) (g LAST * (WEEK * (T / WEEK - LAST))) (by omega),
      satMul_eq (g capped) (T % WEEK) (by omega), satAdd_eq _ _ (by omega)]
  · have hz : T % WEEK = 0 := by omega
    rw [e1, satMul_eq WEEK _ hw, satMul_eq (g LAST) _ (by omega),
      satAdd_eq (WEEK * sumTo g capped) (g LAST * (WEEK * (T / WEEK - LAST))) (by omega), hz]
    simp
  · have z : T / WEEK - LAST = 0 := by omega
    rw [z] at hfit ⊢
    simp only [Nat.mul_zero, Nat.add_zero] at hfit ⊢
    rw [e1, satMul_eq _ _ (by omega), satAdd_eq _ _ (by omega)]
  · have z : T / WEEK - LAST = 0 := by omega
    have hz : T % WEEK = 0 := by omega
    rw [z, hz, e1]
    simp

theorem applyFactor_some {W U v f r : Nat} (h : applyFactor W U v f = some r) :
    U ≠ 0 ∧ r = v * f / U ∧ r < 2 ^ W := by
  unfold applyFactor mulDiv toU at h
  by_cases hU : U = 0
  · simp [hU] at h
  · by_cases hfit : v * f / U < 2 ^ W
    · simp [hU, hfit] at h; exact ⟨hU, h.symm, by omega⟩
    · simp [hU, hfit] at h

theorem applyFactor_mono {W U v v' f r r' : Nat} (h : applyFactor W U v f = some r)
    (h' : applyFactor W U v' f = some r') (hv : v ≤ v') : r ≤ r' := by
  obtain ⟨_, rfl, _⟩ := applyFactor_some h
  obtain ⟨_, rfl, _⟩ := applyFactor_some h'
  exact Nat.div_le_div_right (Nat.mul_le_mul_right _ hv)

theorem applyFactor_mono_factor {W U v f f' r r' : Nat} (h : applyFactor W U v f = some r)
    (h' : applyFactor W U v f' = some r') (hf : f ≤ f') : r ≤ r' := by
  obtain ⟨_, rfl, _⟩ := applyFactor_some h
  obtain ⟨_, rfl, _⟩ := applyFactor_some h'
  exact Nat.div_le_div_right (Nat.mul_le_mul_left _ hf)

end Gmx.Lp
