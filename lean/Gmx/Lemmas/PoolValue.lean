import Gmx.Lemmas.Liquidity
/-! `pool_value` without open interest: liquidity value minus the (pending-distributed) position
impact pool value. Used to discharge the pool-value hypothesis of C06's `roundtrip_bound`. -/
namespace Gmx.Lem
open Gmx

/-- no open interest and no recorded borrowing: the state of a market without positions. -/
structure NoOI (m : Market) : Prop where
  oiL : m.oiL = ⟨0, 0⟩
  oiS : m.oiS = ⟨0, 0⟩
  oitL : m.oitL = ⟨0, 0⟩
  oitS : m.oitS = ⟨0, 0⟩
  tb : m.totalBorrowing = ⟨0, 0⟩

theorem openInterest_noOI {W : Nat} {m : Market} (h : NoOI m) (b : Bool) :
    openInterest W m b = some 0 ∧ openInterestInTokens W m b = some 0 := by
  have : 0 < 2 ^ W := Nat.two_pow_pos W
  cases b <;> simp [openInterest, openInterestInTokens, h.oiL, h.oiS, h.oitL, h.oitS, checkedAdd, toU, this]

theorem marketPnl_noOI {W : Nat} {m : Market} (h : NoOI m) (idx : Price) (b mx : Bool) :
    marketPnl W m idx b mx = some 0 := by
  unfold marketPnl
  rw [(openInterest_noOI h b).1, (openInterest_noOI h b).2]
  simp

theorem tpbf_noOI {W U : Nat} {m : Market} (h : NoOI m) {b : Bool} {bf x : Nat}
    (hx : totalPendingBorrowingFees W U m b bf = some x) : x = 0 := by
  unfold totalPendingBorrowingFees at hx
  rw [(openInterest_noOI h b).1] at hx
  simp only at hx
  split at hx
  · cases hx
  · split at hx
    · cases hx
    · rename_i tot htot
      unfold applyFactor at htot
      obtain ⟨_, e, _⟩ := (C01.mulDiv_spec _ _ _ _ _).1 htot
      simp at e
      subst e
      obtain ⟨_, e2⟩ := checkedSub_eq hx
      omega

theorem capPnl_zero {W U pv f : Nat} : capPnl W U 0 pv f = some 0 := by
  unfold capPnl; simp

/-- **pool value without open interest** = long value + short value − next impact pool amount ×
index price (picked against the valuation direction). -/
theorem poolValue_noOI {W U : Nat} {m : Market} (h : NoOI m) {pr : Prices} {kind : PnlFactorKind}
    {mx : Bool} {pin : PerpIn} {v : Int} (hv : poolValue W U m pr kind mx pin = some v) :
    ∃ d ni, m.pendingDistribution W U (passedInSeconds m.now m.clockImpactDist) = some (d, ni) ∧
      v = (m.primary.long * pr.long.pick mx + m.primary.short * pr.short.pick mx : Nat)
            - (ni * pr.index.pick (!mx) : Nat) := by
  unfold poolValue at hv
  rw [marketPnl_noOI h, marketPnl_noOI h] at hv
  simp only [capPnl_zero] at hv
  split at hv
  · cases hv
  · rename_i lv hlv
    split at hv
    · cases hv
    · rename_i sv hsv
      split at hv
      · cases hv
      · rename_i tot htot
        split at hv
        · cases hv
        · rename_i pv0 hpv0
          split at hv
          · cases hv
          · rename_i fl hfl
            split at hv
            · cases hv
            · rename_i fs hfs
              have efl := tpbf_noOI h hfl
              have efs := tpbf_noOI h hfs
              subst efl efs
              split at hv
              · cases hv
              · rename_i tf htf
                have htf := checkedAdd_eq htf
                split at hv
                · cases hv
                · rename_i pf hpf
                  split at hv
                  · cases hv
                  · rename_i tfp htfp
                    unfold applyFactor at htfp
                    obtain ⟨_, e, _⟩ := (C01.mulDiv_spec _ _ _ _ _).1 htfp
                    split at hv
                    · cases hv
                    · rename_i stfp hstfp
                      have hstfp := toSigned_eq hstfp
                      split at hv
                      · cases hv
                      · rename_i pv1 hpv1
                        have hpv1 := toI_eq hpv1
                        split at hv
                        · cases hv
                        · rename_i net hnet
                          have hnet := toI_eq hnet
                          split at hv
                          · cases hv
                          · rename_i pv2 hpv2
                            have hpv2 := toI_eq hpv2
                            split at hv
                            · cases hv
                            · rename_i dd ni hpd
                              split at hv
                              · cases hv
                              · rename_i iv hiv
                                have hiv := checkedMul_eq hiv
                                split at hv
                                · cases hv
                                · rename_i siv hsiv
                                  have hsiv := toSigned_eq hsiv
                                  have hv := toI_eq hv
                                  refine ⟨dd, ni, hpd, ?_⟩
                                  have hpv0 := toSigned_eq hpv0
                                  have htot := checkedAdd_eq htot
                                  unfold poolValueWithoutPnlOneSide at hlv hsv
                                  simp only [if_true, Bool.false_eq_true, if_false] at hlv hsv
                                  have hlv := checkedMul_eq hlv
                                  have hsv := checkedMul_eq hsv
                                  subst htf
                                  simp at e
                                  subst e
                                  subst hlv hsv hiv htot
                                  omega

/-- `cap_pnl`: never more than the pnl, untouched when non-positive, and at least the smaller of
the pnl and the cap `⌊poolValue·factor/U⌋`. -/
theorem capPnl_spec {W U : Nat} {pnl c : Int} {pv f : Nat} (h : capPnl W U pnl pv f = some c) :
    c ≤ pnl ∧ (pnl ≤ 0 → c = pnl) ∧ (pnl ≤ c ∨ ((pv * f / U : Nat) : Int) ≤ c) := by
  unfold capPnl at h
  split at h
  · rename_i hpos
    split at h
    · cases h
    · rename_i mp hmp
      unfold applyFactor at hmp
      obtain ⟨_, e, _⟩ := (C01.mulDiv_spec _ _ _ _ _).1 hmp
      split at h
      · cases h
      · rename_i smp hsmp
        have hsmp := toSigned_eq hsmp
        subst e
        split at h <;> cases h
        · exact ⟨by omega, fun h0 => by omega, Or.inr (by omega)⟩
        · exact ⟨Int.le_refl _, fun _ => rfl, Or.inl (Int.le_refl _)⟩
  · cases h
    exact ⟨Int.le_refl _, fun _ => rfl, Or.inl (Int.le_refl _)⟩

/-- the market pnl valued to MAXIMISE is at least the pnl valued to minimise (index `min ≤ max`). -/
theorem marketPnl_min_le_max {W : Nat} {m : Market} {idx : Price} {b : Bool} {a c : Int}
    (hi : idx.min ≤ idx.max) (ha : marketPnl W m idx b false = some a) (hc : marketPnl W m idx b true = some c) :
    a ≤ c := by
  unfold marketPnl at ha hc
  split at ha
  · cases ha
  · rename_i oi hoi
    rw [hoi] at hc
    simp only at hc
    split at ha
    · cases ha
    · rename_i oit hoit
      rw [hoit] at hc
      simp only at hc
      split at ha
      · rename_i hz
        simp only [hz] at hc
        cases ha; simp at hc; omega
      · rename_i hz
        simp only [hz, if_false] at hc
        split at ha
        · cases ha
        · rename_i v1 hv1
          split at ha
          · cases ha
          · rename_i sv1 hsv1
            split at ha
            · cases ha
            · rename_i so1 hso1
              split at hc
              · cases hc
              · rename_i v2 hv2
                split at hc
                · cases hc
                · rename_i sv2 hsv2
                  split at hc
                  · cases hc
                  · rename_i so2 hso2
                    have e1 := checkedMul_eq hv1
                    have e2 := checkedMul_eq hv2
                    have := toSigned_eq hsv1; have := toSigned_eq hsv2
                    have := toSigned_eq hso1; have := toSigned_eq hso2
                    cases b
                    · simp only [Bool.false_eq_true, if_false] at ha hc
                      have ha := toI_eq ha; have hc := toI_eq hc
                      simp only [Price.pickForPnl] at e1 e2
                      simp at e1 e2
                      have hm := Nat.mul_le_mul_left oit hi
                      subst e1 e2
                      have : ((oit * idx.min : Nat) : Int) ≤ ((oit * idx.max : Nat) : Int) := by exact_mod_cast hm
                      omega
                    · simp only [if_true] at ha hc
                      have ha := toI_eq ha; have hc := toI_eq hc
                      simp only [Price.pickForPnl] at e1 e2
                      simp at e1 e2
                      have hm := Nat.mul_le_mul_left oit hi
                      subst e1 e2
                      have : ((oit * idx.min : Nat) : Int) ≤ ((oit * idx.max : Nat) : Int) := by exact_mod_cast hm
                      omega

/-- with a fresh borrowing clock (no time since the last `update_borrowing`, as after the on-chain
`pre_execute`) the pending borrowing fees do not depend on the borrowing factor per second. -/
theorem tpbf_fresh {W U : Nat} {m : Market} (hf : passedInSeconds m.now m.clockBorrowing = 0) (b : Bool) (bf bf' : Nat) :
    totalPendingBorrowingFees W U m b bf = totalPendingBorrowingFees W U m b bf' := by
  unfold totalPendingBorrowingFees nextCumulativeBorrowingFactor
  rw [hf]
  have : 0 < 2 ^ W := Nat.two_pow_pos W
  simp [toU, this, checkedMul]

/-- a side that passed the reserve and max-pnl-factor validations has its (maximised) pnl below the
cap up to the rounding of the factor: `pnl ≤ ⌊pv·f/U⌋ + ⌊pv/U⌋ + 1`, `pv` the side's pool value at
the MIN price. (The reserve validation is what excludes an empty side with profitable positions:
`div_to_factor_signed` returns 0 for a zero pool value.) -/
theorem pnl_le_cap_of_validated {W U : Nat} {m : Market} {pr : Prices} {kind : PnlFactorKind} {b : Bool}
    {pnl : Int} {pv : Nat}
    (hr : validateReserve W U m pr b = .ok ()) (hp : validatePnlFactor W U m pr kind b = .ok ())
    (hpnl : marketPnl W m pr.index b true = some pnl)
    (hpv : poolValueWithoutPnlOneSide W m pr b false = some pv) :
    pnl ≤ ((pv * m.cfg.pnlFactor kind / U : Nat) : Int) + ((pv / U : Nat) : Int) + 1 := by
  by_cases hpos : pnl ≤ 0
  · have h1 : (0 : Int) ≤ ((pv * m.cfg.pnlFactor kind / U : Nat) : Int) := Int.natCast_nonneg _
    have h2 : (0 : Int) ≤ ((pv / U : Nat) : Int) := Int.natCast_nonneg _
    omega
  have hpos : pnl > 0 := by omega
  unfold validatePnlFactor pnlFactorWithPoolValue at hp
  simp only [Bool.not_true] at hp
  rw [hpv, hpnl] at hp
  simp only at hp
  split at hp
  · cases hp
  · rename_i fac pv' hfac
    split at hfac
    · cases hfac
    · rename_i fac' hdf
      cases hfac
      split at hp
      · cases hp
      · rename_i hnex
        by_cases hz : pv = 0
        · -- empty side: the reserve validation forces a zero reserved value, hence no positive pnl
          exfalso
          subst hz
          unfold validateReserve at hr
          rw [hpv] at hr
          simp only at hr
          split at hr
          · cases hr
          · rename_i mr hmr
            unfold applyFactor at hmr
            obtain ⟨_, e, _⟩ := (C01.mulDiv_spec _ _ _ _ _).1 hmr
            simp at e
            subst e
            split at hr
            · cases hr
            · rename_i rv hrv
              split at hr
              · cases hr
              · rename_i hle
                have hrv0 : rv = 0 := by omega
                subst hrv0
                unfold marketPnl at hpnl
                unfold reservedValue at hrv
                cases b
                · simp only [Bool.false_eq_true, if_false] at hrv hpnl
                  rw [hrv] at hpnl
                  simp only at hpnl
                  split at hpnl
                  · cases hpnl
                  · split at hpnl
                    · cases hpnl; omega
                    · split at hpnl
                      · cases hpnl
                      · split at hpnl
                        · cases hpnl
                        · rename_i sv hsv
                          split at hpnl
                          · cases hpnl
                          · rename_i so hso
                            have := toSigned_eq hsv; have := toSigned_eq hso
                            have := toI_eq hpnl
                            omega
                · simp only [if_true] at hrv hpnl
                  split at hrv
                  · cases hrv
                  · rename_i oit hoit
                    rw [hoit] at hpnl
                    have hm := checkedMul_eq hrv
                    split at hpnl
                    · cases hpnl
                    · simp only at hpnl
                      split at hpnl
                      · cases hpnl; omega
                      · split at hpnl
                        · cases hpnl
                        · rename_i v hv
                          have hv := checkedMul_eq hv
                          simp [Price.pickForPnl] at hv
                          split at hpnl
                          · cases hpnl
                          · rename_i sv hsv
                            split at hpnl
                            · cases hpnl
                            · rename_i so hso
                              have := toSigned_eq hsv; have := toSigned_eq hso
                              have := toI_eq hpnl
                              have : v = 0 := by rw [hv]; exact hm.symm
                              omega
        · unfold divToFactorSigned at hdf
          simp only [hz, if_false] at hdf
          unfold mulDivSigned at hdf
          split at hdf
          · cases hdf
          · rename_i q hq
            obtain ⟨_, eq, _⟩ := (C01.mulDiv_spec _ _ _ _ _).1 hq
            split at hdf
            · cases hdf
            · rename_i sq hsq
              have hsq := toSigned_eq hsq
              simp only [hpos, if_true, Option.some.injEq] at hdf
              rw [← hdf] at hnex
              -- q = U * |pnl| / pv, not exceeded: q = 0 or q ≤ f
              have hna : ((pnl.natAbs : Nat) : Int) = pnl := by omega
              generalize hn : pnl.natAbs = n at *
              generalize hf : m.cfg.pnlFactor kind = f at *
              have hq_le : q ≤ f := by
                unfold pnlExceeded at hnex
                by_cases h0 : q = 0
                · omega
                · have hsp : (sq : Int) > 0 := by omega
                  have hab : sq.natAbs = q := by omega
                  simp only [hsp, decide_true, Bool.true_and, decide_eq_true_eq, hab] at hnex
                  omega
              -- U ≠ 0 from the reserve validation
              have hU : U ≠ 0 := by
                unfold validateReserve at hr
                rw [hpv] at hr
                simp only at hr
                split at hr
                · cases hr
                · rename_i mr hmr
                  unfold applyFactor at hmr
                  exact ((C01.mulDiv_spec _ _ _ _ _).1 hmr).1
              have hUp : 0 < U := Nat.pos_of_ne_zero hU
              have hpvp : 0 < pv := Nat.pos_of_ne_zero hz
              -- U * n < pv * (q + 1) ≤ pv * f + pv
              have hlt : U * n < pv * (U * n / pv + 1) := Nat.lt_mul_div_succ _ hpvp
              rw [← eq] at hlt
              have hle2 : pv * (q + 1) ≤ pv * (f + 1) := Nat.mul_le_mul_left _ (by omega)
              have hX : n * U < pv * f + pv := by
                rw [Nat.mul_comm n U]; rw [Nat.mul_add, Nat.mul_one, Nat.mul_add, Nat.mul_one] at hle2
                rw [Nat.mul_add, Nat.mul_one] at hlt; omega
              have h1 : n ≤ (pv * f + pv) / U := by
                rw [Nat.le_div_iff_mul_le hUp]; omega
              have ha : pv * f < U * (pv * f / U + 1) := Nat.lt_mul_div_succ _ hUp
              have hb : pv < U * (pv / U + 1) := Nat.lt_mul_div_succ _ hUp
              have h2 : (pv * f + pv) / U ≤ pv * f / U + pv / U + 1 := by
                have : (pv * f + pv) / U < pv * f / U + pv / U + 2 := by
                  rw [Nat.div_lt_iff_lt_mul hUp]
                  rw [Nat.mul_add, Nat.mul_one] at ha hb
                  rw [Nat.add_mul, Nat.add_mul, Nat.mul_comm (pv * f / U) U, Nat.mul_comm (pv / U) U]
                  omega
                omega
              have : n ≤ pv * f / U + pv / U + 1 := Nat.le_trans h1 h2
              rw [← hna]
              exact_mod_cast this

/-! ### general decomposition (any open interest) -/

/-- the parts `pool_value` is assembled from. -/
structure PVParts (W U : Nat) (m : Market) (pr : Prices) (kind : PnlFactorKind) (mx : Bool) (pin : PerpIn)
    (v : Int) : Prop where
  parts : ∃ lv sv fl fs pL pS cL cS d ni : Int, ∃ lvN svN flN fsN niN dN : Nat,
    lv = lvN ∧ sv = svN ∧ fl = flN ∧ fs = fsN ∧ ni = niN ∧ d = dN ∧
    poolValueWithoutPnlOneSide W m pr true mx = some lvN ∧
    poolValueWithoutPnlOneSide W m pr false mx = some svN ∧
    totalPendingBorrowingFees W U m true pin.bfpsL = some flN ∧
    totalPendingBorrowingFees W U m false pin.bfpsS = some fsN ∧
    m.cfg.borrowingReceiverFactor ≤ U ∧
    marketPnl W m pr.index true (!mx) = some pL ∧
    marketPnl W m pr.index false (!mx) = some pS ∧
    capPnl W U pL lvN (m.cfg.pnlFactor kind) = some cL ∧
    capPnl W U pS svN (m.cfg.pnlFactor kind) = some cS ∧
    m.pendingDistribution W U (passedInSeconds m.now m.clockImpactDist) = some (dN, niN) ∧
    v = lv + sv + (((flN + fsN) * (U - m.cfg.borrowingReceiverFactor) / U : Nat) : Int) - (cL + cS)
          - ((niN * pr.index.pick (!mx) : Nat) : Int)

theorem poolValue_parts {W U : Nat} {m : Market} {pr : Prices} {kind : PnlFactorKind}
    {mx : Bool} {pin : PerpIn} {v : Int} (hv : poolValue W U m pr kind mx pin = some v) :
    PVParts W U m pr kind mx pin v := by
  unfold poolValue at hv
  split at hv
  · cases hv
  · rename_i lv hlv
    split at hv
    · cases hv
    · rename_i sv hsv
      split at hv
      · cases hv
      · rename_i tot htot
        split at hv
        · cases hv
        · rename_i pv0 hpv0
          split at hv
          · cases hv
          · rename_i fl hfl
            split at hv
            · cases hv
            · rename_i fs hfs
              split at hv
              · cases hv
              · rename_i tf htf
                have htf := checkedAdd_eq htf
                split at hv
                · cases hv
                · rename_i pf hpf
                  obtain ⟨hrecv, hpf⟩ := checkedSub_eq hpf
                  split at hv
                  · cases hv
                  · rename_i tfp htfp
                    unfold applyFactor at htfp
                    obtain ⟨_, e, _⟩ := (C01.mulDiv_spec _ _ _ _ _).1 htfp
                    split at hv
                    · cases hv
                    · rename_i stfp hstfp
                      have hstfp := toSigned_eq hstfp
                      split at hv
                      · cases hv
                      · rename_i pv1 hpv1
                        have hpv1 := toI_eq hpv1
                        split at hv
                        · cases hv
                        · rename_i lp0 hlp0
                          split at hv
                          · cases hv
                          · rename_i lp hlp
                            split at hv
                            · cases hv
                            · rename_i sp0 hsp0
                              split at hv
                              · cases hv
                              · rename_i sp hsp
                                split at hv
                                · cases hv
                                · rename_i net hnet
                                  have hnet := toI_eq hnet
                                  split at hv
                                  · cases hv
                                  · rename_i pv2 hpv2
                                    have hpv2 := toI_eq hpv2
                                    split at hv
                                    · cases hv
                                    · rename_i dd ni hpd
                                      split at hv
                                      · cases hv
                                      · rename_i iv hiv
                                        have hiv := checkedMul_eq hiv
                                        split at hv
                                        · cases hv
                                        · rename_i siv hsiv
                                          have hsiv := toSigned_eq hsiv
                                          have hv := toI_eq hv
                                          have hpv0 := toSigned_eq hpv0
                                          have htot := checkedAdd_eq htot
                                          refine ⟨⟨lv, sv, fl, fs, lp0, sp0, lp, sp, dd, ni, lv, sv, fl, fs, ni, dd,
                                            rfl, rfl, rfl, rfl, rfl, rfl, hlv, hsv, hfl, hfs, hrecv, hlp0, hsp0, hlp, hsp, hpd, ?_⟩⟩
                                          subst htf hpf e hiv htot
                                          omega

end Gmx.Lem
