import Gmx.Lemmas.Liquidity
/-! `pool_value` without open interest: liquidity value minus the (pending-distributed) position
impact pool value. Used to discharge the pool-value hypothesis of C06's `roundtrip_bound`. -/
namespace Gmx.Lem
open Gmx

/-- no open interest and no recorded borrowing: the state of a market without positions. -/
structure NoOI (m : Market) : Prop where
  oiL : m.oiL = ⟨0, 0⟩
  oiS : m.oiS = ⟨0, 0⟩
  oitL : m.oitL = ⟨0, 0⟩
  oitS : m.oitS = ⟨0, 0⟩
  tb : m.totalBorrowing = ⟨0, 0⟩

theorem openInterest_noOI {W : Nat} {m : Market} (h : NoOI m) (b : Bool) :
    openInterest W m b = some 0 ∧ openInterestInTokens W m b = some 0 := by
  have : 0 < 2 ^ W := Nat.two_pow_pos W
  cases b <;> simp [openInterest, openInterestInTokens, h.oiL, h.oiS, h.oitL, h.oitS, checkedAdd, toU, this]

theorem marketPnl_noOI {W : Nat} {m : Market} (h : NoOI m) (idx : Price) (b mx : Bool) :
    marketPnl W m idx b mx = some 0 := by
  unfold marketPnl
  rw [(openInterest_noOI h b).1, (openInterest_noOI h b).2]
  simp

theorem tpbf_noOI {W U : Nat} {m : Market} (h : NoOI m) {b : Bool} {bf x : Nat}
    (hx : totalPendingBorrowingFees W U m b bf = some x) : x = 0 := by
  unfold totalPendingBorrowingFees at hx
  rw [(openInterest_noOI h b).1] at hx
  simp only at hx
  split at hx
  · cases hx
  · split at hx
    · cases hx
    · rename_i tot htot
      unfold applyFactor at htot
      obtain ⟨_, e, _⟩ := (C01.mulDiv_spec _ _ _ _ _).1 htot
      simp at e
      subst e
      obtain ⟨_, e2⟩ := checkedSub_eq hx
      omega

theorem capPnl_zero {W U pv f : Nat} : capPnl W U 0 pv f = some 0 := by
  unfold capPnl; simp

/-- **pool value without open interest** = long value + short value − next impact pool amount ×
index price (picked against the valuation direction). -/
theorem poolValue_noOI {W U : Nat} {m : Market} (h : NoOI m) {pr : Prices} {kind : PnlFactorKind}
    {mx : Bool} {pin : PerpIn} {v : Int} (hv : poolValue W U m pr kind mx pin = some v) :
    ∃ d ni, m.pendingDistribution W U (passedInSeconds m.now m.clockImpactDist) = some (d, ni) ∧
      v = (m.primary.long * pr.long.pick mx + m.primary.short * pr.short.pick mx : Nat)
            - (ni * pr.index.pick (!mx) : Nat) := by
  unfold poolValue at hv
  rw [marketPnl_noOI h, marketPnl_noOI h] at hv
  simp only [capPnl_zero] at hv
  split at hv
  · cases hv
  · rename_i lv hlv
    split at hv
    · cases hv
    · rename_i sv hsv
      split at hv
      · cases hv
      · rename_i tot htot
        split at hv
        · cases hv
        · rename_i pv0 hpv0
          split at hv
          · cases hv
          · rename_i fl hfl
            split at hv
            · cases hv
            · rename_i fs hfs
              have efl := tpbf_noOI h hfl
              have efs := tpbf_noOI h hfs
              subst efl efs
              split at hv
              · cases hv
              · rename_i tf htf
                have htf := checkedAdd_eq htf
                split at hv
                · cases hv
                · rename_i pf hpf
                  split at hv
                  · cases hv
                  · rename_i tfp htfp
                    unfold applyFactor at htfp
                    obtain ⟨_, e, _⟩ := (C01.mulDiv_spec _ _ _ _ _).1 htfp
                    split at hv
                    · cases hv
                    · rename_i stfp hstfp
                      have hstfp := toSigned_eq hstfp
                      split at hv
                      · cases hv
                      · rename_i pv1 hpv1
                        have hpv1 := toI_eq hpv1
                        split at hv
                        · cases hv
                        · rename_i net hnet
                          have hnet := toI_eq hnet
                          split at hv
                          · cases hv
                          · rename_i pv2 hpv2
                            have hpv2 := toI_eq hpv2
                            split at hv
                            · cases hv
                            · rename_i dd ni hpd
                              split at hv
                              · cases hv
                              · rename_i iv hiv
                                have hiv := checkedMul_eq hiv
                                split at hv
                                · cases hv
                                · rename_i siv hsiv
                                  have hsiv := toSigned_eq hsiv
                                  have hv := toI_eq hv
                                  refine ⟨dd, ni, hpd, ?_⟩
                                  have hpv0 := toSigned_eq hpv0
                                  have htot := checkedAdd_eq htot
                                  unfold poolValueWithoutPnlOneSide at hlv hsv
                                  simp only [if_true, Bool.false_eq_true, if_false] at hlv hsv
                                  have hlv := checkedMul_eq hlv
                                  have hsv := checkedMul_eq hsv
                                  subst htf
                                  simp at e
                                  subst e
                                  subst hlv hsv hiv htot
                                  omega

end Gmx.Lem
