import Gmx.Lemmas.Roles
/-! per-operation effect on the abstract view, invariant preservation (C18) -/
namespace Gmx.Roles
section
variable {K A : Type} [DecidableEq K] [DecidableEq A]

theorem grantedB_eq {s : St K A} {a : A} {r : K} {m : Role K} {bits : List Nat}
    (hf : findRole s.roles r = some m) (hl : lookup s.members a = some bits) :
    grantedB s a r = bits.contains m.index := by
  simp [grantedB, hf, hl]

theorem grantedB_no_role {s : St K A} {a : A} {r : K} (hf : findRole s.roles r = none) :
    grantedB s a r = false := by
  simp [grantedB, hf]

theorem grantedB_no_member {s : St K A} {a : A} {r : K} (hl : lookup s.members a = none) :
    grantedB s a r = false := by
  unfold grantedB; rw [hl]; cases findRole s.roles r <;> rfl

/-- shape of a successful grant -/
theorem grant_ok_shape {s s' : St K A} {a : A} {r : K} (h : grant s a r = .ok s') :
    ∃ m, findRole s.roles r = some m ∧ m.enabled = true ∧
      ((∃ bits, lookup s.members a = some bits ∧ bits.contains m.index = false ∧
          s' = { s with members := setBits s.members a (m.index :: bits) }) ∨
       (lookup s.members a = none ∧ s.members.length < MAX_MEMBERS ∧
          s' = { s with members := s.members ++ [(a, [m.index])] })) := by
  unfold grant at h
  cases hf : findRole s.roles r with
  | none => rw [hf] at h; cases h
  | some m =>
    rw [hf] at h
    cases hen : m.enabled with
    | false => simp [hen] at h
    | true =>
      simp only [hen, Bool.not_true, Bool.false_eq_true, if_false] at h
      refine ⟨m, rfl, hen, ?_⟩
      cases hl : lookup s.members a with
      | some bits =>
        rw [hl] at h; simp only at h
        cases hc : bits.contains m.index with
        | true => rw [hc] at h; simp at h
        | false =>
          rw [hc] at h; simp only [Bool.false_eq_true, if_false] at h
          cases h
          exact Or.inl ⟨bits, rfl, hc, rfl⟩
      | none =>
        rw [hl] at h; simp only at h
        by_cases hcap : s.members.length ≥ MAX_MEMBERS
        · simp [hcap] at h
        · simp only [hcap, if_false] at h
          cases h
          exact Or.inr ⟨rfl, by omega, rfl⟩

theorem grant_effect {s s' : St K A} {a : A} {r : K} (hi : Inv s) (h : grant s a r = .ok s') :
    s'.roles = s.roles ∧
    (∀ a' r', grantedB s' a' r' = if a' = a ∧ r' = r then true else grantedB s a' r') := by
  obtain ⟨m, hf, _, hcase⟩ := grant_ok_shape h
  rcases hcase with ⟨bits, hl, hc, rfl⟩ | ⟨hl, _, rfl⟩
  · refine ⟨rfl, ?_⟩
    intro a' r'
    by_cases ha : a' = a
    · subst ha
      have hl' : lookup (setBits s.members a' (m.index :: bits)) a' = some (m.index :: bits) := by
        rw [lookup_setBits]; simp [hl]
      cases hf' : findRole s.roles r' with
      | none =>
        have hne : ¬ r' = r := by intro e; subst e; rw [hf] at hf'; cases hf'
        simp [grantedB, hf', hne]
      | some m' =>
        have e1 : grantedB { s with members := setBits s.members a' (m.index :: bits) } a' r' =
            (m.index :: bits).contains m'.index := by
          simp [grantedB, hf', hl']
        rw [e1, grantedB_eq hf' hl]
        by_cases hr : r' = r
        · subst hr; rw [hf] at hf'; cases hf'; simp
        · have hne : m'.index ≠ m.index := fun e => hr (findRole_index_inj 0 hi.idx hf' hf e)
          simp [hr, hne]
    · have hl' : lookup (setBits s.members a (m.index :: bits)) a' = lookup s.members a' := by
        rw [lookup_setBits]; simp [ha]
      simp [grantedB, hl', ha]
  · refine ⟨rfl, ?_⟩
    intro a' r'
    by_cases ha : a' = a
    · subst ha
      have hl' : lookup (s.members ++ [(a', [m.index])]) a' = some [m.index] := by
        rw [lookup_append, hl]; simp
      cases hf' : findRole s.roles r' with
      | none =>
        have hne : ¬ r' = r := by intro e; subst e; rw [hf] at hf'; cases hf'
        simp [grantedB, hf', hne]
      | some m' =>
        have e1 : grantedB { s with members := s.members ++ [(a', [m.index])] } a' r' =
            [m.index].contains m'.index := by
          simp [grantedB, hf', hl']
        rw [e1, grantedB_no_member hl]
        by_cases hr : r' = r
        · subst hr; rw [hf] at hf'; cases hf'; simp
        · have hne : m'.index ≠ m.index := fun e => hr (findRole_index_inj 0 hi.idx hf' hf e)
          simp [hr, hne]
    · have hl' : lookup (s.members ++ [(a, [m.index])]) a' = lookup s.members a' := by
        rw [lookup_append]
        cases lookup s.members a' with
        | some b => rfl
        | none => have : ¬ a = a' := fun e => ha e.symm
                  simp [this]
      simp [grantedB, hl', ha]

/-- shape of a successful revoke -/
theorem revoke_ok_shape {s s' : St K A} {a : A} {r : K} (h : revoke s a r = .ok s') :
    ∃ m bits, findRole s.roles r = some m ∧ lookup s.members a = some bits ∧
      bits.contains m.index = true ∧
      ((bits.filter (fun i => i != m.index) = [] ∧ s' = { s with members := removeMember s.members a }) ∨
       (bits.filter (fun i => i != m.index) ≠ [] ∧
          s' = { s with members := setBits s.members a (bits.filter (fun i => i != m.index)) })) := by
  unfold revoke at h
  cases hf : findRole s.roles r with
  | none => rw [hf] at h; cases h
  | some m =>
    rw [hf] at h; simp only at h
    cases hl : lookup s.members a with
    | none => rw [hl] at h; cases h
    | some bits =>
      rw [hl] at h; simp only at h
      cases hc : bits.contains m.index with
      | false => rw [hc] at h; simp at h
      | true =>
        rw [hc] at h; simp only [Bool.not_true, Bool.false_eq_true, if_false] at h
        refine ⟨m, bits, rfl, rfl, hc, ?_⟩
        cases hfl : bits.filter (fun i => i != m.index) with
        | nil =>
          rw [hfl] at h; simp only [List.isEmpty_nil, if_true] at h
          cases h; exact Or.inl ⟨rfl, rfl⟩
        | cons x xs =>
          rw [hfl] at h; simp only [List.isEmpty_cons, Bool.false_eq_true, if_false] at h
          cases h; exact Or.inr ⟨by simp, rfl⟩

theorem revoke_effect {s s' : St K A} {a : A} {r : K} (hi : Inv s) (h : revoke s a r = .ok s') :
    s'.roles = s.roles ∧
    (∀ a' r', grantedB s' a' r' = if a' = a ∧ r' = r then false else grantedB s a' r') := by
  obtain ⟨m, bits, hf, hl, hc, hcase⟩ := revoke_ok_shape h
  rcases hcase with ⟨hfl, rfl⟩ | ⟨_, rfl⟩
  · refine ⟨rfl, ?_⟩
    intro a' r'
    by_cases ha : a' = a
    · subst ha
      have hl' : lookup (removeMember s.members a') a' = none := by rw [lookup_removeMember]; simp
      rw [grantedB_no_member (s := { s with members := removeMember s.members a' }) hl']
      by_cases hr : r' = r
      · simp [hr]
      · simp only [hr, and_false, if_false]
        cases hf' : findRole s.roles r' with
        | none => rw [grantedB_no_role hf']
        | some m' =>
          rw [grantedB_eq hf' hl]
          have hne : m'.index ≠ m.index := fun e => hr (findRole_index_inj 0 hi.idx hf' hf e)
          -- every bit equals m.index because the filter is empty
          cases hcc : bits.contains m'.index with
          | false => rfl
          | true =>
            exfalso
            have hmem : m'.index ∈ bits := by simpa using hcc
            have : m'.index ∈ bits.filter (fun i => i != m.index) := by
              simp [List.mem_filter, hmem, hne]
            rw [hfl] at this; cases this
    · have hl' : lookup (removeMember s.members a) a' = lookup s.members a' := by
        rw [lookup_removeMember]; simp [ha]
      simp [grantedB, hl', ha]
  · refine ⟨rfl, ?_⟩
    intro a' r'
    by_cases ha : a' = a
    · subst ha
      have hl' : lookup (setBits s.members a' (bits.filter (fun i => i != m.index))) a' =
          some (bits.filter (fun i => i != m.index)) := by
        rw [lookup_setBits]; simp [hl]
      cases hf' : findRole s.roles r' with
      | none =>
        have hne : ¬ r' = r := by intro e; subst e; rw [hf] at hf'; cases hf'
        simp [grantedB, hf', hne]
      | some m' =>
        have e1 : grantedB { s with members := setBits s.members a' (bits.filter (fun i => i != m.index)) } a' r' =
            (bits.filter (fun i => i != m.index)).contains m'.index := by
          simp [grantedB, hf', hl']
        rw [e1, grantedB_eq hf' hl]
        by_cases hr : r' = r
        · subst hr; rw [hf] at hf'; cases hf'; simp
        · have hne : m'.index ≠ m.index := fun e => hr (findRole_index_inj 0 hi.idx hf' hf e)
          simp only [hr, and_false, if_false]
          cases hcc : bits.contains m'.index with
          | false =>
            have : ¬ m'.index ∈ bits := by simpa using hcc
            simp [this]
          | true =>
            have : m'.index ∈ bits := by simpa using hcc
            simp [this, hne]
    · have hl' : lookup (setBits s.members a (bits.filter (fun i => i != m.index))) a' = lookup s.members a' := by
        rw [lookup_setBits]; simp [ha]
      simp [grantedB, hl', ha]

theorem enabledB_setEnabled (s : St K A) (r r' : K) (b : Bool) (hk : (findRole s.roles r).isSome) :
    enabledB { s with roles := setEnabled s.roles r b } r' = if r' = r then b else enabledB s r' := by
  unfold enabledB
  simp only [findRole_setEnabled]
  by_cases hr : r' = r
  · subst hr
    cases hf : findRole s.roles r' with
    | none => rw [hf] at hk; cases hk
    | some m => simp
  · simp [hr]

theorem grantedB_setEnabled (s : St K A) (r : K) (b : Bool) (a' : A) (r' : K) :
    grantedB { s with roles := setEnabled s.roles r b } a' r' = grantedB s a' r' := by
  unfold grantedB
  simp only [findRole_setEnabled]
  by_cases hr : r' = r
  · subst hr
    cases findRole s.roles r' <;> cases lookup s.members a' <;> simp
  · simp [hr]

/-- effect of a successful `enable_role` -/
theorem enable_effect {s s' : St K A} {r : K} (hi : Inv s) (h : enableRole s r = .ok s') :
    s'.members = s.members ∧
    (∀ r', enabledB s' r' = if r' = r then true else enabledB s r') ∧
    (∀ a' r', grantedB s' a' r' = grantedB s a' r') := by
  unfold enableRole at h
  cases hf : findRole s.roles r with
  | some m =>
    rw [hf] at h; simp only at h
    cases hen : m.enabled with
    | true => simp [hen] at h
    | false =>
      simp only [hen, Bool.false_eq_true, if_false] at h
      cases h
      exact ⟨rfl, fun r' => enabledB_setEnabled s r r' true (by simp [hf]),
        fun a' r' => grantedB_setEnabled s r true a' r'⟩
  | none =>
    rw [hf] at h; simp only at h
    by_cases hcap : s.roles.length ≥ MAX_ROLES
    · simp [hcap] at h
    · simp only [hcap, if_false] at h
      cases h
      refine ⟨rfl, ?_, ?_⟩
      · intro r'
        unfold enabledB
        simp only [findRole_append]
        by_cases hr : r' = r
        · subst hr; simp [hf]
        · have : ¬ r = r' := fun e => hr e.symm
          cases findRole s.roles r' <;> simp [hr, this]
      · intro a' r'
        unfold grantedB
        simp only [findRole_append]
        cases hf' : findRole s.roles r' with
        | some m' => rfl
        | none =>
          by_cases hr : r = r'
          · simp only [hr, if_true]
            cases hl : lookup s.members a' with
            | none => rfl
            | some bits =>
              simp only
              have := (hi.bits a' bits hl).2
              cases hcc : bits.contains s.roles.length with
              | false => rfl
              | true =>
                have hm : s.roles.length ∈ bits := by simpa using hcc
                have := this _ hm; omega
          · simp [hr]

/-- effect of a successful `disable_role` -/
theorem disable_effect {s s' : St K A} {r : K} (h : disableRole s r = .ok s') :
    s'.members = s.members ∧
    (∀ r', enabledB s' r' = if r' = r then false else enabledB s r') ∧
    (∀ a' r', grantedB s' a' r' = grantedB s a' r') := by
  unfold disableRole at h
  cases hf : findRole s.roles r with
  | some m =>
    rw [hf] at h; simp only at h
    cases hen : m.enabled with
    | false => simp [hen] at h
    | true =>
      simp only [hen, if_true] at h
      cases h
      exact ⟨rfl, fun r' => enabledB_setEnabled s r r' false (by simp [hf]),
        fun a' r' => grantedB_setEnabled s r false a' r'⟩
  | none =>
    rw [hf] at h; cases h
    refine ⟨rfl, ?_, fun _ _ => rfl⟩
    intro r'
    by_cases hr : r' = r
    · subst hr; simp [enabledB, hf]
    · simp [hr]

/-! ### invariant -/

theorem inv_empty : Inv (St.empty : St K A) :=
  ⟨trivial, by intro a bits h; simp [St.empty, lookup] at h, by intro i h; simp [St.empty] at h,
    by simp [St.empty, MAX_ROLES], by simp [St.empty, MAX_MEMBERS]⟩

theorem complete_setEnabled {s : St K A} (r : K) (b : Bool)
    (hc : ∀ i, i < s.roles.length → ∃ r m, findRole s.roles r = some m ∧ m.index = i) :
    ∀ i, i < (setEnabled s.roles r b).length →
      ∃ r' m, findRole (setEnabled s.roles r b) r' = some m ∧ m.index = i := by
  intro i hlt
  rw [length_setEnabled] at hlt
  obtain ⟨r', m', hf', hidx⟩ := hc i hlt
  by_cases hr : r' = r
  · subst hr
    exact ⟨r', { m' with enabled := b }, by rw [findRole_setEnabled]; simp [hf'], hidx⟩
  · exact ⟨r', m', by rw [findRole_setEnabled]; simp [hr, hf'], hidx⟩

theorem inv_step {s s' : St K A} {o : Op K A} (hi : Inv s) (h : step s o = .ok s') : Inv s' := by
  cases o with
  | enable r =>
    simp only [step] at h
    unfold enableRole at h
    cases hf : findRole s.roles r with
    | some m =>
      rw [hf] at h; simp only at h
      cases hen : m.enabled with
      | true => simp [hen] at h
      | false =>
        simp only [hen, Bool.false_eq_true, if_false] at h
        cases h
        exact ⟨idxFrom_setEnabled _ _ _ _ hi.idx,
          by simpa [length_setEnabled] using hi.bits,
          complete_setEnabled _ _ hi.complete,
          by simpa [length_setEnabled] using hi.nroles, hi.nmembers⟩
    | none =>
      rw [hf] at h; simp only at h
      by_cases hcap : s.roles.length ≥ MAX_ROLES
      · simp [hcap] at h
      · simp only [hcap, if_false] at h
        cases h
        refine ⟨?_, ?_, ?_, ?_, hi.nmembers⟩
        · have := idxFrom_append s.roles r true 0 hi.idx
          simpa using this
        · intro a bits hl
          have := hi.bits a bits hl
          refine ⟨this.1, fun i hi' => ?_⟩
          have := this.2 i hi'
          simp only [List.length_append, List.length_cons, List.length_nil]; omega
        · intro i hlt
          simp only [List.length_append, List.length_cons, List.length_nil] at hlt
          by_cases hlt' : i < s.roles.length
          · obtain ⟨r', m', hf', hidx⟩ := hi.complete i hlt'
            exact ⟨r', m', by rw [findRole_append, hf'], hidx⟩
          · have : i = s.roles.length := by omega
            exact ⟨r, ⟨r, true, s.roles.length⟩, by rw [findRole_append, hf]; simp, this.symm⟩
        · simp only [List.length_append, List.length_cons, List.length_nil]; omega
  | disable r =>
    simp only [step] at h
    unfold disableRole at h
    cases hf : findRole s.roles r with
    | some m =>
      rw [hf] at h; simp only at h
      cases hen : m.enabled with
      | false => simp [hen] at h
      | true =>
        simp only [hen, if_true] at h
        cases h
        exact ⟨idxFrom_setEnabled _ _ _ _ hi.idx,
          by simpa [length_setEnabled] using hi.bits,
          complete_setEnabled _ _ hi.complete,
          by simpa [length_setEnabled] using hi.nroles, hi.nmembers⟩
    | none => rw [hf] at h; cases h; exact hi
  | grant a r =>
    simp only [step] at h
    obtain ⟨m, hf, _, hcase⟩ := grant_ok_shape h
    have hidx : m.index < s.roles.length := by
      have := (findRole_index_range 0 hi.idx hf).2; omega
    rcases hcase with ⟨bits, hl, _, rfl⟩ | ⟨hl, hlen, rfl⟩
    · refine ⟨hi.idx, ?_, hi.complete, hi.nroles, by simpa [length_setBits] using hi.nmembers⟩
      intro a' bits' hl'
      simp only [lookup_setBits] at hl'
      by_cases ha : a' = a
      · simp only [ha, if_true, hl, Option.map_some] at hl'
        cases hl'
        refine ⟨by simp, ?_⟩
        intro i hi'
        rcases List.mem_cons.1 hi' with rfl | hmem
        · exact hidx
        · exact (hi.bits a bits hl).2 i hmem
      · simp only [ha, if_false] at hl'
        exact hi.bits a' bits' hl'
    · refine ⟨hi.idx, ?_, hi.complete, hi.nroles, ?_⟩
      · intro a' bits' hl'
        simp only [lookup_append] at hl'
        cases hl0 : lookup s.members a' with
        | some b =>
          rw [hl0] at hl'; simp only at hl'; cases hl'
          exact hi.bits a' _ hl0
        | none =>
          rw [hl0] at hl'; simp only at hl'
          by_cases ha : a = a'
          · simp only [ha, if_true] at hl'
            cases hl'
            exact ⟨by simp, by intro i hi'; simp at hi'; subst hi'; exact hidx⟩
          · simp [ha] at hl'
      · simp only [List.length_append, List.length_cons, List.length_nil]
        unfold MAX_MEMBERS at *; omega
  | revoke a r =>
    simp only [step] at h
    obtain ⟨m, bits, hf, hl, _, hcase⟩ := revoke_ok_shape h
    rcases hcase with ⟨_, rfl⟩ | ⟨hne, rfl⟩
    · refine ⟨hi.idx, ?_, hi.complete, hi.nroles, Nat.le_trans (length_removeMember _ _) hi.nmembers⟩
      intro a' bits' hl'
      simp only [lookup_removeMember] at hl'
      by_cases ha : a' = a
      · simp [ha] at hl'
      · simp only [ha, if_false] at hl'
        exact hi.bits a' bits' hl'
    · refine ⟨hi.idx, ?_, hi.complete, hi.nroles, by simpa [length_setBits] using hi.nmembers⟩
      intro a' bits' hl'
      simp only [lookup_setBits] at hl'
      by_cases ha : a' = a
      · simp only [ha, if_true, hl, Option.map_some] at hl'
        cases hl'
        refine ⟨hne, ?_⟩
        intro i hi'
        exact (hi.bits a bits hl).2 i (List.mem_filter.1 hi').1
      · simp only [ha, if_false] at hl'
        exact hi.bits a' bits' hl'

theorem inv_apply {s : St K A} (o : Op K A) (hi : Inv s) : Inv (apply s o) := by
  unfold apply
  cases h : step s o with
  | ok s' => exact inv_step hi h
  | error e => exact hi

theorem inv_run (ops : List (Op K A)) : ∀ {s : St K A}, Inv s → Inv (run s ops) := by
  induction ops with
  | nil => intro s h; exact h
  | cons o os ih => intro s h; exact ih (inv_apply o h)

/-! ### set semantics of a history (specification side) -/

/-- The set semantics of one call, from its observable outcome only. -/
def specStep (E : K → Bool) (G : A → K → Bool) (o : Op K A) (ok : Bool) : (K → Bool) × (A → K → Bool) :=
  if !ok then (E, G) else
  match o with
  | .enable r => (fun r' => if r' = r then true else E r', G)
  | .disable r => (fun r' => if r' = r then false else E r', G)
  | .grant a r => (E, fun a' r' => if a' = a ∧ r' = r then true else G a' r')
  | .revoke a r => (E, fun a' r' => if a' = a ∧ r' = r then false else G a' r')

/-- … of a history: the role is enabled iff the last successful enable/disable of it was an
enable; the grant is held iff the last successful grant/revoke of that pair was a grant. -/
def specRun : St K A → (K → Bool) → (A → K → Bool) → List (Op K A) → (K → Bool) × (A → K → Bool)
  | _, E, G, [] => (E, G)
  | s, E, G, o :: os =>
    specRun (apply s o) (specStep E G o (succeeds s o)).1 (specStep E G o (succeeds s o)).2 os

end

/-- a concrete store for the non-vacuity examples -/
def ex1 : St String Nat :=
  run St.empty [.enable "ADMIN", .enable "KEEPER", .grant 7 "KEEPER", .grant 7 "ADMIN", .disable "ADMIN"]

end Gmx.Roles
