import Gmx.Model.Guard
/-! The generated guard table means exactly the transcribed `guardedDecrease`. -/
namespace Gmx.Lem
open Gmx Gmx.Perp Gmx.Gen.C09

theorem runGuard_generated_eq (W U : Nat) (m : Market) (c : PerpCfg) (pr : Prices) (p : Pos) (sd wd : Nat)
    (ins cap : Bool) (tag : OrderTag) :
    runGuard checks W U m c pr p sd wd ins cap tag = guardedDecrease W U m c pr p sd wd ins cap tag := by
  cases tag
  · -- plain
    simp only [runGuard, runChecks, checks, tagOf, guardedDecrease, Option.some.injEq, reduceCtorEq, false_and, and_false, if_false]
    cases decrease W U m c pr p sd wd ⟨ins, decide (OrderTag.plain = OrderTag.liquidation), cap⟩ with
    | error e => rfl
    | ok v => rfl
  · -- liquidation
    simp only [runGuard, runChecks, checks, tagOf, guardedDecrease, GuardEnv.eval, gerrOf, Option.some.injEq, reduceCtorEq, false_and, and_self,
      and_true, and_false, if_false, if_true, true_and]
    by_cases hlt : sd < p.sizeUsd
    · have : ¬ ((sd : Int) ≥ (p.sizeUsd : Int)) := by omega
      simp only [this, hlt, if_false, if_true]
    · have : ((sd : Int) ≥ (p.sizeUsd : Int)) := by omega
      simp only [this, hlt, if_false, if_true]
      cases decrease W U m c pr p sd wd ⟨ins, decide (OrderTag.liquidation = OrderTag.liquidation), cap⟩ with
      | error e => rfl
      | ok v => rfl
  · -- adl
    simp only [runGuard, runChecks, checks, tagOf, guardedDecrease, GuardEnv.eval, gerrOf, Option.some.injEq, reduceCtorEq, false_and, and_self,
      and_true, and_false, if_false, if_true, true_and]
    unfold adlFactorBefore
    cases hb : pnlFactorWithPoolValue W U m pr p.isLong true with
    | none => simp [Except.map]
    | some fb =>
      obtain ⟨f0, pv0⟩ := fb
      by_cases hex : pnlExceeded f0 (m.cfg.pnlFactor .forAdl) = true
      · simp only [hex, if_true, Except.map]
        cases hd : decrease W U m c pr p sd wd ⟨ins, decide False, cap⟩ with
        | error e => rfl
        | ok v =>
          obtain ⟨m', p', r⟩ := v
          simp only
          cases ha : pnlFactorWithPoolValue W U m' pr p.isLong true with
          | none => rfl
          | some fa =>
            obtain ⟨f1, pv1⟩ := fa
            simp only
            by_cases hgt : f0 > f1
            · simp only [hgt, if_true, not_true_eq_false, if_false]
              cases hm : toSigned W (m'.cfg.pnlFactor .minAfterAdl) with
              | none => rfl
              | some mn =>
                simp only
                by_cases hge : f1 ≥ mn
                · simp only [hge, if_true, not_true_eq_false, if_false]
                · simp only [hge, if_false, not_false_eq_true, if_true]
            · simp only [hgt, if_false, not_false_eq_true, if_true]
      · simp [hex, Except.map]

end Gmx.Lem
