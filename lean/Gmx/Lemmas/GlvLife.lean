import Gmx.Model.GlvLife
/-! invariants of the GLV life-cycle machine (C45 `GlvLife` section, C23 clauses) -/
namespace Gmx.GlvLife

/-- (iii) the balance RECORDED for each market token in the GLV account is the GLV's vault balance -/
def RecOK (s : St) : Prop := s.glvRec0 = s.glvVault0 ∧ s.glvRec1 = s.glvVault1

/-- GLV supply is well defined (never more burned than minted) -/
def SupplyOK (s : St) : Prop := s.glvBurned ≤ s.glvMinted

theorem exec_some {s s' : St} {who : Who} {slot fee x y z paid : Nat} {throw fail : Bool} {o : Outcome}
    (h : exec s who slot fee throw fail x y z = some (s', o, paid)) :
    ∃ act, s.acts slot = some act ∧ act.state = 0 ∧ who = .keeper ∧ slot < NSLOTS ∧
      paid = (if fee ≤ act.execLamports then fee else act.execLamports) ∧
      ((o = .cancelled ∧ throw = false ∧ s' = setAct s slot (some { act with state := 2 })) ∨
       (o = .completed ∧ complete s slot act x y z = some s')) := by
  unfold exec at h
  by_cases h0 : who ≠ .keeper ∨ slot ≥ NSLOTS
  · simp [h0] at h
  · rw [if_neg h0] at h
    cases ha : s.acts slot with
    | none => simp [ha] at h
    | some act =>
      simp only [ha] at h
      by_cases h1 : act.state ≠ 0
      · simp [h1] at h
      · rw [if_neg h1] at h
        by_cases h2 : s.now - s.priceTs > HEARTBEAT
        · simp [h2] at h
        · rw [if_neg h2] at h
          by_cases h3 : s.priceTs < act.createdAt
          · simp [h3] at h
          · rw [if_neg h3] at h
            have hk : who = .keeper := by
              by_cases hw : who = .keeper
              · exact hw
              · exact absurd (Or.inl hw) h0
            have hs : slot < NSLOTS := by
              have : ¬ slot ≥ NSLOTS := fun e => h0 (Or.inr e)
              omega
            have hst : act.state = 0 := by simpa using h1
            refine ⟨act, rfl, hst, hk, hs, ?_⟩
            by_cases h4 : act.createdAt + REQUEST_EXPIRATION < s.priceTs
            · simp only [h4, if_true] at h
              cases throw with
              | true => simp at h
              | false =>
                simp only [Bool.false_eq_true, if_false, Option.some.injEq, Prod.mk.injEq] at h
                obtain ⟨rfl, rfl, rfl⟩ := h
                exact ⟨rfl, Or.inl ⟨rfl, rfl, rfl⟩⟩
            · simp only [h4, if_false] at h
              by_cases h5 : (act.soft || fail) = true
              · simp only [h5, if_true] at h
                cases throw with
                | true => simp at h
                | false =>
                  simp only [Bool.false_eq_true, if_false, Option.some.injEq, Prod.mk.injEq] at h
                  obtain ⟨rfl, rfl, rfl⟩ := h
                  exact ⟨rfl, Or.inl ⟨rfl, rfl, rfl⟩⟩
              · simp only [h5, Bool.false_eq_true, if_false] at h
                cases hc : complete s slot act x y z with
                | none => simp [hc] at h
                | some s1 =>
                  simp only [hc, Option.map_some, Option.some.injEq, Prod.mk.injEq] at h
                  obtain ⟨rfl, rfl, rfl⟩ := h
                  exact ⟨rfl, Or.inr ⟨rfl, rfl⟩⟩

theorem complete_some {s s' : St} {slot x y z : Nat} {act : Act} (h : complete s slot act x y z = some s') :
    (act.kind = 0 ∧
      s' = setAct (glvIn (mintMt { s with vaultLong := s.vaultLong + act.escLong, vaultShort := s.vaultShort + act.escShort,
                                          glvMinted := s.glvMinted + y } act.m x) act.m (act.escMt + x)) slot
        (some { act with state := 1, escLong := 0, escShort := 0, escMt := 0, escGlv := act.escGlv + y })) ∨
    (act.kind ≠ 0 ∧ x ≤ s.glvRec act.m ∧ x ≤ s.glvVault act.m ∧ x ≤ s.mtSupply act.m ∧ y ≤ s.vaultLong ∧ z ≤ s.vaultShort ∧
      s.glvBurned + act.escGlv ≤ s.glvMinted ∧
      s' = setAct (glvOut (burnMt { s with vaultLong := s.vaultLong - y, vaultShort := s.vaultShort - z,
                                           glvBurned := s.glvBurned + act.escGlv } act.m x) act.m x) slot
        (some { act with state := 1, escGlv := 0, escLong := act.escLong + y, escShort := act.escShort + z })) := by
  unfold complete at h
  by_cases hk : act.kind = 0
  · rw [if_pos hk] at h
    simp only [Option.some.injEq] at h
    exact Or.inl ⟨hk, h.symm⟩
  · rw [if_neg hk] at h
    by_cases hc : s.glvRec act.m < x ∨ s.glvVault act.m < x ∨ s.mtSupply act.m < x ∨ s.vaultLong < y ∨ s.vaultShort < z
        ∨ s.glvMinted < s.glvBurned + act.escGlv
    · simp [hc] at h
    · simp only [hc, if_false, Option.some.injEq] at h
      exact Or.inr ⟨hk, by omega, by omega, by omega, by omega, by omega, by omega, h.symm⟩

theorem recOK_glvIn {s : St} (h : RecOK s) (m a : Nat) : RecOK (glvIn s m a) := by
  unfold glvIn RecOK at *; split <;> simp_all
theorem recOK_glvOut {s : St} (h : RecOK s) (m a : Nat) : RecOK (glvOut s m a) := by
  unfold glvOut RecOK at *; split <;> simp_all
theorem recOK_mintMt {s : St} (h : RecOK s) (m a : Nat) : RecOK (mintMt s m a) := by
  unfold mintMt RecOK at *; split <;> simp_all
theorem recOK_burnMt {s : St} (h : RecOK s) (m a : Nat) : RecOK (burnMt s m a) := by
  unfold burnMt RecOK at *; split <;> simp_all

theorem mdep_ok {s s' : St} {u m l sh x : Nat} {f : Bool} (h : mdep s u m l sh f x = some s') (hr : RecOK s)
    (hs : SupplyOK s) : RecOK s' ∧ SupplyOK s' := by
  unfold mdep at h
  by_cases h0 : u ≥ NUSERS ∨ m ≥ 2
  · simp [h0] at h
  · by_cases hc : (l = 0 ∧ sh = 0) ∨ (s.users u).long < l ∨ (s.users u).short < sh ∨ f = true
    · simp [h0, hc] at h
    · simp only [h0, hc, if_false, Option.some.injEq] at h
      subst h
      unfold RecOK SupplyOK setUser mintMt at *
      split <;> exact ⟨hr, hs⟩

theorem create_rec {s s' : St} {u k i m a b c el : Nat} {soft : Bool} (h : create s u k i m a b c soft el = some s') :
    s'.glvRec0 = s.glvRec0 ∧ s'.glvVault0 = s.glvVault0 ∧ s'.glvRec1 = s.glvRec1 ∧ s'.glvVault1 = s.glvVault1 ∧
    s'.glvMinted = s.glvMinted ∧ s'.glvBurned = s.glvBurned := by
  unfold create at h
  by_cases h0 : u ≥ NUSERS ∨ k ≥ 2 ∨ i ≥ 2 ∨ m ≥ 2
  · simp [h0] at h
  · rw [if_neg h0] at h
    cases ha : s.acts (slotOf u k i) with
    | some _ => simp [ha] at h
    | none =>
      simp only [ha] at h
      by_cases h1 : el < MIN_EXEC_LAMPORTS
      · simp [h1] at h
      · rw [if_neg h1] at h
        by_cases hk : k = 0
        · simp only [hk, if_true] at h
          split at h
          · cases h
          · cases h; exact ⟨rfl, rfl, rfl, rfl, rfl, rfl⟩
        · simp only [hk, if_false] at h
          split at h
          · cases h
          · cases h; exact ⟨rfl, rfl, rfl, rfl, rfl, rfl⟩

theorem close_some {s s' : St} {who : Who} {slot : Nat} (h : close s who slot = some s') :
    ∃ act, s.acts slot = some act ∧ slot < NSLOTS ∧ (who = .user act.owner ∨ (who = .keeper ∧ act.state ≠ 0)) ∧ act.owner < 2 ∧
      s' = setAct (setUser s act.owner
        ({ (s.users act.owner) with long := (s.users act.owner).long + act.escLong,
                                     short := (s.users act.owner).short + act.escShort,
                                     glv := (s.users act.owner).glv + act.escGlv }.addMt act.m act.escMt)) slot none := by
  unfold close at h
  by_cases h0 : slot ≥ NSLOTS
  · simp [h0] at h
  · rw [if_neg h0] at h
    cases ha : s.acts slot with
    | none => simp [ha] at h
    | some act =>
      simp only [ha] at h
      by_cases hal : who = .user act.owner ∨ (who = .keeper ∧ act.state ≠ 0)
      · by_cases ho : act.owner ≥ NUSERS
        · simp [hal, ho] at h
        · simp only [hal, not_true_eq_false, ho, or_self, if_false, Option.some.injEq] at h
          exact ⟨act, rfl, by omega, hal, by unfold NUSERS at ho; omega, h.symm⟩
      · simp [hal] at h

theorem exec_ok {s s' : St} {who : Who} {slot fee x y z paid : Nat} {throw fail : Bool} {o : Outcome}
    (h : exec s who slot fee throw fail x y z = some (s', o, paid)) (hr : RecOK s) (hs : SupplyOK s) :
    RecOK s' ∧ SupplyOK s' := by
  obtain ⟨act, _, _, _, _, _, hcase⟩ := exec_some h
  rcases hcase with ⟨_, _, rfl⟩ | ⟨_, hc⟩
  · exact ⟨hr, hs⟩
  · rcases complete_some hc with ⟨_, rfl⟩ | ⟨_, _, _, _, _, _, hb, rfl⟩
    · unfold RecOK SupplyOK setAct glvIn mintMt at *
      by_cases hm : act.m = 0 <;> simp only [hm, if_true, if_false] <;> omega
    · unfold RecOK SupplyOK setAct glvOut burnMt St.glvRec St.glvVault St.mtSupply at *
      by_cases hm : act.m = 0 <;> simp only [hm, if_true, if_false] at * <;> omega

/-! ### shifts -/

theorem screate_some {s s' : St} {who : Who} {i a b c el : Nat} (h : screate s who i a b c el = some s') :
    who = .keeper ∧ i < 2 ∧ a < 2 ∧ b < 2 ∧ a ≠ b ∧ s.shifts i = none ∧ c ≠ 0 ∧ c ≤ s.glvVault a ∧
    s.lastShiftAt + SHIFT_INTERVAL ≤ s.now ∧ s' = setShift s i (some ⟨0, a, b, c, s.now, el⟩) := by
  unfold screate at h
  by_cases h0 : who ≠ .keeper ∨ i ≥ 2 ∨ a ≥ 2 ∨ b ≥ 2 ∨ a = b
  · simp [h0] at h
  · rw [if_neg h0] at h
    cases hs : s.shifts i with
    | some _ => simp [hs] at h
    | none =>
      simp only [hs] at h
      by_cases h1 : c = 0 ∨ s.glvVault a < c ∨ s.now < s.lastShiftAt + SHIFT_INTERVAL
      · simp [h1] at h
      · simp only [h1, if_false, Option.some.injEq] at h
        have hk : who = .keeper := by
          by_cases hw : who = .keeper
          · exact hw
          · exact absurd (Or.inl hw) h0
        refine ⟨hk, ?_, ?_, ?_, ?_, rfl, ?_, ?_, ?_, h.symm⟩ <;> omega

theorem scomplete_some {s s' : St} {i x : Nat} {sh : Shift} (h : scomplete s i sh x = some s') :
    sh.amount ≤ s.glvRec sh.src ∧ sh.amount ≤ s.mtSupply sh.src ∧
    s' = setShift { (glvIn (mintMt (glvOut (burnMt s sh.src sh.amount) sh.src sh.amount) sh.dst x) sh.dst x) with lastShiftAt := s.now }
      i (some { sh with state := 1 }) := by
  unfold scomplete at h
  by_cases h0 : s.glvRec sh.src < sh.amount ∨ s.mtSupply sh.src < sh.amount
  · simp [h0] at h
  · simp only [h0, if_false, Option.some.injEq] at h
    exact ⟨by omega, by omega, h.symm⟩

theorem sexec_some {s s' : St} {who : Who} {i fee x paid : Nat} {throw fail : Bool} {o : Outcome}
    (h : sexec s who i fee throw fail x = some (s', o, paid)) :
    ∃ sh, s.shifts i = some sh ∧ sh.state = 0 ∧ who = .keeper ∧ i < 2 ∧
      paid = (if fee ≤ sh.execLamports then fee else sh.execLamports) ∧
      ((o = .cancelled ∧ throw = false ∧ s' = setShift s i (some { sh with state := 2 })) ∨
       (o = .completed ∧ s.lastShiftAt + SHIFT_INTERVAL ≤ s.now ∧ sh.amount ≤ s.glvVault sh.src ∧ scomplete s i sh x = some s')) := by
  unfold sexec at h
  by_cases h0 : who ≠ .keeper ∨ i ≥ 2
  · simp [h0] at h
  · rw [if_neg h0] at h
    cases ha : s.shifts i with
    | none => simp [ha] at h
    | some sh =>
      simp only [ha] at h
      by_cases h1 : sh.state ≠ 0
      · simp [h1] at h
      · rw [if_neg h1] at h
        by_cases h2 : s.now - s.priceTs > HEARTBEAT
        · simp [h2] at h
        · rw [if_neg h2] at h
          by_cases h3 : s.priceTs < sh.createdAt
          · simp [h3] at h
          · rw [if_neg h3] at h
            have hk : who = .keeper := by
              by_cases hw : who = .keeper
              · exact hw
              · exact absurd (Or.inl hw) h0
            have hi : i < 2 := by
              have : ¬ i ≥ 2 := fun e => h0 (Or.inr e)
              omega
            have hst : sh.state = 0 := by simpa using h1
            refine ⟨sh, rfl, hst, hk, hi, ?_⟩
            by_cases h4 : sh.createdAt + REQUEST_EXPIRATION < s.priceTs
            · simp only [h4, if_true] at h
              cases throw with
              | true => simp at h
              | false =>
                simp only [Bool.false_eq_true, if_false, Option.some.injEq, Prod.mk.injEq] at h
                obtain ⟨rfl, rfl, rfl⟩ := h
                exact ⟨rfl, Or.inl ⟨rfl, rfl, rfl⟩⟩
            · simp only [h4, if_false] at h
              by_cases h5 : fail = true ∨ s.now < s.lastShiftAt + SHIFT_INTERVAL ∨ s.glvVault sh.src < sh.amount
              · simp only [h5, if_true] at h
                cases throw with
                | true => simp at h
                | false =>
                  simp only [Bool.false_eq_true, if_false, Option.some.injEq, Prod.mk.injEq] at h
                  obtain ⟨rfl, rfl, rfl⟩ := h
                  exact ⟨rfl, Or.inl ⟨rfl, rfl, rfl⟩⟩
              · simp only [h5, if_false] at h
                cases hc : scomplete s i sh x with
                | none => simp [hc] at h
                | some s1 =>
                  simp only [hc, Option.map_some, Option.some.injEq, Prod.mk.injEq] at h
                  obtain ⟨rfl, rfl, rfl⟩ := h
                  exact ⟨rfl, Or.inr ⟨rfl, by omega, by omega, rfl⟩⟩

theorem sclose_some {s s' : St} {who : Who} {i : Nat} (h : sclose s who i = some s') :
    who = .keeper ∧ i < 2 ∧ (s.shifts i).isSome ∧ s' = setShift s i none := by
  unfold sclose at h
  by_cases h0 : who ≠ .keeper ∨ i ≥ 2
  · simp [h0] at h
  · rw [if_neg h0] at h
    cases ha : s.shifts i with
    | none => simp [ha] at h
    | some sh =>
      simp only [ha, Option.some.injEq] at h
      have hk : who = .keeper := by
        by_cases hw : who = .keeper
        · exact hw
        · exact absurd (Or.inl hw) h0
      exact ⟨hk, by omega, rfl, h.symm⟩

theorem sexec_ok {s s' : St} {who : Who} {i fee x paid : Nat} {throw fail : Bool} {o : Outcome}
    (h : sexec s who i fee throw fail x = some (s', o, paid)) (hr : RecOK s) (hs : SupplyOK s) :
    RecOK s' ∧ SupplyOK s' := by
  obtain ⟨sh, _, _, _, _, _, hcase⟩ := sexec_some h
  rcases hcase with ⟨_, _, rfl⟩ | ⟨_, _, _, hc⟩
  · exact ⟨hr, hs⟩
  · obtain ⟨_, _, rfl⟩ := scomplete_some hc
    exact ⟨recOK_glvIn (recOK_mintMt (recOK_glvOut (recOK_burnMt hr _ _) _ _) _ _) _ _,
      by unfold SupplyOK setShift glvIn mintMt glvOut burnMt at *; split <;> split <;> exact hs⟩

/-- (iii) and supply well-definedness are preserved by every transaction -/
theorem step_ok (s : St) (op : Op) (hr : RecOK s) (hs : SupplyOK s) : RecOK (step s op).1 ∧ SupplyOK (step s op).1 := by
  cases op with
  | tick dt => exact ⟨hr, hs⟩
  | price age => exact ⟨hr, hs⟩
  | mdep u m l sh f x =>
    simp only [step]
    cases h : mdep s u m l sh f x with
    | none => exact ⟨hr, hs⟩
    | some s' => exact mdep_ok h hr hs
  | create u k i m a b c soft el =>
    simp only [step]
    cases h : create s u k i m a b c soft el with
    | none => exact ⟨hr, hs⟩
    | some s' =>
      show RecOK s' ∧ SupplyOK s'
      obtain ⟨a1, a2, a3, a4, a5, a6⟩ := create_rec h
      unfold RecOK SupplyOK at *
      exact ⟨⟨by omega, by omega⟩, by omega⟩
  | exec who slot fee throw fail x y z =>
    simp only [step]
    cases h : exec s who slot fee throw fail x y z with
    | none => exact ⟨hr, hs⟩
    | some r =>
      obtain ⟨s', o, paid⟩ := r
      exact exec_ok h hr hs
  | close who slot =>
    simp only [step]
    cases h : close s who slot with
    | none => exact ⟨hr, hs⟩
    | some s' =>
      obtain ⟨act, _, _, _, _, rfl⟩ := close_some h
      exact ⟨hr, hs⟩
  | screate who i a b c el =>
    simp only [step]
    cases h : screate s who i a b c el with
    | none => exact ⟨hr, hs⟩
    | some s' =>
      obtain ⟨_, _, _, _, _, _, _, _, _, rfl⟩ := screate_some h
      exact ⟨hr, hs⟩
  | sexec who i fee throw fail x =>
    simp only [step]
    cases h : sexec s who i fee throw fail x with
    | none => exact ⟨hr, hs⟩
    | some r =>
      obtain ⟨s', o, paid⟩ := r
      exact sexec_ok h hr hs
  | sclose who i =>
    simp only [step]
    cases h : sclose s who i with
    | none => exact ⟨hr, hs⟩
    | some s' =>
      obtain ⟨_, _, _, rfl⟩ := sclose_some h
      exact ⟨hr, hs⟩

theorem exec_none_of_done {s : St} {slot : Nat} {a : Act} (ha : s.acts slot = some a) (hd : a.state ≠ 0)
    (who : Who) (fee : Nat) (throw fail : Bool) (x y z : Nat) : exec s who slot fee throw fail x y z = none := by
  unfold exec
  by_cases h0 : who ≠ .keeper ∨ slot ≥ NSLOTS
  · simp [h0]
  · simp [h0, ha, hd]

theorem acts_setAct_same (s : St) (k : Nat) (x : Option Act) : (setAct s k x).acts k = x := by simp [setAct]

/-- after a successful execution the slot holds a completed or cancelled action -/
theorem exec_done {s s' : St} {who : Who} {slot fee x y z paid : Nat} {throw fail : Bool} {o : Outcome}
    (h : exec s who slot fee throw fail x y z = some (s', o, paid)) :
    ∃ a, s'.acts slot = some a ∧ a.state ≠ 0 := by
  obtain ⟨act, _, _, _, _, _, hcase⟩ := exec_some h
  rcases hcase with ⟨_, _, rfl⟩ | ⟨_, hc⟩
  · exact ⟨_, acts_setAct_same _ _ _, by simp⟩
  · rcases complete_some hc with ⟨_, rfl⟩ | ⟨_, _, _, _, _, _, _, rfl⟩
    · exact ⟨_, acts_setAct_same _ _ _, by simp⟩
    · exact ⟨_, acts_setAct_same _ _ _, by simp⟩


@[simp] theorem addMt_glv (x : User) (m a : Nat) : (x.addMt m a).glv = x.glv := by unfold User.addMt; split <;> rfl
@[simp] theorem addMt_long (x : User) (m a : Nat) : (x.addMt m a).long = x.long := by unfold User.addMt; split <;> rfl
@[simp] theorem addMt_short (x : User) (m a : Nat) : (x.addMt m a).short = x.short := by unfold User.addMt; split <;> rfl
@[simp] theorem subMt_glv (x : User) (m a : Nat) : (x.subMt m a).glv = x.glv := by unfold User.subMt; split <;> rfl
@[simp] theorem subMt_long (x : User) (m a : Nat) : (x.subMt m a).long = x.long := by unfold User.subMt; split <;> rfl
@[simp] theorem subMt_short (x : User) (m a : Nat) : (x.subMt m a).short = x.short := by unfold User.subMt; split <;> rfl

/-! ### global per-mint totals: folds over the finite user and slot lists -/

theorem sum_map_update {α : Type} (f : Nat → α) (g : α → Nat) (k : Nat) (v : α) :
    ∀ (l : List Nat), l.Nodup → k ∈ l →
      (l.map (fun i => g (if i = k then v else f i))).sum + g (f k) = (l.map (fun i => g (f i))).sum + g v := by
  intro l
  induction l with
  | nil => intro _ h; cases h
  | cons a l ih =>
    intro hnd hk
    have hnd' := (List.nodup_cons.1 hnd)
    simp only [List.map_cons, List.sum_cons]
    by_cases hka : a = k
    · subst hka
      have hunch : l.map (fun i => g (if i = a then v else f i)) = l.map (fun i => g (f i)) := by
        apply List.map_congr_left
        intro i hi
        have : i ≠ a := fun e => hnd'.1 (e ▸ hi)
        simp [this]
      simp only [if_true, hunch]; omega
    · have hkl : k ∈ l := by
        rcases List.mem_cons.1 hk with h | h
        · exact absurd h.symm hka
        · exact h
      have := ih hnd'.2 hkl
      simp only [hka, if_false]; omega

def usersL : List Nat := [0, 1]
def slotsL : List Nat := [0, 1, 2, 3, 4, 5, 6, 7]

/-- total of a user field over all users -/
def sumU (users : Nat → User) (g : User → Nat) : Nat := (usersL.map (fun u => g (users u))).sum
/-- total of an escrow field over all slots -/
def sumA (acts : Nat → Option Act) (g : Option Act → Nat) : Nat := (slotsL.map (fun k => g (acts k))).sum

theorem sumU_update (users : Nat → User) (g : User → Nat) (u : Nat) (x : User) (hu : u < 2) :
    sumU (fun i => if i = u then x else users i) g + g (users u) = sumU users g + g x := by
  unfold sumU
  exact sum_map_update users g u x usersL (by decide) (by unfold usersL; simp; omega)

theorem sumA_update (acts : Nat → Option Act) (g : Option Act → Nat) (k : Nat) (x : Option Act) (hk : k < 8) :
    sumA (fun i => if i = k then x else acts i) g + g (acts k) = sumA acts g + g x := by
  unfold sumA
  exact sum_map_update acts g k x slotsL (by decide) (by unfold slotsL; simp; omega)

def eLong : Option Act → Nat | some a => a.escLong | none => 0
def eShort : Option Act → Nat | some a => a.escShort | none => 0
def eGlv : Option Act → Nat | some a => a.escGlv | none => 0

/-- all long tokens: users + escrows + the (shared) market vault -/
def totalLong (s : St) : Nat := sumU s.users (·.long) + sumA s.acts eLong + s.vaultLong
def totalShort (s : St) : Nat := sumU s.users (·.short) + sumA s.acts eShort + s.vaultShort
/-- all GLV tokens in existence according to the holders: users + escrows -/
def heldGlv (s : St) : Nat := sumU s.users (·.glv) + sumA s.acts eGlv

/-- the ledger identities: collateral is conserved, and the GLV supply is exactly what users and escrows hold -/
structure Ledger (L S : Nat) (s : St) : Prop where
  long : totalLong s = L
  short : totalShort s = S
  glv : s.glvBurned + heldGlv s = s.glvMinted

theorem ledger_init (l sh : Nat) (now : Int) : Ledger (l + l) (sh + sh) (init l sh now) := by
  refine ⟨?_, ?_, ?_⟩ <;> simp [init, totalLong, totalShort, heldGlv, sumU, sumA, usersL, slotsL, eGlv, eLong, eShort]

/-- totals after replacing one user and one slot, everything else about the sums untouched -/
theorem totals_set (s : St) (u k : Nat) (X : User) (A : Option Act) (hu : u < 2) (hk : k < 8) (g : User → Nat) (e : Option Act → Nat) :
    sumU (setAct (setUser s u X) k A).users g + g (s.users u) = sumU s.users g + g X ∧
    sumA (setAct (setUser s u X) k A).acts e + e (s.acts k) = sumA s.acts e + e A :=
  ⟨sumU_update s.users g u X hu, sumA_update s.acts e k A hk⟩

theorem create_some {s s' : St} {u k i m a b c el : Nat} {soft : Bool} (h : create s u k i m a b c soft el = some s') :
    u < 2 ∧ k < 2 ∧ i < 2 ∧ m < 2 ∧ s.acts (slotOf u k i) = none ∧
    ((k = 0 ∧ a ≤ (s.users u).mt m ∧ b ≤ (s.users u).long ∧ c ≤ (s.users u).short ∧
        s' = setAct (setUser s u ({ (s.users u) with long := (s.users u).long - b, short := (s.users u).short - c }.subMt m a)) (slotOf u k i)
          (some ⟨u, 0, m, 0, b, c, a, 0, s.now, el, soft⟩)) ∨
     (k = 1 ∧ a ≤ (s.users u).glv ∧
        s' = setAct (setUser s u { (s.users u) with glv := (s.users u).glv - a }) (slotOf u k i)
          (some ⟨u, 1, m, 0, 0, 0, 0, a, s.now, el, soft⟩))) := by
  unfold create at h
  by_cases h0 : u ≥ NUSERS ∨ k ≥ 2 ∨ i ≥ 2 ∨ m ≥ 2
  · simp [h0] at h
  · rw [if_neg h0] at h
    have hb : u < 2 ∧ k < 2 ∧ i < 2 ∧ m < 2 := by unfold NUSERS at h0; omega
    cases ha : s.acts (slotOf u k i) with
    | some _ => simp [ha] at h
    | none =>
      simp only [ha] at h
      by_cases h1 : el < MIN_EXEC_LAMPORTS
      · simp [h1] at h
      · rw [if_neg h1] at h
        by_cases hk : k = 0
        · rw [if_pos hk] at h
          by_cases hc : (a = 0 ∧ b = 0 ∧ c = 0) ∨ (s.users u).mt m < a ∨ (s.users u).long < b ∨ (s.users u).short < c
          · simp [hc] at h
          · simp only [hc, if_false, Option.some.injEq] at h
            exact ⟨hb.1, hb.2.1, hb.2.2.1, hb.2.2.2, rfl, Or.inl ⟨hk, by omega, by omega, by omega, h.symm⟩⟩
        · rw [if_neg hk] at h
          by_cases hc : a = 0 ∨ b ≠ 0 ∨ c ≠ 0 ∨ (s.users u).glv < a
          · simp [hc] at h
          · simp only [hc, if_false, Option.some.injEq] at h
            exact ⟨hb.1, hb.2.1, hb.2.2.1, hb.2.2.2, rfl, Or.inr ⟨by omega, by omega, h.symm⟩⟩

theorem slotOf_lt {u k i : Nat} (hu : u < 2) (hk : k < 2) (hi : i < 2) : slotOf u k i < 8 := by unfold slotOf; omega

/-- the workhorse: a state whose users differ from `s` at most at `u` (now `X`) and whose slots differ at most at `k`
(now `A`) keeps the ledger identities provided the LOCAL balance equations hold -/
theorem ledger_of {L S : Nat} {s : St} (hl : Ledger L S s) (s' : St) (u k : Nat) (X : User) (A : Option Act)
    (hu : u < 2) (hk : k < 8)
    (husers : s'.users = fun i => if i = u then X else s.users i)
    (hacts : s'.acts = fun i => if i = k then A else s.acts i)
    (h1 : X.long + eLong A + s'.vaultLong = (s.users u).long + eLong (s.acts k) + s.vaultLong)
    (h2 : X.short + eShort A + s'.vaultShort = (s.users u).short + eShort (s.acts k) + s.vaultShort)
    (h3 : s'.glvBurned + X.glv + eGlv A + s.glvMinted = s.glvBurned + (s.users u).glv + eGlv (s.acts k) + s'.glvMinted) :
    Ledger L S s' := by
  obtain ⟨l1, l2, l3⟩ := hl
  have a1 := sumU_update s.users (fun x => x.long) u X hu
  have a2 := sumU_update s.users (fun x => x.short) u X hu
  have a3 := sumU_update s.users (fun x => x.glv) u X hu
  have b1 := sumA_update s.acts eLong k A hk
  have b2 := sumA_update s.acts eShort k A hk
  have b3 := sumA_update s.acts eGlv k A hk
  unfold totalLong at l1
  unfold totalShort at l2
  unfold heldGlv at l3
  refine ⟨?_, ?_, ?_⟩
  · unfold totalLong; rw [husers, hacts]; omega
  · unfold totalShort; rw [husers, hacts]; omega
  · unfold heldGlv; rw [husers, hacts]; omega

theorem ledger_create {L S : Nat} {s s' : St} {u k i m a b c el : Nat} {soft : Bool} (hl : Ledger L S s)
    (h : create s u k i m a b c soft el = some s') : Ledger L S s' := by
  obtain ⟨hu, hk, hi, _, hnone, hcase⟩ := create_some h
  have hs := slotOf_lt hu hk hi
  rcases hcase with ⟨_, _, hb, hc, rfl⟩ | ⟨_, ha, rfl⟩
  · refine ledger_of hl _ u (slotOf u k i) _ _ hu hs rfl rfl ?_ ?_ ?_ <;>
      simp only [setAct, setUser, hnone, eLong, eShort, eGlv, subMt_long, subMt_short, subMt_glv] <;> omega
  · refine ledger_of hl _ u (slotOf u k i) _ _ hu hs rfl rfl ?_ ?_ ?_ <;>
      simp only [setAct, setUser, hnone, eLong, eShort, eGlv] <;> omega

theorem users_id (s : St) (u : Nat) : s.users = fun i => if i = u then s.users u else s.users i := by
  funext i; by_cases h : i = u <;> simp [h]
theorem acts_id (s : St) (k : Nat) : s.acts = fun i => if i = k then s.acts k else s.acts i := by
  funext i; by_cases h : i = k <;> simp [h]

theorem ledger_close {L S : Nat} {s s' : St} {who : Who} {slot : Nat} (hl : Ledger L S s) (h : close s who slot = some s') :
    Ledger L S s' := by
  obtain ⟨act, ha, hs, _, ho, rfl⟩ := close_some h
  refine ledger_of hl _ act.owner slot _ _ ho (by unfold NSLOTS at hs; omega) rfl rfl ?_ ?_ ?_ <;>
    simp only [setAct, setUser, ha, eLong, eShort, eGlv, addMt_long, addMt_short, addMt_glv] <;> omega

theorem ledger_exec {L S : Nat} {s s' : St} {who : Who} {slot fee x y z paid : Nat} {throw fail : Bool} {o : Outcome}
    (hl : Ledger L S s) (h : exec s who slot fee throw fail x y z = some (s', o, paid)) : Ledger L S s' := by
  obtain ⟨act, ha, _, _, hs, _, hcase⟩ := exec_some h
  have hs8 : slot < 8 := by unfold NSLOTS at hs; omega
  rcases hcase with ⟨_, _, rfl⟩ | ⟨_, hc⟩
  · refine ledger_of hl _ 0 slot (s.users 0) _ (by omega) hs8 (users_id s 0) rfl ?_ ?_ ?_ <;>
      simp only [setAct, ha, eLong, eShort, eGlv] <;> omega
  · rcases complete_some hc with ⟨_, rfl⟩ | ⟨_, _, _, _, h4, h5, h6, rfl⟩
    · refine ledger_of hl _ 0 slot (s.users 0)
        (some { act with state := 1, escLong := 0, escShort := 0, escMt := 0, escGlv := act.escGlv + y }) (by omega) hs8 ?_ ?_ ?_ ?_ ?_
      · unfold setAct glvIn mintMt; split <;> exact users_id s 0
      · unfold setAct glvIn mintMt; split <;> rfl
      all_goals (unfold setAct glvIn mintMt; split <;> simp only [ha, eLong, eShort, eGlv] <;> omega)
    · refine ledger_of hl _ 0 slot (s.users 0)
        (some { act with state := 1, escGlv := 0, escLong := act.escLong + y, escShort := act.escShort + z }) (by omega) hs8 ?_ ?_ ?_ ?_ ?_
      · unfold setAct glvOut burnMt; split <;> exact users_id s 0
      · unfold setAct glvOut burnMt; split <;> rfl
      all_goals (unfold setAct glvOut burnMt; split <;> simp only [ha, eLong, eShort, eGlv] <;> omega)

theorem ledger_mdep {L S : Nat} {s s' : St} {u m l sh x : Nat} {f : Bool} (hl : Ledger L S s)
    (h : mdep s u m l sh f x = some s') : Ledger L S s' := by
  unfold mdep at h
  by_cases h0 : u ≥ NUSERS ∨ m ≥ 2
  · simp [h0] at h
  · by_cases hc : (l = 0 ∧ sh = 0) ∨ (s.users u).long < l ∨ (s.users u).short < sh ∨ f = true
    · simp [h0, hc] at h
    · simp only [h0, hc, if_false, Option.some.injEq] at h
      have hu : u < 2 := by unfold NUSERS at h0; omega
      subst h
      refine ledger_of hl _ u 0 ({ (s.users u) with long := (s.users u).long - l, short := (s.users u).short - sh }.addMt m x)
        (s.acts 0) hu (by omega) ?_ ?_ ?_ ?_ ?_
      · unfold setUser mintMt; split <;> rfl
      · unfold setUser mintMt; split <;> exact acts_id s 0
      all_goals (unfold setUser mintMt; split <;> simp only [addMt_long, addMt_short, addMt_glv] <;> omega)

/-- a state with the same users, slots, collateral vaults and GLV mint/burn counters keeps the ledger -/
theorem ledger_same {L S : Nat} {s s' : St} (hl : Ledger L S s) (hu : s'.users = s.users) (ha : s'.acts = s.acts)
    (h1 : s'.vaultLong = s.vaultLong) (h2 : s'.vaultShort = s.vaultShort) (h3 : s'.glvMinted = s.glvMinted)
    (h4 : s'.glvBurned = s.glvBurned) : Ledger L S s' := by
  obtain ⟨l1, l2, l3⟩ := hl
  unfold totalLong at l1; unfold totalShort at l2; unfold heldGlv at l3
  refine ⟨?_, ?_, ?_⟩
  · unfold totalLong; rw [hu, ha, h1]; exact l1
  · unfold totalShort; rw [hu, ha, h2]; exact l2
  · unfold heldGlv; rw [hu, ha, h3, h4]; exact l3

theorem ledger_sexec {L S : Nat} {s s' : St} {who : Who} {i fee x paid : Nat} {throw fail : Bool} {o : Outcome}
    (hl : Ledger L S s) (h : sexec s who i fee throw fail x = some (s', o, paid)) : Ledger L S s' := by
  obtain ⟨sh, _, _, _, _, _, hcase⟩ := sexec_some h
  rcases hcase with ⟨_, _, rfl⟩ | ⟨_, _, _, hc⟩
  · exact ledger_same hl rfl rfl rfl rfl rfl rfl
  · obtain ⟨_, _, rfl⟩ := scomplete_some hc
    refine ledger_same hl ?_ ?_ ?_ ?_ ?_ ?_ <;>
      (unfold setShift glvIn mintMt glvOut burnMt; split <;> split <;> rfl)

/-- THE LEDGER is preserved by every transaction -/
theorem step_preserves_total {L S : Nat} (s : St) (op : Op) (hl : Ledger L S s) : Ledger L S (step s op).1 := by
  cases op with
  | tick dt => exact ledger_same hl rfl rfl rfl rfl rfl rfl
  | price age => exact ledger_same hl rfl rfl rfl rfl rfl rfl
  | mdep u m l sh f x =>
    simp only [step]
    cases h : mdep s u m l sh f x with
    | none => exact hl
    | some s' => exact ledger_mdep hl h
  | create u k i m a b c soft el =>
    simp only [step]
    cases h : create s u k i m a b c soft el with
    | none => exact hl
    | some s' => exact ledger_create hl h
  | exec who slot fee throw fail x y z =>
    simp only [step]
    cases h : exec s who slot fee throw fail x y z with
    | none => exact hl
    | some r => obtain ⟨s', o, paid⟩ := r; exact ledger_exec hl h
  | close who slot =>
    simp only [step]
    cases h : close s who slot with
    | none => exact hl
    | some s' => exact ledger_close hl h
  | screate who i a b c el =>
    simp only [step]
    cases h : screate s who i a b c el with
    | none => exact hl
    | some s' =>
      obtain ⟨_, _, _, _, _, _, _, _, _, rfl⟩ := screate_some h
      exact ledger_same hl rfl rfl rfl rfl rfl rfl
  | sexec who i fee throw fail x =>
    simp only [step]
    cases h : sexec s who i fee throw fail x with
    | none => exact hl
    | some r => obtain ⟨s', o, paid⟩ := r; exact ledger_sexec hl h
  | sclose who i =>
    simp only [step]
    cases h : sclose s who i with
    | none => exact hl
    | some s' =>
      obtain ⟨_, _, _, rfl⟩ := sclose_some h
      exact ledger_same hl rfl rfl rfl rfl rfl rfl

theorem run_preserves_total {L S : Nat} (ops : List Op) : ∀ (s : St), Ledger L S s → Ledger L S (run s ops).1 := by
  induction ops with
  | nil => intro s h; exact h
  | cons op ops ih => intro s h; simp only [run]; exact ih _ (step_preserves_total s op h)

/-! ### the market-token ledgers: supply = users + escrows + GLV vault, per market -/

@[simp] theorem addMt_mt0 (x : User) (m a : Nat) : (x.addMt m a).mt0 = x.mt0 + (if m = 0 then a else 0) := by
  unfold User.addMt; split <;> simp_all
@[simp] theorem addMt_mt1 (x : User) (m a : Nat) : (x.addMt m a).mt1 = x.mt1 + (if m = 0 then 0 else a) := by
  unfold User.addMt; split <;> simp_all
@[simp] theorem subMt_mt0 (x : User) (m a : Nat) : (x.subMt m a).mt0 = x.mt0 - (if m = 0 then a else 0) := by
  unfold User.subMt; split <;> simp_all
@[simp] theorem subMt_mt1 (x : User) (m a : Nat) : (x.subMt m a).mt1 = x.mt1 - (if m = 0 then 0 else a) := by
  unfold User.subMt; split <;> simp_all

def eMt0 : Option Act → Nat | some a => if a.m = 0 then a.escMt else 0 | none => 0
def eMt1 : Option Act → Nat | some a => if a.m = 0 then 0 else a.escMt | none => 0

/-- all market tokens of market 0 / 1 outside the (always empty) burn vault: users + escrows + the GLV vault -/
def totalMt0 (s : St) : Nat := sumU s.users (·.mt0) + sumA s.acts eMt0 + s.glvVault0
def totalMt1 (s : St) : Nat := sumU s.users (·.mt1) + sumA s.acts eMt1 + s.glvVault1

structure MtLedger (s : St) : Prop where
  mt0 : totalMt0 s = s.mtSupply0
  mt1 : totalMt1 s = s.mtSupply1

theorem mtLedger_init (l sh : Nat) (now : Int) : MtLedger (init l sh now) := by
  refine ⟨?_, ?_⟩ <;> simp [init, totalMt0, totalMt1, sumU, sumA, usersL, slotsL, eMt0, eMt1]

theorem mt_of {s : St} (hl : MtLedger s) (s' : St) (u k : Nat) (X : User) (A : Option Act) (hu : u < 2) (hk : k < 8)
    (husers : s'.users = fun i => if i = u then X else s.users i)
    (hacts : s'.acts = fun i => if i = k then A else s.acts i)
    (h0 : X.mt0 + eMt0 A + s'.glvVault0 + s.mtSupply0 = (s.users u).mt0 + eMt0 (s.acts k) + s.glvVault0 + s'.mtSupply0)
    (h1 : X.mt1 + eMt1 A + s'.glvVault1 + s.mtSupply1 = (s.users u).mt1 + eMt1 (s.acts k) + s.glvVault1 + s'.mtSupply1) :
    MtLedger s' := by
  obtain ⟨l0, l1⟩ := hl
  have a0 := sumU_update s.users (fun x => x.mt0) u X hu
  have a1 := sumU_update s.users (fun x => x.mt1) u X hu
  have b0 := sumA_update s.acts eMt0 k A hk
  have b1 := sumA_update s.acts eMt1 k A hk
  unfold totalMt0 at l0; unfold totalMt1 at l1
  refine ⟨?_, ?_⟩
  · unfold totalMt0; rw [husers, hacts]; omega
  · unfold totalMt1; rw [husers, hacts]; omega

theorem mt_create {s s' : St} {u k i m a b c el : Nat} {soft : Bool} (hl : MtLedger s)
    (h : create s u k i m a b c soft el = some s') : MtLedger s' := by
  obtain ⟨hu, hk, hi, _, hnone, hcase⟩ := create_some h
  have hs := slotOf_lt hu hk hi
  rcases hcase with ⟨_, ha, _, _, rfl⟩ | ⟨_, _, rfl⟩
  · unfold User.mt at ha
    refine mt_of hl _ u (slotOf u k i) _ _ hu hs rfl rfl ?_ ?_ <;>
      (by_cases hm : m = 0 <;> simp only [setAct, setUser, hnone, eMt0, eMt1, subMt_mt0, subMt_mt1, hm, if_true, if_false] at ha ⊢ <;> omega)
  · refine mt_of hl _ u (slotOf u k i) _ _ hu hs rfl rfl ?_ ?_ <;>
      (by_cases hm : m = 0 <;> simp only [setAct, setUser, hnone, eMt0, eMt1, hm, if_true, if_false] <;> omega)

theorem mt_close {s s' : St} {who : Who} {slot : Nat} (hl : MtLedger s) (h : close s who slot = some s') : MtLedger s' := by
  obtain ⟨act, ha, hs, _, ho, rfl⟩ := close_some h
  refine mt_of hl _ act.owner slot _ _ ho (by unfold NSLOTS at hs; omega) rfl rfl ?_ ?_ <;>
    (by_cases hm : act.m = 0 <;> simp only [setAct, setUser, ha, eMt0, eMt1, addMt_mt0, addMt_mt1, hm, if_true, if_false] <;> omega)

theorem mt_exec {s s' : St} {who : Who} {slot fee x y z paid : Nat} {throw fail : Bool} {o : Outcome}
    (hl : MtLedger s) (h : exec s who slot fee throw fail x y z = some (s', o, paid)) : MtLedger s' := by
  obtain ⟨act, ha, _, _, hs, _, hcase⟩ := exec_some h
  have hs8 : slot < 8 := by unfold NSLOTS at hs; omega
  rcases hcase with ⟨_, _, rfl⟩ | ⟨_, hc⟩
  · refine mt_of hl _ 0 slot (s.users 0) _ (by omega) hs8 (users_id s 0) rfl ?_ ?_ <;>
      simp only [setAct, ha, eMt0, eMt1] <;> omega
  · rcases complete_some hc with ⟨_, rfl⟩ | ⟨_, _, h2, h3, _, _, _, rfl⟩
    · refine mt_of hl _ 0 slot (s.users 0)
        (some { act with state := 1, escLong := 0, escShort := 0, escMt := 0, escGlv := act.escGlv + y }) (by omega) hs8 ?_ ?_ ?_ ?_
      · unfold setAct glvIn mintMt; split <;> exact users_id s 0
      · unfold setAct glvIn mintMt; split <;> rfl
      all_goals (unfold setAct glvIn mintMt; by_cases hm : act.m = 0 <;> simp only [ha, eMt0, eMt1, hm, if_true, if_false] <;> omega)
    · unfold St.glvVault at h2; unfold St.mtSupply at h3
      refine mt_of hl _ 0 slot (s.users 0)
        (some { act with state := 1, escGlv := 0, escLong := act.escLong + y, escShort := act.escShort + z }) (by omega) hs8 ?_ ?_ ?_ ?_
      · unfold setAct glvOut burnMt; split <;> exact users_id s 0
      · unfold setAct glvOut burnMt; split <;> rfl
      all_goals (unfold setAct glvOut burnMt; by_cases hm : act.m = 0 <;> simp only [ha, eMt0, eMt1, hm, if_true, if_false] at h2 h3 ⊢ <;> omega)

theorem mt_mdep {s s' : St} {u m l sh x : Nat} {f : Bool} (hl : MtLedger s) (h : mdep s u m l sh f x = some s') : MtLedger s' := by
  unfold mdep at h
  by_cases h0 : u ≥ NUSERS ∨ m ≥ 2
  · simp [h0] at h
  · by_cases hc : (l = 0 ∧ sh = 0) ∨ (s.users u).long < l ∨ (s.users u).short < sh ∨ f = true
    · simp [h0, hc] at h
    · simp only [h0, hc, if_false, Option.some.injEq] at h
      have hu : u < 2 := by unfold NUSERS at h0; omega
      subst h
      refine mt_of hl _ u 0 ({ (s.users u) with long := (s.users u).long - l, short := (s.users u).short - sh }.addMt m x)
        (s.acts 0) hu (by omega) ?_ ?_ ?_ ?_
      · unfold setUser mintMt; split <;> rfl
      · unfold setUser mintMt; split <;> exact acts_id s 0
      all_goals (unfold setUser mintMt; by_cases hm : m = 0 <;> simp only [addMt_mt0, addMt_mt1, hm, if_true, if_false] <;> omega)

/-- same users and slots; each GLV vault and its supply move together -/
theorem mt_same {s s' : St} (hl : MtLedger s) (hu : s'.users = s.users) (ha : s'.acts = s.acts)
    (h0 : s'.glvVault0 + s.mtSupply0 = s.glvVault0 + s'.mtSupply0) (h1 : s'.glvVault1 + s.mtSupply1 = s.glvVault1 + s'.mtSupply1) :
    MtLedger s' := by
  obtain ⟨l0, l1⟩ := hl
  unfold totalMt0 at l0; unfold totalMt1 at l1
  refine ⟨?_, ?_⟩
  · unfold totalMt0; rw [hu, ha]; omega
  · unfold totalMt1; rw [hu, ha]; omega

theorem mt_sexec {s s' : St} {who : Who} {i fee x paid : Nat} {throw fail : Bool} {o : Outcome}
    (hl : MtLedger s) (h : sexec s who i fee throw fail x = some (s', o, paid)) : MtLedger s' := by
  obtain ⟨sh, _, _, _, _, _, hcase⟩ := sexec_some h
  rcases hcase with ⟨_, _, rfl⟩ | ⟨_, _, hv, hc⟩
  · exact mt_same hl rfl rfl rfl rfl
  · obtain ⟨_, hsup, rfl⟩ := scomplete_some hc
    unfold St.glvVault at hv; unfold St.mtSupply at hsup
    refine mt_same hl ?_ ?_ ?_ ?_
    · unfold setShift glvIn mintMt glvOut burnMt; split <;> split <;> rfl
    · unfold setShift glvIn mintMt glvOut burnMt; split <;> split <;> rfl
    all_goals (unfold setShift glvIn mintMt glvOut burnMt; by_cases h1 : sh.src = 0 <;> by_cases h2 : sh.dst = 0 <;> simp only [h1, h2, if_true, if_false] at hv hsup ⊢ <;> omega)

theorem step_preserves_mt (s : St) (op : Op) (hl : MtLedger s) : MtLedger (step s op).1 := by
  cases op with
  | tick dt => exact mt_same hl rfl rfl rfl rfl
  | price age => exact mt_same hl rfl rfl rfl rfl
  | mdep u m l sh f x =>
    simp only [step]
    cases h : mdep s u m l sh f x with
    | none => exact hl
    | some s' => exact mt_mdep hl h
  | create u k i m a b c soft el =>
    simp only [step]
    cases h : create s u k i m a b c soft el with
    | none => exact hl
    | some s' => exact mt_create hl h
  | exec who slot fee throw fail x y z =>
    simp only [step]
    cases h : exec s who slot fee throw fail x y z with
    | none => exact hl
    | some r => obtain ⟨s', o, paid⟩ := r; exact mt_exec hl h
  | close who slot =>
    simp only [step]
    cases h : close s who slot with
    | none => exact hl
    | some s' => exact mt_close hl h
  | screate who i a b c el =>
    simp only [step]
    cases h : screate s who i a b c el with
    | none => exact hl
    | some s' =>
      obtain ⟨_, _, _, _, _, _, _, _, _, rfl⟩ := screate_some h
      exact mt_same hl rfl rfl rfl rfl
  | sexec who i fee throw fail x =>
    simp only [step]
    cases h : sexec s who i fee throw fail x with
    | none => exact hl
    | some r => obtain ⟨s', o, paid⟩ := r; exact mt_sexec hl h
  | sclose who i =>
    simp only [step]
    cases h : sclose s who i with
    | none => exact hl
    | some s' =>
      obtain ⟨_, _, _, rfl⟩ := sclose_some h
      exact mt_same hl rfl rfl rfl rfl

theorem run_preserves_mt (ops : List Op) : ∀ (s : St), MtLedger s → MtLedger (run s ops).1 := by
  induction ops with
  | nil => intro s h; exact h
  | cons op ops ih => intro s h; simp only [run]; exact ih _ (step_preserves_mt s op h)

theorem run_ok (ops : List Op) : ∀ (s : St), RecOK s → SupplyOK s → RecOK (run s ops).1 ∧ SupplyOK (run s ops).1 := by
  induction ops with
  | nil => intro s hr hs; exact ⟨hr, hs⟩
  | cons op ops ih =>
    intro s hr hs
    simp only [run]
    exact ih _ (step_ok s op hr hs).1 (step_ok s op hr hs).2

/-- a concrete history for the non-vacuity examples -/
def glHist : List Op :=
  [.mdep 0 0 1000 500 false 900, .price 0, .create 0 0 0 0 400 100 50 false 300000, .exec .keeper 0 7 true false 60 450 0,
   .close (.user 0) 0, .create 0 1 0 0 200 0 0 false 300000, .exec .keeper 2 0 true false 150 30 20, .close .keeper 2]

end Gmx.GlvLife
