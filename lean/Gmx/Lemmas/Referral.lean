import Gmx.Model.Referral
/-! Helper lemmas for C33: success characterisations and the state invariant. -/
namespace Gmx.Ref

@[simp] theorem users_setUser (s : St) (u : Nat) (x : User) (i : Nat) :
    (setUser s u x).users i = if i = u then some x else s.users i := rfl
@[simp] theorem codes_setUser (s : St) (u : Nat) (x : User) (i : Nat) : (setUser s u x).codes i = s.codes i := rfl
@[simp] theorem users_setCode (s : St) (c : Nat) (x : Code) (i : Nat) : (setCode s c x).users i = s.users i := rfl
@[simp] theorem codes_setCode (s : St) (c : Nat) (x : Code) (i : Nat) :
    (setCode s c x).codes i = if i = c then some x else s.codes i := rfl

theorem prepare_some {s s' : St} {u : Nat} (h : prepare s u = some s') :
    ((s.users u).isSome ∧ s' = s) ∨ (s.users u = none ∧ s' = setUser s u ⟨none, none, 0⟩) := by
  unfold prepare at h
  split at h
  · rename_i x hx; cases h; left; simp [hx]
  · rename_i hx; cases h; right; exact ⟨hx, rfl⟩

theorem initCode_some {s s' : St} {u c : Nat} (h : initCode s u c = some s') :
    ∃ usr, s.codes c = none ∧ s.users u = some usr ∧ c ≠ ZERO ∧ usr.code = none ∧
      s' = setCode (setUser s u { usr with code := some c }) c ⟨u, u⟩ := by
  unfold initCode at h
  split at h; · cases h
  rename_i hc
  split at h; · cases h
  rename_i usr hu
  split at h; · cases h
  rename_i hz
  split at h; · cases h
  rename_i hcode
  cases h
  exact ⟨usr, hc, hu, hz, hcode, rfl⟩

theorem setReferrer_some {s s' : St} {u c v : Nat} (h : setReferrer s u c v = some s') :
    ∃ usr cd vsr, s.users u = some usr ∧ s.codes c = some cd ∧ s.users v = some vsr ∧
      cd.owner = v ∧ vsr.code = some c ∧ v ≠ u ∧ vsr.referrer ≠ some u ∧ usr.referrer = none ∧
      s' = setUser (setUser s u { usr with referrer := some v }) v
        { vsr with refereeCount := if vsr.refereeCount + 1 ≤ U128MAX then vsr.refereeCount + 1 else U128MAX } := by
  unfold setReferrer at h
  split at h
  · rename_i usr cd vsr hu hc hv
    split at h; · cases h
    rename_i h1
    split at h; · cases h
    rename_i h2
    split at h; · cases h
    rename_i h3
    split at h; · cases h
    rename_i h4
    split at h; · cases h
    rename_i h5
    cases h
    exact ⟨usr, cd, vsr, hu, hc, hv, by simpa using h1, by simpa using h2, h3, h4, h5, rfl⟩
  · cases h

theorem transfer_some {s s' : St} {u c v : Nat} (h : transfer s u c v = some s') :
    ∃ usr cd vsr, s.users u = some usr ∧ s.codes c = some cd ∧ s.users v = some vsr ∧
      cd.owner = u ∧ usr.code = some c ∧ v ≠ u ∧ vsr.code = none ∧ cd.nextOwner ≠ v ∧
      s' = setCode s c { cd with nextOwner := v } := by
  unfold transfer at h
  split at h
  · rename_i usr cd vsr hu hc hv
    split at h; · cases h
    rename_i h1
    split at h; · cases h
    rename_i h2
    split at h; · cases h
    rename_i h3
    split at h; · cases h
    split at h; · cases h
    rename_i h5
    split at h; · cases h
    rename_i h6
    cases h
    refine ⟨usr, cd, vsr, hu, hc, hv, by simpa using h1, by simpa using h2, h3, ?_, h6, rfl⟩
    cases hcode : vsr.code with
    | none => rfl
    | some x => simp [hcode] at h5
  · cases h

theorem cancel_some {s s' : St} {u c : Nat} (h : cancel s u c = some s') :
    ∃ usr cd, s.users u = some usr ∧ s.codes c = some cd ∧ cd.owner = u ∧ usr.code = some c ∧
      s' = setCode s c { cd with nextOwner := u } := by
  unfold cancel at h
  split at h
  · rename_i usr cd hu hc
    split at h; · cases h
    rename_i h1
    split at h; · cases h
    rename_i h2
    split at h; · cases h
    cases h
    exact ⟨usr, cd, hu, hc, by simpa using h1, by simpa using h2, rfl⟩
  · cases h

theorem accept_some {s s' : St} {n c v : Nat} (h : accept s n c v = some s') :
    ∃ vsr cd nsr, s.users v = some vsr ∧ s.codes c = some cd ∧ s.users n = some nsr ∧
      cd.owner = v ∧ vsr.code = some c ∧ n ≠ v ∧ nsr.code = none ∧ cd.nextOwner = n ∧
      s' = setCode (setUser (setUser s n { nsr with code := some c }) v { vsr with code := none }) c
        { cd with owner := n } := by
  unfold accept at h
  split at h
  · rename_i vsr cd nsr hv hc hn
    split at h; · cases h
    rename_i h1
    split at h; · cases h
    rename_i h2
    split at h; · cases h
    rename_i h3
    split at h; · cases h
    split at h; · cases h
    rename_i h5
    split at h; · cases h
    rename_i h6
    cases h
    have h2' : vsr.code = some c := by simpa using h2
    refine ⟨vsr, cd, nsr, hv, hc, hn, by simpa using h1, h2', h3, ?_, by simpa using h6, ?_⟩
    · cases hcode : nsr.code with
      | none => rfl
      | some x => simp [hcode] at h5
    · rw [h2']
  · cases h

/-- effect of a successful operation on the three observations. -/
structure Effect (s s' : St) (code : Nat → Option Nat) (owner : Nat → Option Nat) (ref : Nat → Option Nat) : Prop where
  code : codeOf s' = code
  owner : ownerOf s' = owner
  ref : referrerOf s' = ref

theorem effect_prepare {s s' : St} {u : Nat} (h : prepare s u = some s') :
    Effect s s' (codeOf s) (ownerOf s) (referrerOf s) := by
  rcases prepare_some h with ⟨_, rfl⟩ | ⟨hn, rfl⟩
  · exact ⟨rfl, rfl, rfl⟩
  · refine ⟨?_, rfl, ?_⟩ <;> funext i <;> simp only [codeOf, referrerOf, users_setUser] <;> split <;> simp_all

theorem effect_initCode {s s' : St} {u c : Nat} (h : initCode s u c = some s') :
    codeOf s u = none ∧ ownerOf s c = none ∧ c ≠ ZERO ∧ (s.users u).isSome ∧
    Effect s s' (fun i => if i = u then some c else codeOf s i) (fun k => if k = c then some u else ownerOf s k)
      (referrerOf s) := by
  obtain ⟨usr, hc, hu, hz, hcode, rfl⟩ := initCode_some h
  refine ⟨by simp [codeOf, hu, hcode], by simp [ownerOf, hc], hz, by simp [hu], ?_, ?_, ?_⟩
  · funext i; simp only [codeOf, users_setCode, users_setUser]; split <;> simp_all
  · funext k; simp only [ownerOf, codes_setCode, codes_setUser]; split <;> simp_all
  · funext i; simp only [referrerOf, users_setCode, users_setUser]; split <;> simp_all

theorem effect_setReferrer {s s' : St} {u c v : Nat} (h : setReferrer s u c v = some s') :
    referrerOf s u = none ∧ v ≠ u ∧ referrerOf s v ≠ some u ∧ ownerOf s c = some v ∧ codeOf s v = some c ∧
    (s.users u).isSome ∧
    Effect s s' (codeOf s) (ownerOf s) (fun i => if i = u then some v else referrerOf s i) := by
  obtain ⟨usr, cd, vsr, hu, hc, hv, ho, hvc, hne, hmut, hr, rfl⟩ := setReferrer_some h
  refine ⟨by simp [referrerOf, hu, hr], hne, by simpa [referrerOf, hv] using hmut, by simp [ownerOf, hc, ho],
    by simp [codeOf, hv, hvc], by simp [hu], ?_, rfl, ?_⟩
  · funext i; simp only [codeOf, users_setUser]; split <;> (try split) <;> simp_all
  · funext i; simp only [referrerOf, users_setUser]
    by_cases hiv : i = v
    · subst hiv; simp [hne, hv]
    · by_cases hiu : i = u
      · subst hiu; simp [hiv]
      · simp [hiv, hiu]

theorem effect_transfer {s s' : St} {u c v : Nat} (h : transfer s u c v = some s') :
    ownerOf s c = some u ∧ (s.codes c).map (·.nextOwner) ≠ some v ∧ (s'.codes c).map (·.nextOwner) = some v ∧
    Effect s s' (codeOf s) (ownerOf s) (referrerOf s) := by
  obtain ⟨usr, cd, vsr, hu, hc, hv, ho, _, _, _, hn, rfl⟩ := transfer_some h
  refine ⟨by simp [ownerOf, hc, ho], by simpa [hc] using hn, by simp, rfl, ?_, rfl⟩
  funext k; simp only [ownerOf, codes_setCode]; split <;> simp_all

theorem effect_cancel {s s' : St} {u c : Nat} (h : cancel s u c = some s') :
    ownerOf s c = some u ∧ Effect s s' (codeOf s) (ownerOf s) (referrerOf s) := by
  obtain ⟨usr, cd, hu, hc, ho, _, rfl⟩ := cancel_some h
  refine ⟨by simp [ownerOf, hc, ho], rfl, ?_, rfl⟩
  funext k; simp only [ownerOf, codes_setCode]; split <;> simp_all

theorem effect_accept {s s' : St} {n c v : Nat} (h : accept s n c v = some s') :
    ownerOf s c = some v ∧ codeOf s v = some c ∧ codeOf s n = none ∧ n ≠ v ∧
    (s.codes c).map (·.nextOwner) = some n ∧
    Effect s s' (fun i => if i = v then none else if i = n then some c else codeOf s i)
      (fun k => if k = c then some n else ownerOf s k) (referrerOf s) := by
  obtain ⟨vsr, cd, nsr, hv, hc, hn, ho, hvc, hne, hnc, hnx, rfl⟩ := accept_some h
  refine ⟨by simp [ownerOf, hc, ho], by simp [codeOf, hv, hvc], by simp [codeOf, hn, hnc], hne, by simp [hc, hnx], ?_, ?_, ?_⟩
  · funext i; simp only [codeOf, users_setCode, users_setUser]
    by_cases hiv : i = v
    · simp [hiv]
    · by_cases hin : i = n
      · simp [hiv, hin, hne]
      · simp [hiv, hin]
  · funext k; simp only [ownerOf, codes_setCode, codes_setUser]; split <;> simp_all
  · funext i; simp only [referrerOf, users_setCode, users_setUser]
    by_cases hiv : i = v
    · subst hiv; simp [hv]
    · by_cases hin : i = n
      · subst hin; simp [hiv, hn]
      · simp [hiv, hin]

/-- the referral state invariant, on the observations. -/
structure Inv (s : St) : Prop where
  unique : ∀ u c, codeOf s u = some c ↔ ownerOf s c = some u
  noSelf : ∀ u, referrerOf s u ≠ some u
  noMutual : ∀ u v, referrerOf s u = some v → referrerOf s v ≠ some u

theorem inv_init : Inv init := by
  constructor <;> intros <;> simp_all [init, codeOf, ownerOf, referrerOf]

theorem inv_of_same {s s' : St} (hI : Inv s) (e : Effect s s' (codeOf s) (ownerOf s) (referrerOf s)) : Inv s' := by
  constructor
  · intro u c; rw [e.code, e.owner]; exact hI.unique u c
  · intro u; rw [e.ref]; exact hI.noSelf u
  · intro u v; rw [e.ref]; exact hI.noMutual u v

theorem inv_apply {s s' : St} (hI : Inv s) (op : Op) (h : apply s op = some s') : Inv s' := by
  cases op with
  | prepare u => exact inv_of_same hI (effect_prepare h)
  | transfer u c v => exact inv_of_same hI (effect_transfer h).2.2.2
  | cancel u c => exact inv_of_same hI (effect_cancel h).2
  | initCode u c =>
    obtain ⟨h1, h2, _, _, e⟩ := effect_initCode h
    constructor
    · intro i k
      rw [e.code, e.owner]
      by_cases hi : i = u <;> by_cases hk : k = c
      · simp [hi, hk]
      · subst hi
        have := (hI.unique i k)
        simp only [hk, if_false, if_true]
        constructor
        · intro hh; cases hh; exact absurd rfl hk
        · intro hh; rw [← this, h1] at hh; cases hh
      · subst hk
        have := (hI.unique i k)
        simp only [hi, if_false, if_true]
        constructor
        · intro hh; rw [this, h2] at hh; cases hh
        · intro hh; cases hh; exact absurd rfl hi
      · simp only [hi, hk, if_false]; exact hI.unique i k
    · intro i; rw [e.ref]; exact hI.noSelf i
    · intro i j; rw [e.ref]; exact hI.noMutual i j
  | setReferrer u c v =>
    obtain ⟨h1, hne, hmut, _, _, _, e⟩ := effect_setReferrer h
    constructor
    · intro i k; rw [e.code, e.owner]; exact hI.unique i k
    · intro i; rw [e.ref]
      by_cases hi : i = u
      · subst hi; simp only [if_true]; intro hh; cases hh; exact hne rfl
      · simp only [hi, if_false]; exact hI.noSelf i
    · intro i j; rw [e.ref]
      by_cases hi : i = u <;> by_cases hj : j = u
      · subst hi; subst hj; simp only [if_true]; intro hh; cases hh; exact absurd rfl hne
      · subst hi; simp only [hj, if_true, if_false]; intro hh; cases hh; exact hmut
      · subst hj; simp only [hi, if_true, if_false]
        intro hh h2; injection h2 with h2; subst h2; exact hmut hh
      · simp only [hi, hj, if_false]; exact hI.noMutual i j
  | accept n c v =>
    obtain ⟨ho, hvc, hnc, hne, _, e⟩ := effect_accept h
    constructor
    · intro i k
      rw [e.code, e.owner]
      have IH := hI.unique i k
      by_cases hk : k = c
      · subst hk
        by_cases hiv : i = v
        · subst hiv; simp only [if_true]
          constructor
          · intro hh; cases hh
          · intro hh; cases hh; exact absurd rfl hne
        · by_cases hin : i = n
          · subst hin; simp [hiv]
          · simp only [hiv, hin, if_false, if_true]
            constructor
            · intro hh; rw [IH, ho] at hh; cases hh; exact absurd rfl hiv
            · intro hh; cases hh; exact absurd rfl hin
      · by_cases hiv : i = v
        · subst hiv; simp only [hk, if_true, if_false]
          constructor
          · intro hh; cases hh
          · intro hh; rw [← IH, hvc] at hh; cases hh; exact absurd rfl hk
        · by_cases hin : i = n
          · subst hin; simp only [hiv, hk, if_true, if_false]
            constructor
            · intro hh; cases hh; exact absurd rfl hk
            · intro hh; rw [← IH, hnc] at hh; cases hh
          · simp only [hiv, hin, hk, if_false]; exact IH
    · intro i; rw [e.ref]; exact hI.noSelf i
    · intro i j; rw [e.ref]; exact hI.noMutual i j

theorem inv_step {s : St} (hI : Inv s) (op : Op) : Inv (step s op) := by
  unfold step
  cases h : apply s op with
  | none => exact hI
  | some s' => exact inv_apply hI op h

theorem inv_run {s : St} (hI : Inv s) (ops : List Op) : Inv (run s ops) := by
  induction ops generalizing s with
  | nil => exact hI
  | cons op ops ih => exact ih (inv_step hI op)

end Gmx.Ref
