import Gmx.Lemmas.Whole
import Gmx.Lemmas.FundingBacked
/-! Pieces of `psys_simulates_fundsys`: what a funding update adds per (side, collateral token),
and what a position operation pays / claims — in the vocabulary of `FundSys` (`packFunding`,
`unpackFunding`). -/
namespace Gmx.Lem
open Gmx Gmx.Perp

/-- **a funding update is `FundSys.update` per collateral token**: either nothing moves, or one
side `lps` pays; for the collateral token `k` (long: `fvL`, price `pl`; short: `fvS`, `ps`) the
paying side's funding amount per size grows by `pack(fv_k, OI(lps, k), price_k, round up)`, the
receiving side's claimable amount per size by `pack(fv_k, OI(receiving side), price_k, round
down)`, and the four other cells do not move. -/
theorem nextFundingAmounts_spec {W U adj : Nat} {p : FundingParams} {st : FundingState} {dur pl ps : Nat}
    {r : FundingReport} (h : nextFundingAmounts W U adj p st dur pl ps = .ok r) :
    (r.dF = Quad.zero ∧ r.dC = Quad.zero) ∨
    ∃ lps fvL fvS recvOI, checkedAdd W (st.oi.get (!lps) true) (st.oi.get (!lps) false) = some recvOI ∧
      packFunding W U adj fvL (st.oi.get lps true) pl true = some (r.dF.get lps true) ∧
      packFunding W U adj fvS (st.oi.get lps false) ps true = some (r.dF.get lps false) ∧
      r.dF.get (!lps) true = 0 ∧ r.dF.get (!lps) false = 0 ∧
      packFunding W U adj fvL recvOI pl false = some (r.dC.get (!lps) true) ∧
      packFunding W U adj fvS recvOI ps false = some (r.dC.get (!lps) false) ∧
      r.dC.get lps true = 0 ∧ r.dC.get lps false = 0 := by
  unfold nextFundingAmounts at h
  simp only at h
  split at h
  · rename_i lo so hlo hso
    split at h
    · cases h; exact Or.inl ⟨rfl, rfl⟩
    · split at h
      · cases h
      · rename_i f lps nx hf
        cases hdv : toU W dur with
        | none => simp [hdv] at h
        | some dv =>
          simp only [hdv] at h
          cases hff : checkedMul W dv f with
          | none => simp [hff] at h
          | some ff =>
            simp only [hff] at h
            cases hfv : applyFactor W U (if lps = true then lo else so) ff with
            | none => simp [hfv] at h
            | some fv =>
              simp only [hfv] at h
              cases hL : mulDiv W fv (st.oi.get lps true) (if lps = true then lo else so) with
              | none => simp [hL] at h
              | some forL =>
                cases hS : mulDiv W fv (st.oi.get lps false) (if lps = true then lo else so) with
                | none => simp [hL, hS] at h
                | some forS =>
                  simp only [hL, hS] at h
                  unfold setDeltasOne at h
                  cases d1 : packFunding W U adj forL (st.oi.get lps true) pl true with
                  | none => simp [d1] at h
                  | some dp1 =>
                    cases e1 : packFunding W U adj forL (if lps = true then so else lo) pl false with
                    | none => simp [d1, e1] at h
                    | some dc1 =>
                      simp only [d1, e1] at h
                      cases d2 : packFunding W U adj forS (st.oi.get lps false) ps true with
                      | none => simp [d2] at h
                      | some dp2 =>
                        cases e2 : packFunding W U adj forS (if lps = true then so else lo) ps false with
                        | none => simp [d2, e2] at h
                        | some dc2 =>
                          simp only [d2, e2, Except.ok.injEq] at h
                          subst h
                          right
                          refine ⟨lps, forL, forS, if lps then so else lo, ?_, ?_⟩
                          · cases lps <;> simp [Quad.get, hlo, hso]
                          · cases lps <;> simp_all [Quad.get, Quad.set, Quad.zero]
  · cases h

/-- **a position operation is `FundSys.settle`**: the funding fee it charges and the two claimable
amounts it credits are the pending amounts between the market's indices and the position's
snapshots, for the position's size BEFORE the operation. -/
theorem positionFees_funding {W U : Nat} {m : Market} {c : PerpCfg} {p : Pos} {cp : Price} {sd : Nat} {bc : BalanceChange}
    {isLiq : Bool} {f : PosFees} (h : positionFees W U m c p cp sd bc isLiq = .ok f) :
    unpackFunding W U m.cfg.fundingAdjustment ((fapsPool m p.isLong).amount p.collLong) p.fIdx p.sizeUsd true = some f.fundAmount ∧
    unpackFunding W U m.cfg.fundingAdjustment (cfapsPool m p.isLong).long p.cIdxL p.sizeUsd false = some f.claimL ∧
    unpackFunding W U m.cfg.fundingAdjustment (cfapsPool m p.isLong).short p.cIdxS p.sizeUsd false = some f.claimS := by
  unfold positionFees at h
  simp only at h
  repeat' (split at h)
  all_goals first | (cases h; done) | skip
  all_goals (cases h; exact ⟨‹_›, ‹_›, ‹_›⟩)


/-- under the whole-market invariant the open-interest cells the funding update reads are the
sums over the positions (what `FundSys` calls `oiPayK` / `oiSide`). -/
theorem oi_is_sum {U : Nat} {s : PSys} (h : MarketInv U s) (il cl : Bool) :
    (fundingStateOf s.m).oi.get il cl = sumKey (·.sizeUsd) il cl s.ps := by
  have := congrArg Prod.fst (h.1.1 il cl)
  unfold bk oiPool Pool.amount at this
  simp only at this
  rw [← this]
  cases il <;> cases cl <;> simp [fundingStateOf, Quad.get]


/-! ### the reports of `increase` / `decrease` carry the settle amounts, and the snapshots are refreshed -/

theorem payForFees_claims {W : Nat} {x : PCtx} {s : PState} {fees : PosFees} :
    (payForFees W x s fees).2.claimL = fees.claimL ∧ (payForFees W x s fees).2.claimS = fees.claimS := by
  unfold payForFees
  repeat' split
  all_goals exact ⟨rfl, rfl⟩

theorem processCollateral_claims {W : Nat} {x : PCtx} {s0 s : PState} {pnl impact : Int} {diff : Nat}
    {fees f : PosFees} {ins : Bool} {st : Option Step}
    (h : processCollateral W x s0 pnl impact diff fees ins = .ok (s, f, st)) :
    f.claimL = fees.claimL ∧ f.claimS = fees.claimS := by
  unfold processCollateral at h
  simp only at h
  repeat' (split at h)
  all_goals first | (cases h; done) | skip
  all_goals
    (cases h
     first
       | exact ⟨rfl, rfl⟩
       | (have hpf := ‹payForFees W x _ fees = _›
          have e1 := congrArg (fun q => q.2.claimL) hpf
          have e2 := congrArg (fun q => q.2.claimS) hpf
          simp only at e1 e2
          rw [← e1, ← e2]; exact payForFees_claims))

/-- the fees a decrease starts from are `position_fees` of the position and market BEFORE it. -/
theorem decrease_fees0 {W U : Nat} {m m' : Market} {c : PerpCfg} {pr : Prices} {p p' : Pos} {sd0 wd : Nat}
    {fl : DecreaseFlags} {r : DecreaseReport} (h : decrease W U m c pr p sd0 wd fl = .ok (m', p', r)) :
    ∃ fees0 bc s ins, positionFees W U m c p (pr.collateral p.collLong) r.sizeDelta bc fl.liquidation = .ok fees0 ∧
      processCollateral W { pr := pr, outLong := p.collLong, pnlLong := p.isLong, same := (p.isLong == p.collLong) }
        { m := m, rem := p.collateral } r.pnl r.impactValue r.impactDiff fees0 ins = .ok (s, r.fees, r.insolventStep) := by
  unfold decrease at h
  expose_do h
  all_goals
    (cases h
     exact ⟨_, _, _, _, ‹positionFees _ _ _ _ _ _ _ _ _ = _›, ‹processCollateral _ _ _ _ _ _ _ _ = _›⟩)

/-- **a decrease settles the position's funding like `FundSys.settle`**: the funding fee charged and
the claimable amounts credited are the pending amounts between the market's indices and the
position's snapshots BEFORE the decrease (for the old size), and afterwards the snapshots equal the
indices. -/
theorem decrease_is_settle {W U : Nat} {m m' : Market} {c : PerpCfg} {pr : Prices} {p p' : Pos} {sd0 wd : Nat}
    {fl : DecreaseFlags} {r : DecreaseReport} (h : decrease W U m c pr p sd0 wd fl = .ok (m', p', r)) :
    unpackFunding W U m.cfg.fundingAdjustment ((fapsPool m p.isLong).amount p.collLong) p.fIdx p.sizeUsd true = some r.fees.fundAmount ∧
    unpackFunding W U m.cfg.fundingAdjustment (cfapsPool m p.isLong).long p.cIdxL p.sizeUsd false = some r.fees.claimL ∧
    unpackFunding W U m.cfg.fundingAdjustment (cfapsPool m p.isLong).short p.cIdxS p.sizeUsd false = some r.fees.claimS := by
  obtain ⟨fees0, bc, s, ins, hf, hproc⟩ := decrease_fees0 h
  obtain ⟨a, b, c'⟩ := positionFees_funding hf
  have e0 := processCollateral_fund hproc
  obtain ⟨e1, e2⟩ := processCollateral_claims hproc
  rw [e0, e1, e2]
  exact ⟨a, b, c'⟩

/-- the fees of an increase are `position_fees` of the (initialised) position on the market before. -/
theorem increaseCore_fees {W U : Nat} {m m' : Market} {c : PerpCfg} {pr : Prices} {p p' : Pos} {ci sd : Nat}
    {r : IncreaseReport} (h : increaseCore W U m c pr p ci sd = .ok (m', p', r)) :
    ∃ bc, positionFees W U m c p (pr.collateral p.collLong) sd bc false = .ok r.fees := by
  unfold increaseCore at h
  expose_do h
  all_goals (cases h; exact ⟨_, ‹positionFees _ _ _ _ _ _ _ _ _ = _›⟩)

/-- **an increase settles the position's funding like `FundSys.settle`** (on the initialised
position: an empty position's snapshots are first set to the indices, so it pays and claims 0). -/
theorem increase_is_settle {W U : Nat} {m m' : Market} {c : PerpCfg} {pr : Prices} {p0 p' : Pos} {ci sd : Nat}
    {r : IncreaseReport} (h : increase W U m c pr p0 ci sd = .ok (m', p', r)) :
    unpackFunding W U m.cfg.fundingAdjustment ((fapsPool m p0.isLong).amount p0.collLong) (initIfEmpty p0 m).fIdx p0.sizeUsd true = some r.fees.fundAmount ∧
    unpackFunding W U m.cfg.fundingAdjustment (cfapsPool m p0.isLong).long (initIfEmpty p0 m).cIdxL p0.sizeUsd false = some r.fees.claimL ∧
    unpackFunding W U m.cfg.fundingAdjustment (cfapsPool m p0.isLong).short (initIfEmpty p0 m).cIdxS p0.sizeUsd false = some r.fees.claimS := by
  unfold increase at h
  split at h
  · cases h
  · obtain ⟨bc, hf⟩ := increaseCore_fees h
    have e : (initIfEmpty p0 m).isLong = p0.isLong ∧ (initIfEmpty p0 m).collLong = p0.collLong ∧ (initIfEmpty p0 m).sizeUsd = p0.sizeUsd := by
      unfold initIfEmpty; split <;> exact ⟨rfl, rfl, rfl⟩
    have := positionFees_funding hf
    rw [e.1, e.2.1, e.2.2] at this
    exact this


/-- after the bookkeeping tail of a decrease the position's funding snapshots are the market's indices. -/
theorem settleDecrease_snap {W U : Nat} {m m' : Market} {c : PerpCfg} {pr : Prices} {p p' : Pos}
    {sd sdt rem out out' : Nat} {rm : Bool} (h : settleDecrease W U m c pr p sd sdt rem out = .ok (m', p', rm, out')) :
    p'.fIdx = (fapsPool m' p'.isLong).amount p'.collLong ∧ p'.cIdxL = (cfapsPool m' p'.isLong).long ∧
    p'.cIdxS = (cfapsPool m' p'.isLong).short := by
  unfold settleDecrease at h
  expose_do h
  all_goals
    (simp only [Except.ok.injEq, Prod.mk.injEq] at h
     obtain ⟨hm, hp, _, _⟩ := h
     obtain ⟨_, _, o3, o4, o5, o6⟩ := updateOpenInterest_sameIdx ‹updateOpenInterest _ _ _ _ _ _ = Except.ok _›
     subst hm; subst hp
     unfold Pos.syncFunding fapsPool cfapsPool
     simp only
     rw [← o3, ← o4, ← o5, ← o6]
     unfold setCollPool
     cases p.isLong <;> exact ⟨rfl, rfl, rfl⟩)

/-- **after a decrease the snapshots equal the indices** (which the decrease did not move). -/
theorem decrease_snap {W U : Nat} {m m' : Market} {c : PerpCfg} {pr : Prices} {p p' : Pos} {sd0 wd : Nat}
    {fl : DecreaseFlags} {r : DecreaseReport} (h : decrease W U m c pr p sd0 wd fl = .ok (m', p', r)) :
    p'.fIdx = (fapsPool m p.isLong).amount p.collLong ∧ p'.cIdxL = (cfapsPool m p.isLong).long ∧
    p'.cIdxS = (cfapsPool m p.isLong).short := by
  obtain ⟨s, _, _, _, _, _, _, hset, _, _, _⟩ := decrease_parts h
  obtain ⟨a, b, c'⟩ := settleDecrease_snap hset
  obtain ⟨_, _, hside, hcl, _⟩ := settleDecrease_pos hset
  rw [hside, hcl] at a
  rw [hside] at b c'
  have t := decrease_tb h
  unfold fapsPool cfapsPool at *
  rw [t.f1, t.f2] at a
  rw [t.c1, t.c2] at b c'
  exact ⟨a, b, c'⟩

theorem increaseCore_snap {W U : Nat} {m m' : Market} {c : PerpCfg} {pr : Prices} {p p' : Pos} {ci sd : Nat}
    {r : IncreaseReport} (h : increaseCore W U m c pr p ci sd = .ok (m', p', r)) :
    p'.fIdx = (fapsPool m p.isLong).amount p.collLong ∧ p'.cIdxL = (cfapsPool m p.isLong).long ∧
    p'.cIdxS = (cfapsPool m p.isLong).short := by
  have t := increaseCore_tb h
  unfold increaseCore at h
  expose_do h
  all_goals
    (cases h
     obtain ⟨_, _, o3, o4, o5, o6⟩ := updateOpenInterest_sameIdx ‹updateOpenInterest _ _ _ _ _ _ = Except.ok _›
     have f1 := t.f1; have f2 := t.f2; have c1 := t.c1; have c2 := t.c2
     unfold Pos.syncFunding fapsPool cfapsPool
     simp only
     rw [o3, o4, o5, o6, f1, f2, c1, c2]
     first
     | exact ⟨rfl, rfl, rfl⟩
     | (cases p.isLong <;> exact ⟨rfl, rfl, rfl⟩))

end Gmx.Lem
