import Gmx.Lemmas.Whole
import Gmx.Lemmas.FundingBacked
/-! Pieces of `psys_simulates_fundsys`: what a funding update adds per (side, collateral token),
and what a position operation pays / claims — in the vocabulary of `FundSys` (`packFunding`,
`unpackFunding`). -/
namespace Gmx.Lem
open Gmx Gmx.Perp

/-- **a funding update is `FundSys.update` per collateral token**: either nothing moves, or one
side `lps` pays; for the collateral token `k` (long: `fvL`, price `pl`; short: `fvS`, `ps`) the
paying side's funding amount per size grows by `pack(fv_k, OI(lps, k), price_k, round up)`, the
receiving side's claimable amount per size by `pack(fv_k, OI(receiving side), price_k, round
down)`, and the four other cells do not move. -/
theorem nextFundingAmounts_spec {W U adj : Nat} {p : FundingParams} {st : FundingState} {dur pl ps : Nat}
    {r : FundingReport} (h : nextFundingAmounts W U adj p st dur pl ps = .ok r) :
    (r.dF = Quad.zero ∧ r.dC = Quad.zero) ∨
    ∃ lps fvL fvS recvOI, checkedAdd W (st.oi.get (!lps) true) (st.oi.get (!lps) false) = some recvOI ∧
      packFunding W U adj fvL (st.oi.get lps true) pl true = some (r.dF.get lps true) ∧
      packFunding W U adj fvS (st.oi.get lps false) ps true = some (r.dF.get lps false) ∧
      r.dF.get (!lps) true = 0 ∧ r.dF.get (!lps) false = 0 ∧
      packFunding W U adj fvL recvOI pl false = some (r.dC.get (!lps) true) ∧
      packFunding W U adj fvS recvOI ps false = some (r.dC.get (!lps) false) ∧
      r.dC.get lps true = 0 ∧ r.dC.get lps false = 0 := by
  unfold nextFundingAmounts at h
  simp only at h
  split at h
  · rename_i lo so hlo hso
    split at h
    · cases h; exact Or.inl ⟨rfl, rfl⟩
    · split at h
      · cases h
      · rename_i f lps nx hf
        cases hdv : toU W dur with
        | none => simp [hdv] at h
        | some dv =>
          simp only [hdv] at h
          cases hff : checkedMul W dv f with
          | none => simp [hff] at h
          | some ff =>
            simp only [hff] at h
            cases hfv : applyFactor W U (if lps = true then lo else so) ff with
            | none => simp [hfv] at h
            | some fv =>
              simp only [hfv] at h
              cases hL : mulDiv W fv (st.oi.get lps true) (if lps = true then lo else so) with
              | none => simp [hL] at h
              | some forL =>
                cases hS : mulDiv W fv (st.oi.get lps false) (if lps = true then lo else so) with
                | none => simp [hL, hS] at h
                | some forS =>
                  simp only [hL, hS] at h
                  unfold setDeltasOne at h
                  cases d1 : packFunding W U adj forL (st.oi.get lps true) pl true with
                  | none => simp [d1] at h
                  | some dp1 =>
                    cases e1 : packFunding W U adj forL (if lps = true then so else lo) pl false with
                    | none => simp [d1, e1] at h
                    | some dc1 =>
                      simp only [d1, e1] at h
                      cases d2 : packFunding W U adj forS (st.oi.get lps false) ps true with
                      | none => simp [d2] at h
                      | some dp2 =>
                        cases e2 : packFunding W U adj forS (if lps = true then so else lo) ps false with
                        | none => simp [d2, e2] at h
                        | some dc2 =>
                          simp only [d2, e2, Except.ok.injEq] at h
                          subst h
                          right
                          refine ⟨lps, forL, forS, if lps then so else lo, ?_, ?_⟩
                          · cases lps <;> simp [Quad.get, hlo, hso]
                          · cases lps <;> simp_all [Quad.get, Quad.set, Quad.zero]
  · cases h

/-- **a position operation is `FundSys.settle`**: the funding fee it charges and the two claimable
amounts it credits are the pending amounts between the market's indices and the position's
snapshots, for the position's size BEFORE the operation. -/
theorem positionFees_funding {W U : Nat} {m : Market} {c : PerpCfg} {p : Pos} {cp : Price} {sd : Nat} {bc : BalanceChange}
    {isLiq : Bool} {f : PosFees} (h : positionFees W U m c p cp sd bc isLiq = .ok f) :
    unpackFunding W U m.cfg.fundingAdjustment ((fapsPool m p.isLong).amount p.collLong) p.fIdx p.sizeUsd true = some f.fundAmount ∧
    unpackFunding W U m.cfg.fundingAdjustment (cfapsPool m p.isLong).long p.cIdxL p.sizeUsd false = some f.claimL ∧
    unpackFunding W U m.cfg.fundingAdjustment (cfapsPool m p.isLong).short p.cIdxS p.sizeUsd false = some f.claimS := by
  unfold positionFees at h
  simp only at h
  repeat' (split at h)
  all_goals first | (cases h; done) | skip
  all_goals (cases h; exact ⟨‹_›, ‹_›, ‹_›⟩)


/-- under the whole-market invariant the open-interest cells the funding update reads are the
sums over the positions (what `FundSys` calls `oiPayK` / `oiSide`). -/
theorem oi_is_sum {U : Nat} {s : PSys} (h : MarketInv U s) (il cl : Bool) :
    (fundingStateOf s.m).oi.get il cl = sumKey (·.sizeUsd) il cl s.ps := by
  have := congrArg Prod.fst (h.1.1 il cl)
  unfold bk oiPool Pool.amount at this
  simp only at this
  rw [← this]
  cases il <;> cases cl <;> simp [fundingStateOf, Quad.get]

end Gmx.Lem
