import Gmx.Lemmas.WholeFrame
import Gmx.Props.C07
import Gmx.Props.C12
import Gmx.Props.C13
/-! Whole-market histories: the invariant `MarketInv` (C07 ∧ C13), index monotonicity (C12/C13),
token ledger of the liquidity operations. Frames of the operations: `Lemmas/WholeFrame.lean`. -/
namespace Gmx.Lem
open Gmx Gmx.Perp

theorem updFunding_facts {W U : Nat} {m m' : Market} {rc : RateCfg} {pr : Prices}
    (h : marketUpdateFunding W U m rc pr = .ok m') :
    SameBook m m' ∧ m'.totalBorrowing = m.totalBorrowing ∧ IdxLe m m' := by
  have hb := (C07.fee_updates_keep_book (W := W) (U := U) (m := m) (m' := m') (rc := rc) (pr := pr)).1 h
  unfold sameBookB at hb
  simp only [Bool.and_eq_true, beq_iff_eq] at hb
  obtain ⟨⟨⟨⟨⟨h1, h2⟩, h3⟩, h4⟩, h5⟩, h6⟩ := hb
  refine ⟨⟨h1, h2, h3, h4, h5, h6⟩, ?_, ?_⟩
  · unfold marketUpdateFunding at h
    repeat' (split at h)
    all_goals first | (cases h; done) | (cases h; rfl)
  · unfold marketUpdateFunding at h
    split at h
    · cases h
    · simp only at h
      split at h
      · cases h
      · cases h
      · rename_i st r hu
        cases h
        obtain ⟨hf, hc, _, _⟩ := C12.indices_monotone hu
        have f := fun a b => hf a b
        have g := fun a b => hc a b
        have f1 := f true true; have f2 := f true false; have f3 := f false true; have f4 := f false false
        have g1 := g true true; have g2 := g true false; have g3 := g false true; have g4 := g false false
        simp only [Quad.get, fundingStateOf, if_true, Bool.false_eq_true, if_false] at f1 f2 f3 f4 g1 g2 g3 g4
        unfold IdxLe
        simp only
        omega

theorem updBorrowing_facts {W U : Nat} {m m' : Market} {rc : RateCfg} {pr : Prices}
    (h : marketUpdateBorrowing W U m rc pr = .ok m') :
    SameBook m m' ∧ m'.totalBorrowing = m.totalBorrowing ∧ IdxLe m m' := by
  have hb := (C07.fee_updates_keep_book (W := W) (U := U) (m := m) (m' := m') (rc := rc) (pr := pr)).2 h
  unfold sameBookB at hb
  simp only [Bool.and_eq_true, beq_iff_eq] at hb
  obtain ⟨⟨⟨⟨⟨h1, h2⟩, h3⟩, h4⟩, h5⟩, h6⟩ := hb
  refine ⟨⟨h1, h2, h3, h4, h5, h6⟩, ?_, ?_⟩
  · unfold marketUpdateBorrowing at h
    repeat' (split at h)
    all_goals first | (cases h; done) | (cases h; rfl)
  · unfold marketUpdateBorrowing at h
    simp only at h
    split at h
    · cases h
    · cases h
    · rename_i nl ns hu
      cases h
      obtain ⟨a, b⟩ := C13.update_monotone hu
      unfold IdxLe
      simp only
      omega


/-! ### position operations: total borrowing and indices -/

theorem updateTotalBorrowingM_tb {W U : Nat} {m m' : Market} {p : Pos} {ns nbf : Nat}
    (h : updateTotalBorrowingM W U m p ns nbf = .ok m') :
    ∃ t, updateTotalBorrowing W U p.sizeUsd p.bf ns nbf (m.totalBorrowing.amount p.isLong) = .ok t ∧
      m' = { m with totalBorrowing := m.totalBorrowing.setAmount p.isLong t } := by
  unfold updateTotalBorrowingM at h
  split at h
  · cases h
  · rename_i t ht; cases h; exact ⟨t, ht, rfl⟩

theorem updateOpenInterest_sameIdx {W : Nat} {m m' : Market} {il cl : Bool} {a b : Int}
    (h : updateOpenInterest W m il cl a b = .ok m') : SameIdx m m' := by
  unfold updateOpenInterest at h
  split at h
  · cases h; exact SameIdx.refl _
  · repeat' (split at h)
    all_goals first | (cases h; done) | skip
    cases h
    unfold setOitPool setOiPool
    cases il <;> exact ⟨rfl, rfl, rfl, rfl, rfl, rfl⟩

theorem setCollPool_sameIdx (m : Market) (il : Bool) (q : Pool) : SameIdx m (setCollPool m il q) := by
  unfold setCollPool; cases il <;> exact ⟨rfl, rfl, rfl, rfl, rfl, rfl⟩

/-- what one position operation does to the total-borrowing pool and the indices. -/
structure TBStep (W U : Nat) (m m' : Market) (p p' : Pos) : Prop where
  upd : ∃ t, updateTotalBorrowing W U p.sizeUsd p.bf p'.sizeUsd p'.bf (m.totalBorrowing.amount p.isLong) = .ok t ∧
    m'.totalBorrowing = m.totalBorrowing.setAmount p.isLong t
  bf : m'.borrowingFactor = m.borrowingFactor
  f1 : m'.fapsL = m.fapsL
  f2 : m'.fapsS = m.fapsS
  c1 : m'.cfapsL = m.cfapsL
  c2 : m'.cfapsS = m.cfapsS
  side : p'.isLong = p.isLong

/-- the chain of market writes of an increase, for the total-borrowing pool and the indices. -/
theorem increase_chain_tb {W U : Nat} {m mA mC m' : Market} {il cl : Bool} {p : Pos} {fee' cs ip : Pool}
    {dPool dU dT : Int} {ns nbf : Nat}
    (h1 : ({ m with fee := fee' } : Market).applyDelta W cl dPool = some mA)
    (h3 : updateTotalBorrowingM W U { setCollPool mA il cs with positionImpact := ip } p ns nbf = .ok mC)
    (h4 : updateOpenInterest W mC il cl dU dT = .ok m') :
    (∃ t, updateTotalBorrowing W U p.sizeUsd p.bf ns nbf (m.totalBorrowing.amount p.isLong) = .ok t ∧
      m'.totalBorrowing = m.totalBorrowing.setAmount p.isLong t) ∧
    m'.borrowingFactor = m.borrowingFactor ∧ m'.fapsL = m.fapsL ∧ m'.fapsS = m.fapsS ∧ m'.cfapsL = m.cfapsL ∧ m'.cfapsS = m.cfapsS ∧
    ({ setCollPool mA il cs with positionImpact := ip } : Market).borrowingFactor = m.borrowingFactor := by
  have a0 : SameIdx m mA := SameIdx.trans (b := { m with fee := fee' }) ⟨rfl, rfl, rfl, rfl, rfl, rfl⟩ (applyDelta_sameIdx h1)
  have a1 : SameIdx mA { setCollPool mA il cs with positionImpact := ip } := by
    unfold setCollPool; cases il <;> exact ⟨rfl, rfl, rfl, rfl, rfl, rfl⟩
  obtain ⟨x1, x2, x3, x4, x5, x6⟩ := a0.trans a1
  obtain ⟨t, ht, hm⟩ := updateTotalBorrowingM_tb h3
  obtain ⟨o1, o2, o3, o4, o5, o6⟩ := updateOpenInterest_sameIdx h4
  rw [← x1] at ht
  refine ⟨⟨t, ht, ?_⟩, ?_, ?_, ?_, ?_, ?_, x2.symm⟩
  · rw [← o1, hm, x1]
  · rw [← o2, hm, x2]
  · rw [← o3, hm, x3]
  · rw [← o4, hm, x4]
  · rw [← o5, hm, x5]
  · rw [← o6, hm, x6]

theorem increaseCore_tb {W U : Nat} {m m' : Market} {c : PerpCfg} {pr : Prices} {p p' : Pos} {ci sd : Nat}
    {r : IncreaseReport} (h : increaseCore W U m c pr p ci sd = .ok (m', p', r)) : TBStep W U m m' p p' := by
  unfold increaseCore at h
  expose_do h
  all_goals
    (cases h
     have hprim := orF_ok ‹orF (Market.applyDelta W _ p.collLong _) = Except.ok _›
     obtain ⟨⟨t, ht, hm⟩, k2, k3, k4, k5, k6, k7⟩ :=
       increase_chain_tb hprim ‹updateTotalBorrowingM _ _ _ _ _ _ = Except.ok _› ‹updateOpenInterest _ _ _ _ _ _ = Except.ok _›
     exact ⟨⟨t, ht, hm⟩, k2, k3, k4, k5, k6, rfl⟩)


theorem settleDecrease_chain {W U : Nat} {m m' : Market} {c : PerpCfg} {pr : Prices} {p p' : Pos}
    {sd sdt rem out out' : Nat} {rm : Bool} (h : settleDecrease W U m c pr p sd sdt rem out = .ok (m', p', rm, out')) :
    ∃ t nbf, updateTotalBorrowing W U p.sizeUsd p.bf (p.sizeUsd - sd) nbf (m.totalBorrowing.amount p.isLong) = .ok t ∧
      m'.totalBorrowing = m.totalBorrowing.setAmount p.isLong t ∧ p'.bf = nbf ∧
      m'.borrowingFactor = m.borrowingFactor ∧ m'.fapsL = m.fapsL ∧ m'.fapsS = m.fapsS ∧ m'.cfapsL = m.cfapsL ∧ m'.cfapsS = m.cfapsS := by
  unfold settleDecrease at h
  expose_do h
  all_goals
    (simp only [Except.ok.injEq, Prod.mk.injEq] at h
     obtain ⟨hm, hp, _, _⟩ := h
     obtain ⟨_, e1⟩ := checkedSub_some (orF_ok ‹orF (checkedSub p.sizeUsd sd) = Except.ok _›)
     subst e1
     obtain ⟨t, ht, hm1⟩ := updateTotalBorrowingM_tb ‹updateTotalBorrowingM _ _ _ _ _ _ = Except.ok _›
     obtain ⟨o1, o2, o3, o4, o5, o6⟩ := updateOpenInterest_sameIdx ‹updateOpenInterest _ _ _ _ _ _ = Except.ok _›
     subst hm; subst hp
     refine ⟨t, _, ht, ?_, rfl, ?_, ?_, ?_, ?_, ?_⟩
     · rw [← o1]; rw [hm1]; unfold setCollPool; cases p.isLong <;> rfl
     · rw [← o2]; rw [hm1]; unfold setCollPool; cases p.isLong <;> rfl
     · rw [← o3]; rw [hm1]; unfold setCollPool; cases p.isLong <;> rfl
     · rw [← o4]; rw [hm1]; unfold setCollPool; cases p.isLong <;> rfl
     · rw [← o5]; rw [hm1]; unfold setCollPool; cases p.isLong <;> rfl
     · rw [← o6]; rw [hm1]; unfold setCollPool; cases p.isLong <;> rfl)

theorem decrease_tb {W U : Nat} {m m' : Market} {c : PerpCfg} {pr : Prices} {p p' : Pos} {sd0 wd : Nat}
    {fl : DecreaseFlags} {r : DecreaseReport} (h : decrease W U m c pr p sd0 wd fl = .ok (m', p', r)) :
    TBStep W U m m' p p' := by
  obtain ⟨s, fees0, ins, rem, out0, out1, hproc, hset, _, _, _⟩ := decrease_parts h
  obtain ⟨x1, x2, x3, x4, x5, x6⟩ := processCollateral_idx hproc
  simp only at x1 x2 x3 x4 x5 x6
  obtain ⟨t, nbf, ht, htb, hbf, k2, k3, k4, k5, k6⟩ := settleDecrease_chain hset
  obtain ⟨_, _, hside, _, _, q6, q7⟩ := settleDecrease_pos hset
  have hsz : p'.sizeUsd = p.sizeUsd - r.sizeDelta := by
    cases hrm : r.shouldRemove
    · exact (q7 hrm).1
    · have := (decrease_removed_full h hrm).1
      rw [(q6 hrm).1, this]; omega
  refine ⟨⟨t, ?_, ?_⟩, ?_, ?_, ?_, ?_, ?_, hside⟩
  · rw [hsz, hbf, x1]; exact ht
  · rw [htb, x1]
  · rw [k2, x2]
  · rw [k3, x3]
  · rw [k4, x4]
  · rw [k5, x5]
  · rw [k6, x6]

theorem increase_tb {W U : Nat} {m m' : Market} {c : PerpCfg} {pr : Prices} {p p' : Pos} {ci sd : Nat}
    {r : IncreaseReport} (h : increase W U m c pr p ci sd = .ok (m', p', r)) : TBStep W U m m' p p' := by
  unfold increase at h
  split at h
  · cases h
  · have := increaseCore_tb h
    have e : (initIfEmpty p m).sizeUsd = p.sizeUsd ∧ (initIfEmpty p m).bf = p.bf ∧ (initIfEmpty p m).isLong = p.isLong := by
      unfold initIfEmpty; split <;> exact ⟨rfl, rfl, rfl⟩
    obtain ⟨⟨t, ht, hm⟩, a, b, c', d, e', f⟩ := this
    rw [e.1, e.2.1, e.2.2] at ht
    rw [e.2.2] at hm f
    exact ⟨⟨t, ht, hm⟩, a, b, c', d, e', f⟩


/-! ### the invariant -/

/-- C13 on the market: each side's total-borrowing pool is the sum over that side's positions. -/
def TBInv (U : Nat) (s : PSys) : Prop := ∀ il, s.m.totalBorrowing.amount il = sumTB U il s.ps

/-- the whole-market invariant: C07 (open interest in USD / in tokens and collateral sums per side
and collateral token = Σ positions; `size = 0 ↔ tokens = 0`) and C13 (total borrowing = Σ). -/
def MarketInv (U : Nat) (s : PSys) : Prop := C07.Inv s ∧ TBInv U s

theorem sumTB_append (U : Nat) (il : Bool) (a b : List Pos) : sumTB U il (a ++ b) = sumTB U il a + sumTB U il b := by
  induction a with
  | nil => simp [sumTB]
  | cons x xs ih => simp [sumTB, ih]; omega

theorem sumTB_set (U : Nat) (il : Bool) : ∀ (ps : List Pos) (i : Nat) (p p' : Pos),
    ps[i]? = some p → p'.isLong = p.isLong →
    sumTB U il (ps.set i p') + (if p.isLong = il then p.sizeUsd * p.bf / U else 0)
      = sumTB U il ps + (if p.isLong = il then p'.sizeUsd * p'.bf / U else 0) := by
  intro ps
  induction ps with
  | nil => intro i p p' h; simp at h
  | cons x xs ih =>
    intro i p p' h h1
    cases i with
    | zero =>
      simp at h; subst h
      simp only [List.set, sumTB, h1]
      omega
    | succ j =>
      simp at h
      have := ih j p p' h h1
      simp only [List.set, sumTB]
      omega

theorem setAmount_amount (q : Pool) (a b : Bool) (v : Nat) :
    (q.setAmount a v).amount b = if b = a then v else q.amount b := by
  unfold Pool.setAmount Pool.amount; cases a <;> cases b <;> simp

/-- a position operation keeps C13. -/
theorem tbstep_inv {W U : Nat} {s : PSys} {m' : Market} {i : Nat} {p p' : Pos} (hinv : TBInv U s)
    (hget : s.ps[i]? = some p) (h : TBStep W U s.m m' p p') : TBInv U ⟨m', s.ps.set i p'⟩ := by
  intro il
  obtain ⟨t, ht, hm⟩ := h.upd
  have spec := C13.updateTotalBorrowing_spec ht
  have hs := sumTB_set U il s.ps i p p' hget h.side
  have h0 := hinv il
  have hp := hinv p.isLong
  show m'.totalBorrowing.amount il = sumTB U il (s.ps.set i p')
  rw [hm, setAmount_amount]
  by_cases hk : il = p.isLong
  · subst hk
    simp only [if_true] at hs ⊢
    omega
  · have hk' : ¬ p.isLong = il := fun e => hk e.symm
    simp only [hk, hk', if_false] at hs ⊢
    omega

theorem wMarketOp_facts {W U : Nat} {rc : RateCfg} {m m' : Market} {o : WOp} (h : wMarketOp W U rc m o = some m') :
    SameBook m m' ∧ m'.totalBorrowing = m.totalBorrowing ∧ IdxLe m m' := by
  have pack : SameBook m m' ∧ SameIdx m m' → SameBook m m' ∧ m'.totalBorrowing = m.totalBorrowing ∧ IdxLe m m' :=
    fun hh => ⟨hh.1, hh.2.1.symm, hh.2.toIdxLe⟩
  cases o <;> simp only [wMarketOp, reduceCtorEq] at h
  · -- deposit
    repeat' (split at h)
    all_goals first | (cases h; done) | skip
    cases h; exact pack (deposit_same ‹deposit W U m _ _ = (_, Except.ok _)›)
  · repeat' (split at h)
    all_goals first | (cases h; done) | skip
    cases h; exact pack (withdraw_same ‹withdraw W U m _ _ = (_, Except.ok _)›)
  · repeat' (split at h)
    all_goals first | (cases h; done) | skip
    cases h; exact pack (swap_same ‹swap W U m _ = Except.ok (_, _)›)
  · cases h; exact pack ⟨⟨rfl, rfl, rfl, rfl, rfl, rfl⟩, ⟨rfl, rfl, rfl, rfl, rfl, rfl⟩⟩
  · simp only [Except.toOption] at h
    split at h
    · rename_i hu; cases h; exact updFunding_facts hu
    · cases h
  · simp only [Except.toOption] at h
    split at h
    · rename_i hu; cases h; exact updBorrowing_facts hu
    · cases h
  · repeat' (split at h)
    all_goals first | (cases h; done) | skip
    cases h; exact pack (distribute_same ‹distributePositionImpact W U m = (_, some _)›)

/-- **one operation of a whole-market history preserves the invariant** — deposit, withdrawal,
swap, new position, increase, decrease / liquidation, clock, funding update, borrowing update,
impact distribution; successful or failing. -/
theorem step_preserves_MarketInv (W U : Nat) (c : PerpCfg) (rc : RateCfg) (s : PSys) (o : WOp) (h : MarketInv U s) :
    MarketInv U (s.wstep W U c rc o) := by
  obtain ⟨h7, h13⟩ := h
  have mk : ∀ m', wMarketOp W U rc s.m o = some m' → MarketInv U { s with m := m' } := by
    intro m' hm
    obtain ⟨hb, htb, _⟩ := wMarketOp_facts hm
    refine ⟨⟨fun a b => ?_, h7.2⟩, fun il => ?_⟩
    · have := (SameBook.bk hb a b).symm
      simp only [this]; exact h7.1 a b
    · show m'.totalBorrowing.amount il = _
      rw [htb]; exact h13 il
  have mkt : MarketInv U (match wMarketOp W U rc s.m o with | some m' => { s with m := m' } | none => s) := by
    split
    · rename_i m' hm; exact mk m' hm
    · exact ⟨h7, h13⟩
  cases o with
  | openPos il cl =>
    refine ⟨C07.inv_step W U c s (.openPos il cl) h7, fun a => ?_⟩
    simp only [PSys.wstep, PSys.step, sumTB_append, sumTB]
    rw [h13 a]
    split <;> simp
  | inc i coll size pr =>
    refine ⟨C07.inv_step W U c s (.inc i coll size pr) h7, ?_⟩
    simp only [PSys.wstep, PSys.step]
    split
    · exact h13
    · rename_i p hget
      split
      · rename_i m' p' r hinc
        exact tbstep_inv h13 hget (increase_tb hinc)
      · exact h13
  | dec i size wd fl pr =>
    refine ⟨C07.inv_step W U c s (.dec i size wd fl pr) h7, ?_⟩
    simp only [PSys.wstep, PSys.step]
    split
    · exact h13
    · rename_i p hget
      split
      · rename_i m' p' r hdec
        exact tbstep_inv h13 hget (decrease_tb hdec)
      · exact h13
  | deposit l sh pr => exact mkt
  | withdraw a pr => exact mkt
  | swap il a pr => exact mkt
  | tick n => exact mkt
  | updFunding pr => exact mkt
  | updBorrowing pr => exact mkt
  | distribute => exact mkt

/-- **after any mixed history** the invariant still holds. -/
theorem run_preserves_MarketInv (W U : Nat) (c : PerpCfg) (rc : RateCfg) (ops : List WOp) :
    ∀ s : PSys, MarketInv U s → MarketInv U (s.wrun W U c rc ops) := by
  induction ops with
  | nil => intro s h; exact h
  | cons o os ih => intro s h; exact ih _ (step_preserves_MarketInv W U c rc s o h)

/-- **no operation of a whole-market history lowers an index** (C12: the four funding and four
claimable-funding amounts per size; C13: the two cumulative borrowing factors). -/
theorem step_indices_monotone (W U : Nat) (c : PerpCfg) (rc : RateCfg) (s : PSys) (o : WOp) :
    IdxLe s.m (s.wstep W U c rc o).m := by
  have mkt : IdxLe s.m (match wMarketOp W U rc s.m o with | some m' => { s with m := m' } | none => s).m := by
    split
    · rename_i m' hm; exact (wMarketOp_facts hm).2.2
    · exact IdxLe.refl _
  have ofTB : ∀ {m' : Market} {p p' : Pos}, TBStep W U s.m m' p p' → IdxLe s.m m' := by
    intro m' p p' h
    unfold IdxLe
    rw [h.bf, h.f1, h.f2, h.c1, h.c2]
    omega
  cases o with
  | openPos il cl => exact IdxLe.refl _
  | inc i coll size pr =>
    simp only [PSys.wstep, PSys.step]
    split
    · exact IdxLe.refl _
    · split
      · rename_i hinc; exact ofTB (increase_tb hinc)
      · exact IdxLe.refl _
  | dec i size wd fl pr =>
    simp only [PSys.wstep, PSys.step]
    split
    · exact IdxLe.refl _
    · split
      · rename_i hdec; exact ofTB (decrease_tb hdec)
      · exact IdxLe.refl _
  | deposit l sh pr => exact mkt
  | withdraw a pr => exact mkt
  | swap il a pr => exact mkt
  | tick n => exact mkt
  | updFunding pr => exact mkt
  | updBorrowing pr => exact mkt
  | distribute => exact mkt

theorem run_indices_monotone (W U : Nat) (c : PerpCfg) (rc : RateCfg) (ops : List WOp) :
    ∀ s : PSys, IdxLe s.m (s.wrun W U c rc ops).m := by
  induction ops with
  | nil => intro s; exact IdxLe.refl _
  | cons o os ih => intro s; exact IdxLe.trans (step_indices_monotone W U c rc s o) (ih _)


/-! ### the token ledger through the liquidity operations -/

theorem side_ledger {W : Nat} {m m' : Market} {d : DepositParams} {isLong : Bool} {pv : Nat} {r : SideResult}
    (h : SideFacts W m m' d isLong pv r) (tk : Bool) :
    ledger m' tk = ledger m tk + (if tk = isLong then (if isLong then d.long else d.short) else 0) := by
  have c1 : m'.collL = m.collL := by have e := congrArg Market.collL h.frame; exact e
  have c2 : m'.collS = m.collS := by have e := congrArg Market.collS h.frame; exact e
  have a := h.amount; have l1 := h.liq_same; have l2 := h.liq_opp; have i1 := h.imp_same; have i2 := h.imp_opp
  have f1 := h.fee_same; have f2 := h.fee_opp
  unfold ledger
  rw [c1, c2]
  rcases bool_cases tk isLong with e | e
  · subst e; simp only [if_true]; omega
  · subst e
    have hne : ¬ (!isLong) = isLong := by cases isLong <;> simp
    simp only [hne, if_false]; omega

theorem deposit_ledger {W U : Nat} {m m' : Market} {d : DepositParams} {pin : PerpIn} {t : DepositTrace}
    (h : deposit W U m d pin = (m', .ok t)) (tk : Bool) :
    ledger m' tk = ledger m tk + (if tk then d.long else d.short) := by
  obtain ⟨mL, mS, hL, hL0, hS, hS0, hm, _⟩ := (deposit_spec h).sides
  have a : ledger mL tk = ledger m tk + (if tk = true then d.long else 0) := by
    by_cases h0 : d.long = 0
    · rw [(hL0 h0).1, h0]; simp
    · have := side_ledger (hL h0) tk; simpa using this
  have b : ledger mS tk = ledger mL tk + (if tk = false then d.short else 0) := by
    by_cases h0 : d.short = 0
    · rw [(hS0 h0).1, h0]; simp
    · have := side_ledger (hS h0) tk; simpa using this
  have c : ledger m' tk = ledger mS tk := by
    unfold ledger
    rw [congrArg Market.primary hm, congrArg Market.swapImpact hm, congrArg Market.fee hm, congrArg Market.collL hm,
      congrArg Market.collS hm]
  rw [c, b, a]
  cases tk <;> simp

theorem withdraw_ledger {W U : Nat} {m m' : Market} {w : WithdrawParams} {pin : PerpIn} {r : WithdrawReport}
    (h : withdraw W U m w pin = (m', .ok r)) (tk : Bool) :
    ledger m' tk + (if tk then r.longOut else r.shortOut) = ledger m tk := by
  have f := withdraw_spec h
  have c1 : m'.collL = m.collL := by have e := congrArg Market.collL f.frame; exact e
  have c2 : m'.collS = m.collS := by have e := congrArg Market.collS f.frame; exact e
  have a1 := f.liq_long; have a2 := f.liq_short; have b1 := f.fee_long; have b2 := f.fee_short
  unfold ledger
  rw [c1, c2, f.impact]
  cases tk <;> simp only [Pool.amount, if_true, Bool.false_eq_true, if_false] <;> omega

theorem swap_ledger {W U : Nat} {m m' : Market} {q : SwapParams} {c : SwapCalc}
    (h : swap W U m q = .ok (m', c)) (tk : Bool) :
    ledger m' tk + tokAmt (!q.isInLong) tk c.tokenOut = ledger m tk + tokAmt q.isInLong tk q.amount := by
  unfold swap at h
  repeat' (split at h)
  all_goals first | (cases h; done) | skip
  cases h
  have hc := swapCalc_spec ‹swapCalc W U m q = some _›
  have ha := swapApply_spec ‹swapApply W m q _ = some _›
  obtain ⟨hsum, _, hpos, hneg⟩ := hc
  have c1 : m'.collL = m.collL := by have e := congrArg Market.collL ha.frame; exact e
  have c2 : m'.collS = m.collS := by have e := congrArg Market.collS ha.frame; exact e
  have x1 := ha.fee_in; have x2 := ha.fee_out; have x3 := ha.liq_in; have x4 := ha.liq_out
  unfold ledger tokAmt
  rw [c1, c2]
  by_cases hp : c.impactValue > 0
  · obtain ⟨y1, y2⟩ := ha.imp_pos hp
    have p := hpos hp
    have p1 := p.tokenIn; have p2 := p.tokenOut
    rcases bool_cases tk q.isInLong with e | e
    · subst e
      have hne : ¬ (!q.isInLong) = q.isInLong := by cases q.isInLong <;> simp
      simp only [hne, if_false, if_true]; omega
    · subst e
      have hne : ¬ q.isInLong = (!q.isInLong) := by cases q.isInLong <;> simp
      simp only [hne, if_false, if_true]; omega
  · obtain ⟨y1, y2⟩ := ha.imp_neg hp
    have p := hneg hp
    have p1 := p.tokenIn; have p2 := p.tokenOut; have p3 := p.cappedIn
    rcases bool_cases tk q.isInLong with e | e
    · subst e
      have hne : ¬ (!q.isInLong) = q.isInLong := by cases q.isInLong <;> simp
      simp only [hne, if_false, if_true]; omega
    · subst e
      have hne : ¬ q.isInLong = (!q.isInLong) := by cases q.isInLong <;> simp
      simp only [hne, if_false, if_true]; omega

end Gmx.Lem
