import Gmx.Model.Router
/-! Helper lemmas for C44: what each router primitive does to the hop trace. -/
namespace Gmx.Lem
open Gmx

/-- hops `hs` convert `(t, a)` into `r`, each hop consuming exactly the previous output and never
being a no-op -/
def chain : Nat → Nat → List Hop → Nat × Nat → Prop
  | t, a, [], r => r = (t, a)
  | t, a, h :: hs, r => h.tokenIn = t ∧ h.amtIn = a ∧ h.tokenIn ≠ h.tokenOut ∧ chain h.tokenOut h.amtOut hs r

theorem chain_append {t a : Nat} {hs₁ hs₂ : List Hop} {m r : Nat × Nat}
    (h₁ : chain t a hs₁ m) (h₂ : chain m.1 m.2 hs₂ r) : chain t a (hs₁ ++ hs₂) r := by
  induction hs₁ generalizing t a with
  | nil => simp only [chain] at h₁; subst h₁; simpa using h₂
  | cons h hs ih =>
    obtain ⟨e1, e2, e3, e4⟩ := h₁
    exact ⟨e1, e2, e3, ih e4⟩

/-- a swap inside market `m` appends exactly one hop and leaves all balances alone -/
theorem swapIn_spec {m : RMarket} {s s' : RState} {tok amt tok' amt' : Nat}
    (h : swapIn m s tok amt = some (s', tok', amt')) :
    ∃ hop, s'.trace = s.trace ++ [hop] ∧ hop.market = m.token ∧ chain tok amt [hop] (tok', amt') ∧
      s'.markets = s.markets ∧ s'.cur = s.cur ∧ m.side tok ≠ none ∧ m.isPure = false := by
  unfold swapIn at h
  cases hsd : m.side tok with
  | none => simp [hsd] at h
  | some sd =>
    cases hop : m.opposite tok with
    | none => simp [hsd, hop] at h
    | some out =>
      simp only [hsd, hop] at h
      split at h
      · cases h
      · rename_i hne
        split at h
        · cases h
        · split at h
          · cases h
            refine ⟨⟨m.token, tok, tok', amt, _⟩, rfl, rfl, ⟨rfl, rfl, hne, rfl⟩, rfl, rfl, by simp, ?_⟩
            unfold RMarket.isPure
            unfold RMarket.opposite at hop
            simp only [beq_eq_false_iff_ne, ne_eq]
            intro hp
            split at hop
            · cases hop; rename_i h1; exact hne (by omega)
            · split at hop
              · cases hop; rename_i h1 h2; exact hne (by omega)
              · cases hop
          · cases h

theorem swapIn_pure_none {m : RMarket} (s : RState) (tok amt : Nat) (hp : m.isPure = true) :
    swapIn m s tok amt = none := by
  cases h : swapIn m s tok amt with
  | none => rfl
  | some r =>
    obtain ⟨s', tok', amt'⟩ := r
    obtain ⟨_, _, _, _, _, _, _, hnp⟩ := swapIn_spec h
    rw [hp] at hnp; cases hnp

theorem curToMarket_trace {s s' : RState} {mt tok amt : Nat} {v : Bool}
    (h : curToMarket s mt tok amt v = some s') : s'.trace = s.trace ∧ s'.outs = s.outs := by
  unfold curToMarket at h
  repeat' split at h
  all_goals cases h
  all_goals exact ⟨rfl, rfl⟩

theorem marketToCur_trace {s s' : RState} {mt tok amt : Nat}
    (h : marketToCur s mt tok amt = some s') : s'.trace = s.trace ∧ s'.outs = s.outs := by
  unfold marketToCur at h
  repeat' split at h
  all_goals cases h
  all_goals exact ⟨rfl, rfl⟩

theorem marketToMarket_trace {s s' : RState} {a b tok amt : Nat}
    (h : marketToMarket s a b tok amt = some s') : s'.trace = s.trace ∧ s'.outs = s.outs := by
  unfold marketToMarket at h
  simp only [] at h
  repeat' split at h
  all_goals cases h
  all_goals exact ⟨rfl, rfl⟩

theorem findMarket_token {ms : List RMarket} {t : Nat} {m : RMarket} (h : findMarket ms t = some m) :
    m.token = t := by
  unfold findMarket at h
  have := List.find?_some h
  simpa using this

/-- `swap_along_the_path` executes exactly the listed markets, in order, as a chain -/
theorem swapAlong_spec : ∀ {path : List Nat} {s s' : RState} {tok amt tok' amt' : Nat},
    swapAlong path s tok amt = some (s', tok', amt') →
    ∃ hops, s'.trace = s.trace ++ hops ∧ hops.map (·.market) = path ∧ chain tok amt hops (tok', amt')
  | [], s, s', tok, amt, tok', amt', h => by
    simp only [swapAlong, Option.some.injEq, Prod.mk.injEq] at h
    obtain ⟨rfl, rfl, rfl⟩ := h
    exact ⟨[], by simp, rfl, rfl⟩
  | mt :: rest, s, s', tok, amt, tok', amt', h => by
    simp only [swapAlong] at h
    split at h
    · cases h
    · rename_i m hm
      split at h
      · cases h
      · rename_i s1 t1 a1 hs1
        obtain ⟨hop, htr, hmk, hch, _, _, _, _⟩ := swapIn_spec hs1
        have hmt := findMarket_token hm
        split at h
        · cases h
          refine ⟨[hop], htr, by simp [hmk, hmt], hch⟩
        · rename_i nxt more
          split at h
          · cases h
          · rename_i s2 hs2
            obtain ⟨ht2, _⟩ := marketToMarket_trace hs2
            obtain ⟨hops, htr', hmap, hch'⟩ := swapAlong_spec h
            refine ⟨hop :: hops, ?_, by simp [hmk, hmt, hmap], ?_⟩
            · rw [htr', ht2, htr]; simp
            · exact chain_append (m := (t1, a1)) hch hch'

end Gmx.Lem

namespace Gmx.Lem
open Gmx

theorem recordIn_token {m m' : RMarket} {tok amt : Nat} (h : m.recordIn tok amt = some m') :
    m'.token = m.token := by
  unfold RMarket.recordIn at h
  repeat' split at h
  all_goals cases h
  all_goals rfl

theorem recordOut_token {m m' : RMarket} {tok amt : Nat} (h : m.recordOut tok amt = some m') :
    m'.token = m.token := by
  unfold RMarket.recordOut at h
  repeat' split at h
  all_goals cases h
  all_goals rfl

theorem curToMarket_curTok {s s' : RState} {mt tok amt : Nat} {v : Bool}
    (h : curToMarket s mt tok amt v = some s') : s'.cur.token = s.cur.token := by
  unfold curToMarket at h
  split at h
  · cases h
  · split at h
    · cases h
    · rename_i c' hc
      split at h
      · cases h
      · split at h
        · cases h
        · cases h; exact recordOut_token hc

theorem marketToCur_curTok {s s' : RState} {mt tok amt : Nat}
    (h : marketToCur s mt tok amt = some s') : s'.cur.token = s.cur.token := by
  unfold marketToCur at h
  split at h
  · cases h
  · split at h
    · cases h
    · split at h
      · cases h
      · split at h
        · cases h
        · rename_i c' hc
          cases h; exact recordIn_token hc

theorem marketToMarket_cur {s s' : RState} {a b tok amt : Nat}
    (h : marketToMarket s a b tok amt = some s') : s'.cur = s.cur := by
  unfold marketToMarket at h
  simp only [] at h
  repeat' split at h
  all_goals cases h
  all_goals rfl

theorem swapAlong_cur : ∀ {path : List Nat} {s s' : RState} {tok amt tok' amt' : Nat},
    swapAlong path s tok amt = some (s', tok', amt') → s'.cur = s.cur
  | [], s, s', tok, amt, tok', amt', h => by
    simp only [swapAlong, Option.some.injEq, Prod.mk.injEq] at h
    obtain ⟨rfl, _, _⟩ := h; rfl
  | mt :: rest, s, s', tok, amt, tok', amt', h => by
    simp only [swapAlong] at h
    split at h
    · cases h
    · split at h
      · cases h
      · rename_i s1 t1 a1 hs1
        obtain ⟨_, _, _, _, _, hc, _, _⟩ := swapIn_spec hs1
        split at h
        · cases h; exact hc
        · split at h
          · cases h
          · rename_i s2 hs2
            rw [swapAlong_cur h, marketToMarket_cur hs2, hc]

theorem dropLast_append_last : ∀ {l : List Nat} (c : Nat), l.isEmpty = false →
    l = l.dropLast ++ [l.getLast?.getD c]
  | [], _, h => by simp at h
  | [a], _, _ => by simp
  | a :: b :: t, c, _ => by
    have ih := dropLast_append_last (l := b :: t) c (by simp)
    simp only [List.dropLast_cons₂, List.cons_append, List.getLast?_cons_cons]
    rw [← ih]

end Gmx.Lem
