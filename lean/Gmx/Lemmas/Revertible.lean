import Gmx.Model.Revertible
/-! invariant, abstraction and simulation lemmas for C21 -/
namespace Gmx.Rev
variable {V : Type}

/-- no buffer cell is ahead of the revision counter -/
def Inv (m : M V) : Prop := ∀ k, (m.cells k).rev ≤ m.rev

/-- committed (stored) payloads -/
def abs (m : M V) : Nat → V := fun k => (m.store k).val

/-- simulation relation between a buffer state inside an operation and the transactional map -/
def Sim (m : M V) (S : Nat → V) (ov : Nat → Option V) : Prop :=
  (∀ k, (m.store k).val = S k) ∧ (∀ k, ov k = if dirty m k then some (m.cells k).val else none)

theorem upd_same {α : Type} (f : Nat → α) (k : Nat) (v : α) : upd f k v k = v := by simp [upd]
theorem upd_other {α : Type} (f : Nat → α) (k j : Nat) (v : α) (h : j ≠ k) : upd f k v j = f j := by
  simp [upd, h]

theorem touch_rev (m : M V) (k : Nat) : (touch m k).rev = m.rev := by
  unfold touch; split <;> rfl

theorem touch_store (m : M V) (k : Nat) : (touch m k).store = m.store := by
  unfold touch; split <;> rfl

theorem touch_dirty_same (m : M V) (k : Nat) : dirty (touch m k) k = true := by
  unfold touch
  by_cases h : dirty m k = true
  · simp [h]
  · simp only [h, Bool.false_eq_true, if_false]
    simp [dirty, upd]

theorem touch_cells_other (m : M V) (k j : Nat) (h : j ≠ k) : (touch m k).cells j = m.cells j := by
  unfold touch; split
  · rfl
  · simp [upd, h]

theorem touch_val_same (m : M V) (k : Nat) : ((touch m k).cells k).val = read m k := by
  unfold touch read
  by_cases h : dirty m k = true
  · simp [h]
  · simp [h, upd]

theorem touch_rev_same (m : M V) (k : Nat) : ((touch m k).cells k).rev = m.rev := by
  have := touch_dirty_same m k
  simp only [dirty, touch_rev] at this
  simpa using this

theorem write_rev (m : M V) (k : Nat) (f : V → V) : (write m k f).rev = m.rev := by
  simp [write, touch_rev]

theorem write_store (m : M V) (k : Nat) (f : V → V) : (write m k f).store = m.store := by
  simp [write, touch_store]

theorem write_cells_same (m : M V) (k : Nat) (f : V → V) :
    (write m k f).cells k = ⟨m.rev, f (read m k)⟩ := by
  simp [write, upd, touch_val_same, touch_rev_same]

theorem write_cells_other (m : M V) (k j : Nat) (f : V → V) (h : j ≠ k) :
    (write m k f).cells j = m.cells j := by
  simp [write, upd, h, touch_cells_other]

theorem write_dirty_same (m : M V) (k : Nat) (f : V → V) : dirty (write m k f) k = true := by
  simp [dirty, write_cells_same, write_rev]

theorem write_dirty_other (m : M V) (k j : Nat) (f : V → V) (h : j ≠ k) :
    dirty (write m k f) j = dirty m j := by
  simp [dirty, write_cells_other m k j f h, write_rev]

theorem read_write_same (m : M V) (k : Nat) (f : V → V) : read (write m k f) k = f (read m k) := by
  unfold read; rw [write_dirty_same]; simp [write_cells_same, read]

theorem read_write_other (m : M V) (k j : Nat) (f : V → V) (h : j ≠ k) :
    read (write m k f) j = read m j := by
  unfold read; rw [write_dirty_other m k j f h, write_cells_other m k j f h, write_store]

theorem inv_write (m : M V) (k : Nat) (f : V → V) (hi : Inv m) : Inv (write m k f) := by
  intro j
  rw [write_rev]
  by_cases h : j = k
  · subst h; rw [write_cells_same]; exact Nat.le_refl _
  · rw [write_cells_other m k j f h]; exact hi j

theorem begin_some {W : Nat} {m m' : M V} (h : begin W m = some m') :
    m'.rev = m.rev + 1 ∧ m'.cells = m.cells ∧ m'.store = m.store ∧ m.rev + 1 < 2 ^ W := by
  unfold begin at h
  split at h
  · cases h; exact ⟨rfl, rfl, rfl, by assumption⟩
  · cases h

theorem begin_clean {W : Nat} {m m' : M V} (hi : Inv m) (h : begin W m = some m') :
    Inv m' ∧ ∀ k, dirty m' k = false := by
  obtain ⟨hr, hc, _, _⟩ := begin_some h
  constructor
  · intro k; rw [hr, hc]; exact Nat.le_succ_of_le (hi k)
  · intro k
    have := hi k
    simp only [dirty, hr, hc]
    have hne : (m.cells k).rev ≠ m.rev + 1 := by omega
    simpa using hne

theorem inv_commit (m : M V) (hi : Inv m) : Inv (commit m) := hi

theorem commit_dirty (m : M V) (k : Nat) : dirty (commit m) k = dirty m k := rfl

/-- reads/writes of one operation simulate the overlay map; storage and counter are untouched -/
theorem sim_acts (acts : List (Act V)) : ∀ (m : M V) (S : Nat → V) (ov : Nat → Option V),
    Sim m S ov →
    (runActs m acts).2 = (specActs S ov acts).2 ∧
    Sim (runActs m acts).1 S (specActs S ov acts).1 ∧
    (runActs m acts).1.store = m.store ∧ (runActs m acts).1.rev = m.rev ∧
    (Inv m → Inv (runActs m acts).1) := by
  induction acts with
  | nil => intro m S ov h; exact ⟨rfl, h, rfl, rfl, id⟩
  | cons a as ih =>
    intro m S ov h
    cases a with
    | read k =>
      obtain ⟨h1, h2, h3, h4, h5⟩ := ih m S ov h
      simp only [runActs, specActs]
      refine ⟨?_, h2, h3, h4, h5⟩
      rw [h1]
      congr 1
      unfold read
      rw [h.2 k]
      cases dirty m k
      · simp [h.1 k]
      · simp
    | write k f =>
      simp only [runActs, specActs]
      have hv : (match ov k with | some v => v | none => S k) = read m k := by
        unfold read; rw [h.2 k]
        cases dirty m k
        · simp [h.1 k]
        · simp
      have hs : Sim (write m k f) S (upd ov k (some (f (match ov k with | some v => v | none => S k)))) := by
        constructor
        · intro j; rw [write_store]; exact h.1 j
        · intro j
          by_cases hj : j = k
          · subst hj
            rw [upd_same, write_dirty_same, write_cells_same, hv]; simp
          · rw [upd_other _ _ _ _ hj, write_dirty_other m k j f hj, write_cells_other m k j f hj]
            exact h.2 j
      obtain ⟨h1, h2, h3, h4, h5⟩ := ih _ S _ hs
      refine ⟨h1, h2, ?_, ?_, ?_⟩
      · rw [h3, write_store]
      · rw [h4, write_rev]
      · intro hi; exact h5 (inv_write m k f hi)

theorem sim_begin {W : Nat} {m m1 : M V} (hi : Inv m) (h : begin W m = some m1) :
    Sim m1 (abs m) (fun _ => none) := by
  obtain ⟨_, hclean⟩ := begin_clean hi h
  obtain ⟨_, _, hs, _⟩ := begin_some h
  constructor
  · intro k; simp [abs, hs]
  · intro k; simp [hclean k]

/-- one whole operation refines the transactional map -/
theorem sim_tx {W : Nat} {m m' : M V} {tx : Tx V} {rs : List V} (hi : Inv m)
    (h : runTx W m tx = some (m', rs)) :
    rs = (specTx (abs m) tx).2 ∧ abs m' = (specTx (abs m) tx).1 ∧ Inv m' ∧ m'.rev = m.rev + 1 := by
  unfold runTx at h
  cases hb : begin W m with
  | none => rw [hb] at h; cases h
  | some m1 =>
    rw [hb] at h
    simp only [Option.some.injEq, Prod.mk.injEq] at h
    obtain ⟨hm', hrs⟩ := h
    obtain ⟨hi1, _⟩ := begin_clean hi hb
    obtain ⟨h1, h2, h3, h4, h5⟩ := sim_acts tx.acts m1 (abs m) (fun _ => none) (sim_begin hi hb)
    obtain ⟨hr1, _, _, _⟩ := begin_some hb
    refine ⟨?_, ?_, ?_, ?_⟩
    · rw [← hrs, h1]; rfl
    · rw [← hm']
      unfold specTx
      cases tx.fin with
      | abandon =>
        simp only [finish]
        funext k; simp only [abs]; rw [h3]; exact (sim_begin hi hb).1 k
      | commit =>
        simp only [finish]
        funext k
        simp only [abs, commit]
        rw [h2.2 k]
        cases dirty (runActs m1 tx.acts).1 k
        · simp; exact h2.1 k
        · simp
    · rw [← hm']
      cases tx.fin with
      | abandon => exact h5 hi1
      | commit => exact inv_commit _ (h5 hi1)
    · rw [← hm']
      cases tx.fin with
      | abandon => simp only [finish]; rw [h4, hr1]
      | commit => simp only [finish, commit]; rw [h4, hr1]

theorem sim_hist {W : Nat} (txs : List (Tx V)) : ∀ {m m' : M V} {rss : List (List V)}, Inv m →
    runHist W m txs = some (m', rss) →
    rss = (specHist (abs m) txs).2 ∧ abs m' = (specHist (abs m) txs).1 ∧ Inv m' ∧
      m'.rev = m.rev + txs.length := by
  induction txs with
  | nil =>
    intro m m' rss hi h
    simp only [runHist, Option.some.injEq, Prod.mk.injEq] at h
    obtain ⟨rfl, rfl⟩ := h
    exact ⟨rfl, rfl, hi, rfl⟩
  | cons tx txs ih =>
    intro m m' rss hi h
    simp only [runHist] at h
    cases ht : runTx W m tx with
    | none => rw [ht] at h; cases h
    | some p =>
      obtain ⟨m1, rs⟩ := p
      rw [ht] at h; simp only at h
      cases hh : runHist W m1 txs with
      | none => rw [hh] at h; cases h
      | some q =>
        obtain ⟨m2, rss2⟩ := q
        rw [hh] at h
        simp only [Option.some.injEq, Prod.mk.injEq] at h
        obtain ⟨rfl, rfl⟩ := h
        obtain ⟨a1, a2, a3, a4⟩ := sim_tx hi ht
        obtain ⟨b1, b2, b3, b4⟩ := ih a3 hh
        simp only [specHist]
        refine ⟨?_, ?_, b3, ?_⟩
        · rw [a1, b1, a2]
        · rw [b2, a2]
        · rw [b4, a4]; simp only [List.length_cons]; omega

/-! ### the single-cell buffer (virtual inventory) is cell 0 of the multi-cell one -/

theorem proj0_embed (v : VI V) : proj0 (embed0 v) = v := rfl

theorem proj0_dirty (m : M V) : viDirty (proj0 m) = dirty m 0 := rfl

theorem proj0_read (m : M V) : viRead (proj0 m) = read m 0 := rfl

theorem proj0_begin (W : Nat) (m : M V) : (begin W m).map proj0 = viBegin W (proj0 m) := by
  unfold begin viBegin
  by_cases h : m.rev + 1 < 2 ^ W
  · simp [h, proj0]
  · simp [h, proj0]

theorem proj0_write (m : M V) (f : V → V) : proj0 (write m 0 f) = viWrite (proj0 m) f := by
  unfold viWrite
  rw [proj0_dirty]
  have hc := write_cells_same m 0 f
  have hs := write_store m 0 f
  have hr := write_rev m 0 f
  by_cases h : dirty m 0 = true
  · have hrev : (m.cells 0).rev = m.rev := by simpa [dirty] using h
    simp only [h, if_true]
    simp only [proj0, hc, hs, hr, read, h, if_true, hrev]
  · simp only [h, Bool.false_eq_true, if_false]
    simp only [proj0, hc, hs, hr, read, h, Bool.false_eq_true, if_false]

theorem proj0_commit (m : M V) : proj0 (commit m) = viCommit (proj0 m) := by
  unfold viCommit
  rw [proj0_dirty]
  by_cases h : dirty m 0 = true
  · simp [h, proj0, commit]
  · simp [h, proj0, commit]

theorem proj0_runActs (acts : List (VAct V)) : ∀ (m : M V),
    (proj0 (runActs m (acts.map VAct.lift)).1, (runActs m (acts.map VAct.lift)).2) = viRunActs (proj0 m) acts := by
  induction acts with
  | nil => intro m; rfl
  | cons a as ih =>
    intro m
    cases a with
    | read =>
      simp only [List.map_cons, VAct.lift, runActs, viRunActs]
      have := ih m
      rw [← this, proj0_read]
    | write f =>
      simp only [List.map_cons, VAct.lift, runActs, viRunActs]
      rw [← proj0_write]; exact ih _

theorem proj0_finish (m : M V) (fin : End) : proj0 (finish m fin) = viFinish (proj0 m) fin := by
  cases fin
  · exact proj0_commit m
  · rfl

/-- lift a single-cell operation to the multi-cell buffer (everything on kind 0) -/
def liftTx (t : List (VAct V) × End) : Tx V := ⟨t.1.map VAct.lift, t.2⟩

theorem proj0_runTx (W : Nat) (m : M V) (acts : List (VAct V)) (fin : End) :
    (runTx W m (liftTx (acts, fin))).map (fun r => (proj0 r.1, r.2)) = viRunTx W (proj0 m) acts fin := by
  unfold runTx viRunTx
  rw [← proj0_begin]
  cases hb : begin W m with
  | none => rfl
  | some m1 =>
    simp only [Option.map_some, liftTx]
    have := proj0_runActs acts m1
    rw [← this, proj0_finish]

theorem proj0_runHist (W : Nat) (txs : List (List (VAct V) × End)) : ∀ (m : M V),
    (runHist W m (txs.map liftTx)).map (fun r => (proj0 r.1, r.2)) = viRunHist W (proj0 m) txs := by
  induction txs with
  | nil => intro m; rfl
  | cons t ts ih =>
    intro m
    obtain ⟨acts, fin⟩ := t
    simp only [List.map_cons, runHist, viRunHist]
    rw [← proj0_runTx]
    cases ht : runTx W m (liftTx (acts, fin)) with
    | none => rfl
    | some p =>
      obtain ⟨m1, rs⟩ := p
      simp only [Option.map_some]
      rw [← ih m1]
      cases runHist W m1 (ts.map liftTx) with
      | none => rfl
      | some q => rfl

theorem inv_embed0 (v : VI V) (h : v.cell.rev ≤ v.rev) : Inv (embed0 v) := fun _ => h

/-- the single-cell buffer refines the transactional map (instance of the generic theorem) -/
theorem vi_sim_hist {W : Nat} (txs : List (List (VAct V) × End)) (v v' : VI V) (rss : List (List V))
    (hi : v.cell.rev ≤ v.rev) (h : viRunHist W v txs = some (v', rss)) :
    rss = (specHist (fun _ => v.store.val) (txs.map liftTx)).2 ∧
    v'.store.val = (specHist (fun _ => v.store.val) (txs.map liftTx)).1 0 ∧
    v'.cell.rev ≤ v'.rev ∧ v'.rev = v.rev + txs.length := by
  have hp := proj0_runHist W txs (embed0 v)
  rw [proj0_embed, h] at hp
  cases hr : runHist W (embed0 v) (txs.map liftTx) with
  | none => rw [hr] at hp; cases hp
  | some q =>
    obtain ⟨m', rss'⟩ := q
    rw [hr] at hp
    simp only [Option.map_some, Option.some.injEq, Prod.mk.injEq] at hp
    obtain ⟨hv, hrs⟩ := hp
    obtain ⟨a1, a2, a3, a4⟩ := sim_hist (txs.map liftTx) (inv_embed0 v hi) hr
    subst hrs
    have habs : abs (embed0 v) = fun _ => v.store.val := rfl
    rw [habs] at a1 a2
    refine ⟨a1, ?_, ?_, ?_⟩
    · rw [← hv, ← a2]; rfl
    · rw [← hv]; exact a3 0
    · rw [← hv]; simp only [proj0]; rw [a4]; simp [embed0]

/-- liquidity-market counters stay within `u64`; the pending burn never exceeds the real supply -/
def LMInv (l : LM) : Prop := l.supply + l.toMint < U64 ∧ l.toBurn ≤ l.supply

/-- concrete state for the non-vacuity examples: payload `Int`, all zero, counter 1 as after `init` -/
def m0 : M Int := ⟨1, fun _ => ⟨0, 0⟩, fun _ => ⟨0, 0⟩⟩
def w5 : Act Int := .write 3 (fun v => v + 5)

end Gmx.Rev
