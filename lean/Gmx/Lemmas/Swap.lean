import Gmx.Lemmas.Market
/-! What a successful `swapCalc` computed and what a successful `swapApply` wrote. -/
namespace Gmx.Lem
open Gmx

/-- facts about the numbers of a swap with a POSITIVE impact. -/
structure PosFacts (W : Nat) (m : Market) (q : SwapParams) (c : SwapCalc) : Prop where
  tokenIn : c.tokenIn = c.afterFees + c.cappedIn
  tokenOut : c.tokenOut = c.poolOut + c.impactAmount
  poolOut : mulDiv W c.tokenIn q.inPrice.min q.outPrice.max = some c.poolOut
  impact_le_pool : c.impactAmount ≤ m.swapImpact.amount (!q.isInLong)
  capped_le_pool : c.cappedIn ≤ m.swapImpact.amount q.isInLong
  /-- the two payments together are worth (at the max prices) at most the impact value -/
  funded : (c.impactAmount * q.outPrice.max + c.cappedIn * q.inPrice.max : Int) ≤ c.impactValue

/-- facts about the numbers of a swap with a NON-POSITIVE impact. -/
structure NegFacts (W : Nat) (q : SwapParams) (c : SwapCalc) : Prop where
  cappedIn : c.cappedIn = 0
  tokenIn : c.tokenIn + c.impactAmount = c.afterFees
  tokenIn_pos : c.tokenIn ≠ 0
  tokenOut : c.tokenOut = c.poolOut
  poolOut : mulDiv W c.tokenIn q.inPrice.min q.outPrice.max = some c.poolOut
  zero : c.impactValue = 0 → c.impactAmount = 0
  /-- the charged amount covers the impact value at the min price (rounded up) -/
  charged : (-c.impactValue : Int) ≤ c.impactAmount * q.inPrice.min

theorem swapCalcPositive_spec {W : Nat} {m : Market} {q : SwapParams} {impact : Int} {af : Nat} {fees : Fees}
    {c : SwapCalc} (h : swapCalcPositive W m q impact af fees = some c) (hpos : impact > 0) :
    c.impactValue = impact ∧ c.fees = fees ∧ c.afterFees = af ∧ PosFacts W m q c := by
  unfold swapCalcPositive at h
  split at h
  · cases h
  · rename_i sAmt cdv hcap
    obtain ⟨h0, hle, hval, hmax⟩ := cap_pos hcap hpos
    simp only at h
    split at h
    · cases h
    · rename_i cc tin hcapped
      split at h
      · cases h
      · rename_i po hpo
        split at h
        · cases h
        · rename_i tout htout
          cases h
          have htout := checkedAdd_eq htout
          refine ⟨rfl, rfl, rfl, ?_⟩
          split at hcapped
          · rename_i hz
            cases hcapped
            subst hz
            have e1 : ((sAmt.natAbs : Nat) : Int) = sAmt := by omega
            refine ⟨by simp, htout, hpo, by simp; omega, by simp, ?_⟩
            simp only [Int.natAbs_zero, Int.natCast_zero, Int.zero_mul, Int.add_zero]
            rw [e1]; omega
          · rename_i hnz
            split at hcapped
            · cases hcapped
            · rename_i scdv hscdv
              have hscdv := toSigned_eq hscdv
              split at hcapped
              · cases hcapped
              · rename_i c2 x hcap2
                split at hcapped
                · cases hcapped
                · rename_i t ht
                  cases hcapped
                  have ht := checkedAdd_eq ht
                  have hp2 : scdv > 0 := by omega
                  obtain ⟨g0, gle, gval, gmax⟩ := cap_pos hcap2 hp2
                  refine ⟨ht, htout, hpo, by simp; omega, by simp; omega, ?_⟩
                  simp only
                  have e1 : ((sAmt.natAbs : Nat) : Int) = sAmt := by omega
                  have e2 : ((cc.natAbs : Nat) : Int) = cc := by omega
                  rw [e1, e2]
                  omega

theorem swapCalcNegative_spec {W : Nat} {m : Market} {q : SwapParams} {impact : Int} {af : Nat} {fees : Fees}
    {c : SwapCalc} (h : swapCalcNegative W m q impact af fees = some c) (hnp : ¬ impact > 0) :
    c.impactValue = impact ∧ c.fees = fees ∧ c.afterFees = af ∧ NegFacts W q c := by
  unfold swapCalcNegative at h
  split at h
  · cases h
  · rename_i sAmt cdv hcap
    split at h
    · cases h
    · rename_i tin htin
      obtain ⟨hle, htin⟩ := checkedSub_eq htin
      split at h
      · cases h
      · rename_i hnz
        split at h
        · cases h
        · rename_i tout htout
          cases h
          refine ⟨rfl, rfl, rfl, ⟨rfl, by simp; omega, hnz, rfl, htout, ?_, ?_⟩⟩
          · intro hz
            simp only at hz
            subst hz
            obtain ⟨a0, _⟩ := cap_zero hcap
            simp [a0]
          · simp only
            by_cases hz : impact = 0
            · subst hz
              obtain ⟨a0, _⟩ := cap_zero hcap
              simp [a0]
            · have hneg : impact < 0 := by omega
              obtain ⟨a1, _, _, a4, _⟩ := cap_neg hcap hneg
              have e : ((sAmt.natAbs : Nat) : Int) = -sAmt := by omega
              rw [e]; exact a4

/-- the fees of a swap conserve the input amount, and the impact sign selects the facts. -/
theorem swapCalc_spec {W U : Nat} {m : Market} {q : SwapParams} {c : SwapCalc}
    (h : swapCalc W U m q = some c) :
    c.afterFees + c.fees.pool + c.fees.receiver = q.amount ∧
    (∃ bc, applyFees W U m.cfg.swapFee bc q.amount = some (c.afterFees, c.fees)) ∧
    (c.impactValue > 0 → PosFacts W m q c) ∧ (¬ c.impactValue > 0 → NegFacts W q c) := by
  unfold swapCalc at h
  split at h
  · cases h
  · rename_i impact bc himp
    split at h
    · cases h
    · rename_i af fees hfees
      have hcons := C02.applyFees_conserves hfees
      split at h
      · rename_i hpos
        obtain ⟨a, b, d, e⟩ := swapCalcPositive_spec h hpos
        subst a b d
        exact ⟨hcons, ⟨bc, hfees⟩, fun _ => e, fun hn => absurd hpos hn⟩
      · rename_i hnp
        obtain ⟨a, b, d, e⟩ := swapCalcNegative_spec h hnp
        subst a b d
        exact ⟨hcons, ⟨bc, hfees⟩, fun hp => absurd hp hnp, fun _ => e⟩

/-- what `swapApply` writes, per token side (`i` = token-in side, `o` = token-out side). -/
structure ApplyFacts (m m' : Market) (q : SwapParams) (c : SwapCalc) : Prop where
  fee_in : m'.fee.amount q.isInLong = m.fee.amount q.isInLong + c.fees.receiver
  fee_out : m'.fee.amount (!q.isInLong) = m.fee.amount (!q.isInLong)
  liq_in : m'.primary.amount q.isInLong = m.primary.amount q.isInLong + c.tokenIn + c.fees.pool
  liq_out : m'.primary.amount (!q.isInLong) + c.poolOut = m.primary.amount (!q.isInLong)
  imp_pos : c.impactValue > 0 →
    m'.swapImpact.amount (!q.isInLong) + c.impactAmount = m.swapImpact.amount (!q.isInLong) ∧
    m'.swapImpact.amount q.isInLong + c.cappedIn = m.swapImpact.amount q.isInLong
  imp_neg : ¬ c.impactValue > 0 →
    m'.swapImpact.amount q.isInLong = m.swapImpact.amount q.isInLong + c.impactAmount ∧
    m'.swapImpact.amount (!q.isInLong) = m.swapImpact.amount (!q.isInLong)
  /-- nothing but the liquidity, swap impact, claimable fee pools and the virtual inventory changes -/
  frame : m' = { m with primary := m'.primary, swapImpact := m'.swapImpact, fee := m'.fee, viSwaps := m'.viSwaps }
  vi_none : m.viSwaps = none → m'.viSwaps = none
  /-- a present virtual inventory receives exactly the liquidity pool's deltas -/
  vi_some : ∀ v, m.viSwaps = some v → ∃ v', m'.viSwaps = some v' ∧
    (v'.amount q.isInLong : Int) - v.amount q.isInLong = (m'.primary.amount q.isInLong : Int) - m.primary.amount q.isInLong ∧
    (v'.amount (!q.isInLong) : Int) - v.amount (!q.isInLong)
      = (m'.primary.amount (!q.isInLong) : Int) - m.primary.amount (!q.isInLong)

theorem swapApply_spec {W : Nat} {m m' : Market} {q : SwapParams} {c : SwapCalc}
    (h : swapApply W m q c = some m') : ApplyFacts m m' q c := by
  unfold swapApply at h
  split at h
  · cases h
  · rename_i recv hrecv
    have hrecv := toSigned_eq hrecv
    split at h
    · cases h
    · rename_i fee' hfee
      obtain ⟨f1, f2⟩ := applyOneSide_spec hfee
      simp only at h
      split at h
      · cases h
      · rename_i imp' himp
        split at h
        · cases h
        · rename_i credit hcredit
          have hcredit := checkedAdd_eq hcredit
          split at h
          · cases h
          · rename_i scredit hsc
            have hsc := toSigned_eq hsc
            split at h
            · cases h
            · rename_i sout hsout
              have hsout := toOppositeSigned_eq hsout
              split at h
              · cases h
              · rename_i liq hliq
                obtain ⟨l1, l2⟩ := applyBothSides_spec hliq
                have hip : c.impactValue > 0 →
                    imp'.amount (!q.isInLong) + c.impactAmount = m.swapImpact.amount (!q.isInLong) ∧
                    imp'.amount q.isInLong + c.cappedIn = m.swapImpact.amount q.isInLong := by
                  intro hp
                  simp only [hp, if_true] at himp
                  obtain ⟨i1, i2⟩ := applyBothSides_spec himp
                  simp only [Bool.not_not] at i2
                  omega
                have hin : ¬ c.impactValue > 0 →
                    imp'.amount q.isInLong = m.swapImpact.amount q.isInLong + c.impactAmount ∧
                    imp'.amount (!q.isInLong) = m.swapImpact.amount (!q.isInLong) := by
                  intro hp
                  simp only [hp, if_false] at himp
                  obtain ⟨i1, i2⟩ := applyOneSide_spec himp
                  omega
                split at h
                · rename_i hvi
                  cases h
                  exact ⟨by simp only; omega, by simp only; omega, by simp only; omega, by simp only; omega,
                         hip, hin, by simp [hvi], fun _ => hvi, fun v hv => by rw [hvi] at hv; cases hv⟩
                · rename_i v hvi
                  split at h
                  · cases h
                  · rename_i v' hv'
                    cases h
                    obtain ⟨u1, u2⟩ := applyBothSides_spec hv'
                    exact ⟨by simp only; omega, by simp only; omega, by simp only; omega, by simp only; omega,
                           hip, hin, rfl, fun hn => by simp [hvi] at hn,
                           fun v0 hv0 => by
                             rw [hvi] at hv0; cases hv0
                             exact ⟨v', rfl, by simp only; omega, by simp only; omega⟩⟩

end Gmx.Lem
