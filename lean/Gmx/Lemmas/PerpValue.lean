import Gmx.Lemmas.PerpLedger
/-! Value accounting of the collateral processor (C08 decrease ledger step, C10). -/
namespace Gmx.Lem
open Gmx Gmx.Perp

/-- amounts of pool token `il` held by the processor: output, remaining collateral and the
claimables in the output (collateral) token; secondary output and its claimables in the pnl token. -/
def held (x : PCtx) (s : PState) (il : Bool) : Nat :=
  (if x.outLong = il then s.out + s.rem + s.holdOut + s.userOut else 0) +
  (if x.pnlLong = il then s.sec + s.holdSec + s.userSec else 0)

/-- accounted holdings plus processor-held amounts (the position's collateral is counted in both
while it is being processed — a constant offset, the collateral sums do not change). -/
def pval (x : PCtx) (s : PState) (il : Bool) : Nat := ledger s.m il + held x s il

def tok (a : Bool) (il : Bool) (n : Nat) : Nat := if a = il then n else 0

theorem tok_eq (a il : Bool) (n : Nat) : tokAmt a il n = tok a il n := rfl

theorem ceilDiv_mul_self (a p : Nat) (hp : p ≠ 0) : ceilDiv (a * p) p = a := by
  obtain ⟨h1, h2⟩ := C01.ceil_char (a * p) p hp
  have hpos : 0 < p := Nat.pos_of_ne_zero hp
  have l1 : a ≤ ceilDiv (a * p) p := Nat.le_of_mul_le_mul_right h1 hpos
  have l2 : ceilDiv (a * p) p < a + 1 := by
    apply Nat.lt_of_mul_lt_mul_right (a := p)
    rw [Nat.add_mul]; omega
  omega

/-- detail of the payment routine: the collateral-token payment never exceeds the cost expressed
in collateral tokens (rounded up), and if the cost counts as fully paid without touching the
secondary output, the unpaid part is worth less than one secondary token. -/
theorem payAmounts_detail {W : Nat} {x : PCtx} {out rem sec cost o r sc pc ps left : Nat}
    (h : payAmounts W x out rem sec cost = some (o, r, sc, pc, ps, left)) (hc : cost ≠ 0) :
    ∃ rc0, roundUpDiv W cost x.outPrice.min = some rc0 ∧ pc ≤ rc0 ∧
      (left = 0 → ps = 0 → pc = rc0 ∨ (rc0 - pc) * x.outPrice.min < x.pnlPrice.min) := by
  unfold payAmounts at h
  simp only [hc, if_false] at h
  split at h
  · cases h
  · rename_i rc0 hrc
    refine ⟨rc0, hrc, ?_⟩
    have a := takeFrom_conserves out rc0
    split at h
    · cases h; exact ⟨by omega, fun _ _ => Or.inl (by omega)⟩
    · have b := takeFrom_conserves rem (takeFrom out rc0).2.2
      split at h
      · cases h
      · split at h
        · cases h; exact ⟨by omega, fun _ _ => Or.inl (by omega)⟩
        · split at h
          · cases h
          · rename_i rs0 hrs
            have c := takeFrom_conserves sec rs0
            split at h
            · cases h
            · rename_i lf hlf
              cases h
              refine ⟨by omega, fun hl hps => Or.inr ?_⟩
              -- c.paid = 0 and c.still * pnlmin = 0
              have hmul : (takeFrom sec rs0).2.2 * x.pnlPrice.min = 0 := by
                unfold checkedMul toU at hlf; split at hlf <;> cases hlf; exact hl
              obtain ⟨hd, hq, _⟩ := (C01.mulDiv_spec _ _ _ _ _).1 hrs
              have hstill : (takeFrom sec rs0).2.2 = 0 := by
                rcases Nat.mul_eq_zero.1 hmul with h0 | h0
                · exact h0
                · exact absurd h0 hd
              have hrs0 : rs0 = 0 := by omega
              rw [hrs0] at hq
              have : (takeFrom rem (takeFrom out rc0).2.2).2.2 * x.outPrice.min < x.pnlPrice.min := by
                have := Nat.div_add_mod ((takeFrom rem (takeFrom out rc0).2.2).2.2 * x.outPrice.min) x.pnlPrice.min
                have hm := Nat.mod_lt ((takeFrom rem (takeFrom out rc0).2.2).2.2 * x.outPrice.min) (Nat.pos_of_ne_zero hd)
                rw [← hq] at this
                simp at this
                omega
              have e : rc0 - ((takeFrom out rc0).2.1 + (takeFrom rem (takeFrom out rc0).2.2).2.1) = (takeFrom rem (takeFrom out rc0).2.2).2.2 := by omega
              rw [e]; exact this

theorem tok_cases (a il : Bool) (n : Nat) : (a = il ∧ tok a il n = n) ∨ (a = !il ∧ tok a il n = 0) := by
  unfold tok; cases a <;> cases il <;> simp

/-- the state of a processor result (if any). -/
def _root_.Gmx.Perp.PRes.st : PRes → Option PState
  | .ok s => some s
  | .short _ s => some s
  | .err _ => none

/-- inversion of `pay_for_cost`. -/
theorem payForCost_inv {W : Nat} {x : PCtx} {s s' : PState} {cost : Nat} {step : Step}
    {receive : PState → Nat → Nat → Nat → Option PState}
    (h : (payForCost W x s cost step receive).st = some s') :
    ∃ s1 pc ps left, doPayForCost W x s cost = some (s1, pc, ps, left) ∧ receive s1 pc ps left = some s' := by
  unfold payForCost at h
  split at h
  · cases h
  · rename_i s1 pc ps left hd
    split at h
    · cases h
    · rename_i s2 h2
      refine ⟨s1, pc, ps, left, hd, ?_⟩
      split at h <;> (simp only [PRes.st, Option.some.injEq] at h; subst h; exact h2)

/-- what `do_pay_for_cost` does to the held amounts. -/
theorem doPayForCost_held {W : Nat} {x : PCtx} {s s1 : PState} {cost pc ps left : Nat}
    (h : doPayForCost W x s cost = some (s1, pc, ps, left)) :
    (∀ il, pval x s1 il + tok x.outLong il pc + tok x.pnlLong il ps = pval x s il) ∧ s1.m = s.m ∧
    s1.fundingShort = s.fundingShort ∧ s1.holdOut = s.holdOut ∧ s1.holdSec = s.holdSec ∧
    s1.userOut = s.userOut ∧ s1.userSec = s.userSec ∧ s1.out + s1.rem + pc = s.out + s.rem ∧ s1.sec + ps = s.sec ∧
    s1.rem ≤ s.rem := by
  unfold doPayForCost at h
  split at h
  · cases h
  · rename_i o r sc pc' ps' left' hp
    cases h
    obtain ⟨a, b, _, d⟩ := payAmounts_conserves hp
    refine ⟨fun il => ?_, rfl, rfl, rfl, rfl, rfl, rfl, a, b, d⟩
    unfold pval held tok
    simp only
    split <;> split <;> omega

/-- `pay_to_primary_pool` credits exactly the paid amounts to the liquidity pool. -/
theorem payToPrimaryPool_ledger {W : Nat} {x : PCtx} {m m' : Market} {pc ps : Nat}
    (h : payToPrimaryPool W x m pc ps = some m') :
    ∀ il, ledger m' il = ledger m il + tok x.outLong il pc + tok x.pnlLong il ps := by
  unfold payToPrimaryPool at h
  split at h
  · rename_i sa sb ha hb
    have ea := toSigned_some ha
    have eb := toSigned_some hb
    simp only at h
    -- first credit
    have step1 : ∃ m1, (if sa = 0 then some m else m.applyDelta W x.outLong sa) = some m1 ∧
        ∀ il, ledger m1 il = ledger m il + tok x.outLong il pc := by
      by_cases h0 : sa = 0
      · refine ⟨m, by simp [h0], fun il => ?_⟩
        have : pc = 0 := by omega
        subst this; unfold tok; split <;> rfl
      · cases hx : m.applyDelta W x.outLong sa with
        | none => simp [h0, hx] at h
        | some m1 =>
          refine ⟨m1, by simp [h0], fun il => ?_⟩
          obtain ⟨l1, l2, _⟩ := applyDelta_ledger hx
          rcases tok_cases x.outLong il pc with ⟨e, t⟩ | ⟨e, t⟩
          · rw [t, ← e]; omega
          · rw [t]; rw [e] at l2; simpa using l2
    obtain ⟨m1, hm1, l1⟩ := step1
    rw [hm1] at h
    simp only at h
    intro il
    by_cases h0 : sb = 0
    · simp only [h0, if_true] at h
      cases h
      have : ps = 0 := by omega
      subst this
      rw [l1 il]; unfold tok; split <;> simp
    · simp only [h0, if_false] at h
      obtain ⟨k1, k2, _⟩ := applyDelta_ledger h
      rcases tok_cases x.pnlLong il ps with ⟨e, t⟩ | ⟨e, t⟩
      · rw [t, ← l1 il, ← e]; omega
      · rw [t, ← l1 il]; rw [e] at k2; simpa using k2
  · cases h

/-- one processor step in terms of value: `paid` collateral tokens leave the accounted world
(funding fees collected), `dust` collateral tokens are credited without having been paid. -/
def ValStep (x : PCtx) (s s' : PState) (paid dust : Nat) : Prop :=
  ∀ il, pval x s' il + tok x.outLong il paid = pval x s il + tok x.outLong il dust

theorem ValStep.rfl' (x : PCtx) (s : PState) : ValStep x s s 0 0 := fun _ => rfl

theorem ValStep.trans {x : PCtx} {a b c : PState} {p1 d1 p2 d2 : Nat} (h1 : ValStep x a b p1 d1) (h2 : ValStep x b c p2 d2) :
    ValStep x a c (p1 + p2) (d1 + d2) := by
  intro il
  have := h1 il
  have := h2 il
  unfold tok at *
  split <;> simp_all <;> omega

/-- the context of a decrease: `same` says whether pnl and collateral tokens coincide. -/
def _root_.Gmx.Perp.PCtx.wf (x : PCtx) : Prop := x.same = (x.pnlLong == x.outLong)

theorem addPnlTokenAmount_val {W : Nat} {x : PCtx} {s s' : PState} {a : Nat} (hx : x.wf)
    (h : addPnlTokenAmount W x s a = some s') :
    (∀ il, held x s' il = held x s il + tok x.pnlLong il a) ∧ s'.m = s.m := by
  unfold addPnlTokenAmount at h
  unfold PCtx.wf at hx
  split at h
  · rename_i hsame
    cases hc : checkedAdd W s.out a with
    | none => simp [hc] at h
    | some v =>
      simp only [hc, Option.map, Option.some.injEq] at h
      subst h
      have := checkedAdd_some hc
      subst this
      have e : x.pnlLong = x.outLong := by rw [hsame] at hx; simpa using hx.symm
      refine ⟨fun il => ?_, rfl⟩
      unfold held tok; simp only [e]; split <;> omega
  · rename_i hsame
    cases hc : checkedAdd W s.sec a with
    | none => simp [hc] at h
    | some v =>
      simp only [hc, Option.map, Option.some.injEq] at h
      subst h
      have := checkedAdd_some hc
      subst this
      refine ⟨fun il => ?_, rfl⟩
      unfold held tok; simp only; split <;> split <;> omega

/-- taking `d` tokens of the pnl token out of the pool and handing them to the processor. -/
theorem takeFromPool_val {W : Nat} {x : PCtx} {s s' : PState} {m1 : Market} {d : Nat} {nd : Int} (hx : x.wf)
    (hl : ∀ il, ledger m1 il = ledger s.m il) (hn : toOppositeSigned W d = some nd)
    {m2 : Market} (h1 : m1.applyDelta W x.pnlLong nd = some m2) (h2 : addPnlTokenAmount W x { s with m := m2 } d = some s') :
    ValStep x s s' 0 0 := by
  obtain ⟨k1, k2, _⟩ := applyDelta_ledger h1
  obtain ⟨a1, a2⟩ := addPnlTokenAmount_val hx h2
  have hnd : nd = -(d : Int) := by
    unfold toOppositeSigned at hn
    cases ht : toSigned W d with
    | none => simp [ht] at hn
    | some z => simp [ht] at hn; have := toSigned_some ht; omega
  intro il
  have hh : held x { s with m := m2 } il = held x s il := rfl
  have hm : s'.m = m2 := a2
  unfold pval
  rw [hm, a1 il, hh]
  have z : tok x.outLong il 0 = 0 := by unfold tok; split <;> rfl
  rw [z]
  rcases tok_cases x.pnlLong il d with ⟨e, t⟩ | ⟨e, t⟩
  · rw [t]
    have k1' : ((ledger m2 il : Nat) : Int) = ledger m1 il + nd := by rw [← e]; exact k1
    have := hl il
    omega
  · rw [t]
    have k2' : ledger m2 il = ledger m1 il := by
      have : (!x.pnlLong) = il := by rw [e]; simp
      rw [← this]; exact k2
    have := hl il
    omega

theorem addPnlIfPositive_val {W : Nat} {x : PCtx} {s s' : PState} {pnl : Int} (hx : x.wf)
    (h : addPnlIfPositive W x s pnl = some s') : ValStep x s s' 0 0 := by
  unfold addPnlIfPositive at h
  split at h
  · split at h
    · cases h
    · rename_i d _
      split at h
      · cases h
      · rename_i m2 hm2
        cases hn : toOppositeSigned W d with
        | none => simp [hn] at hm2
        | some nd =>
          simp only [hn, Option.bind] at hm2
          exact takeFromPool_val hx (fun _ => rfl) hn hm2 h
  · cases h; exact ValStep.rfl' _ _

theorem addImpactIfPositive_val {W : Nat} {x : PCtx} {s s' : PState} {impact : Int} (hx : x.wf)
    (h : addImpactIfPositive W x s impact = some s') : ValStep x s s' 0 0 := by
  unfold addImpactIfPositive at h
  split at h
  · split at h
    · cases h
    · split at h
      · cases h
      · rename_i ip _
        split at h
        · cases h
        · rename_i d _
          split at h
          · cases h
          · rename_i m2 hm2
            cases hn : toOppositeSigned W d with
            | none => simp [hn] at hm2
            | some nd =>
              simp only [hn, Option.bind] at hm2
              exact takeFromPool_val (m1 := { s.m with positionImpact := ip }) hx (fun _ => rfl) hn hm2 h
  · cases h; exact ValStep.rfl' _ _

theorem doPayForCost_detail {W : Nat} {x : PCtx} {s s1 : PState} {cost pc ps left : Nat}
    (h : doPayForCost W x s cost = some (s1, pc, ps, left)) (hc : cost ≠ 0) :
    ∃ rc0, roundUpDiv W cost x.outPrice.min = some rc0 ∧ pc ≤ rc0 ∧
      (left = 0 → ps = 0 → pc = rc0 ∨ (rc0 - pc) * x.outPrice.min < x.pnlPrice.min) := by
  unfold doPayForCost at h
  split at h
  · cases h
  · rename_i hp
    cases h
    exact payAmounts_detail hp hc

/-- the cost expressed in collateral tokens of `amount · price` is `amount`. -/
theorem roundUpDiv_mul_self {W a p r : Nat} (hp : p ≠ 0) (h : roundUpDiv W (a * p) p = some r) : r = a := by
  obtain ⟨_, hr, _⟩ := C01.roundUpDiv_sound h
  rw [hr]; exact ceilDiv_mul_self a p hp

/-- pay, then hand everything paid to the liquidity pool: no value moves. -/
theorem pay_then_pool {W : Nat} {x : PCtx} {s s1 : PState} {cost pc ps left : Nat} {m1 : Market}
    (h : doPayForCost W x s cost = some (s1, pc, ps, left)) (hp : payToPrimaryPool W x s1.m pc ps = some m1)
    (m2 : Market) (hl : ∀ il, ledger m2 il = ledger m1 il) : ValStep x s { s1 with m := m2 } 0 0 := by
  obtain ⟨hv, _⟩ := doPayForCost_held h
  have hpool := payToPrimaryPool_ledger hp
  intro il
  have hh : held x { s1 with m := m2 } il = held x s1 il := rfl
  have z : tok x.outLong il 0 = 0 := by unfold tok; split <;> rfl
  have := hv il
  unfold pval at *
  rw [hh, z]
  simp only
  rw [hl il, hpool il]
  omega

theorem payForPnl_val {W : Nat} {x : PCtx} {s s' : PState} {pnl : Int}
    (h : (payForPnl W x s pnl).st = some s') : ValStep x s s' 0 0 := by
  unfold payForPnl at h
  split at h
  · obtain ⟨s1, pc, ps, left, hd, hr⟩ := payForCost_inv h
    unfold recvToPool at hr
    cases hp : payToPrimaryPool W x s1.m pc ps with
    | none => simp [hp] at hr
    | some m1 =>
      simp only [hp, Option.map, Option.some.injEq] at hr
      subst hr
      exact pay_then_pool hd hp m1 (fun _ => rfl)
  · simp only [PRes.st, Option.some.injEq] at h; subst h; exact ValStep.rfl' _ _

theorem creditImpactPool_ledger {W : Nat} {m m' : Market} {a pa pb : Nat}
    (h : creditImpactPool W m a pa pb = some m') : ∀ il, ledger m' il = ledger m il := by
  unfold creditImpactPool at h
  split at h
  · cases h1 : (mulDiv W a pa pb).bind (toSigned W) with
    | none => rw [h1] at h; cases h
    | some d =>
      rw [h1] at h
      simp only [Option.bind] at h
      cases h2 : m.positionImpact.applyDelta W true d with
      | none => rw [h2] at h; cases h
      | some ip => rw [h2] at h; cases h; intro il; rfl
  · cases h; intro il; rfl

theorem payForImpact_val {W : Nat} {x : PCtx} {s s' : PState} {impact : Int}
    (h : (payForImpact W x s impact).st = some s') : ValStep x s s' 0 0 := by
  unfold payForImpact at h
  split at h
  · obtain ⟨s1, pc, ps, left, hd, hr⟩ := payForCost_inv h
    unfold recvImpact at hr
    split at hr
    · cases hr
    · rename_i m1 hm1
      split at hr
      · cases hr
      · rename_i m2 hm2
        split at hr
        · cases hr
        · rename_i m3 hm3
          cases hr
          exact pay_then_pool hd hm1 m3 (fun il => by rw [creditImpactPool_ledger hm3 il, creditImpactPool_ledger hm2 il])
  · simp only [PRes.st, Option.some.injEq] at h; subst h; exact ValStep.rfl' _ _

theorem payForDiff_val {W : Nat} {x : PCtx} {s s' : PState} {diff : Nat}
    (h : (payForDiff W x s diff).st = some s') : ValStep x s s' 0 0 := by
  unfold payForDiff at h
  split at h
  · simp only [PRes.st, Option.some.injEq] at h; subst h; exact ValStep.rfl' _ _
  · obtain ⟨s1, pc, ps, left, hd, hr⟩ := payForCost_inv h
    obtain ⟨hv, hm, _⟩ := doPayForCost_held hd
    unfold recvDiff at hr
    split at hr
    · rename_i a b ha hb
      cases hr
      have ea := checkedAdd_some ha
      have eb := checkedAdd_some hb
      subst ea; subst eb
      intro il
      have := hv il
      have z : tok x.outLong il 0 = 0 := by unfold tok; split <;> rfl
      rw [z]
      unfold pval held tok at *
      simp only at *
      split <;> split <;> simp_all <;> omega
    · cases hr

/-- **funding fees**: what is paid in collateral tokens leaves the accounted holdings (it backs
the claimable funding of the other side); it never exceeds the fee, and equals it unless an
insufficient payment is reported. -/
theorem payForFunding_val {W : Nat} {x : PCtx} {s s' : PState} {fa : Nat} (hp : x.outPrice.min ≠ 0)
    (h : (payForFunding W x s fa).st = some s') :
    ∃ paid, paid ≤ fa ∧ ValStep x s s' paid 0 ∧ (s'.fundingShort = false → paid = fa) ∧
      (s.fundingShort = true → s'.fundingShort = true) := by
  unfold payForFunding at h
  split at h
  · rename_i h0
    simp only [PRes.st, Option.some.injEq] at h; subst h
    exact ⟨0, by omega, ValStep.rfl' _ _, fun _ => h0.symm, fun hh => hh⟩
  · rename_i h0
    split at h
    · cases h
    · rename_i cost hc
      obtain ⟨s1, pc, ps, left, hd, hr⟩ := payForCost_inv h
      obtain ⟨hv, hm, hfs, _⟩ := doPayForCost_held hd
      have ecost : cost = fa * x.outPrice.min := by
        unfold checkedMul toU at hc; split at hc <;> cases hc; rfl
      have hcost : cost ≠ 0 := by
        rw [ecost]; exact Nat.mul_ne_zero h0 hp
      obtain ⟨rc0, hrc, hle, _⟩ := doPayForCost_detail hd hcost
      rw [ecost] at hrc
      have := roundUpDiv_mul_self hp hrc
      subst this
      unfold recvFunding at hr
      split at hr
      · cases hr
      · rename_i hs hhs
        cases hr
        refine ⟨pc, hle, ?_, ?_, ?_⟩
        · have ehs : hs = s1.holdSec + ps := by
            by_cases hps : ps ≠ 0
            · rw [if_pos hps] at hhs; exact checkedAdd_some hhs
            · rw [if_neg hps] at hhs; simp only [Option.some.injEq] at hhs; omega
          subst ehs
          intro il
          have := hv il
          have z : tok x.outLong il 0 = 0 := by unfold tok; split <;> rfl
          rw [z]
          unfold pval held tok at *
          simp only at *
          split <;> split <;> simp_all <;> omega
        · intro hf
          simp only [Bool.or_eq_false_iff, decide_eq_false_iff_not] at hf
          omega
        · intro hf
          simp only [hfs, hf, Bool.true_or]

/-- pool share + receiver share = total cost excluding funding (with or without liquidation fees). -/
theorem fees_split_excl {W : Nat} {f : PosFees} {fp fr tc : Nat}
    (h1 : f.forPool W = some fp) (h2 : f.forReceiver W = some fr) (h3 : f.totalCostExclFunding W = some tc) :
    fp + fr = tc := by
  unfold PosFees.forPool at h1
  unfold PosFees.forReceiver at h2
  unfold PosFees.totalCostExclFunding at h3
  split at h1
  · cases h1
  · rename_i bp hbp
    obtain ⟨hle, rfl⟩ := checkedSub_some hbp
    split at h1
    · cases h1
    · rename_i a ha
      have ea := checkedAdd_some ha
      split at h2
      · cases h2
      · rename_i b hb
        have eb := checkedAdd_some hb
        split at h3
        · cases h3
        · rename_i c hc
          have ec := checkedAdd_some hc
          split at h3
          · cases h3
          · rename_i d hd
            have ed := checkedAdd_some hd
            cases hl : f.liq with
            | none =>
              rw [hl] at h1 h2 h3
              simp only [Option.some.injEq] at h1 h2 h3
              omega
            | some l =>
              rw [hl] at h1 h2 h3
              simp only at h1 h2 h3
              split at h1
              · cases h1
              · rename_i lp hlp
                obtain ⟨hle2, rfl⟩ := checkedSub_some hlp
                have e1 := checkedAdd_some h1
                have e2 := checkedAdd_some h2
                have e3 := checkedAdd_some h3
                omega

/-- **fees excluding funding**: paid to the pool / fee receiver in full, or (when funds are
short) whatever was paid goes to the pool. In the first case the cost counts as paid even if
the last collateral units are missing because the remainder converts to zero secondary tokens:
`dust` collateral tokens are then credited without having been paid (finding F-C08b);
`dust · collateral price < pnl-token price`, so `dust = 0` when the two tokens coincide. -/
theorem payForFees_val {W : Nat} {x : PCtx} {s s' : PState} {fees : PosFees} (hp : x.outPrice.min ≠ 0)
    (h : (payForFees W x s fees).1.st = some s') :
    ∃ dust, (dust = 0 ∨ dust * x.outPrice.min < x.pnlPrice.min) ∧ ValStep x s s' 0 dust := by
  unfold payForFees at h
  split at h
  · cases h
  · rename_i costAmount hca
    split at h
    · simp only [PRes.st, Option.some.injEq] at h; subst h
      exact ⟨0, Or.inl rfl, ValStep.rfl' _ _⟩
    · rename_i hne
      split at h
      · cases h
      · rename_i cost hc
        have ecost : cost = costAmount * x.outPrice.min := by
          unfold checkedMul toU at hc; split at hc <;> cases hc; rfl
        have hcost : cost ≠ 0 := by rw [ecost]; exact Nat.mul_ne_zero hne hp
        split at h
        · cases h
        · rename_i s1 pc ps left hd
          obtain ⟨hv, hm, _⟩ := doPayForCost_held hd
          obtain ⟨rc0, hrc, hle, hdust⟩ := doPayForCost_detail hd hcost
          rw [ecost] at hrc
          have := roundUpDiv_mul_self hp hrc
          subst this
          split at h
          · rename_i hfull
            obtain ⟨hl0, hps0⟩ := hfull
            split at h
            · rename_i fp fr hfp hfr
              split at h
              · cases h
              · rename_i m1 hm1
                split at h
                · cases h
                · rename_i fpool hfpool
                  simp only [PRes.st, Option.some.injEq] at h
                  subst h
                  -- amounts
                  cases hq : fees.forPool W with
                  | none => simp [hq] at hfp
                  | some fpn =>
                    cases hr : fees.forReceiver W with
                    | none => simp [hr] at hfr
                    | some frn =>
                      simp only [hq, hr, Option.bind] at hfp hfr
                      have e1 := toSigned_some hfp
                      have e2 := toSigned_some hfr
                      have hsum := fees_split_excl hq hr hca
                      obtain ⟨k1, k2, _, kf, _⟩ := applyDelta_ledger hm1
                      obtain ⟨f1, f2⟩ := feePool_ledger (m := m1) hfpool
                      refine ⟨rc0 - pc, ?_, ?_⟩
                      · rcases hdust hl0 hps0 with h | h
                        · left; omega
                        · right; exact h
                      · intro il
                        have hvv := hv il
                        have z : tok x.outLong il 0 = 0 := by unfold tok; split <;> rfl
                        rw [z]
                        have hh : held x { s1 with m := { m1 with fee := fpool } } il = held x s1 il := rfl
                        unfold pval at *
                        rw [hh]
                        simp only
                        subst hps0
                        rcases tok_cases x.outLong il pc with ⟨e, t⟩ | ⟨e, t⟩
                        · have t2 : tok x.outLong il (rc0 - pc) = rc0 - pc := by unfold tok; simp [e]
                          have t3 : tok x.pnlLong il 0 = 0 := by unfold tok; split <;> rfl
                          rw [t, t3] at hvv
                          rw [t2]
                          rw [← e]
                          rw [← e] at hvv
                          omega
                        · have t2 : tok x.outLong il (rc0 - pc) = 0 := by unfold tok; simp [e]
                          have t3 : tok x.pnlLong il 0 = 0 := by unfold tok; split <;> rfl
                          rw [t, t3] at hvv
                          rw [t2]
                          have hi : (!x.outLong) = il := by rw [e]; simp
                          rw [← hi] at hvv ⊢
                          omega
            · cases h
          · split at h
            · cases h
            · rename_i m1 hm1
              refine ⟨0, Or.inl rfl, ?_⟩
              have key := pay_then_pool hd hm1 m1 (fun _ => rfl)
              split at h <;> (simp only [PRes.st, Option.some.injEq] at h; subst h; exact key)

/-! #### the insufficient-funding flag is only written by the funding step -/

theorem payForCost_fs {W : Nat} {x : PCtx} {s s' : PState} {cost : Nat} {step : Step}
    {receive : PState → Nat → Nat → Nat → Option PState}
    (hr : ∀ s1 pc ps left s2, receive s1 pc ps left = some s2 → s2.fundingShort = s1.fundingShort)
    (h : (payForCost W x s cost step receive).st = some s') : s'.fundingShort = s.fundingShort := by
  obtain ⟨s1, pc, ps, left, hd, hrr⟩ := payForCost_inv h
  obtain ⟨_, _, hfs, _⟩ := doPayForCost_held hd
  rw [hr _ _ _ _ _ hrr, hfs]

theorem addPnlTokenAmount_fs {W : Nat} {x : PCtx} {s s' : PState} {a : Nat}
    (h : addPnlTokenAmount W x s a = some s') : s'.fundingShort = s.fundingShort := by
  unfold addPnlTokenAmount at h
  split at h
  · cases hc : checkedAdd W s.out a with
    | none => simp [hc] at h
    | some v => simp [hc] at h; subst h; rfl
  · cases hc : checkedAdd W s.sec a with
    | none => simp [hc] at h
    | some v => simp [hc] at h; subst h; rfl

theorem addPnlIfPositive_fs {W : Nat} {x : PCtx} {s s' : PState} {pnl : Int}
    (h : addPnlIfPositive W x s pnl = some s') : s'.fundingShort = s.fundingShort := by
  unfold addPnlIfPositive at h
  split at h
  · split at h
    · cases h
    · split at h
      · cases h
      · exact (addPnlTokenAmount_fs h).trans rfl
  · cases h; rfl

theorem addImpactIfPositive_fs {W : Nat} {x : PCtx} {s s' : PState} {impact : Int}
    (h : addImpactIfPositive W x s impact = some s') : s'.fundingShort = s.fundingShort := by
  unfold addImpactIfPositive at h
  split at h
  · split at h
    · cases h
    · split at h
      · cases h
      · split at h
        · cases h
        · split at h
          · cases h
          · exact (addPnlTokenAmount_fs h).trans rfl
  · cases h; rfl

theorem payForPnl_fs {W : Nat} {x : PCtx} {s s' : PState} {pnl : Int}
    (h : (payForPnl W x s pnl).st = some s') : s'.fundingShort = s.fundingShort := by
  unfold payForPnl at h
  split at h
  · apply payForCost_fs _ h
    intro s1 pc ps left s2 hr
    unfold recvToPool at hr
    cases hp : payToPrimaryPool W x s1.m pc ps with
    | none => simp [hp] at hr
    | some m1 => simp [hp] at hr; subst hr; rfl
  · simp only [PRes.st, Option.some.injEq] at h; subst h; rfl

theorem payForImpact_fs {W : Nat} {x : PCtx} {s s' : PState} {impact : Int}
    (h : (payForImpact W x s impact).st = some s') : s'.fundingShort = s.fundingShort := by
  unfold payForImpact at h
  split at h
  · apply payForCost_fs _ h
    intro s1 pc ps left s2 hr
    unfold recvImpact at hr
    repeat' (split at hr)
    all_goals first | (cases hr; done) | (cases hr; rfl)
  · simp only [PRes.st, Option.some.injEq] at h; subst h; rfl

theorem payForDiff_fs {W : Nat} {x : PCtx} {s s' : PState} {diff : Nat}
    (h : (payForDiff W x s diff).st = some s') : s'.fundingShort = s.fundingShort := by
  unfold payForDiff at h
  split at h
  · simp only [PRes.st, Option.some.injEq] at h; subst h; rfl
  · apply payForCost_fs _ h
    intro s1 pc ps left s2 hr
    unfold recvDiff at hr
    split at hr
    · cases hr; rfl
    · cases hr

theorem payForFees_fs {W : Nat} {x : PCtx} {s s' : PState} {fees : PosFees}
    (h : (payForFees W x s fees).1.st = some s') : s'.fundingShort = s.fundingShort := by
  unfold payForFees at h
  repeat' (split at h)
  all_goals first | (cases h; done) | skip
  all_goals
    (simp only [PRes.st, Option.some.injEq] at h
     subst h
     first
       | rfl
       | (have := (doPayForCost_held ‹doPayForCost _ _ _ _ = some _›).2.2.1; simpa using this))

/-- **value accounting of the collateral processor** (every branch, including insolvent
closes): what the processor ends up holding plus the accounted holdings equals what it started
with, minus the funding fee actually collected (`paid ≤` the fee, `=` it unless an insufficient
payment is reported), plus the fee dust of `payForFees_val`. -/
theorem processCollateral_val {W : Nat} {x : PCtx} {s0 s : PState} {pnl impact : Int} {diff : Nat}
    {fees f : PosFees} {ins : Bool} {st : Option Step} (hx : x.wf) (hp : x.outPrice.min ≠ 0)
    (h : processCollateral W x s0 pnl impact diff fees ins = .ok (s, f, st)) :
    ∃ paid dust, paid ≤ fees.fundAmount ∧ (dust = 0 ∨ dust * x.outPrice.min < x.pnlPrice.min) ∧
      ValStep x s0 s paid dust ∧ (s0.fundingShort = false → s.fundingShort = false → paid = fees.fundAmount) := by
  unfold processCollateral at h
  simp only at h
  cases h1 : (addPnlIfPositive W x s0 pnl).bind (fun s => addImpactIfPositive W x s impact) with
  | none => simp [h1] at h
  | some s1 =>
    obtain ⟨v1, fs1⟩ : ValStep x s0 s1 0 0 ∧ s1.fundingShort = s0.fundingShort := by
      cases ha : addPnlIfPositive W x s0 pnl with
      | none => simp [ha] at h1
      | some sa =>
        simp only [ha, Option.bind] at h1
        have := (addPnlIfPositive_val hx ha).trans (addImpactIfPositive_val hx h1)
        exact ⟨this, by rw [addImpactIfPositive_fs h1, addPnlIfPositive_fs ha]⟩
    simp only [h1] at h
    -- a helper to finish from the state after the funding step
    have fin : ∀ (s2 : PState) (paid : Nat), paid ≤ fees.fundAmount → ValStep x s1 s2 paid 0 →
        (s2.fundingShort = false → paid = fees.fundAmount) → (s1.fundingShort = true → s2.fundingShort = true) →
        ∀ (dust : Nat), (dust = 0 ∨ dust * x.outPrice.min < x.pnlPrice.min) → ValStep x s2 s 0 dust →
        s.fundingShort = s2.fundingShort →
        ∃ paid dust, paid ≤ fees.fundAmount ∧ (dust = 0 ∨ dust * x.outPrice.min < x.pnlPrice.min) ∧
          ValStep x s0 s paid dust ∧ (s0.fundingShort = false → s.fundingShort = false → paid = fees.fundAmount) := by
      intro s2' paid hle hv2 hfs _ dust hd hv3 hfe
      refine ⟨paid, dust, hle, hd, ?_, fun _ hsf => hfs (by rw [← hfe]; exact hsf)⟩
      have := (v1.trans hv2).trans hv3
      simpa using this
    cases h2 : payForFunding W x s1 fees.fundAmount with
    | err e => simp [h2] at h
    | short st2 s2 =>
      obtain ⟨paid, hle, hv2, hfs, hmono⟩ := payForFunding_val hp (by rw [h2]; rfl : (payForFunding W x s1 fees.fundAmount).st = some s2)
      simp only [h2] at h
      split at h <;> cases h
      exact fin _ paid hle hv2 hfs hmono 0 (Or.inl rfl) (ValStep.rfl' _ _) rfl
    | ok s2 =>
      obtain ⟨paid, hle, hv2, hfs, hmono⟩ := payForFunding_val hp (by rw [h2]; rfl : (payForFunding W x s1 fees.fundAmount).st = some s2)
      simp only [h2] at h
      cases h3 : payForPnl W x s2 pnl with
      | err e => simp [h3] at h
      | short st3 s3 =>
        have e3 : (payForPnl W x s2 pnl).st = some s3 := by rw [h3]; rfl
        simp only [h3] at h
        split at h <;> cases h
        exact fin s2 paid hle hv2 hfs hmono 0 (Or.inl rfl) (payForPnl_val e3) (payForPnl_fs e3)
      | ok s3 =>
        have e3 : (payForPnl W x s2 pnl).st = some s3 := by rw [h3]; rfl
        simp only [h3] at h
        cases h4 : payForFees W x s3 fees with
        | mk r4 f4 =>
          simp only [h4] at h
          cases r4 with
          | err e => simp at h
          | short st4 s4 =>
            have e4 : (payForFees W x s3 fees).1.st = some s4 := by rw [h4]; rfl
            obtain ⟨dust, hd, hv4⟩ := payForFees_val hp e4
            simp only at h
            split at h <;> cases h
            refine fin s2 paid hle hv2 hfs hmono dust hd ?_ (by rw [payForFees_fs e4, payForPnl_fs e3])
            simpa using (payForPnl_val e3).trans hv4
          | ok s4 =>
            have e4 : (payForFees W x s3 fees).1.st = some s4 := by rw [h4]; rfl
            obtain ⟨dust, hd, hv4⟩ := payForFees_val hp e4
            simp only at h
            cases h5 : payForImpact W x s4 impact with
            | err e => simp [h5] at h
            | short st5 s5 =>
              have e5 : (payForImpact W x s4 impact).st = some s5 := by rw [h5]; rfl
              simp only [h5] at h
              split at h <;> cases h
              refine fin s2 paid hle hv2 hfs hmono dust hd ?_ (by rw [payForImpact_fs e5, payForFees_fs e4, payForPnl_fs e3])
              simpa using ((payForPnl_val e3).trans hv4).trans (payForImpact_val e5)
            | ok s5 =>
              have e5 : (payForImpact W x s4 impact).st = some s5 := by rw [h5]; rfl
              simp only [h5] at h
              cases h6 : payForDiff W x s5 diff with
              | err e => simp [h6] at h
              | short st6 s6 =>
                have e6 : (payForDiff W x s5 diff).st = some s6 := by rw [h6]; rfl
                simp only [h6] at h
                split at h <;> cases h
                refine fin s2 paid hle hv2 hfs hmono dust hd ?_ (by rw [payForDiff_fs e6, payForImpact_fs e5, payForFees_fs e4, payForPnl_fs e3])
                simpa using (((payForPnl_val e3).trans hv4).trans (payForImpact_val e5)).trans (payForDiff_val e6)
              | ok s6 =>
                have e6 : (payForDiff W x s5 diff).st = some s6 := by rw [h6]; rfl
                simp only [h6] at h
                cases h
                refine fin s2 paid hle hv2 hfs hmono dust hd ?_ (by rw [payForDiff_fs e6, payForImpact_fs e5, payForFees_fs e4, payForPnl_fs e3])
                simpa using (((payForPnl_val e3).trans hv4).trans (payForImpact_val e5)).trans (payForDiff_val e6)

theorem payForFees_fund {W : Nat} {x : PCtx} {s : PState} {fees : PosFees} :
    (payForFees W x s fees).2.fundAmount = fees.fundAmount := by
  unfold payForFees
  repeat' split
  all_goals rfl

theorem processCollateral_fund {W : Nat} {x : PCtx} {s0 s : PState} {pnl impact : Int} {diff : Nat}
    {fees f : PosFees} {ins : Bool} {st : Option Step}
    (h : processCollateral W x s0 pnl impact diff fees ins = .ok (s, f, st)) : f.fundAmount = fees.fundAmount := by
  unfold processCollateral at h
  simp only at h
  repeat' (split at h)
  all_goals first | (cases h; done) | skip
  all_goals
    (cases h
     first
       | rfl
       | (have hpf := ‹payForFees W x _ fees = _›
          have e := congrArg (fun q => q.2.fundAmount) hpf
          simp only at e
          rw [← e]; exact payForFees_fund))

/-- the ledger along the bookkeeping tail of a decrease: only the collateral sum of the
position's side moves, by the collateral the position gives up. -/
theorem settleDecrease_ledger {W U : Nat} {m m' : Market} {c : PerpCfg} {pr : Prices} {p p' : Pos}
    {sd sdt rem out out' : Nat} {rm : Bool} (h : settleDecrease W U m c pr p sd sdt rem out = .ok (m', p', rm, out')) :
    (∀ t, ledger m' t + tok p.collLong t (p.collateral - p'.collateral) = ledger m t) ∧ p'.collateral ≤ p.collateral := by
  unfold settleDecrease at h
  expose_do h
  all_goals
    (simp only [Except.ok.injEq, Prod.mk.injEq] at h
     obtain ⟨hm, hp, _, _⟩ := h
     have l1 := updateTotalBorrowingM_LF ‹updateTotalBorrowingM _ _ _ _ _ _ = Except.ok _›
     have hcd := orF_ok ‹orF ((checkedSub p.collateral _).bind (toOppositeSigned W)) = Except.ok _›
     have hcs := orF_ok ‹orF (Pool.applyDelta W (collPool _ p.isLong) p.collLong _) = Except.ok _›
     have l3 := updateOpenInterest_LF ‹updateOpenInterest _ _ _ _ _ _ = Except.ok _›
     subst hm
     obtain ⟨c1, c2⟩ := setCollPool_ledger hcs
     cases hq : checkedSub p.collateral _ with
     | none => rw [hq] at hcd; cases hcd
     | some cdn =>
       rw [hq] at hcd
       simp only [Option.bind] at hcd
       obtain ⟨hle, hcdn⟩ := checkedSub_some hq
       subst hp
       simp only [Pos.syncFunding] at *
       unfold toOppositeSigned toSigned at hcd
       split at hcd <;> simp only [Option.map, Option.some.injEq, reduceCtorEq] at hcd
       subst hcd
       refine ⟨fun t => ?_, hle⟩
       rw [ledger_of_LF l3 t]
       rcases tok_cases p.collLong t (p.collateral - _) with ⟨e, tt⟩ | ⟨e, tt⟩
       · rw [tt, ← e, ← ledger_of_LF l1 p.collLong]
         omega
       · rw [tt]
         have hi : (!p.collLong) = t := by rw [e]; simp
         rw [← hi, c2, ledger_of_LF l1]
         rfl)

/-- the report fields of a successful `decrease` in terms of the processor's final state. -/
theorem decrease_parts2 {W U : Nat} {m m' : Market} {c : PerpCfg} {pr : Prices} {p p' : Pos} {sd0 wd : Nat}
    {fl : DecreaseFlags} {r : DecreaseReport} (h : decrease W U m c pr p sd0 wd fl = .ok (m', p', r)) :
    ∃ s fees0 ins rem out0 out1,
      processCollateral W { pr := pr, outLong := p.collLong, pnlLong := p.isLong, same := (p.isLong == p.collLong) }
        { m := m, rem := p.collateral } r.pnl r.impactValue r.impactDiff fees0 ins = .ok (s, r.fees, r.insolventStep) ∧
      settleDecrease W U s.m c pr p r.sizeDelta r.sizeDeltaTokens rem out0 = .ok (m', p', r.shouldRemove, out1) ∧
      rem + r.withdrawable = s.rem ∧ out0 = s.out + r.withdrawable ∧
      r.holdOut = s.holdOut ∧ r.holdSec = s.holdSec ∧ r.userOut = s.userOut ∧ r.userSec = s.userSec ∧
      r.fundingShort = s.fundingShort ∧ r.output + r.secondary = out1 + s.sec ∧
      ((p.isLong == p.collLong) = false → r.output = out1 ∧ r.secondary = s.sec) ∧ pr.isValid W = true := by
  unfold decrease at h
  expose_do h
  all_goals
    (cases h
     refine ⟨_, _, _, _, _, _, ‹processCollateral _ _ _ _ _ _ _ _ = _›, ‹settleDecrease _ _ _ _ _ _ _ _ _ _ = _›,
       ?_, ?_, rfl, rfl, rfl, rfl, rfl, ?_, ?_, ?_⟩
     · simp only [capTo]; split <;> omega
     · exact checkedAdd_some (orF_ok ‹orF (checkedAdd W _ (capTo _ _)) = Except.ok _›)
     · have hx := ‹(if (p.isLong == p.collLong) = true ∧ _ then _ else _) = Except.ok _›
       split at hx
       · split at hx
         · cases hx
         · rename_i o ho; cases hx; have := checkedAdd_some (orF_ok ho); simp only; omega
       · cases hx; rfl
     · intro hne
       have hx := ‹(if (p.isLong == p.collLong) = true ∧ _ then _ else _) = Except.ok _›
       simp only [hne, Bool.false_eq_true, false_and, if_false] at hx
       cases hx; exact ⟨rfl, rfl⟩
     · have hv := ‹¬(!Prices.isValid W pr) = true›
       simpa using hv)

theorem price_valid_min {W : Nat} {p : Price} (h : p.isValid W = true) : p.min ≠ 0 := by
  unfold Price.isValid at h
  simp only [Bool.and_eq_true, bne_iff_ne, ne_eq] at h
  exact h.1.1

/-- **ledger step of a decrease** — every collateral-processor branch (profit / loss, positive /
negative / capped impact, fees paid or insufficient, funding paid from collateral or secondary
output, price impact diff, insolvent close at any step), partial and full closes:
accounted holdings after + outputs (output, secondary, claimable for holding and user) + funding
fee collected = accounted holdings before + fee dust; `paid ≤` funding fee, `=` unless an
insufficient funding payment is reported; `dust` is worth less than one pnl-token unit and is zero
when pnl and collateral tokens coincide. -/
theorem decrease_ledger {W U : Nat} {m m' : Market} {c : PerpCfg} {pr : Prices} {p p' : Pos} {sd0 wd : Nat}
    {fl : DecreaseFlags} {r : DecreaseReport} (h : decrease W U m c pr p sd0 wd fl = .ok (m', p', r)) :
    ∃ paid dust, paid ≤ r.fees.fundAmount ∧ (r.fundingShort = false → paid = r.fees.fundAmount) ∧
      (dust = 0 ∨ dust * (pr.collateral p.collLong).min < (pr.collateral p.isLong).min) ∧
      ∀ t, ledger m' t + tok p.collLong t (r.output + r.holdOut + r.userOut + paid) +
             tok p.isLong t (r.secondary + r.holdSec + r.userSec) = ledger m t + tok p.collLong t dust := by
  obtain ⟨s, fees0, ins, rem, out0, out1, hproc, hset, hrem, hout0, e1, e2, e3, e4, e5, hos, hdiff, hval⟩ := decrease_parts2 h
  have hpm : (pr.collateral p.collLong).min ≠ 0 := by
    unfold Prices.isValid at hval
    simp only [Bool.and_eq_true] at hval
    unfold Prices.collateral
    split
    · exact price_valid_min hval.1.2
    · exact price_valid_min hval.2
  have hwf : PCtx.wf { pr := pr, outLong := p.collLong, pnlLong := p.isLong, same := (p.isLong == p.collLong) } := rfl
  obtain ⟨paid, dust, hle, hd, hv, hfs⟩ := processCollateral_val hwf hpm hproc
  have hfund := processCollateral_fund hproc
  have hl := settleDecrease_ledger hset
  obtain ⟨_, _, _, _, _, q6, q7⟩ := settleDecrease_pos hset
  refine ⟨paid, dust, by rw [hfund]; exact hle, ?_, hd, fun t => ?_⟩
  · intro hf; rw [hfund]; exact hfs rfl (by rw [← e5]; exact hf)
  · have hvt := hv t
    have hlt := hl.1 t
    have hcle := hl.2
    have hsum : out1 + p'.collateral = s.out + s.rem := by
      cases hrm : r.shouldRemove
      · obtain ⟨_, _, a, b⟩ := q7 hrm; omega
      · obtain ⟨_, _, a, b⟩ := q6 hrm; omega
    unfold pval held at hvt
    simp only at hvt
    unfold tok at *
    by_cases hsame : p.isLong = p.collLong
    · rw [hsame] at hvt ⊢
      by_cases hc : p.collLong = t <;> simp only [hc, if_true, if_false] at * <;> omega
    · obtain ⟨ho, hsec⟩ := hdiff (by simpa using hsame)
      by_cases hc : p.collLong = t <;> by_cases hi : p.isLong = t <;> simp only [hc, hi, if_true, if_false] at * <;> omega

/-! ### witness of F-C08b (fee dust) -/

def dCfg : MarketConfig := wCfg
def dPerp : PerpCfg := ⟨10 ^ 9, 0, 5 * 10 ^ 6, 5 * 10 ^ 6, 5 * 10 ^ 6, 5 * 10 ^ 6, 25 * 10 ^ 5, 0, 0, 0⟩
def dPrices : Prices := ⟨⟨99, 99⟩, ⟨99, 99⟩, ⟨1, 1⟩⟩

/-- open a 20 USD long with 599 999 950 short tokens at price 100 (1 % fee), close it fully at
price 99: `(short-token holdings after opening, after closing, output, secondary output)`.
Tokens paid in: 599 999 950; nothing is paid out; holdings end at 10¹⁴ + 600 000 000. -/
def dustOutcome : Option (Nat × Nat × Nat × Nat) := do
  let m0 : Market := { cfg := dCfg, primary := ⟨10 ^ 12, 10 ^ 14⟩ }
  let (m1, p1, _) ← (increase 64 (10 ^ 9) m0 dPerp wPrices { isLong := true, collLong := false } 599999950 (20 * 10 ^ 9)).toOption
  let (m2, _, r2) ← (decrease 64 (10 ^ 9) m1 dPerp dPrices p1 (20 * 10 ^ 9) 0 {}).toOption
  pure (ledger m1 false, ledger m2 false, r2.output, r2.secondary)

end Gmx.Lem
