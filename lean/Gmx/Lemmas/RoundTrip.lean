import Gmx.Lemmas.PerpValue
import Gmx.Props.C03
/-! Ingredients of the end-to-end round-trip bound (C10). -/
namespace Gmx.Lem
open Gmx Gmx.Perp

/-- the positive cap bounds a non-negative impact by `factor · |size delta|`. -/
theorem capPositive_le_factor {W U : Nat} {m : Market} {c : PerpCfg} {index : Price} {sd i r : Int}
    (h : capPositiveImpact W U m c index sd i = some r) (hi : 0 ≤ i) :
    ∃ capv : Nat, applyFactor W U sd.natAbs c.maxPosImpactFactor = some capv ∧ r ≤ capv ∧ r ≤ i ∧ 0 ≤ r := by
  unfold capPositiveImpact at h
  have hn : ¬ i < 0 := by omega
  simp only [hn, if_false] at h
  cases h1 : (checkedMul W m.positionImpact.long index.min).bind (toSigned W) with
  | none => rw [h1] at h; cases h
  | some max1 =>
    rw [h1] at h
    simp only at h
    cases hc : applyFactor W U sd.natAbs c.maxPosImpactFactor with
    | none => simp [hc] at h
    | some capv =>
      simp only [hc, Option.bind] at h
      cases h2 : toSigned W capv with
      | none => simp [h2] at h
      | some max2 =>
        simp only [h2, Option.some.injEq] at h
        have e2 := toSigned_some h2
        have hm1 : 0 ≤ max1 := by
          cases hcm : checkedMul W m.positionImpact.long index.min with
          | none => simp [hcm] at h1
          | some v => simp only [hcm, Option.bind] at h1; have := toSigned_some h1; omega
        subst h
        refine ⟨capv, rfl, ?_, ?_, ?_⟩ <;> (split <;> split <;> omega)

/-- the negative cap: result is `max(impact, −factor·|size delta|)` for a negative impact. -/
theorem capNegative_spec {W U : Nat} {c : PerpCfg} {sd i r : Int} {diff : Nat}
    (h : capNegativeImpact W U c sd false i = some (r, diff)) :
    (0 ≤ i → r = i) ∧ (i < 0 → ∃ capv : Nat, applyFactor W U sd.natAbs c.maxNegImpactFactor = some capv ∧
      r ≤ 0 ∧ (r = i ∨ (r = -(capv : Int) ∧ i < r))) := by
  unfold capNegativeImpact at h
  by_cases hneg : i < 0
  · simp only [hneg, if_true, Bool.false_eq_true, if_false] at h
    refine ⟨fun hh => by omega, fun _ => ?_⟩
    cases hc : applyFactor W U sd.natAbs c.maxNegImpactFactor with
    | none => simp [hc] at h
    | some capv =>
      simp only [hc, Option.bind] at h
      cases hs : toOppositeSigned W capv with
      | none => simp [hs] at h
      | some mi =>
        simp only [hs] at h
        have emi : mi = -(capv : Int) := by
          unfold toOppositeSigned at hs
          cases ht : toSigned W capv with
          | none => simp [ht] at hs
          | some z => simp [ht] at hs; have := toSigned_some ht; omega
        refine ⟨capv, rfl, ?_⟩
        split at h
        · split at h
          · cases h
          · cases h; exact ⟨by omega, Or.inr ⟨emi, by omega⟩⟩
        · cases h; exact ⟨by omega, Or.inl rfl⟩
  · simp only [hneg, if_false] at h
    cases h
    exact ⟨fun _ => rfl, fun hh => absurd hh hneg⟩

/-- **capped round-trip impact ≤ 1**: if the uncapped impacts of the opening (`x`) and of the exact
reverse change (`y`) sum to at most one unit (C03), then so do the impacts actually applied — the
opening's after the positive cap, the closing's after both caps — provided the positive cap factor
does not exceed the negative one. (Without the guard: finding F-C10.) -/
theorem capped_roundtrip_le_one {W U : Nat} {m0 m1 : Market} {c : PerpCfg} {index : Price} {S : Nat} {x y iv1 i1 iv2 : Int}
    {diff : Nat} (hxy : x + y ≤ 1) (hcap : c.maxPosImpactFactor ≤ c.maxNegImpactFactor)
    (h1 : capPositiveImpact W U m0 c index (S : Int) x = some iv1)
    (h2 : capPositiveImpact W U m1 c index (-(S : Int)) y = some i1)
    (h3 : capNegativeImpact W U c (-(S : Int)) false i1 = some (iv2, diff)) : iv1 + iv2 ≤ 1 := by
  have hS1 : ((S : Int)).natAbs = S := by simp
  have hS2 : (-(S : Int)).natAbs = S := by simp
  obtain ⟨n1, n2⟩ := capNegative_spec h3
  rw [hS2] at n2
  by_cases hx : x < 0
  · -- opening impact negative: not capped
    have e1 : iv1 = x := by
      unfold capPositiveImpact at h1; simp only [hx, if_true] at h1; cases h1; rfl
    by_cases hy : y < 0
    · have e2 : i1 = y := by
        unfold capPositiveImpact at h2; simp only [hy, if_true] at h2; cases h2; rfl
      obtain ⟨_, _, hr0, _⟩ := n2 (by omega)
      omega
    · obtain ⟨_, _, _, hle, h0⟩ := capPositive_le_factor h2 (by omega)
      have := n1 h0
      omega
  · obtain ⟨cp, hcp, hle1, hlex, h01⟩ := capPositive_le_factor h1 (by omega)
    rw [hS1] at hcp
    by_cases hy : y < 0
    · have e2 : i1 = y := by
        unfold capPositiveImpact at h2; simp only [hy, if_true] at h2; cases h2; rfl
      obtain ⟨cn, hcn, hr0, hcase⟩ := n2 (by omega)
      rcases hcase with hc | ⟨hc, _⟩
      · omega
      · -- both caps bind: cp ≤ cn
        obtain ⟨_, ecp, _⟩ := (C01.mulDiv_spec _ _ _ _ _).1 hcp
        obtain ⟨hU, ecn, _⟩ := (C01.mulDiv_spec _ _ _ _ _).1 hcn
        have : cp ≤ cn := by
          rw [ecp, ecn]; exact Nat.div_le_div_right (Nat.mul_le_mul_left _ hcap)
        omega
    · obtain ⟨_, _, _, hle, h0⟩ := capPositive_le_factor h2 (by omega)
      have := n1 h0
      omega

/-- **the pnl of an immediate full close is at most the opening's price impact** (USD): the tokens
received for the size round against the trader, the impact amount rounds against the trader, and
the close is priced against the trader (`idxMin ≤ idxMax`). `amt` is the price impact amount of the
opening (`⌊iv/idxMax⌋` if positive, `−⌈|iv|/idxMin⌉` otherwise). -/
theorem close_pnl_le_open_impact (isLong : Bool) (S T idxMin idxMax : Nat) (iv amt : Int) (hp : idxMin ≤ idxMax) (h0 : idxMin ≠ 0)
    (hamt : (0 < iv → amt = Int.tdiv iv idxMax) ∧ (iv ≤ 0 → amt ≤ 0 ∧ (-iv) ≤ (-amt) * idxMin))
    (hT : if isLong then (T : Int) = (S / idxMax : Nat) + amt else (T : Int) = (ceilDiv S idxMin : Nat) - amt) :
    (if isLong then (T : Int) * idxMin - S else (S : Int) - T * idxMax) ≤ iv := by
  have hmax : idxMax ≠ 0 := by omega
  have base : S / idxMax * idxMin ≤ S ∧ S ≤ ceilDiv S idxMin * idxMax :=
    ⟨Nat.le_trans (Nat.mul_le_mul_left _ hp) (Nat.div_mul_le_self _ _),
     Nat.le_trans (C01.ceil_char S idxMin h0).1 (Nat.mul_le_mul_left _ hp)⟩
  -- amt · price ≤ iv in both sign cases, for the price used on the respective side
  have hamtL : amt * idxMin ≤ iv := by
    by_cases hpos : 0 < iv
    · rw [hamt.1 hpos]
      obtain ⟨n, hn⟩ := Int.eq_ofNat_of_zero_le (Int.le_of_lt hpos)
      subst hn
      rw [C01.tdiv_nat]
      have h1 : (n / idxMax) * idxMin ≤ n := Nat.le_trans (Nat.mul_le_mul_left _ hp) (Nat.div_mul_le_self n idxMax)
      exact_mod_cast h1
    · obtain ⟨_, hb⟩ := hamt.2 (by omega)
      have : -(amt * idxMin) = (-amt) * idxMin := by rw [Int.neg_mul]
      omega
  have hamtS : amt * idxMax ≤ iv := by
    by_cases hpos : 0 < iv
    · rw [hamt.1 hpos]
      obtain ⟨n, hn⟩ := Int.eq_ofNat_of_zero_le (Int.le_of_lt hpos)
      subst hn
      rw [C01.tdiv_nat]
      have h1 : (n / idxMax) * idxMax ≤ n := Nat.div_mul_le_self n idxMax
      exact_mod_cast h1
    · obtain ⟨ha, hb⟩ := hamt.2 (by omega)
      have h1 : (-amt) * idxMin ≤ (-amt) * idxMax := Int.mul_le_mul_of_nonneg_left (by exact_mod_cast hp) (by omega)
      have : -(amt * idxMax) = (-amt) * idxMax := by rw [Int.neg_mul]
      omega
  cases isLong
  · simp only [Bool.false_eq_true, if_false] at hT ⊢
    rw [hT, Int.sub_mul]
    have : (S : Int) ≤ ((ceilDiv S idxMin : Nat) : Int) * idxMax := by exact_mod_cast base.2
    omega
  · simp only [if_true] at hT ⊢
    rw [hT, Int.add_mul]
    have : ((S / idxMax : Nat) : Int) * idxMin ≤ S := by exact_mod_cast base.1
    omega

end Gmx.Lem

namespace Gmx.Lem
open Gmx Gmx.Perp

/-! ### what the trader keeps through the collateral processor (pnl token = collateral token) -/

/-- the trader's side of the processor state (same token): output, remaining collateral, claimable. -/
def tr (s : PState) : Nat := s.out + s.rem + s.userOut

/-- same-token payment with an empty secondary output: either the whole cost (in tokens, rounded
up) leaves output + collateral, or both are emptied and a shortfall is reported. -/
theorem payAmounts_same {W : Nat} {x : PCtx} {out rem cost o r sc pc ps left : Nat}
    (h : payAmounts W x out rem 0 cost = some (o, r, sc, pc, ps, left)) (hc : cost ≠ 0)
    (hsame : x.pnlPrice.min = x.outPrice.min) (hp : x.outPrice.min ≠ 0) :
    ∃ rc0, roundUpDiv W cost x.outPrice.min = some rc0 ∧ sc = 0 ∧ ps = 0 ∧ o + r + pc = out + rem ∧
      ((left = 0 ∧ pc = rc0) ∨ (left ≠ 0 ∧ o = 0 ∧ r = 0)) := by
  have hcons := payAmounts_conserves h
  unfold payAmounts at h
  simp only [hc, if_false] at h
  split at h
  · cases h
  · rename_i rc0 hrc
    refine ⟨rc0, hrc, ?_⟩
    have a := takeFrom_conserves out rc0
    split at h
    · cases h; exact ⟨rfl, rfl, hcons.1, Or.inl ⟨rfl, by omega⟩⟩
    · rename_i ha
      have b := takeFrom_conserves rem (takeFrom out rc0).2.2
      have ao : (takeFrom out rc0).1 = 0 := by
        unfold takeFrom at ha ⊢
        split
        · assumption
        · split
          · rename_i h1 h2; simp only [h1, h2, if_false, if_true] at ha; exact absurd trivial ha
          · rfl
      split at h
      · cases h
      · split at h
        · cases h; exact ⟨rfl, rfl, hcons.1, Or.inl ⟨rfl, by omega⟩⟩
        · rename_i hb
          have bo : (takeFrom rem (takeFrom out rc0).2.2).1 = 0 := by
            generalize (takeFrom out rc0).2.2 = need at hb ⊢
            unfold takeFrom at hb ⊢
            split
            · assumption
            · split
              · rename_i h1 h2; simp only [h1, h2, if_false, if_true] at hb; exact absurd trivial hb
              · rfl
          split at h
          · cases h
          · rename_i rs0 hrs
            obtain ⟨hd, hq, _⟩ := (C01.mulDiv_spec _ _ _ _ _).1 hrs
            have hrs0 : rs0 = (takeFrom rem (takeFrom out rc0).2.2).2.2 := by
              rw [hq, hsame]; exact Nat.mul_div_cancel _ (Nat.pos_of_ne_zero hp)
            have c0 : takeFrom 0 rs0 = (0, 0, rs0) := by unfold takeFrom; simp
            rw [c0] at h
            split at h
            · cases h
            · rename_i _ lf hlf
              simp only at hlf
              cases h
              have hl : left = rs0 * x.pnlPrice.min := by
                unfold checkedMul toU at hlf; split at hlf <;> cases hlf; rfl
              refine ⟨rfl, rfl, hcons.1, Or.inr ⟨?_, ao, bo⟩⟩
              rw [hl]
              exact Nat.mul_ne_zero (by omega) hd

/-- one generic payment step whose receiver leaves output/collateral/claimable alone. -/
theorem payForCost_same {W : Nat} {x : PCtx} {s : PState} {cost : Nat} {step : Step}
    {receive : PState → Nat → Nat → Nat → Option PState}
    (hrecv : ∀ s1 pc ps left s2, receive s1 pc ps left = some s2 →
      s2.out = s1.out ∧ s2.rem = s1.rem ∧ s2.sec = s1.sec ∧ s2.userOut = s1.userOut ∧ s2.userSec = s1.userSec)
    (hc : cost ≠ 0) (hsame : x.pnlPrice.min = x.outPrice.min) (hp : x.outPrice.min ≠ 0) (hs : s.sec = 0) :
    match payForCost W x s cost step receive with
    | .ok s' => s'.sec = 0 ∧ s'.userOut = s.userOut ∧ s'.userSec = s.userSec ∧
        ∃ rc0, roundUpDiv W cost x.outPrice.min = some rc0 ∧ s'.out + s'.rem + rc0 = s.out + s.rem
    | .short _ s' => s'.sec = 0 ∧ s'.userOut = s.userOut ∧ s'.userSec = s.userSec ∧ s'.out = 0 ∧ s'.rem = 0
    | .err _ => True := by
  unfold payForCost
  cases hd : doPayForCost W x s cost with
  | none => trivial
  | some q =>
    obtain ⟨s1, pc, ps, left⟩ := q
    simp only
    cases hr : receive s1 pc ps left with
    | none => trivial
    | some s2 =>
      simp only
      obtain ⟨e1, e2, e3, e4, e5⟩ := hrecv _ _ _ _ _ hr
      unfold doPayForCost at hd
      split at hd
      · cases hd
      · rename_i o r sc pc' ps' left' hpa
        cases hd
        rw [hs] at hpa
        obtain ⟨rc0, hrc, hsc, hps, hsum, hcase⟩ := payAmounts_same hpa hc hsame hp
        simp only at e1 e2 e3 e4 e5
        rcases hcase with ⟨hl, hpc⟩ | ⟨hl, ho, hr0⟩
        · simp only [hl, ne_eq, not_true_eq_false, if_false]
          exact ⟨by omega, e4, e5, rc0, hrc, by omega⟩
        · simp only [hl, ne_eq, not_false_eq_true, if_true]
          exact ⟨by omega, e4, e5, by omega, by omega⟩


/-- outcome of one same-token payment step of `n` tokens. -/
def Paid (s : PState) (r : PRes) (n : Nat) : Prop :=
  match r with
  | .ok s' => s'.sec = 0 ∧ s'.userOut = s.userOut ∧ s'.userSec = s.userSec ∧ s'.out + s'.rem + n = s.out + s.rem
  | .short _ s' => s'.sec = 0 ∧ s'.userOut = s.userOut ∧ s'.userSec = s.userSec ∧ s'.out = 0 ∧ s'.rem = 0
  | .err _ => True

theorem Paid.refl (s : PState) (hs : s.sec = 0) : Paid s (.ok s) 0 := ⟨hs, rfl, rfl, rfl⟩

theorem payForCost_paid {W : Nat} {x : PCtx} {s : PState} {cost : Nat} {step : Step}
    {receive : PState → Nat → Nat → Nat → Option PState}
    (hrecv : ∀ s1 pc ps left s2, receive s1 pc ps left = some s2 →
      s2.out = s1.out ∧ s2.rem = s1.rem ∧ s2.sec = s1.sec ∧ s2.userOut = s1.userOut ∧ s2.userSec = s1.userSec)
    (hc : cost ≠ 0) (hsame : x.pnlPrice.min = x.outPrice.min) (hp : x.outPrice.min ≠ 0) (hs : s.sec = 0) :
    Paid s (payForCost W x s cost step receive) (ceilDiv cost x.outPrice.min) := by
  have h := payForCost_same (W := W) (x := x) (s := s) (step := step) hrecv hc hsame hp hs
  unfold Paid
  split <;> rename_i heq <;> rw [heq] at h <;> simp only at h
  · obtain ⟨a, b, c, rc0, hrc, e⟩ := h
    obtain ⟨_, hr, _⟩ := C01.roundUpDiv_sound hrc
    exact ⟨a, b, c, by omega⟩
  · exact h
  · trivial

theorem recvToPool_keep {W : Nat} {x : PCtx} (s1 : PState) (pc ps left : Nat) (s2 : PState)
    (h : recvToPool W x s1 pc ps = some s2) :
    s2.out = s1.out ∧ s2.rem = s1.rem ∧ s2.sec = s1.sec ∧ s2.userOut = s1.userOut ∧ s2.userSec = s1.userSec := by
  unfold recvToPool at h
  cases hp : payToPrimaryPool W x s1.m pc ps with
  | none => simp [hp] at h
  | some m => simp only [hp, Option.map, Option.some.injEq] at h; subst h; exact ⟨rfl, rfl, rfl, rfl, rfl⟩

theorem recvImpact_keep {W : Nat} {x : PCtx} (s1 : PState) (pc ps left : Nat) (s2 : PState)
    (h : recvImpact W x s1 pc ps = some s2) :
    s2.out = s1.out ∧ s2.rem = s1.rem ∧ s2.sec = s1.sec ∧ s2.userOut = s1.userOut ∧ s2.userSec = s1.userSec := by
  unfold recvImpact at h
  repeat' (split at h)
  all_goals first | (cases h; done) | skip
  cases h; exact ⟨rfl, rfl, rfl, rfl, rfl⟩

theorem recvFunding_keep {W fa : Nat} (s1 : PState) (pc ps left : Nat) (s2 : PState)
    (h : recvFunding W fa s1 pc ps = some s2) :
    s2.out = s1.out ∧ s2.rem = s1.rem ∧ s2.sec = s1.sec ∧ s2.userOut = s1.userOut ∧ s2.userSec = s1.userSec := by
  unfold recvFunding at h
  split at h
  · cases h
  · cases h; exact ⟨rfl, rfl, rfl, rfl, rfl⟩

theorem payForPnl_paid {W : Nat} {x : PCtx} {s : PState} {pnl : Int}
    (hsame : x.pnlPrice.min = x.outPrice.min) (hp : x.outPrice.min ≠ 0) (hs : s.sec = 0) :
    Paid s (payForPnl W x s pnl) (if pnl < 0 then ceilDiv pnl.natAbs x.outPrice.min else 0) := by
  unfold payForPnl
  split
  · exact payForCost_paid (fun s1 pc ps left s2 h => recvToPool_keep s1 pc ps left s2 h) (by omega) hsame hp hs
  · exact Paid.refl s hs

theorem payForImpact_paid {W : Nat} {x : PCtx} {s : PState} {impact : Int}
    (hsame : x.pnlPrice.min = x.outPrice.min) (hp : x.outPrice.min ≠ 0) (hs : s.sec = 0) :
    Paid s (payForImpact W x s impact) (if impact < 0 then ceilDiv impact.natAbs x.outPrice.min else 0) := by
  unfold payForImpact
  split
  · exact payForCost_paid (fun s1 pc ps left s2 h => recvImpact_keep s1 pc ps left s2 h) (by omega) hsame hp hs
  · exact Paid.refl s hs

theorem payForFunding_paid {W : Nat} {x : PCtx} {s : PState} {fa : Nat}
    (hsame : x.pnlPrice.min = x.outPrice.min) (hp : x.outPrice.min ≠ 0) (hs : s.sec = 0) :
    ∃ n, Paid s (payForFunding W x s fa) n := by
  unfold payForFunding
  split
  · exact ⟨0, Paid.refl s hs⟩
  · split
    · exact ⟨0, trivial⟩
    · rename_i cost hcost
      have hc : cost ≠ 0 := by
        unfold checkedMul toU at hcost; split at hcost <;> cases hcost
        exact Nat.mul_ne_zero (by assumption) hp
      exact ⟨_, payForCost_paid (fun s1 pc ps left s2 h => recvFunding_keep s1 pc ps left s2 h) hc hsame hp hs⟩

theorem payForFees_paid {W : Nat} {x : PCtx} {s : PState} {fees : PosFees}
    (hsame : x.pnlPrice.min = x.outPrice.min) (hp : x.outPrice.min ≠ 0) (hs : s.sec = 0) :
    ∃ n, Paid s (payForFees W x s fees).1 n := by
  unfold payForFees
  split
  · exact ⟨0, trivial⟩
  · split
    · exact ⟨0, Paid.refl s hs⟩
    · split
      · exact ⟨0, trivial⟩
      · rename_i cost hcost
        have hc : cost ≠ 0 := by
          unfold checkedMul toU at hcost; split at hcost <;> cases hcost
          exact Nat.mul_ne_zero (by assumption) hp
        split
        · exact ⟨0, trivial⟩
        · rename_i s1 pc ps left hd
          unfold doPayForCost at hd
          split at hd
          · cases hd
          · rename_i o r sc pc' ps' left' hpa
            cases hd
            rw [hs] at hpa
            obtain ⟨rc0, hrc, hsc, hps, hsum, hcase⟩ := payAmounts_same hpa hc hsame hp
            split
            · rename_i hl
              split
              · split
                · exact ⟨0, trivial⟩
                · split
                  · exact ⟨0, trivial⟩
                  · refine ⟨pc, ?_⟩
                    exact ⟨hsc, rfl, rfl, hsum⟩
              · exact ⟨0, trivial⟩
            · split
              · exact ⟨0, trivial⟩
              · rcases hcase with ⟨hl, hpc⟩ | ⟨hl, ho, hr0⟩
                · simp only [hl, ne_eq, not_true_eq_false, if_false]
                  exact ⟨pc, hsc, rfl, rfl, hsum⟩
                · simp only [hl, ne_eq, not_false_eq_true, if_true]
                  exact ⟨0, hsc, rfl, rfl, ho, hr0⟩

/-- the price impact diff moves from output/collateral to the user's claimable: nothing leaves the trader. -/
theorem payForDiff_tr {W : Nat} {x : PCtx} {s s' : PState} {diff : Nat}
    (hsame : x.pnlPrice.min = x.outPrice.min) (hp : x.outPrice.min ≠ 0) (hs : s.sec = 0)
    (h : (payForDiff W x s diff).st = some s') : s'.sec = 0 ∧ s'.userSec = s.userSec ∧ tr s' = tr s := by
  unfold payForDiff at h
  split at h
  · simp only [PRes.st, Option.some.injEq] at h; subst h; exact ⟨hs, rfl, rfl⟩
  · rename_i hc
    obtain ⟨s1, pc, ps, left, hd, hr⟩ := payForCost_inv h
    unfold doPayForCost at hd
    split at hd
    · cases hd
    · rename_i o r sc pc' ps' left' hpa
      cases hd
      rw [hs] at hpa
      obtain ⟨rc0, hrc, hsc, hps, hsum, _⟩ := payAmounts_same hpa hc hsame hp
      unfold recvDiff at hr
      split at hr
      · rename_i a b ha hb
        cases hr
        have ea := checkedAdd_some ha
        have eb := checkedAdd_some hb
        simp only at ea eb
        unfold tr
        simp only
        exact ⟨hsc, by omega, by omega⟩
      · cases hr


theorem addPnlTokenAmount_tr {W : Nat} {x : PCtx} {s s' : PState} {a : Nat} (hx : x.same = true)
    (h : addPnlTokenAmount W x s a = some s') :
    s'.out = s.out + a ∧ s'.rem = s.rem ∧ s'.sec = s.sec ∧ s'.userOut = s.userOut ∧ s'.userSec = s.userSec := by
  unfold addPnlTokenAmount at h
  simp only [hx, if_true] at h
  cases hc : checkedAdd W s.out a with
  | none => simp [hc] at h
  | some v =>
    simp only [hc, Option.map, Option.some.injEq] at h
    subst h
    exact ⟨checkedAdd_some hc, rfl, rfl, rfl, rfl⟩

theorem addPnlIfPositive_tr {W : Nat} {x : PCtx} {s s' : PState} {pnl : Int} (hx : x.same = true)
    (h : addPnlIfPositive W x s pnl = some s') :
    s'.out = s.out + (if pnl > 0 then pnl.natAbs / x.pnlPrice.max else 0) ∧ s'.rem = s.rem ∧ s'.sec = s.sec ∧
      s'.userOut = s.userOut ∧ s'.userSec = s.userSec := by
  unfold addPnlIfPositive at h
  split at h
  · rename_i hpos
    rw [if_pos hpos]
    split at h
    · cases h
    · rename_i d hd
      split at h
      · cases h
      · have := addPnlTokenAmount_tr hx h
        have ed : d = pnl.natAbs / x.pnlPrice.max := by
          unfold checkedDiv at hd; split at hd <;> cases hd; rfl
        simp only at this
        rw [ed] at this
        exact this
  · rename_i hneg
    rw [if_neg hneg]
    cases h; exact ⟨rfl, rfl, rfl, rfl, rfl⟩

theorem addImpactIfPositive_tr {W : Nat} {x : PCtx} {s s' : PState} {impact : Int} (hx : x.same = true)
    (h : addImpactIfPositive W x s impact = some s') :
    s'.out = s.out + (if impact > 0 then impact.natAbs / x.pnlPrice.max else 0) ∧ s'.rem = s.rem ∧ s'.sec = s.sec ∧
      s'.userOut = s.userOut ∧ s'.userSec = s.userSec := by
  unfold addImpactIfPositive at h
  split at h
  · rename_i hpos
    rw [if_pos hpos]
    repeat' (split at h)
    all_goals first | (cases h; done) | skip
    rename_i d hd _ _ _
    have := addPnlTokenAmount_tr hx h
    have ed : d = impact.natAbs / x.pnlPrice.max := by
      unfold checkedDiv at hd; split at hd <;> cases hd; rfl
    simp only at this
    rw [ed] at this
    exact this
  · rename_i hneg
    rw [if_neg hneg]
    cases h; exact ⟨rfl, rfl, rfl, rfl, rfl⟩

/-- tokens credited to the trader for a positive pnl and a positive price impact. -/
def creditTokens (pnl impact : Int) (pmax : Nat) : Nat :=
  (if pnl > 0 then pnl.natAbs / pmax else 0) + (if impact > 0 then impact.natAbs / pmax else 0)

/-- tokens charged to the trader for a negative pnl and a negative (capped) price impact. -/
def chargeTokens (pnl impact : Int) (pmin : Nat) : Nat :=
  (if pnl < 0 then ceilDiv pnl.natAbs pmin else 0) + (if impact < 0 then ceilDiv impact.natAbs pmin else 0)

/-- **what the trader keeps through `process_collateral`** (pnl token = collateral token): output
+ remaining collateral + claimable is at most the collateral plus the credited tokens minus the
charged ones — or it is nothing at all (insolvent close). Fees and funding only lower it; the
price impact diff moves to the trader's claimable account. -/
theorem processCollateral_receipt {W : Nat} {x : PCtx} {s0 s : PState} {pnl impact : Int} {diff : Nat}
    {fees f : PosFees} {ins : Bool} {st : Option Step} (hx : x.same = true)
    (hsame : x.pnlPrice.min = x.outPrice.min) (hp : x.outPrice.min ≠ 0)
    (h0 : s0.sec = 0 ∧ s0.userOut = 0 ∧ s0.userSec = 0)
    (h : processCollateral W x s0 pnl impact diff fees ins = .ok (s, f, st)) :
    s.sec = 0 ∧ s.userSec = 0 ∧
    (tr s + chargeTokens pnl impact x.outPrice.min ≤ s0.out + s0.rem + creditTokens pnl impact x.pnlPrice.max ∨ tr s = 0) := by
  unfold processCollateral at h
  simp only at h
  have stopE : ∀ (step : Step) (s' : PState) (f' : PosFees),
      (if ins = true then (Except.ok (s', f', some step) : Except PErr _) else .error (.insufficient step)) = .ok (s, f, st) →
      s' = s := by
    intro step s' f' hh
    split at hh
    · cases hh; rfl
    · cases hh
  split at h
  · cases h
  · rename_i s1 hs1
    cases ha : addPnlIfPositive W x s0 pnl with
    | none => simp [ha] at hs1
    | some sa =>
      simp only [ha, Option.bind] at hs1
      obtain ⟨a1, a2, a3, a4, a5⟩ := addPnlIfPositive_tr hx ha
      obtain ⟨b1, b2, b3, b4, b5⟩ := addImpactIfPositive_tr hx hs1
      have hs1sec : s1.sec = 0 := by omega
      have hs1u : s1.userOut = 0 ∧ s1.userSec = 0 := ⟨by omega, by omega⟩
      have hs1v : s1.out + s1.rem = s0.out + s0.rem + creditTokens pnl impact x.pnlPrice.max := by
        unfold creditTokens; omega
      obtain ⟨n2, p2⟩ := payForFunding_paid (W := W) (x := x) (s := s1) (fa := fees.fundAmount) hsame hp hs1sec
      unfold Paid at p2
      split at h
      · cases h
      · rename_i step s' heq
        rw [heq] at p2; simp only at p2
        have := stopE _ _ _ h; subst this
        exact ⟨p2.1, by omega, Or.inr (by unfold tr; omega)⟩
      · rename_i s2 heq
        rw [heq] at p2; simp only at p2
        obtain ⟨c1, c2, c3, c4⟩ := p2
        have p3 := payForPnl_paid (W := W) (x := x) (s := s2) (pnl := pnl) hsame hp c1
        unfold Paid at p3
        split at h
        · cases h
        · rename_i step s' heq3
          rw [heq3] at p3; simp only at p3
          have := stopE _ _ _ h; subst this
          exact ⟨p3.1, by omega, Or.inr (by unfold tr; omega)⟩
        · rename_i s3 heq3
          rw [heq3] at p3; simp only at p3
          obtain ⟨d1, d2, d3, d4⟩ := p3
          obtain ⟨n4, p4⟩ := payForFees_paid (W := W) (x := x) (s := s3) (fees := fees) hsame hp d1
          unfold Paid at p4
          split at h
          · cases h
          · rename_i step s' f' heq4
            rw [heq4] at p4; simp only at p4
            have := stopE _ _ _ h; subst this
            exact ⟨p4.1, by omega, Or.inr (by unfold tr; omega)⟩
          · rename_i s4 f4 heq4
            rw [heq4] at p4; simp only at p4
            obtain ⟨e1, e2, e3, e4⟩ := p4
            have p5 := payForImpact_paid (W := W) (x := x) (s := s4) (impact := impact) hsame hp e1
            unfold Paid at p5
            split at h
            · cases h
            · rename_i step s' heq5
              rw [heq5] at p5; simp only at p5
              have := stopE _ _ _ h; subst this
              exact ⟨p5.1, by omega, Or.inr (by unfold tr; omega)⟩
            · rename_i s5 heq5
              rw [heq5] at p5; simp only at p5
              obtain ⟨g1, g2, g3, g4⟩ := p5
              have fin : ∀ s6, (payForDiff W x s5 diff).st = some s6 →
                  s6.sec = 0 ∧ s6.userSec = 0 ∧
                  (tr s6 + chargeTokens pnl impact x.outPrice.min ≤ s0.out + s0.rem + creditTokens pnl impact x.pnlPrice.max ∨ tr s6 = 0) := by
                intro s6 h6
                obtain ⟨k1, k2, k3⟩ := payForDiff_tr hsame hp g1 h6
                refine ⟨k1, by omega, Or.inl ?_⟩
                rw [k3]
                unfold tr chargeTokens
                omega
              split at h
              · cases h
              · rename_i step s' heq6
                have := stopE _ _ _ h; subst this
                exact fin _ (by rw [heq6]; rfl)
              · rename_i s6 heq6
                cases h
                exact fin _ (by rw [heq6]; rfl)


/-- **what the trader receives from a decrease** when pnl and collateral tokens coincide: all four
outputs together are at most the position's collateral plus the credited tokens minus the charged
ones (or nothing at all). -/
theorem decrease_receipt {W U : Nat} {m m' : Market} {c : PerpCfg} {pr : Prices} {p p' : Pos} {sd0 wd : Nat}
    {fl : DecreaseFlags} {r : DecreaseReport} (h : decrease W U m c pr p sd0 wd fl = .ok (m', p', r))
    (hs : p.isLong = p.collLong) :
    r.output + r.secondary + r.userOut + r.userSec + chargeTokens r.pnl r.impactValue (pr.collateral p.collLong).min
        ≤ p.collateral + creditTokens r.pnl r.impactValue (pr.collateral p.collLong).max ∨
    r.output + r.secondary + r.userOut + r.userSec = 0 := by
  obtain ⟨s, fees0, ins, rem, out0, out1, hproc, hset, hrem, hout0, e1, e2, e3, e4, e5, hos, hdiff, hval⟩ := decrease_parts2 h
  have hpm : (pr.collateral p.collLong).min ≠ 0 := by
    unfold Prices.isValid at hval
    simp only [Bool.and_eq_true] at hval
    unfold Prices.collateral
    split
    · exact price_valid_min hval.1.2
    · exact price_valid_min hval.2
  have hx : ({ pr := pr, outLong := p.collLong, pnlLong := p.isLong, same := (p.isLong == p.collLong) } : PCtx).same = true := by
    simp [hs]
  have hrc := processCollateral_receipt (x := { pr := pr, outLong := p.collLong, pnlLong := p.isLong, same := (p.isLong == p.collLong) })
    hx (by simp only [PCtx.pnlPrice, PCtx.outPrice, hs]) hpm ⟨rfl, rfl, rfl⟩ hproc
  obtain ⟨hsec, husec, hcase⟩ := hrc
  obtain ⟨_, _, _, _, _, q6, q7⟩ := settleDecrease_pos hset
  have hsum : out1 ≤ s.out + s.rem := by
    cases hrm : r.shouldRemove
    · obtain ⟨_, _, a, b⟩ := q7 hrm; omega
    · obtain ⟨_, _, a, b⟩ := q6 hrm; omega
  simp only [PCtx.pnlPrice, PCtx.outPrice, hs] at hcase
  unfold tr at hcase
  rcases hcase with hc | hc
  · left; omega
  · right; omega

/-- floor ≤ ceiling. -/
theorem div_le_ceilDiv (a p : Nat) (hp : p ≠ 0) : a / p ≤ ceilDiv a p := by
  have := (C01.ceil_char a p hp).1
  exact Nat.div_le_of_le_mul (by rw [Nat.mul_comm]; exact this)

/-- tokens: if pnl and impact (USD) sum to at most one unit, the tokens credited (floor, at the max
price) exceed the tokens charged (ceiling, at the min price) by at most one. -/
theorem credit_le_charge_succ (pnl impact : Int) (pmin pmax : Nat) (hp : pmin ≤ pmax) (h0 : pmin ≠ 0)
    (h : pnl + impact ≤ 1) : creditTokens pnl impact pmax ≤ chargeTokens pnl impact pmin + 1 := by
  have hmax : pmax ≠ 0 := by omega
  have key : ∀ n a : Nat, n ≤ a + 1 → n / pmax ≤ ceilDiv a pmin + 1 := by
    intro n a hna
    have h1 : n / pmax ≤ (a + pmax) / pmax := Nat.div_le_div_right (by omega)
    have h2 : (a + pmax) / pmax = a / pmax + 1 := Nat.add_div_right a (Nat.pos_of_ne_zero hmax)
    have h3 : a / pmax ≤ a / pmin := Nat.div_le_div_left hp (Nat.pos_of_ne_zero h0)
    have h4 := div_le_ceilDiv a pmin h0
    omega
  have one : ∀ n : Nat, n ≤ 1 → n / pmax ≤ 1 := fun n hn => Nat.le_trans (Nat.div_le_self _ _) hn
  unfold creditTokens chargeTokens
  by_cases hp1 : pnl > 0 <;> by_cases hi1 : impact > 0
  · omega
  · have hn : ¬ pnl < 0 := by omega
    simp only [hp1, hi1, hn, if_true, if_false]
    by_cases hi2 : impact < 0
    · simp only [hi2, if_true]
      have := key pnl.natAbs impact.natAbs (by omega)
      omega
    · simp only [hi2, if_false]
      have := one pnl.natAbs (by omega)
      omega
  · have hn : ¬ impact < 0 := by omega
    simp only [hp1, hi1, hn, if_true, if_false]
    by_cases hp2 : pnl < 0
    · simp only [hp2, if_true]
      have := key impact.natAbs pnl.natAbs (by omega)
      omega
    · simp only [hp2, if_false]
      have := one impact.natAbs (by omega)
      omega
  · simp only [hp1, hi1, if_false]
    omega


/-! ### exposing the two legs -/

/-- the execution parameters an increase used, and: the collateral delta is at most the tokens paid in. -/
theorem increaseCore_exec {W U : Nat} {m m' : Market} {c : PerpCfg} {pr : Prices} {p p' : Pos} {ci sd : Nat}
    {r : IncreaseReport} (h : increaseCore W U m c pr p ci sd = .ok (m', p', r)) :
    (∃ bc, increaseExecution W U m c pr p.isLong sd = .ok (r.impactValue, bc, r.impactAmount, r.sizeDeltaTokens)) ∧
    r.collateralDelta ≤ ci := by
  unfold increaseCore at h
  expose_do h
  all_goals
    (cases h
     have hexec := ‹increaseExecution _ _ _ _ _ _ _ = Except.ok _›
     have hinc := Lem.toSigned_some (orF_ok ‹orF (toSigned W ci) = Except.ok _›)
     have htot := orF_ok ‹orF ((PosFees.totalCost W _).bind (toSigned W)) = Except.ok _›
     have hcd := Lem.toI_some (orF_ok ‹orF (toI W (_ - _)) = Except.ok _›)
     refine ⟨⟨_, hexec⟩, ?_⟩
     cases ht : PosFees.totalCost W _ with
     | none => rw [ht] at htot; cases htot
     | some tc =>
       rw [ht] at htot; simp only [Option.bind] at htot
       have e1 := Lem.toSigned_some htot
       dsimp only
       omega)

theorem toOppositeSigned_some {W n : Nat} {z : Int} (h : toOppositeSigned W n = some z) : z = -(n : Int) := by
  unfold toOppositeSigned at h
  cases ht : toSigned W n with
  | none => simp [ht] at h
  | some y => simp [ht] at h; have := toSigned_some ht; omega

/-- the token arithmetic of `get_execution_params` of an increase. -/
theorem increaseExecution_tokens {W U : Nat} {m : Market} {c : PerpCfg} {pr : Prices} {isLong : Bool} {sd t : Nat}
    {iv amt : Int} {bc : BalanceChange} (h : increaseExecution W U m c pr isLong sd = .ok (iv, bc, amt, t)) (hsd : sd ≠ 0) :
    ((0 < iv → amt = Int.tdiv iv pr.index.max) ∧ (iv ≤ 0 → amt ≤ 0 ∧ -iv ≤ -amt * pr.index.min)) ∧
    (if isLong then (t : Int) = (sd / pr.index.max : Nat) + amt else (t : Int) = (ceilDiv sd pr.index.min : Nat) - amt) ∧
    ∃ iv0, positionPriceImpact W U m isLong (sd : Int) true = some (iv0, bc) ∧
      capPositiveImpact W U m c pr.index (sd : Int) iv0 = some iv := by
  unfold increaseExecution at h
  simp only [hsd, if_false] at h
  split at h
  · cases h
  · rename_i sdS hsdS
    have := toSigned_some hsdS; subst this
    split at h
    · cases h
    · rename_i iv0 bc0 himp
      split at h
      · cases h
      · rename_i ivc hcap
        split at h
        · rename_i amt0 b hamt hb
          split at h
          · cases h
          · rename_i t0 ht0
            split at h
            · cases h
            · cases h
              refine ⟨⟨fun hpos => ?_, fun hnp => ?_⟩, ?_, iv0, himp, hcap⟩
              · simp only [hpos, if_true] at hamt
                cases hz : toSigned W pr.index.max with
                | none => simp [hz] at hamt
                | some pz =>
                  simp only [hz, Option.bind] at hamt
                  have := toSigned_some hz; subst this
                  split at hamt
                  · cases hamt
                  · exact toI_some hamt
              · have hn : ¬ iv > 0 := by omega
                simp only [hn, if_false] at hamt
                obtain ⟨hk, habs, hge, hle⟩ := C01.roundUpMagnitudeDiv_spec hamt
                have hc := (C01.ceil_char iv.natAbs pr.index.min hk).1
                rw [← habs] at hc
                by_cases hz : iv = 0
                · subst hz
                  have : ceilDiv (0 : Int).natAbs pr.index.min = 0 := by
                    unfold ceilDiv; simp; omega
                  rw [this] at habs
                  have : amt = 0 := by omega
                  subst this; simp
                · have hle' := hle (by omega)
                  refine ⟨hle', ?_⟩
                  have e1 : ((amt.natAbs * pr.index.min : Nat) : Int) = -amt * pr.index.min := by
                    rw [Int.natCast_mul]
                    have : (amt.natAbs : Int) = -amt := by omega
                    rw [this]
                  have e2 : ((iv.natAbs : Nat) : Int) = -iv := by omega
                  have : ((iv.natAbs : Nat) : Int) ≤ ((amt.natAbs * pr.index.min : Nat) : Int) := by exact_mod_cast hc
                  omega
              · cases isLong
                · simp only [Bool.false_eq_true, if_false] at hb ht0 ⊢
                  obtain ⟨_, hr, _⟩ := C01.roundUpDiv_sound hb
                  have := C01.checkedSubWithSigned_spec ht0
                  rw [hr] at this; omega
                · simp only [if_true] at hb ht0 ⊢
                  have hr : b = sd / pr.index.max := by
                    unfold checkedDiv at hb; split at hb <;> cases hb; rfl
                  have := C01.checkedAddWithSigned_spec ht0
                  rw [hr] at this; omega
        · cases h

/-- the impact values a (non-zero) decrease used. -/
theorem decrease_impact {W U : Nat} {m m' : Market} {c : PerpCfg} {pr : Prices} {p p' : Pos} {sd0 wd : Nat}
    {fl : DecreaseFlags} {r : DecreaseReport} (h : decrease W U m c pr p sd0 wd fl = .ok (m', p', r))
    (hnz : r.sizeDelta ≠ 0) :
    ∃ i0 bc i1, positionPriceImpact W U m p.isLong (-(r.sizeDelta : Int)) true = some (i0, bc) ∧
      capPositiveImpact W U m c pr.index (-(r.sizeDelta : Int)) i0 = some i1 ∧
      capNegativeImpact W U c (-(r.sizeDelta : Int)) false i1 = some (r.impactValue, r.impactDiff) := by
  unfold decrease at h
  expose_do h
  all_goals
    (cases h
     simp only at hnz
     have hneg := toOppositeSigned_some (orF_ok ‹orF (toOppositeSigned W _) = Except.ok _›)
     subst hneg
     have hx := ‹(if _ = 0 then _ else _) = Except.ok _›
     simp only [hnz, if_false] at hx
     repeat' (split at hx)
     all_goals first | (cases hx; done) | skip
     all_goals
       (cases hx
        exact ⟨_, _, _, orF_ok ‹orF (positionPriceImpact _ _ _ _ _ _) = Except.ok _›,
          orF_ok ‹orF (capPositiveImpact _ _ _ _ _ _ _) = Except.ok _›,
          orF_ok ‹orF (capNegativeImpact _ _ _ _ _ _) = Except.ok _›⟩))

/-- the pnl realised by a full close is at most the uncapped total at the price picked against the trader. -/
theorem full_close_pnl_le {W U : Nat} {m : Market} {pr : Prices} {p : Pos} {pnl upnl : Int} {sdt : Nat}
    (h : posPnl W U m pr p p.sizeUsd = .ok (pnl, upnl, sdt)) :
    pnl ≤ (if p.isLong then ((p.sizeTokens : Int) * pr.index.min) - p.sizeUsd else (p.sizeUsd : Int) - p.sizeTokens * pr.index.max) := by
  unfold posPnl at h
  have h' := orF_ok h
  have h1 := (C11.credited_le_uncapped h').1
  obtain ⟨un, tot, hu, _, _, _, hfull⟩ := C11.partial_close_proportional h'
  have e := (hfull rfl).2
  have hf := uncappedTotalPnl_eq hu
  subst e
  cases hl : p.isLong
  · rw [hl] at hf
    simp only [Bool.false_eq_true, if_false, pickPriceForPnl] at hf ⊢
    rw [hf] at h1
    simp at h1 ⊢
    exact h1
  · rw [hl] at hf
    simp only [if_true, pickPriceForPnl] at hf ⊢
    rw [hf] at h1
    simp at h1 ⊢
    exact h1


/-- **opening a fresh position and closing it at once at the same prices returns at most the
deposit plus one token unit** (pnl token = collateral token, positive impact cap factor ≤ negative
one). The one remaining link is taken as a hypothesis: the uncapped impacts of the opening (on
the market before) and of the closing (on the market after the opening) sum to at most one unit —
which is `C03.roundtrip_le_one` once the closing's pool delta is identified with the reverse of
the opening's (no virtual inventory; open interest after = open interest before + size). -/
theorem open_close_bound {W U : Nat} {m m1 m2 : Market} {c : PerpCfg} {pr : Prices} {p0 p1 p2 : Pos} {ci S : Nat}
    {r1 : IncreaseReport} {r2 : DecreaseReport} {fl : DecreaseFlags}
    (hinc : increase W U m c pr p0 ci S = .ok (m1, p1, r1))
    (hfresh : p0.sizeUsd = 0 ∧ p0.collateral = 0) (hS : S ≠ 0) (hsame : p0.isLong = p0.collLong)
    (hdec : decrease W U m1 c pr p1 S 0 fl = .ok (m2, p2, r2))
    (hcap : c.maxPosImpactFactor ≤ c.maxNegImpactFactor)
    (hidx : pr.index.min ≤ pr.index.max) (hcp : (pr.collateral p0.collLong).min ≤ (pr.collateral p0.collLong).max)
    (hxy : ∀ x y bx by', positionPriceImpact W U m p0.isLong (S : Int) true = some (x, bx) →
      positionPriceImpact W U m1 p0.isLong (-(S : Int)) true = some (y, by') → x + y ≤ 1) :
    r2.output + r2.secondary + r2.userOut + r2.userSec ≤ ci + 1 := by
  -- the opening
  unfold increase at hinc
  split at hinc
  · cases hinc
  · have hp : (initIfEmpty p0 m).isLong = p0.isLong ∧ (initIfEmpty p0 m).collLong = p0.collLong ∧
        (initIfEmpty p0 m).sizeUsd = 0 ∧ (initIfEmpty p0 m).sizeTokens = 0 ∧ (initIfEmpty p0 m).collateral = 0 := by
      unfold initIfEmpty
      simp [hfresh.1, hfresh.2, Pos.syncFunding]
    obtain ⟨pl, pc, ps, pt, pcoll⟩ := hp
    obtain ⟨_, _, b1, b2, b3, b4, b5⟩ := increaseCore_book hinc
    obtain ⟨⟨bc, hexec⟩, hcd⟩ := increaseCore_exec hinc
    rw [pl] at hexec
    obtain ⟨hamt, hT, iv0, himp, hcapP⟩ := increaseExecution_tokens hexec hS
    rw [pl] at b1; rw [pc] at b2; rw [ps] at b3; rw [pt] at b4; rw [pcoll] at b5
    have hsz : p1.sizeUsd = S := by omega
    have htk : p1.sizeTokens = r1.sizeDeltaTokens := by omega
    have hcoll : p1.collateral ≤ ci := by omega
    -- the closing is a full close
    obtain ⟨sd1, wd0, wd1, hadj, hle, _⟩ := decrease_adjusted hdec
    have e1 : sd1 = S := hle (by omega)
    rw [e1, ← hsz] at hadj
    have hfull : r2.sizeDelta = p1.sizeUsd := adjustDecrease_full hadj
    obtain ⟨_, _, _, _, _, _, _, _, hpnl, _, _⟩ := decrease_parts hdec
    rw [hfull] at hpnl
    have hpl := full_close_pnl_le hpnl
    obtain ⟨_, _, _, _, _, _, _, _, _, _, _, _, _, _, _, _, _, hval⟩ := decrease_parts2 hdec
    have hi0 : pr.index.min ≠ 0 := by
      unfold Prices.isValid at hval
      simp only [Bool.and_eq_true] at hval
      exact price_valid_min hval.1.1
    have hpi := close_pnl_le_open_impact p0.isLong S r1.sizeDeltaTokens pr.index.min pr.index.max r1.impactValue
      r1.impactAmount hidx hi0 hamt hT
    rw [b1, hsz, htk] at hpl
    have hpnl1 : r2.pnl ≤ r1.impactValue := Int.le_trans hpl hpi
    -- the closing's impact
    have hnz : r2.sizeDelta ≠ 0 := by omega
    obtain ⟨i0, bc2, i1, g1, g2, g3⟩ := decrease_impact hdec hnz
    rw [hfull, hsz] at g1 g2 g3
    rw [b1] at g1
    have hsum := hxy _ _ _ _ himp g1
    have hcapped := capped_roundtrip_le_one hsum hcap hcapP g2 g3
    have hlink : r2.pnl + r2.impactValue ≤ 1 := by omega
    -- what the trader receives
    have hrc := decrease_receipt hdec (by rw [b1, b2]; exact hsame)
    rw [b2] at hrc
    have hpm : (pr.collateral p0.collLong).min ≠ 0 := by
      unfold Prices.isValid at hval
      simp only [Bool.and_eq_true] at hval
      unfold Prices.collateral
      split
      · exact price_valid_min hval.1.2
      · exact price_valid_min hval.2
    have hct := credit_le_charge_succ r2.pnl r2.impactValue _ _ hcp hpm hlink
    rcases hrc with hc | hc <;> omega


/-! ### a compliant round trip (non-vacuity of `open_close_bound`) -/

/-- as `cPerp` with the caps the other way round: positive 0.5 %, negative 5 %. -/
def rtPerp : PerpCfg := { cPerp with maxPosImpactFactor := 5 * 10 ^ 6, maxNegImpactFactor := 5 * 10 ^ 7 }

/-- the round trip of `cOutcome` under `rtPerp`:
`(open impact, close impact, impact diff, output + secondary + claimable)` for a deposit of 100·10⁹. -/
def rtOutcome : Option (Int × Int × Nat × Nat) := do
  let (m1, p1, r1) ← (increase 64 (10 ^ 9) cM0 rtPerp wPrices { isLong := false, collLong := false } (100 * 10 ^ 9) (500 * 10 ^ 9)).toOption
  let (_, _, r2) ← (decrease 64 (10 ^ 9) m1 rtPerp wPrices p1 (500 * 10 ^ 9) 0 ⟨false, false, true⟩).toOption
  pure (r1.impactValue, r2.impactValue, r2.impactDiff, r2.output + r2.secondary + r2.userOut + r2.userSec)


/-! ### the closing's pool delta is the reverse of the opening's (no hypothesis left) -/

theorem applyDelta_cfg {W : Nat} {m m' : Market} {il : Bool} {d : Int} (h : m.applyDelta W il d = some m') : m'.cfg = m.cfg := by
  unfold Market.applyDelta at h
  split at h
  · cases h
  · split at h
    · cases h; rfl
    · split at h
      · cases h
      · cases h; rfl

theorem updateTotalBorrowingM_cfg {W U : Nat} {m m' : Market} {p : Pos} {a b : Nat}
    (h : updateTotalBorrowingM W U m p a b = .ok m') : m'.cfg = m.cfg := by
  unfold updateTotalBorrowingM at h
  split at h
  · cases h
  · cases h; rfl

theorem updateOpenInterest_cfg {W : Nat} {m m' : Market} {il cl : Bool} {a b : Int}
    (h : updateOpenInterest W m il cl a b = .ok m') : m'.cfg = m.cfg := by
  unfold updateOpenInterest at h
  split at h
  · cases h; rfl
  · repeat' (split at h)
    all_goals first | (cases h; done) | skip
    cases h
    unfold setOitPool setOiPool
    cases il <;> rfl

theorem setCollPool_cfg (m : Market) (il : Bool) (p : Pool) : (setCollPool m il p).cfg = m.cfg := by
  unfold setCollPool; cases il <;> rfl

/-- an increase does not touch the configuration. -/
theorem increaseCore_cfg {W U : Nat} {m m' : Market} {c : PerpCfg} {pr : Prices} {p p' : Pos} {ci sd : Nat}
    {r : IncreaseReport} (h : increaseCore W U m c pr p ci sd = .ok (m', p', r)) : m'.cfg = m.cfg := by
  unfold increaseCore at h
  expose_do h
  all_goals
    (cases h
     have hprim := applyDelta_cfg (orF_ok ‹orF (Market.applyDelta W _ p.collLong _) = Except.ok _›)
     have h5 := updateTotalBorrowingM_cfg ‹updateTotalBorrowingM _ _ _ _ _ _ = Except.ok _›
     have h6 := updateOpenInterest_cfg ‹updateOpenInterest _ _ _ _ _ _ = Except.ok _›
     rw [h6, h5]
     simp only [setCollPool_cfg]
     rw [hprim])

/-- what `position_price_impact` returns is at most the impact of the change on the real open
interest (the virtual inventory only ever replaces a negative impact by a more negative one). -/
theorem positionPriceImpact_le_real {W U : Nat} {m : Market} {isLong vi : Bool} {sd v : Int} {bc : BalanceChange}
    (h : positionPriceImpact W U m isLong sd vi = some (v, bc)) :
    ∃ ol os D x b, openInterest W m true = some ol ∧ openInterest W m false = some os ∧
      PoolDelta.tryNew W ol os (if isLong then sd else 0) (if isLong then 0 else sd) 1 1 = some D ∧
      D.priceImpact W U m.cfg.positionImpact = some (x, b) ∧ v ≤ x := by
  unfold positionPriceImpact at h
  simp only at h
  split at h
  · rename_i ol os hol hos
    cases hD : PoolDelta.tryNew W ol os (if isLong then sd else 0) (if isLong then 0 else sd) 1 1 with
    | none => simp [hD] at h
    | some D =>
      simp only [hD, Option.bind] at h
      cases hx : D.priceImpact W U m.cfg.positionImpact with
      | none => simp [hx] at h
      | some xb =>
        obtain ⟨x, b⟩ := xb
        simp only [hx] at h
        refine ⟨ol, os, D, x, b, hol, hos, hD, hx, ?_⟩
        split at h
        · cases h; exact Int.le_refl _
        · repeat' (split at h)
          all_goals first | (cases h; done) | skip
          all_goals first | (cases h; exact Int.le_refl _) | skip
          all_goals (cases h; omega)
  · cases h

theorem tryNew_fields {W a b : Nat} {dL dS : Int} {D : PoolDelta} (h : PoolDelta.tryNew W a b dL dS 1 1 = some D) :
    D.curL = a ∧ D.curS = b ∧ (D.nextL : Int) = a + dL ∧ (D.nextS : Int) = b + dS := by
  unfold PoolDelta.tryNew at h
  repeat' (split at h)
  all_goals first | (cases h; done) | skip
  rename_i _ cl hcl _ cs hcs _ nl hnl _ ns hns
  cases h
  have e1 : cl = a := by unfold checkedMul toU at hcl; split at hcl <;> cases hcl; omega
  have e2 : cs = b := by unfold checkedMul toU at hcs; split at hcs <;> cases hcs; omega
  have e3 := C01.checkedAddWithSigned_spec hnl
  have e4 := C01.checkedAddWithSigned_spec hns
  subst e1; subst e2
  refine ⟨rfl, rfl, ?_, ?_⟩ <;> dsimp only <;> omega


/-- open interest of both sides after an increase: the position's side grew by the size. -/
theorem increaseCore_openInterest {W U : Nat} {m m' : Market} {c : PerpCfg} {pr : Prices} {p p' : Pos} {ci sd : Nat}
    {r : IncreaseReport} (h : increaseCore W U m c pr p ci sd = .ok (m', p', r)) :
    m'.oiL.long + m'.oiL.short = m.oiL.long + m.oiL.short + (if p.isLong then sd else 0) ∧
    m'.oiS.long + m'.oiS.short = m.oiS.long + m.oiS.short + (if p.isLong then 0 else sd) := by
  obtain ⟨⟨k1, _, _⟩, ko, _⟩ := increaseCore_book h
  have a1 := ko true true; have a2 := ko true false; have a3 := ko false true; have a4 := ko false false
  unfold bk oiPool Pool.amount at k1 a1 a2 a3 a4
  cases hl : p.isLong <;> cases hc : p.collLong <;>
    simp only [hl, hc, Bool.false_eq_true, if_false, if_true, and_self, and_true, and_false, not_true_eq_false, not_false_eq_true,
      forall_const, Prod.mk.injEq, reduceCtorEq] at k1 a1 a2 a3 a4 ⊢ <;> omega

/-- **the closing's impact is the reverse of the opening's on the market the opening left**:
whatever `position_price_impact` returns for `+size` on the market before and for `−size` on the
market after the increase sums to at most one unit of value — with or without virtual inventory
for positions (it only lowers either value). This is the link `hxy` of `open_close_bound`. -/
theorem close_impact_is_reverse_on_market {W U : Nat} {m m1 : Market} {c : PerpCfg} {pr : Prices} {p p1 : Pos} {ci S : Nat}
    {r1 : IncreaseReport} (hcore : increaseCore W U m c pr p ci S = .ok (m1, p1, r1)) {x y : Int} {bx by' : BalanceChange}
    (hx : positionPriceImpact W U m p.isLong (S : Int) true = some (x, bx))
    (hy : positionPriceImpact W U m1 p.isLong (-(S : Int)) true = some (y, by')) : x + y ≤ 1 := by
  obtain ⟨ol, os, D, xr, b1, hol, hos, hD, hxr, hle1⟩ := positionPriceImpact_le_real hx
  obtain ⟨ol1, os1, D1, yr, b2, hol1, hos1, hD1, hyr, hle2⟩ := positionPriceImpact_le_real hy
  rw [increaseCore_cfg hcore] at hyr
  obtain ⟨o1, o2⟩ := increaseCore_openInterest hcore
  unfold openInterest at hol hos hol1 hos1
  simp only [if_true, Bool.false_eq_true, if_false] at hol hos hol1 hos1
  have e1 := checkedAdd_some hol; have e2 := checkedAdd_some hos
  have e3 := checkedAdd_some hol1; have e4 := checkedAdd_some hos1
  obtain ⟨f1, f2, f3, f4⟩ := tryNew_fields hD
  obtain ⟨g1, g2, g3, g4⟩ := tryNew_fields hD1
  have hrev : D1 = D.rev := by
    cases D; cases D1
    simp only [PoolDelta.rev, PoolDelta.mk.injEq] at *
    cases hl : p.isLong <;> simp only [hl, Bool.false_eq_true, if_false, if_true] at * <;> omega
  rw [hrev] at hyr
  have := (C03.roundtrip_le_one hxr hyr).1
  omega

/-- **opening a fresh position and closing it at once at the same prices returns at most the
deposit plus one token unit** — no hypothesis on the impacts left (pnl token = collateral token,
positive cap factor ≤ negative cap factor). -/
theorem open_close_bound_full {W U : Nat} {m m1 m2 : Market} {c : PerpCfg} {pr : Prices} {p0 p1 p2 : Pos} {ci S : Nat}
    {r1 : IncreaseReport} {r2 : DecreaseReport} {fl : DecreaseFlags}
    (hinc : increase W U m c pr p0 ci S = .ok (m1, p1, r1))
    (hfresh : p0.sizeUsd = 0 ∧ p0.collateral = 0) (hS : S ≠ 0) (hsame : p0.isLong = p0.collLong)
    (hdec : decrease W U m1 c pr p1 S 0 fl = .ok (m2, p2, r2))
    (hcap : c.maxPosImpactFactor ≤ c.maxNegImpactFactor)
    (hidx : pr.index.min ≤ pr.index.max) (hcp : (pr.collateral p0.collLong).min ≤ (pr.collateral p0.collLong).max) :
    r2.output + r2.secondary + r2.userOut + r2.userSec ≤ ci + 1 := by
  refine open_close_bound hinc hfresh hS hsame hdec hcap hidx hcp ?_
  intro x y bx by' hx hy
  unfold increase at hinc
  split at hinc
  · cases hinc
  · have hl : (initIfEmpty p0 m).isLong = p0.isLong := by unfold initIfEmpty; split <;> rfl
    rw [← hl] at hx hy
    exact close_impact_is_reverse_on_market hinc hx hy


/-! ### the reverse pool delta always exists (audit: `close_delta_is_reverse` tightened) -/

theorem cas_rev {W a r : Nat} {s : Int} (h : checkedAddWithSigned W a s = some r) (ha : a < 2 ^ W) :
    r < 2 ^ W ∧ checkedAddWithSigned W r (-s) = some a := by
  unfold checkedAddWithSigned at h ⊢
  by_cases hs : s > 0
  · simp only [hs, if_true] at h
    unfold checkedAdd toU at h
    split at h <;> cases h
    rename_i hlt
    have hn : ¬ (-s > 0) := by omega
    simp only [hn, if_false]
    unfold checkedSub
    have e : (-s).natAbs = s.natAbs := by omega
    rw [e]
    have : s.natAbs ≤ a + s.natAbs := by omega
    simp only [this, if_true]
    exact ⟨hlt, by congr 1; omega⟩
  · simp only [hs, if_false] at h
    unfold checkedSub at h
    split at h <;> cases h
    rename_i hle
    by_cases hz : s = 0
    · subst hz
      refine ⟨by simpa using ha, ?_⟩
      simp [checkedSub]
    · have hp : -s > 0 := by omega
      simp only [hp, if_true]
      unfold checkedAdd toU
      have e : (-s).natAbs = s.natAbs := by omega
      rw [e]
      have e2 : a - s.natAbs + s.natAbs = a := by omega
      rw [e2]
      simp only [ha, if_true]
      exact ⟨by omega, trivial⟩

/-- **the pool delta of closing a just-opened position is the exact reverse of the opening's** —
it always exists (no overflow branch): the amounts it starts from fit because the opening's did. -/
theorem tryNew_rev {W ol os : Nat} {d : Int} {D : PoolDelta}
    (h : PoolDelta.tryNew W ol os d 0 1 1 = some D) :
    PoolDelta.tryNew W D.nextL D.nextS (-d) 0 1 1 = some D.rev := by
  unfold PoolDelta.tryNew at h
  repeat' (split at h)
  all_goals first | (cases h; done) | skip
  rename_i _ cl hcl _ cs hcs _ nl hnl _ ns hns
  cases h
  have bl : cl < 2 ^ W ∧ cl = ol := by unfold checkedMul toU at hcl; split at hcl <;> cases hcl; exact ⟨by assumption, by omega⟩
  have bs : cs < 2 ^ W ∧ cs = os := by unfold checkedMul toU at hcs; split at hcs <;> cases hcs; exact ⟨by assumption, by omega⟩
  obtain ⟨nlb, nlr⟩ := cas_rev hnl bl.1
  obtain ⟨nsb, nsr⟩ := cas_rev hns bs.1
  simp only [Int.neg_zero] at nsr
  unfold PoolDelta.tryNew
  have m1 : checkedMul W nl 1 = some nl := by unfold checkedMul toU; simp [nlb]
  have m2 : checkedMul W ns 1 = some ns := by unfold checkedMul toU; simp [nsb]
  simp only [m1, m2, nlr, nsr, PoolDelta.rev]


/-- a successful decrease validated the prices: the collateral token's min and max price are non-zero. -/
theorem decrease_prices_nonzero {W U : Nat} {m m' : Market} {c : PerpCfg} {pr : Prices} {p p' : Pos} {sd0 wd : Nat}
    {fl : DecreaseFlags} {r : DecreaseReport} (h : decrease W U m c pr p sd0 wd fl = .ok (m', p', r)) :
    (pr.collateral p.collLong).min ≠ 0 ∧ (pr.collateral p.collLong).max ≠ 0 := by
  obtain ⟨_, _, _, _, _, _, _, _, _, _, _, _, _, _, _, _, _, hval⟩ := decrease_parts2 h
  unfold Prices.isValid at hval
  simp only [Bool.and_eq_true] at hval
  have pv : ∀ q : Price, q.isValid W = true → q.min ≠ 0 ∧ q.max ≠ 0 := by
    intro q hq
    unfold Price.isValid at hq
    simp only [Bool.and_eq_true, bne_iff_ne, ne_eq] at hq
    exact ⟨hq.1.1, hq.1.2⟩
  unfold Prices.collateral
  split
  · exact pv _ hval.1.2
  · exact pv _ hval.2

end Gmx.Lem
