import Gmx.Model.Life2
/-! Helper lemmas for the `Gmx.Life2` theorems of C23 / C22 (stage 3). -/
namespace Gmx.Life2
open Gmx.Life (Who)

theorem acts_setAct (s : St) (u k i : Nat) (x : Option Act) (a b c : Nat) :
    (setAct s u k i x).acts a b c = if a = u ∧ b = k ∧ c = i then x else s.acts a b c := rfl

/-- recorded balances are covered by the vaults and burns never exceed mints. -/
structure Solvent (s : St) : Prop where
  long : s.recLong ≤ s.vaultLong
  short : s.recShort ≤ s.vaultShort
  supply : s.burned ≤ s.minted

theorem escrowOf_out {usr : User} {k a b l sh m : Nat} (h : escrowOf usr k a b = some (l, sh, m)) :
    outSide k ⟨0, l, sh, m, 0, 0, false, 0, 0⟩ = (0, 0, 0) := by
  rcases k with _ | _ | _ | _ | _ | k
  · simp [escrowOf] at h
    obtain ⟨_, _, _, hm⟩ := h; simp [outSide, ← hm]
  · simp [escrowOf] at h
    obtain ⟨_, hl, hs, _⟩ := h; simp [outSide, ← hl, ← hs]
  · simp [escrowOf] at h
    obtain ⟨_, _, hs, _⟩ := h; simp [outSide, ← hs]
  · simp [escrowOf] at h
    obtain ⟨_, hl, _, _⟩ := h; simp [outSide, ← hl]
  · simp [outSide]
  · simp [escrowOf] at h
    obtain ⟨hl, hs, _⟩ := h; simp [outSide, ← hl, ← hs]

/-- the pool-level funds (vaults, recorded balances, minted / burned) are untouched. -/
def SameFunds (s s' : St) : Prop :=
  s'.vaultLong = s.vaultLong ∧ s'.vaultShort = s.vaultShort ∧ s'.recLong = s.recLong ∧ s'.recShort = s.recShort ∧
  s'.minted = s.minted ∧ s'.burned = s.burned

theorem solvent_of_same {s s' : St} (h : SameFunds s s') (hs : Solvent s) : Solvent s' := by
  obtain ⟨a, b, c, d, e, f⟩ := h
  exact ⟨by rw [a, c]; exact hs.long, by rw [b, d]; exact hs.short, by rw [e, f]; exact hs.supply⟩

theorem complete_some {s s' : St} {u k i x y cl cs ch : Nat} {pc : Bool} {act : Act}
    (h : complete s u k i act x y cl cs ch pc = some s') :
    ∃ act', act'.state = 1 ∧ act'.receiver = act.receiver ∧ s'.acts = (setAct s u k i (some act')).acts ∧ s'.users = s.users ∧
      (Solvent s → Solvent s') ∧ (outSide k act = (0, 0, 0) → inSide k act' = (0, 0, 0)) := by
  rcases k with _ | _ | _ | _ | _ | k
  · simp only [complete] at h; simp at h; subst h
    exact ⟨{ act with state := 1, escLong := 0, escShort := 0, escMt := act.escMt + x }, rfl, rfl, rfl, rfl,
      fun hs => ⟨by simp [setAct]; have := hs.long; omega,
      by simp [setAct]; have := hs.short; omega, by simp [setAct]; have := hs.supply; omega⟩, fun _ => by simp [inSide]⟩
  · simp only [complete] at h; simp at h
    obtain ⟨hg, rfl⟩ := h
    exact ⟨{ act with state := 1, escLong := act.escLong + x, escShort := act.escShort + y, escMt := 0 }, rfl, rfl, rfl, rfl,
      fun hs => ⟨by simp [setAct]; have := hs.long; omega,
      by simp [setAct]; have := hs.short; omega, by simp [setAct]; omega⟩, fun _ => by simp [inSide]⟩
  · simp only [complete] at h; simp at h
    obtain ⟨hg, rfl⟩ := h
    exact ⟨{ act with state := 1, escLong := 0, escShort := act.escShort + x }, rfl, rfl, rfl, rfl,
      fun hs => ⟨by simp [setAct]; have := hs.long; omega,
      by simp [setAct]; have := hs.short; omega, by simp [setAct]; exact hs.supply⟩, fun _ => by simp [inSide]⟩
  · simp only [complete] at h; simp at h
    obtain ⟨hg, rfl⟩ := h
    exact ⟨{ act with state := 1, escShort := 0, escLong := act.escLong + x }, rfl, rfl, rfl, rfl,
      fun hs => ⟨by simp [setAct]; have := hs.long; omega,
      by simp [setAct]; have := hs.short; omega, by simp [setAct]; exact hs.supply⟩, fun _ => by simp [inSide]⟩
  · simp only [complete] at h; simp at h; subst h
    exact ⟨{ act with state := 1, escLong := 0 }, rfl, rfl, rfl, rfl,
      fun hs => ⟨by simp [setAct]; have := hs.long; omega,
      by simp [setAct]; exact hs.short, by simp [setAct]; exact hs.supply⟩, fun _ => by simp [inSide]⟩
  · simp only [complete] at h; simp at h
    obtain ⟨_, _, hg, rfl⟩ := h
    exact ⟨{ act with state := 1, escLong := act.escLong + x, escShort := act.escShort + y }, rfl, rfl, rfl, rfl,
      fun hs => ⟨by simp [setAct]; have := hs.long; omega,
      by simp [setAct]; have := hs.short; omega, by simp [setAct]; exact hs.supply⟩, fun _ => by simp [inSide]⟩

theorem exec_some {s s' : St} {who : Who} {u k i fee x y cl cs ch : Nat} {throw fail hard pc : Bool} {o : Outcome} {paid : Nat}
    (h : exec s who u k i fee throw fail x y hard cl cs ch pc = some (s', o, paid)) :
    hard = false ∧ who = .keeper ∧ ∃ act, s.acts u k i = some act ∧ act.state = 0 ∧ (k ≥ 4 → s.posOpen u = true) ∧
      paid = (if fee ≤ act.execLamports then fee else act.execLamports) ∧
      ((o = .cancelled ∧ throw = false ∧ s'.acts = (setAct s u k i (some { act with state := 2 })).acts ∧
          s'.users = s.users ∧ SameFunds s s' ∧ s'.posSize = s.posSize ∧
          (∀ v, s'.posOpen v = false → s.posOpen v = false ∨ s.posSize v = 0)) ∨
       (o = .completed ∧ act.soft = false ∧ fail = false ∧ complete s u k i act x y cl cs ch pc = some s')) := by
  unfold exec at h
  split at h; · cases h
  rename_i hhard
  split at h; · cases h
  rename_i hw
  split at h
  · cases h
  · rename_i act hact
    split at h; · cases h
    rename_i hst
    split at h; · cases h
    rename_i hpos
    split at h; · cases h
    split at h; · cases h
    have hpos' : k ≥ 4 → s.posOpen u = true := by
      intro hk
      cases hp : s.posOpen u with
      | true => rfl
      | false => exact absurd ⟨hk, hp⟩ hpos
    refine ⟨by simpa using hhard, by simpa using hw, act, hact, by simpa using hst, hpos', ?_⟩
    simp only at h
    split at h
    · -- expired
      cases throw with
      | true => simp at h
      | false =>
        simp at h; obtain ⟨a, b, c⟩ := h
        exact ⟨c.symm, Or.inl ⟨b.symm, rfl, by rw [← a], by rw [← a]; rfl, by rw [← a]; exact ⟨rfl, rfl, rfl, rfl, rfl, rfl⟩,
          by rw [← a]; rfl, fun v hv => Or.inl (by rw [← a] at hv; exact hv)⟩⟩
    · split at h
      · cases throw with
        | true => simp at h
        | false =>
          simp at h; obtain ⟨a, b, c⟩ := h
          refine ⟨c.symm, Or.inl ⟨b.symm, rfl, ?_, ?_, ?_, ?_, ?_⟩⟩
          · rw [← a]; unfold cancelState; simp only; split <;> rfl
          · rw [← a]; unfold cancelState; simp only; split <;> rfl
          · rw [← a]; unfold cancelState; simp only; split <;> exact ⟨rfl, rfl, rfl, rfl, rfl, rfl⟩
          · rw [← a]; unfold cancelState; simp only; split <;> rfl
          · intro v hv
            rw [← a] at hv
            unfold cancelState at hv
            simp only at hv
            split at hv
            · rename_i hc
              simp only [setAct] at hv
              by_cases hvu : v = u
              · subst hvu; exact Or.inr hc.2
              · simp [hvu] at hv; exact Or.inl hv
            · exact Or.inl hv
      · rename_i hsf
        cases hc : complete s u k i act x y cl cs ch pc with
        | none => simp [hc] at h
        | some s'' =>
          simp [hc] at h
          obtain ⟨a, b, c⟩ := h
          simp at hsf
          exact ⟨c.symm, Or.inr ⟨b.symm, hsf.1, hsf.2, by rw [← a]⟩⟩

theorem create_some {s s' : St} {u k i a b el rc : Nat} {soft : Bool} (h : create s u k i a b soft el rc = some s') :
    s.acts u k i = none ∧ ∃ act0, act0.state = 0 ∧ act0.receiver = rc ∧ outSide k act0 = (0, 0, 0) ∧
      s'.acts = (setAct s u k i (some act0)).acts ∧ SameFunds s s' ∧ s'.posSize = s.posSize ∧
      (∀ v, s'.posOpen v = false → s.posOpen v = false) ∧
      ∃ l sh m, escrowOf (s.users u) k a b = some (l, sh, m) ∧ minExecLamports k ≤ el ∧
        act0.escLong = l ∧ act0.escShort = sh ∧ act0.escMt = m ∧
        s'.users = (setUser s u ⟨(s.users u).long - l, (s.users u).short - sh, (s.users u).mt - m⟩).users := by
  unfold create at h
  split at h; · cases h
  rename_i hn
  simp only at h
  split at h; · cases h
  rename_i l sh m he
  split at h; · cases h
  rename_i hel
  split at h; · cases h
  have hout : outSide k ⟨0, l, sh, m, s.now, el, soft && !((k = 4 || k = 5) && b = 0), rc, if k = 4 then 100 * b else if k = 5 then b else 0⟩ = (0, 0, 0) := by
    have := escrowOf_out he
    simpa [outSide] using this
  refine ⟨hn, ⟨0, l, sh, m, s.now, el, soft && !((k = 4 || k = 5) && b = 0), rc, if k = 4 then 100 * b else if k = 5 then b else 0⟩, rfl, rfl, hout, ?_, ?_, ?_, ?_,
    l, sh, m, he, by omega, rfl, rfl, rfl, ?_⟩
  · by_cases hk : k = 4
    · subst hk; simp at h; subst h; simp [setAct, setUser]
    · simp [hk] at h; subst h; simp [hk, setAct, setUser]
  · by_cases hk : k = 4
    · subst hk; simp at h; subst h; exact ⟨rfl, rfl, rfl, rfl, rfl, rfl⟩
    · simp [hk] at h; subst h; exact ⟨rfl, rfl, rfl, rfl, rfl, rfl⟩
  · by_cases hk : k = 4
    · subst hk; simp at h; subst h; rfl
    · simp [hk] at h; subst h; rfl
  · intro v hv
    by_cases hk : k = 4
    · subst hk; simp at h; subst h
      simp only [setAct, setUser] at hv
      by_cases hvu : v = u
      · simp [hvu] at hv
      · simpa [hvu] using hv
    · simp [hk] at h; subst h; exact hv
  · by_cases hk : k = 4
    · subst hk; simp at h; subst h; rfl
    · simp [hk] at h; subst h; rfl

theorem close_some {s s' : St} {who : Who} {u k i : Nat} (h : close s who u k i = some s') :
    ∃ act, s.acts u k i = some act ∧ (who = .user u ∨ (who = .keeper ∧ act.state ≠ 0)) ∧
      s' = setAct (credit (credit s u (inSide k act)) act.receiver (outSide k act)) u k i none := by
  unfold close at h
  split at h; · cases h
  rename_i act hact
  simp only at h
  split at h; · cases h
  rename_i hal
  cases h
  exact ⟨act, hact, Classical.byContradiction (fun hn => hal hn), rfl⟩

theorem acts_credit (s : St) (v : Nat) (t : Nat × Nat × Nat) : (credit s v t).acts = s.acts := rfl

/-! ### events of one slot -/
def isCreated (u k i : Nat) : Event → Bool | .created a b c => a == u && b == k && c == i | _ => false
def isExecuted (u k i : Nat) : Event → Bool | .executed a b c _ => a == u && b == k && c == i | _ => false
def isClosed (u k i : Nat) : Event → Bool | .closed a b c => a == u && b == k && c == i | _ => false
def openCount (s : St) (u k i : Nat) : Nat := if (s.acts u k i).isSome then 1 else 0
def pendingCount (s : St) (u k i : Nat) : Nat := match s.acts u k i with | some a => if a.state = 0 then 1 else 0 | none => 0

theorem solvent_step {s : St} (hs : Solvent s) (op : Op) : Solvent (step s op).1 := by
  cases op with
  | tick dt => exact ⟨hs.long, hs.short, hs.supply⟩
  | price age => exact ⟨hs.long, hs.short, hs.supply⟩
  | create u k i a b soft el rc =>
    rcases Option.eq_none_or_eq_some (create s u k i a b soft el rc) with hc | ⟨s', hc⟩
    · simp only [step, hc]; split
      · exact ⟨hs.long, hs.short, hs.supply⟩
      · exact hs
    · simp only [step, hc]
      obtain ⟨_, _, _, _, _, _, hf, _⟩ := create_some hc
      exact solvent_of_same hf hs
  | exec who u k i fee throw fail x y hard cl cs ch pc =>
    rcases Option.eq_none_or_eq_some (exec s who u k i fee throw fail x y hard cl cs ch pc) with hc | ⟨⟨s', o, paid⟩, hc⟩
    · simp only [step, hc]; exact hs
    · simp only [step, hc]
      obtain ⟨_, _, act, _, _, _, _, hcase⟩ := exec_some hc
      rcases hcase with ⟨_, _, _, _, hf, _⟩ | ⟨_, _, _, hcomp⟩
      · exact solvent_of_same hf hs
      · obtain ⟨_, _, _, _, _, hsol, _⟩ := complete_some hcomp
        exact hsol hs
  | close who u k i =>
    rcases Option.eq_none_or_eq_some (close s who u k i) with hc | ⟨s', hc⟩
    · simp only [step, hc]; exact hs
    · simp only [step, hc]
      obtain ⟨act, _, _, rfl⟩ := close_some hc
      exact ⟨hs.long, hs.short, hs.supply⟩

theorem solvent_init (l sh : Nat) (now : Int) : Solvent (init l sh now) := ⟨Nat.le_refl _, Nat.le_refl _, Nat.le_refl _⟩

theorem solvent_run {s : St} (hs : Solvent s) (ops : List Op) : Solvent (run s ops).1 := by
  induction ops generalizing s with
  | nil => exact hs
  | cons op ops ih => exact ih (solvent_step hs op)

/-- bookkeeping of one slot across one transaction. -/
theorem step_counts (s : St) (op : Op) (u k i : Nat) :
    (if isClosed u k i (step s op).2 then 1 else 0) + openCount (step s op).1 u k i
        = (if isCreated u k i (step s op).2 then 1 else 0) + openCount s u k i ∧
    (if isExecuted u k i (step s op).2 then 1 else 0) + pendingCount (step s op).1 u k i
        ≤ (if isCreated u k i (step s op).2 then 1 else 0) + pendingCount s u k i := by
  cases op with
  | tick dt => exact ⟨rfl, Nat.le_refl _⟩
  | price age => exact ⟨rfl, Nat.le_refl _⟩
  | create a b c x y soft el rc =>
    rcases Option.eq_none_or_eq_some (create s a b c x y soft el rc) with hc | ⟨s', hc⟩
    · by_cases hb : b = 4
      · subst hb; simp [step, hc, isClosed, isCreated, isExecuted, openCount, pendingCount, prepPosition]
      · simp [step, hc, hb, isClosed, isCreated, isExecuted, openCount, pendingCount, prepPosition]
    · obtain ⟨hn, act0, hst0, _, _, hacts, _⟩ := create_some hc
      by_cases hid : a = u ∧ b = k ∧ c = i
      · obtain ⟨rfl, rfl, rfl⟩ := hid
        simp [step, hc, isClosed, isCreated, isExecuted, openCount, pendingCount, hacts, acts_setAct, hn, hst0]
      · have hid' : ¬ (u = a ∧ k = b ∧ i = c) := fun h => hid ⟨h.1.symm, h.2.1.symm, h.2.2.symm⟩
        have e : (isCreated u k i (Event.created a b c)) = false := by
          simp only [isCreated]; by_cases h1 : a = u <;> by_cases h2 : b = k <;> by_cases h3 : c = i <;> simp_all
        simp [step, hc, isClosed, isExecuted, e, openCount, pendingCount, hacts, acts_setAct, hid']
  | exec who a b c fee throw fail x y hard cl cs ch pc =>
    rcases Option.eq_none_or_eq_some (exec s who a b c fee throw fail x y hard cl cs ch pc) with hc | ⟨⟨s', o, paid⟩, hc⟩
    · simp [step, hc, isClosed, isCreated, isExecuted]
    · obtain ⟨_, _, act, hact, hst, _, _, hcase⟩ := exec_some hc
      have hacts : ∃ act', act'.state ≠ 0 ∧ s'.acts = (setAct s a b c (some act')).acts := by
        rcases hcase with ⟨_, _, h, _⟩ | ⟨_, _, _, hcomp⟩
        · exact ⟨_, by simp, h⟩
        · obtain ⟨act', h1, _, h2, _⟩ := complete_some hcomp
          exact ⟨act', by omega, h2⟩
      obtain ⟨act', hne, hacts⟩ := hacts
      by_cases hid : a = u ∧ b = k ∧ c = i
      · obtain ⟨rfl, rfl, rfl⟩ := hid
        simp [step, hc, isClosed, isCreated, isExecuted, openCount, pendingCount, hacts, acts_setAct, hact, hst, hne]
      · have hid' : ¬ (u = a ∧ k = b ∧ i = c) := fun h => hid ⟨h.1.symm, h.2.1.symm, h.2.2.symm⟩
        have e : (isExecuted u k i (Event.executed a b c o)) = false := by
          simp only [isExecuted]; by_cases h1 : a = u <;> by_cases h2 : b = k <;> by_cases h3 : c = i <;> simp_all
        simp [step, hc, isClosed, isCreated, e, openCount, pendingCount, hacts, acts_setAct, hid']
  | close who a b c =>
    rcases Option.eq_none_or_eq_some (close s who a b c) with hc | ⟨s', hc⟩
    · simp [step, hc, isClosed, isCreated, isExecuted]
    · obtain ⟨act, hact, _, rfl⟩ := close_some hc
      by_cases hid : a = u ∧ b = k ∧ c = i
      · obtain ⟨rfl, rfl, rfl⟩ := hid
        simp [step, hc, isClosed, isCreated, isExecuted, openCount, pendingCount, acts_setAct, acts_credit, hact]
      · have hid' : ¬ (u = a ∧ k = b ∧ i = c) := fun h => hid ⟨h.1.symm, h.2.1.symm, h.2.2.symm⟩
        have e : (isClosed u k i (Event.closed a b c)) = false := by
          simp only [isClosed]; by_cases h1 : a = u <;> by_cases h2 : b = k <;> by_cases h3 : c = i <;> simp_all
        simp [step, hc, isCreated, isExecuted, e, openCount, pendingCount, acts_setAct, acts_credit, hid']

theorem run_counts (s : St) (ops : List Op) (u k i : Nat) :
    (run s ops).2.countP (isClosed u k i) + openCount (run s ops).1 u k i
      = (run s ops).2.countP (isCreated u k i) + openCount s u k i ∧
    (run s ops).2.countP (isExecuted u k i) + pendingCount (run s ops).1 u k i
      ≤ (run s ops).2.countP (isCreated u k i) + pendingCount s u k i := by
  induction ops generalizing s with
  | nil => simp [run]
  | cons op ops ih =>
    obtain ⟨i1, i2⟩ := ih (step s op).1
    obtain ⟨s1, s2⟩ := step_counts s op u k i
    simp only [run, List.countP_cons]
    constructor <;> omega

/-! ### who holds what: completed actions hold only proceeds, all others only refundable input -/

/-- every open action is well formed: a completed one has an empty input side (nothing left to refund), a pending or
cancelled one an empty output side (no proceeds). -/
def WellFormed (s : St) : Prop :=
  ∀ u k i act, s.acts u k i = some act →
    (act.state = 1 → inSide k act = (0, 0, 0)) ∧ (act.state ≠ 1 → outSide k act = (0, 0, 0))

theorem wf_set {s s' : St} (hw : WellFormed s) {u k i : Nat} {act' : Act} (hacts : s'.acts = (setAct s u k i (some act')).acts)
    (h : (act'.state = 1 → inSide k act' = (0, 0, 0)) ∧ (act'.state ≠ 1 → outSide k act' = (0, 0, 0))) : WellFormed s' := by
  intro a b c act2 h2
  rw [hacts] at h2
  simp only [acts_setAct] at h2
  split at h2
  · rename_i hid
    obtain ⟨rfl, rfl, rfl⟩ := hid
    cases h2
    exact h
  · exact hw a b c act2 h2

theorem wf_step {s : St} (hw : WellFormed s) (op : Op) : WellFormed (step s op).1 := by
  cases op with
  | tick dt => exact hw
  | price age => exact hw
  | create u k i a b soft el rc =>
    rcases Option.eq_none_or_eq_some (create s u k i a b soft el rc) with hc | ⟨s', hc⟩
    · simp only [step, hc]; split
      · exact hw
      · exact hw
    · simp only [step, hc]
      obtain ⟨_, act0, hst0, _, hout, hacts, _⟩ := create_some hc
      exact wf_set hw hacts ⟨fun h => by omega, fun _ => hout⟩
  | exec who u k i fee throw fail x y hard cl cs ch pc =>
    rcases Option.eq_none_or_eq_some (exec s who u k i fee throw fail x y hard cl cs ch pc) with hc | ⟨⟨s', o, paid⟩, hc⟩
    · simp only [step, hc]; exact hw
    · simp only [step, hc]
      obtain ⟨_, _, act, hact, hst, _, _, hcase⟩ := exec_some hc
      have hout := (hw u k i act hact).2 (by omega)
      rcases hcase with ⟨_, _, hacts, _⟩ | ⟨_, _, _, hcomp⟩
      · exact wf_set hw hacts ⟨fun h => by simp at h, fun _ => by simpa [outSide] using hout⟩
      · obtain ⟨act', h1, _, hacts, _, _, hin⟩ := complete_some hcomp
        exact wf_set hw hacts ⟨fun _ => hin hout, fun h => absurd h1 h⟩
  | close who u k i =>
    rcases Option.eq_none_or_eq_some (close s who u k i) with hc | ⟨s', hc⟩
    · simp only [step, hc]; exact hw
    · simp only [step, hc]
      obtain ⟨act, _, _, rfl⟩ := close_some hc
      intro a b c act2 h2
      simp only [acts_setAct, acts_credit] at h2
      split at h2
      · cases h2
      · exact hw a b c act2 h2

theorem wf_init (l sh : Nat) (now : Int) : WellFormed (init l sh now) := by
  intro u k i act h; simp [init] at h

theorem wf_run {s : St} (hw : WellFormed s) (ops : List Op) : WellFormed (run s ops).1 := by
  induction ops generalizing s with
  | nil => exact hw
  | cons op ops ih => exact ih (wf_step hw op)

/-! ### positions: a closed position account has size 0, a decrease needs an open position of positive size -/

/-- a position account that does not exist has size 0. -/
def PosInv (s : St) : Prop := ∀ u, s.posOpen u = false → s.posSize u = 0

/-- what a completed decrease does to the position: closed exactly when declared closed (then size 0), otherwise it
stays open with a strictly positive remaining size; and to the funds. -/
theorem complete_decrease {s s' : St} {u k i x y cl cs ch : Nat} {pc : Bool} {act : Act} (hk : 5 ≤ k)
    (h : complete s u k i act x y cl cs ch pc = some s') :
    s.posOpen u = true ∧ 0 < s.posSize u ∧ s'.posOpen u = !pc ∧
    s'.posSize u = (if pc then 0 else s.posSize u - act.size) ∧ (pc = false → act.size < s.posSize u) ∧
    (∀ v, v ≠ u → s'.posOpen v = s.posOpen v ∧ s'.posSize v = s.posSize v) ∧
    s'.vaultLong = s.vaultLong - (x + cl + ch) ∧ s'.recLong + (x + cl + ch) = s.recLong ∧
    s'.vaultShort = s.vaultShort - (y + cs) ∧ s'.recShort + (y + cs) = s.recShort ∧
    s'.claimLong = s.claimLong + cl + ch ∧ s'.claimShort = s.claimShort + cs ∧
    (Solvent s → x + cl + ch ≤ s.vaultLong ∧ y + cs ≤ s.vaultShort) := by
  rcases k with _ | _ | _ | _ | _ | k
  · omega
  · omega
  · omega
  · omega
  · omega
  simp only [complete] at h; simp at h
  obtain ⟨h1, h2, h3, rfl⟩ := h
  refine ⟨h1.1, by omega, by simp, by simp, h2, ?_, rfl, ?_, rfl, ?_, rfl, rfl, ?_⟩
  · intro v hv; simp [hv]
  · simp; omega
  · simp; omega
  · intro hs; have := hs.long; have := hs.short; omega

theorem complete_pos_other {s s' : St} {u k i x y cl cs ch : Nat} {pc : Bool} {act : Act}
    (h : complete s u k i act x y cl cs ch pc = some s') (hk : k ≤ 3) : s'.posOpen = s.posOpen ∧ s'.posSize = s.posSize := by
  rcases k with _ | _ | _ | _ | k
  · simp only [complete] at h; simp at h; subst h; exact ⟨rfl, rfl⟩
  · simp only [complete] at h; simp at h; obtain ⟨_, rfl⟩ := h; exact ⟨rfl, rfl⟩
  · simp only [complete] at h; simp at h; obtain ⟨_, rfl⟩ := h; exact ⟨rfl, rfl⟩
  · simp only [complete] at h; simp at h; obtain ⟨_, rfl⟩ := h; exact ⟨rfl, rfl⟩
  · omega

theorem complete_increase_pos {s s' : St} {u i x y cl cs ch : Nat} {pc : Bool} {act : Act}
    (h : complete s u 4 i act x y cl cs ch pc = some s') :
    s'.posOpen = s.posOpen ∧ s'.posSize u = s.posSize u + act.size ∧ ∀ v, v ≠ u → s'.posSize v = s.posSize v := by
  simp only [complete] at h; simp at h; subst h
  exact ⟨rfl, by simp [setAct], fun v hv => by simp [setAct, hv]⟩

theorem posinv_step {s : St} (hp : PosInv s) (op : Op) : PosInv (step s op).1 := by
  cases op with
  | tick dt => exact hp
  | price age => exact hp
  | create u k i a b soft el rc =>
    rcases Option.eq_none_or_eq_some (create s u k i a b soft el rc) with hc | ⟨s', hc⟩
    · simp only [step, hc]; split
      · intro v hv
        simp only [prepPosition] at hv ⊢
        by_cases hvu : v = u
        · simp [hvu] at hv
        · simp [hvu] at hv; exact hp v hv
      · exact hp
    · simp only [step, hc]
      obtain ⟨_, _, _, _, _, _, _, hsz, hop, _⟩ := create_some hc
      intro v hv; rw [hsz]; exact hp v (hop v hv)
  | exec who u k i fee throw fail x y hard cl cs ch pc =>
    rcases Option.eq_none_or_eq_some (exec s who u k i fee throw fail x y hard cl cs ch pc) with hc | ⟨⟨s', o, paid⟩, hc⟩
    · simp only [step, hc]; exact hp
    · simp only [step, hc]
      obtain ⟨_, _, act, _, _, hopen, _, hcase⟩ := exec_some hc
      rcases hcase with ⟨_, _, _, _, _, hsz, hop⟩ | ⟨_, _, _, hcomp⟩
      · intro v hv; rw [hsz]
        rcases hop v hv with h | h
        · exact hp v h
        · exact h
      · by_cases hk : k ≤ 3
        · obtain ⟨h1, h2⟩ := complete_pos_other hcomp hk
          intro v hv; rw [h2]; rw [h1] at hv; exact hp v hv
        · by_cases hk4 : k = 4
          · subst hk4
            obtain ⟨h1, h2, h3⟩ := complete_increase_pos hcomp
            intro v hv; rw [h1] at hv
            by_cases hvu : v = u
            · subst hvu; rw [hopen (by omega)] at hv; cases hv
            · rw [h3 v hvu]; exact hp v hv
          · obtain ⟨_, _, h3, h4, _, h6, _⟩ := complete_decrease (by omega) hcomp
            intro v hv
            by_cases hvu : v = u
            · subst hvu; rw [h3] at hv; simp at hv; rw [h4, hv]; rfl
            · obtain ⟨e1, e2⟩ := h6 v hvu; rw [e2]; rw [e1] at hv; exact hp v hv
  | close who u k i =>
    rcases Option.eq_none_or_eq_some (close s who u k i) with hc | ⟨s', hc⟩
    · simp only [step, hc]; exact hp
    · simp only [step, hc]
      obtain ⟨act, _, _, rfl⟩ := close_some hc
      exact hp

theorem posinv_init (l sh : Nat) (now : Int) : PosInv (init l sh now) := fun _ _ => rfl

theorem posinv_run {s : St} (hp : PosInv s) (ops : List Op) : PosInv (run s ops).1 := by
  induction ops generalizing s with
  | nil => exact hp
  | cons op ops ih => exact ih (posinv_step hp op)

/-- raw effect of a completed withdrawal (truncated subtraction on the vault side; the guards are on the RECORDED
balances) — the property-level statement is `Gmx.C22.l2_complete_withdrawal` (from a solvent state, subtraction-free). -/
theorem complete_withdrawal_raw {s s' : St} {u i x y : Nat} {act : Act}
    (h : complete s u 1 i act x y = some s') :
    s'.burned = s.burned + act.escMt ∧ s'.minted = s.minted ∧ s'.burned ≤ s'.minted ∧
    s'.vaultLong = s.vaultLong - x ∧ s'.recLong = s.recLong - x ∧ x ≤ s.recLong ∧
    s'.vaultShort = s.vaultShort - y ∧ s'.recShort = s.recShort - y ∧ y ≤ s.recShort := by
  simp [complete] at h
  obtain ⟨⟨h1, h2, h3⟩, rfl⟩ := h
  simp [setAct]; omega

end Gmx.Life2
