import Gmx.Model.Life2
/-! Helper lemmas for the `Gmx.Life2` theorems of C23 / C22 (stage 3). -/
namespace Gmx.Life2
open Gmx.Life (Who)

theorem acts_setAct (s : St) (u k i : Nat) (x : Option Act) (a b c : Nat) :
    (setAct s u k i x).acts a b c = if a = u ∧ b = k ∧ c = i then x else s.acts a b c := rfl

/-- recorded balances are covered by the vaults and burns never exceed mints. -/
structure Solvent (s : St) : Prop where
  long : s.recLong ≤ s.vaultLong
  short : s.recShort ≤ s.vaultShort
  supply : s.burned ≤ s.minted

theorem complete_some {s s' : St} {u k i x y : Nat} {act : Act} (h : complete s u k i act x y = some s') :
    ∃ act', act'.state = 1 ∧ s'.acts = (setAct s u k i (some act')).acts ∧ s'.users = s.users ∧
      s'.now = s.now ∧ s'.priceTs = s.priceTs ∧ (Solvent s → Solvent s') := by
  rcases k with _ | _ | _ | _ | k
  · simp only [complete] at h; simp at h; subst h
    exact ⟨_, rfl, rfl, rfl, rfl, rfl, fun hs => ⟨by simp [setAct]; have := hs.long; omega,
      by simp [setAct]; have := hs.short; omega, by simp [setAct]; have := hs.supply; omega⟩⟩
  · simp only [complete] at h; simp at h
    obtain ⟨hg, rfl⟩ := h
    exact ⟨_, rfl, rfl, rfl, rfl, rfl, fun hs => ⟨by simp [setAct]; have := hs.long; omega,
      by simp [setAct]; have := hs.short; omega, by simp [setAct]; omega⟩⟩
  · simp only [complete] at h; simp at h
    obtain ⟨hg, rfl⟩ := h
    exact ⟨_, rfl, rfl, rfl, rfl, rfl, fun hs => ⟨by simp [setAct]; have := hs.long; omega,
      by simp [setAct]; have := hs.short; omega, by simp [setAct]; exact hs.supply⟩⟩
  · simp only [complete] at h; simp at h
    obtain ⟨hg, rfl⟩ := h
    exact ⟨_, rfl, rfl, rfl, rfl, rfl, fun hs => ⟨by simp [setAct]; have := hs.long; omega,
      by simp [setAct]; have := hs.short; omega, by simp [setAct]; exact hs.supply⟩⟩
  · simp only [complete] at h; simp at h; subst h
    exact ⟨_, rfl, rfl, rfl, rfl, rfl, fun hs => ⟨by simp [setAct]; have := hs.long; omega,
      by simp [setAct]; exact hs.short, by simp [setAct]; exact hs.supply⟩⟩

theorem exec_some {s s' : St} {who : Who} {u k i fee x y : Nat} {throw fail : Bool} {o : Outcome} {paid : Nat}
    {hard : Bool} (h : exec s who u k i fee throw fail x y hard = some (s', o, paid)) :
    hard = false ∧ who = .keeper ∧ ∃ act, s.acts u k i = some act ∧ act.state = 0 ∧
      paid = (if fee ≤ act.execLamports then fee else act.execLamports) ∧
      ((o = .cancelled ∧ throw = false ∧ s' = setAct s u k i (some { act with state := 2 })) ∨
       (o = .completed ∧ act.soft = false ∧ fail = false ∧ complete s u k i act x y = some s')) := by
  unfold exec at h
  split at h; · cases h
  rename_i hhard
  split at h; · cases h
  rename_i hw
  split at h
  · cases h
  · rename_i act hact
    split at h; · cases h
    rename_i hst
    split at h; · cases h
    split at h; · cases h
    have hsoft : ∀ {r : Option (St × Outcome × Nat)},
        r = (if throw then none else some (setAct s u k i (some { act with state := 2 }), Outcome.cancelled,
          if fee ≤ act.execLamports then fee else act.execLamports)) → r = some (s', o, paid) →
        o = .cancelled ∧ throw = false ∧ s' = setAct s u k i (some { act with state := 2 }) ∧
          paid = (if fee ≤ act.execLamports then fee else act.execLamports) := by
      intro r hr he
      rw [hr] at he
      cases throw with
      | true => simp at he
      | false => simp at he; obtain ⟨a, b, c⟩ := he; exact ⟨b.symm, rfl, a.symm, c.symm⟩
    refine ⟨by simpa using hhard, by simpa using hw, act, hact, by simpa using hst, ?_⟩
    simp only at h
    split at h
    · obtain ⟨a, b, c, d⟩ := hsoft rfl h
      exact ⟨d, Or.inl ⟨a, b, c⟩⟩
    · split at h
      · obtain ⟨a, b, c, d⟩ := hsoft rfl h
        exact ⟨d, Or.inl ⟨a, b, c⟩⟩
      · rename_i hsf
        cases hc : complete s u k i act x y with
        | none => simp [hc] at h
        | some s'' =>
          simp [hc] at h
          obtain ⟨a, b, c⟩ := h
          simp at hsf
          exact ⟨c.symm, Or.inr ⟨b.symm, hsf.1, hsf.2, by rw [← a]⟩⟩

theorem create_some {s s' : St} {u k i a b el rc : Nat} {soft : Bool} (h : create s u k i a b soft el rc = some s') :
    s.acts u k i = none ∧ ∃ l sh m, escrowOf (s.users u) k a b = some (l, sh, m) ∧ minExecLamports k ≤ el ∧
      s' = setAct (setUser s u ⟨(s.users u).long - l, (s.users u).short - sh, (s.users u).mt - m⟩) u k i
        (some ⟨0, l, sh, m, s.now, el, soft, rc⟩) := by
  unfold create at h
  split at h; · cases h
  rename_i hn
  simp only at h
  split at h; · cases h
  rename_i l sh m he
  split at h; · cases h
  rename_i hel
  cases h
  exact ⟨hn, l, sh, m, he, by omega, rfl⟩

theorem close_some {s s' : St} {who : Who} {u k i : Nat} (h : close s who u k i = some s') :
    ∃ act, s.acts u k i = some act ∧ (who = .user u ∨ (who = .keeper ∧ act.state ≠ 0)) ∧
      s' = setAct (credit (credit s u (inSide k act)) act.receiver (outSide k act)) u k i none := by
  unfold close at h
  split at h; · cases h
  rename_i act hact
  simp only at h
  split at h; · cases h
  rename_i hal
  cases h
  exact ⟨act, hact, Classical.byContradiction (fun hn => hal hn), rfl⟩

theorem acts_credit (s : St) (v : Nat) (t : Nat × Nat × Nat) : (credit s v t).acts = s.acts := rfl

/-! ### events of one slot -/
def isCreated (u k i : Nat) : Event → Bool | .created a b c => a == u && b == k && c == i | _ => false
def isExecuted (u k i : Nat) : Event → Bool | .executed a b c _ => a == u && b == k && c == i | _ => false
def isClosed (u k i : Nat) : Event → Bool | .closed a b c => a == u && b == k && c == i | _ => false
def openCount (s : St) (u k i : Nat) : Nat := if (s.acts u k i).isSome then 1 else 0
def pendingCount (s : St) (u k i : Nat) : Nat := match s.acts u k i with | some a => if a.state = 0 then 1 else 0 | none => 0

theorem solvent_step {s : St} (hs : Solvent s) (op : Op) : Solvent (step s op).1 := by
  cases op with
  | tick dt => exact ⟨hs.long, hs.short, hs.supply⟩
  | price age => exact ⟨hs.long, hs.short, hs.supply⟩
  | create u k i a b soft el rc =>
    rcases Option.eq_none_or_eq_some (create s u k i a b soft el rc) with hc | ⟨s', hc⟩
    · simp only [step, hc]; exact hs
    · simp only [step, hc]
      obtain ⟨_, l, sh, m, _, _, rfl⟩ := create_some hc
      exact ⟨hs.long, hs.short, hs.supply⟩
  | exec who u k i fee throw fail x y hard =>
    rcases Option.eq_none_or_eq_some (exec s who u k i fee throw fail x y hard) with hc | ⟨⟨s', o, paid⟩, hc⟩
    · simp only [step, hc]; exact hs
    · simp only [step, hc]
      obtain ⟨_, _, act, _, _, _, hcase⟩ := exec_some hc
      rcases hcase with ⟨_, _, rfl⟩ | ⟨_, _, _, hcomp⟩
      · exact ⟨hs.long, hs.short, hs.supply⟩
      · obtain ⟨_, _, _, _, _, _, hsol⟩ := complete_some hcomp
        exact hsol hs
  | close who u k i =>
    rcases Option.eq_none_or_eq_some (close s who u k i) with hc | ⟨s', hc⟩
    · simp only [step, hc]; exact hs
    · simp only [step, hc]
      obtain ⟨act, _, _, rfl⟩ := close_some hc
      exact ⟨hs.long, hs.short, hs.supply⟩

theorem solvent_init (l sh : Nat) (now : Int) : Solvent (init l sh now) := ⟨Nat.le_refl _, Nat.le_refl _, Nat.le_refl _⟩

theorem solvent_run {s : St} (hs : Solvent s) (ops : List Op) : Solvent (run s ops).1 := by
  induction ops generalizing s with
  | nil => exact hs
  | cons op ops ih => exact ih (solvent_step hs op)

/-- bookkeeping of one slot across one transaction. -/
theorem step_counts (s : St) (op : Op) (u k i : Nat) :
    (if isClosed u k i (step s op).2 then 1 else 0) + openCount (step s op).1 u k i
        = (if isCreated u k i (step s op).2 then 1 else 0) + openCount s u k i ∧
    (if isExecuted u k i (step s op).2 then 1 else 0) + pendingCount (step s op).1 u k i
        ≤ (if isCreated u k i (step s op).2 then 1 else 0) + pendingCount s u k i := by
  cases op with
  | tick dt => exact ⟨rfl, Nat.le_refl _⟩
  | price age => exact ⟨rfl, Nat.le_refl _⟩
  | create a b c x y soft el rc =>
    rcases Option.eq_none_or_eq_some (create s a b c x y soft el rc) with hc | ⟨s', hc⟩
    · simp [step, hc, isClosed, isCreated, isExecuted]
    · obtain ⟨hn, l, sh, m, _, _, rfl⟩ := create_some hc
      by_cases hid : a = u ∧ b = k ∧ c = i
      · obtain ⟨rfl, rfl, rfl⟩ := hid
        simp [step, hc, isClosed, isCreated, isExecuted, openCount, pendingCount, acts_setAct, setUser, hn]
      · have hid' : ¬ (u = a ∧ k = b ∧ i = c) := fun h => hid ⟨h.1.symm, h.2.1.symm, h.2.2.symm⟩
        have e : (isCreated u k i (Event.created a b c)) = false := by
          simp only [isCreated]; by_cases h1 : a = u <;> by_cases h2 : b = k <;> by_cases h3 : c = i <;> simp_all
        simp [step, hc, isClosed, isExecuted, e, openCount, pendingCount, acts_setAct, setUser, hid']
  | exec who a b c fee throw fail x y hard =>
    rcases Option.eq_none_or_eq_some (exec s who a b c fee throw fail x y hard) with hc | ⟨⟨s', o, paid⟩, hc⟩
    · simp [step, hc, isClosed, isCreated, isExecuted]
    · obtain ⟨_, _, act, hact, hst, _, hcase⟩ := exec_some hc
      have hacts : ∃ act', act'.state ≠ 0 ∧ s'.acts = (setAct s a b c (some act')).acts := by
        rcases hcase with ⟨_, _, rfl⟩ | ⟨_, _, _, hcomp⟩
        · exact ⟨_, by simp, rfl⟩
        · obtain ⟨act', h1, h2, _⟩ := complete_some hcomp
          exact ⟨act', by omega, h2⟩
      obtain ⟨act', hne, hacts⟩ := hacts
      by_cases hid : a = u ∧ b = k ∧ c = i
      · obtain ⟨rfl, rfl, rfl⟩ := hid
        simp [step, hc, isClosed, isCreated, isExecuted, openCount, pendingCount, hacts, acts_setAct, hact, hst, hne]
      · have hid' : ¬ (u = a ∧ k = b ∧ i = c) := fun h => hid ⟨h.1.symm, h.2.1.symm, h.2.2.symm⟩
        have e : (isExecuted u k i (Event.executed a b c o)) = false := by
          simp only [isExecuted]; by_cases h1 : a = u <;> by_cases h2 : b = k <;> by_cases h3 : c = i <;> simp_all
        simp [step, hc, isClosed, isCreated, e, openCount, pendingCount, hacts, acts_setAct, hid']
  | close who a b c =>
    rcases Option.eq_none_or_eq_some (close s who a b c) with hc | ⟨s', hc⟩
    · simp [step, hc, isClosed, isCreated, isExecuted]
    · obtain ⟨act, hact, _, rfl⟩ := close_some hc
      by_cases hid : a = u ∧ b = k ∧ c = i
      · obtain ⟨rfl, rfl, rfl⟩ := hid
        simp [step, hc, isClosed, isCreated, isExecuted, openCount, pendingCount, acts_setAct, acts_credit, hact]
      · have hid' : ¬ (u = a ∧ k = b ∧ i = c) := fun h => hid ⟨h.1.symm, h.2.1.symm, h.2.2.symm⟩
        have e : (isClosed u k i (Event.closed a b c)) = false := by
          simp only [isClosed]; by_cases h1 : a = u <;> by_cases h2 : b = k <;> by_cases h3 : c = i <;> simp_all
        simp [step, hc, isCreated, isExecuted, e, openCount, pendingCount, acts_setAct, acts_credit, hid']

theorem run_counts (s : St) (ops : List Op) (u k i : Nat) :
    (run s ops).2.countP (isClosed u k i) + openCount (run s ops).1 u k i
      = (run s ops).2.countP (isCreated u k i) + openCount s u k i ∧
    (run s ops).2.countP (isExecuted u k i) + pendingCount (run s ops).1 u k i
      ≤ (run s ops).2.countP (isCreated u k i) + pendingCount s u k i := by
  induction ops generalizing s with
  | nil => simp [run]
  | cons op ops ih =>
    obtain ⟨i1, i2⟩ := ih (step s op).1
    obtain ⟨s1, s2⟩ := step_counts s op u k i
    simp only [run, List.countP_cons]
    constructor <;> omega

/-! ### who holds what: completed actions hold only proceeds, all others only refundable input -/

/-- every open action is well formed: a completed one has an empty input side (nothing left to refund), a pending or
cancelled one an empty output side (no proceeds). -/
def WellFormed (s : St) : Prop :=
  ∀ u k i act, s.acts u k i = some act →
    (act.state = 1 → inSide k act = (0, 0, 0)) ∧ (act.state ≠ 1 → outSide k act = (0, 0, 0))

theorem escrowOf_out {usr : User} {k a b l sh m : Nat} (h : escrowOf usr k a b = some (l, sh, m)) :
    outSide k ⟨0, l, sh, m, 0, 0, false, 0⟩ = (0, 0, 0) := by
  rcases k with _ | _ | _ | _ | k
  · simp [escrowOf] at h
    obtain ⟨_, _, _, hm⟩ := h; simp [outSide, ← hm]
  · simp [escrowOf] at h
    obtain ⟨_, hl, hs, _⟩ := h; simp [outSide, ← hl, ← hs]
  · simp [escrowOf] at h
    obtain ⟨_, _, hs, _⟩ := h; simp [outSide, ← hs]
  · simp [escrowOf] at h
    obtain ⟨_, hl, _, _⟩ := h; simp [outSide, ← hl]
  · simp [outSide]

theorem complete_wf {s s' : St} {u k i x y : Nat} {act : Act} (h : complete s u k i act x y = some s')
    (hout : outSide k act = (0, 0, 0)) :
    ∃ act', s'.acts = (setAct s u k i (some act')).acts ∧ act'.state = 1 ∧ inSide k act' = (0, 0, 0) ∧
      act'.receiver = act.receiver := by
  rcases k with _ | _ | _ | _ | k
  · simp only [complete] at h; simp at h; subst h
    exact ⟨_, rfl, rfl, by simp [inSide], rfl⟩
  · simp only [complete] at h; simp at h
    obtain ⟨_, rfl⟩ := h
    exact ⟨_, rfl, rfl, by simp [inSide], rfl⟩
  · simp only [complete] at h; simp at h
    obtain ⟨_, rfl⟩ := h
    exact ⟨_, rfl, rfl, by simp [inSide], rfl⟩
  · simp only [complete] at h; simp at h
    obtain ⟨_, rfl⟩ := h
    exact ⟨_, rfl, rfl, by simp [inSide], rfl⟩
  · simp only [complete] at h; simp at h; subst h
    exact ⟨_, rfl, rfl, by simp [inSide], rfl⟩

theorem wf_step {s : St} (hw : WellFormed s) (op : Op) : WellFormed (step s op).1 := by
  cases op with
  | tick dt => exact hw
  | price age => exact hw
  | create u k i a b soft el rc =>
    rcases Option.eq_none_or_eq_some (create s u k i a b soft el rc) with hc | ⟨s', hc⟩
    · simp only [step, hc]; exact hw
    · simp only [step, hc]
      obtain ⟨_, l, sh, m, he, _, rfl⟩ := create_some hc
      intro a b' c act hact
      simp only [acts_setAct] at hact
      split at hact
      · rename_i hid
        obtain ⟨rfl, rfl, rfl⟩ := hid
        cases hact
        refine ⟨fun h => by simp at h, fun _ => ?_⟩
        have := escrowOf_out he
        simpa [outSide] using this
      · exact hw a b' c act hact
  | exec who u k i fee throw fail x y hard =>
    rcases Option.eq_none_or_eq_some (exec s who u k i fee throw fail x y hard) with hc | ⟨⟨s', o, paid⟩, hc⟩
    · simp only [step, hc]; exact hw
    · simp only [step, hc]
      obtain ⟨_, _, act, hact, hst, _, hcase⟩ := exec_some hc
      have hout := (hw u k i act hact).2 (by omega)
      rcases hcase with ⟨_, _, rfl⟩ | ⟨_, _, _, hcomp⟩
      · intro a b c act2 h2
        simp only [acts_setAct] at h2
        split at h2
        · rename_i hid
          obtain ⟨rfl, rfl, rfl⟩ := hid
          cases h2
          exact ⟨fun h => by simp at h, fun _ => by simpa [outSide] using hout⟩
        · exact hw a b c act2 h2
      · obtain ⟨act', hacts, h1, hin, _⟩ := complete_wf hcomp hout
        intro a b c act2 h2
        rw [hacts] at h2
        simp only [acts_setAct] at h2
        split at h2
        · rename_i hid
          obtain ⟨rfl, rfl, rfl⟩ := hid
          cases h2
          exact ⟨fun _ => hin, fun h => absurd h1 h⟩
        · exact hw a b c act2 h2
  | close who u k i =>
    rcases Option.eq_none_or_eq_some (close s who u k i) with hc | ⟨s', hc⟩
    · simp only [step, hc]; exact hw
    · simp only [step, hc]
      obtain ⟨act, _, _, rfl⟩ := close_some hc
      intro a b c act2 h2
      simp only [acts_setAct, acts_credit] at h2
      split at h2
      · cases h2
      · exact hw a b c act2 h2

theorem wf_init (l sh : Nat) (now : Int) : WellFormed (init l sh now) := by
  intro u k i act h; simp [init] at h

theorem wf_run {s : St} (hw : WellFormed s) (ops : List Op) : WellFormed (run s ops).1 := by
  induction ops generalizing s with
  | nil => exact hw
  | cons op ops ih => exact ih (wf_step hw op)

end Gmx.Life2
