import Gmx.Model.Gt
/-! Helper lemmas for C30 (GT state). -/
namespace Gmx.Gt
open Gmx

theorem iterCost_add (U f : Nat) : ∀ (m n c : Nat),
    iterCost U f (m + n) c = (iterCost U f m c).bind (iterCost U f n)
  | 0, n, c => by simp [iterCost]
  | m + 1, n, c => by
    have e : m + 1 + n = (m + n) + 1 := by omega
    rw [e]
    simp only [iterCost]
    cases h : applyFactor 128 U c f with
    | none => simp
    | some c' => simp [iterCost_add U f m n c']

theorem sum_set (f : User → Nat) : ∀ (us : List User) (i : Nat) (u u' : User),
    us[i]? = some u → ((us.set i u').map f).sum + f u = (us.map f).sum + f u'
  | [], i, u, u', h => by simp at h
  | x :: xs, 0, u, u', h => by
    simp at h; subst h; simp [List.set]; omega
  | x :: xs, i + 1, u, u', h => by
    simp at h
    have := sum_set f xs i u u' h
    simp only [List.set_cons_succ, List.map_cons, List.sum_cons]; omega

theorem set_self : ∀ (us : List User) (i : Nat) (u : User), us[i]? = some u → us.set i u = us
  | [], _, _, h => by simp at h
  | x :: xs, 0, u, h => by simp at h; subst h; rfl
  | x :: xs, i + 1, u, h => by
    simp at h
    simp [List.set, set_self xs i u h]

theorem mem_set_self' : ∀ (us : List User) (i : Nat) (u : User), i < us.length → u ∈ us.set i u
  | [], _, _, h => by simp at h
  | x :: xs, 0, u, _ => by simp [List.set]
  | x :: xs, i + 1, u, h => by
    simp at h
    simp only [List.set_cons_succ]
    exact List.mem_cons_of_mem _ (mem_set_self' xs i u h)

theorem length_set' (us : List User) (i : Nat) (u : User) : (us.set i u).length = us.length := by
  simp

/-- full description of a successful non-zero mint. -/
theorem mintTo_ok {U : Nat} {now : Int} {g g' : Gt} {u u' : User} {amount : Nat}
    (hne : amount ≠ 0) (h : mintTo U now g u amount = .ok (g', u')) :
    ∃ nmc g1, nextMintingCost U g (g.totalMinted + amount) = .ok nmc ∧ updateCum U now g = .ok g1 ∧
      g.totalMinted + amount < 2 ^ 64 ∧ u.totalMinted + amount < 2 ^ 64 ∧
      u.amount + amount < 2 ^ 64 ∧ g.supply + amount < 2 ^ 64 ∧
      g' = { (match nmc with
              | some (steps, cost) => { g1 with mintingCost := cost, growSteps := steps }
              | none => g1) with
             totalMinted := g.totalMinted + amount, lastMintedAt := now,
             supply := g.supply + amount } ∧
      u' = { u with totalMinted := u.totalMinted + amount, amount := u.amount + amount,
                    lastMintedAt := now, rank := rankScan g.ranks (u.amount + amount) } := by
  unfold mintTo at h
  simp only [hne, if_false, checkedAdd, toU] at h
  by_cases h1 : g.totalMinted + amount < 2 ^ 64
  · simp only [h1, if_true] at h
    cases h2 : nextMintingCost U g (g.totalMinted + amount) with
    | error e => simp [h2] at h
    | ok nmc =>
      simp only [h2] at h
      by_cases h3 : u.totalMinted + amount < 2 ^ 64
      · simp only [h3, if_true] at h
        by_cases h4 : u.amount + amount < 2 ^ 64
        · simp only [h4, if_true] at h
          by_cases h5 : g.supply + amount < 2 ^ 64
          · simp only [h5, if_true] at h
            cases h6 : updateCum U now g with
            | error e => simp [h6] at h
            | ok g1 =>
              simp only [h6] at h
              injection h with h
              injection h with ha hb
              exact ⟨nmc, g1, rfl, rfl, h1, h3, h4, h5, ha.symm, hb.symm⟩
          · simp [h5] at h
        · simp [h4] at h
      · simp [h3] at h
  · simp [h1] at h

theorem updateCum_fields {U : Nat} {now : Int} {g g1 : Gt} (h : updateCum U now g = .ok g1) :
    g1.totalMinted = g.totalMinted ∧ g1.growStepAmount = g.growStepAmount ∧
    g1.growSteps = g.growSteps ∧ g1.supply = g.supply ∧ g1.gtVault = g.gtVault ∧
    g1.costGrowFactor = g.costGrowFactor ∧ g1.mintingCost = g.mintingCost ∧ g1.ranks = g.ranks := by
  unfold updateCum at h
  split at h
  · cases h
  · split at h
    · cases h
    · cases h; simp

/-- the accounting effect of a successful non-zero mint. -/
theorem mintTo_effect {U : Nat} {now : Int} {g g' : Gt} {u u' : User} {amount : Nat}
    (hne : amount ≠ 0) (h : mintTo U now g u amount = .ok (g', u')) :
    g'.totalMinted = g.totalMinted + amount ∧ g'.supply = g.supply + amount ∧
    g'.gtVault = g.gtVault ∧ g'.ranks = g.ranks ∧ g'.growStepAmount = g.growStepAmount ∧
    g'.costGrowFactor = g.costGrowFactor ∧
    u'.amount = u.amount + amount ∧ u'.totalMinted = u.totalMinted + amount ∧
    u'.exchange = u.exchange ∧ u'.rank = rankScan g.ranks u'.amount ∧
    g.growStepAmount ≠ 0 ∧
    g'.growSteps = (g.totalMinted + amount) / g.growStepAmount ∧
    iterCost U g.costGrowFactor (g'.growSteps - g.growSteps) g.mintingCost = some g'.mintingCost := by
  obtain ⟨nmc, g1, h2, h6, _, _, _, _, rfl, rfl⟩ := mintTo_ok hne h
  obtain ⟨f1, f2, f3, f4, f5, f6, f7, f8⟩ := updateCum_fields h6
  unfold nextMintingCost at h2
  by_cases hs : g.growStepAmount = 0
  · simp [hs] at h2
  · simp only [hs, if_false] at h2
    by_cases hne' : (g.totalMinted + amount) / g.growStepAmount = g.growSteps
    · simp only [hne', ne_eq, not_true_eq_false, if_false] at h2
      injection h2 with h2; subst h2
      simp [f2, f3, f5, f6, f7, f8, hs, hne', iterCost]
    · simp only [hne', ne_eq, not_false_eq_true, if_true] at h2
      cases hc : iterCost U g.costGrowFactor ((g.totalMinted + amount) / g.growStepAmount - g.growSteps)
          g.mintingCost with
      | none => simp [hc] at h2
      | some c =>
        simp only [hc] at h2
        injection h2 with h2; subst h2
        simp [f2, f5, f6, f8, hs, hc]

theorem burnFrom_effect {g g' : Gt} {u u' : User} {amount : Nat} (hne : amount ≠ 0)
    (h : burnFrom g u amount = .ok (g', u')) :
    amount ≤ u.amount ∧ amount ≤ g.supply ∧ g'.supply = g.supply - amount ∧
    u'.amount = u.amount - amount ∧ g' = { g with supply := g.supply - amount } ∧
    u'.totalMinted = u.totalMinted ∧ u'.exchange = u.exchange ∧
    u'.rank = rankScan g.ranks u'.amount := by
  unfold burnFrom checkedSub at h
  simp only [hne, if_false] at h
  by_cases h1 : u.amount < amount
  · simp [h1] at h
  · simp only [h1, if_false] at h
    by_cases h2 : amount ≤ g.supply
    · simp only [h2, if_true] at h
      injection h with h; injection h with ha hb
      subst ha; subst hb
      simp; omega
    · simp [h2] at h

end Gmx.Gt
