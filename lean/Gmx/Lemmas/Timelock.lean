import Gmx.Model.Timelock
/-! Helper lemmas for C36. -/
namespace Gmx.Tl

theorem storeMetas_signer (r : Nat) (signers : List Nat) : ∀ (accs : List (Nat × Bool)) (idx : Nat) (ms : List Meta),
    storeMetas r signers idx accs = some ms → ∀ m ∈ ms, m.signer = true → m.key = wallet r := by
  intro accs
  induction accs with
  | nil => intro idx ms h m hm; simp [storeMetas] at h; subst h; cases hm
  | cons a rest ih =>
    intro idx ms h m hm hs
    obtain ⟨k, w⟩ := a
    simp only [storeMetas] at h
    split at h
    · cases h
    · rename_i hcond
      cases hr : storeMetas r signers (idx + 1) rest with
      | none => simp [hr] at h
      | some ms' =>
        simp only [hr, Option.map_some, Option.some.injEq] at h
        subst h
        rcases List.mem_cons.1 hm with rfl | hm'
        · simp only at hs
          simp only [hs, Bool.true_and, bne_iff_ne, ne_eq, Bool.not_eq_true, decide_eq_false_iff_not, Decidable.not_not] at hcond
          simpa using hcond
        · exact ih (idx + 1) ms' hr m hm' hs

/-- positional content of the stored metas: keys and writable flags are the request's, the signer
flag is membership of the index in `signers`. -/
theorem storeMetas_content (r : Nat) (signers : List Nat) : ∀ (accs : List (Nat × Bool)) (idx : Nat) (ms : List Meta),
    storeMetas r signers idx accs = some ms →
      ms.map (fun m => (m.key, m.writable)) = accs ∧ ms.length = accs.length ∧
      ∀ i (h : i < ms.length), (ms[i]).signer = signers.contains (idx + i) := by
  intro accs
  induction accs with
  | nil => intro idx ms h; simp [storeMetas] at h; subst h; simp
  | cons a rest ih =>
    intro idx ms h
    obtain ⟨k, w⟩ := a
    simp only [storeMetas] at h
    split at h
    · cases h
    · cases hr : storeMetas r signers (idx + 1) rest with
      | none => simp [hr] at h
      | some ms' =>
        simp only [hr, Option.map_some, Option.some.injEq] at h
        subst h
        obtain ⟨h1, h2, h3⟩ := ih (idx + 1) ms' hr
        refine ⟨by simp [h1], by simp [h2], ?_⟩
        intro i hi
        cases i with
        | zero => simp
        | succ j =>
          simp only [List.getElem_cons_succ]
          have := h3 j (by simpa using hi)
          rw [this]
          congr 1
          omega

/-- state invariant: approval flag and approver agree; only the role's wallet is ever a signer. -/
structure Inv (s : St) : Prop where
  flag : ∀ id b, s.bufs id = some b → (b.approved = true ↔ b.approver.isSome = true)
  signer : ∀ id b, s.bufs id = some b → ∀ m ∈ b.ix.metas, m.signer = true → m.key = wallet b.role

theorem bufs_setBuf (s : St) (id : Nat) (b : Option Buf) (i : Nat) :
    (setBuf s id b).bufs i = if i = id then b else s.bufs i := rfl

theorem inv_setBuf_none {s : St} (h : Inv s) (id : Nat) : Inv (setBuf s id none) := by
  constructor
  · intro i b hb; rw [bufs_setBuf] at hb; split at hb; · cases hb
    exact h.flag i b hb
  · intro i b hb; rw [bufs_setBuf] at hb; split at hb; · cases hb
    exact h.signer i b hb

theorem inv_setBuf_some {s : St} (h : Inv s) (id : Nat) (b : Buf)
    (h1 : b.approved = true ↔ b.approver.isSome = true)
    (h2 : ∀ m ∈ b.ix.metas, m.signer = true → m.key = wallet b.role) : Inv (setBuf s id (some b)) := by
  constructor
  · intro i b' hb; rw [bufs_setBuf] at hb; split at hb
    · cases hb; exact h1
    · exact h.flag i b' hb
  · intro i b' hb; rw [bufs_setBuf] at hb; split at hb
    · cases hb; exact h2
    · exact h.signer i b' hb

theorem create_some {s s' : St} {caller id r prog numAcc dataLen actualLen : Nat} {data : String}
    {signers : List Nat} {accs : List (Nat × Bool)} {ix : Ix}
    (h : create s caller id r prog numAcc dataLen actualLen data signers accs = some (s', ix)) :
    s.mem caller KEEPER = true ∧ s.bufs id = none ∧ numAcc ≤ accs.length ∧ actualLen = dataLen ∧
    ix.prog = prog ∧ ix.data = data ∧ storeMetas r signers 0 (accs.take numAcc) = some ix.metas ∧
    s' = setBuf s id (some ⟨r, false, 0, none, caller, ix⟩) := by
  unfold create at h
  split at h; · cases h
  rename_i hk
  split at h; · cases h
  rename_i he
  split at h; · cases h
  rename_i hl
  split at h; · cases h
  rename_i hd
  split at h
  · cases h
  · rename_i ms hms
    cases h
    refine ⟨by simpa using hk, ?_, by omega, by simpa using hd, rfl, rfl, hms, rfl⟩
    cases hb : s.bufs id with
    | none => rfl
    | some b => simp [hb] at he

theorem approve_some {s s' : St} {now : Int} {caller id r : Nat} (h : approve s now caller id r = some s') :
    ∃ b, s.bufs id = some b ∧ b.role = r ∧ s.mem caller (tld r) = true ∧ b.approved = false ∧ b.approver = none ∧
      s' = setBuf s id (some { b with approved := true, approvedAt := now, approver := some caller }) := by
  unfold approve at h
  split at h; · cases h
  rename_i b hb
  split at h; · cases h
  rename_i h1
  split at h; · cases h
  rename_i h2
  split at h; · cases h
  rename_i h3
  split at h; · cases h
  rename_i h4
  cases h
  refine ⟨b, hb, by simpa using h1, by simpa using h2, by simpa using h3, ?_, rfl⟩
  cases ha : b.approver with
  | none => rfl
  | some a => simp [ha] at h4

/-- a successful batch approval: the caller holds the timelocked role named by the call; every listed buffer exists,
belongs to THAT role's executor, was unapproved and is now approved by the caller at `now`; nothing else changes;
no buffer is listed twice. -/
theorem approveBatch_some {now : Int} {caller r : Nat} : ∀ (ids : List Nat) {s s' : St},
    approveBatch s now caller r ids = some s' →
    s.mem caller (tld r) = true ∧ s'.delay = s.delay ∧ s'.mem = s.mem ∧
    (∀ id, id ∈ ids → ∃ b, s.bufs id = some b ∧ b.role = r ∧ b.approved = false ∧ b.approver = none ∧
        s'.bufs id = some { b with approved := true, approvedAt := now, approver := some caller }) ∧
    (∀ id, id ∉ ids → s'.bufs id = s.bufs id) ∧ ids.Nodup := by
  intro ids
  induction ids with
  | nil =>
    intro s s' h
    simp only [approveBatch] at h
    split at h
    · rename_i hm; cases h
      exact ⟨hm, rfl, rfl, fun id hid => by simp at hid, fun _ _ => rfl, List.nodup_nil⟩
    · cases h
  | cons id ids ih =>
    intro s s' h
    simp only [approveBatch] at h
    rcases Option.eq_none_or_eq_some (approve s now caller id r) with ha | ⟨s1, ha⟩
    · rw [ha] at h; cases h
    · rw [ha] at h
      obtain ⟨b, hb, hr, hm, h1, h2, rfl⟩ := approve_some ha
      obtain ⟨_, hd, hmem, hin, hout, hnd⟩ := ih h
      have hnotin : id ∉ ids := by
        intro hmem'
        obtain ⟨b', hb', _, hna, _⟩ := hin id hmem'
        simp [bufs_setBuf] at hb'
        subst hb'
        simp at hna
      refine ⟨hm, hd, hmem, ?_, ?_, List.nodup_cons.2 ⟨hnotin, hnd⟩⟩
      · intro j hj
        rcases List.mem_cons.1 hj with rfl | hj'
        · exact ⟨b, hb, hr, h1, h2, by rw [hout j hnotin]; simp [bufs_setBuf]⟩
        · obtain ⟨b', hb', rest⟩ := hin j hj'
          have hne : j ≠ id := fun e => hnotin (e ▸ hj')
          simp [bufs_setBuf, hne] at hb'
          exact ⟨b', hb', rest⟩
      · intro j hj
        have hne : j ≠ id := fun e => hj (e ▸ List.mem_cons_self)
        have hni : j ∉ ids := fun e => hj (List.mem_cons_of_mem _ e)
        rw [hout j hni]; simp [bufs_setBuf, hne]

theorem cancel_some {s s' : St} {caller id r rr : Nat} (h : cancel s caller id r rr = some s') :
    ∃ b, s.bufs id = some b ∧ b.role = r ∧ b.rentReceiver = rr ∧ s.mem caller ADMIN = true ∧ s' = setBuf s id none := by
  unfold cancel at h
  split at h; · cases h
  rename_i b hb
  split at h; · cases h
  rename_i h1
  split at h; · cases h
  rename_i h2
  split at h; · cases h
  rename_i h3
  cases h
  exact ⟨b, hb, by simpa using h1, by simpa using h2, by simpa using h3, rfl⟩

/-- a successful batch cancel: the caller is a TIMELOCK_ADMIN; every listed buffer exists, belongs to the executor named
by the call and records the rent receiver named by the call, and is closed; nothing else changes; no buffer twice. -/
theorem cancelBatch_some {caller r rr : Nat} : ∀ (ids : List Nat) {s s' : St},
    cancelBatch s caller r rr ids = some s' →
    s.mem caller ADMIN = true ∧ s'.delay = s.delay ∧ s'.mem = s.mem ∧
    (∀ id, id ∈ ids → ∃ b, s.bufs id = some b ∧ b.role = r ∧ b.rentReceiver = rr ∧ s'.bufs id = none) ∧
    (∀ id, id ∉ ids → s'.bufs id = s.bufs id) ∧ ids.Nodup := by
  intro ids
  induction ids with
  | nil =>
    intro s s' h
    simp only [cancelBatch] at h
    split at h
    · rename_i hm; cases h
      exact ⟨hm, rfl, rfl, fun id hid => by simp at hid, fun _ _ => rfl, List.nodup_nil⟩
    · cases h
  | cons id ids ih =>
    intro s s' h
    simp only [cancelBatch] at h
    rcases Option.eq_none_or_eq_some (cancel s caller id r rr) with ha | ⟨s1, ha⟩
    · rw [ha] at h; cases h
    · rw [ha] at h
      obtain ⟨b, hb, hr, hrr, hm, rfl⟩ := cancel_some ha
      obtain ⟨_, hd, hmem, hin, hout, hnd⟩ := ih h
      have hnotin : id ∉ ids := by
        intro hmem'
        obtain ⟨b', hb', _⟩ := hin id hmem'
        simp [bufs_setBuf] at hb'
      refine ⟨hm, hd, hmem, ?_, ?_, List.nodup_cons.2 ⟨hnotin, hnd⟩⟩
      · intro j hj
        rcases List.mem_cons.1 hj with rfl | hj'
        · exact ⟨b, hb, hr, hrr, by rw [hout j hnotin]; simp [bufs_setBuf]⟩
        · obtain ⟨b', hb', rest⟩ := hin j hj'
          have hne : j ≠ id := fun e => hnotin (e ▸ hj')
          simp [bufs_setBuf, hne] at hb'
          exact ⟨b', hb', rest⟩
      · intro j hj
        have hne : j ≠ id := fun e => hj (e ▸ List.mem_cons_self)
        have hni : j ∉ ids := fun e => hj (List.mem_cons_of_mem _ e)
        rw [hout j hni]; simp [bufs_setBuf, hne]

theorem exec_some {s s' : St} {now : Int} {caller id r rr : Nat} {ix : Ix}
    (h : exec s now caller id r rr = some (s', ix)) :
    ∃ b a, s.bufs id = some b ∧ b.role = r ∧ b.rentReceiver = rr ∧ s.mem caller KEEPER = true ∧
      b.approver = some a ∧ s.mem a (tld b.role) = true ∧ b.approved = true ∧
      executableAt b.approvedAt s.delay ≤ now ∧ ix = b.ix ∧ s' = setBuf s id none := by
  unfold exec at h
  split at h; · cases h
  rename_i b hb
  split at h; · cases h
  rename_i h1
  split at h; · cases h
  rename_i h2
  split at h; · cases h
  rename_i h3
  split at h
  · cases h
  · rename_i a ha
    split at h; · cases h
    rename_i h4
    split at h; · cases h
    rename_i h5
    split at h; · cases h
    rename_i h6
    cases h
    exact ⟨b, a, hb, by simpa using h1, by simpa using h2, by simpa using h3, ha, by simpa using h4,
      by simpa using h5, by omega, rfl, rfl⟩

theorem inv_step {s : St} (h : Inv s) (op : Op) : Inv (step s op).1 := by
  cases op with
  | grant u role =>
    simp only [step]
    cases hg : grant s u role with
    | none => exact h
    | some s' =>
      unfold grant at hg; split at hg; · cases hg
      cases hg; exact ⟨h.flag, h.signer⟩
  | revoke u role =>
    simp only [step]
    cases hg : revoke s u role with
    | none => exact h
    | some s' =>
      unfold revoke at hg; split at hg; · cases hg
      cases hg; exact ⟨h.flag, h.signer⟩
  | create now caller id r prog numAcc dataLen actualLen data signers accs =>
    simp only [step]
    cases hc : create s caller id r prog numAcc dataLen actualLen data signers accs with
    | none => exact h
    | some p =>
      obtain ⟨s', ix⟩ := p
      obtain ⟨_, _, _, _, _, _, hm, rfl⟩ := create_some hc
      exact inv_setBuf_some h id _ (by simp) (storeMetas_signer r signers _ 0 _ hm)
  | approve now caller id r =>
    simp only [step]
    cases hc : approve s now caller id r with
    | none => exact h
    | some s' =>
      obtain ⟨b, hb, hr, _, _, _, rfl⟩ := approve_some hc
      exact inv_setBuf_some h id _ (by simp) (h.signer id b hb)
  | approveb now caller r ids =>
    simp only [step]
    cases hc : approveBatch s now caller r ids with
    | none => exact h
    | some s' =>
      obtain ⟨_, _, _, hin, hout, _⟩ := approveBatch_some ids hc
      constructor
      · intro i b' hb'
        by_cases hi : i ∈ ids
        · obtain ⟨b, hb, _, _, _, hs'⟩ := hin i hi
          rw [hs'] at hb'; cases hb'; simp
        · rw [hout i hi] at hb'; exact h.flag i b' hb'
      · intro i b' hb'
        by_cases hi : i ∈ ids
        · obtain ⟨b, hb, _, _, _, hs'⟩ := hin i hi
          rw [hs'] at hb'; cases hb'; exact h.signer i b hb
        · rw [hout i hi] at hb'; exact h.signer i b' hb'
  | cancel now caller id r rr =>
    simp only [step]
    cases hc : cancel s caller id r rr with
    | none => exact h
    | some s' =>
      obtain ⟨b, _, _, _, _, rfl⟩ := cancel_some hc
      exact inv_setBuf_none h id
  | cancelb now caller r rr ids =>
    simp only [step]
    cases hc : cancelBatch s caller r rr ids with
    | none => exact h
    | some s' =>
      obtain ⟨_, _, _, hin, hout, _⟩ := cancelBatch_some ids hc
      constructor
      · intro i b' hb'
        by_cases hi : i ∈ ids
        · obtain ⟨b, _, _, _, hs'⟩ := hin i hi
          rw [hs'] at hb'; cases hb'
        · rw [hout i hi] at hb'; exact h.flag i b' hb'
      · intro i b' hb'
        by_cases hi : i ∈ ids
        · obtain ⟨b, _, _, _, hs'⟩ := hin i hi
          rw [hs'] at hb'; cases hb'
        · rw [hout i hi] at hb'; exact h.signer i b' hb'
  | exec now caller id r rr =>
    simp only [step]
    cases hc : exec s now caller id r rr with
    | none => exact h
    | some p =>
      obtain ⟨s', ix⟩ := p
      obtain ⟨b, a, _, _, _, _, _, _, _, _, _, rfl⟩ := exec_some hc
      exact inv_setBuf_none h id
  | delay now caller delta =>
    simp only [step]
    cases hc : increaseDelay s caller delta with
    | none => exact h
    | some s' =>
      unfold increaseDelay at hc
      split at hc; · cases hc
      split at hc; · cases hc
      split at hc; · cases hc
      cases hc; exact ⟨h.flag, h.signer⟩

theorem inv_init (d : Nat) : Inv (init d) := by
  constructor
  · intro id b h; simp [init] at h
  · intro id b h; simp [init] at h

theorem inv_run {s : St} (h : Inv s) (ops : List Op) : Inv (run s ops).1 := by
  induction ops generalizing s with
  | nil => exact h
  | cons op ops ih => exact ih (inv_step h op)

theorem delay_step (s : St) (op : Op) : s.delay ≤ (step s op).1.delay := by
  cases op with
  | grant u role =>
    simp only [step]; cases hg : grant s u role with
    | none => exact Nat.le_refl _
    | some s' => unfold grant at hg; split at hg; · cases hg
                 cases hg; exact Nat.le_refl _
  | revoke u role =>
    simp only [step]; cases hg : revoke s u role with
    | none => exact Nat.le_refl _
    | some s' => unfold revoke at hg; split at hg; · cases hg
                 cases hg; exact Nat.le_refl _
  | create now caller id r prog numAcc dataLen actualLen data signers accs =>
    simp only [step]
    cases hc : create s caller id r prog numAcc dataLen actualLen data signers accs with
    | none => exact Nat.le_refl _
    | some p => obtain ⟨s', ix⟩ := p; obtain ⟨_, _, _, _, _, _, _, rfl⟩ := create_some hc; exact Nat.le_refl _
  | approve now caller id r =>
    simp only [step]
    cases hc : approve s now caller id r with
    | none => exact Nat.le_refl _
    | some s' => obtain ⟨b, _, _, _, _, _, rfl⟩ := approve_some hc; exact Nat.le_refl _
  | approveb now caller r ids =>
    simp only [step]
    cases hc : approveBatch s now caller r ids with
    | none => exact Nat.le_refl _
    | some s' => obtain ⟨_, hd, _⟩ := approveBatch_some ids hc; rw [hd]; exact Nat.le_refl _
  | cancel now caller id r rr =>
    simp only [step]
    cases hc : cancel s caller id r rr with
    | none => exact Nat.le_refl _
    | some s' => obtain ⟨b, _, _, _, _, rfl⟩ := cancel_some hc; exact Nat.le_refl _
  | cancelb now caller r rr ids =>
    simp only [step]
    cases hc : cancelBatch s caller r rr ids with
    | none => exact Nat.le_refl _
    | some s' => obtain ⟨_, hd, _⟩ := cancelBatch_some ids hc; rw [hd]; exact Nat.le_refl _
  | exec now caller id r rr =>
    simp only [step]
    cases hc : exec s now caller id r rr with
    | none => exact Nat.le_refl _
    | some p => obtain ⟨s', ix⟩ := p; obtain ⟨b, a, _, _, _, _, _, _, _, _, _, rfl⟩ := exec_some hc; exact Nat.le_refl _
  | delay now caller delta =>
    simp only [step]
    cases hc : increaseDelay s caller delta with
    | none => exact Nat.le_refl _
    | some s' =>
      unfold increaseDelay at hc
      split at hc; · cases hc
      split at hc; · cases hc
      split at hc; · cases hc
      cases hc; simp

/-! ### counting events of one buffer id -/

def isCreated (id : Nat) : Event → Bool | .created i _ => i == id | _ => false
def isClosed (id : Nat) : Event → Bool | .cancelled i => i == id | .cancelledBatch ids => ids.contains id | .executed i _ => i == id | _ => false
def isApproved (id : Nat) : Event → Bool | .approved i _ => i == id | .approvedBatch ids _ => ids.contains id | _ => false

def openCount (s : St) (id : Nat) : Nat := if (s.bufs id).isSome then 1 else 0
def pendingCount (s : St) (id : Nat) : Nat :=
  match s.bufs id with | some b => if b.approved then 0 else 1 | none => 0


theorem step_counts (s : St) (op : Op) (id : Nat) :
    (if isClosed id (step s op).2 then 1 else 0) + openCount (step s op).1 id
        = (if isCreated id (step s op).2 then 1 else 0) + openCount s id ∧
    (if isApproved id (step s op).2 then 1 else 0) + pendingCount (step s op).1 id
        ≤ (if isCreated id (step s op).2 then 1 else 0) + pendingCount s id := by
  cases op with
  | grant u role =>
    rcases Option.eq_none_or_eq_some (grant s u role) with hg | ⟨s', hg⟩
    · simp [step, hg, isClosed, isCreated, isApproved]
    · have e : s'.bufs = s.bufs := by
        unfold grant at hg; split at hg; · cases hg
        cases hg; rfl
      simp [step, hg, isClosed, isCreated, isApproved, openCount, pendingCount, e]
  | revoke u role =>
    rcases Option.eq_none_or_eq_some (revoke s u role) with hg | ⟨s', hg⟩
    · simp [step, hg, isClosed, isCreated, isApproved]
    · have e : s'.bufs = s.bufs := by
        unfold revoke at hg; split at hg; · cases hg
        cases hg; rfl
      simp [step, hg, isClosed, isCreated, isApproved, openCount, pendingCount, e]
  | delay now caller delta =>
    rcases Option.eq_none_or_eq_some (increaseDelay s caller delta) with hc | ⟨s', hc⟩
    · simp [step, hc, isClosed, isCreated, isApproved]
    · have e : s'.bufs = s.bufs := by
        unfold increaseDelay at hc
        split at hc; · cases hc
        split at hc; · cases hc
        split at hc; · cases hc
        cases hc; rfl
      simp [step, hc, isClosed, isCreated, isApproved, openCount, pendingCount, e]
  | create now caller i r prog numAcc dataLen actualLen data signers accs =>
    rcases Option.eq_none_or_eq_some (create s caller i r prog numAcc dataLen actualLen data signers accs) with hc | ⟨p, hc⟩
    · simp [step, hc, isClosed, isCreated, isApproved]
    · obtain ⟨s', ix⟩ := p
      obtain ⟨_, hnone, _, _, _, _, _, rfl⟩ := create_some hc
      by_cases hi : i = id
      · subst hi; simp [step, hc, isClosed, isCreated, isApproved, openCount, pendingCount, bufs_setBuf, hnone]
      · have : id ≠ i := fun h => hi h.symm
        simp [step, hc, isClosed, isCreated, isApproved, openCount, pendingCount, bufs_setBuf, hi, this]
  | approve now caller i r =>
    rcases Option.eq_none_or_eq_some (approve s now caller i r) with hc | ⟨s', hc⟩
    · simp [step, hc, isClosed, isCreated, isApproved]
    · obtain ⟨b, hb, _, _, hna, _, rfl⟩ := approve_some hc
      by_cases hi : i = id
      · subst hi; simp [step, hc, isClosed, isCreated, isApproved, openCount, pendingCount, bufs_setBuf, hb, hna]
      · have : id ≠ i := fun h => hi h.symm
        simp [step, hc, isClosed, isCreated, isApproved, openCount, pendingCount, bufs_setBuf, hi, this]
  | approveb now caller r ids =>
    rcases Option.eq_none_or_eq_some (approveBatch s now caller r ids) with hc | ⟨s', hc⟩
    · simp [step, hc, isClosed, isCreated, isApproved]
    · obtain ⟨_, _, _, hin, hout, _⟩ := approveBatch_some ids hc
      by_cases hi : id ∈ ids
      · obtain ⟨b, hb, _, hna, _, hs'⟩ := hin id hi
        simp [step, hc, isClosed, isCreated, isApproved, openCount, pendingCount, hb, hs', hna, hi]
      · have e := hout id hi
        simp [step, hc, isClosed, isCreated, isApproved, openCount, pendingCount, e, hi]
  | cancel now caller i r rr =>
    rcases Option.eq_none_or_eq_some (cancel s caller i r rr) with hc | ⟨s', hc⟩
    · simp [step, hc, isClosed, isCreated, isApproved]
    · obtain ⟨b, hb, _, _, _, rfl⟩ := cancel_some hc
      by_cases hi : i = id
      · subst hi; simp [step, hc, isClosed, isCreated, isApproved, openCount, pendingCount, bufs_setBuf, hb]
      · have : id ≠ i := fun h => hi h.symm
        simp [step, hc, isClosed, isCreated, isApproved, openCount, pendingCount, bufs_setBuf, hi, this]
  | cancelb now caller r rr ids =>
    rcases Option.eq_none_or_eq_some (cancelBatch s caller r rr ids) with hc | ⟨s', hc⟩
    · simp [step, hc, isClosed, isCreated, isApproved]
    · obtain ⟨_, _, _, hin, hout, _⟩ := cancelBatch_some ids hc
      by_cases hi : id ∈ ids
      · obtain ⟨b, hb, _, _, hs'⟩ := hin id hi
        simp [step, hc, isClosed, isCreated, isApproved, openCount, pendingCount, hb, hs', hi]
      · have e := hout id hi
        simp [step, hc, isClosed, isCreated, isApproved, openCount, pendingCount, e, hi]
  | exec now caller i r rr =>
    rcases Option.eq_none_or_eq_some (exec s now caller i r rr) with hc | ⟨p, hc⟩
    · simp [step, hc, isClosed, isCreated, isApproved]
    · obtain ⟨s', ix⟩ := p
      obtain ⟨b, a, hb, _, _, _, _, _, _, _, _, rfl⟩ := exec_some hc
      by_cases hi : i = id
      · subst hi; simp [step, hc, isClosed, isCreated, isApproved, openCount, pendingCount, bufs_setBuf, hb]
      · have : id ≠ i := fun h => hi h.symm
        simp [step, hc, isClosed, isCreated, isApproved, openCount, pendingCount, bufs_setBuf, hi, this]

/-! ### ghost: every approved buffer was approved by a holder of ITS OWN timelocked role -/

def GInv (g : GSt) : Prop := ∀ id b, g.s.bufs id = some b → b.approved = true → g.held id = true

theorem gstep_fst (g : GSt) (op : Op) : (gstep g op).1.s = (step g.s op).1 ∧ (gstep g op).2 = (step g.s op).2 := ⟨rfl, rfl⟩

theorem ginv_step {g : GSt} (h : GInv g) (op : Op) : GInv (gstep g op).1 := by
  cases op with
  | grant u role =>
    have e : ((step g.s (.grant u role)).1).bufs = g.s.bufs := by
      simp only [step]
      cases hg : grant g.s u role with
      | none => rfl
      | some s' => unfold grant at hg; split at hg; · cases hg
                   cases hg; rfl
    intro id b hb; simp only [gstep, step] at hb ⊢; exact h id b (by rw [← e]; exact hb)
  | revoke u role =>
    have e : ((step g.s (.revoke u role)).1).bufs = g.s.bufs := by
      simp only [step]
      cases hg : revoke g.s u role with
      | none => rfl
      | some s' => unfold revoke at hg; split at hg; · cases hg
                   cases hg; rfl
    intro id b hb; simp only [gstep, step] at hb ⊢; exact h id b (by rw [← e]; exact hb)
  | delay now caller delta =>
    have e : ((step g.s (.delay now caller delta)).1).bufs = g.s.bufs := by
      simp only [step]
      cases hc : increaseDelay g.s caller delta with
      | none => rfl
      | some s' =>
        unfold increaseDelay at hc
        split at hc; · cases hc
        split at hc; · cases hc
        split at hc; · cases hc
        cases hc; rfl
    intro id b hb; simp only [gstep, step] at hb ⊢; exact h id b (by rw [← e]; exact hb)
  | create now caller i r prog numAcc dataLen actualLen data signers accs =>
    rcases Option.eq_none_or_eq_some (create g.s caller i r prog numAcc dataLen actualLen data signers accs) with hc | ⟨p, hc⟩
    · intro id b hb; simp only [gstep, step, hc] at hb ⊢; exact h id b hb
    · obtain ⟨s', ix⟩ := p
      obtain ⟨_, _, _, _, _, _, _, rfl⟩ := create_some hc
      intro id b hb hap
      simp only [gstep, step, hc] at hb ⊢
      rw [bufs_setBuf] at hb
      by_cases hi : id = i
      · simp [hi] at hb; subst hb; simp at hap
      · simp [hi] at hb ⊢; exact h id b hb hap
  | approve now caller i r =>
    rcases Option.eq_none_or_eq_some (approve g.s now caller i r) with hc | ⟨s', hc⟩
    · intro id b hb; simp only [gstep, step, hc] at hb ⊢; exact h id b hb
    · obtain ⟨b0, hb0, hr, hm, _, _, rfl⟩ := approve_some hc
      intro id b hb hap
      simp only [gstep, step, hc] at hb ⊢
      rw [bufs_setBuf] at hb
      by_cases hi : id = i
      · subst hi; simp [heldNow, hb0, hr, hm]
      · simp [hi] at hb ⊢; exact h id b hb hap
  | approveb now caller r ids =>
    rcases Option.eq_none_or_eq_some (approveBatch g.s now caller r ids) with hc | ⟨s', hc⟩
    · intro id b hb; simp only [gstep, step, hc] at hb ⊢; exact h id b hb
    · obtain ⟨hm, _, _, hin, hout, _⟩ := approveBatch_some ids hc
      intro id b hb hap
      simp only [gstep, step, hc] at hb ⊢
      by_cases hi : id ∈ ids
      · obtain ⟨b0, hb0, hr, _, _, _⟩ := hin id hi
        simp [hi, heldNow, hb0, hr, hm]
      · rw [hout id hi] at hb
        simp [hi]; exact h id b hb hap
  | cancel now caller i r rr =>
    rcases Option.eq_none_or_eq_some (cancel g.s caller i r rr) with hc | ⟨s', hc⟩
    · intro id b hb; simp only [gstep, step, hc] at hb ⊢; exact h id b hb
    · obtain ⟨b0, _, _, _, _, rfl⟩ := cancel_some hc
      intro id b hb hap
      simp only [gstep, step, hc] at hb ⊢
      rw [bufs_setBuf] at hb
      split at hb
      · cases hb
      · exact h id b hb hap
  | cancelb now caller r rr ids =>
    rcases Option.eq_none_or_eq_some (cancelBatch g.s caller r rr ids) with hc | ⟨s', hc⟩
    · intro id b hb; simp only [gstep, step, hc] at hb ⊢; exact h id b hb
    · obtain ⟨_, _, _, hin, hout, _⟩ := cancelBatch_some ids hc
      intro id b hb hap
      simp only [gstep, step, hc] at hb ⊢
      by_cases hi : id ∈ ids
      · obtain ⟨b0, _, _, _, hs'⟩ := hin id hi
        rw [hs'] at hb; cases hb
      · rw [hout id hi] at hb; exact h id b hb hap
  | exec now caller i r rr =>
    rcases Option.eq_none_or_eq_some (exec g.s now caller i r rr) with hc | ⟨p, hc⟩
    · intro id b hb; simp only [gstep, step, hc] at hb ⊢; exact h id b hb
    · obtain ⟨s', ix⟩ := p
      obtain ⟨b0, a, _, _, _, _, _, _, _, _, _, rfl⟩ := exec_some hc
      intro id b hb hap
      simp only [gstep, step, hc] at hb ⊢
      rw [bufs_setBuf] at hb
      split at hb
      · cases hb
      · exact h id b hb hap

theorem ginv_init (d : Nat) : GInv (ginit d) := by
  intro id b hb; simp [ginit, init] at hb

theorem ginv_run {g : GSt} (h : GInv g) (ops : List Op) : GInv (grun g ops).1 := by
  induction ops generalizing g with
  | nil => exact h
  | cons op ops ih => exact ih (ginv_step h op)

/-- the ghost run is the plain run with the ghost attached. -/
theorem grun_run (g : GSt) (ops : List Op) : (grun g ops).1.s = (run g.s ops).1 ∧ (grun g ops).2 = (run g.s ops).2 := by
  induction ops generalizing g with
  | nil => exact ⟨rfl, rfl⟩
  | cons op ops ih =>
    obtain ⟨h1, h2⟩ := ih (gstep g op).1
    exact ⟨h1, by simp only [grun, run]; rw [h2]; rfl⟩

end Gmx.Tl
