import Gmx.Model.Borrowing
import Gmx.Props.C01
/-! Helper lemmas for C13 (borrowing). -/
namespace Gmx.Lem
open Gmx Gmx.Perp

theorem optB_ok {α : Type} {e : BErr} {o : Option α} {a : α} (h : optB e o = .ok a) : o = some a := by
  cases o with
  | none => cases h
  | some b => cases h; rfl

theorem div_add_div_le (a b U : Nat) : a / U + b / U ≤ (a + b) / U := by
  by_cases hU : U = 0
  · subst hU; simp
  · have hpos : 0 < U := Nat.pos_of_ne_zero hU
    rw [Nat.le_div_iff_mul_le hpos, Nat.add_mul]
    have := Nat.div_mul_le_self a U
    have := Nat.div_mul_le_self b U
    omega

/-- `update_total_borrowing`: exact effect on the recorded total. -/
theorem updateTotalBorrowing_eq {W U size bf ns nbf total t : Nat}
    (h : updateTotalBorrowing W U size bf ns nbf total = .ok t) :
    U ≠ 0 ∧ t + size * bf / U = total + ns * nbf / U := by
  unfold updateTotalBorrowing at h
  split at h
  · cases h
  · rename_i prev hp
    obtain ⟨hU, rfl, _⟩ := (C01.mulDiv_spec _ _ _ _ _).1 hp
    split at h
    · cases h
    · rename_i next hn
      obtain ⟨_, rfl, _⟩ := (C01.mulDiv_spec _ _ _ _ _).1 hn
      split at h
      · cases h
      · rename_i d hd
        refine ⟨hU, ?_⟩
        unfold checkedSignedSub toOppositeSigned toSigned at hd
        split at h
        · rename_i hpos
          have := optB_ok h
          unfold checkedAdd toU at this
          split at this
          · cases this
            split at hd
            · split at hd
              · cases hd; omega
              · cases hd
            · split at hd
              · simp at hd; omega
              · cases hd
          · cases this
        · rename_i hneg
          have := optB_ok h
          unfold checkedSub at this
          split at this
          · cases this
            split at hd
            · split at hd
              · cases hd; omega
              · cases hd
            · split at hd
              · simp at hd; omega
              · cases hd
          · cases this

/-- replacing entry `i` of the position list changes the sum by exactly that entry's term. -/
theorem sumBorrowing_set (U : Nat) : ∀ (l : List (Nat × Nat)) (i sz bf a b : Nat),
    l[i]? = some (sz, bf) →
    sumBorrowing U (l.set i (a, b)) + sz * bf / U = sumBorrowing U l + a * b / U := by
  intro l
  induction l with
  | nil => intro i sz bf a b h; simp at h
  | cons x xs ih =>
    intro i sz bf a b h
    cases i with
    | zero =>
      simp at h; subst h
      simp [List.set, sumBorrowing]; omega
    | succ j =>
      simp at h
      have := ih j sz bf a b h
      obtain ⟨s0, b0⟩ := x
      simp [List.set, sumBorrowing]; omega

theorem sumBorrowing_append (U : Nat) (l m : List (Nat × Nat)) :
    sumBorrowing U (l ++ m) = sumBorrowing U l + sumBorrowing U m := by
  induction l with
  | nil => simp [sumBorrowing]
  | cons x xs ih => obtain ⟨s, b⟩ := x; simp [sumBorrowing, ih]; omega

theorem mem_set_cases {α : Type} (l : List α) (i : Nat) (a x : α) (h : x ∈ l.set i a) : x = a ∨ x ∈ l := by
  induction l generalizing i with
  | nil => simp at h
  | cons y ys ih =>
    cases i with
    | zero => simp [List.set] at h; rcases h with h | h; exact Or.inl h; exact Or.inr (List.mem_cons_of_mem _ h)
    | succ j =>
      simp [List.set] at h
      rcases h with h | h
      · exact Or.inr (by simp [h])
      · rcases ih j h with h | h
        · exact Or.inl h
        · exact Or.inr (List.mem_cons_of_mem _ h)

/-- Σ ⌊sᵢ·bᵢ/U⌋ ≤ ⌊(Σ sᵢ)·F/U⌋ when every `bᵢ ≤ F`. -/
theorem sumBorrowing_le (U F : Nat) : ∀ (l : List (Nat × Nat)), (∀ x ∈ l, x.2 ≤ F) →
    sumBorrowing U l ≤ sumSizes l * F / U := by
  intro l
  induction l with
  | nil => intro _; simp [sumBorrowing]
  | cons x xs ih =>
    intro h
    obtain ⟨s, b⟩ := x
    have hb : b ≤ F := h (s, b) (by simp)
    have ih' := ih (fun y hy => h y (List.mem_cons_of_mem _ hy))
    simp only [sumBorrowing, sumSizes]
    have h1 : s * b / U ≤ s * F / U := Nat.div_le_div_right (Nat.mul_le_mul_left s hb)
    have h2 := div_add_div_le (s * F) (sumSizes xs * F) U
    rw [Nat.add_mul]
    omega

end Gmx.Lem
