import Gmx.Model.Funding
import Gmx.Props.C12
/-! The potential argument for `funding_backed` (C08, DESIGN Appendix E) over `FundSys`. -/
namespace Gmx.Lem
open Gmx

theorem pack_up_le {W U adj fv oi price d : Nat} (h : packFunding W U adj fv oi price true = some d)
    (hfv : fv ≠ 0) (hoi : oi ≠ 0) : fv * (adj * U) ≤ d * price * oi ∧ price ≠ 0 := by
  unfold packFunding at h
  simp only [hfv, hoi, or_self, if_false, if_true] at h
  split at h
  · cases h
  · rename_i num hn
    have en : num = adj * U := by
      unfold checkedMul toU at hn; split at hn <;> cases hn; rfl
    split at h
    · cases h
    · rename_i per hper
      obtain ⟨h1, _⟩ := C01.mulDivCeil_ceil hper
      obtain ⟨hp, _, h2, _⟩ := C01.roundUpDiv_sound h
      subst en
      exact ⟨Nat.le_trans h1 (Nat.mul_le_mul_right _ h2), hp⟩

theorem pack_down_le {W U adj fv oi price d : Nat} (h : packFunding W U adj fv oi price false = some d) :
    d * price * oi ≤ fv * (adj * U) := by
  unfold packFunding at h
  split at h
  · cases h; simp
  · split at h
    · cases h
    · rename_i num hn
      have en : num = adj * U := by
        unfold checkedMul toU at hn; split at hn <;> cases hn; rfl
      simp only [Bool.false_eq_true, if_false] at h
      split at h
      · cases h
      · rename_i per hper
        obtain ⟨h1, _⟩ := C01.mulDiv_floor hper
        unfold checkedDiv at h
        split at h
        · cases h
        · cases h
          subst en
          exact Nat.le_trans (Nat.mul_le_mul_right _ (Nat.div_mul_le_self per price)) h1

/-- for the same funding value: total newly claimable ≤ total newly payable. -/
theorem pack_backed {W U adj fv oiPay oiRecv price dF dC : Nat}
    (hp : packFunding W U adj fv oiPay price true = some dF)
    (hc : packFunding W U adj fv oiRecv price false = some dC) (hoi : oiPay ≠ 0) :
    oiRecv * dC ≤ oiPay * dF := by
  by_cases hfv : fv = 0
  · subst hfv
    unfold packFunding at hc
    simp at hc
    subst hc; simp
  · obtain ⟨h1, hpr⟩ := pack_up_le hp hfv hoi
    have h2 := pack_down_le hc
    have : dC * price * oiRecv ≤ dF * price * oiPay := Nat.le_trans h2 h1
    have h3 : (oiRecv * dC) * price ≤ (oiPay * dF) * price := by
      have e1 : oiRecv * dC * price = dC * price * oiRecv := by
        rw [Nat.mul_comm oiRecv dC, Nat.mul_assoc, Nat.mul_comm oiRecv price, ← Nat.mul_assoc]
      have e2 : oiPay * dF * price = dF * price * oiPay := by
        rw [Nat.mul_comm oiPay dF, Nat.mul_assoc, Nat.mul_comm oiPay price, ← Nat.mul_assoc]
      rw [e1, e2]; exact this
    exact Nat.le_of_mul_le_mul_right h3 (Nat.pos_of_ne_zero hpr)

/-- the potential invariant (scaled by `adjustment·UNIT`) and snapshot bounds. -/
def _root_.Gmx.FundSys.Inv (U adj : Nat) (s : FundSys) : Prop :=
  (adj * U) * s.claimed + pendClaim s.C s.pos ≤ (adj * U) * s.collected + pendPay s.F s.pos ∧
  ∀ p ∈ s.pos, p.f ≤ s.F p.isLong ∧ p.c ≤ s.C p.isLong

theorem pendPay_bump (F : Bool → Nat) (lps : Bool) (dF : Nat) : ∀ ps : List FPos,
    (∀ p ∈ ps, p.f ≤ F p.isLong) →
    pendPay (fun b => if b = lps then F b + dF else F b) ps = pendPay F ps + oiPayK ps lps * dF := by
  intro ps
  induction ps with
  | nil => intro _; simp [pendPay, oiPayK]
  | cons p rest ih =>
    intro h
    have hp := h p (by simp)
    have := ih (fun q hq => h q (List.mem_cons_of_mem _ hq))
    simp only [pendPay, oiPayK, this]
    cases hk : p.hasCollK
    · simp
    · by_cases hs : p.isLong = lps
      · simp only [hs, if_true, and_self]
        have e : p.size * (F lps + dF - p.f) = p.size * (F lps - p.f) + p.size * dF := by
          rw [← Nat.mul_add]; congr 1; rw [hs] at hp; omega
        rw [e, Nat.add_mul]; omega
      · simp only [hs, if_false, false_and, Nat.zero_add, if_true]
        omega

theorem pendClaim_bump (C : Bool → Nat) (rs : Bool) (dC : Nat) : ∀ ps : List FPos,
    (∀ p ∈ ps, p.c ≤ C p.isLong) →
    pendClaim (fun b => if b = rs then C b + dC else C b) ps = pendClaim C ps + oiSide ps rs * dC := by
  intro ps
  induction ps with
  | nil => intro _; simp [pendClaim, oiSide]
  | cons p rest ih =>
    intro h
    have hp := h p (by simp)
    have := ih (fun q hq => h q (List.mem_cons_of_mem _ hq))
    simp only [pendClaim, oiSide, this]
    by_cases hs : p.isLong = rs
    · simp only [hs, if_true]
      have e : p.size * (C rs + dC - p.c) = p.size * (C rs - p.c) + p.size * dC := by
        rw [← Nat.mul_add]; congr 1; rw [hs] at hp; omega
      rw [e, Nat.add_mul]; omega
    · simp only [hs, if_false, Nat.zero_add]
      omega

/-- replacing position `i` by a freshly settled one removes exactly its terms. -/
theorem pend_set (F C : Bool → Nat) : ∀ (ps : List FPos) (i : Nat) (p : FPos) (n : Nat), ps[i]? = some p →
    pendPay F (ps.set i { p with size := n, f := F p.isLong, c := C p.isLong }) + (if p.hasCollK then p.size * (F p.isLong - p.f) else 0) = pendPay F ps ∧
    pendClaim C (ps.set i { p with size := n, f := F p.isLong, c := C p.isLong }) + p.size * (C p.isLong - p.c) = pendClaim C ps := by
  intro ps
  induction ps with
  | nil => intro i p n h; simp at h
  | cons q rest ih =>
    intro i p n h
    cases i with
    | zero =>
      simp at h; subst h
      simp only [List.set, pendPay, pendClaim, Nat.sub_self, Nat.mul_zero]
      constructor
      · split <;> omega
      · omega
    | succ j =>
      simp at h
      obtain ⟨a, b⟩ := ih j p n h
      simp only [List.set, pendPay, pendClaim]
      constructor <;> omega

theorem pendPay_append (F : Bool → Nat) (a b : List FPos) : pendPay F (a ++ b) = pendPay F a + pendPay F b := by
  induction a with
  | nil => simp [pendPay]
  | cons x xs ih => simp [pendPay, ih]; omega

theorem pendClaim_append (C : Bool → Nat) (a b : List FPos) : pendClaim C (a ++ b) = pendClaim C a + pendClaim C b := by
  induction a with
  | nil => simp [pendClaim]
  | cons x xs ih => simp [pendClaim, ih]; omega

theorem mem_set_fpos (l : List FPos) (i : Nat) (a x : FPos) (h : x ∈ l.set i a) : x = a ∨ x ∈ l := by
  induction l generalizing i with
  | nil => simp at h
  | cons y ys ih =>
    cases i with
    | zero => simp [List.set] at h; rcases h with h | h; exact Or.inl h; exact Or.inr (List.mem_cons_of_mem _ h)
    | succ j =>
      simp [List.set] at h
      rcases h with h | h
      · exact Or.inr (by simp [h])
      · rcases ih j h with h | h
        · exact Or.inl h
        · exact Or.inr (List.mem_cons_of_mem _ h)

/-- payer amounts are rounded up, receiver amounts down (scaled form). -/
theorem unpack_bounds {W U adj latest snap size r : Nat} :
    (unpackFunding W U adj latest snap size true = some r → size * (latest - snap) ≤ (adj * U) * r) ∧
    (unpackFunding W U adj latest snap size false = some r → (adj * U) * r ≤ size * (latest - snap)) := by
  constructor
  · intro h
    obtain ⟨_, hU, hr⟩ := C12.pending_funding_nonneg h
    simp only [if_true] at hr
    subst hr
    have := (C01.ceil_char (size * (latest - snap)) (adj * U) hU).1
    rw [Nat.mul_comm (adj * U)]; exact this
  · intro h
    obtain ⟨_, hU, hr⟩ := C12.pending_funding_nonneg h
    simp only [Bool.false_eq_true, if_false] at hr
    subst hr
    rw [Nat.mul_comm (adj * U)]; exact Nat.div_mul_le_self _ _

/-- **one step preserves the potential invariant.** -/
theorem fund_inv_step (W U adj : Nat) (s : FundSys) (o : FundOp) (h : s.Inv U adj) : (s.step W U adj o).Inv U adj := by
  obtain ⟨hpot, hsnap⟩ := h
  cases o with
  | update lps fv price =>
    simp only [FundSys.step]
    split
    · exact ⟨hpot, hsnap⟩
    · rename_i hoi
      split
      · rename_i dF dC hF hC
        have hb := pack_backed hF hC hoi
        have e1 := pendPay_bump s.F lps dF s.pos (fun p hp => (hsnap p hp).1)
        have e2 := pendClaim_bump s.C (!lps) dC s.pos (fun p hp => (hsnap p hp).2)
        refine ⟨?_, fun p hp => ?_⟩
        · simp only
          rw [e1, e2]
          have : oiSide s.pos (!lps) * dC ≤ oiPayK s.pos lps * dF := hb
          omega
        · obtain ⟨a, b⟩ := hsnap p hp
          simp only
          constructor
          · split <;> omega
          · split <;> omega
      · exact ⟨hpot, hsnap⟩
  | settle i n =>
    simp only [FundSys.step]
    split
    · exact ⟨hpot, hsnap⟩
    · rename_i p hget
      split
      · rename_i a b ha hb
        obtain ⟨s1, s2⟩ := pend_set s.F s.C s.pos i p n hget
        have hbb := (unpack_bounds (W := W) (U := U) (adj := adj)).2 hb
        have haa : (if p.hasCollK then p.size * (s.F p.isLong - p.f) else 0) ≤ (adj * U) * a := by
          cases hk : p.hasCollK
          · simp
          · simp only [hk, if_true] at ha ⊢
            exact (unpack_bounds (W := W) (U := U) (adj := adj)).1 ha
        refine ⟨?_, fun q hq => ?_⟩
        · simp only
          rw [Nat.mul_add, Nat.mul_add]
          omega
        · rcases mem_set_fpos _ _ _ _ hq with hq | hq
          · subst hq; exact ⟨Nat.le_refl _, Nat.le_refl _⟩
          · exact hsnap q hq
      · exact ⟨hpot, hsnap⟩
  | openPos il hk =>
    simp only [FundSys.step]
    refine ⟨?_, fun q hq => ?_⟩
    · rw [pendPay_append, pendClaim_append]
      simp [pendPay, pendClaim]
      exact hpot
    · simp only [List.mem_append, List.mem_singleton] at hq
      rcases hq with hq | hq
      · exact hsnap q hq
      · subst hq; exact ⟨Nat.le_refl _, Nat.le_refl _⟩

theorem fund_inv_run (W U adj : Nat) (ops : List FundOp) : ∀ s : FundSys, s.Inv U adj → (s.run W U adj ops).Inv U adj := by
  induction ops with
  | nil => intro s h; exact h
  | cons o os ih => intro s h; exact ih _ (fund_inv_step W U adj s o h)

/-- integer pending amounts of all positions (what `pending_funding_fees` would report). -/
def pendPayInt (W U adj : Nat) (F : Bool → Nat) : List FPos → Nat
  | [] => 0
  | p :: rest => (if p.hasCollK then (unpackFunding W U adj (F p.isLong) p.f p.size true).getD 0 else 0) + pendPayInt W U adj F rest

def pendClaimInt (W U adj : Nat) (C : Bool → Nat) : List FPos → Nat
  | [] => 0
  | p :: rest => (unpackFunding W U adj (C p.isLong) p.c p.size false).getD 0 + pendClaimInt W U adj C rest

theorem pendClaimInt_le (W U adj : Nat) (C : Bool → Nat) : ∀ ps : List FPos,
    (adj * U) * pendClaimInt W U adj C ps ≤ pendClaim C ps := by
  intro ps
  induction ps with
  | nil => simp [pendClaimInt, pendClaim]
  | cons p rest ih =>
    simp only [pendClaimInt, pendClaim, Nat.mul_add]
    have : (adj * U) * (unpackFunding W U adj (C p.isLong) p.c p.size false).getD 0 ≤ p.size * (C p.isLong - p.c) := by
      cases hu : unpackFunding W U adj (C p.isLong) p.c p.size false with
      | none => simp
      | some r => simp only [Option.getD]; exact (unpack_bounds (W := W) (U := U) (adj := adj)).2 hu
    omega

def _root_.Gmx.FundSys.init : FundSys := ⟨fun _ => 0, fun _ => 0, [], 0, 0⟩

theorem fund_inv_init (U adj : Nat) : FundSys.init.Inv U adj :=
  ⟨by simp [FundSys.init, pendClaim, pendPay], fun p hp => by simp [FundSys.init] at hp⟩

end Gmx.Lem
