import Gmx.Model.Position
import Gmx.Props.C01
/-! Helper lemmas for C11 (position pnl). -/
namespace Gmx.Lem
open Gmx Gmx.Perp

/-- truncating division by a positive natural is monotone. -/
theorem tdiv_mono (d : Nat) (x y : Int) (h : x ≤ y) : Int.tdiv x (d : Int) ≤ Int.tdiv y (d : Int) := by
  rcases Int.eq_nat_or_neg x with ⟨a, rfl | rfl⟩ <;> rcases Int.eq_nat_or_neg y with ⟨b, rfl | rfl⟩
  · rw [C01.tdiv_nat, C01.tdiv_nat]
    have : a / d ≤ b / d := Nat.div_le_div_right (by omega)
    omega
  · rw [C01.tdiv_nat, C01.neg_tdiv_of_nonneg]
    have hb : b = 0 := by omega
    have ha : a = 0 := by omega
    subst hb; subst ha; simp
  · rw [C01.neg_tdiv_of_nonneg, C01.tdiv_nat]
    generalize a / d = p; generalize b / d = q; omega
  · rw [C01.neg_tdiv_of_nonneg, C01.neg_tdiv_of_nonneg]
    have : b / d ≤ a / d := Nat.div_le_div_right (by omega)
    omega

/-- `checked_mul_div_with_signed_numerator` is truncating division of the exact product. -/
theorem mulDivSigned_eq_tdiv {W a den : Nat} {num r : Int} (h : mulDivSigned W a num den = some r) :
    r = Int.tdiv ((a : Int) * num) (den : Int) ∧ den ≠ 0 := by
  obtain ⟨hd, habs, hpos, hneg, _⟩ := C01.mulDivSigned_spec h
  refine ⟨?_, hd⟩
  rcases Int.eq_nat_or_neg num with ⟨n, rfl | rfl⟩
  · have e : (a : Int) * (n : Int) = ((a * n : Nat) : Int) := by simp
    rw [e, C01.tdiv_nat]
    simp only [Int.natAbs_natCast] at habs
    by_cases hn : (0 : Int) < (n : Int)
    · have := hpos hn; omega
    · have hn0 : n = 0 := by omega
      subst hn0
      simp only [Nat.mul_zero, Nat.zero_div] at habs ⊢
      omega
  · have e : (a : Int) * (-(n : Int)) = -((a * n : Nat) : Int) := by simp [Int.mul_neg]
    rw [e, C01.neg_tdiv_of_nonneg]
    simp only [Int.natAbs_neg, Int.natAbs_natCast] at habs
    have := hneg (by omega)
    omega

/-- truncating division loses less than one divisor: `|trunc(x/t)·t − x| < t`. -/
theorem tdiv_mul_sub_lt (t : Nat) (ht : t ≠ 0) (x : Int) :
    (Int.tdiv x (t : Int) * (t : Int) - x).natAbs < t := by
  have key : ∀ n : Nat, (((n / t : Nat) : Int) * (t : Int) - (n : Int)).natAbs < t ∧
      ((-((n / t : Nat) : Int)) * (t : Int) - (-(n : Int))).natAbs < t := by
    intro n
    have h1 := Nat.div_add_mod n t
    have h2 := Nat.mod_lt n (Nat.pos_of_ne_zero ht)
    generalize n / t = q at *
    generalize n % t = r at *
    subst h1
    have e : ((t * q + r : Nat) : Int) = (t : Int) * (q : Int) + (r : Int) := by push_cast; rfl
    rw [e, Int.neg_mul, Int.mul_comm (q : Int) (t : Int)]
    constructor <;> omega
  rcases Int.eq_nat_or_neg x with ⟨n, rfl | rfl⟩
  · rw [C01.tdiv_nat]; exact (key n).1
  · rw [C01.neg_tdiv_of_nonneg]; exact (key n).2

theorem toSigned_some {W n : Nat} {z : Int} (h : toSigned W n = some z) : z = (n : Int) := by
  unfold toSigned at h; split at h <;> cases h; rfl

theorem toI_some {W : Nat} {a z : Int} (h : toI W a = some z) : z = a := by
  unfold toI at h; split at h <;> cases h; rfl

/-- exact value of the uncapped total pnl. -/
theorem uncappedTotalPnl_eq {W : Nat} {isLong : Bool} {s t mn mx : Nat} {r : Int}
    (h : uncappedTotalPnl W isLong s t mn mx = some r) :
    r = if isLong then ((t * pickPriceForPnl mn mx isLong false : Nat) : Int) - s
        else (s : Int) - (t * pickPriceForPnl mn mx isLong false : Nat) := by
  unfold uncappedTotalPnl checkedMul toU at h
  split at h
  · cases h
  · rename_i pv hpv
    split at hpv
    · cases hpv
      split at h
      · rename_i a b ha hb
        have := toSigned_some ha; subst this
        have := toSigned_some hb; subst this
        split at h
        · have := toI_some h; subst this; simp [*]
        · have := toI_some h; subst this; simp [*]
      · cases h
    · cases hpv

/-- the capped total: unchanged when not positive or when the cap does not bind, otherwise scaled
down by `capped / pool pnl`. -/
theorem cappedTotalPnl_cases {W U : Nat} {isLong : Bool} {v : PnlView} {mn mx : Nat} {total r : Int}
    (h : cappedTotalPnl W U isLong v mn mx total = some r) :
    (total ≤ 0 → r = total) ∧ (capBinds W U isLong v mn mx = false → r = total) ∧
    (0 < total → 0 ≤ r ∧ r ≤ total) := by
  unfold cappedTotalPnl at h
  by_cases hpos : total > 0
  · simp only [hpos, if_true] at h
    refine ⟨fun hh => by omega, ?_, ?_⟩
    · intro hb
      unfold capBinds at hb
      split at h
      · cases h
      · rename_i pvv hpv
        split at h
        · cases h
        · rename_i pp hpp
          split at h
          · cases h
          · rename_i cp hcp
            simp only [hpv, hpp, hcp] at hb
            have hb' : ¬ (cp ≠ pp ∧ ¬ cp < 0 ∧ pp > 0) := by simpa using hb
            rw [if_neg hb'] at h
            cases h; rfl
    · intro _
      split at h
      · cases h
      · rename_i pvv hpv
        split at h
        · cases h
        · rename_i pp hpp
          split at h
          · cases h
          · rename_i cp hcp
            split at h
            · rename_i hc
              obtain ⟨hne, hnn, hppos⟩ := hc
              -- cp ≤ pp because cap_pnl only lowers a positive pnl
              have hcle : cp ≤ pp := by
                unfold capPnlP at hcp
                simp only [hppos, if_true] at hcp
                split at hcp
                · cases hcp
                · split at hcp
                  · cases hcp
                  · split at hcp <;> cases hcp <;> omega
              obtain ⟨hd, habs, hp, _, _⟩ := C01.mulDivSigned_spec h
              have h0 := hp hpos
              refine ⟨h0, ?_⟩
              have hle : cp.natAbs * total.natAbs / pp.natAbs ≤ total.natAbs := by
                have h1 : cp.natAbs ≤ pp.natAbs := by omega
                calc cp.natAbs * total.natAbs / pp.natAbs
                    ≤ pp.natAbs * total.natAbs / pp.natAbs := Nat.div_le_div_right (Nat.mul_le_mul_right _ h1)
                  _ = total.natAbs := Nat.mul_div_cancel_left _ (by omega)
              omega
            · cases h; omega
  · simp only [hpos, if_false] at h
    cases h
    exact ⟨fun _ => rfl, fun _ => rfl, fun hh => absurd hh hpos⟩

end Gmx.Lem
