import Gmx.Lemmas.SwapGraph
/-! C42, second batch: the predecessor structure of the in-place Bellman–Ford —
rootedness (chains lead to the source), tightness (`dist u + w ≤ dist v` along predecessors, for
the distances that are RETURNED together with the frozen predecessors), achievability (every
distance is the cost of a walk from the source). -/
namespace Gmx.SwapGraph

/-- predecessor nodes are the source or have a predecessor themselves. -/
def PredRooted (src : Nat) (p : Pred) : Prop := ∀ v u m, p v = some (u, m) → u = src ∨ p u ≠ none

/-- every node with a distance is the source or has a predecessor. -/
def DistRooted (src : Nat) (d : Dist) (p : Pred) : Prop := ∀ v x, d v = some x → v = src ∨ p v ≠ none

/-- every predecessor entry `(u, m)` of `v` is an estimated edge `u → v` of market `m` with
`dist u + w ≤ dist v`. -/
def PredTight (g : Graph) (d : Dist) (p : Pred) : Prop :=
  ∀ v u m, p v = some (u, m) → ∃ e ∈ g.edges, e.src = u ∧ e.dst = v ∧ e.market = m ∧
    ∃ w du dv, e.cost = some w ∧ d u = some du ∧ d v = some dv ∧ du + w ≤ dv

def Inv3 (g : Graph) (src : Nat) (d : Dist) (p : Pred) : Prop :=
  PredRooted src p ∧ DistRooted src d p ∧ PredTight g d p

theorem relaxEdge_pred_frozen (steps ms : Nat) (h : ms < steps) (s : BFState) (e : Edge) :
    (relaxEdge steps ms s e).pred = s.pred := by
  unfold relaxEdge
  split
  · simp only [show ¬ steps ≤ ms by omega, if_false]
  · rfl

theorem foldl_pred_frozen (steps ms : Nat) (h : ms < steps) : ∀ (es : List Edge) (s : BFState),
    (es.foldl (relaxEdge steps ms) s).pred = s.pred
  | [], _ => rfl
  | e :: es, s => by
    simp only [List.foldl_cons]
    rw [foldl_pred_frozen steps ms h es, relaxEdge_pred_frozen steps ms h]

theorem round_pred_frozen (g : Graph) (steps : Nat) (h : g.maxSteps < steps) (d : Dist) (p : Pred) :
    (round g steps d p).pred = p := foldl_pred_frozen steps g.maxSteps h _ _

/-- while predecessors are still recorded, one relaxation keeps all three invariants. -/
theorem relaxEdge_inv3 (g : Graph) (src steps ms : Nat) (hs : steps ≤ ms) (s : BFState) (e : Edge)
    (he : e ∈ g.edges) (h : Inv3 g src s.dist s.pred) :
    Inv3 g src (relaxEdge steps ms s e).dist (relaxEdge steps ms s e).pred := by
  obtain ⟨hJ, hK, hT⟩ := h
  unfold relaxEdge
  split
  · rename_i x hx
    obtain ⟨w, d, hw, hd, rfl, hlt⟩ := improves_some hx
    simp only [hs, if_true]
    have hsrc : e.src = src ∨ s.pred e.src ≠ none := hK e.src d hd
    refine ⟨?_, ?_, ?_⟩
    · -- PredRooted
      intro v u m hv
      simp only [setP] at hv ⊢
      by_cases hq : v = e.dst
      · simp only [hq, if_true] at hv
        cases hv
        rcases hsrc with h1 | h1
        · exact Or.inl h1
        · right
          by_cases h2 : e.src = e.dst
          · simp [h2]
          · simp only [h2, if_false]; exact h1
      · simp only [hq, if_false] at hv
        rcases hJ v u m hv with h1 | h1
        · exact Or.inl h1
        · right
          by_cases h2 : u = e.dst
          · simp [h2]
          · simp only [h2, if_false]; exact h1
    · -- DistRooted
      intro v y hy
      simp only [setD] at hy
      simp only [setP]
      by_cases hq : v = e.dst
      · right; simp [hq]
      · simp only [hq, if_false] at hy ⊢
        exact hK v y hy
    · -- PredTight
      intro v u m hv
      simp only [setP] at hv
      by_cases hq : v = e.dst
      · simp only [hq, if_true] at hv
        cases hv
        refine ⟨e, he, rfl, hq.symm, rfl, w, ?_⟩
        by_cases h2 : e.src = e.dst
        · -- self loop: the improvement forces w < 0
          have := hlt d (by rw [← h2]; exact hd)
          refine ⟨d + w, d + w, hw, by simp [setD, h2], by simp [setD, hq], by omega⟩
        · refine ⟨d, d + w, hw, by simp [setD, h2, hd], by simp [setD, hq], by omega⟩
      · simp only [hq, if_false] at hv
        obtain ⟨e', he', h1, h2, h3, w', du, dv, hw', hdu, hdv, hle⟩ := hT v u m hv
        refine ⟨e', he', h1, h2, h3, w', ?_⟩
        by_cases h4 : u = e.dst
        · have hcur := hlt du (by rw [← h4]; exact hdu)
          exact ⟨d + w, dv, hw', by simp [setD, h4], by simp [setD, hq, hdv], by omega⟩
        · exact ⟨du, dv, hw', by simp [setD, h4, hdu], by simp [setD, hq, hdv], hle⟩
  · exact ⟨hJ, hK, hT⟩

theorem round_inv3 (g : Graph) (src steps : Nat) (hs : steps ≤ g.maxSteps) (d : Dist) (p : Pred)
    (h : Inv3 g src d p) : Inv3 g src (round g steps d p).dist (round g steps d p).pred := by
  unfold round
  exact foldl_inv (fun s : BFState => Inv3 g src s.dist s.pred) (relaxEdge steps g.maxSteps)
    (relaxOrder g) ⟨d, p, false⟩ h
    (fun a e he ha => relaxEdge_inv3 g src steps g.maxSteps hs a e (mem_edges_of_mem_relaxOrder g e he) ha)

/-- the pair that `bellman_ford` RETURNS — (cached or final distances, frozen predecessors) — is
rooted and tight. -/
theorem bfLoop_tight (g : Graph) (src : Nat) : ∀ (fuel steps : Nat) (d : Dist) (p : Pred) (cin : Option Dist),
    ((steps ≤ g.maxSteps ∧ cin = none ∧ Inv3 g src d p) ∨
     (g.maxSteps < steps ∧ PredRooted src p ∧
        ((∃ c, cin = some c ∧ PredTight g c p) ∨ (cin = none ∧ ∀ v, p v = none)))) →
    PredRooted src (bfLoop g fuel steps d p cin).2.1 ∧
    PredTight g ((bfLoop g fuel steps d p cin).2.2.getD (bfLoop g fuel steps d p cin).1)
      (bfLoop g fuel steps d p cin).2.1
  | 0, steps, d, p, cin, h => by
    simp only [bfLoop]
    rcases h with ⟨_, rfl, hJ, _, hT⟩ | ⟨_, hJ, ⟨c, rfl, hT⟩ | ⟨rfl, hn⟩⟩
    · exact ⟨hJ, hT⟩
    · exact ⟨hJ, hT⟩
    · exact ⟨hJ, fun v u m hv => by rw [hn v] at hv; cases hv⟩
  | fuel + 1, steps, d, p, cin, h => by
    unfold bfLoop
    simp only []
    rcases h with ⟨hs, rfl, hI⟩ | ⟨hs, hJ, hc⟩
    · have hr := round_inv3 g src steps hs d p hI
      by_cases hdid : (round g steps d p).did
      · simp only [hdid, Bool.not_true, Bool.false_eq_true, if_false]
        apply bfLoop_tight g src fuel
        by_cases he : steps = g.maxSteps
        · right
          refine ⟨by omega, hr.1, Or.inl ⟨(round g steps d p).dist, by simp [he], hr.2.2⟩⟩
        · left
          exact ⟨by omega, by simp [he], hr⟩
      · simp only [hdid, Bool.not_false, if_true]
        exact ⟨hr.1, hr.2.2⟩
    · have hp := round_pred_frozen g steps hs d p
      by_cases hdid : (round g steps d p).did
      · simp only [hdid, Bool.not_true, Bool.false_eq_true, if_false]
        apply bfLoop_tight g src fuel
        right
        rw [hp, if_neg (by omega)]
        exact ⟨by omega, hJ, hc⟩
      · simp only [hdid, Bool.not_false, if_true]
        rw [hp]
        rcases hc with ⟨c, rfl, hT⟩ | ⟨rfl, hn⟩
        · exact ⟨hJ, hT⟩
        · exact ⟨hJ, fun v u m hv => by rw [hn v] at hv; cases hv⟩

theorem bfFinal_tight (g : Graph) (src : Nat) :
    PredRooted src (bfFinal g src).2.1 ∧
    PredTight g ((bfFinal g src).2.2.getD (bfFinal g src).1) (bfFinal g src).2.1 := by
  unfold bfFinal
  apply bfLoop_tight g src
  by_cases h : 1 ≤ g.maxSteps
  · left
    refine ⟨h, rfl, ?_, ?_, ?_⟩
    · intro v u m hv; cases hv
    · intro v x hx
      simp only [initDist] at hx
      by_cases hv : v = src
      · exact Or.inl hv
      · simp [hv] at hx
    · intro v u m hv; cases hv
  · right
    exact ⟨by omega, (fun v u m hv => by cases hv), Or.inr ⟨rfl, fun _ => rfl⟩⟩

/-! ### achievability -/

/-- every recorded distance is the cost of a walk from the source. -/
def Achieved (g : Graph) (src : Nat) (d : Dist) : Prop :=
  ∀ v x, d v = some x → ∃ es, isWalk g src es = true ∧ walkEnd src es = v ∧ walkCost es = x

theorem walk_snoc (g : Graph) (e : Edge) (w : Int) (he : e ∈ g.edges) (hw : e.cost = some w) :
    ∀ (es : List Edge) (a : Nat), isWalk g a es = true → walkEnd a es = e.src →
      isWalk g a (es ++ [e]) = true ∧ walkEnd a (es ++ [e]) = e.dst ∧
      walkCost (es ++ [e]) = walkCost es + w
  | [], a, _, hend => by
    simp only [walkEnd] at hend
    simp [isWalk, walkEnd, walkCost, he, hend, hw]
  | x :: es, a, hwalk, hend => by
    obtain ⟨h1, h2, ⟨w', h3⟩, h4⟩ := isWalk_cons hwalk
    obtain ⟨i1, i2, i3⟩ := walk_snoc g e w he hw es x.dst h4 hend
    refine ⟨?_, ?_, ?_⟩
    · simp only [List.cons_append, isWalk, Bool.and_eq_true, decide_eq_true_eq]
      exact ⟨⟨⟨h1, h2⟩, by simp [h3]⟩, i1⟩
    · simpa [walkEnd] using i2
    · simp only [List.cons_append, walkCost, i3]; omega

theorem relaxEdge_achieved (g : Graph) (src steps ms : Nat) (s : BFState) (e : Edge) (he : e ∈ g.edges)
    (h : Achieved g src s.dist) : Achieved g src (relaxEdge steps ms s e).dist := by
  unfold relaxEdge
  split
  · rename_i x hx
    obtain ⟨w, d, hw, hd, rfl, _⟩ := improves_some hx
    intro v y hy
    simp only [setD] at hy
    by_cases hq : v = e.dst
    · simp only [hq, if_true] at hy
      cases hy
      obtain ⟨es, h1, h2, h3⟩ := h e.src d hd
      obtain ⟨i1, i2, i3⟩ := walk_snoc g e w he hw es src h1 h2
      exact ⟨es ++ [e], i1, by rw [i2, hq], by rw [i3, h3]⟩
    · simp only [hq, if_false] at hy
      exact h v y hy
  · exact h

theorem roundD_achieved (g : Graph) (src : Nat) (d : Dist) (h : Achieved g src d) :
    Achieved g src (roundD g d) := by
  unfold roundD round
  exact foldl_inv (fun s : BFState => Achieved g src s.dist) (relaxEdge 0 g.maxSteps)
    (relaxOrder g) ⟨d, initPred, false⟩ h
    (fun a e he ha => relaxEdge_achieved g src 0 g.maxSteps a e (mem_edges_of_mem_relaxOrder g e he) ha)

theorem iterD_achieved (g : Graph) (src : Nat) : ∀ (k : Nat) (d : Dist), Achieved g src d →
    Achieved g src (iterD g k d)
  | 0, _, h => h
  | k + 1, d, h => iterD_achieved g src k _ (roundD_achieved g src d h)

theorem initDist_achieved (g : Graph) (src : Nat) : Achieved g src (initDist src) := by
  intro v x hx
  simp only [initDist] at hx
  by_cases hv : v = src
  · simp only [hv, if_true] at hx
    cases hx
    exact ⟨[], rfl, hv.symm, rfl⟩
  · simp [hv] at hx

/-- the predecessor walk over a rooted and tight predecessor structure: the reconstructed walk
starts at the source and costs no more than the distance gap it spans. -/
theorem walk_chain_cost (g : Graph) (src : Nat) (d : Dist) (pred : Pred) (hJ : PredRooted src pred)
    (hT : PredTight g d pred) (ms tgt : Nat) :
    ∀ (fuel : Nat) (c : Nat) (steps : Nat) (acc path : List Nat) (es : List Edge),
      es.map (·.market) = acc → isWalk g c es = true → walkEnd c es = tgt →
      (es = [] ∨ c = src ∨ pred c ≠ none) →
      (es ≠ [] → ∃ dc dt, d c = some dc ∧ d tgt = some dt ∧ dc + walkCost es ≤ dt) →
      walk pred ms fuel (pred c) steps acc = some path →
      ∃ (x : Nat) (es' : List Edge), es'.map (·.market) = path ∧ isWalk g x es' = true ∧
        walkEnd x es' = tgt ∧ (es' = [] ∨ x = src) ∧
        (es' ≠ [] → ∃ dx dt, d x = some dx ∧ d tgt = some dt ∧ dx + walkCost es' ≤ dt)
  | 0, _, _, _, _, _, _, _, _, _, _, h => by simp [walk] at h
  | fuel + 1, c, steps, acc, path, es, hm, hw, he, hroot, hcost, h => by
    unfold walk at h
    split at h
    · rename_i hn
      cases h
      refine ⟨c, es, hm, hw, he, ?_, hcost⟩
      rcases hroot with h1 | h1 | h1
      · exact Or.inl h1
      · exact Or.inr h1
      · exact absurd hn h1
    · rename_i p m hpm
      split at h
      · cases h
      · obtain ⟨e, hin, hs, hd, hmk, w, du, dv, hc, hdu, hdv, hle⟩ := hT c p m hpm
        refine walk_chain_cost g src d pred hJ hT ms tgt fuel p (steps + 1) (m :: acc) path (e :: es)
          ?_ ?_ ?_ ?_ ?_ h
        · simp [hmk, hm]
        · simp only [isWalk, Bool.and_eq_true, decide_eq_true_eq]
          exact ⟨⟨⟨hin, hs⟩, by simp [hc]⟩, by rw [hd]; exact hw⟩
        · simp only [walkEnd]; rw [hd]; exact he
        · right; exact hJ c p m hpm
        · intro _
          by_cases hes : es = []
          · subst hes
            simp only [walkEnd] at he
            subst he
            exact ⟨du, dv, hdu, hdv, by simp [walkCost, hc]; omega⟩
          · obtain ⟨dc, dt, h1, h2, h3⟩ := hcost hes
            rw [hdv] at h1; cases h1
            exact ⟨du, dt, hdu, h2, by simp only [walkCost, hc, Option.getD_some]; omega⟩

end Gmx.SwapGraph
