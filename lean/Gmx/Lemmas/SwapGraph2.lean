import Gmx.Lemmas.SwapGraph
/-! C42, second batch: the predecessor structure of the in-place Bellman–Ford —
rootedness (chains lead to the source), tightness (`dist u + w ≤ dist v` along predecessors, for
the distances that are RETURNED together with the frozen predecessors), achievability (every
distance is the cost of a walk from the source). -/
namespace Gmx.SwapGraph

/-- predecessor nodes are the source or have a predecessor themselves. -/
def PredRooted (src : Nat) (p : Pred) : Prop := ∀ v u m, p v = some (u, m) → u = src ∨ p u ≠ none

/-- every node with a distance is the source or has a predecessor. -/
def DistRooted (src : Nat) (d : Dist) (p : Pred) : Prop := ∀ v x, d v = some x → v = src ∨ p v ≠ none

/-- every predecessor entry `(u, m)` of `v` is an estimated edge `u → v` of market `m` with
`dist u + w ≤ dist v`. -/
def PredTight (g : Graph) (d : Dist) (p : Pred) : Prop :=
  ∀ v u m, p v = some (u, m) → ∃ e ∈ g.edges, e.src = u ∧ e.dst = v ∧ e.market = m ∧
    ∃ w du dv, e.cost = some w ∧ d u = some du ∧ d v = some dv ∧ du + w ≤ dv

def Inv3 (g : Graph) (src : Nat) (d : Dist) (p : Pred) : Prop :=
  PredRooted src p ∧ DistRooted src d p ∧ PredTight g d p

theorem relaxEdge_pred_frozen (steps ms : Nat) (h : ms < steps) (s : BFState) (e : Edge) :
    (relaxEdge steps ms s e).pred = s.pred := by
  unfold relaxEdge
  split
  · simp only [show ¬ steps ≤ ms by omega, if_false]
  · rfl

theorem foldl_pred_frozen (steps ms : Nat) (h : ms < steps) : ∀ (es : List Edge) (s : BFState),
    (es.foldl (relaxEdge steps ms) s).pred = s.pred
  | [], _ => rfl
  | e :: es, s => by
    simp only [List.foldl_cons]
    rw [foldl_pred_frozen steps ms h es, relaxEdge_pred_frozen steps ms h]

theorem round_pred_frozen (g : Graph) (steps : Nat) (h : g.maxSteps < steps) (d : Dist) (p : Pred) :
    (round g steps d p).pred = p := foldl_pred_frozen steps g.maxSteps h _ _

/-- while predecessors are still recorded, one relaxation keeps all three invariants. -/
theorem relaxEdge_inv3 (g : Graph) (src steps ms : Nat) (hs : steps ≤ ms) (s : BFState) (e : Edge)
    (he : e ∈ g.edges) (h : Inv3 g src s.dist s.pred) :
    Inv3 g src (relaxEdge steps ms s e).dist (relaxEdge steps ms s e).pred := by
  obtain ⟨hJ, hK, hT⟩ := h
  unfold relaxEdge
  split
  · rename_i x hx
    obtain ⟨w, d, hw, hd, rfl, hlt⟩ := improves_some hx
    simp only [hs, if_true]
    have hsrc : e.src = src ∨ s.pred e.src ≠ none := hK e.src d hd
    refine ⟨?_, ?_, ?_⟩
    · -- PredRooted
      intro v u m hv
      simp only [setP] at hv ⊢
      by_cases hq : v = e.dst
      · simp only [hq, if_true] at hv
        cases hv
        rcases hsrc with h1 | h1
        · exact Or.inl h1
        · right
          by_cases h2 : e.src = e.dst
          · simp [h2]
          · simp only [h2, if_false]; exact h1
      · simp only [hq, if_false] at hv
        rcases hJ v u m hv with h1 | h1
        · exact Or.inl h1
        · right
          by_cases h2 : u = e.dst
          · simp [h2]
          · simp only [h2, if_false]; exact h1
    · -- DistRooted
      intro v y hy
      simp only [setD] at hy
      simp only [setP]
      by_cases hq : v = e.dst
      · right; simp [hq]
      · simp only [hq, if_false] at hy ⊢
        exact hK v y hy
    · -- PredTight
      intro v u m hv
      simp only [setP] at hv
      by_cases hq : v = e.dst
      · simp only [hq, if_true] at hv
        cases hv
        refine ⟨e, he, rfl, hq.symm, rfl, w, ?_⟩
        by_cases h2 : e.src = e.dst
        · -- self loop: the improvement forces w < 0
          have := hlt d (by rw [← h2]; exact hd)
          refine ⟨d + w, d + w, hw, by simp [setD, h2], by simp [setD, hq], by omega⟩
        · refine ⟨d, d + w, hw, by simp [setD, h2, hd], by simp [setD, hq], by omega⟩
      · simp only [hq, if_false] at hv
        obtain ⟨e', he', h1, h2, h3, w', du, dv, hw', hdu, hdv, hle⟩ := hT v u m hv
        refine ⟨e', he', h1, h2, h3, w', ?_⟩
        by_cases h4 : u = e.dst
        · have hcur := hlt du (by rw [← h4]; exact hdu)
          exact ⟨d + w, dv, hw', by simp [setD, h4], by simp [setD, hq, hdv], by omega⟩
        · exact ⟨du, dv, hw', by simp [setD, h4, hdu], by simp [setD, hq, hdv], hle⟩
  · exact ⟨hJ, hK, hT⟩

theorem round_inv3 (g : Graph) (src steps : Nat) (hs : steps ≤ g.maxSteps) (d : Dist) (p : Pred)
    (h : Inv3 g src d p) : Inv3 g src (round g steps d p).dist (round g steps d p).pred := by
  unfold round
  exact foldl_inv (fun s : BFState => Inv3 g src s.dist s.pred) (relaxEdge steps g.maxSteps)
    (relaxOrder g) ⟨d, p, false⟩ h
    (fun a e he ha => relaxEdge_inv3 g src steps g.maxSteps hs a e (mem_edges_of_mem_relaxOrder g e he) ha)

/-- the pair that `bellman_ford` RETURNS — (cached or final distances, frozen predecessors) — is
rooted and tight. -/
theorem bfLoop_tight (g : Graph) (src : Nat) : ∀ (fuel steps : Nat) (d : Dist) (p : Pred) (cin : Option Dist),
    ((steps ≤ g.maxSteps ∧ cin = none ∧ Inv3 g src d p) ∨
     (g.maxSteps < steps ∧ PredRooted src p ∧
        ((∃ c, cin = some c ∧ PredTight g c p) ∨ (cin = none ∧ ∀ v, p v = none)))) →
    PredRooted src (bfLoop g fuel steps d p cin).2.1 ∧
    PredTight g ((bfLoop g fuel steps d p cin).2.2.getD (bfLoop g fuel steps d p cin).1)
      (bfLoop g fuel steps d p cin).2.1
  | 0, steps, d, p, cin, h => by
    simp only [bfLoop]
    rcases h with ⟨_, rfl, hJ, _, hT⟩ | ⟨_, hJ, ⟨c, rfl, hT⟩ | ⟨rfl, hn⟩⟩
    · exact ⟨hJ, hT⟩
    · exact ⟨hJ, hT⟩
    · exact ⟨hJ, fun v u m hv => by rw [hn v] at hv; cases hv⟩
  | fuel + 1, steps, d, p, cin, h => by
    unfold bfLoop
    simp only []
    rcases h with ⟨hs, rfl, hI⟩ | ⟨hs, hJ, hc⟩
    · have hr := round_inv3 g src steps hs d p hI
      by_cases hdid : (round g steps d p).did
      · simp only [hdid, Bool.not_true, Bool.false_eq_true, if_false]
        apply bfLoop_tight g src fuel
        by_cases he : steps = g.maxSteps
        · right
          refine ⟨by omega, hr.1, Or.inl ⟨(round g steps d p).dist, by simp [he], hr.2.2⟩⟩
        · left
          exact ⟨by omega, by simp [he], hr⟩
      · simp only [hdid, Bool.not_false, if_true]
        exact ⟨hr.1, hr.2.2⟩
    · have hp := round_pred_frozen g steps hs d p
      by_cases hdid : (round g steps d p).did
      · simp only [hdid, Bool.not_true, Bool.false_eq_true, if_false]
        apply bfLoop_tight g src fuel
        right
        rw [hp, if_neg (by omega)]
        exact ⟨by omega, hJ, hc⟩
      · simp only [hdid, Bool.not_false, if_true]
        rw [hp]
        rcases hc with ⟨c, rfl, hT⟩ | ⟨rfl, hn⟩
        · exact ⟨hJ, hT⟩
        · exact ⟨hJ, fun v u m hv => by rw [hn v] at hv; cases hv⟩

theorem bfFinal_tight (g : Graph) (src : Nat) :
    PredRooted src (bfFinal g src).2.1 ∧
    PredTight g ((bfFinal g src).2.2.getD (bfFinal g src).1) (bfFinal g src).2.1 := by
  unfold bfFinal
  apply bfLoop_tight g src
  by_cases h : 1 ≤ g.maxSteps
  · left
    refine ⟨h, rfl, ?_, ?_, ?_⟩
    · intro v u m hv; cases hv
    · intro v x hx
      simp only [initDist] at hx
      by_cases hv : v = src
      · exact Or.inl hv
      · simp [hv] at hx
    · intro v u m hv; cases hv
  · right
    exact ⟨by omega, (fun v u m hv => by cases hv), Or.inr ⟨rfl, fun _ => rfl⟩⟩

/-! ### achievability -/

/-- every recorded distance is the cost of a walk from the source. -/
def Achieved (g : Graph) (src : Nat) (d : Dist) : Prop :=
  ∀ v x, d v = some x → ∃ es, isWalk g src es = true ∧ walkEnd src es = v ∧ walkCost es = x

theorem walk_snoc (g : Graph) (e : Edge) (w : Int) (he : e ∈ g.edges) (hw : e.cost = some w) :
    ∀ (es : List Edge) (a : Nat), isWalk g a es = true → walkEnd a es = e.src →
      isWalk g a (es ++ [e]) = true ∧ walkEnd a (es ++ [e]) = e.dst ∧
      walkCost (es ++ [e]) = walkCost es + w
  | [], a, _, hend => by
    simp only [walkEnd] at hend
    simp [isWalk, walkEnd, walkCost, he, hend, hw]
  | x :: es, a, hwalk, hend => by
    obtain ⟨h1, h2, ⟨w', h3⟩, h4⟩ := isWalk_cons hwalk
    obtain ⟨i1, i2, i3⟩ := walk_snoc g e w he hw es x.dst h4 hend
    refine ⟨?_, ?_, ?_⟩
    · simp only [List.cons_append, isWalk, Bool.and_eq_true, decide_eq_true_eq]
      exact ⟨⟨⟨h1, h2⟩, by simp [h3]⟩, i1⟩
    · simpa [walkEnd] using i2
    · simp only [List.cons_append, walkCost, i3]; omega

theorem relaxEdge_achieved (g : Graph) (src steps ms : Nat) (s : BFState) (e : Edge) (he : e ∈ g.edges)
    (h : Achieved g src s.dist) : Achieved g src (relaxEdge steps ms s e).dist := by
  unfold relaxEdge
  split
  · rename_i x hx
    obtain ⟨w, d, hw, hd, rfl, _⟩ := improves_some hx
    intro v y hy
    simp only [setD] at hy
    by_cases hq : v = e.dst
    · simp only [hq, if_true] at hy
      cases hy
      obtain ⟨es, h1, h2, h3⟩ := h e.src d hd
      obtain ⟨i1, i2, i3⟩ := walk_snoc g e w he hw es src h1 h2
      exact ⟨es ++ [e], i1, by rw [i2, hq], by rw [i3, h3]⟩
    · simp only [hq, if_false] at hy
      exact h v y hy
  · exact h

theorem roundD_achieved (g : Graph) (src : Nat) (d : Dist) (h : Achieved g src d) :
    Achieved g src (roundD g d) := by
  unfold roundD round
  exact foldl_inv (fun s : BFState => Achieved g src s.dist) (relaxEdge 0 g.maxSteps)
    (relaxOrder g) ⟨d, initPred, false⟩ h
    (fun a e he ha => relaxEdge_achieved g src 0 g.maxSteps a e (mem_edges_of_mem_relaxOrder g e he) ha)

theorem iterD_achieved (g : Graph) (src : Nat) : ∀ (k : Nat) (d : Dist), Achieved g src d →
    Achieved g src (iterD g k d)
  | 0, _, h => h
  | k + 1, d, h => iterD_achieved g src k _ (roundD_achieved g src d h)

theorem initDist_achieved (g : Graph) (src : Nat) : Achieved g src (initDist src) := by
  intro v x hx
  simp only [initDist] at hx
  by_cases hv : v = src
  · simp only [hv, if_true] at hx
    cases hx
    exact ⟨[], rfl, hv.symm, rfl⟩
  · simp [hv] at hx

/-- the predecessor walk over a rooted and tight predecessor structure: the reconstructed walk
starts at the source and costs no more than the distance gap it spans. -/
theorem walk_chain_cost (g : Graph) (src : Nat) (d : Dist) (pred : Pred) (hJ : PredRooted src pred)
    (hT : PredTight g d pred) (ms tgt : Nat) :
    ∀ (fuel : Nat) (c : Nat) (steps : Nat) (acc path : List Nat) (es : List Edge),
      es.map (·.market) = acc → isWalk g c es = true → walkEnd c es = tgt →
      (es = [] ∨ c = src ∨ pred c ≠ none) →
      (es ≠ [] → ∃ dc dt, d c = some dc ∧ d tgt = some dt ∧ dc + walkCost es ≤ dt) →
      walk pred ms fuel (pred c) steps acc = some path →
      ∃ (x : Nat) (es' : List Edge), es'.map (·.market) = path ∧ isWalk g x es' = true ∧
        walkEnd x es' = tgt ∧ (es' = [] ∨ x = src) ∧
        (es' ≠ [] → ∃ dx dt, d x = some dx ∧ d tgt = some dt ∧ dx + walkCost es' ≤ dt)
  | 0, _, _, _, _, _, _, _, _, _, _, h => by simp [walk] at h
  | fuel + 1, c, steps, acc, path, es, hm, hw, he, hroot, hcost, h => by
    unfold walk at h
    split at h
    · rename_i hn
      cases h
      refine ⟨c, es, hm, hw, he, ?_, hcost⟩
      rcases hroot with h1 | h1 | h1
      · exact Or.inl h1
      · exact Or.inr h1
      · exact absurd hn h1
    · rename_i p m hpm
      split at h
      · cases h
      · obtain ⟨e, hin, hs, hd, hmk, w, du, dv, hc, hdu, hdv, hle⟩ := hT c p m hpm
        refine walk_chain_cost g src d pred hJ hT ms tgt fuel p (steps + 1) (m :: acc) path (e :: es)
          ?_ ?_ ?_ ?_ ?_ h
        · simp [hmk, hm]
        · simp only [isWalk, Bool.and_eq_true, decide_eq_true_eq]
          exact ⟨⟨⟨hin, hs⟩, by simp [hc]⟩, by rw [hd]; exact hw⟩
        · simp only [walkEnd]; rw [hd]; exact he
        · right; exact hJ c p m hpm
        · intro _
          by_cases hes : es = []
          · subst hes
            simp only [walkEnd] at he
            subst he
            exact ⟨du, dv, hdu, hdv, by simp [walkCost, hc]; omega⟩
          · obtain ⟨dc, dt, h1, h2, h3⟩ := hcost hes
            rw [hdv] at h1; cases h1
            exact ⟨du, dt, hdu, h2, by simp only [walkCost, hc, Option.getD_some]; omega⟩

end Gmx.SwapGraph

namespace Gmx.SwapGraph

/-! ### a terminating predecessor walk visits no token twice -/

/-- `Term pred c n`: following predecessors from `c` reaches a token without predecessor after
exactly `n` steps. -/
inductive Term (pred : Pred) : Nat → Nat → Prop
  | zero {c : Nat} : pred c = none → Term pred c 0
  | succ {c p m n : Nat} : pred c = some (p, m) → Term pred p n → Term pred c (n + 1)

theorem Term.det {pred : Pred} : ∀ {c n n' : Nat}, Term pred c n → Term pred c n' → n = n' := by
  intro c n n' h
  induction h generalizing n' with
  | zero h0 =>
    intro h'
    cases h' with
    | zero _ => rfl
    | succ h1 _ => rw [h0] at h1; cases h1
  | succ h1 _ ih =>
    intro h'
    cases h' with
    | zero h0 => rw [h0] at h1; cases h1
    | succ h1' h2' =>
      rw [h1] at h1'
      cases h1'
      rw [ih h2']

/-- the walk follows predecessor links. -/
def PredLinked (pred : Pred) : Nat → List Edge → Prop
  | _, [] => True
  | a, e :: es => e.src = a ∧ pred e.dst = some (a, e.market) ∧ PredLinked pred e.dst es

/-- the predecessor walk yields a predecessor-linked walk that starts at a token without
predecessor. -/
theorem walk_chain_linked (g : Graph) (pred : Pred) (hok : PredOk g pred) (ms tgt : Nat) :
    ∀ (fuel : Nat) (c : Nat) (steps : Nat) (acc path : List Nat) (es : List Edge),
      es.map (·.market) = acc → walkEnd c es = tgt → PredLinked pred c es →
      (∀ e ∈ es, e ∈ g.edges) →
      walk pred ms fuel (pred c) steps acc = some path →
      ∃ (x : Nat) (es' : List Edge), es'.map (·.market) = path ∧ walkEnd x es' = tgt ∧
        PredLinked pred x es' ∧ pred x = none ∧ (∀ e ∈ es', e ∈ g.edges)
  | 0, _, _, _, _, _, _, _, _, _, h => by simp [walk] at h
  | fuel + 1, c, steps, acc, path, es, hm, he, hl, hin, h => by
    unfold walk at h
    split at h
    · rename_i hn
      cases h
      exact ⟨c, es, hm, he, hl, hn, hin⟩
    · rename_i p m hpm
      split at h
      · cases h
      · obtain ⟨e, hmem, hs, hd, hmk, _⟩ := hok c p m hpm
        refine walk_chain_linked g pred hok ms tgt fuel p (steps + 1) (m :: acc) path (e :: es) ?_ ?_ ?_ ?_ h
        · simp [hmk, hm]
        · simp only [walkEnd]; rw [hd]; exact he
        · exact ⟨hs, by rw [hd, hmk]; exact hpm, by rw [hd]; exact hl⟩
        · intro e' he'
          rcases List.mem_cons.1 he' with rfl | he'
          · exact hmem
          · exact hin e' he'

/-- ranks along a predecessor-linked walk increase by one per edge. -/
theorem linked_ranks (pred : Pred) : ∀ (es : List Edge) (a n : Nat), PredLinked pred a es →
    Term pred a n → ∀ e ∈ es, ∃ k, n ≤ k ∧ Term pred e.src k ∧ Term pred e.dst (k + 1)
  | [], _, _, _, _, _, h => by cases h
  | x :: es, a, n, ⟨h1, h2, h3⟩, ht, e, he => by
    have hx : Term pred x.dst (n + 1) := Term.succ h2 ht
    rcases List.mem_cons.1 he with rfl | he
    · exact ⟨n, Nat.le_refl _, by rw [h1]; exact ht, hx⟩
    · obtain ⟨k, hk, r1, r2⟩ := linked_ranks pred es x.dst (n + 1) h3 hx e he
      exact ⟨k, by omega, r1, r2⟩

/-- market well-formedness: the two edges of a market join the same pair of tokens. -/
def MarketsWF (g : Graph) : Prop :=
  ∀ e ∈ g.edges, ∀ e' ∈ g.edges, e.market = e'.market →
    (e.src = e'.src ∧ e.dst = e'.dst) ∨ (e.src = e'.dst ∧ e.dst = e'.src)

/-- a predecessor-linked walk from a token without predecessor repeats no market. -/
theorem linked_markets_nodup (g : Graph) (hm : MarketsWF g) (pred : Pred) :
    ∀ (es : List Edge) (a n : Nat), (∀ e ∈ es, e ∈ g.edges) → PredLinked pred a es → Term pred a n →
      (es.map (·.market)).Nodup
  | [], _, _, _, _, _ => by simp
  | x :: es, a, n, hin, ⟨h1, h2, h3⟩, ht => by
    have hx : Term pred x.dst (n + 1) := Term.succ h2 ht
    simp only [List.map_cons, List.nodup_cons]
    refine ⟨?_, linked_markets_nodup g hm pred es x.dst (n + 1)
      (fun e he => hin e (List.mem_cons_of_mem _ he)) h3 hx⟩
    intro hmem
    obtain ⟨e', he', hmk⟩ := List.mem_map.1 hmem
    obtain ⟨k, hk, r1, r2⟩ := linked_ranks pred es x.dst (n + 1) h3 hx e' he'
    have hxs : Term pred x.src n := by rw [h1]; exact ht
    rcases hm x (hin x (List.mem_cons_self ..)) e' (hin e' (List.mem_cons_of_mem _ he')) hmk.symm with
      ⟨q1, _⟩ | ⟨q1, _⟩
    · rw [q1] at hxs
      have := Term.det hxs r1
      omega
    · rw [q1] at hxs
      have := Term.det hxs r2
      omega

end Gmx.SwapGraph

namespace Gmx.SwapGraph

/-! ### rootedness in DFS mode, and walks that start at the source -/

theorem dfsRec_rooted (g : Graph) (src : Nat) : ∀ (fuel cur : Nat) (distance : Option Int)
    (P : Option (Nat × Nat)) (steps : Nat) (visited : List Nat) (st : Dist × Pred),
    PredRooted src st.2 → (P = none → cur = src ∧ st.2 cur = none) →
    (∀ u m, P = some (u, m) → u = src ∨ st.2 u ≠ none) →
    PredRooted src (dfsRec g fuel cur distance P steps visited st).2 ∧
    (∀ u, st.2 u ≠ none → (dfsRec g fuel cur distance P steps visited st).2 u ≠ none)
  | 0, _, _, _, _, _, _, h, _, _ => by simp only [dfsRec]; exact ⟨h, fun _ hu => hu⟩
  | fuel + 1, cur, distance, P, steps, visited, st, hJ, hP0, hP1 => by
    unfold dfsRec
    by_cases h1 : steps > g.maxSteps
    · rw [if_pos h1]; exact ⟨hJ, fun _ hu => hu⟩
    · rw [if_neg h1]
      cases distance with
      | none => exact ⟨hJ, fun _ hu => hu⟩
      | some d =>
        simp only []
        by_cases h2 : pruned (st.1 cur) d = true
        · rw [if_pos h2]; exact ⟨hJ, fun _ hu => hu⟩
        · rw [if_neg h2]
          -- the state after recording `cur`
          have hJ0 : PredRooted src (setP st.2 cur P) := by
            intro v u m hv
            simp only [setP] at hv ⊢
            by_cases hq : v = cur
            · simp only [hq, if_true] at hv
              rcases hP1 u m hv with h | h
              · exact Or.inl h
              · right
                by_cases hu : u = cur
                · simp [hu, hv]
                · simp only [hu, if_false]; exact h
            · simp only [hq, if_false] at hv
              rcases hJ v u m hv with h | h
              · exact Or.inl h
              · by_cases hu : u = cur
                · cases hP : P with
                  | none => left; rw [hu]; exact (hP0 hP).1
                  | some x => right; simp [hu]
                · right; simp only [hu, if_false]; exact h
          have hmono0 : ∀ u, st.2 u ≠ none → setP st.2 cur P u ≠ none := by
            intro u hu
            simp only [setP]
            by_cases hq : u = cur
            · simp only [hq, if_true]
              intro hP
              exact hu (by rw [hq]; exact (hP0 hP).2)
            · simp only [hq, if_false]; exact hu
          have hcur : cur = src ∨ setP st.2 cur P cur ≠ none := by
            cases hP : P with
            | none => exact Or.inl (hP0 hP).1
            | some x => right; simp [setP]
          have key := foldl_inv
            (fun a : Dist × Pred => PredRooted src a.2 ∧ ∀ u, setP st.2 cur P u ≠ none → a.2 u ≠ none)
            (fun st' e => if (cur :: visited).contains e.dst = true then st'
              else dfsRec g fuel e.dst (e.cost.map (fun w => w + d)) (some (cur, e.market)) (steps + 1)
                (cur :: visited) st')
            (outgoing g cur) (setD st.1 cur d, setP st.2 cur P) ⟨hJ0, fun _ hu => hu⟩
            (by
              intro a e _ ⟨haJ, hamono⟩
              by_cases h3 : (cur :: visited).contains e.dst = true
              · rw [if_pos h3]; exact ⟨haJ, hamono⟩
              · rw [if_neg h3]
                obtain ⟨r1, r2⟩ := dfsRec_rooted g src fuel e.dst (e.cost.map (fun w => w + d))
                  (some (cur, e.market)) (steps + 1) (cur :: visited) a haJ (fun hh => by cases hh)
                  (by
                    intro u m hum
                    cases hum
                    rcases hcur with h | h
                    · exact Or.inl h
                    · exact Or.inr (hamono cur h))
                exact ⟨r1, fun u hu => r2 u (hamono u hu)⟩)
          exact ⟨key.1, fun u hu => key.2 u (hmono0 u hu)⟩

/-- predecessor walk over a rooted predecessor structure of graph edges: a non-empty result is a
walk that starts at the source. -/
theorem walk_chain_rooted (g : Graph) (src : Nat) (pred : Pred) (hok : PredOk g pred)
    (hJ : PredRooted src pred) (ms tgt : Nat) :
    ∀ (fuel : Nat) (c : Nat) (steps : Nat) (acc path : List Nat) (es : List Edge),
      es.map (·.market) = acc → isWalk g c es = true → walkEnd c es = tgt →
      (es = [] ∨ c = src ∨ pred c ≠ none) →
      walk pred ms fuel (pred c) steps acc = some path →
      ∃ (x : Nat) (es' : List Edge), es'.map (·.market) = path ∧ isWalk g x es' = true ∧
        walkEnd x es' = tgt ∧ (es' = [] ∨ x = src)
  | 0, _, _, _, _, _, _, _, _, _, h => by simp [walk] at h
  | fuel + 1, c, steps, acc, path, es, hm, hw, he, hroot, h => by
    unfold walk at h
    split at h
    · rename_i hn
      cases h
      refine ⟨c, es, hm, hw, he, ?_⟩
      rcases hroot with h1 | h1 | h1
      · exact Or.inl h1
      · exact Or.inr h1
      · exact absurd hn h1
    · rename_i p m hpm
      split at h
      · cases h
      · obtain ⟨e, hin, hs, hd, hmk, hc⟩ := hok c p m hpm
        refine walk_chain_rooted g src pred hok hJ ms tgt fuel p (steps + 1) (m :: acc) path (e :: es)
          ?_ ?_ ?_ ?_ h
        · simp [hmk, hm]
        · simp only [isWalk, Bool.and_eq_true, decide_eq_true_eq]
          exact ⟨⟨⟨hin, hs⟩, hc⟩, by rw [hd]; exact hw⟩
        · simp only [walkEnd]; rw [hd]; exact he
        · right; exact hJ c p m hpm

end Gmx.SwapGraph

namespace Gmx.SwapGraph

/-! ### DFS mode: tight predecessors, untouched stack -/

theorem pruned_false {best : Option Int} {d : Int} (h : ¬ pruned best d = true) :
    ∀ b, best = some b → d < b := by
  intro b hb
  subst hb
  simp only [pruned, decide_eq_true_eq] at h
  omega

/-- `dfs_recursive` keeps predecessors tight and never worsens a distance. -/
theorem dfsRec_tight (g : Graph) : ∀ (fuel cur : Nat) (distance : Option Int)
    (P : Option (Nat × Nat)) (steps : Nat) (visited : List Nat) (st : Dist × Pred),
    PredTight g st.1 st.2 →
    (∀ d u m, distance = some d → P = some (u, m) → u ≠ cur ∧ ∃ e ∈ g.edges, e.src = u ∧ e.dst = cur ∧
      e.market = m ∧ ∃ w du, e.cost = some w ∧ st.1 u = some du ∧ du + w ≤ d) →
    PredTight g (dfsRec g fuel cur distance P steps visited st).1 (dfsRec g fuel cur distance P steps visited st).2 ∧
    Better (dfsRec g fuel cur distance P steps visited st).1 st.1
  | 0, _, _, _, _, _, _, h, _ => by simp only [dfsRec]; exact ⟨h, Better.refl _⟩
  | fuel + 1, cur, distance, P, steps, visited, st, hT, hP => by
    unfold dfsRec
    by_cases h1 : steps > g.maxSteps
    · rw [if_pos h1]; exact ⟨hT, Better.refl _⟩
    · rw [if_neg h1]
      cases distance with
      | none => exact ⟨hT, Better.refl _⟩
      | some d =>
        simp only []
        by_cases h2 : pruned (st.1 cur) d = true
        · rw [if_pos h2]; exact ⟨hT, Better.refl _⟩
        · rw [if_neg h2]
          have hlt := pruned_false h2
          have hB0 : Better (setD st.1 cur d) st.1 := by
            intro v x hx
            simp only [setD]
            by_cases hq : v = cur
            · subst hq
              exact ⟨d, by simp, Int.le_of_lt (hlt x hx)⟩
            · exact ⟨x, by simp [hq, hx], Int.le_refl _⟩
          have hT0 : PredTight g (setD st.1 cur d) (setP st.2 cur P) := by
            intro v u m hv
            simp only [setP] at hv
            by_cases hq : v = cur
            · simp only [hq, if_true] at hv
              obtain ⟨hne, e, he, h1', h2', h3', w, du, hw, hdu, hle⟩ := hP d u m rfl hv
              refine ⟨e, he, h1', by rw [h2', hq], h3', w, du, d, hw, ?_, ?_, hle⟩
              · simp [setD, hne, hdu]
              · simp [setD, hq]
            · simp only [hq, if_false] at hv
              obtain ⟨e, he, h1', h2', h3', w, du, dv, hw, hdu, hdv, hle⟩ := hT v u m hv
              refine ⟨e, he, h1', h2', h3', w, ?_⟩
              by_cases hu : u = cur
              · have := hlt du (by rw [← hu]; exact hdu)
                exact ⟨d, dv, hw, by simp [setD, hu], by simp [setD, hq, hdv], by omega⟩
              · exact ⟨du, dv, hw, by simp [setD, hu, hdu], by simp [setD, hq, hdv], hle⟩
          have key := foldl_inv
            (fun a : Dist × Pred => PredTight g a.1 a.2 ∧ Better a.1 (setD st.1 cur d))
            (fun st' e => if (cur :: visited).contains e.dst = true then st'
              else dfsRec g fuel e.dst (e.cost.map (fun w => w + d)) (some (cur, e.market)) (steps + 1)
                (cur :: visited) st')
            (outgoing g cur) (setD st.1 cur d, setP st.2 cur P) ⟨hT0, Better.refl _⟩
            (by
              intro a e he ⟨haT, haB⟩
              by_cases h3 : (cur :: visited).contains e.dst = true
              · rw [if_pos h3]; exact ⟨haT, haB⟩
              · rw [if_neg h3]
                have hne : cur ≠ e.dst := by
                  intro hh
                  apply h3
                  rw [← hh]; simp
                obtain ⟨du, hdu, hle⟩ := haB cur d (by simp [setD])
                unfold outgoing at he
                rw [List.mem_reverse, List.mem_filter] at he
                obtain ⟨r1, r2⟩ := dfsRec_tight g fuel e.dst (e.cost.map (fun w => w + d))
                  (some (cur, e.market)) (steps + 1) (cur :: visited) a haT
                  (by
                    intro d' u m hd' hum
                    cases hum
                    cases hc : e.cost with
                    | none => rw [hc] at hd'; cases hd'
                    | some w =>
                      rw [hc] at hd'
                      simp only [Option.map_some, Option.some.injEq] at hd'
                      subst hd'
                      exact ⟨hne, e, he.1, by simpa using he.2, rfl, rfl, w, du, hc, hdu, by omega⟩)
                exact ⟨r1, Better.trans r2 haB⟩)
          exact ⟨key.1, Better.trans key.2 hB0⟩

/-- tokens on the recursion stack are never touched. -/
theorem dfsRec_visited (g : Graph) : ∀ (fuel cur : Nat) (distance : Option Int)
    (P : Option (Nat × Nat)) (steps : Nat) (visited : List Nat) (st : Dist × Pred),
    ¬ visited.contains cur = true →
    ∀ v, visited.contains v = true → (dfsRec g fuel cur distance P steps visited st).1 v = st.1 v
  | 0, _, _, _, _, _, _, _, _, _ => by simp only [dfsRec]
  | fuel + 1, cur, distance, P, steps, visited, st, hc, v, hv => by
    unfold dfsRec
    by_cases h1 : steps > g.maxSteps
    · rw [if_pos h1]
    · rw [if_neg h1]
      cases distance with
      | none => rfl
      | some d =>
        simp only []
        by_cases h2 : pruned (st.1 cur) d = true
        · rw [if_pos h2]
        · rw [if_neg h2]
          have hvc : v ≠ cur := by
            intro hh; subst hh; exact hc hv
          have key := foldl_inv (fun a : Dist × Pred => a.1 v = st.1 v)
            (fun st' e => if (cur :: visited).contains e.dst = true then st'
              else dfsRec g fuel e.dst (e.cost.map (fun w => w + d)) (some (cur, e.market)) (steps + 1)
                (cur :: visited) st')
            (outgoing g cur) (setD st.1 cur d, setP st.2 cur P) (by simp [setD, hvc])
            (by
              intro a e _ ha
              by_cases h3 : (cur :: visited).contains e.dst = true
              · rw [if_pos h3]; exact ha
              · rw [if_neg h3]
                rw [dfsRec_visited g fuel e.dst _ _ _ (cur :: visited) a h3 v
                  (by simp only [List.contains_cons, Bool.or_eq_true]; exact Or.inr hv)]
                exact ha)
          exact key

end Gmx.SwapGraph

namespace Gmx.SwapGraph

/-- a visit that is not cut off records its distance, and nothing below it changes it again. -/
theorem dfsRec_root (g : Graph) (fuel cur : Nat) (d : Int) (P : Option (Nat × Nat)) (steps : Nat)
    (visited : List Nat) (st : Dist × Pred) (h1 : ¬ steps > g.maxSteps)
    (h2 : ¬ pruned (st.1 cur) d = true) :
    (dfsRec g (fuel + 1) cur (some d) P steps visited st).1 cur = some d := by
  unfold dfsRec
  rw [if_neg h1]
  simp only []
  rw [if_neg h2]
  exact foldl_inv (fun a : Dist × Pred => a.1 cur = some d)
    (fun st' e => if (cur :: visited).contains e.dst = true then st'
      else dfsRec g fuel e.dst (e.cost.map (fun w => w + d)) (some (cur, e.market)) (steps + 1)
        (cur :: visited) st')
    (outgoing g cur) (setD st.1 cur d, setP st.2 cur P) (by simp [setD])
    (by
      intro a e _ ha
      by_cases h3 : (cur :: visited).contains e.dst = true
      · rw [if_pos h3]; exact ha
      · rw [if_neg h3]
        rw [dfsRec_visited g fuel e.dst _ _ _ (cur :: visited) a h3 cur (by simp)]
        exact ha)

/-- what `dfs` returns: rooted and tight predecessors, source at distance 0. -/
theorem dfs_ok {g : Graph} {src : Nat} {r : Dist × Pred} (h : dfs g src = .ok r) :
    PredRooted src r.2 ∧ PredTight g r.1 r.2 ∧ r.1 src = some 0 := by
  unfold dfs at h
  split at h
  · cases h
  · cases h
    refine ⟨?_, ?_, ?_⟩
    · exact (dfsRec_rooted g src _ src (some 0) none 0 [] (fun _ => none, fun _ => none)
        (fun v u m hh => by cases hh) (fun _ => ⟨rfl, rfl⟩) (fun u m hh => by cases hh)).1
    · exact (dfsRec_tight g _ src (some 0) none 0 [] (fun _ => none, fun _ => none)
        (fun v u m hh => by cases hh) (fun d u m _ hh => by cases hh)).1
    · exact dfsRec_root g (g.maxSteps + 1) src 0 none 0 [] (fun _ => none, fun _ => none)
        (by omega) (by simp [pruned])

end Gmx.SwapGraph
