import Gmx.Model.Swap
import Gmx.Props.C02
/-!
Helper lemmas about pools, the capped swap impact amount and the stages of a swap
(`swapCalc`, `swapApply`). Used by C04, C05, C06.
-/
namespace Gmx.Lem
open Gmx

theorem checkedAddWithSigned_eq {W a : Nat} {s : Int} {v : Nat} (h : checkedAddWithSigned W a s = some v) :
    (v : Int) = a + s := by
  unfold checkedAddWithSigned checkedAdd checkedSub toU at h
  split at h
  · split at h
    · cases h; omega
    · cases h
  · split at h
    · cases h; omega
    · cases h

theorem applyDelta_long {W : Nat} {p p' : Pool} {d : Int} (h : p.applyDelta W true d = some p') :
    (p'.long : Int) = p.long + d ∧ p'.short = p.short := by
  unfold Pool.applyDelta at h
  split at h
  · cases h
  · rename_i v hv
    cases h
    have := checkedAddWithSigned_eq hv
    simp [Pool.amount] at this
    simp [Pool.setAmount, this]

theorem applyDelta_short {W : Nat} {p p' : Pool} {d : Int} (h : p.applyDelta W false d = some p') :
    (p'.short : Int) = p.short + d ∧ p'.long = p.long := by
  unfold Pool.applyDelta at h
  split at h
  · cases h
  · rename_i v hv
    cases h
    have := checkedAddWithSigned_eq hv
    simp [Pool.amount] at this
    simp [Pool.setAmount, this]

theorem applyDeltas_spec {W : Nat} {p p' : Pool} {dl ds : Option Int} (h : p.applyDeltas W dl ds = some p') :
    (p'.long : Int) = p.long + dl.getD 0 ∧ (p'.short : Int) = p.short + ds.getD 0 := by
  unfold Pool.applyDeltas at h
  simp only at h
  cases dl with
  | none =>
    cases ds with
    | none => simp at h; subst h; simp
    | some d => simp at h; obtain ⟨a, b⟩ := applyDelta_short h; simp [a, b]
  | some d =>
    simp only at h
    split at h
    · cases h
    · rename_i q hq
      obtain ⟨a, b⟩ := applyDelta_long hq
      cases ds with
      | none => simp at h; subst h; simp [a, b]
      | some e => simp at h; obtain ⟨c, f⟩ := applyDelta_short h; simp [a, b, c, f]

/-- one-sided delta, per side. -/
theorem applyOneSide_spec {W : Nat} {p p' : Pool} {isLong : Bool} {d : Int}
    (h : p.applyOneSide W isLong d = some p') :
    (p'.amount isLong : Int) = p.amount isLong + d ∧ p'.amount (!isLong) = p.amount (!isLong) := by
  unfold Pool.applyOneSide at h
  cases isLong <;> simp only [Bool.false_eq_true, if_false, if_true] at h <;>
    obtain ⟨a, b⟩ := applyDeltas_spec h <;> simp [Pool.amount] at * <;> omega

/-- two-sided delta: `first` goes to the `isLongFirst` side, `second` to the other. -/
theorem applyBothSides_spec {W : Nat} {p p' : Pool} {isLongFirst : Bool} {first second : Int}
    (h : p.applyBothSides W isLongFirst first second = some p') :
    (p'.amount isLongFirst : Int) = p.amount isLongFirst + first ∧
    (p'.amount (!isLongFirst) : Int) = p.amount (!isLongFirst) + second := by
  unfold Pool.applyBothSides at h
  cases isLongFirst <;> simp only [Bool.false_eq_true, if_false, if_true] at h <;>
    obtain ⟨a, b⟩ := applyDeltas_spec h <;> simp [Pool.amount] at * <;> omega

theorem toSigned_eq {W n : Nat} {z : Int} (h : toSigned W n = some z) : z = n := by
  unfold toSigned at h; split at h <;> cases h; rfl

theorem toOppositeSigned_eq {W n : Nat} {z : Int} (h : toOppositeSigned W n = some z) : z = -(n : Int) := by
  unfold toOppositeSigned at h
  cases h' : toSigned W n with
  | none => simp [h'] at h
  | some y => simp [h'] at h; have := toSigned_eq h'; omega

theorem toI_eq {W : Nat} {z y : Int} (h : toI W z = some y) : y = z := by
  unfold toI at h; split at h <;> cases h; rfl

theorem checkedAdd_eq {W a b v : Nat} (h : checkedAdd W a b = some v) : v = a + b := by
  unfold checkedAdd toU at h; split at h <;> cases h; rfl

theorem checkedSub_eq {a b v : Nat} (h : checkedSub a b = some v) : b ≤ a ∧ v = a - b := by
  unfold checkedSub at h; split at h <;> cases h; exact ⟨by assumption, rfl⟩

theorem checkedMul_eq {W a b v : Nat} (h : checkedMul W a b = some v) : v = a * b := by
  unfold checkedMul toU at h; split at h <;> cases h; rfl

/-- a positive impact value: the amount is non-negative, at most the impact pool of that side,
and worth (at the max price) at most the impact value; the capped remainder is worth at most the
rest of the impact value. -/
theorem cap_pos {W : Nat} {pool : Pool} {isLong : Bool} {price : Price} {usd a : Int} {cdv : Nat}
    (h : swapImpactAmountWithCap W pool isLong price usd = some (a, cdv)) (hpos : usd > 0) :
    0 ≤ a ∧ a ≤ pool.amount isLong ∧ a * price.max + cdv ≤ usd ∧ price.max ≠ 0 := by
  unfold swapImpactAmountWithCap at h
  split at h
  · cases h
  · rename_i hz
    have hmax : price.max ≠ 0 := by
      intro h0; simp [Price.hasZero, h0] at hz
    simp only [hpos, if_true] at h
    split at h
    · cases h
    · rename_i mp hmp
      have hmp := toSigned_eq hmp
      subst hmp
      have hu : usd = ((usd.natAbs : Nat) : Int) := by omega
      have hd : Int.tdiv usd price.max = ((usd.natAbs / price.max : Nat) : Int) := by
        rw [hu, C01.tdiv_nat]; simp
      have hq : Int.tdiv usd price.max * price.max ≤ usd := by
        rw [hd]
        have := Nat.div_mul_le_self usd.natAbs price.max
        have e : ((usd.natAbs / price.max : Nat) : Int) * (price.max : Int) = ((usd.natAbs / price.max * price.max : Nat) : Int) := by
          push_cast; rfl
        rw [e]; omega
      have hq0 : 0 ≤ Int.tdiv usd price.max := by rw [hd]; exact Int.natCast_nonneg _
      split at h
      · cases h
      · rename_i ma hma
        have hma := toSigned_eq hma
        subst hma
        split at h
        · rename_i hgt
          split at h
          · cases h
          · rename_i diff hdiff
            have hdiff := toI_eq hdiff
            split at h
            · cases h
            · rename_i c hc
              cases h
              have hc := checkedMul_eq hc
              refine ⟨by omega, by omega, ?_, hmax⟩
              subst hc hdiff
              have e : ((Int.tdiv usd price.max - (pool.amount isLong : Int)).natAbs : Int)
                  = Int.tdiv usd price.max - pool.amount isLong := by omega
              push_cast
              rw [e, Int.sub_mul]
              omega
        · rename_i hle
          cases h
          refine ⟨hq0, by omega, by simpa using hq, hmax⟩

/-- a negative impact value: the amount is non-positive and its magnitude is the value's magnitude
divided by the min price, rounded UP. -/
theorem cap_neg {W : Nat} {pool : Pool} {isLong : Bool} {price : Price} {usd a : Int} {cdv : Nat}
    (h : swapImpactAmountWithCap W pool isLong price usd = some (a, cdv)) (hneg : usd < 0) :
    a ≤ 0 ∧ cdv = 0 ∧ price.min ≠ 0 ∧ -usd ≤ -a * price.min ∧ -a * price.min < -usd + price.min := by
  unfold swapImpactAmountWithCap at h
  split at h
  · cases h
  · rename_i hz
    have hmin : price.min ≠ 0 := by
      intro h0; simp [Price.hasZero, h0] at hz
    have hnp : ¬ usd > 0 := by omega
    simp only [hnp, if_false, hneg, if_true] at h
    split at h
    · cases h
    · rename_i p hp
      have hp := toSigned_eq hp
      subst hp
      split at h
      · cases h
      · rename_i x hx
        have hx := toI_eq hx
        split at h
        · cases h
        · rename_i y hy
          have hy := toI_eq hy
          cases h
          subst hy hx
          have hk : usd - (price.min : Int) + 1 = -(((-usd).natAbs + price.min - 1 : Nat) : Int) := by omega
          rw [hk, C01.neg_tdiv_of_nonneg]
          generalize hkk : (-usd).natAbs + price.min - 1 = k
          have h1 := Nat.div_mul_le_self k price.min
          have h2 := Nat.lt_div_mul_add (a := k) (b := price.min) (by omega)
          have e : ((k / price.min : Nat) : Int) * (price.min : Int) = ((k / price.min * price.min : Nat) : Int) := by
            push_cast; rfl
          have h0 : (0 : Int) ≤ ((k / price.min : Nat) : Int) := Int.natCast_nonneg _
          refine ⟨by omega, rfl, hmin, ?_, ?_⟩
          · rw [Int.neg_neg, e]; omega
          · rw [Int.neg_neg, e]; omega

theorem cap_zero {W : Nat} {pool : Pool} {isLong : Bool} {price : Price} {a : Int} {cdv : Nat}
    (h : swapImpactAmountWithCap W pool isLong price 0 = some (a, cdv)) : a = 0 ∧ cdv = 0 := by
  unfold swapImpactAmountWithCap at h
  split at h
  · cases h
  · simp at h; exact ⟨h.1.symm, h.2.symm⟩

end Gmx.Lem
