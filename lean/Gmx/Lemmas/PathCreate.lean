import Gmx.Model.PathCreate
import Gmx.Model.Router
/-! helper lemmas for the creation-time path validation (C44) -/
namespace Gmx.Lem
open Gmx

/-- everything `validate_path`'s loop checks, read off a successful run -/
theorem validatePathGo_spec : ∀ (path : List CMarket) (seen : List Nat) (cur fin : Nat) (mts : List Nat),
    validatePathGo path seen cur = some (fin, mts) →
      (∀ m ∈ path, m.key ∉ seen) ∧ (path.map (·.key)).Nodup ∧
      (∀ m ∈ path, m.usable = true ∧ m.long ≠ m.short) ∧
      pathChain path cur = some fin ∧ mts = path.map (·.token) := by
  intro path
  induction path with
  | nil =>
    intro seen cur fin mts h
    simp [validatePathGo] at h
    obtain ⟨rfl, rfl⟩ := h
    simp [pathChain]
  | cons m ms ih =>
    intro seen cur fin mts h
    unfold validatePathGo at h
    split at h
    · cases h
    · split at h
      · cases h
      · split at h
        · cases h
        · rename_i hseen husable hne
          cases hopp : m.opp cur with
          | none => simp [hopp] at h
          | some nxt =>
            simp only [hopp] at h
            cases hrec : validatePathGo ms (m.key :: seen) nxt with
            | none => simp [hrec] at h
            | some r =>
              obtain ⟨fin', mts'⟩ := r
              simp only [hrec, Option.some.injEq, Prod.mk.injEq] at h
              obtain ⟨rfl, rfl⟩ := h
              obtain ⟨h1, h2, h3, h4, h5⟩ := ih _ _ _ _ hrec
              have hseen' : m.key ∉ seen := by simpa using hseen
              have husable' : m.usable = true := by simpa using husable
              refine ⟨?_, ?_, ?_, ?_, ?_⟩
              · intro x hx
                rcases List.mem_cons.mp hx with rfl | hx
                · exact hseen'
                · intro hc; exact h1 x hx (List.mem_cons_of_mem _ hc)
              · simp only [List.map_cons, List.nodup_cons]
                refine ⟨?_, h2⟩
                intro hc
                obtain ⟨x, hx, hk⟩ := List.mem_map.mp hc
                exact h1 x hx (by rw [hk]; exact List.mem_cons_self)
              · intro x hx
                rcases List.mem_cons.mp hx with rfl | hx
                · exact ⟨husable', hne⟩
                · exact h3 x hx
              · simp [pathChain, hopp, h4]
              · simp [h5]

/-- the converse: a path that meets the specification is accepted -/
theorem validatePathGo_complete : ∀ (path : List CMarket) (seen : List Nat) (cur fin : Nat),
    (∀ m ∈ path, m.key ∉ seen) → (path.map (·.key)).Nodup →
    (∀ m ∈ path, m.usable = true ∧ m.long ≠ m.short) → pathChain path cur = some fin →
    validatePathGo path seen cur = some (fin, path.map (·.token)) := by
  intro path
  induction path with
  | nil =>
    intro seen cur fin _ _ _ h
    simp [pathChain] at h
    simp [validatePathGo, h]
  | cons m ms ih =>
    intro seen cur fin h1 h2 h3 h4
    have hm := h3 m List.mem_cons_self
    have hs : m.key ∉ seen := h1 m List.mem_cons_self
    simp only [List.map_cons, List.nodup_cons] at h2
    unfold validatePathGo
    cases hopp : m.opp cur with
    | none => simp [pathChain, hopp] at h4
    | some nxt =>
      simp only [pathChain, hopp] at h4
      have hrec := ih (m.key :: seen) nxt fin
        (by
          intro x hx hc
          rcases List.mem_cons.mp hc with hk | hc
          · exact h2.1 (List.mem_map.mpr ⟨x, hx, hk⟩)
          · exact h1 x (List.mem_cons_of_mem _ hx) hc)
        h2.2 (fun x hx => h3 x (List.mem_cons_of_mem _ hx)) h4
      simp [hs, hm.1, hm.2, hrec]

/-- `noDup` (the execution-time check of `validated_*_swap_path`) agrees with `List.Nodup` -/
theorem noDup_iff (l : List Nat) : noDup l = true ↔ l.Nodup := by
  induction l with
  | nil => simp [noDup]
  | cons x xs ih => simp [noDup, ih, List.nodup_cons]

theorem setInsert_mem (x y : Nat) (s : List Nat) : y ∈ setInsert x s ↔ y = x ∨ y ∈ s := by
  induction s with
  | nil => simp [setInsert]
  | cons z zs ih =>
    unfold setInsert
    split
    · simp
    · split
      · rename_i h; subst h; simp
      · simp [ih]; constructor
        · rintro (h | h | h) <;> simp [h]
        · rintro (h | h | h) <;> simp [h]

theorem setInsert_sorted (x : Nat) (s : List Nat) (h : s.Pairwise (· < ·)) :
    (setInsert x s).Pairwise (· < ·) := by
  induction s with
  | nil => simp [setInsert]
  | cons z zs ih =>
    unfold setInsert
    rw [List.pairwise_cons] at h
    split
    · rename_i hlt
      refine List.pairwise_cons.mpr ⟨?_, List.pairwise_cons.mpr h⟩
      intro a ha
      rcases List.mem_cons.mp ha with rfl | ha
      · exact hlt
      · exact Nat.lt_trans hlt (h.1 a ha)
    · split
      · exact List.pairwise_cons.mpr h
      · rename_i hnlt hne
        refine List.pairwise_cons.mpr ⟨?_, ih h.2⟩
        intro a ha
        rcases (setInsert_mem x a zs).mp ha with rfl | ha
        · omega
        · exact h.1 a ha

theorem addTokens_sorted (m : CMarket) (s : List Nat) (h : s.Pairwise (· < ·)) :
    (m.addTokens s).Pairwise (· < ·) :=
  setInsert_sorted _ _ (setInsert_sorted _ _ (setInsert_sorted _ _ h))

theorem addTokens_mem (m : CMarket) (s : List Nat) (y : Nat) :
    y ∈ m.addTokens s ↔ y = m.short ∨ y = m.long ∨ y = m.index ∨ y ∈ s := by
  simp [CMarket.addTokens, setInsert_mem]

theorem foldTokens_sorted (path : List CMarket) (s : List Nat) (h : s.Pairwise (· < ·)) :
    (path.foldl (fun s m => m.addTokens s) s).Pairwise (· < ·) := by
  induction path generalizing s with
  | nil => simpa
  | cons m ms ih => exact ih _ (addTokens_sorted m s h)

theorem foldTokens_mem (path : List CMarket) (s : List Nat) (y : Nat) :
    y ∈ path.foldl (fun s m => m.addTokens s) s ↔
      y ∈ s ∨ ∃ m ∈ path, y = m.short ∨ y = m.long ∨ y = m.index := by
  induction path generalizing s with
  | nil => simp
  | cons m ms ih =>
    simp only [List.foldl_cons, ih, addTokens_mem, List.mem_cons, exists_eq_or_imp]
    constructor
    · rintro ((h | h | h | h) | h)
      · exact Or.inr (Or.inl (Or.inl h))
      · exact Or.inr (Or.inl (Or.inr (Or.inl h)))
      · exact Or.inr (Or.inl (Or.inr (Or.inr h)))
      · exact Or.inl h
      · exact Or.inr (Or.inr h)
    · rintro (h | (h | h | h) | h)
      · exact Or.inl (Or.inr (Or.inr (Or.inr h)))
      · exact Or.inl (Or.inl h)
      · exact Or.inl (Or.inr (Or.inl h))
      · exact Or.inl (Or.inr (Or.inr (Or.inl h)))
      · exact Or.inr h

end Gmx.Lem

namespace Gmx.Lem
open Gmx

theorem setInsert_length_le (x : Nat) (s : List Nat) : (setInsert x s).length ≤ s.length + 1 := by
  induction s with
  | nil => simp [setInsert]
  | cons z zs ih =>
    unfold setInsert
    split
    · simp
    · split
      · simp
      · simp only [List.length_cons]; omega

theorem setInsert_length_of_mem (x : Nat) (s : List Nat) (hs : s.Pairwise (· < ·)) (hx : x ∈ s) :
    (setInsert x s).length = s.length := by
  induction s with
  | nil => cases hx
  | cons z zs ih =>
    rw [List.pairwise_cons] at hs
    unfold setInsert
    split
    · rename_i hlt
      rcases List.mem_cons.mp hx with rfl | hx
      · omega
      · have := hs.1 x hx; omega
    · split
      · rfl
      · rename_i hnlt hne
        rcases List.mem_cons.mp hx with rfl | hx
        · exact absurd rfl hne
        · simp only [List.length_cons, ih hs.2 hx]

/-- a market one of whose sides is already in the token set adds at most two tokens
(its index token and the token on the other side) -/
theorem addTokens_length_step (m : CMarket) (s : List Nat) (hs : s.Pairwise (· < ·)) (cur nxt : Nat)
    (hc : cur ∈ s) (ho : m.opp cur = some nxt) :
    (m.addTokens s).length ≤ s.length + 2 ∧ nxt ∈ m.addTokens s := by
  have s1 := setInsert_sorted m.index s hs
  have s2 := setInsert_sorted m.long _ s1
  have l1 := setInsert_length_le m.index s
  have c1 : cur ∈ setInsert m.index s := (setInsert_mem _ _ _).mpr (Or.inr hc)
  unfold CMarket.opp at ho
  unfold CMarket.addTokens
  split at ho
  · rename_i h
    simp only [Option.some.injEq] at ho
    have e2 := setInsert_length_of_mem m.long _ s1 (h ▸ c1)
    have l3 := setInsert_length_le m.short (setInsert m.long (setInsert m.index s))
    exact ⟨by omega, (setInsert_mem _ _ _).mpr (Or.inl ho.symm)⟩
  · split at ho
    · rename_i _ h
      simp only [Option.some.injEq] at ho
      have l2 := setInsert_length_le m.long (setInsert m.index s)
      have c2 : m.short ∈ setInsert m.long (setInsert m.index s) :=
        (setInsert_mem _ _ _).mpr (Or.inr (h ▸ c1))
      have e3 := setInsert_length_of_mem m.short _ s2 c2
      exact ⟨by omega, (setInsert_mem _ _ _).mpr (Or.inr ((setInsert_mem _ _ _).mpr (Or.inl ho.symm)))⟩
    · cases ho

theorem addTokens_length_le (m : CMarket) (s : List Nat) : (m.addTokens s).length ≤ s.length + 3 := by
  unfold CMarket.addTokens
  have l1 := setInsert_length_le m.index s
  have l2 := setInsert_length_le m.long (setInsert m.index s)
  have l3 := setInsert_length_le m.short (setInsert m.long (setInsert m.index s))
  omega

/-- along a chain that starts at a token already in the set, every step adds at most two tokens -/
theorem foldTokens_length_chain : ∀ (path : List CMarket) (s : List Nat) (cur : Nat),
    s.Pairwise (· < ·) → cur ∈ s → pathChain path cur ≠ none →
    (path.foldl (fun s m => m.addTokens s) s).length ≤ s.length + 2 * path.length := by
  intro path
  induction path with
  | nil => intro s cur _ _ _; simp
  | cons m ms ih =>
    intro s cur hs hc hp
    cases ho : m.opp cur with
    | none => simp [pathChain, ho] at hp
    | some nxt =>
      simp only [pathChain, ho] at hp
      obtain ⟨hl, hn⟩ := addTokens_length_step m s hs cur nxt hc ho
      have := ih (m.addTokens s) nxt (addTokens_sorted m s hs) hn hp
      simp only [List.foldl_cons, List.length_cons]
      omega

/-- a whole side: at most `2 * steps + 1` new tokens (the input token may be new as well) -/
theorem foldTokens_length_side (path : List CMarket) (s : List Nat) (tin : Nat)
    (hs : s.Pairwise (· < ·)) (hp : pathChain path tin ≠ none) :
    (path.foldl (fun s m => m.addTokens s) s).length ≤ s.length + 2 * path.length + 1 := by
  cases path with
  | nil => simp
  | cons m ms =>
    cases ho : m.opp tin with
    | none => simp [pathChain, ho] at hp
    | some nxt =>
      simp only [pathChain, ho] at hp
      have hn : nxt ∈ m.addTokens s := by
        rw [addTokens_mem]
        unfold CMarket.opp at ho
        split at ho
        · simp only [Option.some.injEq] at ho; exact Or.inl ho.symm
        · split at ho
          · simp only [Option.some.injEq] at ho; exact Or.inr (Or.inl ho.symm)
          · cases ho
      have := foldTokens_length_chain ms (m.addTokens s) nxt (addTokens_sorted m s hs) hn hp
      have l := addTokens_length_le m s
      simp only [List.foldl_cons, List.length_cons]
      omega

end Gmx.Lem
