import Gmx.Model.Dec
/-! Helper lemmas for C43 (decimal conversions): `ilog10`, the `rescale` loops. -/
namespace Gmx.Dec

/-- `ilog10Aux` brackets its argument between consecutive powers of ten (fuel permitting). -/
theorem ilog10Aux_spec : ∀ (f n : Nat), 0 < n → n < 10 ^ (f + 1) →
    10 ^ ilog10Aux f n ≤ n ∧ n < 10 ^ (ilog10Aux f n + 1)
  | 0, n, h0, h1 => by simp [ilog10Aux] at *; omega
  | f + 1, n, h0, h1 => by
    unfold ilog10Aux
    by_cases h : n < 10
    · simp [h]; omega
    · simp only [h, if_false]
      have hlt : n / 10 < 10 ^ (f + 1) := by
        rw [Nat.pow_succ] at h1; omega
      have ih := ilog10Aux_spec f (n / 10) (by omega) hlt
      generalize ilog10Aux f (n / 10) = k at ih
      have e1 : 10 ^ (1 + k) = 10 ^ k * 10 := by rw [Nat.add_comm, Nat.pow_succ]
      have e2 : 10 ^ (1 + k + 1) = 10 ^ (k + 1) * 10 := by
        rw [show 1 + k + 1 = (k + 1) + 1 by omega, Nat.pow_succ]
      rw [e1, e2]
      generalize 10 ^ k = p at *
      generalize 10 ^ (k + 1) = q at *
      omega

theorem ilog10_spec (n : Nat) (h0 : 0 < n) (h1 : n < 10 ^ 41) :
    10 ^ ilog10 n ≤ n ∧ n < 10 ^ (ilog10 n + 1) := ilog10Aux_spec 40 n h0 h1

/-- an upper bound on `n` bounds `ilog10 n`. -/
theorem ilog10_lt_of_lt_pow (n k : Nat) (h0 : 0 < n) (h1 : n < 10 ^ 41) (hk : n < 10 ^ k) :
    ilog10 n < k := by
  have h := (ilog10_spec n h0 h1).1
  apply Decidable.byContradiction; intro hc
  have : 10 ^ k ≤ 10 ^ ilog10 n := Nat.pow_le_pow_right (by omega) (by omega)
  omega

theorem le_ilog10_of_pow_le (n k : Nat) (h0 : 0 < n) (h1 : n < 10 ^ 41) (hk : 10 ^ k ≤ n) :
    k ≤ ilog10 n := by
  have h := (ilog10_spec n h0 h1).2
  apply Decidable.byContradiction; intro hc
  have : 10 ^ (ilog10 n + 1) ≤ 10 ^ k := Nat.pow_le_pow_right (by omega) (by omega)
  omega

/-- the scale-up loop multiplies by exactly the power of ten it reports, and stays in 96 bits. -/
theorem upLoop_spec : ∀ (k v : Nat), v < 2 ^ 96 →
    (upLoop k v).2 ≤ k ∧ (upLoop k v).1 = v * 10 ^ (k - (upLoop k v).2) ∧ (upLoop k v).1 < 2 ^ 96
  | 0, v, hv => by simp [upLoop, hv]
  | k + 1, v, hv => by
    unfold upLoop
    by_cases h : v * 10 < 2 ^ 96
    · simp only [h, if_true]
      obtain ⟨h1, h2, h3⟩ := upLoop_spec k (v * 10) h
      refine ⟨by omega, ?_, h3⟩
      rw [h2, show k + 1 - (upLoop k (v * 10)).2 = (k - (upLoop k (v * 10)).2) + 1 by omega,
        Nat.pow_succ, Nat.mul_assoc, Nat.mul_comm 10]
    · simp [h, hv]

/-- the scale-down loop never increases the magnitude. -/
theorem downLoop_le : ∀ (k v r v' r' : Nat), downLoop k v r = some (v', r') →
    v' ≤ v ∧ (0 < k → v' ≤ v / 10)
  | 0, v, r, v', r', h => by simp [downLoop] at h; omega
  | k + 1, v, r, v', r', h => by
    unfold downLoop at h
    by_cases hv : v = 0
    · simp [hv] at h
    · simp only [hv, if_false] at h
      have := (downLoop_le k (v / 10) (v % 10) v' r' h).1
      omega

theorem natAbs_withSign (b : Bool) (v : Nat) : (withSign b v).natAbs = v := by
  unfold withSign; cases b <;> simp

/-- `withSign` with the sign of `m` applied to `|m| * p` is `m * p`. -/
theorem withSign_natAbs_mul (m : Int) (p : Nat) :
    withSign (decide (m < 0)) (m.natAbs * p) = m * (p : Int) := by
  unfold withSign
  by_cases h : m < 0
  · simp only [h, decide_true, if_true]
    have : ((m.natAbs : Nat) : Int) = -m := by omega
    rw [Int.natCast_mul, this, Int.neg_mul, Int.neg_neg]
  · simp only [h, decide_false]
    have : ((m.natAbs : Nat) : Int) = m := by omega
    simp [Int.natCast_mul, this]

/-- `rescale` keeps the magnitude within 96 bits. -/
theorem rescale_natAbs_lt (d : Dec) (new : Nat) (hm : d.mant.natAbs < 2 ^ 96) :
    (rescale d new).mant.natAbs < 2 ^ 96 := by
  unfold rescale
  by_cases h1 : d.scale = new
  · simp [h1, hm]
  · by_cases h2 : d.mant = 0
    · simp [h1, h2]
    · simp only [h1, h2, if_false]
      by_cases h3 : d.scale > new
      · simp only [h3, if_true]
        split
        · simp
        · rename_i v' r heq
          have := (downLoop_le _ _ _ _ _ heq).2 (by omega)
          simp only [natAbs_withSign]
          split <;> omega
      · simp only [h3, if_false]
        have := (upLoop_spec (new - d.scale) d.mant.natAbs hm).2.2
        simp only [natAbs_withSign]
        exact this

/-- scaling up (`d.scale ≤ new`): the value is preserved exactly, whatever scale is reached. -/
theorem rescale_up_exact (d : Dec) (new : Nat) (hm : d.mant.natAbs < 2 ^ 96) (hw : d.scale ≤ 28)
    (hs : d.scale ≤ new) :
    d.scale ≤ (rescale d new).scale ∧ (rescale d new).scale ≤ new ∧
    (rescale d new).mant = d.mant * ((10 ^ ((rescale d new).scale - d.scale) : Nat) : Int) := by
  unfold rescale
  by_cases h1 : d.scale = new
  · simp [h1]
  · by_cases h2 : d.mant = 0
    · simp only [h1, h2, if_false, if_true]
      unfold MAX_SCALE
      split <;> simp <;> omega
    · have h3 : ¬ d.scale > new := by omega
      simp only [h1, h2, h3, if_false]
      obtain ⟨a, b, _⟩ := upLoop_spec (new - d.scale) d.mant.natAbs hm
      refine ⟨by omega, by omega, ?_⟩
      rw [b, withSign_natAbs_mul]
      congr 3
      omega

theorem toUnsigned_natCast (bits n : Nat) (h : n < 2 ^ bits) :
    toUnsigned bits (n : Int) = .ok n := by
  unfold toUnsigned
  rw [if_pos ⟨by omega, by omega⟩, Int.toNat_natCast]

theorem compensate_same_scale (m : Int) (s : Nat) : compensate ⟨m, s⟩ s = .ok m := by
  unfold compensate
  rw [if_neg (by simp), if_pos rfl]

end Gmx.Dec

namespace Gmx.Dec

/-- dividing down a magnitude whose dropped digits are all zero is exact and leaves remainder 0. -/
theorem downLoop_div : ∀ (k v r : Nat), v ≠ 0 → 10 ^ k ∣ v →
    downLoop k v r = some (v / 10 ^ k, if k = 0 then r else 0)
  | 0, v, r, _, _ => by simp [downLoop]
  | k + 1, v, r, hv, ⟨c, hc⟩ => by
    have ht : v = 10 * (10 ^ k * c) := by rw [hc, Nat.pow_succ, Nat.mul_comm (10 ^ k) 10, Nat.mul_assoc]
    have hc0 : c ≠ 0 := by intro h; subst h; simp at hc; exact hv hc
    have hp : 0 < 10 ^ k := Nat.pow_pos (by omega)
    have hd : v / 10 = 10 ^ k * c := by omega
    have hm : v % 10 = 0 := by omega
    have hne : v / 10 ≠ 0 := by
      rw [hd]; exact Nat.mul_ne_zero (by omega) hc0
    unfold downLoop
    rw [if_neg hv, downLoop_div k (v / 10) (v % 10) hne ⟨c, hd⟩, hd, hm]
    have e1 : 10 ^ k * c / 10 ^ k = c := Nat.mul_div_cancel_left c hp
    have e2 : v / 10 ^ (k + 1) = c := by
      rw [hc]; exact Nat.mul_div_cancel_left c (Nat.pow_pos (by omega))
    rw [e1, e2]
    cases k <;> simp

end Gmx.Dec
