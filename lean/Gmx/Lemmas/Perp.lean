import Gmx.Model.Perp
import Gmx.Lemmas.Position
/-! Exposure lemmas for the position model (`Gmx.Model.Perp`): what a successful
`increase` / `decrease` went through. Proved by unfolding the `Except` do-blocks. -/
namespace Gmx.Lem
open Gmx Gmx.Perp

/-- unfold a `do` block in `Except` at `h`, split every bind and drop the error branches -/
macro "expose_do" h:ident : tactic =>
  `(tactic| (simp only [bind, Except.bind, pure, Except.pure, throw, throwThe, MonadExceptOf.throw] at $h:ident
             repeat' (split at $h:ident)
             all_goals first | (cases $h:ident; done) | skip))

theorem orF_ok {α : Type} {o : Option α} {a : α} (h : orF o = .ok a) : o = some a := by
  cases o with
  | none => cases h
  | some b => cases h; rfl

/-- a successful `increaseCore` ended with `validate(prices, true, true)` on the returned state. -/
theorem increaseCore_validated {W U : Nat} {m m' : Market} {c : PerpCfg} {pr : Prices} {p p' : Pos} {ci sd : Nat}
    {r : IncreaseReport} (h : increaseCore W U m c pr p ci sd = .ok (m', p', r)) :
    validatePos W U m' c pr p' true true = .ok () := by
  unfold increaseCore at h
  expose_do h
  all_goals (cases h; assumption)

theorem increase_validated {W U : Nat} {m m' : Market} {c : PerpCfg} {pr : Prices} {p p' : Pos} {ci sd : Nat}
    {r : IncreaseReport} (h : increase W U m c pr p ci sd = .ok (m', p', r)) :
    validatePos W U m' c pr p' true true = .ok () ∧ pr.isValid W = true := by
  unfold increase at h
  split at h
  · cases h
  · rename_i hv
    exact ⟨increaseCore_validated h, by simpa using hv⟩

/-- what `validate` establishes. -/
theorem validatePos_ok {W U : Nat} {m : Market} {c : PerpCfg} {pr : Prices} {p : Pos} {a b : Bool}
    (h : validatePos W U m c pr p a b = .ok ()) :
    p.sizeUsd ≠ 0 ∧ p.sizeTokens ≠ 0 ∧ (a = true → c.minPositionSize ≤ p.sizeUsd) ∧
    checkLiquidatable W U m c pr p b false = .ok none := by
  unfold validatePos at h
  split at h
  · cases h
  · rename_i h0
    split at h
    · cases h
    · rename_i h1
      split at h
      · cases h
      · cases h
      · rename_i hc
        refine ⟨by omega, by omega, fun ha => ?_, hc⟩
        subst ha
        simp only [true_and] at h1
        omega

/-- a successful `settleDecrease` that leaves the position open validated it with `(false, false)`. -/
theorem settleDecrease_validated {W U : Nat} {m m' : Market} {c : PerpCfg} {pr : Prices} {p p' : Pos}
    {sd sdt rem out out' : Nat} (h : settleDecrease W U m c pr p sd sdt rem out = .ok (m', p', false, out')) :
    validatePos W U m' c pr p' false false = .ok () := by
  unfold settleDecrease at h
  expose_do h
  · simp only [Except.ok.injEq, Prod.mk.injEq] at h
    obtain ⟨rfl, rfl, _, rfl⟩ := h
    assumption
  · rename_i hn
    simp only [Except.ok.injEq, Prod.mk.injEq] at h
    obtain ⟨_, _, hd, _⟩ := h
    rw [hd] at hn
    simp at hn

/-- a successful `decrease` went through `settleDecrease` with the reported size delta and the
token share computed by `pnl_value` for that delta. -/
theorem decrease_settle {W U : Nat} {m m' : Market} {c : PerpCfg} {pr : Prices} {p p' : Pos} {sd0 wd : Nat}
    {fl : DecreaseFlags} {r : DecreaseReport} (h : decrease W U m c pr p sd0 wd fl = .ok (m', p', r)) :
    ∃ m1 rem out0 out1,
      settleDecrease W U m1 c pr p r.sizeDelta r.sizeDeltaTokens rem out0 = .ok (m', p', r.shouldRemove, out1) ∧
      posPnl W U m pr p r.sizeDelta = .ok (r.pnl, r.uncappedPnl, r.sizeDeltaTokens) := by
  unfold decrease at h
  expose_do h
  all_goals (cases h; exact ⟨_, _, _, _, ‹settleDecrease _ _ _ _ _ _ _ _ _ _ = _›, ‹posPnl _ _ _ _ _ _ = _›⟩)

/-- a successful liquidation order found the position liquidatable under the liquidation
thresholds (`check_liquidatable(prices, true, true)`) in the state before the order. -/
theorem decrease_liquidation_checked {W U : Nat} {m m' : Market} {c : PerpCfg} {pr : Prices} {p p' : Pos} {sd0 wd : Nat}
    {fl : DecreaseFlags} {r : DecreaseReport} (h : decrease W U m c pr p sd0 wd fl = .ok (m', p', r))
    (hl : fl.liquidation = true) :
    ∃ reason, checkLiquidatable W U m c pr p true true = .ok (some reason) := by
  unfold decrease at h
  expose_do h
  all_goals first
    | exact ⟨_, ‹checkLiquidatable _ _ _ _ _ _ _ _ = Except.ok (some _)›⟩
    | (exfalso; simp_all)

/-- the executed size delta of a successful `decrease` comes out of `adjustDecrease` applied to
the requested delta capped by the position size. -/
theorem decrease_adjusted {W U : Nat} {m m' : Market} {c : PerpCfg} {pr : Prices} {p p' : Pos} {sd0 wd : Nat}
    {fl : DecreaseFlags} {r : DecreaseReport} (h : decrease W U m c pr p sd0 wd fl = .ok (m', p', r)) :
    ∃ sd1 wd0 wd1, adjustDecrease W U m c pr p sd1 wd0 = .ok (r.sizeDelta, wd1) ∧
      (sd0 ≤ p.sizeUsd → sd1 = sd0) ∧ (p.sizeUsd < sd0 → sd1 = p.sizeUsd ∧ fl.capSizeDelta = true) := by
  unfold decrease at h
  expose_do h
  all_goals
    (cases h
     refine ⟨_, _, _, ‹adjustDecrease _ _ _ _ _ _ _ _ = _›, ?_, ?_⟩
     · intro hle
       have hx := ‹(if sd0 > p.sizeUsd then _ else _) = Except.ok _›
       have : ¬ sd0 > p.sizeUsd := by omega
       simp only [this, if_false] at hx
       cases hx; rfl
     · intro hlt
       have hx := ‹(if sd0 > p.sizeUsd then _ else _) = Except.ok _›
       have : sd0 > p.sizeUsd := by omega
       simp only [this, if_true] at hx
       split at hx
       · cases hx; exact ⟨rfl, by assumption⟩
       · cases hx)

/-- `adjustDecrease` never changes a full-size delta. -/
theorem adjustDecrease_full {W U : Nat} {m : Market} {c : PerpCfg} {pr : Prices} {p : Pos} {wd a b : Nat}
    (h : adjustDecrease W U m c pr p p.sizeUsd wd = .ok (a, b)) : a = p.sizeUsd := by
  unfold adjustDecrease at h
  simp only [Nat.lt_irrefl, if_false] at h
  cases h; rfl

theorem checkedSub_some {a b r : Nat} (h : checkedSub a b = some r) : b ≤ a ∧ r = a - b := by
  unfold checkedSub at h
  split at h
  · cases h; exact ⟨by assumption, rfl⟩
  · cases h

theorem checkedAdd_some {W a b r : Nat} (h : checkedAdd W a b = some r) : r = a + b := by
  unfold checkedAdd toU at h
  split at h
  · cases h; rfl
  · cases h

/-- position and removal flag after a successful `settleDecrease`. -/
theorem settleDecrease_pos {W U : Nat} {m m' : Market} {c : PerpCfg} {pr : Prices} {p p' : Pos}
    {sd sdt rem out out' : Nat} {rm : Bool} (h : settleDecrease W U m c pr p sd sdt rem out = .ok (m', p', rm, out')) :
    sd ≤ p.sizeUsd ∧ sdt ≤ p.sizeTokens ∧ p'.isLong = p.isLong ∧ p'.collLong = p.collLong ∧
    (rm = true ↔ (p.sizeUsd - sd = 0 ∨ p.sizeTokens - sdt = 0)) ∧
    (rm = true → p'.sizeUsd = 0 ∧ p'.sizeTokens = 0 ∧ p'.collateral = 0 ∧ out' = out + rem) ∧
    (rm = false → p'.sizeUsd = p.sizeUsd - sd ∧ p'.sizeTokens = p.sizeTokens - sdt ∧ p'.collateral = rem ∧ out' = out) := by
  unfold settleDecrease at h
  expose_do h
  all_goals
    (simp only [Except.ok.injEq, Prod.mk.injEq] at h
     obtain ⟨_, hp, hrm, hout⟩ := h
     obtain ⟨ha, e1⟩ := checkedSub_some (orF_ok ‹orF (checkedSub p.sizeUsd sd) = Except.ok _›)
     obtain ⟨hb, e2⟩ := checkedSub_some (orF_ok ‹orF (checkedSub p.sizeTokens sdt) = Except.ok _›)
     subst e1; subst e2
     have h3 := ‹(if decide (p.sizeUsd - sd = 0 ∨ p.sizeTokens - sdt = 0) = true then _ else _) = Except.ok _›
     by_cases hc : (p.sizeUsd - sd = 0 ∨ p.sizeTokens - sdt = 0)
     · have hd : decide (p.sizeUsd - sd = 0 ∨ p.sizeTokens - sdt = 0) = true := by simpa using hc
       simp only [hd, if_true] at h3
       split at h3
       · cases h3
       · rename_i o ho
         cases h3
         have e3 := checkedAdd_some (orF_ok ho)
         subst e3
         subst hp; subst hout
         rw [hd] at hrm
         subst hrm
         refine ⟨ha, hb, rfl, rfl, ?_, ?_, ?_⟩
         · simp [hc]
         · intro _; exact ⟨rfl, rfl, rfl, rfl⟩
         · intro hh; cases hh
     · have hd : decide (p.sizeUsd - sd = 0 ∨ p.sizeTokens - sdt = 0) = false := by simpa using hc
       simp only [hd, Bool.false_eq_true, if_false] at h3
       cases h3
       subst hp; subst hout
       rw [hd] at hrm
       subst hrm
       refine ⟨ha, hb, rfl, rfl, ?_, ?_, ?_⟩
       · simp [hc]
       · intro hh; cases hh
       · intro _; exact ⟨rfl, rfl, rfl, rfl⟩)

/-- configuration of the witness: order fee 1 %, min collateral value 1 USD, min collateral
factor 1 % (also for liquidation), no price impact, no funding / borrowing. -/
def wCfg : MarketConfig :=
  { swapImpact := ⟨2 * 10 ^ 9, 0, 0⟩, swapFee := ⟨0, 0, 0, 0⟩, positionImpact := ⟨2 * 10 ^ 9, 0, 0⟩,
    orderFee := ⟨10 ^ 7, 10 ^ 7, 0, 0⟩, distributeFactor := 0, minPositionImpactPool := 0, borrowingReceiverFactor := 0,
    reserveFactor := 10 ^ 9, oiReserveFactor := 10 ^ 9, maxPnlDeposit := 10 ^ 9, maxPnlWithdrawal := 10 ^ 9,
    maxPnlTrader := 10 ^ 9, maxPnlAdl := 10 ^ 9, minPnlAfterAdl := 0, maxPoolAmount := 10 ^ 18,
    maxPoolValueForDeposit := 10 ^ 18, maxOpenInterest := 10 ^ 18, ignoreOiForUsage := true, divisor := 1,
    fundingAdjustment := 10000 }
def wPerp : PerpCfg := ⟨10 ^ 9, 10 ^ 9, 10 ^ 7, 10 ^ 7, 5 * 10 ^ 6, 5 * 10 ^ 6, 25 * 10 ^ 5, 0, 0, 0⟩
def wPrices : Prices := ⟨⟨100, 100⟩, ⟨100, 100⟩, ⟨1, 1⟩⟩
/-- the market and the long position (short-token collateral) after opening 20 USD with 3 USD:
size 20·10⁹, collateral 2.8·10⁹ after the 1 % fee. -/
def wMarket : Market :=
  { cfg := wCfg, primary := ⟨10 ^ 12, 10 ^ 14 + 2 * 10 ^ 8⟩, oiL := ⟨0, 20 * 10 ^ 9⟩, oitL := ⟨0, 2 * 10 ^ 8⟩, collL := ⟨0, 28 * 10 ^ 8⟩ }
def wPos : Pos := { isLong := true, collLong := false, collateral := 28 * 10 ^ 8, sizeUsd := 20 * 10 ^ 9, sizeTokens := 2 * 10 ^ 8 }


/-- outcome of the witness order: decrease by 10 USD withdrawing 1.799 USD —
`(removed, collateral, size, check_liquidatable(false,false), check_liquidatable(true,true))`
(`some x` = the check returned `Ok(x)`). -/
def wOutcome : Option (Bool × Nat × Nat × Option (Option LiqReason) × Option (Option LiqReason)) :=
  match decrease 64 (10 ^ 9) wMarket wPerp wPrices wPos (10 * 10 ^ 9) 1799000000 {} with
  | .ok (m', p', r) =>
    some (r.shouldRemove, p'.collateral, p'.sizeUsd, (checkLiquidatable 64 (10 ^ 9) m' wPerp wPrices p' false false).toOption,
          (checkLiquidatable 64 (10 ^ 9) m' wPerp wPrices p' true true).toOption)
  | .error _ => none

end Gmx.Lem
