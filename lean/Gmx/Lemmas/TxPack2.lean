import Gmx.Lemmas.TxPack
/-! C41, byte level: the length of the model's serialized transaction is `wireLen`. -/
namespace Gmx.TxPack

theorem compactBytes_length (n : Nat) : (compactBytes n).length = compactLen n := by
  unfold compactBytes compactLen
  split
  · rfl
  · split <;> rfl

theorem keyBytes_length (k : Nat) : (keyBytes k).length = 32 := by simp [keyBytes]

theorem dataBytes_length (ix : Ix) : (dataBytes ix).length = ix.dataLen := by simp [dataBytes]

theorem flatten_map_length_const {α} (f : α → List Nat) (c : Nat) :
    ∀ (l : List α), (∀ x ∈ l, (f x).length = c) → ((l.map f).flatten).length = l.length * c
  | [], _ => by simp
  | a :: l, h => by
    simp only [List.map_cons, List.flatten_cons, List.length_append, List.length_cons]
    rw [flatten_map_length_const f c l (fun x hx => h x (List.mem_cons_of_mem _ hx)),
      h a (List.mem_cons_self ..), Nat.add_mul]
    omega

theorem flatten_map_length_sum {α} (f : α → List Nat) :
    ∀ (l : List α), ((l.map f).flatten).length = (l.map (fun x => (f x).length)).sum
  | [] => by simp
  | a :: l => by
    simp only [List.map_cons, List.flatten_cons, List.length_append, List.sum_cons,
      flatten_map_length_sum f l]

/-! ### sorting does not change any count -/

theorem countP_insertOrd (p : Nat → Bool) (k : Nat) : ∀ (l : List Nat),
    (insertOrd k l).countP p = (k :: l).countP p
  | [] => rfl
  | x :: xs => by
    unfold insertOrd
    split
    · rfl
    · simp only [List.countP_cons, countP_insertOrd p k xs]
      omega

theorem countP_sortKeys (p : Nat → Bool) : ∀ (l : List Nat), (sortKeys l).countP p = l.countP p
  | [] => rfl
  | x :: xs => by
    show (insertOrd x (sortKeys xs)).countP p = _
    rw [countP_insertOrd, List.countP_cons, List.countP_cons, countP_sortKeys p xs]

theorem length_filter (p : Nat → Bool) : ∀ (l : List Nat), (l.filter p).length = l.countP p
  | [] => rfl
  | x :: xs => by
    simp only [List.filter_cons, List.countP_cons]
    cases hp : p x <;> simp [hp, length_filter p xs]

theorem length_filter_filter (p q : Nat → Bool) (l : List Nat) :
    ((l.filter p).filter q).length = l.countP (fun k => p k && q k) := by
  rw [List.filter_filter, length_filter]
  apply countP_ext
  intro k
  exact Bool.and_comm _ _

/-! ### the payer occurs exactly once in the key universe -/

theorem mem_insertKey (x k : Nat) (s : List Nat) (h : x ∈ s) : x ∈ insertKey k s := by
  unfold insertKey; split
  · exact h
  · exact List.mem_append_left _ h

theorem count_insertKey (x k : Nat) (s : List Nat) (h : x ∈ s) :
    (insertKey k s).countP (fun y => y == x) = s.countP (fun y => y == x) := by
  unfold insertKey
  split
  · rfl
  · rename_i hc
    rw [List.countP_append]
    have : k ≠ x := by
      intro e; subst e
      exact hc (by simpa using h)
    simp [this]

theorem foldl_insertKey_inv (x : Nat) : ∀ (ms : List Meta) (s : List Nat), x ∈ s →
    x ∈ ms.foldl (fun a m => insertKey m.key a) s ∧
    (ms.foldl (fun a m => insertKey m.key a) s).countP (fun y => y == x) = s.countP (fun y => y == x)
  | [], _, h => ⟨h, rfl⟩
  | m :: ms, s, h => by
    simp only [List.foldl_cons]
    obtain ⟨a, b⟩ := foldl_insertKey_inv x ms (insertKey m.key s) (mem_insertKey x _ s h)
    exact ⟨a, by rw [b, count_insertKey x _ s h]⟩

theorem keysOf_inv (x : Nat) : ∀ (ixs : List Ix) (s : List Nat), x ∈ s →
    (ixs.foldl (fun acc ix => ix.metas.foldl (fun a m => insertKey m.key a) (insertKey ix.prog acc)) s).countP
      (fun y => y == x) = s.countP (fun y => y == x)
  | [], _, _ => rfl
  | ix :: ixs, s, h => by
    simp only [List.foldl_cons]
    obtain ⟨a, b⟩ := foldl_insertKey_inv x ix.metas (insertKey ix.prog s) (mem_insertKey x _ s h)
    rw [keysOf_inv x ixs _ a, b, count_insertKey x _ s h]

theorem count_payer (payer : Nat) (ixs : List Ix) :
    (keysOf payer ixs).countP (fun y => y == payer) = 1 := by
  unfold keysOf
  rw [keysOf_inv payer ixs [payer] (List.mem_singleton.2 rfl)]
  simp

/-! ### class sizes -/

theorem isSigner_payer (payer : Nat) (ixs : List Ix) : isSigner payer ixs payer = true := by
  simp [isSigner]

theorem payer_cases (payer : Nat) (f : Nat → Bool) (hf : f payer = true) (k : Nat) :
    f k = ((k == payer) || ((k != payer) && f k)) := by
  cases hb : (k == payer)
  · simp [bne, hb]
  · have := eq_of_beq hb
    subst this
    simp [hf]

theorem payer_disj (payer : Nat) (f : Nat → Bool) (k : Nat) :
    ¬ ((k == payer) = true ∧ ((k != payer) && f k) = true) := by
  cases hb : (k == payer) <;> simp [bne, hb]

/-- number of signers = 1 (payer) + the other writable signers + the readonly signers. -/
theorem nSigners_split (payer : Nat) (ixs : List Ix) :
    nSigners payer ixs = 1 +
      (keysOf payer ixs).countP (fun k => (k != payer) && (isSigner payer ixs k && isWritable payer ixs k)) +
      (keysOf payer ixs).countP (fun k => (k != payer) && (isSigner payer ixs k && !isWritable payer ixs k)) := by
  unfold nSigners
  have h1 := countP_split (keysOf payer ixs) (isSigner payer ixs) (fun y => y == payer)
    (fun k => (k != payer) && isSigner payer ixs k)
    (payer_cases payer _ (isSigner_payer payer ixs)) (payer_disj payer _)
  have h2 := countP_split (keysOf payer ixs) (fun k => (k != payer) && isSigner payer ixs k)
    (fun k => (k != payer) && (isSigner payer ixs k && isWritable payer ixs k))
    (fun k => (k != payer) && (isSigner payer ixs k && !isWritable payer ixs k))
    (fun k => by cases (k != payer) <;> cases isSigner payer ixs k <;> cases isWritable payer ixs k <;> rfl)
    (fun k => by cases isWritable payer ixs k <;> simp)
  rw [h1, h2, count_payer]
  omega

/-- number of static keys, split into the payer and the four classes. -/
theorem nStatic_split (payer : Nat) (ixs : List Ix) (ts : List (List Nat)) :
    nStatic payer ixs ts = 1 +
      (keysOf payer ixs).countP (fun k => (k != payer) && (isSigner payer ixs k && isWritable payer ixs k)) +
      (keysOf payer ixs).countP (fun k => (k != payer) && (isSigner payer ixs k && !isWritable payer ixs k)) +
      (keysOf payer ixs).countP (fun k => (k != payer) && (!isSigner payer ixs k && isWritable payer ixs k &&
        !(can0 payer ixs k && !canFinal (can0 payer ixs) ts k))) +
      (keysOf payer ixs).countP (fun k => (k != payer) && (!isSigner payer ixs k && !isWritable payer ixs k &&
        !(can0 payer ixs k && !canFinal (can0 payer ixs) ts k))) := by
  unfold nStatic
  let st : Nat → Bool := fun k => !(can0 payer ixs k && !canFinal (can0 payer ixs) ts k)
  show (keysOf payer ixs).countP st = 1 +
      (keysOf payer ixs).countP (fun k => (k != payer) && (isSigner payer ixs k && isWritable payer ixs k)) +
      (keysOf payer ixs).countP (fun k => (k != payer) && (isSigner payer ixs k && !isWritable payer ixs k)) +
      (keysOf payer ixs).countP (fun k => (k != payer) && (!isSigner payer ixs k && isWritable payer ixs k && st k)) +
      (keysOf payer ixs).countP (fun k => (k != payer) && (!isSigner payer ixs k && !isWritable payer ixs k && st k))
  have hsg : ∀ k, isSigner payer ixs k = true → st k = true := by
    intro k hk; simp [st, can0, hk]
  clear_value st
  have h1 := countP_split (keysOf payer ixs) st (fun y => y == payer) (fun k => (k != payer) && st k)
    (payer_cases payer st (hsg payer (isSigner_payer payer ixs))) (payer_disj payer st)
  have h2 := countP_split (keysOf payer ixs) (fun k => (k != payer) && st k)
    (fun k => (k != payer) && isSigner payer ixs k) (fun k => (k != payer) && (!isSigner payer ixs k && st k))
    (fun k => by
      have := hsg k
      cases (k != payer) <;> cases hs : isSigner payer ixs k <;> cases hq : st k <;> simp_all)
    (fun k => by cases isSigner payer ixs k <;> simp)
  have h3 := countP_split (keysOf payer ixs) (fun k => (k != payer) && isSigner payer ixs k)
    (fun k => (k != payer) && (isSigner payer ixs k && isWritable payer ixs k))
    (fun k => (k != payer) && (isSigner payer ixs k && !isWritable payer ixs k))
    (fun k => by cases (k != payer) <;> cases isSigner payer ixs k <;> cases isWritable payer ixs k <;> rfl)
    (fun k => by cases isWritable payer ixs k <;> simp)
  have h4 := countP_split (keysOf payer ixs) (fun k => (k != payer) && (!isSigner payer ixs k && st k))
    (fun k => (k != payer) && (!isSigner payer ixs k && isWritable payer ixs k && st k))
    (fun k => (k != payer) && (!isSigner payer ixs k && !isWritable payer ixs k && st k))
    (fun k => by
      cases (k != payer) <;> cases isSigner payer ixs k <;> cases isWritable payer ixs k <;> cases st k <;> rfl)
    (fun k => by cases isWritable payer ixs k <;> simp)
  rw [h1, h2, h3, h4, count_payer]
  omega

/-! ### lookups -/

theorem lookupEntries_stats (U K : List Nat) (hU : ∀ p : Nat → Bool, U.countP p = K.countP p)
    (w : Nat → Bool) : ∀ (ts : List (List Nat)) (can : Nat → Bool) (i : Nat),
      (lookupEntries U w can i ts).map (fun l => (l.wIdx.length, l.rIdx.length)) =
        usedTables (tableStats K w can ts)
  | [], _, _ => rfl
  | t :: ts, can, i => by
    have ih := lookupEntries_stats U K hU w ts (fun k => can k && !t.contains k) (i + 1)
    unfold usedTables at ih ⊢
    simp only [lookupEntries, tableStats, List.filter_cons, length_filter, hU]
    by_cases h : K.countP (fun k => can k && t.contains k && w k) +
        K.countP (fun k => can k && t.contains k && !w k) > 0
    · simp only [h, if_true, decide_true, List.map_cons, List.length_map, length_filter, hU]
      rw [ih]
    · simp only [h, if_false, decide_false, Bool.false_eq_true]
      rw [ih]

theorem lookupBytes_length (l : Lookup) :
    (lookupBytes l).length = 32 + compactLen l.wIdx.length + l.wIdx.length + compactLen l.rIdx.length + l.rIdx.length := by
  simp [lookupBytes, keyBytes_length, compactBytes_length]
  omega

theorem lookups_length (lks : List Lookup) :
    (compactBytes lks.length ++ (lks.map lookupBytes).flatten).length =
      lookupsLen (lks.map (fun l => (l.wIdx.length, l.rIdx.length))) := by
  unfold lookupsLen
  rw [List.length_append, compactBytes_length, flatten_map_length_sum, List.length_map, List.map_map]
  congr 2
  apply List.map_congr_left
  intro l _
  simp [lookupBytes_length]

theorem ixBytes_length (ak : List Nat) (ix : Ix) : (ixBytes ak ix).length = ixLen ix := by
  simp [ixBytes, ixLen, compactBytes_length, dataBytes_length]
  omega

theorem ixs_length (ak : List Nat) (ixs : List Ix) :
    ((ixs.map (ixBytes ak)).flatten).length = ixsLen ixs := by
  unfold ixsLen
  rw [flatten_map_length_sum]
  congr 1
  apply List.map_congr_left
  intro ix _
  exact ixBytes_length ak ix

end Gmx.TxPack

namespace Gmx.TxPack

theorem staticClasses_lengths (payer : Nat) (ixs : List Ix) (ts : List (List Nat))
    (ws rs wn rn : List Nat) (h : staticClasses payer ixs ts = (ws, rs, wn, rn)) :
    ws.length + rs.length = nSigners payer ixs ∧
    (ws ++ rs ++ wn ++ rn).length = nStatic payer ixs ts := by
  unfold staticClasses at h
  simp only [Prod.mk.injEq] at h
  obtain ⟨rfl, rfl, rfl, rfl⟩ := h
  simp only [List.length_append, List.length_cons, length_filter_filter, countP_sortKeys]
  rw [nSigners_split, nStatic_split]
  constructor <;> omega

theorem nStatic_nil (payer : Nat) (ixs : List Ix) : nStatic payer ixs [] = (keysOf payer ixs).length := by
  unfold nStatic
  simp only [canFinal]
  have a := countP_add_not (keysOf payer ixs) (fun k => !(can0 payer ixs k && !can0 payer ixs k))
  have z := countP_false (keysOf payer ixs) (fun x => !(!(can0 payer ixs x && !can0 payer ixs x)))
    (fun x => by cases can0 payer ixs x <;> rfl)
  omega

/-- **packed size = length of the serialized bytes**: the model's serializer produces exactly
`wireLen` bytes, for every payer, instruction list, format and list of lookup tables. -/
theorem serialize_length (payer : Nat) (ixs : List Ix) (versioned : Bool) (luts : List (List Nat)) :
    (serialize payer ixs versioned luts).length = wireLen payer ixs versioned luts := by
  unfold serialize wireLen
  cases versioned with
  | false =>
    simp only [Bool.false_eq_true, if_false]
    cases hc : staticClasses payer ixs [] with
    | mk ws r1 => cases r1 with
      | mk rs r2 => cases r2 with
        | mk wn rn =>
          obtain ⟨h1, h2⟩ := staticClasses_lengths payer ixs [] ws rs wn rn hc
          rw [nStatic_nil] at h2
          simp only []
          generalize ws ++ rs ++ wn ++ rn = S at h2 ⊢
          generalize ws.length + rs.length = nsig at h1 ⊢
          subst h1
          simp only [List.length_append, List.length_replicate, List.length_cons, List.length_nil,
            compactBytes_length, ixs_length, List.append_nil]
          rw [flatten_map_length_const keyBytes 32 _ (fun x _ => keyBytes_length x), h2]
          unfold baseLen
          omega
  | true =>
    simp only [if_true]
    cases hc : staticClasses payer ixs luts with
    | mk ws r1 => cases r1 with
      | mk rs r2 => cases r2 with
        | mk wn rn =>
          obtain ⟨h1, h2⟩ := staticClasses_lengths payer ixs luts ws rs wn rn hc
          have hl := lookups_length
            (lookupEntries (sortKeys (keysOf payer ixs)) (isWritable payer ixs) (can0 payer ixs) 0 luts)
          rw [lookupEntries_stats _ (keysOf payer ixs) (fun p => countP_sortKeys p _)] at hl
          simp only []
          generalize ws ++ rs ++ wn ++ rn = S at h2 ⊢
          generalize ws.length + rs.length = nsig at h1 ⊢
          subst h1
          generalize compactBytes _ ++ (List.map lookupBytes _).flatten = L at hl ⊢
          simp only [List.length_append, List.length_replicate, List.length_cons, List.length_nil,
            compactBytes_length, ixs_length]
          rw [flatten_map_length_const keyBytes 32 _ (fun x _ => keyBytes_length x), h2, hl]
          unfold baseLen lutStats
          omega

end Gmx.TxPack
