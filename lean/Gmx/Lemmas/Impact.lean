import Gmx.Model.Impact
import Gmx.Props.C01
/-! Helper lemmas for C03/C10: exact (unchecked) impact curve and its monotonicity. -/
namespace Gmx.Lem
open Gmx Gmx.C01

theorem mul_div_le_mul_div {a b c d U : Nat} (h1 : a ≤ c) (h2 : b ≤ d) : a * b / U ≤ c * d / U :=
  Nat.div_le_div_right (Nat.mul_le_mul h1 h2)

theorem powExact_mono_base (U : Nat) {b₁ b₂ : Nat} (h : b₁ ≤ b₂) :
    ∀ n, powExact U b₁ n ≤ powExact U b₂ n
  | 0 => Nat.le_refl _
  | n + 1 => mul_div_le_mul_div (powExact_mono_base U h n) h

theorem powExact_ge_unit {U b : Nat} (hU : U ≠ 0) (h : U ≤ b) : ∀ n, U ≤ powExact U b n
  | 0 => Nat.le_refl _
  | n + 1 => by
    have ih := powExact_ge_unit hU h n
    show U ≤ powExact U b n * b / U
    calc U = U * U / U := (Nat.mul_div_cancel _ (Nat.pos_of_ne_zero hU)).symm
      _ ≤ powExact U b n * b / U := mul_div_le_mul_div ih h

/-- exact value of `apply_exponent_factor` (unit-multiple exponents). -/
def gExact (U e v : Nat) : Nat :=
  if v < U then 0 else if v = U then U else if e = 0 then U else if e = U then v
  else powExact U v (e / U)

theorem applyExponentFactor_eq {W U v e r : Nat} (h : applyExponentFactor W U v e = some r) :
    r = gExact U e v := by
  unfold applyExponentFactor at h
  unfold gExact
  split at h
  · cases h; simp [*]
  · split at h
    · cases h; simp [*]
    · split at h
      · cases h; simp [*]
      · split at h
        · rename_i h3 h4
          cases h
          have : ¬ v < e := by omega
          have : ¬ v = e := by omega
          have : ¬ U = 0 := by omega
          simp [*]
        · simp only [*, if_false]
          unfold powFixed at h
          split at h
          · cases h
          · split at h
            · exact (powInt_spec h).1
            · cases h

theorem gExact_mono {U e : Nat} (hU : U ≠ 0) {v₁ v₂ : Nat} (h : v₁ ≤ v₂) :
    gExact U e v₁ ≤ gExact U e v₂ := by
  unfold gExact
  by_cases a1 : v₁ < U
  · simp [a1]
  · by_cases a2 : v₁ = U
    · subst a2
      by_cases b2 : v₂ = v₁
      · simp [b2]
      · have b1 : ¬ v₂ < v₁ := by omega
        simp only [b1, b2, if_false, Nat.lt_irrefl, if_true]
        split
        · exact Nat.le_refl _
        · split
          · omega
          · exact powExact_ge_unit hU (by omega) _
    · have b1 : ¬ v₂ < U := by omega
      have b2 : ¬ v₂ = U := by omega
      simp only [a1, a2, b1, b2, if_false]
      split
      · exact Nat.le_refl _
      · split
        · exact h
        · exact powExact_mono_base U h _

/-- exact value of `apply_factors`. -/
def fExact (U e c v : Nat) : Nat := gExact U e v * c / U

theorem applyFactors_eq {W U v c e r : Nat} (h : applyFactors W U v c e = some r) :
    r = fExact U e c v ∧ U ≠ 0 := by
  unfold applyFactors at h
  split at h
  · cases h
  · rename_i g hg
    obtain ⟨hU, rfl, _⟩ := (fixedMul_spec _ _ _ _ _).1 h
    rw [applyExponentFactor_eq hg]
    exact ⟨rfl, hU⟩

theorem fExact_mono {U e : Nat} (hU : U ≠ 0) {c₁ c₂ v₁ v₂ : Nat} (hc : c₁ ≤ c₂) (hv : v₁ ≤ v₂) :
    fExact U e c₁ v₁ ≤ fExact U e c₂ v₂ :=
  mul_div_le_mul_div (gExact_mono hU hv) hc

/-- floor subtraction bounds: `(x−y)/U ≤ x/U − y/U ≤ (x−y)/U + 1` for `y ≤ x`. -/
theorem div_sub_div_bounds {x y U : Nat} (hU : U ≠ 0) (hyx : y ≤ x) :
    (x - y) / U + y / U ≤ x / U ∧ x / U ≤ (x - y) / U + y / U + 1 := by
  have hpos := Nat.pos_of_ne_zero hU
  constructor
  · have h1 := Nat.div_mul_le_self (x - y) U
    have h2 := Nat.div_mul_le_self y U
    rw [Nat.le_div_iff_mul_le hpos, Nat.add_mul]
    omega
  · have h1 := Nat.lt_mul_div_succ (x - y) hpos
    have h2 := Nat.lt_mul_div_succ y hpos
    have : x / U < (x - y) / U + y / U + 2 := by
      rw [Nat.div_lt_iff_lt_mul hpos]
      have e : ((x - y) / U + y / U + 2) * U = U * ((x - y) / U + 1) + U * (y / U + 1) := by
        simp [Nat.mul_add, Nat.mul_comm]; omega
      rw [e]; omega
    omega

end Gmx.Lem
