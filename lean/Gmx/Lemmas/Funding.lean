import Gmx.Model.Funding
import Gmx.Props.C01
/-! Helper lemmas for C12 (funding). -/
namespace Gmx.Lem
open Gmx

theorem boundE_ok {W : Nat} {v r : Int} {mn mx : Nat} (h : boundE W v mn mx = .ok r) :
    boundMagnitude W v mn mx = .ok r := by
  unfold boundE at h
  split at h
  · cases h; assumption
  · cases h
  · cases h

theorem optE_ok {α : Type} {e : FErr} {o : Option α} {a : α} (h : optE e o = .ok a) : o = some a := by
  cases o with
  | none => cases h
  | some b => cases h; rfl

/-- the adaptive branch always ends in `finishAdaptive`. -/
theorem nextFundingFactor_adaptive {W U : Nat} {p : FundingParams} {cur : Int} {dur l s : Nat}
    {r : Nat × Bool × Int} (hinc : p.inc ≠ 0) (h : nextFundingFactor W U p cur dur l s = .ok r) :
    ∃ v, finishAdaptive W p v = .ok r := by
  unfold nextFundingFactor at h
  simp only [hinc, and_false, if_false] at h
  split at h
  · cases h
  · split at h
    · cases h
    · split at h
      · cases h
      · split at h
        · cases h
        · split at h
          · cases h
          · rename_i v _
            exact ⟨v, h⟩

/-- the fallback branch: value of the three results. -/
theorem nextFundingFactor_fallback {W U : Nat} {p : FundingParams} {cur : Int} {dur l s : Nat}
    {f : Nat} {lps : Bool} {nx : Int} (hinc : p.inc = 0)
    (h : nextFundingFactor W U p cur dur l s = .ok (f, lps, nx)) :
    nx = 0 ∧ f ≤ p.maxF ∨ (nx = 0 ∧ f = 0 ∧ l = s) := by
  unfold nextFundingFactor at h
  simp only [hinc, and_true, if_true] at h
  split at h
  · cases h
    right
    rename_i hd
    unfold natAbsDiff at hd
    refine ⟨rfl, rfl, ?_⟩
    split at hd <;> omega
  · split at h
    · cases h
    · split at h
      · cases h
      · split at h
        · cases h
        · split at h
          · cases h
          · split at h
            · cases h
            · cases h
              left
              refine ⟨rfl, ?_⟩
              split <;> omega

theorem applyUDelta_ok {W cur d n : Nat} (h : applyUDelta W cur d = .ok n) : n = cur + d := by
  unfold applyUDelta at h
  split at h
  · cases h
  · split at h
    · have := optE_ok h
      unfold checkedAdd toU at this
      split at this
      · cases this; rfl
      · cases this
    · cases h; omega

theorem applyPair_ok {W f c df dc a b : Nat} (h : applyPair W f c df dc = .ok (a, b)) :
    a = f + df ∧ b = c + dc := by
  unfold applyPair at h
  split at h
  · cases h
  · rename_i x hx
    split at h
    · cases h
    · rename_i y hy
      cases h
      exact ⟨applyUDelta_ok hx, applyUDelta_ok hy⟩

end Gmx.Lem
