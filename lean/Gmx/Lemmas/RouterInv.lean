import Gmx.Lemmas.Router
/-! Invariant-preservation principle for the router, and conservation of recorded balances. -/
namespace Gmx.Lem
open Gmx

/-- a state predicate preserved by the router's primitives -/
structure RouterInv (P : RState → Prop) : Prop where
  curToMarket : ∀ {s s' mt tok amt v}, curToMarket s mt tok amt v = some s' → P s → P s'
  marketToCur : ∀ {s s' mt tok amt}, marketToCur s mt tok amt = some s' → P s → P s'
  marketToMarket : ∀ {s s' a b tok amt}, marketToMarket s a b tok amt = some s' → P s → P s'
  swapIn : ∀ {m s s' tok amt tok' amt'}, swapIn m s tok amt = some (s', tok', amt') → P s → P s'

theorem swapAlong_preserves {P : RState → Prop} (I : RouterInv P) :
    ∀ {path : List Nat} {s s' : RState} {tok amt tok' amt' : Nat},
      swapAlong path s tok amt = some (s', tok', amt') → P s → P s'
  | [], s, s', tok, amt, tok', amt', h, hp => by
    simp only [swapAlong, Option.some.injEq, Prod.mk.injEq] at h
    obtain ⟨rfl, _, _⟩ := h; exact hp
  | mt :: rest, s, s', tok, amt, tok', amt', h, hp => by
    simp only [swapAlong] at h
    split at h
    · cases h
    · split at h
      · cases h
      · rename_i s1 t1 a1 hs1
        have p1 := I.swapIn hs1 hp
        split at h
        · cases h; exact p1
        · split at h
          · cases h
          · rename_i s2 hs2
            exact swapAlong_preserves I h (I.marketToMarket hs2 p1)

theorem swapOneSide_preserves {P : RState → Prop} (I : RouterInv P) {into : Bool} {s s' : RState}
    {path : List Nat} {e tokIn amtIn out : Nat}
    (h : swapOneSide into s path e tokIn amtIn = some (s', out)) (hp : P s) : P s' := by
  unfold swapOneSide at h
  split at h
  · cases h
  · simp only [] at h
    cases path with
    | nil =>
      simp only at h
      split at h
      · cases h; exact hp
      · cases h
    | cons first tl =>
      simp only at h
      split at h
      · cases h
      · rename_i s1 hs1
        have p1 : P s1 := by
          split at hs1
          · exact I.curToMarket hs1 hp
          · cases hs1; exact hp
        split at h
        · cases h
        · rename_i s2 rest tok amt hs2
          have p2 : P s2 := by
            split at hs2
            · split at hs2
              · cases hs2
              · rename_i s2a ta aa hsw
                have pa := I.swapIn hsw p1
                simp only [List.drop_succ_cons, List.drop_zero] at hs2
                split at hs2
                · cases hs2; exact pa
                · split at hs2
                  · cases hs2
                  · rename_i s2b hmv
                    cases hs2; exact I.curToMarket hmv pa
            · cases hs2; exact p1
          split at h
          · split at h
            · cases h; exact p2
            · cases h
          · split at h
            · cases h
            · rename_i s3 tok3 amt3 hal
              have p3 := swapAlong_preserves I hal p2
              split at h
              · cases h
              · rename_i s5 tok5 amt5 hs5
                have p5 : P s5 := by
                  split at hs5
                  · split at hs5
                    · cases hs5
                    · rename_i s4 hs4
                      have p4 : P s4 := by
                        split at hs4
                        · cases hs4; exact p3
                        · exact I.marketToCur hs4 p3
                      exact I.swapIn hs5 p4
                  · cases hs5; exact p3
                split at h
                · cases h
                · rename_i s6 hs6
                  have p6 : P s6 := by
                    split at hs6
                    · exact I.marketToCur hs6 p5
                    · cases hs6; exact p5
                  split at h
                  · cases h; exact p6
                  · cases h

theorem routerSwap_preserves {P : RState → Prop} (I : RouterInv P) {into : Bool} {s s' : RState}
    {p₁ p₂ : List Nat} {e : Nat × Nat} {ti : Option Nat × Option Nat} {am : Nat × Nat} {o₁ o₂ : Nat}
    (h : routerSwap into s p₁ p₂ e ti am = some (s', o₁, o₂)) (hp : P s) : P s' := by
  unfold routerSwap at h
  split at h
  · cases h
  · split at h
    · cases h
    · simp only [] at h
      split at h
      · cases h
      · rename_i s1 o1 hr1
        split at h
        · cases h
        · split at h
          · cases h
          · rename_i s2 o2 hr2
            have side : ∀ {sa sb : RState} {p : List Nat} {ex : Nat} {t : Option Nat} {a o : Nat},
                (match t with
                  | some t => if a ≠ 0 then swapOneSide into sa p ex t a else some (sa, 0)
                  | none => some (sa, 0)) = some (sb, o) → P sa → P sb := by
              intro sa sb p ex t a o hh hpa
              cases t with
              | none => cases hh; exact hpa
              | some t' =>
                by_cases ha : a ≠ 0
                · simp only [ha, ne_eq, not_false_eq_true, if_true] at hh
                  exact swapOneSide_preserves I hh hpa
                · have ha' : a = 0 := by omega
                  simp only [ha', ne_eq, not_true_eq_false, if_false] at hh
                  cases hh; exact hpa
            have q1 := side hr1 hp
            have q2 := side hr2 q1
            split at h
            · cases h; exact q2
            · cases h

/-! ### conservation of recorded balances -/

/-- what market `m` has recorded for token `t` (a pure market keeps everything in the long slot) -/
def rrecorded (m : RMarket) (t : Nat) : Nat :=
  (if m.long = t then m.balL else 0) + (if m.short = t ∧ m.long ≠ m.short then m.balS else 0)

def rtotal (s : RState) (t : Nat) : Nat := rrecorded s.cur t + (s.markets.map (rrecorded · t)).sum

theorem recordIn_recorded {m m' : RMarket} {tok amt : Nat} (h : m.recordIn tok amt = some m') (t : Nat) :
    rrecorded m' t = rrecorded m t + (if tok = t then amt else 0) := by
  unfold RMarket.recordIn RMarket.side RMarket.isPure at h
  unfold rrecorded
  by_cases h1 : tok = m.long
  · subst h1
    simp only [if_true, Bool.or_true] at h
    split at h
    · cases h
      by_cases hl : m.long = t <;> by_cases hs : m.short = t <;> by_cases hp : m.long = m.short <;>
        simp_all <;> omega
    · cases h
  · by_cases h2 : tok = m.short
    · subst h2
      have hne : m.long ≠ m.short := fun e => h1 e.symm
      simp only [h1, if_false, if_true, Bool.or_false, beq_iff_eq, hne] at h
      split at h
      · cases h
        by_cases hs : m.short = t <;> by_cases hl : m.long = t <;> simp_all <;> omega
      · cases h
    · simp [h1, h2] at h

theorem recordOut_recorded {m m' : RMarket} {tok amt : Nat} (h : m.recordOut tok amt = some m') (t : Nat) :
    rrecorded m' t + (if tok = t then amt else 0) = rrecorded m t := by
  unfold RMarket.recordOut RMarket.side RMarket.isPure at h
  unfold rrecorded
  by_cases h1 : tok = m.long
  · subst h1
    simp only [if_true, Bool.or_true] at h
    split at h
    · cases h
      by_cases hl : m.long = t <;> by_cases hs : m.short = t <;> by_cases hp : m.long = m.short <;>
        simp_all <;> omega
    · cases h
  · by_cases h2 : tok = m.short
    · subst h2
      have hne : m.long ≠ m.short := fun e => h1 e.symm
      simp only [h1, if_false, if_true, Bool.or_false, beq_iff_eq, hne] at h
      split at h
      · cases h
        by_cases hs : m.short = t <;> by_cases hl : m.long = t <;> simp_all <;> omega
      · cases h
    · simp [h1, h2] at h

end Gmx.Lem

namespace Gmx.Lem
open Gmx

theorem map_token_setMarket (ms : List RMarket) (m' : RMarket) :
    (setMarket ms m').map (·.token) = ms.map (·.token) := by
  unfold setMarket
  induction ms with
  | nil => rfl
  | cons x xs ih =>
    simp only [List.map_cons]
    rw [ih]
    by_cases h : x.token == m'.token
    · simp only [h, if_true]; congr 1; exact (beq_iff_eq.1 h).symm
    · simp [h]

theorem setMarket_of_not_mem (ms : List RMarket) (m' : RMarket) (h : m'.token ∉ ms.map (·.token)) :
    setMarket ms m' = ms := by
  unfold setMarket
  induction ms with
  | nil => rfl
  | cons x xs ih =>
    simp only [List.map_cons, List.mem_cons, not_or] at h
    simp only [List.map_cons]
    have : (x.token == m'.token) = false := by
      simp only [beq_eq_false_iff_ne, ne_eq]; exact fun e => h.1 e.symm
    rw [this, ih h.2]; simp

theorem sum_setMarket (f : RMarket → Nat) : ∀ (ms : List RMarket) {k : Nat} {m m' : RMarket},
    (ms.map (·.token)).Nodup → findMarket ms k = some m → m'.token = m.token →
    ((setMarket ms m').map f).sum + f m = (ms.map f).sum + f m'
  | [], k, m, m', _, hf, _ => by simp [findMarket] at hf
  | x :: xs, k, m, m', hnd, hf, ht => by
    have hmk := findMarket_token hf
    simp only [List.map_cons, List.nodup_cons] at hnd
    unfold findMarket at hf
    simp only [List.find?_cons] at hf
    by_cases hx : x.token == k
    · simp only [hx] at hf
      cases hf
      have hxe : m'.token = x.token := ht
      have hnot : m'.token ∉ xs.map (·.token) := by rw [hxe]; exact hnd.1
      have : setMarket (x :: xs) m' = m' :: xs := by
        have h1 : (x.token == m'.token) = true := by simp [hxe]
        unfold setMarket
        simp only [List.map_cons, h1, if_true]
        have := setMarket_of_not_mem xs m' hnot
        unfold setMarket at this
        rw [this]
      rw [this]
      simp only [List.map_cons, List.sum_cons]; omega
    · simp only [hx] at hf
      have hf' : findMarket xs k = some m := hf
      have ih := sum_setMarket f xs hnd.2 hf' ht
      have hne : (x.token == m'.token) = false := by
        simp only [beq_eq_false_iff_ne, ne_eq]
        intro e; apply hx; rw [e, ht, hmk]; simp
      have : setMarket (x :: xs) m' = x :: setMarket xs m' := by
        unfold setMarket; rw [List.map_cons, hne]; rfl
      rw [this]
      simp only [List.map_cons, List.sum_cons]; omega

/-- the conservation invariant: for token `t` the recorded total is `c`, and the provided markets
keep their (distinct) market tokens -/
def Conserved (t c : Nat) (toks : List Nat) (s : RState) : Prop :=
  rtotal s t = c ∧ s.markets.map (·.token) = toks

theorem conserved_inv (t c : Nat) (toks : List Nat) (hnd : toks.Nodup) :
    RouterInv (Conserved t c toks) where
  curToMarket := by
    intro s s' mt tok amt v h ⟨hc, ht⟩
    unfold curToMarket at h
    split at h
    · cases h
    · rename_i m hm
      split at h
      · cases h
      · rename_i cur' hcur
        split at h
        · cases h
        · split at h
          · cases h
          · rename_i m' hm'
            cases h
            refine ⟨?_, by simp only [map_token_setMarket]; exact ht⟩
            have e1 := recordOut_recorded hcur t
            have e2 := recordIn_recorded hm' t
            have e3 := sum_setMarket (rrecorded · t) s.markets (by rw [ht]; exact hnd) hm (recordIn_token hm')
            simp only [rtotal] at hc ⊢
            omega
  marketToCur := by
    intro s s' mt tok amt h ⟨hc, ht⟩
    unfold marketToCur at h
    split at h
    · cases h
    · rename_i m hm
      split at h
      · cases h
      · rename_i m' hm'
        split at h
        · cases h
        · split at h
          · cases h
          · rename_i cur' hcur
            cases h
            refine ⟨?_, by simp only [map_token_setMarket]; exact ht⟩
            have e1 := recordOut_recorded hm' t
            have e2 := recordIn_recorded hcur t
            have e3 := sum_setMarket (rrecorded · t) s.markets (by rw [ht]; exact hnd) hm (recordOut_token hm')
            simp only [rtotal] at hc ⊢
            omega
  marketToMarket := by
    intro s s' a b tok amt h ⟨hc, ht⟩
    unfold marketToMarket at h
    simp only [] at h
    split at h
    · cases h
    · rename_i ma hma
      split at h
      · cases h
      · rename_i ma' hma'
        split at h
        · cases h
        · split at h
          · cases h
          · rename_i mb hmb
            split at h
            · cases h
            · rename_i mb' hmb'
              cases h
              refine ⟨?_, by simp only [map_token_setMarket]; exact ht⟩
              have e1 := recordOut_recorded hma' t
              have e2 := recordIn_recorded hmb' t
              have n1 : (s.markets.map (·.token)).Nodup := by rw [ht]; exact hnd
              have e3 := sum_setMarket (rrecorded · t) s.markets n1 hma (recordOut_token hma')
              have n2 : ((setMarket s.markets ma').map (·.token)).Nodup := by rw [map_token_setMarket]; exact n1
              have e4 := sum_setMarket (rrecorded · t) (setMarket s.markets ma') n2 hmb (recordIn_token hmb')
              simp only [rtotal] at hc ⊢
              omega
  swapIn := by
    intro m s s' tok amt tok' amt' h ⟨hc, ht⟩
    obtain ⟨_, _, _, _, hm, hcur, _, _⟩ := swapIn_spec h
    exact ⟨by simp only [rtotal, hm, hcur] at hc ⊢; exact hc, by rw [hm]; exact ht⟩

end Gmx.Lem
