import Gmx.Model.RoleNames
import Gmx.Lemmas.FixedStr
/-! helper lemmas for the role part of C35 (core only) -/
namespace Gmx.RoleNames
open Gmx.FixedStr Gmx.Roles

variable {K A : Type} [DecidableEq K] [DecidableEq A]

theorem findRole_append_new {rs : List (Role K)} {r : K} (m : Role K) (h : findRole rs r = none)
    (hm : m.name = r) : findRole (rs ++ [m]) r = some m := by
  induction rs with
  | nil => simp [findRole, hm]
  | cons x xs ih =>
    simp only [findRole] at h
    split at h
    · cases h
    · rename_i hx
      simp only [List.cons_append, findRole, hx, if_false]
      exact ih h

theorem lookup_append_new {ms : List (A × List Nat)} {a : A} (v : List Nat) (h : lookup ms a = none) :
    lookup (ms ++ [(a, v)]) a = some v := by
  induction ms with
  | nil => simp [lookup]
  | cons x xs ih =>
    obtain ⟨k, w⟩ := x
    simp only [lookup] at h
    split at h
    · cases h
    · rename_i hx
      simp only [List.cons_append, lookup, hx, if_false]
      exact ih h

theorem findRole_setEnabled {rs : List (Role K)} {r : K} {m : Role K} (b : Bool) (h : findRole rs r = some m) :
    findRole (setEnabled rs r b) r = some { m with enabled := b } := by
  induction rs with
  | nil => simp [findRole] at h
  | cons x xs ih =>
    simp only [findRole] at h
    by_cases hx : x.name = r
    · simp only [hx, if_true] at h
      cases h
      simp [setEnabled, findRole, hx]
    · simp only [hx, if_false] at h
      simp only [setEnabled, hx, if_false, findRole]
      exact ih h

end Gmx.RoleNames
