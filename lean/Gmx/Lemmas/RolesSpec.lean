import Gmx.Lemmas.RolesEffects
/-! the ABSTRACT specification of the role store (C18): a set of grants gated by enabled roles, with the
success / failure of every call decided from the abstract state alone -/
namespace Gmx.Roles
section
variable {K A : Type} [DecidableEq K] [DecidableEq A]

/-- abstract state: the created role names (in creation order), which of them are enabled, the set of grants
`(address, role)`, and the addresses currently holding at least one role (in joining order) -/
structure Abs (K A : Type) where
  created : List K
  enabled : K → Bool
  grants : A → K → Bool
  members : List A

def Abs.empty : Abs K A := ⟨[], fun _ => false, fun _ _ => false, []⟩

def setE (E : K → Bool) (r : K) (b : Bool) : K → Bool := fun r' => if r' = r then b else E r'
def setG (G : A → K → Bool) (a : A) (r : K) (b : Bool) : A → K → Bool :=
  fun a' r' => if a' = a ∧ r' = r then b else G a' r'

open Classical in
/-- one call on the abstract state; `none` = the call fails (and changes nothing). Uses ONLY the abstract state:
* enable: fails on an enabled role, or on a new role when 32 roles exist;
* disable: fails on a created but disabled role; a role never created is silently accepted;
* grant: fails unless the role is enabled and not yet held, or when a 65th member would be needed;
* revoke: fails unless the grant is held; the address stops being a member with its last grant. -/
noncomputable def absStep (x : Abs K A) : Op K A → Option (Abs K A)
  | .enable r =>
    if x.enabled r = true then none
    else if r ∈ x.created then some { x with enabled := setE x.enabled r true }
    else if x.created.length < 32 then some { x with created := x.created ++ [r], enabled := setE x.enabled r true }
    else none
  | .disable r =>
    if x.enabled r = true then some { x with enabled := setE x.enabled r false }
    else if r ∈ x.created then none else some x
  | .grant a r =>
    if x.enabled r = true ∧ x.grants a r = false ∧ (a ∈ x.members ∨ x.members.length < 64) then
      some { x with grants := setG x.grants a r true, members := if a ∈ x.members then x.members else x.members ++ [a] }
    else none
  | .revoke a r =>
    if x.grants a r = true then
      some { x with grants := setG x.grants a r false,
                    members := if ∃ r', setG x.grants a r false a r' = true then x.members else x.members.filter (fun b => b ≠ a) }
    else none

/-- a failing call leaves the abstract state as it was -/
noncomputable def absApply (x : Abs K A) (o : Op K A) : Abs K A := (absStep x o).getD x

noncomputable def absRun (x : Abs K A) : List (Op K A) → Abs K A
  | [] => x
  | o :: os => absRun (absApply x o) os

/-- the refinement relation between a role store and the abstract state -/
structure Rel (s : St K A) (x : Abs K A) : Prop where
  created : x.created = s.roles.map (·.name)
  enabled : ∀ r, x.enabled r = enabledB s r
  grants : ∀ a r, x.grants a r = grantedB s a r
  members : x.members = s.members.map (·.1)

theorem rel_empty : Rel (St.empty : St K A) (Abs.empty : Abs K A) :=
  ⟨rfl, fun r => by simp [Abs.empty, enabledB, St.empty, findRole], fun a r => by simp [Abs.empty, grantedB, St.empty, findRole], rfl⟩

theorem knownB_iff_mem (rs : List (Role K)) (r : K) : (findRole rs r).isSome = true ↔ r ∈ rs.map (·.name) := by
  induction rs with
  | nil => simp [findRole]
  | cons x xs ih =>
    simp only [findRole, List.map_cons, List.mem_cons]
    by_cases h : x.name = r
    · simp [h]
    · have : ¬ r = x.name := fun e => h e.symm
      simp [h, this, ih]

theorem memberB_iff_mem (ms : List (A × List Nat)) (a : A) : (lookup ms a).isSome = true ↔ a ∈ ms.map (·.1) := by
  induction ms with
  | nil => simp [lookup]
  | cons x xs ih =>
    obtain ⟨k, v⟩ := x
    simp only [lookup, List.map_cons, List.mem_cons]
    by_cases h : k = a
    · simp [h]
    · have : ¬ a = k := fun e => h e.symm
      simp [h, this, ih]

theorem map_name_setEnabled (rs : List (Role K)) (r : K) (b : Bool) : (setEnabled rs r b).map (·.name) = rs.map (·.name) := by
  induction rs with
  | nil => rfl
  | cons x xs ih => simp only [setEnabled]; split <;> simp [ih]

theorem map_fst_setBits (ms : List (A × List Nat)) (a : A) (b : List Nat) : (setBits ms a b).map (·.1) = ms.map (·.1) := by
  induction ms with
  | nil => rfl
  | cons x xs ih => obtain ⟨k, v⟩ := x; simp only [setBits]; split <;> simp [ih]

theorem map_fst_removeMember (ms : List (A × List Nat)) (a : A) :
    (removeMember ms a).map (·.1) = (ms.map (·.1)).filter (fun b => b ≠ a) := by
  induction ms with
  | nil => rfl
  | cons x xs ih =>
    obtain ⟨k, v⟩ := x
    simp only [removeMember, List.map_cons]
    by_cases h : k = a
    · simp [h, ih]
    · simp [h, ih]

end
end Gmx.Roles
