import Gmx.Model.PriceFeed
/-! helper lemma for C25: case analysis of `update` -/
namespace Gmx.Feed

deriving instance DecidableEq for Except

/-- a concrete price for the non-vacuity examples -/
def p1 : Price := ⟨100, 50, 49, 51⟩

/-- every outcome of `update`, spelled out -/
theorem update_cases (s : St) (u : Upd) :
    (update s u = .error .Preconditions ∧ (u.slot < s.lastSlot ∨ u.now < s.lastTs)) ∨
    (update s u = .ok (s, false) ∧ s.lastSlot ≤ u.slot ∧ s.lastTs ≤ u.now ∧ u.idempotent = true ∧ u.p.ts < s.price.ts) ∨
    (update s u = .error .InvalidArgument ∧ s.lastSlot ≤ u.slot ∧ s.lastTs ≤ u.now ∧
      ((u.idempotent = false ∧ u.p.ts < s.price.ts) ∨
       (s.price.ts ≤ u.p.ts ∧ (satAddUnsigned u.now u.maxFutureExcess < u.p.ts ∨ u.p.max < u.p.min ∨
          u.p.max < u.p.price ∨ u.p.price < u.p.min)))) ∨
    (update s u = .ok (⟨u.slot, u.now, u.p⟩, true) ∧ s.lastSlot ≤ u.slot ∧ s.lastTs ≤ u.now ∧
      s.price.ts ≤ u.p.ts ∧ u.p.ts ≤ satAddUnsigned u.now u.maxFutureExcess ∧
      u.p.min ≤ u.p.price ∧ u.p.price ≤ u.p.max) := by
  by_cases h1 : u.slot < s.lastSlot
  · left; exact ⟨by simp [update, h1], Or.inl h1⟩
  by_cases h2 : u.now < s.lastTs
  · left; exact ⟨by simp [update, h1, h2], Or.inr h2⟩
  by_cases h3 : u.p.ts < s.price.ts
  · cases hi : u.idempotent
    · right; right; left
      exact ⟨by simp [update, h1, h2, hi, h3], by omega, by omega, Or.inl ⟨rfl, h3⟩⟩
    · right; left
      exact ⟨by simp [update, h1, h2, hi, h3], by omega, by omega, rfl, h3⟩
  by_cases h4 : satAddUnsigned u.now u.maxFutureExcess < u.p.ts
  · right; right; left
    exact ⟨by simp [update, h1, h2, h3, h4], by omega, by omega, Or.inr ⟨by omega, Or.inl h4⟩⟩
  by_cases h5 : u.p.max < u.p.min
  · right; right; left
    exact ⟨by simp [update, h1, h2, h3, h4, h5], by omega, by omega, Or.inr ⟨by omega, Or.inr (Or.inl h5)⟩⟩
  by_cases h6 : u.p.max < u.p.price
  · right; right; left
    exact ⟨by simp [update, h1, h2, h3, h4, h5, h6], by omega, by omega,
      Or.inr ⟨by omega, Or.inr (Or.inr (Or.inl h6))⟩⟩
  by_cases h7 : u.p.price < u.p.min
  · right; right; left
    exact ⟨by simp [update, h1, h2, h3, h4, h5, h6, h7], by omega, by omega,
      Or.inr ⟨by omega, Or.inr (Or.inr (Or.inr h7))⟩⟩
  right; right; right
  exact ⟨by simp [update, h1, h2, h3, h4, h5, h6, h7], by omega, by omega, by omega, by omega, by omega, by omega⟩

end Gmx.Feed
