import Gmx.Model.StorePool
/-! helper lemmas and specification-side definitions for C15 -/
namespace Gmx.SPool.Lem
open Gmx Gmx.SPool

theorem addSigned_some (W a : Nat) (d : Int) (r : Nat) :
    addSigned W a d = some r ↔ (r : Int) = a + d ∧ (a : Int) + d < 2 ^ W := by
  unfold addSigned
  constructor
  · intro h
    split at h
    · rename_i hc
      cases h
      exact ⟨by omega, hc.2⟩
    · cases h
  · rintro ⟨h1, h2⟩
    have h0 : 0 ≤ (a : Int) + d := by omega
    rw [if_pos ⟨h0, h2⟩]
    congr 1; omega

theorem addSigned_none (W a : Nat) (d : Int) :
    addSigned W a d = none ↔ ((a : Int) + d < 0 ∨ (2 : Int) ^ W ≤ a + d) := by
  unfold addSigned
  by_cases hc : 0 ≤ (a : Int) + d ∧ (a : Int) + d < 2 ^ W
  · rw [if_pos hc]; simp; omega
  · rw [if_neg hc]; simp; omega

theorem applyLong_some (W : Nat) (p q : Pool) (d : Int) :
    applyLong W p d = some q ↔
      ((q.long : Int) = p.long + d ∧ (p.long : Int) + d < 2 ^ W ∧ q.flag = p.flag ∧ q.short = p.short) := by
  unfold applyLong
  constructor
  · intro h
    split at h
    · rename_i v hv
      cases h
      obtain ⟨h1, h2⟩ := (addSigned_some W p.long d v).1 hv
      exact ⟨h1, h2, rfl, rfl⟩
    · cases h
  · rintro ⟨h1, h2, h3, h4⟩
    have := (addSigned_some W p.long d q.long).2 ⟨h1, h2⟩
    rw [this]
    cases q; cases p; simp_all

theorem applyLong_none (W : Nat) (p : Pool) (d : Int) :
    applyLong W p d = none ↔ ((p.long : Int) + d < 0 ∨ (2 : Int) ^ W ≤ p.long + d) := by
  rw [← addSigned_none]
  unfold applyLong
  cases addSigned W p.long d <;> simp

theorem applyShort_pure (W : Nat) (p : Pool) (d : Int) (h : p.pure = true) :
    applyShort W p d = applyLong W p d := by
  simp [applyShort, applyLong, h]

theorem applyShort_impure (W : Nat) (p : Pool) (d : Int) (h : p.pure = false) :
    applyShort W p d = (addSigned W p.short d).map (fun v => { p with short := v }) := by
  simp only [applyShort, h, Bool.false_eq_true, if_false]
  cases addSigned W p.short d <;> rfl

theorem applyShort_impure_some (W : Nat) (p q : Pool) (d : Int) (h : p.pure = false) :
    applyShort W p d = some q ↔
      ((q.short : Int) = p.short + d ∧ (p.short : Int) + d < 2 ^ W ∧ q.flag = p.flag ∧ q.long = p.long) := by
  rw [applyShort_impure W p d h]
  constructor
  · intro hh
    cases hv : addSigned W p.short d with
    | none => rw [hv] at hh; cases hh
    | some v =>
      rw [hv] at hh; cases hh
      obtain ⟨h1, h2⟩ := (addSigned_some W p.short d v).1 hv
      exact ⟨h1, h2, rfl, rfl⟩
  · rintro ⟨h1, h2, h3, h4⟩
    have := (addSigned_some W p.short d q.short).2 ⟨h1, h2⟩
    rw [this]
    cases q; cases p; simp_all

/-- specification: a pure pool is one counter. -/
def specTotal (W : Nat) (t : Nat) : List Op → Option Nat
  | [] => some t
  | .cancel :: os => specTotal W (t % 2) os
  | .long d :: os =>
    if 0 ≤ (t : Int) + d ∧ (t : Int) + d < 2 ^ W then specTotal W ((t : Int) + d).toNat os else none
  | .short d :: os =>
    if 0 ≤ (t : Int) + d ∧ (t : Int) + d < 2 ^ W then specTotal W ((t : Int) + d).toNat os else none

theorem run_pure (W : Nat) (ops : List Op) : ∀ (p : Pool), p.pure = true →
    run W p ops = (specTotal W p.long ops).map (fun t => { p with long := t }) := by
  induction ops with
  | nil => intro p _; simp [run, specTotal]
  | cons o os ih =>
    intro p h
    cases o with
    | cancel =>
      have hc : cancel p = { p with long := p.long % 2 } := by simp [cancel, h]
      have hp : ({ p with long := p.long % 2 } : Pool).pure = true := by simpa [Pool.pure] using h
      simp only [run, step, specTotal, hc]
      rw [ih _ hp]
    | long d =>
      simp only [run, step, specTotal, applyLong, addSigned]
      by_cases hc : 0 ≤ (p.long : Int) + d ∧ (p.long : Int) + d < 2 ^ W
      · simp only [if_pos hc]
        have hp : ({ p with long := ((p.long : Int) + d).toNat } : Pool).pure = true := by
          simpa [Pool.pure] using h
        rw [ih _ hp]
      · simp only [if_neg hc]; rfl
    | short d =>
      simp only [run, step, specTotal, applyShort, h, if_true, addSigned]
      by_cases hc : 0 ≤ (p.long : Int) + d ∧ (p.long : Int) + d < 2 ^ W
      · simp only [if_pos hc]
        have hp : ({ p with long := ((p.long : Int) + d).toNat } : Pool).pure = true := by
          simpa [Pool.pure] using h
        rw [ih _ hp]
      · simp only [if_neg hc]; rfl

theorem step_flag (W : Nat) (p q : Pool) (o : Op) (h : step W p o = some q) : q.flag = p.flag := by
  cases o with
  | cancel => simp only [step] at h; cases h; unfold cancel; split <;> rfl
  | long d => exact ((applyLong_some W p q d).1 h).2.2.1
  | short d =>
    simp only [step] at h
    by_cases hp : p.pure = true
    · rw [applyShort_pure W p d hp] at h; exact ((applyLong_some W p q d).1 h).2.2.1
    · have hp' : p.pure = false := by simpa using hp
      exact ((applyShort_impure_some W p q d hp').1 h).2.2.1

theorem run_pure_flag (W : Nat) (ops : List Op) : ∀ (p q : Pool), run W p ops = some q → q.flag = p.flag := by
  induction ops with
  | nil => intro p q h; simp [run] at h; rw [h]
  | cons o os ih =>
    intro p q h
    simp only [run] at h
    split at h
    · cases h
    · rename_i m hm
      rw [ih m q h, step_flag W p m o hm]

theorem run_pure_sum (W : Nat) (ops : List Op) : ∀ (p q : Pool), p.pure = true →
    (∀ o ∈ ops, o ≠ Op.cancel) → run W p ops = some q →
    (q.long : Int) = p.long + (ops.map Op.delta).sum := by
  induction ops with
  | nil => intro p q _ _ h; simp [run] at h; simp [h]
  | cons o os ih =>
    intro p q hp hnc h
    simp only [run] at h
    split at h
    · cases h
    · rename_i m hm
      have hmf := step_flag W p m o hm
      have hmp : m.pure = true := by simpa [Pool.pure, hmf] using hp
      have := ih m q hmp (fun o ho => hnc o (List.mem_cons_of_mem _ ho)) h
      have hd : (m.long : Int) = p.long + o.delta := by
        cases o with
        | cancel => exact absurd rfl (hnc _ (List.mem_cons_self))
        | long d => exact ((applyLong_some W p m d).1 hm).1
        | short d =>
          simp only [step] at hm
          rw [applyShort_pure W p d hp] at hm
          exact ((applyLong_some W p m d).1 hm).1
      simp only [List.map_cons, List.sum_cons]
      omega

theorem step_pure_eq (W : Nat) (p : Pool) (o : Op) (hp : p.pure = true) (ho : o ≠ Op.cancel) :
    step W p o = applyLong W p o.delta := by
  cases o with
  | cancel => exact absurd rfl ho
  | long d => rfl
  | short d => simp only [step, Op.delta]; exact applyShort_pure W p d hp

theorem run_pure_none (W : Nat) (ops : List Op) : ∀ (p : Pool), p.pure = true →
    (∀ o ∈ ops, o ≠ Op.cancel) →
    (run W p ops = none ↔
      ∃ k, k < ops.length ∧ ¬ (0 ≤ (p.long : Int) + ((ops.take (k + 1)).map Op.delta).sum ∧
                                 (p.long : Int) + ((ops.take (k + 1)).map Op.delta).sum < 2 ^ W)) := by
  induction ops with
  | nil =>
    intro p _ _
    simp [run]
  | cons o os ih =>
    intro p hp hnc
    have hstep := step_pure_eq W p o hp (hnc o List.mem_cons_self)
    simp only [run, hstep]
    cases hm : applyLong W p o.delta with
    | none =>
      simp only [true_iff]
      refine ⟨0, by simp, ?_⟩
      have := (applyLong_none W p o.delta).1 hm
      simp only [Nat.zero_add, List.take_succ_cons, List.take_zero, List.map_cons, List.map_nil,
        List.sum_cons, List.sum_nil, Int.add_zero]
      omega
    | some m =>
      obtain ⟨h1, h2, h3, _⟩ := (applyLong_some W p m o.delta).1 hm
      have hmp : m.pure = true := by simpa [Pool.pure, h3] using hp
      simp only
      rw [ih m hmp (fun o ho => hnc o (List.mem_cons_of_mem _ ho))]
      constructor
      · rintro ⟨k, hk, hbad⟩
        refine ⟨k + 1, by simp only [List.length_cons]; omega, ?_⟩
        simp only [List.take_succ_cons, List.map_cons, List.sum_cons]
        rw [h1] at hbad
        intro hgood; apply hbad
        constructor <;> omega
      · rintro ⟨k, hk, hbad⟩
        cases k with
        | zero =>
          exfalso; apply hbad
          simp only [Nat.zero_add, List.take_succ_cons, List.take_zero, List.map_cons, List.map_nil,
            List.sum_cons, List.sum_nil, Int.add_zero]
          omega
        | succ k =>
          refine ⟨k, by simp only [List.length_cons] at hk; omega, ?_⟩
          simp only [List.take_succ_cons, List.map_cons, List.sum_cons] at hbad
          rw [h1]
          intro hgood; apply hbad
          constructor <;> omega

/-- contribution of an op to `long − short` on an impure pool. -/
def signedDelta : Op → Int
  | .long d => d
  | .short d => -d
  | .cancel => 0

theorem run_impure_diff (W : Nat) (ops : List Op) : ∀ (p q : Pool), p.pure = false →
    run W p ops = some q →
    (q.long : Int) - q.short = (p.long : Int) - p.short + (ops.map signedDelta).sum := by
  induction ops with
  | nil => intro p q _ h; simp [run] at h; simp [h]
  | cons o os ih =>
    intro p q hp h
    simp only [run] at h
    split at h
    · cases h
    · rename_i m hm
      have hmf := step_flag W p m o hm
      have hmp : m.pure = false := by simpa [Pool.pure, hmf] using hp
      have := ih m q hmp h
      have hd : (m.long : Int) - m.short = (p.long : Int) - p.short + signedDelta o := by
        cases o with
        | cancel =>
          simp only [step] at hm; cases hm
          simp only [cancel, hp, cancelAmounts, signedDelta]
          by_cases hl : p.long ≥ p.short <;> simp [hl] <;> omega
        | long d =>
          obtain ⟨a, _, _, b⟩ := (applyLong_some W p m d).1 hm
          simp only [signedDelta]; omega
        | short d =>
          obtain ⟨a, _, _, b⟩ := (applyShort_impure_some W p m d hp).1 hm
          simp only [signedDelta]; omega
      simp only [List.map_cons, List.sum_cons]
      omega

theorem toOppositeSigned_some (W n : Nat) (h : n < 2 ^ (W - 1)) :
    toOppositeSigned W n = some (-(n : Int)) := by
  simp [toOppositeSigned, toSigned, h]

theorem cancelDefault_pure (W : Nat) (p : Pool) (h : p.pure = true) (hw : 1 ≤ W) (hl : p.long < 2 ^ W) :
    cancelDefault W p = some (cancel p) := by
  have hpow : 2 ^ W = 2 * 2 ^ (W - 1) := by
    obtain ⟨k, rfl⟩ : ∃ k, W = k + 1 := ⟨W - 1, by omega⟩
    simp [Nat.pow_succ, Nat.mul_comm]
  have hla : longAmount p = p.long / 2 + p.long % 2 := by
    simp [longAmount, h, ceilDiv]; omega
  have hsa : shortAmount p = p.long / 2 := by simp [shortAmount, h]
  have hhalf : p.long / 2 < 2 ^ (W - 1) := by omega
  have hge : longAmount p ≥ shortAmount p := by omega
  have hleft : absDiff (longAmount p) (shortAmount p) = p.long % 2 := by
    simp only [absDiff, hge, if_true]; omega
  have hld : absDiff (longAmount p) (p.long % 2) = p.long / 2 := by
    have : longAmount p ≥ p.long % 2 := by omega
    simp only [absDiff, this, if_true]; omega
  simp only [cancelDefault, hleft, hge, if_true, hld]
  rw [hsa, toOppositeSigned_some W _ hhalf]
  simp only [applyDelta, applyLong, applyShort, addSigned]
  have hpowI : ((2 : Int) ^ W) = ((2 ^ W : Nat) : Int) := by simp
  have c1 : 0 ≤ (p.long : Int) + -((p.long / 2 : Nat) : Int) ∧
      (p.long : Int) + -((p.long / 2 : Nat) : Int) < 2 ^ W := by
    rw [hpowI]; constructor <;> omega
  rw [if_pos c1]
  have hp1 : ({ p with long := ((p.long : Int) + -((p.long / 2 : Nat) : Int)).toNat } : Pool).pure = true := by
    simpa [Pool.pure] using h
  simp only [hp1, if_true]
  have e1 : ((p.long : Int) + -((p.long / 2 : Nat) : Int)).toNat = p.long - p.long / 2 := by omega
  rw [e1]
  have c2 : 0 ≤ ((p.long - p.long / 2 : Nat) : Int) + -((p.long / 2 : Nat) : Int) ∧
      ((p.long - p.long / 2 : Nat) : Int) + -((p.long / 2 : Nat) : Int) < 2 ^ W := by
    rw [hpowI]; constructor <;> omega
  rw [if_pos c2]
  have e2 : (((p.long - p.long / 2 : Nat) : Int) + -((p.long / 2 : Nat) : Int)).toNat = p.long % 2 := by omega
  simp only [e2, cancel, h, if_true]

theorem cancelDefault_impure (W : Nat) (p : Pool) (h : p.pure = false)
    (hl' : p.long < 2 ^ W) (hs' : p.short < 2 ^ W)
    (hmin : p.long < 2 ^ (W - 1) ∨ p.short < 2 ^ (W - 1)) :
    cancelDefault W p = some (cancel p) := by
  have hle : 2 ^ (W - 1) ≤ 2 ^ W := Nat.pow_le_pow_right (by omega) (by omega)
  have hpowI : ((2 : Int) ^ W) = ((2 ^ W : Nat) : Int) := by simp
  have hla : longAmount p = p.long := by simp [longAmount, h]
  have hsa : shortAmount p = p.short := by simp [shortAmount, h]
  simp only [cancelDefault, hla, hsa, absDiff]
  by_cases hge : p.long ≥ p.short
  · have h2 : p.long ≥ p.long - p.short := by omega
    simp only [hge, if_true, h2]
    have e : p.long - (p.long - p.short) = p.short := by omega
    have hs : p.short < 2 ^ (W - 1) := by omega
    rw [e, toOppositeSigned_some W _ hs]
    simp only [applyDelta, applyLong, applyShort, addSigned]
    have c1 : 0 ≤ (p.long : Int) + -(p.short : Int) ∧ (p.long : Int) + -(p.short : Int) < 2 ^ W := by
      rw [hpowI]; constructor <;> omega
    rw [if_pos c1]
    have hp1 : ({ p with long := ((p.long : Int) + -(p.short : Int)).toNat } : Pool).pure = false := by
      simpa [Pool.pure] using h
    simp only [hp1]
    have c2 : 0 ≤ (p.short : Int) + -(p.short : Int) ∧ (p.short : Int) + -(p.short : Int) < 2 ^ W := by
      rw [hpowI]; constructor <;> omega
    simp only [Bool.false_eq_true, if_false]
    rw [if_pos c2]
    simp only [cancel, h, cancelAmounts, hge, if_true, Bool.false_eq_true, if_false]
    congr 2 <;> omega
  · have h2 : p.short ≥ p.short - p.long := by omega
    simp only [hge, if_false, h2, if_true]
    have e : p.short - (p.short - p.long) = p.long := by omega
    have hl : p.long < 2 ^ (W - 1) := by omega
    rw [e, toOppositeSigned_some W _ hl]
    simp only [applyDelta, applyLong, applyShort, addSigned]
    have c1 : 0 ≤ (p.long : Int) + -(p.long : Int) ∧ (p.long : Int) + -(p.long : Int) < 2 ^ W := by
      rw [hpowI]; constructor <;> omega
    rw [if_pos c1]
    have hp1 : ({ p with long := ((p.long : Int) + -(p.long : Int)).toNat } : Pool).pure = false := by
      simpa [Pool.pure] using h
    simp only [hp1]
    have c2 : 0 ≤ (p.short : Int) + -(p.long : Int) ∧ (p.short : Int) + -(p.long : Int) < 2 ^ W := by
      rw [hpowI]; constructor <;> omega
    simp only [Bool.false_eq_true, if_false]
    rw [if_pos c2]
    simp only [cancel, h, cancelAmounts, hge, if_false, Bool.false_eq_true]
    congr 2 <;> omega

theorem cancelSdk_pure (W : Nat) (p : Pool) (h : p.pure = true) (hw : 1 ≤ W) (hl : p.long < 2 ^ W) :
    cancelSdk W p = some (cancel p) := by
  unfold cancelSdk
  by_cases ho : Gmx.Gen.sdkOverridesCancel = true
  · rw [if_pos ho]
  · rw [if_neg ho]; exact cancelDefault_pure W p h hw hl

theorem step_long_lt (W : Nat) (p q : Pool) (o : Op) (hp : p.long < 2 ^ W)
    (h : step W p o = some q) (hpure : p.pure = true) : q.long < 2 ^ W := by
  have hpowI : ((2 : Int) ^ W) = ((2 ^ W : Nat) : Int) := by simp
  cases o with
  | cancel =>
    simp only [step] at h; cases h
    simp only [cancel, hpure, if_true]
    have : 0 < 2 ^ W := Nat.pow_pos (by omega)
    omega
  | long d => obtain ⟨a, b, _, _⟩ := (applyLong_some W p q d).1 h; rw [hpowI] at b; omega
  | short d =>
    simp only [step] at h; rw [applyShort_pure W p d hpure] at h
    obtain ⟨a, b, _, _⟩ := (applyLong_some W p q d).1 h; rw [hpowI] at b; omega

theorem runSdk_eq_run (W : Nat) (ops : List Op) : ∀ (p : Pool), p.pure = true → 1 ≤ W → p.long < 2 ^ W →
    runSdk W p ops = run W p ops := by
  induction ops with
  | nil => intro p _ _ _; rfl
  | cons o os ih =>
    intro p hp hw hl
    have hs : stepSdk W p o = step W p o := by
      cases o with
      | cancel => simp only [stepSdk, step]; exact cancelSdk_pure W p hp hw hl
      | long d => rfl
      | short d => rfl
    simp only [runSdk, run, hs]
    cases hm : step W p o with
    | none => rfl
    | some m =>
      have hmf := step_flag W p m o hm
      have hmp : m.pure = true := by simpa [Pool.pure, hmf] using hp
      exact ih m hmp hw (step_long_lt W p m o hl hm hp)

end Gmx.SPool.Lem
