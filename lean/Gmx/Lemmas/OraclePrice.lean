import Gmx.Model.OraclePrice
/-! Helper lemmas for C29 / C24. -/
namespace Gmx.OraclePrice
open Gmx

theorem pow10_pos (k : Nat) : 0 < 10 ^ k := Nat.pow_pos (by decide)

/-- `with_unit_price(x, false)`: greatest multiple of the precision step not above `x`. -/
theorem withUnit_floor {d d' : Dec} {x : Nat} (h : d.withUnit x false = some d') :
    d'.mult = d.mult ∧ d'.unit ≤ x ∧ x < d'.unit + 10 ^ d.mult ∧ d'.value < 2 ^ 32 := by
  unfold Dec.withUnit at h
  simp only [Bool.false_eq_true, if_false] at h
  split at h
  · rename_i hv
    cases h
    have hp := pow10_pos d.mult
    have e1 := Nat.div_add_mod x (10 ^ d.mult)
    have e2 := Nat.mod_lt x hp
    refine ⟨rfl, ?_, ?_, hv⟩
    · simp only [Dec.unit]; rw [Nat.mul_comm]; omega
    · simp only [Dec.unit]; rw [Nat.mul_comm]; omega
  · cases h

/-- `with_unit_price(x, true)`: least multiple of the precision step not below `x`. -/
theorem withUnit_ceil {d d' : Dec} {x : Nat} (h : d.withUnit x true = some d') :
    d'.mult = d.mult ∧ x ≤ d'.unit ∧ d'.unit < x + 10 ^ d.mult ∧ d'.value < 2 ^ 32 := by
  unfold Dec.withUnit at h
  simp only [if_true] at h
  split at h
  · rename_i hv
    cases h
    have hp := pow10_pos d.mult
    unfold ceilDiv at *
    have e1 := Nat.div_add_mod (x + 10 ^ d.mult - 1) (10 ^ d.mult)
    have e2 := Nat.mod_lt (x + 10 ^ d.mult - 1) hp
    refine ⟨rfl, ?_, ?_, hv⟩
    · simp only [Dec.unit]; rw [Nat.mul_comm]; omega
    · simp only [Dec.unit]; rw [Nat.mul_comm]; omega
  · cases h

theorem absDiff_le_iff (a b d : Nat) : absDiff a b ≤ d ↔ a ≤ b + d ∧ b ≤ a + d := by
  unfold absDiff; split <;> omega

end Gmx.OraclePrice
