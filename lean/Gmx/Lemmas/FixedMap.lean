import Gmx.Model.FixedMap
/-! helper lemmas for C34 (core only) -/
namespace Gmx.FixedMap

/-- strictly increasing keys -/
def Sorted (l : List Entry) : Prop := l.Pairwise (fun a b => a.1 < b.1)

/-! ### association-list lookup -/
theorem lookup_append (k : Nat) (A B : List Entry) :
    lookup k (A ++ B) = match lookup k A with | some v => some v | none => lookup k B := by
  induction A with
  | nil => simp [lookup]
  | cons e es ih =>
    simp only [List.cons_append, lookup]
    split
    · rfl
    · exact ih

theorem lookup_none_of_forall {k : Nat} {A : List Entry} (h : ∀ x ∈ A, x.1 ≠ k) : lookup k A = none := by
  induction A with
  | nil => rfl
  | cons e es ih =>
    simp only [lookup]
    rw [if_neg (h e (by simp))]
    exact ih (fun x hx => h x (by simp [hx]))

theorem lookup_mid {k v : Nat} {A B : List Entry} (h : ∀ x ∈ A, x.1 ≠ k) (k' : Nat) :
    lookup k' (A ++ (k, v) :: B) = if k' = k then some v else lookup k' (A ++ B) := by
  by_cases hk : k' = k
  · subst hk
    simp [lookup_append, lookup_none_of_forall h, lookup]
  · have hk2 : ¬ k = k' := fun e => hk e.symm
    simp [lookup_append, lookup, hk, hk2]

/-! ### sortedness of decompositions -/
theorem sorted_mid_iff {A B : List Entry} {e : Entry} :
    Sorted (A ++ e :: B) ↔ Sorted A ∧ Sorted B ∧ (∀ a ∈ A, a.1 < e.1) ∧ (∀ b ∈ B, e.1 < b.1) ∧
      (∀ a ∈ A, ∀ b ∈ B, a.1 < b.1) := by
  unfold Sorted
  rw [List.pairwise_append, List.pairwise_cons]
  constructor
  · rintro ⟨h1, ⟨h2, h3⟩, h4⟩
    exact ⟨h1, h3, fun a ha => h4 a ha e (by simp), h2, fun a ha b hb => h4 a ha b (by simp [hb])⟩
  · rintro ⟨h1, h2, h3, h4, h5⟩
    refine ⟨h1, ⟨h4, h2⟩, ?_⟩
    intro a ha b hb
    rcases List.mem_cons.1 hb with rfl | hb
    · exact h3 a ha
    · exact h5 a ha b hb

theorem sorted_append_iff {A B : List Entry} :
    Sorted (A ++ B) ↔ Sorted A ∧ Sorted B ∧ (∀ a ∈ A, ∀ b ∈ B, a.1 < b.1) := by
  unfold Sorted
  rw [List.pairwise_append]

theorem sorted_idx {l : List Entry} (h : Sorted l) {i j : Nat} {a b : Entry} (hij : i < j)
    (ha : l[i]? = some a) (hb : l[j]? = some b) : a.1 < b.1 := by
  obtain ⟨hi, rfl⟩ := List.getElem?_eq_some_iff.1 ha
  obtain ⟨hj, rfl⟩ := List.getElem?_eq_some_iff.1 hb
  exact (List.pairwise_iff_getElem.1 h) i j hi hj hij

/-! ### shift loop -/
theorem shiftRight_spec (data : List Entry) (lo n : Nat) (h : lo + n < data.length) :
    ∃ d, shiftRight data lo n = some d ∧ d.length = data.length ∧
      (∀ j, j ≤ lo → d[j]? = data[j]?) ∧
      (∀ j, lo < j → j ≤ lo + n → d[j]? = data[j-1]?) ∧
      (∀ j, lo + n < j → d[j]? = data[j]?) := by
  induction n generalizing data with
  | zero =>
    refine ⟨data, rfl, rfl, fun _ _ => rfl, ?_, fun _ _ => rfl⟩
    intro j h1 h2; omega
  | succ n ih =>
    have hi : lo + n < data.length := by omega
    have hget : data[lo + n]? = some (data[lo + n]'hi) := List.getElem?_eq_getElem hi
    simp only [shiftRight, hget]
    have h1 : lo + n + 1 < data.length := by omega
    simp only [h1, if_true]
    have hlen : (data.set (lo + n + 1) (data[lo + n]'hi)).length = data.length := List.length_set
    obtain ⟨d, hd, hl, ha, hb, hc⟩ := ih (data.set (lo + n + 1) (data[lo + n]'hi)) (by rw [hlen]; omega)
    refine ⟨d, hd, by rw [hl, hlen], ?_, ?_, ?_⟩
    · intro j hj
      rw [ha j hj, List.getElem?_set_ne (by omega)]
    · intro j hj1 hj2
      by_cases hjn : j ≤ lo + n
      · rw [hb j hj1 hjn, List.getElem?_set_ne (by omega)]
      · have : j = lo + n + 1 := by omega
        subst this
        rw [hc _ (by omega), List.getElem?_set_self (by omega)]
        simp [hget]
    · intro j hj
      rw [hc j (by omega), List.getElem?_set_ne (by omega)]

/-! ### binary search -/
theorem bsearchGo_spec (data : List Entry) (k count : Nat) (hc : count ≤ data.length)
    (hs : Sorted (data.take count)) :
    ∀ (fuel lo hi : Nat), lo ≤ hi → hi ≤ count → hi - lo ≤ fuel →
      (∀ j a, j < lo → data[j]? = some a → a.1 < k) →
      (∀ j a, hi ≤ j → j < count → data[j]? = some a → k < a.1) →
      ∃ r, bsearchGo data k fuel lo hi = some r ∧
        match r with
        | .found i => i < count ∧ ∃ v, data[i]? = some (k, v)
        | .missing i => i ≤ count ∧ (∀ j a, j < i → data[j]? = some a → a.1 < k) ∧
            (∀ j a, i ≤ j → j < count → data[j]? = some a → k < a.1) := by
  have hsi : ∀ {i j : Nat} {a b : Entry}, i < j → j < count → data[i]? = some a → data[j]? = some b → a.1 < b.1 := by
    intro i j a b hij hj ha hb
    refine sorted_idx hs hij (a := a) (b := b) ?_ ?_
    · rw [List.getElem?_take]; simp [show i < count by omega, ha]
    · rw [List.getElem?_take]; simp [hj, hb]
  intro fuel
  induction fuel with
  | zero =>
    intro lo hi h1 h2 h3 hl hr
    have : lo = hi := by omega
    subst this
    exact ⟨.missing lo, rfl, by omega, hl, hr⟩
  | succ fuel ih =>
    intro lo hi h1 h2 h3 hl hr
    simp only [bsearchGo]
    by_cases hlt : lo < hi
    · simp only [hlt, if_true]
      have hmid : lo + (hi - lo) / 2 < hi := by omega
      have hmid2 : lo ≤ lo + (hi - lo) / 2 := by omega
      generalize lo + (hi - lo) / 2 = mid at hmid hmid2
      have hml : mid < data.length := by omega
      rw [List.getElem?_eq_getElem hml]
      simp only []
      have hme : data[mid]? = some data[mid] := List.getElem?_eq_getElem hml
      by_cases he : data[mid].1 = k
      · simp only [he, if_true]
        refine ⟨.found mid, rfl, by omega, data[mid].2, ?_⟩
        rw [hme, ← he]
      · simp only [he, if_false]
        by_cases hlt2 : data[mid].1 < k
        · simp only [hlt2, if_true]
          refine ih (mid + 1) hi (by omega) h2 (by omega) ?_ hr
          intro j a hj ha
          by_cases hjm : j = mid
          · subst hjm; rw [hme] at ha; cases ha; exact hlt2
          · have := hsi (show j < mid by omega) (by omega) ha hme; omega
        · simp only [hlt2, if_false]
          refine ih lo mid hmid2 (by omega) (by omega) hl ?_
          intro j a hj1 hj2 ha
          by_cases hjm : j = mid
          · subst hjm; rw [hme] at ha; cases ha; omega
          · have := hsi (show mid < j by omega) hj2 hme ha; omega
    · simp only [hlt, if_false]
      have : lo = hi := by omega
      subst this
      exact ⟨.missing lo, rfl, by omega, hl, hr⟩



/-- representation invariant -/
structure Inv (m : FMap) : Prop where
  le : m.count ≤ m.data.length
  sorted : Sorted (view m)
  tail : ∀ j, m.count ≤ j → j < m.data.length → m.data[j]? = some dflt

theorem view_getElem? (m : FMap) (j : Nat) (hj : j < m.count) : (view m)[j]? = m.data[j]? := by
  unfold view; rw [List.getElem?_take]; simp [hj]

theorem view_length {m : FMap} (h : m.count ≤ m.data.length) : (view m).length = m.count := by
  unfold view; simp; omega

theorem bsearch_total {m : FMap} (h : Inv m) (k : Nat) :
    ∃ r, bsearch m k = some r ∧
      match r with
      | .found i => i < m.count ∧ ∃ v, m.data[i]? = some (k, v)
      | .missing i => i ≤ m.count ∧ (∀ j a, j < i → m.data[j]? = some a → a.1 < k) ∧
          (∀ j a, i ≤ j → j < m.count → m.data[j]? = some a → k < a.1) := by
  unfold bsearch
  rw [if_neg (by have := h.le; omega)]
  exact bsearchGo_spec m.data k m.count h.le h.sorted m.count 0 m.count (by omega) (by omega) (by omega)
    (fun j a hj _ => by omega) (fun j a h1 h2 _ => by omega)

/-- found at `i`: the view splits around the entry. -/
theorem view_split_found {m : FMap} (h : Inv m) {i k v : Nat} (hi : i < m.count)
    (he : m.data[i]? = some (k, v)) :
    view m = (view m).take i ++ (k, v) :: (view m).drop (i + 1) ∧
    (∀ a ∈ (view m).take i, a.1 < k) ∧ (∀ b ∈ (view m).drop (i + 1), k < b.1) := by
  have hl := view_length h.le
  have hv : (view m)[i]? = some (k, v) := by rw [view_getElem? m i hi, he]
  obtain ⟨hil, hvi⟩ := List.getElem?_eq_some_iff.1 hv
  refine ⟨?_, ?_, ?_⟩
  · conv => lhs; rw [← List.take_append_drop i (view m)]
    rw [List.drop_eq_getElem_cons hil, hvi]
  · intro a ha
    obtain ⟨j, hj⟩ := List.mem_iff_getElem?.1 ha
    rw [List.getElem?_take] at hj
    split at hj
    · exact sorted_idx h.sorted (by assumption) hj hv
    · cases hj
  · intro b hb
    obtain ⟨j, hj⟩ := List.mem_iff_getElem?.1 hb
    rw [List.getElem?_drop] at hj
    exact sorted_idx h.sorted (show i < i + 1 + j by omega) hv hj

/-- not found, insertion point `i`. -/
theorem view_split_missing {m : FMap} (h : Inv m) {i k : Nat} (hi : i ≤ m.count)
    (hl : ∀ j a, j < i → m.data[j]? = some a → a.1 < k)
    (hr : ∀ j a, i ≤ j → j < m.count → m.data[j]? = some a → k < a.1) :
    (∀ a ∈ (view m).take i, a.1 < k) ∧ (∀ b ∈ (view m).drop i, k < b.1) := by
  have hlen := view_length h.le
  constructor
  · intro a ha
    obtain ⟨j, hj⟩ := List.mem_iff_getElem?.1 ha
    rw [List.getElem?_take] at hj
    split at hj
    · rename_i hji
      rw [view_getElem? m j (by omega)] at hj
      exact hl j a hji hj
    · cases hj
  · intro b hb
    obtain ⟨j, hj⟩ := List.mem_iff_getElem?.1 hb
    rw [List.getElem?_drop] at hj
    have hlt : i + j < (view m).length := (List.getElem?_eq_some_iff.1 hj).1
    rw [view_getElem? m (i + j) (by omega)] at hj
    exact hr (i + j) b (by omega) (by omega) hj

theorem toFun_found {m : FMap} (h : Inv m) {i k v : Nat} (hi : i < m.count)
    (he : m.data[i]? = some (k, v)) : toFun m k = some v := by
  obtain ⟨h1, h2, _⟩ := view_split_found h hi he
  unfold toFun
  rw [h1, lookup_mid (fun x hx => by have := h2 x hx; omega)]
  simp

theorem toFun_missing {m : FMap} (h : Inv m) {i k : Nat} (hi : i ≤ m.count)
    (hl : ∀ j a, j < i → m.data[j]? = some a → a.1 < k)
    (hr : ∀ j a, i ≤ j → j < m.count → m.data[j]? = some a → k < a.1) : toFun m k = none := by
  obtain ⟨h1, h2⟩ := view_split_missing h hi hl hr
  unfold toFun
  apply lookup_none_of_forall
  intro x hx
  rw [← List.take_append_drop i (view m)] at hx
  rcases List.mem_append.1 hx with hx | hx
  · have := h1 x hx; omega
  · have := h2 x hx; omega


/-- view after the shift-right insert at `i` -/
theorem insert_view {data d : List Entry} {count i : Nat} (e : Entry) (hi : i ≤ count)
    (hc : count < data.length) (hd : shiftRight data i (count - i) = some d) :
    d.length = data.length ∧
    (d.set i e).take (count + 1) = (data.take count).take i ++ e :: (data.take count).drop i ∧
    (∀ j, count + 1 ≤ j → (d.set i e)[j]? = data[j]?) := by
  obtain ⟨d', hd', hl, ha, hb, hcc⟩ := shiftRight_spec data i (count - i) (by omega)
  rw [hd] at hd'; cases hd'
  refine ⟨hl, ?_, ?_⟩
  · apply List.ext_getElem?
    intro j
    rw [List.getElem?_take, List.getElem?_append, List.getElem?_set]
    simp only [List.length_take, List.getElem?_take, List.getElem?_cons, List.getElem?_drop]
    have hmin : min i (min count data.length) = i := by omega
    rw [hmin]
    by_cases h1 : j < i
    · have : ¬ i = j := by omega
      simp [h1, this, show j < count + 1 by omega, show j < count by omega, ha j (by omega)]
    · by_cases h2 : j = i
      · subst h2; simp [show j < count + 1 by omega, show j < d.length by omega]
      · have h3 : ¬ i = j := fun e => h2 e.symm
        have h4 : ¬ j - i = 0 := by omega
        by_cases h5 : j < count + 1
        · simp only [h5, if_true, h3, if_false, h1, h4]
          rw [hb j (by omega) (by omega)]
          have : i + (j - i - 1) = j - 1 := by omega
          rw [this]
          simp [show j - 1 < count by omega]
        · simp only [h5, if_false, h1, h4]
          have : i + (j - i - 1) = j - 1 := by omega
          rw [this]
          simp [show ¬ j - 1 < count by omega]
  · intro j hj
    rw [List.getElem?_set_ne (by omega), hcc j (by omega)]

/-- view after replacing the value at `i` -/
theorem replace_view {data : List Entry} {count i : Nat} (e : Entry) (hi : i < count)
    (hc : count ≤ data.length) :
    (data.set i e).take count = (data.take count).take i ++ e :: (data.take count).drop (i + 1) := by
  apply List.ext_getElem?
  intro j
  rw [List.getElem?_take, List.getElem?_append, List.getElem?_set]
  simp only [List.length_take, List.getElem?_take, List.getElem?_cons, List.getElem?_drop]
  have hmin : min i (min count data.length) = i := by omega
  rw [hmin]
  by_cases h1 : j < i
  · have : ¬ i = j := by omega
    simp [h1, this, show j < count by omega]
  · by_cases h2 : j = i
    · subst h2; simp [hi, show j < data.length by omega]
    · have h3 : ¬ i = j := fun e => h2 e.symm
      have h4 : ¬ j - i = 0 := by omega
      have : i + 1 + (j - i - 1) = j := by omega
      simp only [h3, if_false, h1, h4, this]

/-- view after `remove` at `i` -/
theorem remove_view {data d1 : List Entry} {count i : Nat} (e : Entry) (hi : i < count)
    (hc : count ≤ data.length) (hd : copyWithin (data.set i e) (i + 1) count i = some d1) :
    d1.length = data.length ∧
    (d1.set (count - 1) dflt).take (count - 1) = (data.take count).take i ++ (data.take count).drop (i + 1) ∧
    (∀ j, count ≤ j → (d1.set (count - 1) dflt)[j]? = data[j]?) ∧
    (d1.set (count - 1) dflt)[count - 1]? = some dflt := by
  unfold copyWithin at hd
  simp only [List.length_set] at hd
  rw [if_pos (by omega)] at hd
  cases hd
  have hlen : (List.take i (data.set i e) ++ List.take (count - (i + 1)) (List.drop (i + 1) (data.set i e)) ++
      List.drop (i + (count - (i + 1))) (data.set i e)).length = data.length := by
    simp only [List.length_append, List.length_take, List.length_drop, List.length_set]; omega
  refine ⟨hlen, ?_, ?_, ?_⟩
  · apply List.ext_getElem?
    intro j
    rw [List.getElem?_take, List.getElem?_set]
    simp only [List.getElem?_append, List.length_append, List.length_take, List.length_drop, List.length_set,
      List.getElem?_take, List.getElem?_drop, List.getElem?_set]
    have m1 : min i data.length = i := by omega
    have m2 : min (count - (i + 1)) (data.length - (i + 1)) = count - (i + 1) := by omega
    have m3 : min i (min count data.length) = i := by omega
    rw [m1, m2, m3]
    by_cases h0 : j < count - 1
    · have h9 : ¬ count - 1 = j := by omega
      simp only [h0, if_true, h9, if_false]
      by_cases h1 : j < i
      · have : ¬ i = j := by omega
        simp [h1, this, show j < i + (count - (i + 1)) by omega, show j < count by omega]
      · have h2 : j < i + (count - (i + 1)) := by omega
        have h3 : j - i < count - (i + 1) := by omega
        have h4 : ¬ i = i + 1 + (j - i) := by omega
        simp [h1, h2, h3, h4, show i + 1 + (j - i) < count by omega]
    · simp only [h0, if_false]
      by_cases h1 : j < i
      · omega
      · simp [h1, show ¬ i + 1 + (j - i) < count by omega]
  · intro j hj
    rw [List.getElem?_set_ne (by omega)]
    simp only [List.getElem?_append, List.length_append, List.length_take, List.length_drop, List.length_set,
      List.getElem?_take, List.getElem?_drop, List.getElem?_set]
    have m1 : min i data.length = i := by omega
    have m2 : min (count - (i + 1)) (data.length - (i + 1)) = count - (i + 1) := by omega
    rw [m1, m2]
    have h2 : ¬ j < i + (count - (i + 1)) := by omega
    have h1 : ¬ j < i := by omega
    have h4 : i + (count - (i + 1)) + (j - (i + (count - (i + 1)))) = j := by omega
    have h5 : ¬ i = j := by omega
    simp [h2, h4, h5]
  · rw [List.getElem?_set_self (by rw [hlen]; omega)]


theorem clearGo_spec (data : List Entry) : ∀ n, n ≤ data.length →
    ∃ d, clearGo data n = some d ∧ d.length = data.length ∧
      (∀ j, j < n → d[j]? = some dflt) ∧ (∀ j, n ≤ j → d[j]? = data[j]?) := by
  intro n
  induction n with
  | zero => intro _; exact ⟨data, rfl, rfl, fun j h => by omega, fun _ _ => rfl⟩
  | succ n ih =>
    intro h
    obtain ⟨d, hd, hl, ha, hb⟩ := ih (by omega)
    simp only [clearGo, hd]
    rw [if_pos (by omega)]
    refine ⟨_, rfl, by simp [hl], ?_, ?_⟩
    · intro j hj
      by_cases e : j = n
      · subst e; rw [List.getElem?_set_self (by omega)]
      · rw [List.getElem?_set_ne (fun x => e x.symm)]; exact ha j (by omega)
    · intro j hj
      rw [List.getElem?_set_ne (by omega)]; exact hb j (by omega)

theorem inv_empty (cap : Nat) : Inv (empty cap) := by
  refine ⟨by simp [empty], by simp [empty, view, Sorted], ?_⟩
  intro j _ hj
  simp only [empty, List.length_replicate] at hj
  simp [empty, hj]

theorem toFun_empty (cap : Nat) : toFun (empty cap) = fun _ => none := by
  funext k; simp [toFun, view, empty, lookup]

theorem get_spec {m : FMap} (h : Inv m) (k : Nat) : get m k = some (toFun m k) := by
  obtain ⟨r, hr, hp⟩ := bsearch_total h k
  unfold get
  rw [hr]
  cases r with
  | found i =>
    obtain ⟨hi, v, hv⟩ := hp
    simp only [hv]
    rw [toFun_found h hi hv]
  | missing i =>
    obtain ⟨hi, hl, hrr⟩ := hp
    simp only []
    rw [toFun_missing h hi hl hrr]

theorem getEntryByIndex_spec {m : FMap} (h : Inv m) (i : Nat) :
    getEntryByIndex m i = some ((view m)[i]?) := by
  unfold getEntryByIndex
  by_cases hi : i < m.count
  · rw [if_pos hi, view_getElem? m i hi]
    have : i < m.data.length := by have := h.le; omega
    rw [List.getElem?_eq_getElem this]
  · rw [if_neg hi]
    have : (view m).length ≤ i := by rw [view_length h.le]; omega
    rw [List.getElem?_eq_none this]

/-- insert of a present key with `new = true` -/
theorem insert_present_new {m : FMap} (h : Inv m) {k old : Nat} (v : Nat) (hk : toFun m k = some old) :
    insertWithOptions m k v true = some (m, .alreadyExist) := by
  obtain ⟨r, hr, hp⟩ := bsearch_total h k
  unfold insertWithOptions
  rw [hr]
  cases r with
  | found i => simp
  | missing i =>
    obtain ⟨hi, hl, hrr⟩ := hp
    rw [toFun_missing h hi hl hrr] at hk; cases hk

/-- insert of a present key replaces the value, whatever the fill level -/
theorem insert_present_replace {m : FMap} (h : Inv m) {k old : Nat} (v : Nat) (hk : toFun m k = some old) :
    ∃ m', insertWithOptions m k v false = some (m', .ok (some old)) ∧ Inv m' ∧
      m'.data.length = m.data.length ∧ m'.count = m.count ∧ toFun m' = upd (toFun m) k (some v) := by
  obtain ⟨r, hr, hp⟩ := bsearch_total h k
  unfold insertWithOptions
  rw [hr]
  cases r with
  | missing i =>
    obtain ⟨hi, hl, hrr⟩ := hp
    rw [toFun_missing h hi hl hrr] at hk; cases hk
  | found i =>
    obtain ⟨hi, v0, hv0⟩ := hp
    have hold : old = v0 := by rw [toFun_found h hi hv0] at hk; cases hk; rfl
    subst hold
    simp only [hv0, Bool.false_eq_true, if_false]
    obtain ⟨hs1, hs2, hs3⟩ := view_split_found h hi hv0
    have hview : view ⟨m.data.set i (k, v), m.count⟩ =
        (view m).take i ++ (k, v) :: (view m).drop (i + 1) := replace_view (k, v) hi h.le
    have hsorted := h.sorted
    rw [hs1, sorted_mid_iff] at hsorted
    refine ⟨_, rfl, ⟨by simp; exact h.le, ?_, ?_⟩, by simp, rfl, ?_⟩
    · rw [hview, sorted_mid_iff]; exact hsorted
    · intro j hj1 hj2
      simp only at hj1 hj2 ⊢
      rw [List.getElem?_set_ne (by omega)]
      exact h.tail j hj1 (by simpa using hj2)
    · funext k'
      have hne : ∀ x ∈ (view m).take i, x.1 ≠ k := fun x hx => by have := hs2 x hx; omega
      show lookup k' (view ⟨m.data.set i (k, v), m.count⟩) = _
      rw [hview, lookup_mid hne]
      unfold upd toFun
      by_cases e : k' = k
      · simp [e]
      · simp only [e, if_false]
        conv => rhs; rw [hs1, lookup_mid hne]
        simp [e]


/-- inserting a new key into a full map fails and leaves the map unchanged -/
theorem insert_absent_full {m : FMap} (h : Inv m) {k : Nat} (v : Nat) (new : Bool)
    (hk : toFun m k = none) (hfull : m.count ≥ m.data.length) :
    insertWithOptions m k v new = some (m, .exceedMax) := by
  obtain ⟨r, hr, hp⟩ := bsearch_total h k
  unfold insertWithOptions
  rw [hr]
  cases r with
  | found i =>
    obtain ⟨hi, v0, hv0⟩ := hp
    rw [toFun_found h hi hv0] at hk; cases hk
  | missing i => simp [hfull]

/-- inserting a new key with room -/
theorem insert_absent_room {m : FMap} (h : Inv m) {k : Nat} (v : Nat) (new : Bool)
    (hk : toFun m k = none) (hroom : m.count < m.data.length) (h32 : m.data.length < 2 ^ 32) :
    ∃ m', insertWithOptions m k v new = some (m', .ok none) ∧ Inv m' ∧
      m'.data.length = m.data.length ∧ m'.count = m.count + 1 ∧ toFun m' = upd (toFun m) k (some v) := by
  obtain ⟨r, hr, hp⟩ := bsearch_total h k
  unfold insertWithOptions
  rw [hr]
  cases r with
  | found i =>
    obtain ⟨hi, v0, hv0⟩ := hp
    rw [toFun_found h hi hv0] at hk; cases hk
  | missing i =>
    obtain ⟨hi, hl, hrr⟩ := hp
    simp only [show ¬ m.count ≥ m.data.length by omega, if_false]
    obtain ⟨d, hd, _⟩ := shiftRight_spec m.data i (m.count - i) (by omega)
    obtain ⟨hlen, hview, htail⟩ := insert_view (k, v) hi hroom hd
    rw [hd]
    simp only [show i < d.length by omega, if_true, show m.count + 1 < 2 ^ 32 by omega]
    obtain ⟨hs1, hs2⟩ := view_split_missing h hi hl hrr
    have hv' : view ⟨d.set i (k, v), m.count + 1⟩ = (view m).take i ++ (k, v) :: (view m).drop i := hview
    have hsorted := h.sorted
    rw [← List.take_append_drop i (view m), sorted_append_iff] at hsorted
    refine ⟨_, rfl, ⟨by simp; omega, ?_, ?_⟩, by simp [hlen], rfl, ?_⟩
    · rw [hv', sorted_mid_iff]
      exact ⟨hsorted.1, hsorted.2.1, hs1, hs2, hsorted.2.2⟩
    · intro j hj1 hj2
      simp only at hj1 hj2 ⊢
      rw [htail j hj1]
      exact h.tail j (by omega) (by simpa [hlen] using hj2)
    · funext k'
      have hne : ∀ x ∈ (view m).take i, x.1 ≠ k := fun x hx => by have := hs1 x hx; omega
      show lookup k' (view ⟨d.set i (k, v), m.count + 1⟩) = _
      rw [hv', lookup_mid hne, List.take_append_drop]
      rfl

/-- removing an absent key is the identity -/
theorem remove_absent {m : FMap} (h : Inv m) {k : Nat} (hk : toFun m k = none) :
    remove m k = some (m, none) := by
  obtain ⟨r, hr, hp⟩ := bsearch_total h k
  unfold remove
  rw [hr]
  cases r with
  | found i =>
    obtain ⟨hi, v0, hv0⟩ := hp
    rw [toFun_found h hi hv0] at hk; cases hk
  | missing i => rfl

/-- removing a present key — at ANY fill level, including a full map -/
theorem remove_present {m : FMap} (h : Inv m) {k old : Nat} (hk : toFun m k = some old) :
    ∃ m', remove m k = some (m', some old) ∧ Inv m' ∧
      m'.data.length = m.data.length ∧ m'.count = m.count - 1 ∧ 1 ≤ m.count ∧
      toFun m' = upd (toFun m) k none := by
  obtain ⟨r, hr, hp⟩ := bsearch_total h k
  unfold remove
  rw [hr]
  cases r with
  | missing i =>
    obtain ⟨hi, hl, hrr⟩ := hp
    rw [toFun_missing h hi hl hrr] at hk; cases hk
  | found i =>
    obtain ⟨hi, v0, hv0⟩ := hp
    have hold : old = v0 := by rw [toFun_found h hi hv0] at hk; cases hk; rfl
    subst hold
    simp only [hv0]
    have hle := h.le
    have hcw : ∃ d1, copyWithin (m.data.set i (k, 0)) (i + 1) m.count i = some d1 := by
      unfold copyWithin
      rw [if_pos (by simp only [List.length_set]; omega)]
      exact ⟨_, rfl⟩
    obtain ⟨d1, hd1⟩ := hcw
    obtain ⟨hlen, hview, htail, hlast⟩ := remove_view (k, 0) hi hle hd1
    rw [hd1]
    simp only [show 1 ≤ m.count ∧ m.count - 1 < d1.length from ⟨by omega, by omega⟩]
    obtain ⟨hs1, hs2, hs3⟩ := view_split_found h hi hv0
    have hv' : view ⟨d1.set (m.count - 1) dflt, m.count - 1⟩ = (view m).take i ++ (view m).drop (i + 1) := hview
    have hsorted := h.sorted
    rw [hs1, sorted_mid_iff] at hsorted
    have hc1 : 1 ≤ m.count := by omega
    have hle' : m.count - 1 ≤ (d1.set (m.count - 1) dflt).length := by rw [List.length_set, hlen]; omega
    refine ⟨_, rfl, ⟨hle', ?_, ?_⟩, by simp [hlen], rfl, trivial, ?_⟩
    · rw [hv', sorted_append_iff]
      exact ⟨hsorted.1, hsorted.2.1, hsorted.2.2.2.2⟩
    · intro j hj1 hj2
      simp only at hj1 hj2 ⊢
      by_cases e : j = m.count - 1
      · subst e; exact hlast
      · rw [htail j (by omega)]
        exact h.tail j (by omega) (by simpa [hlen] using hj2)
    · funext k'
      have hne : ∀ x ∈ (view m).take i, x.1 ≠ k := fun x hx => by have := hs2 x hx; omega
      have hne2 : ∀ x ∈ (view m).drop (i + 1), x.1 ≠ k := fun x hx => by have := hs3 x hx; omega
      show lookup k' (view ⟨d1.set (m.count - 1) dflt, m.count - 1⟩) = _
      rw [hv']
      unfold upd toFun
      by_cases e : k' = k
      · subst e
        simp only [if_true]
        apply lookup_none_of_forall
        intro x hx
        rcases List.mem_append.1 hx with hx | hx
        · exact hne x hx
        · exact hne2 x hx
      · simp only [e, if_false]
        conv => rhs; rw [hs1, lookup_mid hne]
        simp [e]

theorem clear_spec {m : FMap} (h : Inv m) :
    ∃ m', clear m = some m' ∧ Inv m' ∧ m'.data.length = m.data.length ∧ m'.count = 0 ∧
      toFun m' = fun _ => none := by
  obtain ⟨d, hd, hl, ha, hb⟩ := clearGo_spec m.data m.count h.le
  unfold clear
  rw [hd]
  refine ⟨_, rfl, ⟨by simp, by simp [view, Sorted], ?_⟩, hl, rfl, ?_⟩
  · intro j _ hj
    simp only at hj ⊢
    by_cases e : j < m.count
    · exact ha j e
    · rw [hb j (by omega)]; exact h.tail j (by omega) (by omega)
  · funext k; simp [toFun, view, lookup]


theorem lookup_some_iff_mem {l : List Entry} (h : Sorted l) (k v : Nat) :
    lookup k l = some v ↔ (k, v) ∈ l := by
  induction l with
  | nil => simp [lookup]
  | cons e es ih =>
    have hs : Sorted es := (List.pairwise_cons.1 h).2
    have hlt : ∀ b ∈ es, e.1 < b.1 := (List.pairwise_cons.1 h).1
    simp only [lookup, List.mem_cons]
    by_cases he : e.1 = k
    · simp only [he, if_true]
      constructor
      · intro hv; cases hv; left; rw [← he]
      · rintro (hh | hh)
        · rw [← hh]
        · have := hlt _ hh; simp at this; omega
    · simp only [he, if_false]
      rw [ih hs]
      constructor
      · intro hh; exact Or.inr hh
      · rintro (hh | hh)
        · exfalso; apply he; rw [← hh]
        · exact hh

/-- refinement relation between the array map and the ordinary map -/
structure Rel (cap : Nat) (m : FMap) (a : AMap) : Prop where
  inv : Inv m
  cap : m.data.length = cap
  f : toFun m = a.f
  size : m.count = a.size

theorem rel_empty (cap : Nat) : Rel cap (empty cap) AMap.empty :=
  ⟨inv_empty cap, by simp [empty], toFun_empty cap, rfl⟩

theorem step_refines' {cap : Nat} (h32 : cap < 2 ^ 32) {m : FMap} {a : AMap} (h : Rel cap m a) (op : Op) :
    ∃ m', step m op = some (m', (astep cap a op).2) ∧ Rel cap m' (astep cap a op).1 := by
  obtain ⟨hinv, hcap, hf, hsz⟩ := h
  cases op with
  | get k =>
    refine ⟨m, ?_, ⟨hinv, hcap, hf, hsz⟩⟩
    simp [step, astep, get_spec hinv, hf]
  | clear =>
    obtain ⟨m', h1, h2, h3, h4, h5⟩ := clear_spec hinv
    refine ⟨m', ?_, ⟨h2, by omega, h5, h4⟩⟩
    simp [step, astep, h1]
  | remove k =>
    cases hk : a.f k with
    | none =>
      have hk' : toFun m k = none := by rw [hf]; exact hk
      refine ⟨m, ?_, ?_⟩
      · simp [step, astep, hk, remove_absent hinv hk']
      · simp only [astep, hk]; exact ⟨hinv, hcap, hf, hsz⟩
    | some old =>
      have hk' : toFun m k = some old := by rw [hf]; exact hk
      obtain ⟨m', h1, h2, h3, h4, h5, h6⟩ := remove_present hinv hk'
      refine ⟨m', ?_, ?_⟩
      · simp [step, astep, hk, h1]
      · simp only [astep, hk]; exact ⟨h2, by omega, by rw [h6, hf], by simp; omega⟩
  | insert k v new =>
    cases hk : a.f k with
    | some old =>
      have hk' : toFun m k = some old := by rw [hf]; exact hk
      cases new with
      | true =>
        refine ⟨m, ?_, ?_⟩
        · simp [step, astep, hk, insert_present_new hinv v hk']
        · simp only [astep, hk]; exact ⟨hinv, hcap, hf, hsz⟩
      | false =>
        obtain ⟨m', h1, h2, h3, h4, h5⟩ := insert_present_replace hinv v hk'
        refine ⟨m', ?_, ?_⟩
        · simp [step, astep, hk, h1]
        · simp only [astep, hk, Bool.false_eq_true, if_false]; exact ⟨h2, by omega, by rw [h5, hf], by simp; omega⟩
    | none =>
      have hk' : toFun m k = none := by rw [hf]; exact hk
      by_cases hfull : a.size ≥ cap
      · refine ⟨m, ?_, ?_⟩
        · simp [step, astep, hk, hfull, insert_absent_full hinv v new hk' (by omega)]
        · simp only [astep, hk, hfull, if_true]; exact ⟨hinv, hcap, hf, hsz⟩
      · obtain ⟨m', h1, h2, h3, h4, h5⟩ := insert_absent_room hinv v new hk' (by omega) (by omega)
        refine ⟨m', ?_, ?_⟩
        · simp [step, astep, hk, hfull, h1]
        · simp only [astep, hk, hfull, if_false]; exact ⟨h2, by omega, by rw [h5, hf], by simp; omega⟩

theorem run_refines' {cap : Nat} (h32 : cap < 2 ^ 32) (ops : List Op) : ∀ {m : FMap} {a : AMap}, Rel cap m a →
    ∃ m', run m ops = some (m', (arun cap a ops).2) ∧ Rel cap m' (arun cap a ops).1 := by
  induction ops with
  | nil => intro m a h; exact ⟨m, rfl, h⟩
  | cons op ops ih =>
    intro m a h
    obtain ⟨m1, hs, hr⟩ := step_refines' h32 h op
    obtain ⟨m2, hs2, hr2⟩ := ih hr
    refine ⟨m2, ?_, ?_⟩
    · simp only [run, hs, hs2, arun]
    · simp only [arun]; exact hr2

end Gmx.FixedMap
