import Gmx.Model.SwapGraph
/-! Helper lemmas for C42: relaxation is monotone, a round covers every edge, feasibility. -/
namespace Gmx.SwapGraph

/-- `d'` is at least as good as `d` at every node that already had a distance. -/
def Better (d' d : Dist) : Prop := ∀ v x, d v = some x → ∃ y, d' v = some y ∧ y ≤ x

theorem Better.refl (d : Dist) : Better d d := fun _ x h => ⟨x, h, Int.le_refl _⟩

theorem Better.trans {a b c : Dist} (h1 : Better a b) (h2 : Better b c) : Better a c := by
  intro v x hx
  obtain ⟨y, hy, le1⟩ := h2 v x hx
  obtain ⟨z, hz, le2⟩ := h1 v y hy
  exact ⟨z, hz, Int.le_trans le2 le1⟩

theorem improves_some {dist : Dist} {e : Edge} {x : Int} (h : improves dist e = some x) :
    ∃ w d, e.cost = some w ∧ dist e.src = some d ∧ x = d + w ∧
      (∀ cur, dist e.dst = some cur → x < cur) := by
  unfold improves at h
  split at h
  · rename_i w d hw hd
    split at h
    · rename_i cur hc
      split at h
      · cases h
        exact ⟨w, d, hw, hd, rfl, fun c hc' => by rw [hc] at hc'; cases hc'; assumption⟩
      · cases h
    · rename_i hc
      cases h
      exact ⟨w, d, hw, hd, rfl, fun c hc' => by rw [hc] at hc'; cases hc'⟩
  · cases h

theorem improves_none {dist : Dist} {e : Edge} {w d : Int} (h : improves dist e = none)
    (hw : e.cost = some w) (hd : dist e.src = some d) :
    ∃ cur, dist e.dst = some cur ∧ cur ≤ d + w := by
  unfold improves at h
  rw [hw, hd] at h
  simp only at h
  split at h
  · rename_i cur hc
    split at h
    · cases h
    · exact ⟨cur, hc, by omega⟩
  · cases h

/-- one relaxation never makes any distance worse… -/
theorem relaxEdge_better (steps ms : Nat) (s : BFState) (e : Edge) :
    Better (relaxEdge steps ms s e).dist s.dist := by
  unfold relaxEdge
  split
  · rename_i x hx
    obtain ⟨w, d, _, _, _, hlt⟩ := improves_some hx
    intro v y hy
    simp only [setD]
    by_cases hv : v = e.dst
    · subst hv
      simp only [if_true]
      exact ⟨x, rfl, Int.le_of_lt (hlt y hy)⟩
    · simp only [hv, if_false]
      exact ⟨y, hy, Int.le_refl _⟩
  · exact Better.refl _

/-- …and afterwards the relaxed edge is satisfied w.r.t. the distance its source had. -/
theorem relaxEdge_edge (steps ms : Nat) (s : BFState) (e : Edge) (w d : Int)
    (hw : e.cost = some w) (hd : s.dist e.src = some d) :
    ∃ y, (relaxEdge steps ms s e).dist e.dst = some y ∧ y ≤ d + w := by
  unfold relaxEdge
  split
  · rename_i x hx
    obtain ⟨w', d', hw', hd', rfl, _⟩ := improves_some hx
    rw [hw] at hw'; rw [hd] at hd'; cases hw'; cases hd'
    exact ⟨d + w, by simp [setD], Int.le_refl _⟩
  · rename_i hx
    exact improves_none hx hw hd

theorem foldl_better (steps ms : Nat) : ∀ (es : List Edge) (s : BFState),
    Better (es.foldl (relaxEdge steps ms) s).dist s.dist
  | [], s => Better.refl _
  | e :: es, s => by
    simp only [List.foldl_cons]
    exact Better.trans (foldl_better steps ms es _) (relaxEdge_better steps ms s e)

/-- after folding over a list that contains `e`, `e` is satisfied w.r.t. the INITIAL distance of
its source. -/
theorem foldl_edge (steps ms : Nat) : ∀ (es : List Edge) (s : BFState) (e : Edge) (w d : Int),
    e ∈ es → e.cost = some w → s.dist e.src = some d →
    ∃ y, (es.foldl (relaxEdge steps ms) s).dist e.dst = some y ∧ y ≤ d + w
  | [], _, _, _, _, h, _, _ => by cases h
  | a :: es, s, e, w, d, h, hw, hd => by
    simp only [List.foldl_cons]
    rcases List.mem_cons.1 h with rfl | h
    · obtain ⟨y, hy, le⟩ := relaxEdge_edge steps ms s e w d hw hd
      obtain ⟨z, hz, le2⟩ := foldl_better steps ms es (relaxEdge steps ms s e) _ y hy
      exact ⟨z, hz, by omega⟩
    · obtain ⟨d', hd', le⟩ := relaxEdge_better steps ms s a _ d hd
      obtain ⟨y, hy, le2⟩ := foldl_edge steps ms es (relaxEdge steps ms s a) e w d' h hw hd'
      exact ⟨y, hy, by omega⟩

theorem mem_relaxOrder (g : Graph) (e : Edge) (h : e ∈ g.edges) (hn : e.src < g.n) :
    e ∈ relaxOrder g := by
  unfold relaxOrder
  rw [List.mem_flatten]
  refine ⟨outgoing g e.src, List.mem_map.2 ⟨e.src, List.mem_range.2 hn, rfl⟩, ?_⟩
  unfold outgoing
  rw [List.mem_reverse, List.mem_filter]
  exact ⟨h, by simp⟩

/-- the distance part of a round (it does not depend on the predecessor bookkeeping). -/
def roundD (g : Graph) (dist : Dist) : Dist := (round g 0 dist initPred).dist

theorem foldl_dist_indep (ms : Nat) (s1 s2 : Nat) : ∀ (es : List Edge) (a b : BFState),
    a.dist = b.dist → (es.foldl (relaxEdge s1 ms) a).dist = (es.foldl (relaxEdge s2 ms) b).dist
  | [], _, _, h => h
  | e :: es, a, b, h => by
    simp only [List.foldl_cons]
    apply foldl_dist_indep ms s1 s2 es
    unfold relaxEdge
    rw [h]
    cases improves b.dist e <;> simp [h]

theorem round_dist (g : Graph) (steps : Nat) (dist : Dist) (pred : Pred) :
    (round g steps dist pred).dist = roundD g dist := by
  unfold roundD round
  exact foldl_dist_indep _ _ _ _ _ _ rfl

theorem roundD_better (g : Graph) (dist : Dist) : Better (roundD g dist) dist :=
  foldl_better 0 g.maxSteps (relaxOrder g) ⟨dist, initPred, false⟩

theorem roundD_edge (g : Graph) (dist : Dist) (e : Edge) (w d : Int) (he : e ∈ g.edges)
    (hn : e.src < g.n) (hw : e.cost = some w) (hd : dist e.src = some d) :
    ∃ y, roundD g dist e.dst = some y ∧ y ≤ d + w :=
  foldl_edge 0 g.maxSteps (relaxOrder g) ⟨dist, initPred, false⟩ e w d (mem_relaxOrder g e he hn) hw hd

def iterD (g : Graph) : Nat → Dist → Dist
  | 0, d => d
  | k + 1, d => iterD g k (roundD g d)

theorem iterD_better (g : Graph) : ∀ (k : Nat) (d : Dist), Better (iterD g k d) d
  | 0, d => Better.refl d
  | k + 1, d => Better.trans (iterD_better g k _) (roundD_better g d)

theorem isWalk_cons {g : Graph} {a : Nat} {e : Edge} {es : List Edge} (h : isWalk g a (e :: es) = true) :
    e ∈ g.edges ∧ e.src = a ∧ (∃ w, e.cost = some w) ∧ isWalk g e.dst es = true := by
  simp only [isWalk, Bool.and_eq_true, decide_eq_true_eq] at h
  obtain ⟨⟨⟨h1, h2⟩, h3⟩, h4⟩ := h
  refine ⟨h1, h2, ?_, h4⟩
  cases hc : e.cost with
  | none => rw [hc] at h3; cases h3
  | some w => exact ⟨w, rfl⟩

/-- the k-round invariant, in the form that goes through for in-place (Gauss–Seidel) relaxation:
`k` rounds carry the distance of `a` along every walk of at most `k` edges starting at `a`. -/
theorem iterD_walk (g : Graph) (hwf : ∀ e ∈ g.edges, e.src < g.n) :
    ∀ (es : List Edge) (k : Nat) (dist : Dist) (a : Nat) (da : Int),
      dist a = some da → isWalk g a es = true → es.length ≤ k →
      ∃ y, iterD g k dist (walkEnd a es) = some y ∧ y ≤ da + walkCost es
  | [], k, dist, a, da, hd, _, _ => by
    obtain ⟨y, hy, le⟩ := iterD_better g k dist a da hd
    exact ⟨y, hy, by simp [walkCost]; omega⟩
  | e :: es, 0, _, _, _, _, _, hl => by simp at hl
  | e :: es, k + 1, dist, a, da, hd, hw, hl => by
    obtain ⟨he, hs, ⟨w, hc⟩, hrest⟩ := isWalk_cons hw
    subst hs
    obtain ⟨y, hy, le⟩ := roundD_edge g dist e w da he (hwf e he) hc hd
    obtain ⟨z, hz, le2⟩ := iterD_walk g hwf es k (roundD g dist) e.dst y hy hrest
      (by simp at hl; omega)
    refine ⟨z, hz, ?_⟩
    simp only [walkCost, hc, Option.getD_some]
    omega

/-- feasibility: no edge can be relaxed any more. -/
def Feasible (g : Graph) (dist : Dist) : Prop :=
  ∀ e ∈ g.edges, e.src < g.n → improves dist e = none

theorem feasible_walk (g : Graph) (dist : Dist) (hf : Feasible g dist)
    (hwf : ∀ e ∈ g.edges, e.src < g.n) :
    ∀ (es : List Edge) (a : Nat) (da : Int), dist a = some da → isWalk g a es = true →
      ∃ y, dist (walkEnd a es) = some y ∧ y ≤ da + walkCost es
  | [], a, da, hd, _ => ⟨da, hd, by simp [walkCost]⟩
  | e :: es, a, da, hd, hw => by
    obtain ⟨he, hs, ⟨w, hc⟩, hrest⟩ := isWalk_cons hw
    subst hs
    obtain ⟨y, hy, le⟩ := improves_none (hf e he (hwf e he)) hc hd
    obtain ⟨z, hz, le2⟩ := feasible_walk g dist hf hwf es e.dst y hy hrest
    refine ⟨z, hz, ?_⟩
    simp only [walkCost, hc, Option.getD_some]
    omega

/-- the predecessor walk returns at most `max_steps` markets. -/
theorem walk_length (pred : Pred) (ms : Nat) : ∀ (fuel : Nat) (cur : Option (Nat × Nat)) (steps : Nat)
    (acc path : List Nat), acc.length = steps → steps ≤ ms →
    walk pred ms fuel cur steps acc = some path → path.length ≤ ms
  | 0, _, _, _, _, _, _, h => by simp [walk] at h
  | fuel + 1, cur, steps, acc, path, ha, hs, h => by
    unfold walk at h
    split at h
    · cases h; omega
    · split at h
      · cases h
      · exact walk_length pred ms fuel _ (steps + 1) _ path (by simp [ha]) (by omega) h

end Gmx.SwapGraph

namespace Gmx.SwapGraph

theorem iterD_succ' (g : Graph) : ∀ (k : Nat) (d : Dist), iterD g (k + 1) d = iterD g k (roundD g d) :=
  fun _ _ => rfl

/-- what `bfLoop` returns: the distances are some number of rounds applied to the start, and the
cache is either untouched or exactly the distances after the round numbered `max_steps`. -/
theorem bfLoop_spec (g : Graph) : ∀ (fuel steps : Nat) (d : Dist) (p : Pred) (cin : Option Dist),
    (∃ r, (bfLoop g fuel steps d p cin).1 = iterD g r d) ∧
    ((bfLoop g fuel steps d p cin).2.2 = cin ∨
      (steps ≤ g.maxSteps ∧
        (bfLoop g fuel steps d p cin).2.2 = some (iterD g (g.maxSteps - steps + 1) d)))
  | 0, steps, d, p, cin => by
    simp only [bfLoop]
    exact ⟨⟨0, rfl⟩, Or.inl trivial⟩
  | fuel + 1, steps, d, p, cin => by
    unfold bfLoop
    simp only []
    have hd := round_dist g steps d p
    by_cases hdid : (round g steps d p).did
    · simp only [hdid, Bool.not_true, Bool.false_eq_true, if_false]
      obtain ⟨⟨r, hr⟩, hc⟩ := bfLoop_spec g fuel (steps + 1) (round g steps d p).dist
        (round g steps d p).pred (if steps = g.maxSteps then some (round g steps d p).dist else cin)
      refine ⟨⟨r + 1, by rw [hr, hd]; rfl⟩, ?_⟩
      rcases hc with hc | ⟨hle, hc⟩
      · by_cases hs : steps = g.maxSteps
        · right
          refine ⟨by omega, ?_⟩
          rw [hc, if_pos hs, hd, hs]
          simp [iterD]
        · left; rw [hc, if_neg hs]
      · right
        refine ⟨by omega, ?_⟩
        rw [hc, hd, show g.maxSteps - steps + 1 = (g.maxSteps - (steps + 1) + 1) + 1 by omega]
        rfl
    · simp only [hdid, Bool.not_false, if_true]
      refine ⟨⟨1, ?_⟩, ?_⟩
      · show (round g steps d p).dist = _
        rw [hd]; rfl
      · left; trivial

/-- the final state of the Bellman–Ford loop for a source. -/
def bfFinal (g : Graph) (src : Nat) : Dist × Pred × Option Dist :=
  bfLoop g (g.n - 1) 1 (initDist src) initPred none

theorem bellmanFord_ok {g : Graph} {src : Nat} {r : Dist × Pred} (h : bellmanFord g src = .ok r) :
    src < g.n ∧ Feasible g (bfFinal g src).1 ∧
    r.1 = (bfFinal g src).2.2.getD (bfFinal g src).1 ∧ r.2 = (bfFinal g src).2.1 := by
  unfold bellmanFord at h
  split at h
  · cases h
  · rename_i hs
    simp only [] at h
    split at h
    · cases h
    · rename_i hany
      cases h
      refine ⟨by omega, ?_, rfl, rfl⟩
      intro e he hn
      have hm := mem_relaxOrder g e he hn
      have : ¬ ((relaxOrder g).any (fun e => (improves (bfFinal g src).1 e).isSome) = true) := hany
      rw [List.any_eq_true] at this
      cases hi : improves (bfFinal g src).1 e with
      | none => rfl
      | some x => exact absurd ⟨e, hm, by simp [hi]⟩ this

end Gmx.SwapGraph

namespace Gmx.SwapGraph

/-! ### predecessors are edges of the graph -/

/-- every recorded predecessor `(u, m)` of `v` is an estimated edge `u → v` of market `m`. -/
def PredOk (g : Graph) (pred : Pred) : Prop :=
  ∀ v u m, pred v = some (u, m) →
    ∃ e ∈ g.edges, e.src = u ∧ e.dst = v ∧ e.market = m ∧ e.cost.isSome = true

theorem predOk_init (g : Graph) : PredOk g initPred := by
  intro v u m h; cases h

theorem mem_edges_of_mem_relaxOrder (g : Graph) (e : Edge) (h : e ∈ relaxOrder g) : e ∈ g.edges := by
  unfold relaxOrder at h
  rw [List.mem_flatten] at h
  obtain ⟨l, hl, he⟩ := h
  obtain ⟨i, _, rfl⟩ := List.mem_map.1 hl
  unfold outgoing at he
  rw [List.mem_reverse, List.mem_filter] at he
  exact he.1

theorem relaxEdge_predOk (g : Graph) (steps ms : Nat) (s : BFState) (e : Edge) (he : e ∈ g.edges)
    (h : PredOk g s.pred) : PredOk g (relaxEdge steps ms s e).pred := by
  unfold relaxEdge
  split
  · rename_i x hx
    obtain ⟨w, d, hw, _, _, _⟩ := improves_some hx
    simp only []
    split
    · intro v u m hv
      simp only [setP] at hv
      by_cases hq : v = e.dst
      · subst hq
        simp only [if_true] at hv
        cases hv
        exact ⟨e, he, rfl, rfl, rfl, by simp [hw]⟩
      · simp only [hq, if_false] at hv
        exact h v u m hv
    · exact h
  · exact h

theorem foldl_predOk (g : Graph) (steps ms : Nat) : ∀ (es : List Edge) (s : BFState),
    (∀ e ∈ es, e ∈ g.edges) → PredOk g s.pred → PredOk g (es.foldl (relaxEdge steps ms) s).pred
  | [], _, _, h => h
  | e :: es, s, hm, h => by
    simp only [List.foldl_cons]
    exact foldl_predOk g steps ms es _ (fun x hx => hm x (List.mem_cons_of_mem _ hx))
      (relaxEdge_predOk g steps ms s e (hm e (List.mem_cons_self ..)) h)

theorem round_predOk (g : Graph) (steps : Nat) (dist : Dist) (pred : Pred) (h : PredOk g pred) :
    PredOk g (round g steps dist pred).pred :=
  foldl_predOk g steps g.maxSteps (relaxOrder g) ⟨dist, pred, false⟩
    (fun e he => mem_edges_of_mem_relaxOrder g e he) h

theorem bfLoop_predOk (g : Graph) : ∀ (fuel steps : Nat) (d : Dist) (p : Pred) (c : Option Dist),
    PredOk g p → PredOk g (bfLoop g fuel steps d p c).2.1
  | 0, _, _, _, _, h => by simpa [bfLoop] using h
  | fuel + 1, steps, d, p, c, h => by
    unfold bfLoop
    simp only []
    have hr := round_predOk g steps d p h
    split
    · exact hr
    · exact bfLoop_predOk g fuel (steps + 1) _ _ _ hr

theorem foldl_inv {α β} (P : α → Prop) (f : α → β → α) : ∀ (l : List β) (a : α),
    P a → (∀ a b, b ∈ l → P a → P (f a b)) → P (l.foldl f a)
  | [], _, h, _ => h
  | b :: l, a, h, hf => by
    simp only [List.foldl_cons]
    exact foldl_inv P f l (f a b) (hf a b (List.mem_cons_self ..) h)
      (fun a' b' hb' => hf a' b' (List.mem_cons_of_mem _ hb'))

/-- what `dfs_recursive` may be handed as predecessor of `cur` together with a defined distance. -/
def PredArgOk (g : Graph) (cur : Nat) (distance : Option Int) (p : Option (Nat × Nat)) : Prop :=
  distance.isSome = true → ∀ u m, p = some (u, m) →
    ∃ e ∈ g.edges, e.src = u ∧ e.dst = cur ∧ e.market = m ∧ e.cost.isSome = true

theorem dfsRec_predOk (g : Graph) : ∀ (fuel cur : Nat) (distance : Option Int)
    (p : Option (Nat × Nat)) (steps : Nat) (visited : List Nat) (st : Dist × Pred),
    PredArgOk g cur distance p → PredOk g st.2 →
    PredOk g (dfsRec g fuel cur distance p steps visited st).2
  | 0, _, _, _, _, _, _, _, h => by simpa [dfsRec] using h
  | fuel + 1, cur, distance, p, steps, visited, st, hp, h => by
    unfold dfsRec
    by_cases h1 : steps > g.maxSteps
    · rw [if_pos h1]; exact h
    · rw [if_neg h1]
      cases distance with
      | none => exact h
      | some d =>
        simp only []
        by_cases h2 : pruned (st.1 cur) d = true
        · rw [if_pos h2]; exact h
        · rw [if_neg h2]
          apply foldl_inv (fun s : Dist × Pred => PredOk g s.2)
          · intro v u m hv
            simp only [setP] at hv
            by_cases hq : v = cur
            · subst hq
              simp only [if_true] at hv
              exact hp (by simp) u m hv
            · simp only [hq, if_false] at hv
              exact h v u m hv
          · intro a e he ha
            by_cases h3 : (cur :: visited).contains e.dst = true
            · rw [if_pos h3]; exact ha
            · rw [if_neg h3]
              apply dfsRec_predOk g fuel _ _ _ _ _ _ _ ha
              intro hsome u m hum
              cases hum
              unfold outgoing at he
              rw [List.mem_reverse, List.mem_filter] at he
              refine ⟨e, he.1, by simpa using he.2, rfl, rfl, ?_⟩
              cases hc : e.cost with
              | none => rw [hc] at hsome; cases hsome
              | some w => rfl

/-- the predecessor walk reconstructs a genuine walk of the graph: the returned markets are the
markets of consecutive estimated edges leading to the target, and the walk starts at a node
without predecessor. -/
theorem walk_chain (g : Graph) (pred : Pred) (hok : PredOk g pred) (ms tgt : Nat) :
    ∀ (fuel : Nat) (c : Nat) (steps : Nat) (acc path : List Nat) (es : List Edge),
      es.map (·.market) = acc → isWalk g c es = true → walkEnd c es = tgt →
      walk pred ms fuel (pred c) steps acc = some path →
      ∃ (x : Nat) (es' : List Edge), es'.map (·.market) = path ∧ isWalk g x es' = true ∧
        walkEnd x es' = tgt ∧ pred x = none
  | 0, _, _, _, _, _, _, _, _, h => by simp [walk] at h
  | fuel + 1, c, steps, acc, path, es, hm, hw, he, h => by
    unfold walk at h
    split at h
    · rename_i hn
      cases h
      exact ⟨c, es, hm, hw, he, hn⟩
    · rename_i p m hpm
      split at h
      · cases h
      · obtain ⟨e, hin, hs, hd, hmk, hc⟩ := hok c p m hpm
        refine walk_chain g pred hok ms tgt fuel p (steps + 1) (m :: acc) path (e :: es) ?_ ?_ ?_ h
        · simp [hmk, hm]
        · simp only [isWalk, Bool.and_eq_true, decide_eq_true_eq]
          exact ⟨⟨⟨hin, hs⟩, hc⟩, by rw [hd]; exact hw⟩
        · simp only [walkEnd]; rw [hd]; exact he

end Gmx.SwapGraph
