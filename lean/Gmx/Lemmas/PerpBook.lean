import Gmx.Lemmas.Perp
import Gmx.Props.C11
/-! Bookkeeping lemmas for C07: how `increase` / `decrease` move the open-interest, open-interest
in tokens and collateral-sum pools, and that nothing else in the pipeline touches them. -/
namespace Gmx.Lem
open Gmx Gmx.Perp

/-- the six pools C07 is about are equal in two markets. -/
def SameBook (a b : Market) : Prop :=
  a.oiL = b.oiL ∧ a.oiS = b.oiS ∧ a.oitL = b.oitL ∧ a.oitS = b.oitS ∧ a.collL = b.collL ∧ a.collS = b.collS

theorem SameBook.refl (a : Market) : SameBook a a := ⟨rfl, rfl, rfl, rfl, rfl, rfl⟩
theorem SameBook.trans {a b c : Market} (h1 : SameBook a b) (h2 : SameBook b c) : SameBook a c := by
  obtain ⟨a1, a2, a3, a4, a5, a6⟩ := h1
  obtain ⟨b1, b2, b3, b4, b5, b6⟩ := h2
  exact ⟨a1.trans b1, a2.trans b2, a3.trans b3, a4.trans b4, a5.trans b5, a6.trans b6⟩
theorem SameBook.symm {a b : Market} (h : SameBook a b) : SameBook b a := by
  obtain ⟨a1, a2, a3, a4, a5, a6⟩ := h
  exact ⟨a1.symm, a2.symm, a3.symm, a4.symm, a5.symm, a6.symm⟩

theorem applyDelta_sameBook {W : Nat} {m m' : Market} {il : Bool} {d : Int} (h : m.applyDelta W il d = some m') :
    SameBook m m' := by
  unfold Market.applyDelta at h
  split at h
  · cases h
  · split at h
    · cases h; exact SameBook.refl _
    · split at h
      · cases h
      · cases h; exact SameBook.refl _

theorem payToPrimaryPool_sameBook {W : Nat} {x : PCtx} {m m' : Market} {a b : Nat}
    (h : payToPrimaryPool W x m a b = some m') : SameBook m m' := by
  unfold payToPrimaryPool at h
  split at h
  · rename_i sa sb _ _
    simp only at h
    by_cases ha : sa = 0
    · simp only [ha, if_true] at h
      by_cases hb : sb = 0
      · simp only [hb, if_true] at h; cases h; exact SameBook.refl _
      · simp only [hb, if_false] at h; exact applyDelta_sameBook h
    · simp only [ha, if_false] at h
      split at h
      · cases h
      · rename_i m1 h1
        by_cases hb : sb = 0
        · simp only [hb, if_true] at h; cases h; exact applyDelta_sameBook h1
        · simp only [hb, if_false] at h; exact (applyDelta_sameBook h1).trans (applyDelta_sameBook h)
  · cases h

/-- the effect of `Pool.applyDelta` on the amounts. -/
theorem pool_applyDelta {W : Nat} {p q : Pool} {il : Bool} {d : Int} (h : p.applyDelta W il d = some q) :
    (q.amount il : Int) = p.amount il + d ∧ q.amount (!il) = p.amount (!il) := by
  unfold Pool.applyDelta at h
  split at h
  · cases h
  · rename_i v hv
    cases h
    have := C01.checkedAddWithSigned_spec hv
    cases il <;> simp [Pool.amount, Pool.setAmount] at * <;> omega

theorem doPayForCost_m {W : Nat} {x : PCtx} {s s1 : PState} {cost a b c : Nat}
    (h : doPayForCost W x s cost = some (s1, a, b, c)) : s1.m = s.m := by
  unfold doPayForCost at h
  split at h
  · cases h
  · cases h; rfl

/-- the market of a processor result keeps the C07 pools of `m`. -/
def PRes.BookOk (m : Market) : PRes → Prop
  | .ok s => SameBook m s.m
  | .short _ s => SameBook m s.m
  | .err _ => True

theorem payForCost_book {W : Nat} {x : PCtx} {s : PState} {cost : Nat} {step : Step}
    {receive : PState → Nat → Nat → Nat → Option PState}
    (hr : ∀ s1 pc ps left s2, receive s1 pc ps left = some s2 → SameBook s1.m s2.m) :
    PRes.BookOk s.m (payForCost W x s cost step receive) := by
  unfold payForCost
  split
  · trivial
  · rename_i s1 pc ps left hd
    have hm := doPayForCost_m hd
    split
    · trivial
    · rename_i s2 h2
      have := hr _ _ _ _ _ h2
      rw [hm] at this
      split <;> exact this

theorem addPnlTokenAmount_m {W : Nat} {x : PCtx} {s s' : PState} {a : Nat}
    (h : addPnlTokenAmount W x s a = some s') : s'.m = s.m := by
  unfold addPnlTokenAmount at h
  split at h
  · cases hc : checkedAdd W s.out a with
    | none => simp [hc] at h
    | some v => simp [hc] at h; subst h; rfl
  · cases hc : checkedAdd W s.sec a with
    | none => simp [hc] at h
    | some v => simp [hc] at h; subst h; rfl

theorem addPnlIfPositive_book {W : Nat} {x : PCtx} {s s' : PState} {pnl : Int}
    (h : addPnlIfPositive W x s pnl = some s') : SameBook s.m s'.m := by
  unfold addPnlIfPositive at h
  split at h
  · split at h
    · cases h
    · rename_i d _
      split at h
      · cases h
      · rename_i m1 hm1
        have e := addPnlTokenAmount_m h
        simp only at e
        cases hn : toOppositeSigned W d with
        | none => simp [hn] at hm1
        | some nd =>
          simp only [hn, Option.bind] at hm1
          have := applyDelta_sameBook hm1
          rw [e]; exact this
  · cases h; exact SameBook.refl _

theorem addImpactIfPositive_book {W : Nat} {x : PCtx} {s s' : PState} {impact : Int}
    (h : addImpactIfPositive W x s impact = some s') : SameBook s.m s'.m := by
  unfold addImpactIfPositive at h
  split at h
  · split at h
    · cases h
    · split at h
      · cases h
      · rename_i ip _
        split at h
        · cases h
        · rename_i d _
          split at h
          · cases h
          · rename_i m1 hm1
            have e := addPnlTokenAmount_m h
            simp only at e
            cases hn : toOppositeSigned W d with
            | none => simp [hn] at hm1
            | some nd =>
              simp only [hn, Option.bind] at hm1
              have := applyDelta_sameBook hm1
              rw [e]
              exact SameBook.trans ⟨rfl, rfl, rfl, rfl, rfl, rfl⟩ this
  · cases h; exact SameBook.refl _

theorem payForFunding_book {W : Nat} {x : PCtx} {s : PState} {fa : Nat} :
    PRes.BookOk s.m (payForFunding W x s fa) := by
  unfold payForFunding
  split
  · exact SameBook.refl _
  · split
    · trivial
    · apply payForCost_book
      intro s1 pc ps left s2 h
      unfold recvFunding at h
      split at h
      · cases h
      · cases h; exact SameBook.refl _

theorem payForPnl_book {W : Nat} {x : PCtx} {s : PState} {pnl : Int} :
    PRes.BookOk s.m (payForPnl W x s pnl) := by
  unfold payForPnl
  split
  · apply payForCost_book
    intro s1 pc ps left s2 h
    unfold recvToPool at h
    cases hp : payToPrimaryPool W x s1.m pc ps with
    | none => simp [hp] at h
    | some m1 => simp [hp] at h; subst h; exact payToPrimaryPool_sameBook hp
  · exact SameBook.refl _

theorem payForDiff_book {W : Nat} {x : PCtx} {s : PState} {diff : Nat} :
    PRes.BookOk s.m (payForDiff W x s diff) := by
  unfold payForDiff
  split
  · exact SameBook.refl _
  · apply payForCost_book
    intro s1 pc ps left s2 h
    unfold recvDiff at h
    split at h
    · cases h; exact SameBook.refl _
    · cases h

theorem creditImpactPool_book {W : Nat} {m m' : Market} {a pa pb : Nat}
    (h : creditImpactPool W m a pa pb = some m') : SameBook m m' := by
  unfold creditImpactPool at h
  split at h
  · cases h1 : (mulDiv W a pa pb).bind (toSigned W) with
    | none => rw [h1] at h; cases h
    | some d =>
      rw [h1] at h
      simp only [Option.bind] at h
      cases h2 : m.positionImpact.applyDelta W true d with
      | none => rw [h2] at h; cases h
      | some ip => rw [h2] at h; cases h; exact ⟨rfl, rfl, rfl, rfl, rfl, rfl⟩
  · cases h; exact SameBook.refl _

theorem payForImpact_book {W : Nat} {x : PCtx} {s : PState} {impact : Int} :
    PRes.BookOk s.m (payForImpact W x s impact) := by
  unfold payForImpact
  split
  · apply payForCost_book
    intro s1 pc ps left s2 h
    unfold recvImpact at h
    split at h
    · cases h
    · rename_i m1 hm1
      split at h
      · cases h
      · rename_i m2 hm2
        split at h
        · cases h
        · rename_i m3 hm3
          cases h
          exact ((payToPrimaryPool_sameBook hm1).trans (creditImpactPool_book hm2)).trans (creditImpactPool_book hm3)
  · exact SameBook.refl _

theorem payForFees_book {W : Nat} {x : PCtx} {s : PState} {fees : PosFees} :
    PRes.BookOk s.m (payForFees W x s fees).1 := by
  unfold payForFees
  split
  · trivial
  · split
    · exact SameBook.refl _
    · split
      · trivial
      · split
        · trivial
        · rename_i s1 pc ps left hd
          have hm := doPayForCost_m hd
          split
          · split
            · rename_i fp fr _ _
              split
              · trivial
              · rename_i m1 hm1
                split
                · trivial
                · have := applyDelta_sameBook hm1
                  rw [hm] at this
                  exact this.trans ⟨rfl, rfl, rfl, rfl, rfl, rfl⟩
            · trivial
          · split
            · trivial
            · rename_i m1 hm1
              have := payToPrimaryPool_sameBook hm1
              rw [hm] at this
              simp only
              split <;> exact this

/-- **the collateral processor never touches the C07 pools.** -/
theorem processCollateral_book {W : Nat} {x : PCtx} {s0 s : PState} {pnl impact : Int} {diff : Nat}
    {fees f : PosFees} {ins : Bool} {st : Option Step}
    (h : processCollateral W x s0 pnl impact diff fees ins = .ok (s, f, st)) : SameBook s0.m s.m := by
  unfold processCollateral at h
  simp only at h
  cases h1 : (addPnlIfPositive W x s0 pnl).bind (fun s => addImpactIfPositive W x s impact) with
  | none => simp [h1] at h
  | some s1 =>
    have b1 : SameBook s0.m s1.m := by
      cases ha : addPnlIfPositive W x s0 pnl with
      | none => simp [ha] at h1
      | some sa =>
        simp only [ha, Option.bind] at h1
        exact (addPnlIfPositive_book ha).trans (addImpactIfPositive_book h1)
    simp only [h1] at h
    have k2 := @payForFunding_book W x s1 fees.fundAmount
    cases h2 : payForFunding W x s1 fees.fundAmount with
    | err e => simp [h2] at h
    | short st2 s2 =>
      rw [h2] at k2
      simp only [h2] at h
      split at h <;> cases h
      exact b1.trans k2
    | ok s2 =>
      rw [h2] at k2
      simp only [h2] at h
      have k3 := @payForPnl_book W x s2 pnl
      cases h3 : payForPnl W x s2 pnl with
      | err e => simp [h3] at h
      | short st3 s3 =>
        rw [h3] at k3
        simp only [h3] at h
        split at h <;> cases h
        exact (b1.trans k2).trans k3
      | ok s3 =>
        rw [h3] at k3
        simp only [h3] at h
        have k4 := @payForFees_book W x s3 fees
        cases h4 : payForFees W x s3 fees with
        | mk r4 f4 =>
          rw [h4] at k4
          simp only [h4] at h
          cases r4 with
          | err e => simp at h
          | short st4 s4 =>
            simp only at h
            split at h <;> cases h
            exact ((b1.trans k2).trans k3).trans k4
          | ok s4 =>
            simp only at h
            have k5 := @payForImpact_book W x s4 impact
            cases h5 : payForImpact W x s4 impact with
            | err e => simp [h5] at h
            | short st5 s5 =>
              rw [h5] at k5
              simp only [h5] at h
              split at h <;> cases h
              exact (((b1.trans k2).trans k3).trans k4).trans k5
            | ok s5 =>
              rw [h5] at k5
              simp only [h5] at h
              have k6 := @payForDiff_book W x s5 diff
              cases h6 : payForDiff W x s5 diff with
              | err e => simp [h6] at h
              | short st6 s6 =>
                rw [h6] at k6
                simp only [h6] at h
                split at h <;> cases h
                exact ((((b1.trans k2).trans k3).trans k4).trans k5).trans k6
              | ok s6 =>
                rw [h6] at k6
                simp only [h6] at h
                cases h
                exact ((((b1.trans k2).trans k3).trans k4).trans k5).trans k6

end Gmx.Lem

namespace Gmx.Lem
open Gmx Gmx.Perp

/-- the C07 entry of a market for side `il` and collateral token `cl`:
`(open interest USD, open interest in tokens, collateral sum)`. -/
def bk (m : Market) (il cl : Bool) : Nat × Nat × Nat :=
  ((oiPool m il).amount cl, (oitPool m il).amount cl, (collPool m il).amount cl)

theorem SameBook.bk {a b : Market} (h : SameBook a b) (il cl : Bool) : bk a il cl = bk b il cl := by
  obtain ⟨h1, h2, h3, h4, h5, h6⟩ := h
  unfold Lem.bk oiPool oitPool collPool
  cases il <;> simp [*]

theorem bool_cases (a b : Bool) : a = b ∨ a = !b := by cases a <;> cases b <;> simp

/-- `update_open_interest`: the side/token entry moves by the signed deltas, everything else of
the book is unchanged (a zero USD delta is a no-op). -/
theorem updateOpenInterest_book {W : Nat} {m m' : Market} {isLong collLong : Bool} {dUsd dTok : Int}
    (h : updateOpenInterest W m isLong collLong dUsd dTok = .ok m') :
    (dUsd = 0 → m' = m) ∧
    (dUsd ≠ 0 →
      (((bk m' isLong collLong).1 : Int) = (bk m isLong collLong).1 + dUsd ∧
       ((bk m' isLong collLong).2.1 : Int) = (bk m isLong collLong).2.1 + dTok ∧
       (bk m' isLong collLong).2.2 = (bk m isLong collLong).2.2) ∧
      (∀ il cl, ¬ (il = isLong ∧ cl = collLong) → bk m' il cl = bk m il cl)) := by
  unfold updateOpenInterest at h
  by_cases h0 : dUsd = 0
  · simp only [h0, if_true] at h
    cases h
    exact ⟨fun _ => rfl, fun hn => absurd h0 hn⟩
  · simp only [h0, if_false] at h
    refine ⟨fun hz => absurd hz h0, fun _ => ?_⟩
    split at h
    · cases h
    · rename_i oi hoi
      split at h
      · cases h
      · split at h
        · cases h
        · rename_i v hv
          split at h
          · cases h
          · rename_i t ht
            cases h
            obtain ⟨a1, a2⟩ := pool_applyDelta hoi
            obtain ⟨b1, b2⟩ := pool_applyDelta ht
            constructor
            · unfold bk oiPool oitPool collPool setOitPool setOiPool at *
              cases isLong <;> simp at * <;> exact ⟨a1, b1⟩
            · intro il cl hne
              unfold bk oiPool oitPool collPool setOitPool setOiPool at *
              cases isLong <;> cases il <;> simp at * <;>
                (rcases bool_cases cl collLong with hc | hc
                 · exact absurd hc hne
                 · subst hc; exact ⟨a2, b2⟩)

theorem updateTotalBorrowingM_sameBook {W U : Nat} {m m' : Market} {p : Pos} {a b : Nat}
    (h : updateTotalBorrowingM W U m p a b = .ok m') : SameBook m m' := by
  unfold updateTotalBorrowingM at h
  split at h
  · cases h
  · cases h; exact ⟨rfl, rfl, rfl, rfl, rfl, rfl⟩

/-- writing the collateral pool of a side: only the collateral entries of that side change. -/
theorem setCollPool_bk {W : Nat} {m : Market} {il cl : Bool} {d : Int} {q : Pool}
    (h : (collPool m il).applyDelta W cl d = some q) :
    (((bk (setCollPool m il q) il cl).2.2 : Int) = (bk m il cl).2.2 + d ∧
     (bk (setCollPool m il q) il cl).1 = (bk m il cl).1 ∧ (bk (setCollPool m il q) il cl).2.1 = (bk m il cl).2.1) ∧
    (∀ a b, ¬ (a = il ∧ b = cl) → bk (setCollPool m il q) a b = bk m a b) := by
  obtain ⟨a1, a2⟩ := pool_applyDelta h
  constructor
  · unfold bk oiPool oitPool collPool setCollPool at *
    cases il <;> simp at * <;> exact a1
  · intro a b hne
    unfold bk oiPool oitPool collPool setCollPool at *
    cases il <;> cases a <;> simp at * <;>
      (rcases bool_cases b cl with hc | hc
       · exact absurd hc hne
       · subst hc; exact a2)

/-- **bookkeeping of the tail of a decrease**: the position's entry of the book loses exactly
the executed size delta, token delta and the collateral the position gave up; every other entry
is unchanged. (`sd = 0 → sdt = 0`: a collateral-only decrease closes no tokens.) -/
theorem settleDecrease_book {W U : Nat} {m m' : Market} {c : PerpCfg} {pr : Prices} {p p' : Pos}
    {sd sdt rem out out' : Nat} {rm : Bool} (h : settleDecrease W U m c pr p sd sdt rem out = .ok (m', p', rm, out'))
    (h0 : sd = 0 → sdt = 0) :
    ((bk m' p.isLong p.collLong).1 + sd = (bk m p.isLong p.collLong).1 ∧
     (bk m' p.isLong p.collLong).2.1 + sdt = (bk m p.isLong p.collLong).2.1 ∧
     (bk m' p.isLong p.collLong).2.2 + (p.collateral - p'.collateral) = (bk m p.isLong p.collLong).2.2 ∧
     p'.collateral ≤ p.collateral) ∧
    (∀ il cl, ¬ (il = p.isLong ∧ cl = p.collLong) → bk m' il cl = bk m il cl) := by
  unfold settleDecrease at h
  expose_do h
  all_goals
    (simp only [Except.ok.injEq, Prod.mk.injEq] at h
     obtain ⟨hm, hp, _, _⟩ := h
     have hb1 := updateTotalBorrowingM_sameBook ‹updateTotalBorrowingM _ _ _ _ _ _ = Except.ok _›
     have hcd := orF_ok ‹orF ((checkedSub p.collateral _).bind (toOppositeSigned W)) = Except.ok _›
     have hcs := orF_ok ‹orF (Pool.applyDelta W (collPool _ p.isLong) p.collLong _) = Except.ok _›
     have hsd := orF_ok ‹orF (toOppositeSigned W sd) = Except.ok _›
     have hsdt := orF_ok ‹orF (toOppositeSigned W sdt) = Except.ok _›
     have hoi := ‹updateOpenInterest _ _ _ _ _ _ = Except.ok _›
     subst hm
     obtain ⟨hz, hnz⟩ := updateOpenInterest_book hoi
     obtain ⟨⟨c1, c2, c3⟩, c4⟩ := setCollPool_bk hcs
     have e1 := hb1.bk p.isLong p.collLong
     -- the collateral delta
     cases hq : checkedSub p.collateral _ with
     | none => rw [hq] at hcd; cases hcd
     | some cdn =>
       rw [hq] at hcd
       simp only [Option.bind] at hcd
       obtain ⟨hle, hcdn⟩ := checkedSub_some hq
       subst hp
       simp only [Pos.syncFunding] at *
       unfold toOppositeSigned toSigned at hcd hsd hsdt
       split at hcd <;> simp only [Option.map, Option.some.injEq, reduceCtorEq] at hcd
       split at hsd <;> simp only [Option.map, Option.some.injEq, reduceCtorEq] at hsd
       split at hsdt <;> simp only [Option.map, Option.some.injEq, reduceCtorEq] at hsdt
       subst hcd; subst hsd; subst hsdt
       by_cases hs0 : sd = 0
       · have ht0 := h0 hs0
         subst hs0; subst ht0
         have := hz (by simp)
         rw [this]
         refine ⟨⟨?_, ?_, ?_, ?_⟩, fun il cl hne => ?_⟩
         · rw [c2, e1]; rfl
         · rw [c3, e1]; rfl
         · have hc1 := c1; rw [← e1] at hc1; omega
         · exact hle
         · rw [c4 il cl hne]; exact (hb1.bk il cl).symm
       · obtain ⟨⟨d1, d2, d3⟩, d4⟩ := hnz (by omega)
         refine ⟨⟨?_, ?_, ?_, ?_⟩, fun il cl hne => ?_⟩
         · rw [c2, ← e1] at d1; omega
         · rw [c3, ← e1] at d2; omega
         · rw [d3]; have hc1 := c1; rw [← e1] at hc1; omega
         · exact hle
         · rw [d4 il cl hne, c4 il cl hne]; exact (hb1.bk il cl).symm)

/-- a successful `decrease`: collateral processing on the original market, then the
bookkeeping tail on the processed market. -/
theorem decrease_parts {W U : Nat} {m m' : Market} {c : PerpCfg} {pr : Prices} {p p' : Pos} {sd0 wd : Nat}
    {fl : DecreaseFlags} {r : DecreaseReport} (h : decrease W U m c pr p sd0 wd fl = .ok (m', p', r)) :
    ∃ s fees0 ins rem out0 out1,
      processCollateral W { pr := pr, outLong := p.collLong, pnlLong := p.isLong, same := (p.isLong == p.collLong) }
        { m := m, rem := p.collateral } r.pnl r.impactValue r.impactDiff fees0 ins = .ok (s, r.fees, r.insolventStep) ∧
      settleDecrease W U s.m c pr p r.sizeDelta r.sizeDeltaTokens rem out0 = .ok (m', p', r.shouldRemove, out1) ∧
      posPnl W U m pr p r.sizeDelta = .ok (r.pnl, r.uncappedPnl, r.sizeDeltaTokens) ∧
      rem + r.withdrawable = s.rem ∧ out0 = s.out + r.withdrawable := by
  unfold decrease at h
  expose_do h
  all_goals
    (cases h
     refine ⟨_, _, _, _, _, _, ‹processCollateral _ _ _ _ _ _ _ _ = _›, ‹settleDecrease _ _ _ _ _ _ _ _ _ _ = _›,
       ‹posPnl _ _ _ _ _ _ = _›, ?_, ?_⟩
     · simp only [capTo]; split <;> omega
     · exact checkedAdd_some (orF_ok ‹orF (checkedAdd W _ (capTo _ _)) = Except.ok _›))

/-- a collateral-only decrease (`size delta = 0`) closes no tokens, for a position whose size in
tokens is zero when its size in USD is. -/
theorem posPnl_zero_delta {W U : Nat} {m : Market} {pr : Prices} {p : Pos} {pnl upnl : Int} {sdt : Nat}
    (h : posPnl W U m pr p 0 = .ok (pnl, upnl, sdt)) (hp : p.sizeUsd = 0 → p.sizeTokens = 0) : sdt = 0 := by
  unfold posPnl at h
  have h' := orF_ok h
  obtain ⟨_, _, _, _, hs, _⟩ := C11.pnlValue_spec h'
  obtain ⟨h1, h2, _⟩ := C11.size_delta_tokens_spec hs
  by_cases hz : p.sizeUsd = 0
  · rw [h1 hz]; exact hp hz
  · obtain ⟨_, hl, hsh⟩ := h2 hz
    cases hil : p.isLong
    · rw [hsh hil]; simp
    · rw [hl hil]; unfold ceilDiv
      simp only [Nat.mul_zero, Nat.zero_add]
      exact Nat.div_eq_of_lt (by omega)

/-- **bookkeeping of a successful decrease** (any flags: partial, full, capped, insolvent,
liquidation, collateral-only): the position's entry of the book loses exactly the executed USD
delta, the executed token delta and the collateral the position gave up; all other entries are
unchanged; the position keeps its side and collateral token. -/
theorem decrease_book {W U : Nat} {m m' : Market} {c : PerpCfg} {pr : Prices} {p p' : Pos} {sd0 wd : Nat}
    {fl : DecreaseFlags} {r : DecreaseReport} (h : decrease W U m c pr p sd0 wd fl = .ok (m', p', r))
    (hp : p.sizeUsd = 0 → p.sizeTokens = 0) :
    ((bk m' p.isLong p.collLong).1 + r.sizeDelta = (bk m p.isLong p.collLong).1 ∧
     (bk m' p.isLong p.collLong).2.1 + r.sizeDeltaTokens = (bk m p.isLong p.collLong).2.1 ∧
     (bk m' p.isLong p.collLong).2.2 + (p.collateral - p'.collateral) = (bk m p.isLong p.collLong).2.2 ∧
     p'.collateral ≤ p.collateral) ∧
    (∀ il cl, ¬ (il = p.isLong ∧ cl = p.collLong) → bk m' il cl = bk m il cl) ∧
    p'.isLong = p.isLong ∧ p'.collLong = p.collLong ∧
    r.sizeDelta ≤ p.sizeUsd ∧ r.sizeDeltaTokens ≤ p.sizeTokens ∧
    (r.shouldRemove = true → p'.sizeUsd = 0 ∧ p'.sizeTokens = 0 ∧ p'.collateral = 0) ∧
    (r.shouldRemove = false → p'.sizeUsd + r.sizeDelta = p.sizeUsd ∧ p'.sizeTokens + r.sizeDeltaTokens = p.sizeTokens ∧
      p'.sizeUsd ≠ 0 ∧ p'.sizeTokens ≠ 0) := by
  obtain ⟨s, fees0, ins, rem, out0, out1, hproc, hset, hpnl, _, _⟩ := decrease_parts h
  have hb := processCollateral_book hproc
  have h0 : r.sizeDelta = 0 → r.sizeDeltaTokens = 0 := by
    intro hz; rw [hz] at hpnl; exact posPnl_zero_delta hpnl hp
  obtain ⟨⟨b1, b2, b3, b4⟩, b5⟩ := settleDecrease_book hset h0
  obtain ⟨q1, q2, q3, q4, q5, q6, q7⟩ := settleDecrease_pos hset
  have e := hb.bk p.isLong p.collLong
  simp only at e
  refine ⟨⟨by rw [e]; exact b1, by rw [e]; exact b2, by rw [e]; exact b3, b4⟩, ?_, q3, q4, q1, q2, ?_, ?_⟩
  · intro il cl hne; rw [b5 il cl hne]; exact (hb.bk il cl).symm
  · intro hr; obtain ⟨a, b, d, _⟩ := q6 hr; exact ⟨a, b, d⟩
  · intro hr
    obtain ⟨a, b, _, _⟩ := q7 hr
    have hne : ¬ (p.sizeUsd - r.sizeDelta = 0 ∨ p.sizeTokens - r.sizeDeltaTokens = 0) := by
      intro hh; have := q5.2 hh; rw [hr] at this; cases this
    refine ⟨by omega, by omega, by omega, by omega⟩

/-- the market pipeline of an increase: fee pools, liquidity pool, collateral sum, impact pool,
total borrowing, open interest. -/
theorem increase_chain_book {W U : Nat} {m mA mC m' : Market} {il cl : Bool} {p : Pos} {fee' cs ip : Pool}
    {dPool dColl dU dT : Int} {ns nbf : Nat}
    (h1 : ({ m with fee := fee' } : Market).applyDelta W cl dPool = some mA)
    (h2 : (collPool mA il).applyDelta W cl dColl = some cs)
    (h3 : updateTotalBorrowingM W U { setCollPool mA il cs with positionImpact := ip } p ns nbf = .ok mC)
    (h4 : updateOpenInterest W mC il cl dU dT = .ok m') :
    (dU ≠ 0 → ((bk m' il cl).1 : Int) = (bk m il cl).1 + dU ∧ ((bk m' il cl).2.1 : Int) = (bk m il cl).2.1 + dT) ∧
    (dU = 0 → (bk m' il cl).1 = (bk m il cl).1 ∧ (bk m' il cl).2.1 = (bk m il cl).2.1) ∧
    ((bk m' il cl).2.2 : Int) = (bk m il cl).2.2 + dColl ∧
    (∀ a b, ¬ (a = il ∧ b = cl) → bk m' a b = bk m a b) := by
  have ha := applyDelta_sameBook h1
  have b0 : SameBook m mA := SameBook.trans (b := { m with fee := fee' }) ⟨rfl, rfl, rfl, rfl, rfl, rfl⟩ ha
  obtain ⟨⟨c1, c2, c3⟩, c4⟩ := setCollPool_bk h2
  have hb := updateTotalBorrowingM_sameBook h3
  have b2 : SameBook (setCollPool mA il cs) mC :=
    SameBook.trans (b := { setCollPool mA il cs with positionImpact := ip }) ⟨rfl, rfl, rfl, rfl, rfl, rfl⟩ hb
  obtain ⟨hz, hnz⟩ := updateOpenInterest_book h4
  have e0 := b0.bk il cl
  have e2 := b2.bk il cl
  refine ⟨fun hne => ?_, fun he => ?_, ?_, fun a b hab => ?_⟩
  · obtain ⟨⟨d1, d2, _⟩, _⟩ := hnz hne
    rw [← e2, c2, ← e0] at d1
    rw [← e2, c3, ← e0] at d2
    exact ⟨d1, d2⟩
  · rw [hz he, ← e2, c2, c3, ← e0]; exact ⟨rfl, rfl⟩
  · by_cases he : dU = 0
    · rw [hz he, ← e2, c1, ← e0]
    · obtain ⟨⟨_, _, d3⟩, _⟩ := hnz he
      rw [d3, ← e2, c1, ← e0]
  · by_cases he : dU = 0
    · rw [hz he, ← b2.bk a b, c4 a b hab, ← b0.bk a b]
    · obtain ⟨_, d4⟩ := hnz he
      rw [d4 a b hab, ← b2.bk a b, c4 a b hab, ← b0.bk a b]

/-- **bookkeeping of a successful increase**: the position's entry of the book gains exactly
the USD delta, the token delta and the (signed) collateral delta of the report; all other
entries are unchanged. -/
theorem increaseCore_book {W U : Nat} {m m' : Market} {c : PerpCfg} {pr : Prices} {p p' : Pos} {ci sd : Nat}
    {r : IncreaseReport} (h : increaseCore W U m c pr p ci sd = .ok (m', p', r)) :
    ((bk m' p.isLong p.collLong).1 = (bk m p.isLong p.collLong).1 + sd ∧
     (bk m' p.isLong p.collLong).2.1 = (bk m p.isLong p.collLong).2.1 + r.sizeDeltaTokens ∧
     ((bk m' p.isLong p.collLong).2.2 : Int) = (bk m p.isLong p.collLong).2.2 + r.collateralDelta) ∧
    (∀ il cl, ¬ (il = p.isLong ∧ cl = p.collLong) → bk m' il cl = bk m il cl) ∧
    p'.isLong = p.isLong ∧ p'.collLong = p.collLong ∧
    p'.sizeUsd = p.sizeUsd + sd ∧ p'.sizeTokens = p.sizeTokens + r.sizeDeltaTokens ∧
    (p'.collateral : Int) = p.collateral + r.collateralDelta := by
  unfold increaseCore at h
  expose_do h
  all_goals
    (cases h
     have hexec := ‹increaseExecution _ _ _ _ _ _ _ = Except.ok _›
     have hprim := orF_ok ‹orF (Market.applyDelta W _ p.collLong _) = Except.ok _›
     have hcs := orF_ok ‹orF (Pool.applyDelta W (collPool _ p.isLong) p.collLong _) = Except.ok _›
     have hoi := ‹updateOpenInterest _ _ _ _ _ _ = Except.ok _›
     have hsz := checkedAdd_some (orF_ok ‹orF (checkedAdd W p.sizeUsd sd) = Except.ok _›)
     have htk := checkedAdd_some (orF_ok ‹orF (checkedAdd W p.sizeTokens _) = Except.ok _›)
     have hsd := Lem.toSigned_some (orF_ok ‹orF (toSigned W sd) = Except.ok _›)
     have hcoll := C01.checkedAddWithSigned_spec ‹checkedAddWithSigned W p.collateral _ = some _›
     obtain ⟨k1, k2, k3, k4⟩ := increase_chain_book hprim hcs ‹updateTotalBorrowingM _ _ _ _ _ _ = Except.ok _› hoi
     subst hsd
     refine ⟨?_, k4, rfl, rfl, hsz, htk, by simp only [Pos.syncFunding]; omega⟩
     by_cases h0 : sd = 0
     · subst h0
       have hx : increaseExecution W U m c pr p.isLong 0 = .ok (0, BalanceChange.unchanged, 0, 0) := by
         unfold increaseExecution; simp
       rw [hx] at hexec
       cases hexec
       obtain ⟨e1, e2⟩ := k2 (by simp)
       refine ⟨by simpa using e1, by simpa using e2, k3⟩
     · obtain ⟨e1, e2⟩ := k1 (by omega)
       have hsdt := Lem.toSigned_some (orF_ok ‹orF (toSigned W (Prod.snd (Prod.snd (Prod.snd _)))) = Except.ok _›)
       refine ⟨by omega, ?_, k3⟩
       subst hsdt
       dsimp only at e2 ⊢
       exact_mod_cast e2)

/-- what a size delta looks like after the promotion rules: the whole position, or a strictly
partial delta that leaves tokens behind. -/
def GoodDelta (W : Nat) (p : Pos) (sd : Nat) : Prop :=
  sd = p.sizeUsd ∨ (sd < p.sizeUsd ∧ ∃ t, sizeDeltaInTokens W p.isLong p.sizeUsd p.sizeTokens sd = some t ∧ t < p.sizeTokens)

theorem promoteIfSmall_good {W : Nat} {c : PerpCfg} {p : Pos} {sd1 sd : Nat}
    (h : promoteIfSmall W c p sd1 = .ok sd) (hle : sd1 ≤ p.sizeUsd) : GoodDelta W p sd := by
  unfold promoteIfSmall at h
  split at h
  · split at h
    · cases h; exact Or.inl rfl
    · split at h
      · cases h
      · rename_i t ht
        cases h
        split
        · exact Or.inl rfl
        · exact Or.inr ⟨by omega, t, ht, by omega⟩
  · cases h; exact Or.inl (by omega)

theorem partialClose_good {W U : Nat} {m : Market} {c : PerpCfg} {pr : Prices} {p : Pos} {sd1 wd0 sd wd : Nat}
    (h : partialClose W U m c pr p sd1 wd0 = .ok (sd, wd)) (hle : sd1 ≤ p.sizeUsd) : GoodDelta W p sd := by
  unfold partialClose at h
  expose_do h
  all_goals
    (cases h
     apply promoteIfSmall_good ‹promoteIfSmall _ _ _ _ = Except.ok _›
     split <;> omega)

/-- **promotion**: the executed size delta of a decrease is the whole position or leaves both
dimensions strictly positive. -/
theorem adjustDecrease_good {W U : Nat} {m : Market} {c : PerpCfg} {pr : Prices} {p : Pos} {sd1 wd0 sd wd : Nat}
    (h : adjustDecrease W U m c pr p sd1 wd0 = .ok (sd, wd)) (hle : sd1 ≤ p.sizeUsd) : GoodDelta W p sd := by
  unfold adjustDecrease at h
  split at h
  · cases h
  · rename_i a b hx
    cases h
    split at hx
    · exact partialClose_good hx hle
    · cases hx; exact Or.inl (by omega)

/-- the token share realised by `pnl_value` is `size_delta_in_tokens`. -/
theorem posPnl_sdt {W U : Nat} {m : Market} {pr : Prices} {p : Pos} {sd : Nat} {pnl upnl : Int} {sdt : Nat}
    (h : posPnl W U m pr p sd = .ok (pnl, upnl, sdt)) :
    sizeDeltaInTokens W p.isLong p.sizeUsd p.sizeTokens sd = some sdt := by
  unfold posPnl at h
  obtain ⟨_, _, _, _, hs, _⟩ := C11.pnlValue_spec (orF_ok h)
  exact hs

/-- **removal happens only on a close that is full in both dimensions.** -/
theorem decrease_removed_full {W U : Nat} {m m' : Market} {c : PerpCfg} {pr : Prices} {p p' : Pos} {sd0 wd : Nat}
    {fl : DecreaseFlags} {r : DecreaseReport} (h : decrease W U m c pr p sd0 wd fl = .ok (m', p', r))
    (hr : r.shouldRemove = true) : r.sizeDelta = p.sizeUsd ∧ r.sizeDeltaTokens = p.sizeTokens := by
  obtain ⟨sd1, wd0, wd1, hadj, hle, hgt⟩ := decrease_adjusted h
  have hsd1 : sd1 ≤ p.sizeUsd := by
    by_cases he : sd0 ≤ p.sizeUsd
    · rw [hle he]; exact he
    · have := (hgt (by omega)).1; omega
  obtain ⟨s, fees0, ins, rem, out0, out1, _, hset, hpnl, _, _⟩ := decrease_parts h
  have hsdt := posPnl_sdt hpnl
  obtain ⟨_, _, _, _, hiff, _, _⟩ := settleDecrease_pos hset
  rcases adjustDecrease_good hadj hsd1 with hfull | ⟨hlt, t, ht, htl⟩
  · refine ⟨hfull, ?_⟩
    rw [hfull] at hsdt
    unfold sizeDeltaInTokens at hsdt
    simp at hsdt
    exact hsdt.symm
  · rw [ht] at hsdt
    cases hsdt
    have := hiff.1 hr
    omega

end Gmx.Lem
