import Gmx.Lemmas.PerpBook
/-! Token-ledger lemmas for C08. -/
namespace Gmx.Lem
open Gmx Gmx.Perp

/-- accounted holdings of one pool token: liquidity + swap impact + claimable fees + the two
collateral sums (`is_long` selects the long / short token). -/
def ledger (m : Market) (il : Bool) : Nat :=
  m.primary.amount il + m.swapImpact.amount il + m.fee.amount il + m.collL.amount il + m.collS.amount il

theorem takeFrom_conserves (avail need : Nat) :
    (takeFrom avail need).1 + (takeFrom avail need).2.1 = avail ∧
    (takeFrom avail need).2.1 + (takeFrom avail need).2.2 = need := by
  unfold takeFrom
  split
  · simp
  · split <;> simp <;> omega

/-- `do_pay_for_cost` moves amounts, it never creates or destroys them: what leaves the output
amount and the collateral is exactly what was paid in the collateral token; what leaves the
secondary output is exactly what was paid in the secondary token. -/
theorem payAmounts_conserves {W : Nat} {x : PCtx} {out rem sec cost o r sc pc ps left : Nat}
    (h : payAmounts W x out rem sec cost = some (o, r, sc, pc, ps, left)) :
    o + r + pc = out + rem ∧ sc + ps = sec ∧ o ≤ out ∧ r ≤ rem := by
  unfold payAmounts at h
  split at h
  · cases h; omega
  · split at h
    · cases h
    · rename_i rc0 _
      have a := takeFrom_conserves out rc0
      simp only at h
      split at h
      · cases h; omega
      · have b := takeFrom_conserves rem (takeFrom out rc0).2.2
        split at h
        · cases h
        · split at h
          · cases h; omega
          · split at h
            · cases h
            · rename_i rs0 _
              have c := takeFrom_conserves sec rs0
              split at h
              · cases h
              · cases h; omega

/-- `BaseMarketMutExt::apply_delta`: only the liquidity pool entry of that token (and the virtual
inventory, which is not a holding) changes. -/
theorem applyDelta_ledger {W : Nat} {m m' : Market} {il : Bool} {d : Int} (h : m.applyDelta W il d = some m') :
    ((ledger m' il : Nat) : Int) = ledger m il + d ∧ ledger m' (!il) = ledger m (!il) ∧ SameBook m m' ∧
    m'.fee = m.fee ∧ m'.swapImpact = m.swapImpact := by
  have hb := applyDelta_sameBook h
  unfold Market.applyDelta at h
  split at h
  · cases h
  · rename_i liq hl
    have key : ((liq.amount il : Nat) : Int) = m.primary.amount il + d ∧ liq.amount (!il) = m.primary.amount (!il) := by
      unfold Pool.applyOneSide Pool.applyDeltas at hl
      cases il
      · simp only [Bool.false_eq_true, if_false] at hl
        exact pool_applyDelta (il := false) hl
      · simp only [if_true] at hl
        split at hl
        · cases hl
        · rename_i q hq; cases hl; exact pool_applyDelta (il := true) hq
    obtain ⟨hb1, hb2, hb3, hb4, hb5, hb6⟩ := hb
    have fin : ∀ mm : Market, mm.primary = liq → mm.swapImpact = m.swapImpact → mm.fee = m.fee → mm.collL = m.collL → mm.collS = m.collS →
        ((ledger mm il : Nat) : Int) = ledger m il + d ∧ ledger mm (!il) = ledger m (!il) := by
      intro mm e1 e2 e3 e4 e5
      unfold ledger
      rw [e1, e2, e3, e4, e5]
      omega
    split at h
    · cases h
      have f := fin { m with primary := liq } rfl rfl rfl rfl rfl
      exact ⟨f.1, f.2, ⟨hb1, hb2, hb3, hb4, hb5, hb6⟩, rfl, rfl⟩
    · split at h
      · cases h
      · rename_i v' _
        cases h
        have f := fin { m with primary := liq, viSwaps := some v' } rfl rfl rfl rfl rfl
        exact ⟨f.1, f.2, ⟨hb1, hb2, hb3, hb4, hb5, hb6⟩, rfl, rfl⟩

/-- the fields the ledger reads. -/
def LF (m : Market) : Pool × Pool × Pool × Pool × Pool := (m.primary, m.swapImpact, m.fee, m.collL, m.collS)

theorem ledger_of_LF {a b : Market} (h : LF a = LF b) (il : Bool) : ledger a il = ledger b il := by
  unfold LF at h
  simp only [Prod.mk.injEq] at h
  obtain ⟨h1, h2, h3, h4, h5⟩ := h
  unfold ledger; rw [h1, h2, h3, h4, h5]

theorem updateTotalBorrowingM_LF {W U : Nat} {m m' : Market} {p : Pos} {a b : Nat}
    (h : updateTotalBorrowingM W U m p a b = .ok m') : LF m' = LF m := by
  unfold updateTotalBorrowingM at h
  split at h
  · cases h
  · cases h; rfl

theorem updateOpenInterest_LF {W : Nat} {m m' : Market} {il cl : Bool} {dU dT : Int}
    (h : updateOpenInterest W m il cl dU dT = .ok m') : LF m' = LF m := by
  unfold updateOpenInterest at h
  repeat' (split at h)
  all_goals first | (cases h; done) | skip
  all_goals (cases h; cases il <;> rfl)

/-- writing the collateral pool of a side moves the ledger of that token by the delta. -/
theorem setCollPool_ledger {W : Nat} {m : Market} {il cl : Bool} {d : Int} {q : Pool}
    (h : (collPool m il).applyDelta W cl d = some q) :
    ((ledger (setCollPool m il q) cl : Nat) : Int) = ledger m cl + d ∧
    ledger (setCollPool m il q) (!cl) = ledger m (!cl) := by
  obtain ⟨a1, a2⟩ := pool_applyDelta h
  unfold ledger collPool setCollPool at *
  cases il <;> simp at * <;> omega

/-- without liquidation fees: pool share + receiver share + funding = total cost. -/
theorem fees_split {W : Nat} {f : PosFees} {fp fr tc : Nat} (hl : f.liq = none)
    (h1 : f.forPool W = some fp) (h2 : f.forReceiver W = some fr) (h3 : f.totalCost W = some tc) :
    fp + fr + f.fundAmount = tc := by
  unfold PosFees.forPool at h1
  unfold PosFees.forReceiver at h2
  unfold PosFees.totalCost PosFees.totalCostExclFunding at h3
  rw [hl] at h1 h2 h3
  simp only at h1 h2 h3
  split at h1
  · cases h1
  · rename_i bp hbp
    obtain ⟨hle, rfl⟩ := checkedSub_some hbp
    split at h1
    · cases h1
    · rename_i a ha
      cases h1
      have ea := checkedAdd_some ha
      split at h2
      · cases h2
      · rename_i b hb
        cases h2
        have eb := checkedAdd_some hb
        split at h3
        · cases h3
        · rename_i x hx
          split at h3
          · cases h3
          · rename_i y hy
            simp only [Option.bind] at h3
            have ex := checkedAdd_some hx
            have ey := checkedAdd_some hy
            have ez := checkedAdd_some h3
            omega

theorem positionFees_noLiq {W U : Nat} {m : Market} {c : PerpCfg} {p : Pos} {cp : Price} {sd : Nat} {bc : BalanceChange}
    {f : PosFees} (h : positionFees W U m c p cp sd bc false = .ok f) : f.liq = none := by
  unfold positionFees at h
  simp only [Bool.false_eq_true, if_false] at h
  repeat' (split at h)
  all_goals first | (cases h; done) | skip
  all_goals (cases h; rfl)

theorem feePool_ledger {W : Nat} {m : Market} {cl : Bool} {d : Int} {q : Pool} (h : m.fee.applyDelta W cl d = some q) :
    ((ledger { m with fee := q } cl : Nat) : Int) = ledger m cl + d ∧ ledger { m with fee := q } (!cl) = ledger m (!cl) := by
  obtain ⟨a1, a2⟩ := pool_applyDelta h
  unfold ledger
  simp only
  omega

/-- the ledger along the market pipeline of an increase. -/
theorem increase_chain_ledger {W : Nat} {m mA mC m' : Market} {il cl : Bool} {fee' cs ip : Pool} {recv fp cd : Int}
    (h0 : m.fee.applyDelta W cl recv = some fee')
    (h1 : ({ m with fee := fee' } : Market).applyDelta W cl fp = some mA)
    (h2 : (collPool mA il).applyDelta W cl cd = some cs)
    (h3 : LF mC = LF { setCollPool mA il cs with positionImpact := ip })
    (h4 : LF m' = LF mC) :
    ((ledger m' cl : Nat) : Int) = ledger m cl + recv + fp + cd ∧ ledger m' (!cl) = ledger m (!cl) := by
  obtain ⟨a1, a2⟩ := feePool_ledger (m := m) h0
  obtain ⟨b1, b2, _, _, _⟩ := applyDelta_ledger h1
  obtain ⟨c1, c2⟩ := setCollPool_ledger h2
  have e1 : ∀ x, ledger m' x = ledger (setCollPool mA il cs) x := by
    intro x
    rw [ledger_of_LF h4 x, ledger_of_LF h3 x]
    exact ledger_of_LF rfl x
  rw [e1, e1]
  constructor <;> omega

/-- **ledger step of an increase**: the accounted holdings of the collateral token grow by the
tokens paid in minus the funding fee collected from the position; the other token's holdings are
unchanged. (Claimable funding amounts of the report are paid from the vault surplus.) -/
theorem increaseCore_ledger {W U : Nat} {m m' : Market} {c : PerpCfg} {pr : Prices} {p p' : Pos} {ci sd : Nat}
    {r : IncreaseReport} (h : increaseCore W U m c pr p ci sd = .ok (m', p', r)) :
    ledger m' p.collLong + r.fees.fundAmount = ledger m p.collLong + ci ∧
    ledger m' (!p.collLong) = ledger m (!p.collLong) := by
  unfold increaseCore at h
  expose_do h
  all_goals
    (cases h
     have hfees := ‹positionFees _ _ _ _ _ _ _ _ _ = Except.ok _›
     have hliq := positionFees_noLiq hfees
     have hinc := Lem.toSigned_some (orF_ok ‹orF (toSigned W ci) = Except.ok _›)
     have htot := orF_ok ‹orF ((PosFees.totalCost W _).bind (toSigned W)) = Except.ok _›
     have hcd := Lem.toI_some (orF_ok ‹orF (toI W (_ - _)) = Except.ok _›)
     have hrecv := orF_ok ‹orF ((PosFees.forReceiver W _).bind (toSigned W)) = Except.ok _›
     have hfeep := orF_ok ‹orF (Pool.applyDelta W m.fee p.collLong _) = Except.ok _›
     have hfp := orF_ok ‹orF ((PosFees.forPool W _).bind (toSigned W)) = Except.ok _›
     have hprim := orF_ok ‹orF (Market.applyDelta W _ p.collLong _) = Except.ok _›
     have hcs := orF_ok ‹orF (Pool.applyDelta W (collPool _ p.isLong) p.collLong _) = Except.ok _›
     have l5 := updateTotalBorrowingM_LF ‹updateTotalBorrowingM _ _ _ _ _ _ = Except.ok _›
     have l6 := updateOpenInterest_LF ‹updateOpenInterest _ _ _ _ _ _ = Except.ok _›
     obtain ⟨k1, k2⟩ := increase_chain_ledger hfeep hprim hcs l5 l6
     refine ⟨?_, k2⟩
     -- unpack the Option.bind (toSigned) results
     cases ht : PosFees.totalCost W _ with
     | none => rw [ht] at htot; cases htot
     | some tc =>
       rw [ht] at htot; simp only [Option.bind] at htot
       have e1 := Lem.toSigned_some htot
       cases hr : PosFees.forReceiver W _ with
       | none => rw [hr] at hrecv; cases hrecv
       | some fr =>
         rw [hr] at hrecv; simp only [Option.bind] at hrecv
         have e2 := Lem.toSigned_some hrecv
         cases hq : PosFees.forPool W _ with
         | none => rw [hq] at hfp; cases hfp
         | some fpn =>
           rw [hq] at hfp; simp only [Option.bind] at hfp
           have e3 := Lem.toSigned_some hfp
           have := fees_split hliq hq hr ht
           dsimp only
           omega)

/-! ### witness of F-C08 -/

def fRate : RateCfg :=
  ⟨⟨10 ^ 9, 20, 0, 0, 10, 0, 0, 0⟩, ⟨true, 10 ^ 9, true⟩, ⟨10 ^ 9, 0, 0, 0, 0, 10 ^ 18⟩, ⟨10 ^ 9, 0, 0, 0, 0, 10 ^ 18⟩⟩
def fM0 : Market := { cfg := { wCfg with orderFee := ⟨0, 0, 0, 0⟩ }, primary := ⟨10 ^ 12, 10 ^ 14⟩ }

/-- a long (20 USD) and a short (10 USD) are opened, funding accrues for one day, then the short
"increases" by nothing: `(funding fee paid by the long at opening, by the short at opening, funding
fee paid and claimable short-token amount received by the short in the third order)`. -/
def fOutcome : Option (Nat × Nat × Nat × Nat) := do
  let (m1, _, r1) ← (increase 64 (10 ^ 9) fM0 wPerp wPrices { isLong := true, collLong := false } (3 * 10 ^ 9) (20 * 10 ^ 9)).toOption
  let (m2, p2, r2) ← (increase 64 (10 ^ 9) m1 wPerp wPrices { isLong := false, collLong := false } (3 * 10 ^ 9) (10 * 10 ^ 9)).toOption
  let m3 ← (marketUpdateFunding 64 (10 ^ 9) m2 fRate wPrices).toOption
  let m4 ← (marketUpdateFunding 64 (10 ^ 9) (m3.tick 86400) fRate wPrices).toOption
  let (_, _, r5) ← (increase 64 (10 ^ 9) m4 wPerp wPrices p2 0 0).toOption
  pure (r1.fees.fundAmount, r2.fees.fundAmount, r5.fees.fundAmount, r5.fees.claimS)

/-! ### witness of F-C10 -/

/-- position impact factors 2·10⁻⁵ (both signs), exponent 2; max positive impact cap 5 %, max
negative impact cap 0.5 %; no fees. -/
def cCfg : MarketConfig := { wCfg with positionImpact := ⟨2 * 10 ^ 9, 20000, 20000⟩, orderFee := ⟨0, 0, 0, 0⟩ }
def cPerp : PerpCfg := ⟨10 ^ 9, 10 ^ 9, 10 ^ 7, 10 ^ 7, 5 * 10 ^ 7, 5 * 10 ^ 6, 25 * 10 ^ 5, 0, 0, 0⟩
/-- existing long open interest of 1000 USD, impact pool holding 10·10⁹ index tokens. -/
def cM0 : Market :=
  { cfg := cCfg, primary := ⟨10 ^ 12, 10 ^ 14⟩, oiL := ⟨0, 1000 * 10 ^ 9⟩, oitL := ⟨0, 10 ^ 10⟩, collL := ⟨0, 500 * 10 ^ 9⟩,
    positionImpact := ⟨10 ^ 10, 0⟩ }

/-- open a 500 USD short with 100·10⁹ collateral tokens and close it at once at the same prices:
`(collateral after opening, open impact, close impact, impact diff, output, claimable for the user)`. -/
def cOutcome : Option (Nat × Int × Int × Nat × Nat × Nat) := do
  let (m1, p1, r1) ← (increase 64 (10 ^ 9) cM0 cPerp wPrices { isLong := false, collLong := false } (100 * 10 ^ 9) (500 * 10 ^ 9)).toOption
  let (_, _, r2) ← (decrease 64 (10 ^ 9) m1 cPerp wPrices p1 (500 * 10 ^ 9) 0 ⟨false, false, true⟩).toOption
  pure (p1.collateral, r1.impactValue, r2.impactValue, r2.impactDiff, r2.output, r2.userOut)

end Gmx.Lem
