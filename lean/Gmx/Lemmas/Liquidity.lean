import Gmx.Lemmas.Swap
import Gmx.Model.Liquidity
/-! What the stages of a deposit (`depositPositive`, `depositNegative`, `depositFinish`,
`executeDeposit`) and a withdrawal wrote. Used by C06. -/
namespace Gmx.Lem
open Gmx

/-- `Market.applyDelta`: one side of the liquidity pool moves by `d`; only the liquidity pool and
the swap virtual inventory change. -/
theorem market_applyDelta_spec {W : Nat} {m m' : Market} {isLong : Bool} {d : Int}
    (h : m.applyDelta W isLong d = some m') :
    (m'.primary.amount isLong : Int) = m.primary.amount isLong + d ∧
    m'.primary.amount (!isLong) = m.primary.amount (!isLong) ∧
    m' = { m with primary := m'.primary, viSwaps := m'.viSwaps } := by
  unfold Market.applyDelta at h
  split at h
  · cases h
  · rename_i liq hliq
    obtain ⟨a, b⟩ := applyOneSide_spec hliq
    split at h
    · cases h; exact ⟨a, b, by simp [*]⟩
    · split at h
      · cases h
      · cases h; exact ⟨a, b, rfl⟩

/-- effect of `apply_swap_impact_value_with_cap` on the impact pool. -/
theorem applyImpact_spec {W : Nat} {pool p' : Pool} {isLong : Bool} {price : Price} {usd : Int} {mag : Nat}
    (h : applySwapImpactValueWithCap W pool isLong price usd = some (p', mag)) :
    p'.amount (!isLong) = pool.amount (!isLong) ∧
    (usd > 0 → p'.amount isLong + mag = pool.amount isLong ∧ (mag * price.max : Int) ≤ usd) ∧
    (usd < 0 → p'.amount isLong = pool.amount isLong + mag ∧ (-usd : Int) ≤ mag * price.min) ∧
    (usd = 0 → p'.amount isLong = pool.amount isLong ∧ mag = 0) := by
  unfold applySwapImpactValueWithCap at h
  split at h
  · cases h
  · rename_i amount cdv hcap
    split at h
    · cases h
    · rename_i delta hdelta
      have hdelta := toI_eq hdelta
      split at h
      · cases h
      · rename_i p hp
        cases h
        unfold Pool.applyDelta at hp
        split at hp
        · cases hp
        · rename_i v hv
          cases hp
          have hv := checkedAddWithSigned_eq hv
          have hset : (pool.setAmount isLong v).amount isLong = v ∧
              (pool.setAmount isLong v).amount (!isLong) = pool.amount (!isLong) := by
            cases isLong <;> simp [Pool.setAmount, Pool.amount]
          refine ⟨hset.2, ?_, ?_, ?_⟩
          · intro hpos
            obtain ⟨a0, a1, a2, _⟩ := cap_pos hcap hpos
            rw [hset.1]
            have e : ((delta.natAbs : Nat) : Int) = amount := by omega
            refine ⟨by omega, ?_⟩
            rw [e]
            have : (0 : Int) ≤ cdv := Int.natCast_nonneg _
            omega
          · intro hneg
            obtain ⟨a0, _, _, a3, _⟩ := cap_neg hcap hneg
            rw [hset.1]
            have e : ((delta.natAbs : Nat) : Int) = -amount := by omega
            refine ⟨by omega, ?_⟩
            rw [e]; exact a3
          · intro hz
            subst hz
            obtain ⟨a0, _⟩ := cap_zero hcap
            rw [hset.1]
            subst a0
            simp at hdelta
            subst hdelta
            simp at hv ⊢
            omega

/-- facts about one side of a deposit: where every token of the side's amount went, what was
minted, and what the market looks like afterwards. -/
structure SideFacts (W : Nat) (m m' : Market) (d : DepositParams) (isLong : Bool) (pv : Nat) (r : SideResult) : Prop where
  /-- the deposited amount splits into net amount + negative impact + the two fee shares -/
  amount : r.netAmount + r.negativeImpactAmount + r.fees.pool + r.fees.receiver = (if isLong then d.long else d.short)
  exclusive : r.positiveImpactAmount = 0 ∨ r.negativeImpactAmount = 0
  liq_same : m'.primary.amount isLong = m.primary.amount isLong + r.netAmount + r.fees.pool
  liq_opp : m'.primary.amount (!isLong) = m.primary.amount (!isLong) + r.positiveImpactAmount
  imp_same : m'.swapImpact.amount isLong = m.swapImpact.amount isLong + r.negativeImpactAmount
  imp_opp : m'.swapImpact.amount (!isLong) + r.positiveImpactAmount = m.swapImpact.amount (!isLong)
  fee_same : m'.fee.amount isLong = m.fee.amount isLong + r.fees.receiver
  fee_opp : m'.fee.amount (!isLong) = m.fee.amount (!isLong)
  frame : m' = { m with primary := m'.primary, swapImpact := m'.swapImpact, fee := m'.fee, viSwaps := m'.viSwaps }
  /-- minted = tokens for the credited positive impact (valued at the opposite MAX price) + tokens
  for the net amount (valued at the MIN price), both at the same pool value and supply -/
  minted : ∃ mtPos mtNet, r.minted = mtPos + mtNet ∧
    (r.positiveImpactAmount = 0 → mtPos = 0) ∧
    (r.positiveImpactAmount ≠ 0 → usdToMarketTokenAmount W (r.positiveImpactAmount * (d.prices.collateral (!isLong)).max) pv m.supply m.cfg.divisor = some mtPos) ∧
    usdToMarketTokenAmount W (r.netAmount * (d.prices.collateral isLong).min) pv m.supply m.cfg.divisor = some mtNet
  /-- no positive impact is credited to the very first deposit -/
  first : m.supply = 0 → r.positiveImpactAmount = 0
  pv_ok : ¬ (pv = 0 ∧ m.supply ≠ 0)

theorem depositFinish_spec {W : Nat} {ms m4 : Market} {d : DepositParams} {isLong : Bool}
    {pv supply mt0 amount : Nat} {fees : Fees} {pia nia : Nat} {r : SideResult}
    (h : depositFinish W ms d isLong pv supply mt0 amount fees pia nia = (m4, .ok r)) :
    r.fees = fees ∧ r.positiveImpactAmount = pia ∧ r.negativeImpactAmount = nia ∧ r.netAmount = amount ∧
    (∃ mt1, usdToMarketTokenAmount W (amount * (d.prices.collateral isLong).min) pv supply ms.cfg.divisor = some mt1 ∧
      r.minted = mt0 + mt1) ∧
    m4.primary.amount isLong = ms.primary.amount isLong + amount + fees.pool ∧
    m4.primary.amount (!isLong) = ms.primary.amount (!isLong) ∧
    m4 = { ms with primary := m4.primary, viSwaps := m4.viSwaps } := by
  unfold depositFinish at h
  simp only at h
  split at h
  · cases h
  · rename_i usd husd
    split at h
    · cases h
    · rename_i mt1 hmt
      split at h
      · cases h
      · rename_i mint hmint
        split at h
        · cases h
        · rename_i credit hcredit
          split at h
          · cases h
          · rename_i scredit hsc
            split at h
            · cases h
            · rename_i m4' hm4
              split at h
              · cases h
              · split at h
                · cases h
                · cases h
                  have husd := checkedMul_eq husd
                  have hmint := checkedAdd_eq hmint
                  have hcredit := checkedAdd_eq hcredit
                  have hsc := toSigned_eq hsc
                  obtain ⟨a, b, c⟩ := market_applyDelta_spec hm4
                  subst husd
                  exact ⟨rfl, rfl, rfl, rfl, ⟨mt1, hmt, hmint⟩, by omega, b, c⟩

theorem depositPositive_spec {W : Nat} {m1 ms : Market} {isLong : Bool} {opp : Price} {impact : Int}
    {pv supply mt pia : Nat} (h : depositPositive W m1 isLong opp impact pv supply = (ms, .ok (mt, pia)))
    (hpos : impact > 0) :
    ms.swapImpact.amount (!isLong) + pia = m1.swapImpact.amount (!isLong) ∧
    ms.swapImpact.amount isLong = m1.swapImpact.amount isLong ∧
    ms.primary.amount (!isLong) = m1.primary.amount (!isLong) + pia ∧
    ms.primary.amount isLong = m1.primary.amount isLong ∧
    usdToMarketTokenAmount W (pia * opp.max) pv supply m1.cfg.divisor = some mt ∧
    ms = { m1 with primary := ms.primary, swapImpact := ms.swapImpact, viSwaps := ms.viSwaps } := by
  unfold depositPositive at h
  split at h
  · cases h
  · rename_i imp' pia' himp
    simp only at h
    split at h
    · cases h
    · rename_i usd husd
      split at h
      · cases h
      · rename_i mt' hmt
        split at h
        · cases h
        · rename_i spia hspia
          split at h
          · cases h
          · rename_i m3 hm3
            split at h
            · cases h
            · cases h
              obtain ⟨i1, i2, _, _⟩ := applyImpact_spec himp
              obtain ⟨i3, _⟩ := i2 hpos
              have husd := checkedMul_eq husd
              have hspia := toSigned_eq hspia
              obtain ⟨a, b, c⟩ := market_applyDelta_spec hm3
              simp only [Bool.not_not] at i1 b
              subst husd
              refine ⟨?_, ?_, ?_, ?_, hmt, ?_⟩
              · rw [c]; exact i3
              · rw [c]; exact i1
              · have a' : (ms.primary.amount (!isLong) : Int) = m1.primary.amount (!isLong) + spia := a
                omega
              · exact b
              · rw [c]

theorem depositNegative_spec {W : Nat} {m1 ms : Market} {isLong : Bool} {price : Price} {impact : Int}
    {afterFees amount nia : Nat} (h : depositNegative W m1 isLong price impact afterFees = (ms, .ok (amount, nia)))
    (hneg : impact < 0) :
    ms.swapImpact.amount isLong = m1.swapImpact.amount isLong + nia ∧
    ms.swapImpact.amount (!isLong) = m1.swapImpact.amount (!isLong) ∧
    amount + nia = afterFees ∧
    ms = { m1 with swapImpact := ms.swapImpact } := by
  unfold depositNegative at h
  split at h
  · cases h
  · rename_i imp' nia' himp
    simp only at h
    split at h
    · cases h
    · rename_i a ha
      cases h
      obtain ⟨i1, _, i2, _⟩ := applyImpact_spec himp
      obtain ⟨i3, _⟩ := i2 hneg
      obtain ⟨hle, ha⟩ := checkedSub_eq ha
      exact ⟨i3, i1, by omega, rfl⟩

theorem executeDeposit_spec {W U : Nat} {m m' : Market} {d : DepositParams} {isLong : Bool} {pv : Nat}
    {impact : Int} {bc : BalanceChange} {r : SideResult}
    (h : executeDeposit W U m d isLong pv impact bc = (m', .ok r)) : SideFacts W m m' d isLong pv r := by
  unfold executeDeposit at h
  simp only at h
  split at h
  · cases h
  · rename_i hpv
    split at h
    · cases h
    · rename_i afterFees fees hfees
      have hcons := C02.applyFees_conserves hfees
      split at h
      · cases h
      · rename_i recv hrecv
        have hrecv := toSigned_eq hrecv
        split at h
        · cases h
        · rename_i fee' hfee
          have hf : fee'.amount isLong = m.fee.amount isLong + fees.receiver ∧ fee'.amount (!isLong) = m.fee.amount (!isLong) := by
            unfold Pool.applyDelta at hfee
            split at hfee
            · cases hfee
            · rename_i v hv
              cases hfee
              have hv := checkedAddWithSigned_eq hv
              cases isLong <;> simp [Pool.setAmount, Pool.amount] at hv ⊢ <;> omega
          generalize himp : (if impact > 0 ∧ m.supply = 0 then (0 : Int) else impact) = imp at h
          have hfirst : imp > 0 → m.supply ≠ 0 := by
            intro hp h0
            by_cases hc : impact > 0 ∧ m.supply = 0
            · simp [hc] at himp; omega
            · simp only [hc, if_false] at himp
              exact hc ⟨by omega, h0⟩
          by_cases hpos : imp > 0
          · simp only [hpos, if_true] at h
            have hs := hfirst hpos
            split at h
            · cases h
            · rename_i ms mt0 pia hp
              obtain ⟨p1, p2, p3, p4, p5, p6⟩ := depositPositive_spec hp hpos
              obtain ⟨f1, f2, f3, f4, ⟨mt1, f5, f6⟩, f7, f8, f9⟩ := depositFinish_spec h
              have hcfg : ms.cfg = m.cfg := by rw [p6]
              have hfee' : ms.fee = fee' := by rw [p6]
              have hfee4 : m'.fee = fee' := by rw [f9, hfee']
              have himp4 : m'.swapImpact = ms.swapImpact := by rw [f9]
              refine ⟨by rw [f4, f3, f1]; omega, Or.inr f3, ?_, ?_, ?_, ?_, ?_, ?_, ?_, ?_, ?_, hpv⟩
              · rw [f7, p4, f4, f1]
              · rw [f8, p3, f2]
              · rw [himp4, p2, f3]; simp
              · rw [himp4, f2]; exact p1
              · rw [hfee4, f1]; exact hf.1
              · rw [hfee4]; exact hf.2
              · rw [f9, p6]
              · refine ⟨mt0, mt1, f6, ?_, ?_, ?_⟩
                · intro hz
                  rw [f2] at hz
                  subst hz
                  simp only [Nat.zero_mul] at p5
                  obtain ⟨_, c1, c2, c3⟩ := C01.usdToMt_spec p5
                  obtain ⟨_, e, _⟩ := c3 hs; simp at e; exact e
                · intro _; rw [f2]; exact p5
                · rw [f4]; rw [hcfg] at f5; exact f5
              · intro h0; exact absurd h0 hs
          · simp only [hpos, if_false] at h
            by_cases hneg : imp < 0
            · simp only [hneg, if_true] at h
              split at h
              · cases h
              · rename_i ms amount nia hn
                obtain ⟨n1, n2, n3, n4⟩ := depositNegative_spec hn hneg
                obtain ⟨f1, f2, f3, f4, ⟨mt1, f5, f6⟩, f7, f8, f9⟩ := depositFinish_spec h
                have hcfg : ms.cfg = m.cfg := by rw [n4]
                have hfee4 : m'.fee = fee' := by rw [f9, n4]
                have himp4 : m'.swapImpact = ms.swapImpact := by rw [f9]
                have hprim : ms.primary = m.primary := by rw [n4]
                refine ⟨by rw [f4, f3, f1]; omega, Or.inl f2, ?_, ?_, ?_, ?_, ?_, ?_, ?_, ?_, ?_, hpv⟩
                · rw [f7, hprim, f4, f1]
                · rw [f8, hprim, f2]; simp
                · rw [himp4, n1, f3]
                · rw [himp4, n2, f2]; simp
                · rw [hfee4, f1]; exact hf.1
                · rw [hfee4]; exact hf.2
                · rw [f9, n4]
                · refine ⟨0, mt1, by simpa using f6, fun _ => rfl, fun hne => absurd f2 hne, ?_⟩
                  rw [f4]; rw [hcfg] at f5; exact f5
                · intro _; exact f2
            · simp only [hneg, if_false] at h
              obtain ⟨f1, f2, f3, f4, ⟨mt1, f5, f6⟩, f7, f8, f9⟩ := depositFinish_spec h
              have hfee4 : m'.fee = fee' := by rw [f9]
              have himp4 : m'.swapImpact = m.swapImpact := by rw [f9]
              refine ⟨by rw [f4, f3, f1]; omega, Or.inl f2, ?_, ?_, ?_, ?_, ?_, ?_, ?_, ?_, ?_, hpv⟩
              · rw [f7, f4, f1]
              · rw [f8, f2]; simp
              · rw [himp4, f3]; simp
              · rw [himp4, f2]; simp
              · rw [hfee4, f1]; exact hf.1
              · rw [hfee4]; exact hf.2
              · rw [f9]
              · refine ⟨0, mt1, by simpa using f6, fun _ => rfl, fun hne => absurd f2 hne, ?_⟩
                rw [f4]; exact f5
              · intro _; exact f2

/-- arithmetic core of the round trip (DESIGN Appendix E): tokens minted at `a·P ≤ S·v` and
redeemed at `value = ⌊P'·a/(S+a)⌋` with `P' ≤ P + v` are worth at most `v`. -/
theorem roundtrip_core {P S a v P' value : Nat} (hS : 0 < S + a) (h1 : a * P ≤ S * v) (h2 : P' ≤ P + v)
    (h3 : value * (S + a) ≤ P' * a) : value ≤ v := by
  apply Nat.le_of_mul_le_mul_right _ hS
  calc value * (S + a) ≤ P' * a := h3
    _ ≤ (P + v) * a := Nat.mul_le_mul_right _ h2
    _ = a * P + v * a := by rw [Nat.add_mul, Nat.mul_comm P a]
    _ ≤ S * v + v * a := Nat.add_le_add_right h1 _
    _ = v * (S + a) := by rw [Nat.mul_add, Nat.mul_comm S v]

/-- what `withdrawOutputs` computed. -/
theorem withdrawOutputs_spec {W U : Nat} {m : Market} {w : WithdrawParams} {pin : PerpIn} {la sa pv value : Nat}
    (h : withdrawOutputs W U m w pin = .ok (la, sa, pv, value)) :
    poolValue W U m w.prices .maxAfterWithdrawal false pin = some (pv : Int) ∧ 0 < pv ∧ m.supply ≠ 0 ∧
    value = pv * w.amount / m.supply ∧
    la * w.prices.long.max + sa * w.prices.short.max ≤ value := by
  unfold withdrawOutputs at h
  split at h
  · cases h
  · rename_i pvi hpv
    split at h
    · cases h
    · rename_i hneg
      split at h
      · cases h
      · rename_i hz
        split at h
        · cases h
        · rename_i lv hlv
          split at h
          · cases h
          · rename_i sv hsv
            split at h
            · cases h
            · rename_i tot htot
              split at h
              · cases h
              · rename_i val hval
                split at h
                · cases h
                · rename_i lusd hlusd
                  split at h
                  · cases h
                  · rename_i la' hla
                    split at h
                    · cases h
                    · rename_i susd hsusd
                      split at h
                      · cases h
                      · rename_i sa' hsa
                        cases h
                        have hpvn : ((pvi.natAbs : Nat) : Int) = pvi := by omega
                        unfold marketTokenAmountToUsd at hval
                        obtain ⟨hs0, hv, _⟩ := (C01.mulDiv_spec _ _ _ _ _).1 hval
                        obtain ⟨ht0, hl, _⟩ := (C01.mulDiv_spec _ _ _ _ _).1 hlusd
                        obtain ⟨_, hs, _⟩ := (C01.mulDiv_spec _ _ _ _ _).1 hsusd
                        have htot := checkedAdd_eq htot
                        unfold checkedDiv at hla hsa
                        split at hla
                        · cases hla
                        · cases hla
                          split at hsa
                          · cases hsa
                          · cases hsa
                            refine ⟨by rw [hpvn]; exact hpv, by omega, hs0, hv, ?_⟩
                            have e1 := Nat.div_mul_le_self lusd w.prices.long.max
                            have e2 := Nat.div_mul_le_self susd w.prices.short.max
                            have e3 : lusd + susd ≤ value := by
                              apply Nat.le_of_mul_le_mul_right _ (Nat.pos_of_ne_zero ht0)
                              have a1 : lusd * tot ≤ value * lv := by rw [hl]; exact Nat.div_mul_le_self _ _
                              have a2 : susd * tot ≤ value * sv := by rw [hs]; exact Nat.div_mul_le_self _ _
                              calc (lusd + susd) * tot = lusd * tot + susd * tot := Nat.add_mul _ _ _
                                _ ≤ value * lv + value * sv := Nat.add_le_add a1 a2
                                _ = value * tot := by rw [htot, Nat.mul_add]
                            omega

/-- what a successful withdrawal did. -/
structure WithdrawFacts (W U : Nat) (m m' : Market) (w : WithdrawParams) (pin : PerpIn) (r : WithdrawReport) : Prop where
  outputs : ∃ la0 sa0, withdrawOutputs W U m w pin = .ok (la0, sa0, r.poolValue, r.value) ∧
    r.longOut + r.feesL.pool + r.feesL.receiver = la0 ∧ r.shortOut + r.feesS.pool + r.feesS.receiver = sa0
  liq_long : m'.primary.long + r.feesL.receiver + r.longOut = m.primary.long
  liq_short : m'.primary.short + r.feesS.receiver + r.shortOut = m.primary.short
  fee_long : m'.fee.long = m.fee.long + r.feesL.receiver
  fee_short : m'.fee.short = m.fee.short + r.feesS.receiver
  impact : m'.swapImpact = m.swapImpact
  supply : m'.supply + w.amount = m.supply
  amount_pos : w.amount ≠ 0
  /-- the validations ran on the pools AFTER the withdrawal -/
  reserve_long : validateReserve W U m' w.prices true = .ok ()
  reserve_short : validateReserve W U m' w.prices false = .ok ()
  maxpnl : validateMaxPnl W U m' w.prices .maxAfterWithdrawal .maxAfterWithdrawal = .ok ()
  frame : m' = { m with primary := m'.primary, fee := m'.fee, viSwaps := m'.viSwaps, supply := m'.supply }

theorem withdraw_spec {W U : Nat} {m m' : Market} {w : WithdrawParams} {pin : PerpIn} {r : WithdrawReport}
    (h : withdraw W U m w pin = (m', .ok r)) : WithdrawFacts W U m m' w pin r := by
  unfold withdraw at h
  split at h
  · cases h
  · rename_i hamt
    split at h
    · cases h
    · split at h
      · cases h
      · rename_i la0 sa0 pv value hout
        split at h
        · cases h
        · rename_i la feesL hfl
          split at h
          · cases h
          · rename_i sa feesS hfs
            have cl := C02.applyFees_conserves hfl
            have cs := C02.applyFees_conserves hfs
            split at h
            · cases h
            · rename_i rl hrl
              have hrl := toSigned_eq hrl
              split at h
              · cases h
              · rename_i fee1 hfee1
                obtain ⟨g1, g2⟩ := applyDelta_long hfee1
                simp only at h
                split at h
                · cases h
                · rename_i rs hrs
                  have hrs := toSigned_eq hrs
                  split at h
                  · cases h
                  · rename_i fee2 hfee2
                    obtain ⟨g3, g4⟩ := applyDelta_short hfee2
                    split at h
                    · cases h
                    · rename_i outL houtL
                      have houtL := checkedAdd_eq houtL
                      split at h
                      · cases h
                      · rename_i dL hdL
                        have hdL := toOppositeSigned_eq hdL
                        split at h
                        · cases h
                        · rename_i m3 hm3
                          obtain ⟨k1, k2, k3⟩ := market_applyDelta_spec hm3
                          split at h
                          · cases h
                          · rename_i outS houtS
                            have houtS := checkedAdd_eq houtS
                            split at h
                            · cases h
                            · rename_i dS hdS
                              have hdS := toOppositeSigned_eq hdS
                              split at h
                              · cases h
                              · rename_i m4 hm4
                                obtain ⟨j1, j2, j3⟩ := market_applyDelta_spec hm4
                                split at h
                                · cases h
                                · rename_i hr1
                                  split at h
                                  · cases h
                                  · rename_i hr2
                                    split at h
                                    · cases h
                                    · rename_i hmp
                                      split at h
                                      · cases h
                                      · rename_i sup hsup
                                        obtain ⟨hle, hsup⟩ := checkedSub_eq hsup
                                        cases h
                                        simp only [Pool.amount, if_true, Bool.not_true, Bool.false_eq_true, if_false, Bool.not_false] at k1 k2 j1 j2
                                        have e3f : m3.fee = fee2 := by rw [k3]
                                        have e4f : m4.fee = fee2 := by rw [j3, e3f]
                                        have e3i : m3.swapImpact = m.swapImpact := by rw [k3]
                                        have e4i : m4.swapImpact = m.swapImpact := by rw [j3, e3i]
                                        have e4s : m4.supply = m.supply := by rw [j3, k3]
                                        have k1' : (m3.primary.long : Int) = m.primary.long + dL := k1
                                        have k2' : m3.primary.short = m.primary.short := k2
                                        refine ⟨⟨la0, sa0, hout, by omega, by omega⟩, ?_, ?_, ?_, ?_, ?_, ?_, hamt, hr1, hr2, hmp, ?_⟩
                                        · show m4.primary.long + feesL.receiver + la = m.primary.long
                                          omega
                                        · show m4.primary.short + feesS.receiver + sa = m.primary.short
                                          omega
                                        · show m4.fee.long = m.fee.long + feesL.receiver
                                          rw [e4f]; omega
                                        · show m4.fee.short = m.fee.short + feesS.receiver
                                          rw [e4f]; omega
                                        · exact e4i
                                        · show sup + w.amount = m.supply
                                          omega
                                        · show ({ m4 with supply := sup } : Market) = _
                                          rw [j3, k3]

/-- what a successful deposit did: the two sides are two `executeDeposit` runs at the same pool
value (maximised, `MaxAfterDeposit`) and supply, then the sum is minted. -/
structure DepositFacts (W U : Nat) (m m' : Market) (d : DepositParams) (pin : PerpIn) (t : DepositTrace) : Prop where
  nonempty : ¬ (d.long = 0 ∧ d.short = 0)
  pv : poolValue W U m d.prices .maxAfterDeposit true pin = some (t.poolValue : Int)
  sides : ∃ mL mS,
    (d.long ≠ 0 → SideFacts W m mL d true t.poolValue t.long) ∧ (d.long = 0 → mL = m ∧ t.long = {}) ∧
    (d.short ≠ 0 → SideFacts W mL mS d false t.poolValue t.short) ∧ (d.short = 0 → mS = mL ∧ t.short = {}) ∧
    m' = { mS with supply := m'.supply } ∧ m'.supply = mS.supply + t.report.minted
  minted : t.report.minted = t.long.minted + t.short.minted
  feesL : t.report.feesL = t.long.fees
  feesS : t.report.feesS = t.short.fees

theorem deposit_spec {W U : Nat} {m m' : Market} {d : DepositParams} {pin : PerpIn} {t : DepositTrace}
    (h : deposit W U m d pin = (m', .ok t)) : DepositFacts W U m m' d pin t := by
  unfold deposit at h
  split at h
  · cases h
  · rename_i hne
    split at h
    · cases h
    · split at h
      · cases h
      · rename_i impact bc usdL usdS himp
        split at h
        · cases h
        · rename_i pv hpv
          split at h
          · cases h
          · rename_i hnn
            simp only at h
            have hpvn : ((pv.natAbs : Nat) : Int) = pv := by omega
            split at h
            · cases h
            · rename_i mL rL hL
              split at h
              · cases h
              · rename_i mS rS hS
                split at h
                · cases h
                · rename_i minted hminted
                  have hminted := checkedAdd_eq hminted
                  split at h
                  · cases h
                  · rename_i sup hsup
                    have hsup := checkedAdd_eq hsup
                    cases h
                    refine ⟨hne, by rw [hpvn]; exact hpv, ⟨mL, mS, ?_, ?_, ?_, ?_, rfl, hsup⟩, hminted, rfl, rfl⟩
                    · intro hl
                      simp only [hl, ne_eq, not_false_eq_true, if_true] at hL
                      split at hL
                      · cases hL
                      · split at hL
                        · cases hL
                        · exact executeDeposit_spec hL
                    · intro hl
                      simp only [hl, ne_eq, not_true_eq_false, if_false] at hL
                      cases hL; exact ⟨rfl, rfl⟩
                    · intro hs
                      simp only [hs, ne_eq, not_false_eq_true, if_true] at hS
                      split at hS
                      · cases hS
                      · split at hS
                        · cases hS
                        · exact executeDeposit_spec hS
                    · intro hs
                      simp only [hs, ne_eq, not_true_eq_false, if_false] at hS
                      cases hS; exact ⟨rfl, rfl⟩

/-! ### token conservation and frame of both legs -/

theorem side_holdings {W : Nat} {m m' : Market} {d : DepositParams} {isLong : Bool} {pv : Nat} {r : SideResult}
    (f : SideFacts W m m' d isLong pv r) :
    m'.holdings isLong = m.holdings isLong + (if isLong then d.long else d.short) ∧
    m'.holdings (!isLong) = m.holdings (!isLong) := by
  unfold Market.holdings
  have := f.amount; have := f.liq_same; have := f.liq_opp; have := f.imp_same; have := f.imp_opp
  have := f.fee_same; have := f.fee_opp
  constructor <;> omega

/-- a successful deposit increases the holdings (liquidity + swap impact + claimable fees) of each
token by exactly the deposited amount and the supply by the minted amount. -/
theorem deposit_holdings {W U : Nat} {m m' : Market} {d : DepositParams} {pin : PerpIn} {t : DepositTrace}
    (h : deposit W U m d pin = (m', .ok t)) :
    m'.holdings true = m.holdings true + d.long ∧ m'.holdings false = m.holdings false + d.short := by
  have f := deposit_spec h
  obtain ⟨mL, mS, hl, hl0, hsh, hs0, hm', _⟩ := f.sides
  have e' : ∀ b, m'.holdings b = mS.holdings b := by intro b; rw [hm']; rfl
  have hL : mL.holdings true = m.holdings true + d.long ∧ mL.holdings false = m.holdings false := by
    by_cases hz : d.long = 0
    · obtain ⟨e1, _⟩ := hl0 hz; rw [e1, hz]; simp
    · have := side_holdings (hl hz); simpa using this
  have hS : mS.holdings false = mL.holdings false + d.short ∧ mS.holdings true = mL.holdings true := by
    by_cases hz : d.short = 0
    · obtain ⟨e1, _⟩ := hs0 hz; rw [e1, hz]; simp
    · have := side_holdings (hsh hz); simpa using this
  rw [e' true, e' false]; omega

/-- a successful withdrawal decreases the holdings of each token by exactly the amount paid out. -/
theorem withdraw_holdings {W U : Nat} {m m' : Market} {w : WithdrawParams} {pin : PerpIn} {r : WithdrawReport}
    (h : withdraw W U m w pin = (m', .ok r)) :
    m'.holdings true + r.longOut = m.holdings true ∧ m'.holdings false + r.shortOut = m.holdings false := by
  have f := withdraw_spec h
  unfold Market.holdings
  simp only [Pool.amount, if_true, Bool.false_eq_true, if_false]
  have := f.liq_long; have := f.liq_short; have := f.fee_long; have := f.fee_short
  rw [f.impact]
  constructor <;> omega

/-- a successful deposit changes only the liquidity, swap-impact, claimable-fee pools, the swap
virtual inventory and the supply; the liquidity pools grow by the credited amounts. -/
theorem deposit_frame {W U : Nat} {m m₁ : Market} {d : DepositParams} {pin : PerpIn} {t : DepositTrace}
    (hd : deposit W U m d pin = (m₁, .ok t)) :
    m₁ = { m with primary := m₁.primary, swapImpact := m₁.swapImpact, fee := m₁.fee, viSwaps := m₁.viSwaps,
                  supply := m₁.supply } ∧
    m₁.primary.long = m.primary.long + (t.long.netAmount + t.long.fees.pool + t.short.positiveImpactAmount) ∧
    m₁.primary.short = m.primary.short + (t.short.netAmount + t.short.fees.pool + t.long.positiveImpactAmount) := by
  have f := deposit_spec hd
  obtain ⟨mL, mS, fl, fl0, fs, fs0, hm, _⟩ := f.sides
  have hL : mL = { m with primary := mL.primary, swapImpact := mL.swapImpact, fee := mL.fee, viSwaps := mL.viSwaps } ∧
      mL.primary.long = m.primary.long + (t.long.netAmount + t.long.fees.pool) ∧
      mL.primary.short = m.primary.short + t.long.positiveImpactAmount := by
    by_cases hz : d.long = 0
    · obtain ⟨e1, e2⟩ := fl0 hz; rw [e1, e2]; exact ⟨rfl, rfl, rfl⟩
    · have g := fl hz
      have a := g.liq_same; have b := g.liq_opp
      simp only [Pool.amount, if_true, Bool.not_true, Bool.false_eq_true, if_false] at a b
      exact ⟨g.frame, by omega, b⟩
  have hS : mS = { mL with primary := mS.primary, swapImpact := mS.swapImpact, fee := mS.fee, viSwaps := mS.viSwaps } ∧
      mS.primary.short = mL.primary.short + (t.short.netAmount + t.short.fees.pool) ∧
      mS.primary.long = mL.primary.long + t.short.positiveImpactAmount := by
    by_cases hz : d.short = 0
    · obtain ⟨e1, e2⟩ := fs0 hz; rw [e1, e2]; exact ⟨rfl, rfl, rfl⟩
    · have g := fs hz
      have a := g.liq_same; have b := g.liq_opp
      simp only [Pool.amount, Bool.false_eq_true, if_false, Bool.not_false, if_true] at a b
      exact ⟨g.frame, by omega, b⟩
  refine ⟨?_, ?_, ?_⟩
  · rw [hm, hS.1, hL.1]
  · rw [hm]; show mS.primary.long = _; omega
  · rw [hm]; show mS.primary.short = _; omega

end Gmx.Lem



