import Gmx.Model.GtBank
/-! Helper lemmas for C37: division arithmetic of the pro-rata payout and list plumbing. -/
namespace Gmx.GtBank
open Gmx

/-- payout never exceeds the balance. -/
theorem share_le (B g R : Nat) (hg : g ≤ R) : B * g / R ≤ B := by
  by_cases hR : R = 0
  · subst hR; simp
  · apply Nat.div_le_of_le_mul
    rw [Nat.mul_comm R B]
    exact Nat.mul_le_mul_left B hg

/-- the lead's key step: `B·(R−g) ≤ (B − ⌊B·g/R⌋)·R`. -/
theorem step_key (B g R : Nat) : B * (R - g) ≤ (B - B * g / R) * R := by
  have h1 : B * g / R * R ≤ B * g := Nat.div_mul_le_self _ _
  rw [Nat.sub_mul, Nat.mul_sub]
  omega

/-- invariant step: `B₀·R ≤ B·R₀` is preserved by a claim of `g ≤ R`. -/
theorem inv_step (B0 R0 B R g : Nat) (hR : 0 < R) (h : B0 * R ≤ B * R0) :
    B0 * (R - g) ≤ (B - B * g / R) * R0 := by
  have k := step_key B g R
  apply Nat.le_of_mul_le_mul_right _ hR
  calc B0 * (R - g) * R = B0 * R * (R - g) := by ac_rfl
    _ ≤ B * R0 * (R - g) := Nat.mul_le_mul_right _ h
    _ = B * (R - g) * R0 := by ac_rfl
    _ ≤ (B - B * g / R) * R * R0 := Nat.mul_le_mul_right _ k
    _ = (B - B * g / R) * R0 * R := by ac_rfl

/-- under the invariant the current pro-rata share dominates the share of the originals. -/
theorem share_mono (B0 R0 B R g : Nat) (hR : 0 < R) (hR0 : 0 < R0) (h : B0 * R ≤ B * R0) :
    B0 * g / R0 ≤ B * g / R := by
  rw [Nat.le_div_iff_mul_le hR]
  have q := Nat.div_mul_le_self (B0 * g) R0
  apply Nat.le_of_mul_le_mul_right _ hR0
  calc B0 * g / R0 * R * R0 = B0 * g / R0 * R0 * R := by ac_rfl
    _ ≤ B0 * g * R := Nat.mul_le_mul_right _ q
    _ = B0 * R * g := by ac_rfl
    _ ≤ B * R0 * g := Nat.mul_le_mul_right _ h
    _ = B * g * R0 := by ac_rfl

/-- the payout function of one token. -/
def payOne (g R bal : Nat) : Nat × Nat × Nat :=
  (bal * g / R, bal - bal * g / R, if bal = 0 then 0 else 1)

theorem claimOne_eq (g R bal : Nat) (hR : R ≠ 0) (hg : g ≤ R) (hb : bal < 2 ^ 64) :
    claimOne g R bal = some (payOne g R bal) := by
  unfold claimOne payOne
  by_cases h0 : bal = 0
  · subst h0; simp
  · have hle := share_le bal g R hg
    have hfit : bal * g / R < 2 ^ 64 := by omega
    simp only [h0, if_false, mulDiv, hR, toU, hfit, if_true]
    by_cases ha : bal * g / R = 0
    · simp [ha]
    · simp [ha, hle]

/-- whenever a slot succeeds it is the floor formula (no fit hypothesis needed). -/
theorem claimOne_some {g R bal : Nat} {r : Nat × Nat × Nat} (h : claimOne g R bal = some r) (hR : R ≠ 0) :
    r = payOne g R bal := by
  unfold claimOne at h
  unfold payOne
  by_cases h0 : bal = 0
  · subst h0; simp at h; simp [← h]
  · by_cases hfit : bal * g / R < 2 ^ 64
    · by_cases hz : bal * g / R = 0
      · simp [h0, mulDiv, hR, toU, hfit, hz] at h
        simp [← h, hz, h0]
      · by_cases hle : bal * g / R ≤ bal
        · simp [h0, mulDiv, hR, toU, hfit, hz, hle] at h
          simp [← h, h0]
        · simp [h0, mulDiv, hR, toU, hfit, hz, hle] at h
    · simp [h0, mulDiv, hR, toU, hfit] at h

theorem claimAll_some {g R : Nat} (hR : R ≠ 0) : ∀ {bs : List Nat} {rs : List (Nat × Nat × Nat)},
    claimAll g R bs = some rs → rs = bs.map (payOne g R)
  | [], rs, h => by simp [claimAll] at h; simp [← h]
  | b :: bs, rs, h => by
    simp only [claimAll] at h
    split at h
    · rename_i x xs hx hxs
      cases h
      rw [claimOne_some hx hR, claimAll_some hR hxs]; rfl
    · cases h

theorem claimAll_total {g R : Nat} (hR : R ≠ 0) (hg : g ≤ R) : ∀ (bs : List Nat),
    (∀ b ∈ bs, b < 2 ^ 64) → claimAll g R bs = some (bs.map (payOne g R))
  | [], _ => by simp [claimAll]
  | b :: bs, h => by
    simp only [claimAll]
    rw [claimOne_eq g R b hR hg (h b (List.mem_cons_self ..)),
      claimAll_total hR hg bs (fun x hx => h x (List.mem_cons_of_mem _ hx))]
    rfl

/-- characterisation of a successful non-trivial claim. -/
theorem claim_some {b b' : Bank} {g n : Nat} {amts : List Nat} (h : claim b g = some (b', n, amts))
    (hg : 0 < g) :
    g ≤ b.remaining ∧
    amts = b.balances.map (fun B => B * g / b.remaining) ∧
    b'.balances = b.balances.map (fun B => B - B * g / b.remaining) ∧
    b'.remaining = b.remaining - g ∧ b'.confirmed = b.confirmed := by
  unfold claim at h
  have hg0 : g ≠ 0 := by omega
  simp only [hg0, if_false] at h
  split at h
  · cases h
  · rename_i hlt
    have hR : b.remaining ≠ 0 := by omega
    split at h
    · cases h
    · rename_i rs hrs
      have e := claimAll_some hR hrs
      cases h
      subst e
      refine ⟨by omega, ?_, ?_, rfl, rfl⟩
      · simp [List.map_map, payOne, Function.comp_def]
      · simp [List.map_map, payOne, Function.comp_def]

theorem claim_zero (b : Bank) : claim b 0 = some (b, 0, b.balances.map (fun _ => 0)) := by
  simp [claim]

/-- positional invariant between the original bank and the current one. -/
def Dominates (b0 b : Bank) : Prop :=
  b.remaining ≤ b0.remaining ∧ b.balances.length = b0.balances.length ∧
  ∀ p ∈ List.zip b0.balances b.balances, p.1 * b.remaining ≤ p.2 * b0.remaining

theorem zip_self_eq {l : List Nat} : ∀ p ∈ List.zip l l, p.1 = p.2 := by
  induction l with
  | nil => intro p hp; simp at hp
  | cons x xs ih =>
    intro p hp
    simp only [List.zip_cons_cons, List.mem_cons] at hp
    rcases hp with rfl | hp
    · rfl
    · exact ih p hp

theorem dominates_refl (b : Bank) : Dominates b b := by
  refine ⟨Nat.le_refl _, rfl, ?_⟩
  intro p hp
  rw [zip_self_eq p hp]; exact Nat.le_refl _

theorem mem_zip_map_right {α β γ : Type} (f : β → γ) (l : List α) (l' : List β) (p : α × γ)
    (h : p ∈ List.zip l (l'.map f)) : ∃ q ∈ List.zip l l', p = (q.1, f q.2) := by
  rw [List.zip_map_right] at h
  obtain ⟨q, hq, rfl⟩ := List.mem_map.1 h
  exact ⟨q, hq, rfl⟩

theorem dominates_claim {b0 b b' : Bank} {g n : Nat} {amts : List Nat} (hD : Dominates b0 b)
    (h : claim b g = some (b', n, amts)) :
    Dominates b0 b' ∧ ∀ p ∈ List.zip b0.balances amts, p.1 * g / b0.remaining ≤ p.2 := by
  by_cases hg : g = 0
  · subst hg
    rw [claim_zero] at h
    cases h
    refine ⟨hD, ?_⟩
    intro p hp
    simp
  · obtain ⟨hgr, ha, hb, hr, _⟩ := claim_some h (by omega)
    obtain ⟨hrem, hlen, hz⟩ := hD
    have hR : 0 < b.remaining := by omega
    have hR0 : 0 < b0.remaining := by omega
    constructor
    · refine ⟨by omega, by rw [hb]; simpa using hlen, ?_⟩
      intro p hp
      rw [hb] at hp
      obtain ⟨q, hq, rfl⟩ := mem_zip_map_right _ _ _ _ hp
      rw [hr]
      exact inv_step q.1 b0.remaining q.2 b.remaining g hR (hz q hq)
    · intro p hp
      rw [ha] at hp
      obtain ⟨q, hq, rfl⟩ := mem_zip_map_right _ _ _ _ hp
      exact share_mono q.1 b0.remaining q.2 b.remaining g hR hR0 (hz q hq)

end Gmx.GtBank
